(* Proofs/StreamRun.v — lemmas about Model/StreamRun.v (property C19, run level).

   Part 1  store and list facts
   Part 2  all-predecessor mode: the status invariant SInv (every node fires at most once, a started
           channel keeps a resolved control predecessor waiting, a skipped channel is empty, values
           only come from resolved tasks) and its preservation by every channel operation and phase
   Part 3  accounting (mode independent): the live handles are exactly those stored in the channels
           plus the in-flight ones, for every operation of the engine
   Part 4  the run loop: superstep / run_from for both modes, initChannelManager, open_empty_at_end *)
From Eino Require Import Base.Util Model.StreamAcct Proofs.StreamAcct Model.StreamRun.
From Coq Require Import Lia Permutation.
Open Scope N_scope.

(* ================================================================== Part 1 *)

(* ------------------------------------------------------------------ small facts *)
Lemma res_bind_ok : forall (A B : Type) (r : res A) (f : A -> res B) b,
  res_bind r f = Ok b -> exists a, r = Ok a /\ f a = Ok b.
Proof. intros A B [a|e|] f b H; simpl in H; try discriminate. eauto. Qed.

Ltac bind_ok H a Ha :=
  apply res_bind_ok in H; destruct H as (a & Ha & H).

Lemma upd_same : forall (A : Type) (f : key -> A) k a, upd f k a k = a.
Proof. intros. unfold upd. now rewrite N.eqb_refl. Qed.
Lemma upd_other : forall (A : Type) (f : key -> A) k a x, x <> k -> upd f k a x = f x.
Proof. intros. unfold upd. destruct (N.eqb_spec x k); congruence. Qed.

Lemma nlist_get_in : forall (A : Type) k (l : list (N * A)) a, nlist_get k l = Some a -> In k (map fst l).
Proof.
  induction l as [|[k' a'] l IH]; simpl; intros a H; [discriminate|].
  destruct (N.eqb_spec k k') as [Heq|Hne].
  - left. now subst.
  - right. eapply IH. exact H.
Qed.

Lemma memb_false : forall k l, memb k l = false <-> ~ In k l.
Proof.
  intros. rewrite <- memb_in. destruct (memb k l); split; intros H; try congruence.
Qed.

(* ------------------------------------------------------------------ the store *)
Lemma consume_perm : forall h s s', consume h s = Ok s' ->
  Permutation (s_open s) (h :: s_open s') /\ s_next s' = s_next s /\ s_log s' = s_log s.
Proof.
  unfold consume. intros h s s' H. destruct (memb h (s_open s)) eqn:E; [|discriminate].
  inversion H; subst s'; clear H. simpl. apply memb_in in E. repeat split. now apply remove_one_in_perm.
Qed.

Lemma consume_ok : forall h s s', store_ok s -> consume h s = Ok s' -> store_ok s'.
Proof.
  intros h s s' (Hnd & Hlt & Hc & Hcp & Hmg & Hop) H. destruct (consume_perm _ _ _ H) as (HP & Hn & _).
  unfold consume in H. destruct (memb h (s_open s)) eqn:E; [|discriminate]. inversion H; subst s'; clear H. simpl in *.
  assert (Hsub : forall x, In x (remove_one h (s_open s)) -> In x (s_open s)).
  { intros x Hx. eapply Permutation_in; [symmetry; exact HP|now right]. }
  split; [|split].
  - eapply Permutation_NoDup in Hnd; [|exact HP]. now inversion Hnd.
  - intros x Hx. apply Hlt. now apply Hsub.
  - unfold hist_ok. simpl. split; [|split; [|split]].
    + intros x Hx.
      assert (Hcr : created (s_hist s) x).
      { destruct Hx as [[E'|Hx]|[(p & cs & [E'|Hp] & Hx)|(hs & [E'|Hm])]]; try discriminate.
        - now left.
        - right. left. eauto.
        - right. right. eauto. }
      destruct (Hc x Hcr) as [Hl [Ho|Hr]]; split; auto.
      * destruct (N.eq_dec x h) as [->|Hne]; [right; left; now left|].
        left. now apply remove_one_in_other_h.
      * right. now apply retired_cons.
    + intros p cs [E'|Hp] c Hcin; [discriminate|]. eapply Hcp; eauto.
    + intros ms h' [E'|Hm] x Hx; [discriminate|]. eapply Hmg; eauto.
    + intros x Hx. apply created_cons. apply Hop. now apply Hsub.
Qed.

Lemma consume_all_perm : forall hs s s', consume_all hs s = Ok s' ->
  Permutation (s_open s) (hs ++ s_open s') /\ s_next s' = s_next s /\ s_log s' = s_log s.
Proof.
  induction hs as [|h hs IH]; simpl; intros s s' H.
  - inversion H; subst. repeat split. reflexivity.
  - bind_ok H s1 H1. destruct (consume_perm _ _ _ H1) as (HP1 & Hn1 & Hl1).
    destruct (IH _ _ H) as (HP & Hn & Hl). repeat split; try congruence.
    rewrite HP1, HP. reflexivity.
Qed.

Lemma consume_all_ok : forall hs s s', store_ok s -> consume_all hs s = Ok s' -> store_ok s'.
Proof.
  induction hs as [|h hs IH]; simpl; intros s s' Hok H.
  - now inversion H; subst.
  - bind_ok H s1 H1. eapply IH; [|exact H]. eapply consume_ok; eauto.
Qed.

Lemma fresh_spec : forall s h s', fresh s = (h, s') ->
  s_open s' = s_open s ++ [h] /\ (store_ok s -> store_ok s' /\ ~ In h (s_open s)).
Proof.
  unfold fresh. intros s h s' H. inversion H; subst; clear H. simpl. split; [reflexivity|].
  intros (Hnd & Hlt & Hc & Hcp & Hmg & Hop). split; [split; [|split]|]; simpl.
  - apply NoDup_app_intro; [exact Hnd|repeat constructor; intros []|].
    intros x Hx [<-|[]]. apply Hlt in Hx. lia.
  - intros x Hx. apply in_app_or in Hx as [Hx|[<-|[]]]; [apply Hlt in Hx|]; lia.
  - unfold hist_ok. simpl. split; [|split; [|split]].
    + intros x Hx.
      destruct Hx as [[E'|Hx]|[(p & cs & [E'|Hp] & Hx)|(hs & [E'|Hm])]]; try discriminate.
      * inversion E'; subst x. split; [lia|]. left. apply in_or_app. right. now left.
      * destruct (Hc x (or_introl Hx)) as [Hl [Ho|Hr]]; split; try lia; [left; apply in_or_app; now left|right; now apply retired_cons].
      * assert (Hcr : created (s_hist s) x) by (right; left; eauto).
        destruct (Hc x Hcr) as [Hl [Ho|Hr]]; split; try lia; [left; apply in_or_app; now left|right; now apply retired_cons].
      * assert (Hcr : created (s_hist s) x) by (right; right; eauto).
        destruct (Hc x Hcr) as [Hl [Ho|Hr]]; split; try lia; [left; apply in_or_app; now left|right; now apply retired_cons].
    + intros p cs [E'|Hp] c Hcin; [discriminate|]. eapply Hcp; eauto.
    + intros ms h' [E'|Hm] x Hx; [discriminate|]. eapply Hmg; eauto.
    + intros x Hx. apply in_app_or in Hx as [Hx|[<-|[]]]; [apply created_cons; now apply Hop|left; now left].
  - intros Hin. apply Hlt in Hin. lia.
Qed.

(* ------------------------------------------------------------------ projections of the state updates *)
Lemma chans_set_chan : forall st x c y, rs_chans (set_chan st x c) y = if N.eqb y x then c else rs_chans st y.
Proof. reflexivity. Qed.
Lemma chans_set_chan_same : forall st x c, rs_chans (set_chan st x c) x = c.
Proof. intros. rewrite chans_set_chan. now rewrite N.eqb_refl. Qed.
Lemma chans_set_chan_other : forall st x c y, y <> x -> rs_chans (set_chan st x c) y = rs_chans st y.
Proof. intros. rewrite chans_set_chan. destruct (N.eqb_spec y x); congruence. Qed.

(* what the channel operations leave alone: pending tasks and resolved tasks *)
Definition same_tasks (st st' : rstate) : Prop :=
  rs_pending st' = rs_pending st /\ rs_resolved st' = rs_resolved st.

Lemma same_tasks_refl : forall st, same_tasks st st.
Proof. now split. Qed.
Lemma same_tasks_trans : forall a b c, same_tasks a b -> same_tasks b c -> same_tasks a c.
Proof. intros a b c [H1 H2] [H3 H4]. split; congruence. Qed.

Lemma close_all_spec : forall o hs st st', close_all o hs st = Ok st' ->
  rs_chans st' = rs_chans st /\ same_tasks st st' /\
  Permutation (s_open (rs_store st)) (hs ++ s_open (rs_store st')) /\
  (store_ok (rs_store st) -> store_ok (rs_store st')).
Proof.
  unfold close_all. intros o hs st st' H. bind_ok H s Hs. inversion H; subst st'; clear H. simpl.
  split; [reflexivity|]. split; [now split|]. split.
  - apply (consume_all_perm _ _ _ Hs).
  - intros Hok. eapply consume_all_ok; eauto.
Qed.

(* ------------------------------------------------------------------ lists *)
Lemma nodup_app_disj : forall (A : Type) (a b : list A) x, NoDup (a ++ b) -> In x a -> In x b -> False.
Proof.
  induction a as [|y a IH]; simpl; intros b x Hnd Ha Hb; [contradiction|].
  inversion Hnd; subst. destruct Ha as [->|Ha].
  - apply H1. apply in_or_app. now right.
  - eapply IH; eauto.
Qed.

Lemma nodup_app_l : forall (A : Type) (a b : list A), NoDup (a ++ b) -> NoDup a.
Proof.
  induction a as [|y a IH]; simpl; intros b Hnd; [constructor|].
  inversion Hnd; subst. constructor; [|eauto]. intros H. apply H1. apply in_or_app. now left.
Qed.

Lemma nodup_app_r : forall (A : Type) (a b : list A), NoDup (a ++ b) -> NoDup b.
Proof.
  induction a as [|y a IH]; simpl; intros b Hnd; [exact Hnd|]. inversion Hnd; subst. eauto.
Qed.

Lemma forallb_false_ex : forall (A : Type) (f : A -> bool) l, forallb f l = false -> exists x, In x l /\ f x = false.
Proof.
  induction l as [|a l IH]; simpl; intros H; [discriminate|].
  destruct (f a) eqn:E; simpl in H.
  - destruct (IH H) as (x & Hx & Hf). exists x. split; [now right|exact Hf].
  - exists a. split; [now left|exact E].
Qed.

Lemma remove_one_in_other : forall k y l, In y l -> y <> k -> In y (remove_one k l).
Proof.
  induction l as [|x l IH]; simpl; intros Hy Hne; [contradiction|].
  destruct (N.eqb_spec k x) as [->|Hkx].
  - destruct Hy as [->|Hy]; [congruence|exact Hy].
  - destruct Hy as [->|Hy]; [now left|right; auto].
Qed.

Lemma remove_keys_perm : forall ks l, NoDup ks -> incl ks l -> Permutation l (ks ++ remove_keys ks l).
Proof.
  induction ks as [|k ks IH]; simpl; intros l Hnd Hin; [reflexivity|].
  inversion Hnd; subst.
  assert (Hk : In k l) by (apply Hin; now left).
  rewrite (remove_one_in_perm k l Hk) at 1. constructor. apply IH; [assumption|].
  intros y Hy. apply remove_one_in_other; [apply Hin; now right|]. intros ->. contradiction.
Qed.

Lemma nodup_keys_NoDup : forall l, nodup_keys l = true -> NoDup l.
Proof.
  induction l as [|k l IH]; simpl; intros H; [constructor|].
  apply andb_true_iff in H as [H1 H2]. apply negb_true_iff in H1. apply memb_false in H1.
  constructor; auto.
Qed.

Lemma batch_fits_spec : forall g b pending, batch_fits g b pending = true ->
  NoDup (map fst b) /\ incl (map fst b) pending /\
  (g_eager g = false -> List.length (map fst b) = List.length pending).
Proof.
  unfold batch_fits. intros g b pending H. apply andb_true_iff in H as [H H3]. apply andb_true_iff in H as [H1 H2].
  split; [now apply nodup_keys_NoDup|]. split.
  - rewrite forallb_forall in H2. intros k Hk. apply memb_in. now apply H2.
  - intros He. rewrite He in H3. now apply Nat.eqb_eq.
Qed.

(* mergeValues / emptyStream *)
Lemma remove_all_in_other : forall vs x l, In x l -> ~ In x vs -> In x (remove_all vs l).
Proof.
  induction vs as [|v vs IH]; simpl; intros x l Hx Hn; [exact Hx|].
  apply IH; [|tauto]. apply remove_one_in_other_h; [exact Hx|]. intros ->. apply Hn. now left.
Qed.

Lemma nodup_handles_NoDup : forall l, nodup_handles l = true -> NoDup l.
Proof.
  induction l as [|k l IH]; simpl; intros H; [constructor|].
  apply andb_true_iff in H as [H1 H2]. apply negb_true_iff in H1. apply memb_false in H1.
  constructor; auto.
Qed.

Lemma remove_all_perm : forall vs l, NoDup vs -> incl vs l -> Permutation l (vs ++ remove_all vs l).
Proof.
  induction vs as [|k vs IH]; simpl; intros l Hnd Hin; [reflexivity|].
  inversion Hnd; subst.
  assert (Hk : In k l) by (apply Hin; now left).
  rewrite (remove_one_in_perm k l Hk) at 1. constructor. apply IH; [assumption|].
  intros y Hy. apply remove_one_in_other_h; [apply Hin; now right|]. intros ->. contradiction.
Qed.

Lemma merge_spec : forall vs s h s', merge vs s = Ok (h, s') ->
  Permutation (h :: s_open s) (vs ++ s_open s') /\ (store_ok s -> store_ok s').
Proof.
  unfold merge. intros vs s h s' H.
  destruct (forallb (fun v => memb v (s_open s)) vs && nodup_handles vs) eqn:E; [|discriminate].
  apply andb_true_iff in E as [E1 E2]. inversion H; subst h s'; clear H. simpl.
  assert (Hin : incl vs (s_open s)).
  { rewrite forallb_forall in E1. intros v Hv. apply memb_in. now apply E1. }
  pose proof (nodup_handles_NoDup _ E2) as Hndv.
  pose proof (remove_all_perm vs (s_open s) Hndv Hin) as HP.
  assert (Hsub : forall x, In x (remove_all vs (s_open s)) -> In x (s_open s)).
  { intros x Hx. eapply Permutation_in; [symmetry; exact HP|]. apply in_or_app. now right. }
  split.
  - rewrite HP at 1. rewrite app_assoc. apply Permutation_cons_append.
  - intros (Hnd & Hlt & Hc & Hcp & Hmg & Hop). split; [|split]; simpl.
    + apply NoDup_app_intro.
      * eapply Permutation_NoDup in Hnd; [|exact HP]. now apply nodup_app_r in Hnd.
      * repeat constructor. intros [].
      * intros x Hx [<-|[]]. apply Hsub in Hx. apply Hlt in Hx. lia.
    + intros x Hx. apply in_app_or in Hx as [Hx|[<-|[]]]; [apply Hsub, Hlt in Hx|]; lia.
    + unfold hist_ok. simpl. split; [|split; [|split]].
      * intros x Hx.
        assert (Hold : forall y, created (s_hist s) y ->
                  y < s_next s + 1 /\ (In y (remove_all vs (s_open s) ++ [s_next s]) \/
                                        retired (HMerge vs (s_next s) :: s_hist s) y)).
        { intros y Hy. destruct (Hc y Hy) as [Hl [Ho|Hr]]; split; try lia.
          - destruct (in_dec N.eq_dec y vs) as [Hv|Hv].
            + right. right. right. exists vs, (s_next s). split; [now left|exact Hv].
            + left. apply in_or_app. left. now apply remove_all_in_other.
          - right. now apply retired_cons. }
        destruct Hx as [[E'|Hx]|[(p & cs & [E'|Hp] & Hx)|(hs & [E'|Hm])]]; try discriminate.
        -- apply Hold. now left.
        -- apply Hold. right. left. eauto.
        -- inversion E'; subst hs x. split; [lia|]. left. apply in_or_app. right. now left.
        -- apply Hold. right. right. eauto.
      * intros p cs [E'|Hp] c Hcin; [discriminate|]. eapply Hcp; eauto.
      * intros ms h' [E'|Hm] x Hx.
        -- inversion E'; subst ms h'. apply Hlt. now apply Hin.
        -- eapply Hmg; eauto.
      * intros x Hx. apply in_app_or in Hx as [Hx|[<-|[]]].
        -- apply created_cons. apply Hop. now apply Hsub.
        -- right. right. exists vs. now left.
Qed.


(* ================================================================== Part 2 *)

Section Dag.
Variable g : graph.
Hypothesis Hdag : g_dag g = true.
Hypothesis Hnd : NoDup (all_keys g).
Hypothesis Hend : ~ In kEND (all_keys g).

Definition cpred (p x : key) : Prop := is_ctrl_pred g p x = true.
Definition dpred (p x : key) : Prop := is_data_pred_g g p x = true.
Definition skipped (st : rstate) (x : key) : Prop := ch_skipped (rs_chans st x) = true.
Definition started (st : rstate) (x : key) : Prop := In x (rs_pending st) \/ In x (rs_resolved st).

Lemma cpred_in : forall p x, cpred p x -> In p (all_keys g).
Proof.
  unfold cpred, is_ctrl_pred, call_of. intros p x H. destruct (nlist_get p (g_calls g)) eqn:E; [|discriminate].
  eapply nlist_get_in; eauto.
Qed.
Lemma dpred_in : forall p x, dpred p x -> In p (all_keys g).
Proof.
  unfold dpred, is_data_pred_g, call_of. intros p x H. destruct (nlist_get p (g_calls g)) eqn:E; [|discriminate].
  eapply nlist_get_in; eauto.
Qed.

Lemma is_chan_in : forall x, is_chan g x = true <-> In x (chan_keys g).
Proof. intros. unfold is_chan. apply memb_in. Qed.

Lemma start_not_chan : ~ In kSTART (chan_keys g).
Proof.
  unfold chan_keys. intros [H|H]; [discriminate|]. apply filter_In in H as [_ H].
  rewrite N.eqb_refl in H. discriminate.
Qed.

(* every live channel has a control predecessor: the nodes without any predecessor are skipped up
   front, a node with data predecessors only is excluded (ctrl_covered), END has a predecessor *)
Definition has_cpred (x : key) : Prop := exists r, cpred r x.

(* B: tasks being resolved in the current pass (their reports are flowing);
   W: those of them whose values have been written *)
Record SInv (B W : list key) (st : rstate) : Prop := {
  si_nodup : NoDup (rs_pending st ++ rs_resolved st);
  si_B : incl B (rs_pending st);
  si_W : incl W B;
  si_frame : forall x, ~ In x (chan_keys g) -> rs_chans st x = chan0;
  si_ready : forall x p, ch_ctrl (rs_chans st x) p = DReady -> In p (rs_resolved st) \/ In p B;
  si_skipmark : forall x p, ch_ctrl (rs_chans st x) p = DSkip -> In p (rs_resolved st) \/ In p B \/ skipped st p;
  si_data : forall x p, ch_data (rs_chans st x) p = true -> In p (rs_resolved st) \/ In p B \/ skipped st p;
  si_vals : forall x p h, ch_vals (rs_chans st x) p = Some h -> In p (rs_resolved st) \/ In p W;
  si_skipped : forall x, skipped st x ->
      (forall p, ch_vals (rs_chans st x) p = None) /\ ~ started st x /\
      (forall p, cpred p x -> ch_ctrl (rs_chans st x) p = DSkip);
  si_started : forall x, In x (chan_keys g) -> started st x ->
      (forall p, ch_vals (rs_chans st x) p = None) /\
      (exists r, cpred r x /\ In r (rs_resolved st) /\ ch_ctrl (rs_chans st x) r = DWait) /\
      (forall p, dpred p x \/ cpred p x -> In p (rs_resolved st) \/ skipped st p);
  si_live : forall x, In x (chan_keys g) -> ~ skipped st x -> has_cpred x ->
      exists r, cpred r x /\ ch_ctrl (rs_chans st x) r <> DSkip;
}.

(* who may report: a task being resolved, or a node whose channel is skipped *)
Definition reporter (B : list key) (st : rstate) (k : key) : Prop := In k B \/ skipped st k.

Lemma reporter_fresh : forall B W st k, SInv B W st -> reporter B st k -> ~ In k (rs_resolved st).
Proof.
  intros B W st k HI [Hk|Hk] Hr.
  - apply (si_B _ _ _ HI) in Hk. eapply nodup_app_disj; [exact (si_nodup _ _ _ HI)|exact Hk|exact Hr].
  - destruct (si_skipped _ _ _ HI _ Hk) as (_ & Hns & _). apply Hns. now right.
Qed.

(* ---- effect of dagChannel.reportSkip *)
Definition skip_ctrl (x k : key) (c : chan) : key -> dstate :=
  if is_ctrl_pred g k x then upd (ch_ctrl c) k DSkip else ch_ctrl c.
Definition skip_data (x k : key) (c : chan) : key -> bool :=
  if is_data_pred_g g k x then upd (ch_data c) k true else ch_data c.
Definition skip_all (x k : key) (c : chan) : bool :=
  forallb (fun p => negb (is_ctrl_pred g p x) || is_dskip (skip_ctrl x k c p)) (all_keys g).

Lemma report_skip_eff : forall x k st b st',
  report_skip g x k st = Ok (b, st') ->
  let c := rs_chans st x in
  In x (chan_keys g) /\ b = skip_all x k c /\ same_tasks st st' /\
  (forall y, y <> x -> rs_chans st' y = rs_chans st y) /\
  rs_chans st' x = {| ch_ctrl := skip_ctrl x k c; ch_data := skip_data x k c;
                      ch_vals := if b then (fun _ => None) else ch_vals c; ch_skipped := b |} /\
  Permutation (s_open (rs_store st)) ((if b then chan_values g c else []) ++ s_open (rs_store st')) /\
  (store_ok (rs_store st) -> store_ok (rs_store st')).
Proof.
  intros x k st b st' H. unfold report_skip in H. rewrite Hdag in H. simpl in H.
  destruct (is_chan g x) eqn:Ec; simpl in H; [|discriminate]. apply is_chan_in in Ec.
  fold (skip_ctrl x k (rs_chans st x)) in H. fold (skip_data x k (rs_chans st x)) in H.
  fold (skip_all x k (rs_chans st x)) in H.
  destruct (skip_all x k (rs_chans st x)) eqn:Ea.
  - bind_ok H st1 H1. inversion H; subst b st'; clear H.
    destruct (close_all_spec _ _ _ _ H1) as (Hc & Ht & HP & Hok).
    cbv zeta. split; [exact Ec|]. split; [now rewrite Ea|]. split; [exact Ht|]. split; [|split; [|split]].
    + intros y Hy. rewrite chans_set_chan_other by exact Hy. now rewrite Hc.
    + now rewrite chans_set_chan_same.
    + exact HP.
    + exact Hok.
  - inversion H; subst b st'; clear H. cbv zeta.
    split; [exact Ec|]. split; [now rewrite Ea|]. split; [now split|]. split; [|split; [|split]].
    + intros y Hy. now rewrite chans_set_chan_other.
    + now rewrite chans_set_chan_same.
    + reflexivity.
    + auto.
Qed.

Lemma is_dskip_true : forall d, is_dskip d = true <-> d = DSkip.
Proof. destruct d; simpl; split; congruence. Qed.

Lemma skip_ctrl_other : forall x k c p, p <> k -> skip_ctrl x k c p = ch_ctrl c p.
Proof. intros. unfold skip_ctrl. destruct (is_ctrl_pred g k x); [now apply upd_other|reflexivity]. Qed.

Lemma skip_ctrl_cases : forall x k c p,
  skip_ctrl x k c p = ch_ctrl c p \/ (p = k /\ cpred k x /\ skip_ctrl x k c p = DSkip).
Proof.
  intros. unfold skip_ctrl, cpred. destruct (is_ctrl_pred g k x) eqn:E; [|now left].
  destruct (N.eq_dec p k) as [->|Hne]; [right; now rewrite upd_same|left; now apply upd_other].
Qed.

Lemma skip_data_cases : forall x k c p,
  skip_data x k c p = ch_data c p \/ (p = k /\ dpred k x /\ skip_data x k c p = true).
Proof.
  intros. unfold skip_data, dpred. destruct (is_data_pred_g g k x) eqn:E; [|now left].
  destruct (N.eq_dec p k) as [->|Hne]; [right; now rewrite upd_same|left; now apply upd_other].
Qed.

Lemma skip_all_true : forall x k c, skip_all x k c = true ->
  forall p, cpred p x -> skip_ctrl x k c p = DSkip.
Proof.
  unfold skip_all. intros x k c H p Hp. rewrite forallb_forall in H.
  specialize (H p (cpred_in _ _ Hp)). unfold cpred in Hp. rewrite Hp in H. simpl in H.
  now apply is_dskip_true.
Qed.

Lemma skip_all_false : forall x k c, skip_all x k c = false ->
  exists p, cpred p x /\ skip_ctrl x k c p <> DSkip.
Proof.
  unfold skip_all. intros x k c H. apply forallb_false_ex in H as (p & _ & Hp).
  apply orb_false_iff in Hp as [H1 H2]. apply negb_false_iff in H1. exists p. split; [exact H1|].
  intros Hd. apply is_dskip_true in Hd. congruence.
Qed.

(* the reporter of a skip: a task being resolved, a skipped node, or a key that is no predecessor
   of the channel (the report changes nothing) *)
Definition skip_src (B : list key) (st : rstate) (x k : key) : Prop :=
  reporter B st k \/ (is_ctrl_pred g k x = false /\ is_data_pred_g g k x = false).

Lemma report_skip_inv : forall B W x k st b st',
  SInv B W st -> skip_src B st x k -> report_skip g x k st = Ok (b, st') ->
  SInv B W st' /\ (forall y, skipped st y -> skipped st' y) /\ (b = true -> skipped st' x).
Proof.
  intros B W x k st b st' HI Hsrc H.
  destruct (report_skip_eff _ _ _ _ _ H) as (Hx & Hb & [Hp Hr] & Hoth & Hnew & _ & _).
  set (c := rs_chans st x) in *.
  assert (Hsk : forall y, skipped st' y <-> (if N.eqb y x then b = true else skipped st y)).
  { intros y. unfold skipped. destruct (N.eqb_spec y x) as [->|Hne].
    - rewrite Hnew. simpl. tauto.
    - rewrite Hoth by exact Hne. tauto. }
  assert (Hst : forall y, started st' y <-> started st y).
  { intros y. unfold started. rewrite Hp, Hr. tauto. }
  (* the anchor of a started channel is not the reporter *)
  assert (Hanchor : forall r, In r (rs_resolved st) -> skip_ctrl x k c r = ch_ctrl c r).
  { intros r Hrr. destruct (skip_ctrl_cases x k c r) as [E|(-> & Hck & _)]; [exact E|].
    destruct Hsrc as [Hrep|[Hnc _]]; [|unfold cpred in Hck; congruence].
    exfalso. eapply reporter_fresh; eauto. }
  assert (Hmono : forall y, skipped st y -> skipped st' y).
  { intros y Hy. apply Hsk. destruct (N.eqb_spec y x) as [->|Hne]; [|exact Hy].
    rewrite Hb. unfold skip_all. apply forallb_forall. intros p _.
    destruct (is_ctrl_pred g p x) eqn:Ep; [simpl|reflexivity].
    destruct (si_skipped _ _ _ HI _ Hy) as (_ & _ & Hall). apply is_dskip_true.
    destruct (skip_ctrl_cases x k c p) as [E|(_ & _ & E)]; [rewrite E; now apply Hall|exact E]. }
  split; [|split; [exact Hmono|]].
  2:{ intros ->. apply Hsk. now rewrite N.eqb_refl. }
  constructor.
  - rewrite Hp, Hr. apply (si_nodup _ _ _ HI).
  - rewrite Hp. apply (si_B _ _ _ HI).
  - apply (si_W _ _ _ HI).
  - intros y Hy. rewrite Hoth by (intros E; subst y; contradiction). now apply (si_frame _ _ _ HI).
  - intros y p. rewrite Hr. destruct (N.eq_dec y x) as [->|Hne].
    + rewrite Hnew. simpl. intros E.
      destruct (skip_ctrl_cases x k c p) as [E'|(_ & _ & E')]; [|congruence].
      rewrite E' in E. now apply (si_ready _ _ _ HI x).
    + rewrite Hoth by exact Hne. apply (si_ready _ _ _ HI).
  - intros y p. rewrite Hr. destruct (N.eq_dec y x) as [->|Hne].
    + rewrite Hnew. simpl. intros E.
      destruct (skip_ctrl_cases x k c p) as [E'|(-> & Hck & _)].
      * rewrite E' in E. destruct (si_skipmark _ _ _ HI x p E) as [?|[?|?]]; auto.
      * destruct Hsrc as [[?|?]|[Hnc _]]; auto. unfold cpred in Hck. congruence.
    + rewrite Hoth by exact Hne. intros E. destruct (si_skipmark _ _ _ HI y p E) as [?|[?|?]]; auto.
  - intros y p. rewrite Hr. destruct (N.eq_dec y x) as [->|Hne].
    + rewrite Hnew. simpl. intros E.
      destruct (skip_data_cases x k c p) as [E'|(-> & Hdk & _)].
      * rewrite E' in E. destruct (si_data _ _ _ HI x p E) as [?|[?|?]]; auto.
      * destruct Hsrc as [[?|?]|[_ Hnd']]; auto. unfold dpred in Hdk. congruence.
    + rewrite Hoth by exact Hne. intros E. destruct (si_data _ _ _ HI y p E) as [?|[?|?]]; auto.
  - intros y p h. rewrite Hr. destruct (N.eq_dec y x) as [->|Hne].
    + rewrite Hnew. simpl. destruct b; [discriminate|]. apply (si_vals _ _ _ HI).
    + rewrite Hoth by exact Hne. apply (si_vals _ _ _ HI).
  - intros y Hy. rewrite Hst. apply Hsk in Hy. destruct (N.eqb_spec y x) as [Heq|Hne].
    + subst y. subst b. rewrite Hnew. simpl. rewrite Hy. split; [reflexivity|]. split.
      * intros Hs.
        assert (Hxc : In x (chan_keys g)) by exact Hx.
        destruct (si_started _ _ _ HI x Hxc Hs) as (_ & (r & Hcr & Hrr & Hw) & _).
        pose proof (skip_all_true _ _ _ Hy r Hcr) as Hd. rewrite (Hanchor r Hrr) in Hd.
        fold c in Hw. congruence.
      * now apply skip_all_true.
    + rewrite Hoth by exact Hne. apply (si_skipped _ _ _ HI _ Hy).
  - intros y Hyc Hy. apply Hst in Hy. destruct (si_started _ _ _ HI y Hyc Hy) as (Hv & (r & Hcr & Hrr & Hw) & Hd).
    destruct (N.eq_dec y x) as [->|Hne].
    + rewrite Hnew. simpl. split; [|split].
      * intros p. destruct b; [reflexivity|apply Hv].
      * exists r. rewrite Hr. repeat split; auto. rewrite (Hanchor r Hrr). exact Hw.
      * intros p Hdp. rewrite Hr. destruct (Hd p Hdp); auto.
    + rewrite Hoth by exact Hne. split; [exact Hv|]. split.
      * exists r. rewrite Hr. auto.
      * intros p Hdp. rewrite Hr. destruct (Hd p Hdp); auto.
  - intros y Hyc Hy Hex. destruct (N.eq_dec y x) as [->|Hne].
    + rewrite Hnew. simpl.
      assert (b = false). { destruct b; [|reflexivity]. exfalso. apply Hy. apply Hsk. now rewrite N.eqb_refl. }
      subst b. symmetry in H0. now apply skip_all_false.
    + rewrite Hoth by exact Hne. apply (si_live _ _ _ HI y Hyc); [|exact Hex]. intros Hs. apply Hy. now apply Hmono.
Qed.

Definition nonpred (k x : key) : Prop := is_ctrl_pred g k x = false /\ is_data_pred_g g k x = false.

Lemma skip_each_inv : forall B W from xs q st ks q' st',
  SInv B W st -> (reporter B st from \/ forall x, In x xs -> nonpred from x) ->
  skip_each g from xs q st = Ok (ks, q', st') ->
  SInv B W st' /\ (forall y, skipped st y -> skipped st' y) /\ (forall k, In k ks -> skipped st' k) /\
  (forall x, In x xs -> (forall p, is_ctrl_pred g p x = false) -> skipped st' x).
Proof.
  intros B W from. induction xs as [|x xs IH]; simpl; intros q st ks q' st' HI Hsrc H.
  - inversion H; subst. split; [exact HI|]. split; [auto|]. split; [intros k []|intros x []].
  - bind_ok H r1 H1. destruct r1 as [sk st1]. bind_ok H r2 H2. destruct r2 as [[ks2 q2] st2].
    inversion H; subst ks q' st'; clear H.
    assert (Hs1 : skip_src B st x from).
    { destruct Hsrc as [Hr|Hn]; [now left|right; apply Hn; now left]. }
    destruct (report_skip_inv _ _ _ _ _ _ _ HI Hs1 H1) as (HI1 & Hm1 & Hb1).
    assert (Hsrc2 : reporter B st1 from \/ forall y, In y xs -> nonpred from y).
    { destruct Hsrc as [[Hr|Hr]|Hn]; [left; now left|left; right; now apply Hm1|right; intros y Hy; apply Hn; now right]. }
    destruct (IH _ _ _ _ _ HI1 Hsrc2 H2) as (HI2 & Hm2 & Hk2 & Hx2).
    split; [exact HI2|]. split; [intros y Hy; apply Hm2, Hm1, Hy|]. split.
    + intros k Hk. destruct (sk && negb (memb x q)) eqn:En; [destruct Hk as [<-|Hk]|]; auto.
      apply andb_true_iff in En as [En _]. apply Hm2, Hb1, En.
    + intros y [<-|Hy] Hc; [|now apply Hx2].
      apply Hm2, Hb1. destruct (report_skip_eff _ _ _ _ _ H1) as (_ & Hb & _). rewrite Hb.
      unfold skip_all. apply forallb_forall. intros p _. now rewrite Hc.
Qed.

Lemma cascade_inv : forall B W fuel work q st st',
  SInv B W st -> (forall k, In k work -> skipped st k) ->
  cascade g fuel work q st = Ok st' ->
  SInv B W st' /\ (forall y, skipped st y -> skipped st' y).
Proof.
  intros B W. induction fuel as [|fuel IH]; intros work q st st' HI Hw H.
  - destruct work; simpl in H; [|discriminate]. inversion H; subst. auto.
  - destruct work as [|k rest]; simpl in H; [inversion H; subst; auto|].
    destruct (call_of g k) as [c|] eqn:Ec; [|discriminate].
    bind_ok H r H1. destruct r as [[ks q1] st1].
    assert (Hrep : reporter B st k \/ forall x, In x (succs c) -> nonpred k x).
    { left. right. apply Hw. now left. }
    destruct (skip_each_inv _ _ _ _ _ _ _ _ _ HI Hrep H1) as (HI1 & Hm1 & Hk1 & _).
    assert (Hw1 : forall k', In k' (rest ++ ks) -> skipped st1 k').
    { intros k' Hk'. apply in_app_or in Hk' as [Hk'|Hk']; [apply Hm1, Hw; now right|now apply Hk1]. }
    destruct (IH _ _ _ _ HI1 Hw1 H) as (HI2 & Hm2). split; [exact HI2|]. intros y Hy. apply Hm2, Hm1, Hy.
Qed.

Lemma report_branch_inv : forall B W from xs st st',
  SInv B W st -> (reporter B st from \/ forall x, In x xs -> nonpred from x) ->
  report_branch g from xs st = Ok st' ->
  SInv B W st' /\ (forall y, skipped st y -> skipped st' y) /\
  (forall x, In x xs -> (forall p, is_ctrl_pred g p x = false) -> skipped st' x).
Proof.
  intros B W from xs st st' HI Hsrc H. unfold report_branch in H.
  bind_ok H r H1. destruct r as [[ks q] st1].
  destruct (skip_each_inv _ _ _ _ _ _ _ _ _ HI Hsrc H1) as (HI1 & Hm1 & Hk1 & Hx1).
  destruct (cascade_inv _ _ _ _ _ _ _ HI1 Hk1 H) as (HI2 & Hm2).
  split; [exact HI2|]. split; [intros y Hy; apply Hm2, Hm1, Hy|].
  intros x Hx Hc. apply Hm2. now apply Hx1.
Qed.

(* ---- effect of channel.reportValues / reportDependencies (all-predecessor mode) *)
Lemma report_value_eff : forall x from h st st',
  report_value g x from h st = Ok st' ->
  In x (chan_keys g) /\ same_tasks st st' /\
  ( (skipped st x /\ rs_chans st' = rs_chans st /\
     Permutation (s_open (rs_store st)) (h :: s_open (rs_store st')) /\
     (store_ok (rs_store st) -> store_ok (rs_store st')))
    \/ (~ skipped st x /\ dpred from x /\ rs_store st' = rs_store st /\
        (forall y, y <> x -> rs_chans st' y = rs_chans st y) /\
        rs_chans st' x = {| ch_ctrl := ch_ctrl (rs_chans st x); ch_data := upd (ch_data (rs_chans st x)) from true;
                            ch_vals := upd (ch_vals (rs_chans st x)) from (Some h); ch_skipped := false |})
    \/ (~ skipped st x /\ ~ dpred from x /\ st' = st) ).
Proof.
  intros x from h st st' H. unfold report_value in H.
  destruct (is_chan g x) eqn:Ec; simpl in H; [|discriminate]. apply is_chan_in in Ec.
  rewrite Hdag in H. split; [exact Ec|]. unfold skipped, dpred.
  destruct (ch_skipped (rs_chans st x)) eqn:Es.
  - destruct (close_all_spec _ _ _ _ H) as (Hc & Ht & HP & Hok). split; [exact Ht|]. left. auto.
  - destruct (is_data_pred_g g from x) eqn:Ed.
    + inversion H; subst st'; clear H. split; [now split|]. right. left.
      split; [congruence|]. split; [reflexivity|]. split; [reflexivity|]. split.
      * intros y Hy. now rewrite chans_set_chan_other.
      * now rewrite chans_set_chan_same.
    + inversion H; subst st'. split; [now split|]. right. right. repeat split; congruence.
Qed.

Lemma report_dep_eff : forall x from st st',
  report_dep g x from st = Ok st' ->
  In x (chan_keys g) /\ same_tasks st st' /\ rs_store st' = rs_store st /\
  ( st' = st \/
    (~ skipped st x /\ cpred from x /\
     (forall y, y <> x -> rs_chans st' y = rs_chans st y) /\
     rs_chans st' x = {| ch_ctrl := upd (ch_ctrl (rs_chans st x)) from DReady; ch_data := ch_data (rs_chans st x);
                         ch_vals := ch_vals (rs_chans st x); ch_skipped := false |}) ).
Proof.
  intros x from st st' H. unfold report_dep in H.
  destruct (is_chan g x) eqn:Ec; simpl in H; [|discriminate]. apply is_chan_in in Ec.
  rewrite Hdag in H. simpl in H. split; [exact Ec|]. unfold skipped, cpred.
  destruct (ch_skipped (rs_chans st x)) eqn:Es.
  - inversion H; subst. split; [now split|]. split; [reflexivity|]. now left.
  - destruct (is_ctrl_pred g from x) eqn:Ed.
    + inversion H; subst st'; clear H. split; [now split|]. split; [reflexivity|]. right.
      split; [congruence|]. split; [reflexivity|]. split.
      * intros y Hy. now rewrite chans_set_chan_other.
      * now rewrite chans_set_chan_same.
    + inversion H; subst. split; [now split|]. split; [reflexivity|]. now left.
Qed.

(* a task being resolved is neither resolved nor skipped *)
Lemma resolving_not_finished : forall B W st p, SInv B W st -> In p B -> ~ In p (rs_resolved st) /\ ~ skipped st p.
Proof.
  intros B W st p HI Hp. split.
  - eapply reporter_fresh; [exact HI|now left].
  - intros Hs. destruct (si_skipped _ _ _ HI _ Hs) as (_ & Hns & _). apply Hns. left. now apply (si_B _ _ _ HI).
Qed.

Lemma report_value_inv : forall B W x from h st st',
  SInv B W st -> In from B -> report_value g x from h st = Ok st' ->
  SInv B (from :: W) st' /\ (forall y, skipped st' y <-> skipped st y).
Proof.
  intros B W x from h st st' HI Hfrom H.
  assert (HW : incl (from :: W) B).
  { intros y [<-|Hy]; [exact Hfrom|now apply (si_W _ _ _ HI)]. }
  assert (Hweak : SInv B (from :: W) st).
  { destruct HI. constructor; auto. intros y p h' E. destruct (si_vals0 _ _ _ E); [now left|right; now right]. }
  destruct (report_value_eff _ _ _ _ _ H) as (Hx & [Hp Hr] & [(Hs & Hc & _)|[(Hns & Hd & _ & Hoth & Hnew)|(_ & _ & ->)]]).
  - (* skipped: the value is closed, the channels do not change *)
    split; [|intros y; unfold skipped; now rewrite Hc].
    destruct Hweak. constructor; unfold skipped, started in *; rewrite ?Hp, ?Hr, ?Hc; auto.
  - assert (Hsk : forall y, skipped st' y <-> skipped st y).
    { intros y. unfold skipped. destruct (N.eq_dec y x) as [->|Hne].
      - rewrite Hnew. simpl. unfold skipped in Hns. destruct (ch_skipped (rs_chans st x)); [exfalso; now apply Hns|tauto].
      - now rewrite Hoth. }
    split; [|exact Hsk].
    assert (Hst : forall y, started st' y <-> started st y).
    { intros y. unfold started. rewrite Hp, Hr. tauto. }
    assert (Hnst : ~ started st x).
    { intros Hs. destruct (si_started _ _ _ HI x Hx Hs) as (_ & _ & Hdp).
      destruct (resolving_not_finished _ _ _ _ HI Hfrom) as [Hn1 Hn2]. destruct (Hdp from (or_introl Hd)); contradiction. }
    constructor.
    + rewrite Hp, Hr. apply (si_nodup _ _ _ HI).
    + rewrite Hp. apply (si_B _ _ _ HI).
    + exact HW.
    + intros y Hy. rewrite Hoth by (intros E; subst y; contradiction). now apply (si_frame _ _ _ HI).
    + intros y p. rewrite Hr. destruct (N.eq_dec y x) as [->|Hne].
      * rewrite Hnew. simpl. apply (si_ready _ _ _ HI).
      * rewrite Hoth by exact Hne. apply (si_ready _ _ _ HI).
    + intros y p. rewrite Hr, Hsk. destruct (N.eq_dec y x) as [->|Hne].
      * rewrite Hnew. simpl. apply (si_skipmark _ _ _ HI).
      * rewrite Hoth by exact Hne. apply (si_skipmark _ _ _ HI).
    + intros y p. rewrite Hr, Hsk. destruct (N.eq_dec y x) as [->|Hne].
      * rewrite Hnew. simpl. destruct (N.eq_dec p from) as [->|Hpf]; [auto|].
        rewrite upd_other by exact Hpf. apply (si_data _ _ _ HI).
      * rewrite Hoth by exact Hne. apply (si_data _ _ _ HI).
    + intros y p h'. rewrite Hr. destruct (N.eq_dec y x) as [->|Hne].
      * rewrite Hnew. simpl. destruct (N.eq_dec p from) as [->|Hpf]; [intros _; right; now left|].
        rewrite upd_other by exact Hpf. intros E. destruct (si_vals _ _ _ HI _ _ _ E); [now left|right; now right].
      * rewrite Hoth by exact Hne. intros E. destruct (si_vals _ _ _ HI _ _ _ E); [now left|right; now right].
    + intros y Hy. rewrite Hst. apply Hsk in Hy. destruct (N.eq_dec y x) as [->|Hne]; [contradiction|].
      rewrite Hoth by exact Hne. apply (si_skipped _ _ _ HI _ Hy).
    + intros y Hyc Hy. apply Hst in Hy. destruct (N.eq_dec y x) as [->|Hne]; [contradiction|].
      rewrite Hoth by exact Hne. destruct (si_started _ _ _ HI y Hyc Hy) as (Hv & (r & Hr1 & Hr2 & Hr3) & Hdp).
      split; [exact Hv|]. split; [exists r; rewrite Hr; auto|].
      intros p Hp'. rewrite Hr, Hsk. now apply Hdp.
    + intros y Hyc Hy Hex. rewrite Hsk in Hy. destruct (N.eq_dec y x) as [->|Hne].
      * rewrite Hnew. simpl. now apply (si_live _ _ _ HI).
      * rewrite Hoth by exact Hne. now apply (si_live _ _ _ HI).
  - split; [exact Hweak|tauto].
Qed.

Lemma report_dep_inv : forall B W x from st st',
  SInv B W st -> In from B -> report_dep g x from st = Ok st' ->
  SInv B W st' /\ (forall y, skipped st' y <-> skipped st y).
Proof.
  intros B W x from st st' HI Hfrom H.
  destruct (report_dep_eff _ _ _ _ H) as (Hx & [Hp Hr] & _ & [->|(Hns & Hc & Hoth & Hnew)]); [split; [exact HI|tauto]|].
  assert (Hsk : forall y, skipped st' y <-> skipped st y).
  { intros y. unfold skipped. destruct (N.eq_dec y x) as [->|Hne].
    - rewrite Hnew. simpl. unfold skipped in Hns. destruct (ch_skipped (rs_chans st x)); [exfalso; now apply Hns|tauto].
    - now rewrite Hoth. }
  split; [|exact Hsk].
  assert (Hst : forall y, started st' y <-> started st y).
  { intros y. unfold started. rewrite Hp, Hr. tauto. }
  destruct (resolving_not_finished _ _ _ _ HI Hfrom) as [Hn1 Hn2].
  constructor.
  - rewrite Hp, Hr. apply (si_nodup _ _ _ HI).
  - rewrite Hp. apply (si_B _ _ _ HI).
  - apply (si_W _ _ _ HI).
  - intros y Hy. rewrite Hoth by (intros E; subst y; contradiction). now apply (si_frame _ _ _ HI).
  - intros y p. rewrite Hr. destruct (N.eq_dec y x) as [->|Hne].
    + rewrite Hnew. simpl. destruct (N.eq_dec p from) as [->|Hpf]; [auto|].
      rewrite upd_other by exact Hpf. apply (si_ready _ _ _ HI).
    + rewrite Hoth by exact Hne. apply (si_ready _ _ _ HI).
  - intros y p. rewrite Hr, Hsk. destruct (N.eq_dec y x) as [->|Hne].
    + rewrite Hnew. simpl. destruct (N.eq_dec p from) as [->|Hpf]; [rewrite upd_same; discriminate|].
      rewrite upd_other by exact Hpf. apply (si_skipmark _ _ _ HI).
    + rewrite Hoth by exact Hne. apply (si_skipmark _ _ _ HI).
  - intros y p. rewrite Hr, Hsk. destruct (N.eq_dec y x) as [->|Hne].
    + rewrite Hnew. simpl. apply (si_data _ _ _ HI).
    + rewrite Hoth by exact Hne. apply (si_data _ _ _ HI).
  - intros y p h'. rewrite Hr. destruct (N.eq_dec y x) as [->|Hne].
    + rewrite Hnew. simpl. apply (si_vals _ _ _ HI).
    + rewrite Hoth by exact Hne. apply (si_vals _ _ _ HI).
  - intros y Hy. rewrite Hst. apply Hsk in Hy. destruct (N.eq_dec y x) as [->|Hne]; [contradiction|].
    rewrite Hoth by exact Hne. apply (si_skipped _ _ _ HI _ Hy).
  - intros y Hyc Hy. apply Hst in Hy.
    destruct (si_started _ _ _ HI y Hyc Hy) as (Hv & (r & Hr1 & Hr2 & Hr3) & Hdp).
    destruct (N.eq_dec y x) as [->|Hne].
    + rewrite Hnew. simpl. split; [exact Hv|]. split.
      * exists r. rewrite Hr. repeat split; auto. rewrite upd_other; [exact Hr3|]. intros ->. contradiction.
      * intros p Hp'. rewrite Hr, Hsk. now apply Hdp.
    + rewrite Hoth by exact Hne. split; [exact Hv|]. split; [exists r; rewrite Hr; auto|].
      intros p Hp'. rewrite Hr, Hsk. now apply Hdp.
  - intros y Hyc Hy Hex. rewrite Hsk in Hy. destruct (N.eq_dec y x) as [->|Hne].
    + rewrite Hnew. simpl. destruct (si_live _ _ _ HI x Hyc Hy Hex) as (r & Hr1 & Hr2). exists r. split; [exact Hr1|].
      destruct (N.eq_dec r from) as [->|Hrf]; [rewrite upd_same; discriminate|now rewrite upd_other].
    + rewrite Hoth by exact Hne. now apply (si_live _ _ _ HI).
Qed.

(* ---- effect of channel.get *)
Definition chan_reset (c : chan) : chan :=
  {| ch_ctrl := fun _ => DWait; ch_data := fun _ => false; ch_vals := fun _ => None; ch_skipped := ch_skipped c |}.

Lemma chan_get_eff : forall x st oh st',
  chan_get g x st = Ok (oh, st') ->
  (oh = None /\ st' = st /\ chan_ready g x (rs_chans st x) = false) \/
  (exists h, oh = Some h /\ chan_ready g x (rs_chans st x) = true /\
     rs_pending st' = rs_pending st ++ [x] /\ rs_resolved st' = rs_resolved st /\
     (forall y, y <> x -> rs_chans st' y = rs_chans st y) /\
     rs_chans st' x = chan_reset (rs_chans st x) /\
     Permutation (h :: s_open (rs_store st)) (chan_values g (rs_chans st x) ++ s_open (rs_store st')) /\
     (store_ok (rs_store st) -> store_ok (rs_store st'))).
Proof.
  intros x st oh st' H. unfold chan_get in H.
  destruct (chan_ready g x (rs_chans st x)) eqn:Er; simpl in H.
  2:{ inversion H; subst. now left. }
  right. fold (chan_reset (rs_chans st x)) in H.
  set (vs := chan_values g (rs_chans st x)) in *.
  set (st1 := add_pending [x] (set_chan st x (chan_reset (rs_chans st x)))) in *.
  set (st2 := set_log st1 (log_get (List.length vs) x (rs_log st1))) in *.
  assert (Hch : forall y, rs_chans st2 y = if N.eqb y x then chan_reset (rs_chans st x) else rs_chans st y) by reflexivity.
  assert (Hgen : forall h s', merge vs (rs_store st2) = Ok (h, s') ->
            oh = Some h -> st' = set_store st2 s' ->
            exists h0, oh = Some h0 /\ true = true /\ rs_pending st' = rs_pending st ++ [x] /\ rs_resolved st' = rs_resolved st /\
              (forall y, y <> x -> rs_chans st' y = rs_chans st y) /\ rs_chans st' x = chan_reset (rs_chans st x) /\
              Permutation (h0 :: s_open (rs_store st)) (vs ++ s_open (rs_store st')) /\
              (store_ok (rs_store st) -> store_ok (rs_store st'))).
  { intros h s' Hm -> ->. destruct (merge_spec _ _ _ _ Hm) as (HP & Hok). change (rs_store st2) with (rs_store st) in *.
    exists h. split; [reflexivity|]. split; [reflexivity|]. split; [reflexivity|]. split; [reflexivity|]. split; [|split; [|split]].
    - intros y Hy. change (rs_chans (set_store st2 s')) with (rs_chans st2). rewrite Hch. destruct (N.eqb_spec y x); congruence.
    - change (rs_chans (set_store st2 s')) with (rs_chans st2). rewrite Hch. now rewrite N.eqb_refl.
    - exact HP.
    - exact Hok. }
  destruct vs as [|h0 [|h1 vs']] eqn:Evs.
  - bind_ok H r Hm. destruct r as [h s']. inversion H; subst oh st'; clear H.
    eapply Hgen; [exact Hm|reflexivity|reflexivity].
  - inversion H; subst oh st'; clear H. exists h0. split; [reflexivity|]. split; [reflexivity|].
    split; [reflexivity|]. split; [reflexivity|]. split; [|split; [|split]].
    + intros y Hy. rewrite Hch. destruct (N.eqb_spec y x); congruence.
    + rewrite Hch. now rewrite N.eqb_refl.
    + reflexivity.
    + auto.
  - bind_ok H r Hm. destruct r as [h s']. inversion H; subst oh st'; clear H.
    eapply Hgen; [exact Hm|reflexivity|reflexivity].
Qed.

Lemma chan_ready_dag : forall x c, chan_ready g x c = true ->
  ch_skipped c = false /\ (forall p, cpred p x -> ch_ctrl c p <> DWait) /\ (forall p, dpred p x -> ch_data c p = true).
Proof.
  intros x c H. unfold chan_ready in H. rewrite Hdag in H.
  apply andb_true_iff in H as [H H3]. apply andb_true_iff in H as [H1 H2].
  apply negb_true_iff in H1. rewrite forallb_forall in H2, H3. split; [exact H1|]. split.
  - intros p Hp. specialize (H2 p (cpred_in _ _ Hp)). unfold cpred in Hp. rewrite Hp in H2. simpl in H2.
    intros E. rewrite E in H2. discriminate.
  - intros p Hp. specialize (H3 p (dpred_in _ _ Hp)). unfold dpred in Hp. rewrite Hp in H3. exact H3.
Qed.

(* every channel that is not skipped has a control predecessor (established by initChannelManager) *)
Definition Cov (st : rstate) : Prop := forall x, In x (chan_keys g) -> has_cpred x \/ skipped st x.

Lemma chan_get_inv : forall x st oh st',
  SInv [] [] st -> Cov st -> In x (chan_keys g) -> chan_get g x st = Ok (oh, st') ->
  SInv [] [] st' /\ (forall y, skipped st' y <-> skipped st y) /\
  (forall y, In y (rs_pending st) -> In y (rs_pending st')) /\
  (forall h, oh = Some h -> In x (rs_pending st')).
Proof.
  intros x st oh st' HI Hcov Hx H.
  destruct (chan_get_eff _ _ _ _ H) as [(-> & -> & _)|(h & -> & Hrdy & Hp & Hr & Hoth & Hnew & _ & _)].
  { split; [exact HI|]. split; [tauto|]. split; [auto|]. intros h E. discriminate. }
  destruct (chan_ready_dag _ _ Hrdy) as (Hns & Hctrl & Hdata).
  assert (Hnsk : ~ skipped st x) by (unfold skipped; congruence).
  assert (Hsk : forall y, skipped st' y <-> skipped st y).
  { intros y. unfold skipped. destruct (N.eq_dec y x) as [->|Hne]; [rewrite Hnew; simpl; tauto|now rewrite Hoth]. }
  (* the channel was not started: a started channel keeps a control predecessor waiting *)
  assert (Hnst : ~ started st x).
  { intros Hs. destruct (si_started _ _ _ HI x Hx Hs) as (_ & (r & Hr1 & _ & Hr3) & _). now apply (Hctrl r Hr1). }
  (* the anchor: a control predecessor that is ready, hence resolved *)
  assert (Hex : has_cpred x) by (destruct (Hcov x Hx); [assumption|contradiction]).
  destruct (si_live _ _ _ HI x Hx Hnsk Hex) as (r & Hcr & Hrs).
  assert (Hrr : In r (rs_resolved st)).
  { pose proof (Hctrl r Hcr) as Hw. destruct (ch_ctrl (rs_chans st x) r) eqn:E; try congruence.
    destruct (si_ready _ _ _ HI x r E) as [?|[]]. assumption. }
  split; [|split; [exact Hsk|split]].
  2:{ intros y Hy. rewrite Hp. apply in_or_app. now left. }
  2:{ intros h' _. rewrite Hp. apply in_or_app. right. now left. }
  assert (Hst : forall y, started st' y <-> started st y \/ y = x).
  { intros y. unfold started. rewrite Hp, Hr, in_app_iff. simpl. intuition. }
  constructor.
  - rewrite Hp, Hr. rewrite <- app_assoc. simpl.
    apply (proj2 (NoDup_Add (Add_app x (rs_pending st) (rs_resolved st)))). split.
    + apply (si_nodup _ _ _ HI).
    + intros Hin. apply Hnst. apply in_app_or in Hin. exact Hin.
  - intros y [].
  - intros y [].
  - intros y Hy. rewrite Hoth by (intros E; subst y; contradiction). now apply (si_frame _ _ _ HI).
  - intros y p. rewrite Hr. destruct (N.eq_dec y x) as [->|Hne].
    + rewrite Hnew. simpl. discriminate.
    + rewrite Hoth by exact Hne. apply (si_ready _ _ _ HI).
  - intros y p. rewrite Hr, Hsk. destruct (N.eq_dec y x) as [->|Hne].
    + rewrite Hnew. simpl. discriminate.
    + rewrite Hoth by exact Hne. apply (si_skipmark _ _ _ HI).
  - intros y p. rewrite Hr, Hsk. destruct (N.eq_dec y x) as [->|Hne].
    + rewrite Hnew. simpl. discriminate.
    + rewrite Hoth by exact Hne. apply (si_data _ _ _ HI).
  - intros y p h'. rewrite Hr. destruct (N.eq_dec y x) as [->|Hne].
    + rewrite Hnew. simpl. discriminate.
    + rewrite Hoth by exact Hne. apply (si_vals _ _ _ HI).
  - intros y Hy. apply Hsk in Hy. destruct (N.eq_dec y x) as [->|Hne]; [contradiction|].
    rewrite Hoth by exact Hne. destruct (si_skipped _ _ _ HI _ Hy) as (Hv & Hn & Hc). split; [exact Hv|]. split; [|exact Hc].
    rewrite Hst. intros [Hs|E]; [now apply Hn|contradiction].
  - intros y Hyc Hy. apply Hst in Hy. destruct (N.eq_dec y x) as [->|Hne].
    + rewrite Hnew. simpl. split; [reflexivity|]. split.
      * exists r. rewrite Hr. auto.
      * intros p [Hdp|Hcp]; rewrite Hr, Hsk.
        -- destruct (si_data _ _ _ HI x p (Hdata p Hdp)) as [?|[[]|?]]; auto.
        -- pose proof (Hctrl p Hcp) as Hw. destruct (ch_ctrl (rs_chans st x) p) eqn:E; try congruence.
           ++ destruct (si_ready _ _ _ HI x p E) as [?|[]]. now left.
           ++ destruct (si_skipmark _ _ _ HI x p E) as [?|[[]|?]]; auto.
    + destruct Hy as [Hy|Hy]; [|contradiction]. rewrite Hoth by exact Hne.
      destruct (si_started _ _ _ HI y Hyc Hy) as (Hv & (r' & Hr1 & Hr2 & Hr3) & Hdp).
      split; [exact Hv|]. split; [exists r'; rewrite Hr; auto|]. intros p Hp'. rewrite Hr, Hsk. now apply Hdp.
  - intros y Hyc Hy Hex'. rewrite Hsk in Hy. destruct (N.eq_dec y x) as [->|Hne].
    + rewrite Hnew. simpl. exists r. split; [exact Hcr|discriminate].
    + rewrite Hoth by exact Hne. now apply (si_live _ _ _ HI).
Qed.

Lemma get_ready_inv : forall xs st ready st',
  SInv [] [] st -> Cov st -> incl xs (chan_keys g) -> get_ready g xs st = Ok (ready, st') ->
  SInv [] [] st' /\ (forall y, skipped st' y <-> skipped st y) /\
  (forall y, In y (rs_pending st) -> In y (rs_pending st')) /\
  (forall y, In y (map fst ready) -> In y (rs_pending st')).
Proof.
  induction xs as [|x xs IH]; simpl; intros st ready st' HI Hcov Hin H.
  - inversion H; subst. split; [exact HI|]. split; [tauto|]. split; [auto|]. intros y [].
  - bind_ok H r1 H1. destruct r1 as [oh st1]. bind_ok H r2 H2. destruct r2 as [l st2].
    inversion H; subst ready st'; clear H.
    destruct (chan_get_inv _ _ _ _ HI Hcov (Hin x (or_introl eq_refl)) H1) as (HI1 & Hs1 & Hp1 & Hf1).
    assert (Hcov1 : Cov st1) by (intros y Hy; destruct (Hcov y Hy); [now left|right; now apply Hs1]).
    destruct (IH _ _ _ HI1 Hcov1 (fun y Hy => Hin y (or_intror Hy)) H2) as (HI2 & Hs2 & Hp2 & Hf2).
    split; [exact HI2|]. split; [intros y; rewrite Hs2; apply Hs1|]. split; [auto|].
    intros y Hy. destruct oh as [h|]; simpl in Hy; [destruct Hy as [<-|Hy]|]; auto.
    apply Hp2. eapply Hf1. reflexivity.
Qed.

Local Arguments fresh : simpl never.
Local Opaque fresh.

(* ---- the status invariant does not look at the store or the log *)
Lemma SInv_ext : forall B W st st',
  SInv B W st -> rs_chans st' = rs_chans st -> same_tasks st st' -> SInv B W st'.
Proof.
  intros B W st st' HI Hc [Hp Hr]. destruct HI.
  constructor; unfold skipped, started in *; rewrite ?Hp, ?Hr, ?Hc; auto.
Qed.

Lemma SInv_weaken : forall B st, SInv [] [] st -> incl B (rs_pending st) -> SInv B [] st.
Proof.
  intros B st HI HB. destruct HI. constructor; auto.
  - intros y [].
  - intros x p E. destruct (si_ready0 x p E) as [?|[]]. now left.
  - intros x p E. destruct (si_skipmark0 x p E) as [?|[[]|?]]; auto.
  - intros x p E. destruct (si_data0 x p E) as [?|[[]|?]]; auto.
Qed.

Lemma resolve_one_inv : forall B W c t out st r st',
  SInv B W st -> In (t_node t) B -> resolve_one g c t out st = Ok (r, st') ->
  SInv B W st' /\ (forall y, skipped st y -> skipped st' y).
Proof.
  intros B W c t out st r st' HI Ht H. unfold resolve_one in H.
  bind_ok H r0 H0. bind_ok H s2 H2. bind_ok H st3 H3. bind_ok H st4 H4. inversion H; subst r0 st'; clear H.
  set (st2 := set_store (set_store st (r_store r)) s2) in *.
  assert (HI2 : SInv B W st2) by (eapply SInv_ext; [exact HI|reflexivity|now split]).
  destruct (report_branch_inv _ _ _ _ _ _ HI2 (or_introl (or_introl Ht)) H3) as (HI3 & Hm3 & _).
  destruct (close_all_spec _ _ _ _ H4) as (Hc & Hts & _ & _).
  split; [eapply SInv_ext; eauto|].
  intros y Hy. unfold skipped. rewrite Hc. apply Hm3. exact Hy.
Qed.

Lemma phase1_inv : forall B W b st l st',
  SInv B W st -> incl (map fst b) B -> phase1 g b st = Ok (l, st') ->
  SInv B W st' /\ (forall y, skipped st y -> skipped st' y) /\
  (forall c t r, In (c, t, r) l -> In (t_node t) B).
Proof.
  intros B W. induction b as [|[k outs] b IH]; simpl; intros st l st' HI Hin H.
  - inversion H; subst. split; [exact HI|]. split; [auto|]. intros c t r [].
  - destruct (call_of g k) as [c|] eqn:Ec; [|discriminate].
    bind_ok H t Ht. destruct (fresh (rs_store st)) as [out s1] eqn:Ef.
    bind_ok H r1 H1. destruct r1 as [rv st1]. bind_ok H r2 H2. destruct r2 as [l2 st2].
    inversion H; subst l st'; clear H.
    assert (Hk : t_node t = k).
    { unfold mk_task in Ht. destruct (negb _); [discriminate|]. inversion Ht; subst. reflexivity. }
    assert (HkB : In (t_node t) B) by (rewrite Hk; apply Hin; now left).
    assert (HI0 : SInv B W (set_store st s1)) by (eapply SInv_ext; [exact HI|reflexivity|now split]).
    destruct (resolve_one_inv _ _ _ _ _ _ _ _ HI0 HkB H1) as (HI1 & Hm1).
    destruct (IH _ _ _ HI1 (fun y Hy => Hin y (or_intror Hy)) H2) as (HI2 & Hm2 & Hl2).
    split; [exact HI2|]. split; [intros y Hy; apply Hm2, Hm1, Hy|].
    intros c' t' r' [E|Hin']; [inversion E; subst; exact HkB|eauto].
Qed.

Lemma report_values_inv : forall B from ws W st st',
  SInv B W st -> In from B -> report_values g from ws st = Ok st' ->
  exists W', SInv B W' st' /\ (forall y, skipped st' y <-> skipped st y).
Proof.
  intros B from. induction ws as [|[x h] ws IH]; simpl; intros W st st' HI Hf H.
  - inversion H; subst. exists W. split; [exact HI|tauto].
  - bind_ok H st1 H1. destruct (report_value_inv _ _ _ _ _ _ _ HI Hf H1) as (HI1 & Hs1).
    destruct (IH _ _ _ HI1 Hf H) as (W' & HI2 & Hs2). exists W'. split; [exact HI2|].
    intros y. rewrite Hs2. apply Hs1.
Qed.

Lemma phase2_inv : forall B l W st st',
  SInv B W st -> (forall c t r, In (c, t, r) l -> In (t_node t) B) -> phase2 g l st = Ok st' ->
  exists W', SInv B W' st' /\ (forall y, skipped st' y <-> skipped st y).
Proof.
  intros B. induction l as [|[[c t] r] l IH]; simpl; intros W st st' HI Hl H.
  - inversion H; subst. exists W. split; [exact HI|tauto].
  - bind_ok H st1 H1. unfold update_one in H1. bind_ok H1 st0 H0.
    destruct (close_all_spec _ _ _ _ H0) as (Hc & Hts & _ & _).
    assert (HI0 : SInv B W st0) by (eapply SInv_ext; eauto).
    destruct (report_values_inv _ _ _ _ _ _ HI0 (Hl c t r (or_introl eq_refl)) H1) as (W1 & HI1 & Hs1).
    destruct (IH _ _ _ HI1 (fun c' t' r' Hin => Hl c' t' r' (or_intror Hin)) H) as (W2 & HI2 & Hs2).
    exists W2. split; [exact HI2|]. intros y. rewrite Hs2, Hs1. unfold skipped. now rewrite Hc.
Qed.

Lemma report_deps_inv : forall B W from xs st st',
  SInv B W st -> In from B -> report_deps g from xs st = Ok st' ->
  SInv B W st' /\ (forall y, skipped st' y <-> skipped st y).
Proof.
  intros B W from. induction xs as [|x xs IH]; simpl; intros st st' HI Hf H.
  - inversion H; subst. split; [exact HI|tauto].
  - bind_ok H st1 H1. destruct (report_dep_inv _ _ _ _ _ _ HI Hf H1) as (HI1 & Hs1).
    destruct (IH _ _ HI1 Hf H) as (HI2 & Hs2). split; [exact HI2|]. intros y. rewrite Hs2. apply Hs1.
Qed.

Lemma phase3_inv : forall B W l st st',
  SInv B W st -> (forall c t r, In (c, t, r) l -> In (t_node t) B) -> phase3 g l st = Ok st' ->
  SInv B W st' /\ (forall y, skipped st' y <-> skipped st y).
Proof.
  intros B W. induction l as [|[[c t] r] l IH]; simpl; intros st st' HI Hl H.
  - inversion H; subst. split; [exact HI|tauto].
  - bind_ok H st1 H1. unfold deps_one in H1.
    destruct (report_deps_inv _ _ _ _ _ _ HI (Hl c t r (or_introl eq_refl)) H1) as (HI1 & Hs1).
    destruct (IH _ _ HI1 (fun c' t' r' Hin => Hl c' t' r' (or_intror Hin)) H) as (HI2 & Hs2).
    split; [exact HI2|]. intros y. rewrite Hs2. apply Hs1.
Qed.

Lemma mark_resolved_inv : forall B W st,
  SInv B W st -> NoDup B -> SInv [] [] (mark_resolved B st).
Proof.
  intros B W st HI HndB.
  pose proof (remove_keys_perm B (rs_pending st) HndB (si_B _ _ _ HI)) as HP.
  set (st' := mark_resolved B st).
  assert (Hp : rs_pending st' = remove_keys B (rs_pending st)) by reflexivity.
  assert (Hr : rs_resolved st' = rs_resolved st ++ B) by reflexivity.
  assert (Hc : rs_chans st' = rs_chans st) by reflexivity.
  assert (HPP : Permutation (rs_pending st ++ rs_resolved st) (rs_pending st' ++ rs_resolved st')).
  { rewrite Hp, Hr. rewrite HP at 1. rewrite <- !app_assoc.
    transitivity ((remove_keys B (rs_pending st) ++ rs_resolved st) ++ B); [apply Permutation_app_comm|now rewrite <- app_assoc]. }
  assert (Hst : forall y, started st' y <-> started st y).
  { intros y. unfold started. rewrite <- !in_app_iff. split; intros H; eapply Permutation_in; try exact H; [symmetry|]; exact HPP. }
  assert (HR : forall p, In p (rs_resolved st) \/ In p B -> In p (rs_resolved st')).
  { intros p Hp'. rewrite Hr. apply in_or_app. exact Hp'. }
  assert (Hsk : forall y, skipped st' y <-> skipped st y) by (intros y; unfold skipped; now rewrite Hc).
  constructor.
  - eapply Permutation_NoDup; [exact HPP|apply (si_nodup _ _ _ HI)].
  - intros y [].
  - intros y [].
  - intros y Hy. rewrite Hc. now apply (si_frame _ _ _ HI).
  - intros x p. rewrite Hc. intros E. left. apply HR. apply (si_ready _ _ _ HI x p E).
  - intros x p. rewrite Hc, Hsk. intros E. destruct (si_skipmark _ _ _ HI x p E) as [?|[?|?]]; auto.
  - intros x p. rewrite Hc, Hsk. intros E. destruct (si_data _ _ _ HI x p E) as [?|[?|?]]; auto.
  - intros x p h. rewrite Hc. intros E. left. apply HR. destruct (si_vals _ _ _ HI x p h E) as [?|Hw]; auto.
    right. now apply (si_W _ _ _ HI).
  - intros x Hx. apply Hsk in Hx. rewrite Hc, Hst. apply (si_skipped _ _ _ HI _ Hx).
  - intros x Hxc Hx. apply Hst in Hx. rewrite Hc.
    destruct (si_started _ _ _ HI x Hxc Hx) as (Hv & (r & Hr1 & Hr2 & Hr3) & Hdp).
    split; [exact Hv|]. split; [exists r; auto|]. intros p Hp'. rewrite Hsk. destruct (Hdp p Hp'); auto.
  - intros x Hxc Hx Hex. rewrite Hsk in Hx. rewrite Hc. now apply (si_live _ _ _ HI).
Qed.

End Dag.

(* ================================================================== Part 3 *)

(* ------------------------------------------------------------------ handles held by the channels *)
Section Acct.
Variable g : graph.
Hypothesis Hnd : NoDup (all_keys g).
Hypothesis Hend : ~ In kEND (all_keys g).

Definition vlist (f : key -> option handle) (ks : list key) : list handle :=
  flat_map (fun p => match f p with Some h => [h] | None => [] end) ks.

Lemma chan_values_vlist : forall c, chan_values g c = vlist (ch_vals c) (all_keys g).
Proof. reflexivity. Qed.

Lemma vlist_ext : forall f f' ks, (forall p, In p ks -> f p = f' p) -> vlist f ks = vlist f' ks.
Proof.
  induction ks as [|k ks IH]; simpl; intros H; [reflexivity|].
  rewrite (H k) by now left. f_equal. apply IH. intros p Hp. apply H. now right.
Qed.

Lemma vlist_none : forall ks, vlist (fun _ => None) ks = [].
Proof. induction ks; simpl; auto. Qed.

Lemma vlist_upd : forall f p h ks, NoDup ks -> In p ks -> f p = None ->
  Permutation (vlist (upd f p (Some h)) ks) (h :: vlist f ks).
Proof.
  induction ks as [|k ks IH]; simpl; intros Hnd' Hin Hf; [contradiction|].
  inversion Hnd'; subst. destruct (N.eq_dec k p) as [->|Hne].
  - rewrite upd_same, Hf. simpl. constructor.
    rewrite (vlist_ext (upd f p (Some h)) f); [reflexivity|].
    intros q Hq. apply upd_other. intros ->. contradiction.
  - destruct Hin as [->|Hin]; [congruence|]. rewrite upd_other by exact Hne.
    rewrite (IH H2 Hin Hf). symmetry. apply Permutation_middle.
Qed.

Lemma vlist_all_none : forall f ks, (forall p, In p ks -> f p = None) -> vlist f ks = [].
Proof. intros. rewrite (vlist_ext f (fun _ => None)); [apply vlist_none|auto]. Qed.

Lemma vlist_nil_none : forall f ks, vlist f ks = [] -> forall p, In p ks -> f p = None.
Proof.
  induction ks as [|k ks IH]; simpl; intros H p Hp; [contradiction|].
  destruct (f k) eqn:E; simpl in H; [discriminate|]. destruct Hp as [->|Hp]; auto.
Qed.

Notation held := (StreamRun.held g).

Lemma chan_keys_nodup : NoDup (chan_keys g).
Proof.
  unfold chan_keys. constructor.
  - intros H. apply filter_In in H as [H _]. contradiction.
  - apply NoDup_filter. exact Hnd.
Qed.

Lemma flat_map_ext_in_local : forall (F F' : key -> list handle) l,
  (forall y, In y l -> F' y = F y) -> flat_map F' l = flat_map F l.
Proof.
  induction l as [|a l IH]; simpl; intros H; [reflexivity|].
  rewrite (H a) by now left. f_equal. apply IH. intros y Hy. apply H. now right.
Qed.

Lemma flat_map_upd_perm : forall (F F' : key -> list handle) x l,
  NoDup l -> In x l -> (forall y, y <> x -> F' y = F y) ->
  Permutation (flat_map F' l ++ F x) (flat_map F l ++ F' x).
Proof.
  induction l as [|a l IH]; simpl; intros Hnd' Hin HF; [contradiction|].
  inversion Hnd'; subst. destruct (N.eq_dec a x) as [->|Hne].
  - assert (E : flat_map F' l = flat_map F l).
    { apply flat_map_ext_in_local. intros y Hy. apply HF. intros ->. contradiction. }
    rewrite E. apply perm_cnt. intros z. rewrite !cnt_app. lia.
  - destruct Hin as [->|Hin]; [congruence|]. rewrite (HF a Hne).
    specialize (IH H2 Hin HF). rewrite perm_cnt in IH. apply perm_cnt. intros z.
    specialize (IH z). rewrite !cnt_app in *. lia.
Qed.

(* the handles the engine is responsible for: those stored in the channels plus the in-flight ones [I] *)
Definition Acc (I : list handle) (st : rstate) : Prop :=
  store_ok (rs_store st) /\ Permutation (s_open (rs_store st)) (held st ++ I).

Lemma Acc_perm : forall I I' st, Permutation I I' -> Acc I st -> Acc I' st.
Proof. intros I I' st HP [Hok H]. split; [exact Hok|]. now rewrite <- HP. Qed.

(* one channel changes *)
Lemma held_change : forall st st' x,
  In x (chan_keys g) -> (forall y, y <> x -> rs_chans st' y = rs_chans st y) ->
  Permutation (held st' ++ chan_values g (rs_chans st x)) (held st ++ chan_values g (rs_chans st' x)).
Proof.
  intros st st' x Hx Hoth. unfold held.
  apply (flat_map_upd_perm (fun y => chan_values g (rs_chans st y)) (fun y => chan_values g (rs_chans st' y)) x).
  - apply chan_keys_nodup.
  - exact Hx.
  - intros y Hy. now rewrite Hoth.
Qed.

Lemma held_same : forall st st', rs_chans st' = rs_chans st -> held st' = held st.
Proof. intros st st' H. unfold held. now rewrite H. Qed.

(* ------------------------------------------------------------------ the engine's operations *)
Lemma close_all_acc : forall o hs I st st',
  Acc (hs ++ I) st -> close_all o hs st = Ok st' -> Acc I st'.
Proof.
  intros o hs I st st' [Hok HP] H. destruct (close_all_spec _ _ _ _ H) as (Hc & _ & HP' & Hok').
  split; [auto|]. rewrite (held_same _ _ Hc). rewrite perm_cnt in *. intros z.
  specialize (HP z). specialize (HP' z). rewrite !cnt_app in *. lia.
Qed.

Lemma report_skip_acc : forall x k I st b st',
  Acc I st -> report_skip g x k st = Ok (b, st') -> Acc I st'.
Proof.
  intros x k I st b st' [Hok HP] H. destruct (g_dag g) eqn:Hdag.
  2:{ unfold report_skip in H. rewrite Hdag in H. simpl in H. inversion H; subst. now split. }
  destruct (report_skip_eff g Hdag _ _ _ _ _ H) as (Hx & _ & _ & Hoth & Hnew & HP' & Hok').
  split; [auto|]. pose proof (held_change st st' x Hx Hoth) as HH. rewrite Hnew in HH. simpl in HH.
  rewrite !chan_values_vlist in *. simpl in HH.
  rewrite perm_cnt in *. intros z. specialize (HP z). specialize (HP' z). specialize (HH z).
  destruct b; rewrite ?vlist_none in *; rewrite ?cnt_app, ?cnt_nil in *; lia.
Qed.

Lemma skip_each_acc : forall from xs q I st ks q' st',
  Acc I st -> skip_each g from xs q st = Ok (ks, q', st') -> Acc I st'.
Proof.
  intros from. induction xs as [|x xs IH]; simpl; intros q I st ks q' st' HA H.
  - inversion H; subst. exact HA.
  - bind_ok H r1 H1. destruct r1 as [sk st1]. bind_ok H r2 H2. destruct r2 as [[ks2 q2] st2].
    inversion H; subst. eapply IH; [|exact H2]. eapply report_skip_acc; eauto.
Qed.

Lemma cascade_acc : forall fuel work q I st st',
  Acc I st -> cascade g fuel work q st = Ok st' -> Acc I st'.
Proof.
  induction fuel as [|fuel IH]; intros work q I st st' HA H.
  - destruct work; simpl in H; [|discriminate]. inversion H; subst. exact HA.
  - destruct work as [|k rest]; simpl in H; [inversion H; subst; exact HA|].
    destruct (call_of g k) as [c|]; [|discriminate]. bind_ok H r H1. destruct r as [[ks q1] st1].
    eapply IH; [|exact H]. eapply skip_each_acc; eauto.
Qed.

Lemma report_branch_acc : forall from xs I st st',
  Acc I st -> report_branch g from xs st = Ok st' -> Acc I st'.
Proof.
  intros from xs I st st' HA H. unfold report_branch in H. bind_ok H r H1. destruct r as [[ks q] st1].
  eapply cascade_acc; [|exact H]. eapply skip_each_acc; eauto.
Qed.

(* mode independent effect of channel.reportValues *)
Lemma report_value_gen : forall x from h st st',
  report_value g x from h st = Ok st' ->
  In x (chan_keys g) /\
  ( (rs_chans st' = rs_chans st /\ Permutation (s_open (rs_store st)) (h :: s_open (rs_store st')) /\
     (store_ok (rs_store st) -> store_ok (rs_store st')))
    \/ (rs_store st' = rs_store st /\ (forall y, y <> x -> rs_chans st' y = rs_chans st y) /\
        ch_vals (rs_chans st' x) = upd (ch_vals (rs_chans st x)) from (Some h))
    \/ (st' = st /\ g_dag g = true /\ is_data_pred_g g from x = false) ).
Proof.
  intros x from h st st' H. unfold report_value in H.
  destruct (is_chan g x) eqn:Ec; simpl in H; [|discriminate]. apply is_chan_in in Ec. split; [exact Ec|].
  destruct (g_dag g) eqn:Hdag.
  - destruct (ch_skipped (rs_chans st x)) eqn:Es.
    + destruct (close_all_spec _ _ _ _ H) as (Hc & _ & HP & Hok). left. auto.
    + destruct (is_data_pred_g g from x) eqn:Ed.
      * inversion H; subst st'; clear H. right. left. split; [reflexivity|]. split.
        -- intros y Hy. now rewrite chans_set_chan_other.
        -- now rewrite chans_set_chan_same.
      * inversion H; subst. right. right. auto.
  - inversion H; subst st'; clear H. right. left. split; [reflexivity|]. split.
    + intros y Hy. now rewrite chans_set_chan_other.
    + now rewrite chans_set_chan_same.
Qed.

(* the slot [from] of every channel other than x is untouched; slots other than [from] are untouched everywhere *)
Lemma report_value_frame : forall x from h st st',
  report_value g x from h st = Ok st' ->
  (forall y p, p <> from -> ch_vals (rs_chans st' y) p = ch_vals (rs_chans st y) p) /\
  (forall y p, y <> x -> ch_vals (rs_chans st' y) p = ch_vals (rs_chans st y) p).
Proof.
  intros x from h st st' H. destruct (report_value_gen _ _ _ _ _ H) as (_ & [(Hc & _)|[(_ & Hoth & Hnew)|(-> & _)]]).
  - rewrite Hc. auto.
  - split; intros y p Hne.
    + destruct (N.eq_dec y x) as [->|Hyx]; [rewrite Hnew; now apply upd_other|now rewrite Hoth].
    + now rewrite Hoth.
  - auto.
Qed.

Lemma report_value_acc : forall x from h I st st',
  Acc (h :: I) st -> In from (all_keys g) -> ch_vals (rs_chans st x) from = None ->
  (g_dag g = true -> is_data_pred_g g from x = true) ->
  report_value g x from h st = Ok st' -> Acc I st'.
Proof.
  intros x from h I st st' [Hok HP] Hfrom Hnone Hdp H.
  destruct (report_value_gen _ _ _ _ _ H) as (Hx & [(Hc & HP' & Hok')|[(Hs & Hoth & Hnew)|(_ & Hd & Hn)]]).
  - split; [auto|]. rewrite (held_same _ _ Hc). rewrite perm_cnt in *. intros z.
    specialize (HP z). specialize (HP' z). rewrite cnt_cons in HP'. rewrite !cnt_app in *. rewrite (cnt_cons h I) in HP. lia.
  - split; [now rewrite Hs|]. rewrite Hs. pose proof (held_change st st' x Hx Hoth) as HH.
    rewrite !chan_values_vlist in HH. rewrite Hnew in HH.
    pose proof (vlist_upd (ch_vals (rs_chans st x)) from h (all_keys g) Hnd Hfrom Hnone) as HV.
    rewrite perm_cnt in *. intros z. specialize (HP z). specialize (HH z). specialize (HV z).
    rewrite !cnt_app in *. rewrite (cnt_cons h I) in HP. rewrite cnt_cons in HV. lia.
  - rewrite (Hdp Hd) in Hn. discriminate.
Qed.

Lemma report_values_acc : forall from ws I st st',
  Acc (map snd ws ++ I) st -> In from (all_keys g) -> NoDup (map fst ws) ->
  (forall x h, In (x, h) ws -> ch_vals (rs_chans st x) from = None /\
                               (g_dag g = true -> is_data_pred_g g from x = true)) ->
  report_values g from ws st = Ok st' -> Acc I st'.
Proof.
  intros from. induction ws as [|[x h] ws IH]; simpl; intros I st st' HA Hfrom Hnd' Hpre H.
  - inversion H; subst. exact HA.
  - bind_ok H st1 H1. simpl in Hnd'. apply NoDup_cons_iff in Hnd' as [Hnx Hnd''].
    destruct (Hpre x h (or_introl eq_refl)) as [Hn Hd].
    pose proof (report_value_acc _ _ _ _ _ _ HA Hfrom Hn Hd H1) as HA1.
    destruct (report_value_frame _ _ _ _ _ H1) as (_ & Hfr).
    eapply IH; [exact HA1|exact Hfrom|exact Hnd''| |exact H].
    intros x' h' Hin. destruct (Hpre x' h' (or_intror Hin)) as [Hn' Hd']. split; [|exact Hd'].
    rewrite Hfr; [exact Hn'|]. intros ->. apply Hnx. apply in_map_iff. exists (x, h'). auto.
Qed.

Lemma report_values_frame : forall from ws st st',
  report_values g from ws st = Ok st' ->
  forall y p, p <> from -> ch_vals (rs_chans st' y) p = ch_vals (rs_chans st y) p.
Proof.
  intros from. induction ws as [|[x h] ws IH]; simpl; intros st st' H y p Hp.
  - inversion H; subst. reflexivity.
  - bind_ok H st1 H1. rewrite (IH _ _ H y p Hp). now apply (proj1 (report_value_frame _ _ _ _ _ H1)).
Qed.

Lemma chan_get_acc : forall x I st h st',
  Acc I st -> In x (chan_keys g) -> chan_get g x st = Ok (Some h, st') -> Acc (h :: I) st'.
Proof.
  intros x I st h st' [Hok HP] Hx H.
  destruct (chan_get_eff _ _ _ _ _ H) as [(E & _)|(h0 & E & _ & _ & _ & Hoth & Hnew & HP' & Hok')]; [discriminate|].
  inversion E; subst h0; clear E. split; [auto|].
  pose proof (held_change st st' x Hx Hoth) as HH. rewrite Hnew in HH. rewrite !chan_values_vlist in *.
  simpl in HH. rewrite vlist_none in HH.
  rewrite perm_cnt in *. intros z. specialize (HP z). specialize (HP' z). specialize (HH z).
  rewrite !cnt_app in *. rewrite (cnt_cons h I). rewrite cnt_cons in HP'. rewrite cnt_nil in HH. lia.
Qed.

Lemma get_ready_acc : forall xs I st ready st',
  Acc I st -> incl xs (chan_keys g) -> get_ready g xs st = Ok (ready, st') -> Acc (map snd ready ++ I) st'.
Proof.
  induction xs as [|x xs IH]; simpl; intros I st ready st' HA Hin H.
  - inversion H; subst. exact HA.
  - bind_ok H r1 H1. destruct r1 as [oh st1]. bind_ok H r2 H2. destruct r2 as [l st2].
    inversion H; subst ready st'; clear H.
    assert (Hin' : incl xs (chan_keys g)) by (intros y Hy; apply Hin; now right).
    destruct oh as [h|].
    + pose proof (chan_get_acc _ _ _ _ _ HA (Hin x (or_introl eq_refl)) H1) as HA1.
      pose proof (IH _ _ _ _ HA1 Hin' H2) as HA2. simpl.
      eapply Acc_perm; [|exact HA2]. symmetry. apply Permutation_middle.
    + destruct (chan_get_eff _ _ _ _ _ H1) as [(_ & -> & _)|(h0 & E & _)]; [|discriminate].
      eapply IH; eauto.
Qed.

(* ---- reportDependencies touches neither the store nor the values *)
Lemma report_dep_gen : forall x from st st',
  report_dep g x from st = Ok st' ->
  rs_store st' = rs_store st /\ same_tasks st st' /\ (forall y, ch_vals (rs_chans st' y) = ch_vals (rs_chans st y)).
Proof.
  intros x from st st' H. unfold report_dep in H.
  destruct (is_chan g x); simpl in H; [|discriminate].
  destruct (g_dag g); simpl in H; [|inversion H; subst; repeat split].
  destruct (ch_skipped (rs_chans st x)); [inversion H; subst; repeat split|].
  destruct (is_ctrl_pred g from x); inversion H; subst; [|repeat split].
  split; [reflexivity|]. split; [now split|]. intros y. rewrite chans_set_chan.
  destruct (N.eqb_spec y x) as [->|]; reflexivity.
Qed.

Lemma held_vals_same : forall st st', (forall y, ch_vals (rs_chans st' y) = ch_vals (rs_chans st y)) -> held st' = held st.
Proof.
  intros st st' H. unfold held. apply flat_map_ext_in_local. intros y _.
  rewrite !chan_values_vlist. now rewrite H.
Qed.

Lemma report_deps_acc : forall from xs I st st',
  Acc I st -> report_deps g from xs st = Ok st' ->
  Acc I st' /\ same_tasks st st' /\ (forall y, ch_vals (rs_chans st' y) = ch_vals (rs_chans st y)).
Proof.
  intros from. induction xs as [|x xs IH]; simpl; intros I st st' HA H.
  - inversion H; subst. split; [exact HA|]. split; [apply same_tasks_refl|reflexivity].
  - bind_ok H st1 H1. destruct (report_dep_gen _ _ _ _ H1) as (Hs & Ht & Hv).
    assert (HA1 : Acc I st1).
    { destruct HA as [Hok HP]. split; rewrite Hs; [exact Hok|]. now rewrite (held_vals_same _ _ Hv). }
    destruct (IH _ _ _ HA1 H) as (HA2 & Ht2 & Hv2). split; [exact HA2|]. split; [eapply same_tasks_trans; eauto|].
    intros y. now rewrite Hv2, Hv.
Qed.

Lemma phase3_acc : forall l I st st',
  Acc I st -> phase3 g l st = Ok st' ->
  Acc I st' /\ same_tasks st st' /\ (forall y, ch_vals (rs_chans st' y) = ch_vals (rs_chans st y)).
Proof.
  induction l as [|[[c t] r] l IH]; simpl; intros I st st' HA H.
  - inversion H; subst. split; [exact HA|]. split; [apply same_tasks_refl|reflexivity].
  - bind_ok H st1 H1. unfold deps_one in H1. destruct (report_deps_acc _ _ _ _ _ HA H1) as (HA1 & Ht1 & Hv1).
    destruct (IH _ _ _ HA1 H) as (HA2 & Ht2 & Hv2). split; [exact HA2|]. split; [eapply same_tasks_trans; eauto|].
    intros y. now rewrite Hv2, Hv1.
Qed.

(* ---- mk_task *)
Lemma existsb_map : forall (A B : Type) (f : B -> bool) (h : A -> B) l, existsb f (map h l) = existsb (fun a => f (h a)) l.
Proof. induction l; simpl; congruence. Qed.

Lemma existsb_combine_fst : forall (A B : Type) (f : A -> bool) (a : list A) (b : list B),
  List.length a = List.length b -> existsb (fun ab => f (fst ab)) (combine a b) = existsb f a.
Proof.
  induction a as [|x a IH]; intros [|y b] Hl; simpl in *; try discriminate; [reflexivity|].
  f_equal. apply IH. lia.
Qed.

Lemma mk_task_spec : forall k c outs t, mk_task k c outs = Ok t ->
  t_node t = k /\ t_write_to t = c_write_to c /\ (forall x, is_data_pred t x = call_data c x).
Proof.
  unfold mk_task. intros k c outs t H.
  destruct (Nat.eqb (List.length outs) (List.length (c_branches c))) eqn:El; simpl in H; [|discriminate].
  apply Nat.eqb_eq in El. inversion H; subst t; clear H. simpl. repeat split.
  intros x. unfold is_data_pred, call_data. simpl. f_equal.
  rewrite existsb_map. simpl.
  apply (existsb_combine_fst _ _ (fun b => negb (bd_nodata b) && memb x (bd_ends b))). lia.
Qed.

(* ---- resolveCompletedTasks for one task *)
Local Opaque fresh.

Lemma resolve_one_acc : forall c t out I st r st',
  Acc (out :: I) st -> resolve_one g c t out st = Ok (r, st') ->
  Acc (map snd (r_writes r) ++ I) st' /\ map fst (r_writes r) = next_keys t.
Proof.
  intros c t out I st r st' [Hok HP] H. unfold resolve_one in H.
  bind_ok H r0 H0. bind_ok H s2 H2. bind_ok H st3 H3. bind_ok H st4 H4. inversion H; subst r0 st'; clear H.
  assert (Hin : In out (s_open (rs_store st))).
  { eapply Permutation_in; [symmetry; exact HP|]. apply in_or_app. right. now left. }
  destruct (resolve_task_perm t out (rs_store st) Hok Hin) as (r' & Hr' & Hokr & HPr & Hk & _).
  rewrite H0 in Hr'. inversion Hr'; subst r'; clear Hr'.
  split; [|exact Hk].
  pose proof (remove_one_in_perm out _ Hin) as Hrem.
  destruct (consume_all_perm _ _ _ H2) as (HP2 & _ & _). simpl in HP2.
  set (st2 := set_store (set_store st (r_store r)) s2) in *.
  assert (HA2 : Acc (r_closed r ++ map snd (r_writes r) ++ I) st2).
  { split; [eapply consume_all_ok; [|exact H2]; exact Hokr|].
    change (held st2) with (held st). change (rs_store st2) with s2.
    rewrite perm_cnt in *. intros z. specialize (HP z). specialize (HPr z). specialize (Hrem z). specialize (HP2 z).
    rewrite !cnt_app in *. rewrite (cnt_cons out I) in HP. rewrite cnt_cons in Hrem. lia. }
  pose proof (report_branch_acc _ _ _ _ _ HA2 H3) as HA3.
  eapply close_all_acc; eauto.
Qed.

Lemma nodup_map_fst_filter : forall (A : Type) (f : key * A -> bool) l, NoDup (map fst l) -> NoDup (map fst (filter f l)).
Proof.
  induction l as [|a l IH]; simpl; intros H; [constructor|]. inversion H; subst.
  destruct (f a); simpl; [constructor|]; auto.
  intros Hin. apply H2. apply in_map_iff in Hin as (b & Hb & Hin). apply filter_In in Hin as [Hin _].
  apply in_map_iff. eauto.
Qed.

(* ---- updateValues for one task *)
Lemma update_one_acc : forall k c outs t r I st st',
  call_of g k = Some c -> mk_task k c outs = Ok t ->
  Acc (map snd (r_writes r) ++ I) st -> NoDup (map fst (r_writes r)) ->
  (forall y, ch_vals (rs_chans st y) k = None) ->
  update_one g t r st = Ok st' -> Acc I st'.
Proof.
  intros k c outs t r I st st' Hc Ht HA Hnd' Hnone H. unfold update_one in H. bind_ok H st1 H1.
  destruct (mk_task_spec _ _ _ _ Ht) as (Hk & _ & Hdp).
  pose proof (update_values_perm t (r_writes r)) as HU.
  assert (HA0 : Acc (u_closed (update_values t (r_writes r)) ++ map snd (u_chan (update_values t (r_writes r))) ++ I) st).
  { eapply Acc_perm; [|exact HA]. rewrite HU. rewrite <- !app_assoc.
    apply Permutation_app_swap_app. }
  pose proof (close_all_acc _ _ _ _ _ HA0 H1) as HA1.
  destruct (close_all_spec _ _ _ _ H1) as (Hch & _ & _ & _).
  rewrite Hk in H. eapply report_values_acc; [exact HA1| | | |exact H].
  - eapply nlist_get_in. exact Hc.
  - unfold update_values. simpl. now apply nodup_map_fst_filter.
  - intros x h Hin. rewrite Hch. split; [apply Hnone|]. intros _.
    unfold update_values in Hin. simpl in Hin. apply filter_In in Hin as [_ Hd]. simpl in Hd.
    unfold is_data_pred_g. rewrite Hc. now rewrite <- Hdp.
Qed.

End Acct.

(* ================================================================== Part 4 *)

Local Opaque fresh.
Local Arguments fresh : simpl never.

Section Phases.
Variable g : graph.
Hypothesis Hnd : NoDup (all_keys g).
Hypothesis Hend : ~ In kEND (all_keys g).

Definition node_of (e : call * task * resolved) : key := t_node (snd (fst e)).
Definition inflight (l : list (call * task * resolved)) : list handle :=
  flat_map (fun e => map snd (r_writes (snd e))) l.

(* what phase 1 knows about each resolved task *)
Definition elem_ok (e : call * task * resolved) : Prop :=
  let '(c, t, r) := e in
  call_of g (t_node t) = Some c /\ (exists outs, mk_task (t_node t) c outs = Ok t) /\ NoDup (map fst (r_writes r)).

Lemma fresh_acc : forall I st out s1, Acc g I st -> fresh (rs_store st) = (out, s1) -> Acc g (out :: I) (set_store st s1).
Proof.
  intros I st out s1 [Hok HP] Hf. destruct (fresh_spec _ _ _ Hf) as (Ho & Hok').
  split; [apply Hok'; exact Hok|]. change (held g (set_store st s1)) with (held g st). simpl. rewrite Ho.
  rewrite HP. rewrite <- app_assoc. apply Permutation_app_head. symmetry. apply Permutation_cons_append.
Qed.

Lemma phase1_acc : forall b I st l st',
  Acc g I st -> phase1 g b st = Ok (l, st') ->
  Acc g (inflight l ++ I) st' /\ Forall elem_ok l /\ map node_of l = map fst b.
Proof.
  induction b as [|[k outs] b IH]; simpl; intros I st l st' HA H.
  - inversion H; subst. split; [exact HA|]. split; [constructor|reflexivity].
  - destruct (call_of g k) as [c|] eqn:Ec; [|discriminate].
    bind_ok H t Ht. destruct (fresh (rs_store st)) as [out s1] eqn:Ef.
    bind_ok H r1 H1. destruct r1 as [rv st1]. bind_ok H r2 H2. destruct r2 as [l2 st2].
    inversion H; subst l st'; clear H.
    destruct (mk_task_spec _ _ _ _ Ht) as (Hk & _ & _).
    pose proof (fresh_acc _ _ _ _ HA Ef) as HA0.
    destruct (resolve_one_acc g Hnd Hend _ _ _ _ _ _ _ HA0 H1) as (HA1 & Hkeys).
    destruct (IH _ _ _ _ HA1 H2) as (HA2 & Hl2 & Hn2).
    split; [|split].
    + eapply Acc_perm; [|exact HA2]. unfold inflight. simpl. rewrite <- app_assoc. apply Permutation_app_swap_app.
    + constructor; [|exact Hl2]. simpl. rewrite Hk. split; [exact Ec|]. split; [exists outs; exact Ht|].
      rewrite Hkeys. apply unique_keys_nodup.
    + simpl. unfold node_of at 1. simpl. now rewrite Hk, Hn2.
Qed.

Lemma update_one_frame : forall t r st st',
  update_one g t r st = Ok st' ->
  forall y p, p <> t_node t -> ch_vals (rs_chans st' y) p = ch_vals (rs_chans st y) p.
Proof.
  intros t r st st' H y p Hp. unfold update_one in H. bind_ok H st1 H1.
  destruct (close_all_spec _ _ _ _ H1) as (Hc & _). rewrite (report_values_frame g _ _ _ _ H y p Hp). now rewrite Hc.
Qed.

Lemma phase2_acc : forall l I st st',
  Acc g (inflight l ++ I) st -> Forall elem_ok l -> NoDup (map node_of l) ->
  (forall e, In e l -> forall y, ch_vals (rs_chans st y) (node_of e) = None) ->
  phase2 g l st = Ok st' -> Acc g I st'.
Proof.
  induction l as [|[[c t] r] l IH]; simpl; intros I st st' HA Hel Hnd' Hnone H.
  - inversion H; subst. exact HA.
  - bind_ok H st1 H1. inversion Hel as [|? ? He Hel']; subst. inversion Hnd' as [|? ? Hn1 Hn2]; subst.
    destruct He as (Hc & (outs & Ht) & Hndw).
    assert (HA' : Acc g (map snd (r_writes r) ++ inflight l ++ I) st).
    { unfold inflight in *. simpl in HA. now rewrite <- app_assoc in HA. }
    pose proof (update_one_acc g Hnd Hend _ _ _ _ _ _ _ _ Hc Ht HA' Hndw (Hnone (c, t, r) (or_introl eq_refl)) H1) as HA1.
    eapply IH; [exact HA1|exact Hel'|exact Hn2| |exact H].
    intros e He y. rewrite (update_one_frame _ _ _ _ H1); [apply Hnone; now right|].
    intros E. apply Hn1. change (node_of (c, t, r)) with (t_node t). rewrite <- E. now apply in_map.
Qed.

Lemma consume_all_acc : forall hs I st s,
  Acc g (hs ++ I) st -> consume_all hs (rs_store st) = Ok s -> Acc g I (set_store st s).
Proof.
  intros hs I st s [Hok HP] H. destruct (consume_all_perm _ _ _ H) as (HP' & _ & _).
  split; [eapply consume_all_ok; eauto|]. change (held g (set_store st s)) with (held g st). simpl.
  rewrite perm_cnt in *. intros z. specialize (HP z). specialize (HP' z). rewrite !cnt_app in *. lia.
Qed.

Lemma get_ready_keys : forall xs st ready st',
  NoDup xs -> get_ready g xs st = Ok (ready, st') -> NoDup (map fst ready) /\ incl (map fst ready) xs.
Proof.
  induction xs as [|x xs IH]; simpl; intros st ready st' Hnd' H.
  - inversion H; subst. split; [constructor|intros y []].
  - bind_ok H r1 H1. destruct r1 as [oh st1]. bind_ok H r2 H2. destruct r2 as [l st2].
    inversion H; subst ready st'; clear H. inversion Hnd'; subst.
    destruct (IH _ _ _ H4 H2) as (Hn & Hi). destruct oh as [h|]; simpl.
    + split; [constructor; [intros Hx; apply H3; now apply Hi|exact Hn]|].
      intros y [<-|Hy]; [now left|right; now apply Hi].
    + split; [exact Hn|]. intros y Hy. right. now apply Hi.
Qed.

(* ---- the task lists through the phases *)
Lemma report_value_tasks : forall x from h st st', report_value g x from h st = Ok st' -> same_tasks st st'.
Proof.
  intros x from h st st' H. unfold report_value in H.
  destruct (is_chan g x); simpl in H; [|discriminate].
  destruct (g_dag g).
  - destruct (ch_skipped (rs_chans st x)).
    + now destruct (close_all_spec _ _ _ _ H) as (_ & Ht & _).
    + destruct (is_data_pred_g g from x); inversion H; subst; now split.
  - inversion H; subst. now split.
Qed.

Lemma phase2_tasks : forall l st st', phase2 g l st = Ok st' -> same_tasks st st'.
Proof.
  induction l as [|[[c t] r] l IH]; simpl; intros st st' H.
  - inversion H; subst. apply same_tasks_refl.
  - bind_ok H st1 H1. eapply same_tasks_trans; [|eapply IH; exact H].
    unfold update_one in H1. bind_ok H1 st0 H0. destruct (close_all_spec _ _ _ _ H0) as (_ & Ht0 & _).
    eapply same_tasks_trans; [exact Ht0|]. clear -H1. revert st0 H1.
    induction (u_chan (update_values t (r_writes r))) as [|[x h] ws IHw]; simpl; intros st0 H1.
    + inversion H1; subst. apply same_tasks_refl.
    + bind_ok H1 st2 H2. eapply same_tasks_trans; [eapply report_value_tasks; exact H2|eapply IHw; exact H1].
Qed.

Lemma get_ready_pending : forall xs st ready st',
  get_ready g xs st = Ok (ready, st') ->
  rs_pending st' = rs_pending st ++ map fst ready /\ rs_resolved st' = rs_resolved st.
Proof.
  induction xs as [|x xs IH]; simpl; intros st ready st' H.
  - inversion H; subst. simpl. now rewrite app_nil_r.
  - bind_ok H r1 H1. destruct r1 as [oh st1]. bind_ok H r2 H2. destruct r2 as [l st2].
    inversion H; subst ready st'; clear H. destruct (IH _ _ _ H2) as (Hp2 & Hr2).
    destruct (chan_get_eff g _ _ _ _ H1) as [(-> & -> & _)|(h & -> & _ & Hp1 & Hr1 & _)].
    + split; assumption.
    + rewrite Hp2, Hr2, Hp1, Hr1. simpl. now rewrite <- app_assoc.
Qed.

Lemma nlist_get_split : forall (A : Type) k (l : list (N * A)) v,
  NoDup (map fst l) -> nlist_get k l = Some v ->
  Permutation l ((k, v) :: filter (fun kh => negb (N.eqb (fst kh) k)) l).
Proof.
  induction l as [|[k' v'] l IH]; simpl; intros v Hnd' H; [discriminate|].
  inversion Hnd'; subst. destruct (N.eqb_spec k k') as [<-|Hne].
  - inversion H; subst v'. rewrite N.eqb_refl. simpl. constructor.
    assert (E : filter (fun kh => negb (fst kh =? k)) l = l).
    { clear -H2. induction l as [|[a b] l IH]; simpl in *; [reflexivity|].
      destruct (N.eqb_spec a k) as [->|Hn]; simpl; [exfalso; apply H2; now left|]. f_equal. apply IH. tauto. }
    now rewrite E.
  - replace (k' =? k) with false by (symmetry; apply N.eqb_neq; congruence). simpl.
    rewrite (IH v H3 H) at 1. apply perm_swap.
Qed.

End Phases.



(* ------------------------------------------------------------------ all-predecessor mode: the run *)
Section DagRun.
Variable g : graph.
Hypothesis Hdag : g_dag g = true.
Hypothesis Hnd : NoDup (all_keys g).
Hypothesis Hend : ~ In kEND (all_keys g).

Lemma chan_key_cases : forall x, In x (chan_keys g) -> x = kEND \/ (In x (all_keys g) /\ x <> kSTART).
Proof.
  unfold chan_keys. intros x [<-|H]; [now left|]. apply filter_In in H as [H1 H2]. right. split; [exact H1|].
  intros ->. rewrite N.eqb_refl in H2. discriminate.
Qed.

Definition dag_inv (st : rstate) : Prop := SInv g [] [] st /\ Cov g st /\ Acc g [] st.

Lemma Cov_mono : forall st st', Cov g st -> (forall y, skipped st y -> skipped st' y) -> Cov g st'.
Proof. intros st st' H Hm x Hx. destruct (H x Hx); [now left|right; auto]. Qed.

(* resolveCompletedTasks + updateValues + updateDependencies: the invariants hold again, the frame [I]
   of in-flight handles is untouched, the tasks that were not collected stay pending *)
Lemma resolve_phases_dag : forall b I st st',
  SInv g [] [] st -> Cov g st -> Acc g I st ->
  NoDup (map fst b) -> incl (map fst b) (rs_pending st) ->
  resolve_phases g b st = Ok st' ->
  SInv g [] [] st' /\ Cov g st' /\ Acc g I st' /\
  (forall y, In y (rs_pending st) -> ~ In y (map fst b) -> In y (rs_pending st')).
Proof.
  intros b I st st' HI Hcov HA HndB HinB H. unfold resolve_phases in H.
  set (B := map fst b) in *.
  bind_ok H r1 H1. destruct r1 as [l st1]. bind_ok H st2 H2. bind_ok H st3 H3. inversion H; subst st'; clear H.
  (* phase 1 *)
  pose proof (SInv_weaken g B st HI HinB) as HIB.
  destruct (phase1_inv g Hdag _ _ _ _ _ _ HIB (incl_refl _) H1) as (HI1 & Hm1 & Hl1).
  destruct (phase1_acc g Hnd Hend _ _ _ _ _ HA H1) as (HA1 & Hel & Hnodes).
  (* phase 2: no value of a task being resolved is in any channel *)
  assert (Hnone : forall e, In e l -> forall y, ch_vals (rs_chans st1 y) (node_of e) = None).
  { intros [[c t] r] He y. destruct (ch_vals (rs_chans st1 y) (node_of (c, t, r))) eqn:E; [|reflexivity].
    destruct (si_vals _ _ _ _ HI1 _ _ _ E) as [Hr|[]].
    destruct (resolving_not_finished g _ _ _ _ HI1 (Hl1 c t r He)) as [Hn _]. contradiction. }
  assert (HndN : NoDup (map node_of l)) by (rewrite Hnodes; exact HndB).
  pose proof (phase2_acc g Hnd Hend _ _ _ _ HA1 Hel HndN Hnone H2) as HA2.
  destruct (phase2_inv g Hdag _ _ _ _ _ HI1 Hl1 H2) as (W' & HI2 & Hs2).
  (* phase 3 *)
  destruct (phase3_inv g Hdag _ _ _ _ _ HI2 Hl1 H3) as (HI3 & Hs3).
  destruct (phase3_acc g _ _ _ _ HA2 H3) as (HA3 & _ & _).
  (* the tasks are resolved *)
  pose proof (mark_resolved_inv g _ _ _ HI3 HndB) as HI3'.
  split; [exact HI3'|]. split; [|split; [exact HA3|]].
  - eapply Cov_mono; [exact Hcov|]. intros y Hy. change (skipped st3 y). apply Hs3, Hs2, Hm1, Hy.
  - (* the same phases seen with every pending task as a potential reporter keep them pending *)
    intros y Hy Hny. change (In y (remove_keys B (rs_pending st3))).
    pose proof (SInv_weaken g (rs_pending st) st HI (incl_refl _)) as HIP.
    destruct (phase1_inv g Hdag _ _ _ _ _ _ HIP HinB H1) as (HP1 & _ & HlP).
    destruct (phase2_inv g Hdag _ _ _ _ _ HP1 HlP H2) as (W'' & HP2 & _).
    destruct (phase3_inv g Hdag _ _ _ _ _ HP2 HlP H3) as (HP3 & _).
    pose proof (si_B _ _ _ _ HP3 y Hy) as Hy3.
    clear -Hy3 Hny. revert Hy3. generalize (rs_pending st3). induction B as [|k B IH]; simpl; intros pl Hy3; [exact Hy3|].
    apply IH; [intros Hin; apply Hny; now right|]. apply remove_one_in_other; [exact Hy3|]. intros ->. apply Hny. now left.
Qed.

(* calculateNextTasks: ... and the ready values join the in-flight handles *)
Lemma calc_body_dag : forall b I st ready st4,
  SInv g [] [] st -> Cov g st -> Acc g I st ->
  NoDup (map fst b) -> incl (map fst b) (rs_pending st) ->
  calc_body g b st = Ok (ready, st4) ->
  SInv g [] [] st4 /\ Cov g st4 /\ Acc g (map snd ready ++ I) st4 /\
  NoDup (map fst ready) /\ incl (map fst ready) (chan_keys g) /\
  (forall y, In y (map fst ready) -> In y (rs_pending st4)) /\
  (forall y, In y (rs_pending st) -> ~ In y (map fst b) -> In y (rs_pending st4)).
Proof.
  intros b I st ready st4 HI Hcov HA HndB HinB H. unfold calc_body in H. bind_ok H st3 H3. rename H into H4.
  destruct (resolve_phases_dag _ _ _ _ HI Hcov HA HndB HinB H3) as (HI3 & Hcov3 & HA3 & Hkeep).
  destruct (get_ready_inv g Hdag _ _ _ _ HI3 Hcov3 (incl_refl _) H4) as (HI4 & Hs4 & Hp4 & Hf4).
  pose proof (get_ready_acc g Hnd Hend _ _ _ _ _ HA3 (incl_refl _) H4) as HA4.
  destruct (get_ready_keys g _ _ _ _ (chan_keys_nodup g Hnd Hend) H4) as (Hrn & Hri).
  split; [exact HI4|]. split; [|split; [exact HA4|split; [exact Hrn|split; [exact Hri|split; [exact Hf4|]]]]].
  - eapply Cov_mono; [exact Hcov3|]. intros y Hy. now apply Hs4.
  - intros y Hy Hny. apply Hp4. now apply Hkeep.
Qed.

Lemma calc_next_dag : forall b st ready st4,
  dag_inv st -> calc_next g b st = Ok (ready, st4) ->
  SInv g [] [] st4 /\ Cov g st4 /\ Acc g (map snd ready) st4 /\
  NoDup (map fst ready) /\ incl (map fst ready) (chan_keys g) /\
  (forall y, In y (map fst ready) -> In y (rs_pending st4)).
Proof.
  intros b st ready st4 (HI & Hcov & HA) H. unfold calc_next in H.
  destruct (batch_fits g b (rs_pending st)) eqn:Eb; simpl in H; [|discriminate].
  destruct (batch_fits_spec _ _ _ Eb) as (HndB & HinB & _).
  destruct (calc_body_dag _ _ _ _ _ HI Hcov HA HndB HinB H) as (H1 & H2 & H3 & H4 & H5 & H6 & _).
  rewrite app_nil_r in H3. tauto.
Qed.

Lemma superstep_dag : forall b st o,
  dag_inv st -> superstep g b st = Ok o ->
  match o with
  | Running st' => dag_inv st'
  | Done out dropped st' =>
      SInv g [] [] st' /\ Acc g (out :: map snd dropped) st' /\ In kEND (rs_pending st') /\
      (forall y h, In (y, h) dropped -> In y (rs_pending st') /\ In y (all_keys g) /\ y <> kSTART)
  end.
Proof.
  intros b st o Hinv H. unfold superstep in H. bind_ok H r4 H4. destruct r4 as [ready st4].
  destruct (calc_next_dag _ _ _ _ Hinv H4) as (HI4 & Hcov4 & HA4 & Hrn & Hri & Hf4).
  destruct (nlist_get kEND ready) as [out|] eqn:Ee.
  - inversion H; subst o; clear H. split; [exact HI4|]. split.
    + eapply Acc_perm; [|exact HA4].
      pose proof (nlist_get_split _ _ _ _ Hrn Ee) as HP. apply (Permutation_map snd) in HP. exact HP.
    + split; [apply Hf4; eapply nlist_get_in; exact Ee|].
      intros y h Hyh. apply filter_In in Hyh as [Hyh Hne]. simpl in Hne.
      assert (Hy : In y (map fst ready)) by (apply in_map_iff; exists (y, h); auto).
      split; [now apply Hf4|]. destruct (chan_key_cases y (Hri y Hy)) as [->|[Hk Hs]]; [|split; assumption].
      rewrite N.eqb_refl in Hne. discriminate.
  - bind_ok H s Hs. inversion H; subst o; clear H.
    assert (HA5 : Acc g [] (set_store st4 s)).
    { eapply consume_all_acc; [|exact Hs]. now rewrite app_nil_r. }
    split; [eapply SInv_ext; [exact HI4|reflexivity|now split]|]. split; [|exact HA5].
    eapply Cov_mono; [exact Hcov4|]. intros y Hy. exact Hy.
Qed.

Lemma run_from_dag : forall sched st out dropped st',
  dag_inv st -> run_from g sched st = Ok (Done out dropped st') ->
  SInv g [] [] st' /\ Acc g (out :: map snd dropped) st' /\ In kEND (rs_pending st') /\
  (forall y h, In (y, h) dropped -> In y (rs_pending st') /\ In y (all_keys g) /\ y <> kSTART).
Proof.
  induction sched as [|b rest IH]; simpl; intros st out dropped st' Hinv H; [discriminate|].
  bind_ok H o Ho. pose proof (superstep_dag _ _ _ Hinv Ho) as Hstep. destruct o as [st1|out1 dr1 st1].
  - eapply IH; eauto.
  - destruct rest; [|discriminate]. inversion H; subst. exact Hstep.
Qed.

(* ---- initChannelManager *)
(* every channel has a control predecessor, or no predecessor at all (then it is skipped up front):
   a node fed by data-only inputs without any control predecessor is excluded *)

Lemma unreachable_spec : forall x, In x (unreachable g) ->
  forall p, is_ctrl_pred g p x = false /\ is_data_pred_g g p x = false.
Proof.
  unfold unreachable. intros x H p. apply filter_In in H as [_ H]. rewrite forallb_forall in H.
  destruct (call_of g p) as [c|] eqn:Ec.
  - assert (Hp : In p (all_keys g)) by (eapply nlist_get_in; exact Ec).
    specialize (H p Hp). apply andb_true_iff in H as [H1 H2]. apply negb_true_iff in H1, H2. now split.
  - unfold is_ctrl_pred, is_data_pred_g. now rewrite Ec.
Qed.

Lemma state0_inv : SInv g [] [] state0 /\ Acc g [] state0.
Proof.
  split.
  - constructor; simpl; try (intros; discriminate).
    + repeat constructor. intros [].
    + intros y [].
    + intros y [].
    + reflexivity.
    + intros x Hx [[<-|[]]|[]]. exfalso. now apply (start_not_chan g).
    + intros x _ _ (r & Hr). exists r. split; [exact Hr|discriminate].
  - assert (Hs0 : store_ok (rs_store state0)).
    { split; [constructor|]. split; [intros h []|]. unfold hist_ok. simpl. split; [|split; [|split]].
      - intros h [[]|[(p & cs & [] & _)|(hs & [])]].
      - intros p cs [].
      - intros hs h' [].
      - intros h []. }
    split; [exact Hs0|]. simpl. rewrite app_nil_r. unfold held.
    assert (E : forall l, flat_map (fun x => chan_values g (rs_chans state0 x)) l = []).
    { induction l as [|a l IH]; cbn [flat_map]; [reflexivity|]. rewrite IH, app_nil_r. rewrite chan_values_vlist.
      apply vlist_all_none. reflexivity. }
    now rewrite E.
Qed.

Lemma init_dag : forall st, covered g = true -> init_state g = Ok st -> dag_inv st.
Proof.
  intros st Hcov H. unfold init_state in H. rewrite Hdag in H.
  destruct state0_inv as (HI0 & HA0).
  assert (Hnp : forall x, In x (unreachable g) -> nonpred g kSTART x).
  { intros x Hx. apply (unreachable_spec x Hx kSTART). }
  destruct (report_branch_inv g Hdag _ _ _ _ _ _ HI0 (or_intror Hnp) H) as (HI & Hm & Hun).
  pose proof (report_branch_acc g Hnd Hend _ _ _ _ _ HA0 H) as HA.
  split; [exact HI|]. split; [|exact HA].
  (* the nodes without any predecessor are skipped *)
  intros x Hx. unfold covered in Hcov. rewrite forallb_forall in Hcov. specialize (Hcov x Hx).
  apply orb_true_iff in Hcov as [Hc|Hc].
  - left. apply existsb_exists in Hc as (p & _ & Hp). exists p. exact Hp.
  - right. apply memb_in in Hc. apply (Hun x Hc). intros p. apply (unreachable_spec x Hc p).
Qed.

(* ---- open_empty_at_end, all-predecessor mode *)
Theorem open_empty_at_end_dag_l : forall sched out dropped st,
  covered g = true ->
  run g sched = Ok (Done out dropped st) ->
  all_finished g st = true ->
  s_open (rs_store st) = [out] /\ dropped = [].
Proof.
  intros sched out dropped st Hcov H Hfin. unfold run in H. bind_ok H st0 H0.
  pose proof (init_dag _ Hcov H0) as Hinv.
  destruct (run_from_dag _ _ _ _ _ Hinv H) as (HI & HA & HendP & Hdr).
  unfold all_finished in Hfin. rewrite forallb_forall in Hfin.
  assert (Hf : forall y, In y (all_keys g) -> y <> kSTART -> In y (rs_resolved st) \/ skipped st y).
  { intros y Hy Hne. specialize (Hfin y Hy). apply orb_true_iff in Hfin as [Hfin|Hfin]; [|now right].
    apply orb_true_iff in Hfin as [Hfin|Hfin]; [apply N.eqb_eq in Hfin; contradiction|left; now apply memb_in]. }
  assert (Hpend : forall y, In y (rs_pending st) -> In y (all_keys g) -> y <> kSTART -> False).
  { intros y Hp Hy Hne. destruct (Hf y Hy Hne) as [Hr|Hs].
    - eapply nodup_app_disj; [exact (si_nodup _ _ _ _ HI)|exact Hp|exact Hr].
    - destruct (si_skipped _ _ _ _ HI _ Hs) as (_ & Hn & _). apply Hn. now left. }
  assert (Hdrop : dropped = []).
  { destruct dropped as [|[y h] d]; [reflexivity|]. exfalso.
    destruct (Hdr y h (or_introl eq_refl)) as (Hp & Hy & Hne). eauto. }
  assert (Hheld : held g st = []).
  { unfold held. assert (E : forall l, incl l (chan_keys g) -> flat_map (fun x => chan_values g (rs_chans st x)) l = []).
    { induction l as [|x l IH]; simpl; intros Hl; [reflexivity|]. rewrite IH by (intros y Hy; apply Hl; now right).
      rewrite app_nil_r. rewrite chan_values_vlist. apply vlist_all_none. intros p _.
      assert (Hxc : In x (chan_keys g)) by (apply Hl; now left).
      destruct (chan_key_cases x Hxc) as [->|[Hx Hne]].
      - destruct (si_started _ _ _ _ HI kEND Hxc (or_introl HendP)) as (Hv & _). apply Hv.
      - destruct (Hf x Hx Hne) as [Hr|Hs].
        + destruct (si_started _ _ _ _ HI x Hxc (or_intror Hr)) as (Hv & _). apply Hv.
        + destruct (si_skipped _ _ _ _ HI _ Hs) as (Hv & _). apply Hv. }
    apply E. apply incl_refl. }
  destruct HA as [_ HP]. rewrite Hheld, Hdrop in HP. simpl in HP.
  split; [|exact Hdrop].
  symmetry in HP. apply Permutation_length_1_inv in HP. exact HP.
Qed.

(* ---- graphs in which every node reaches END along control edges / branches: Done implies that
   every node ran or was skipped *)
Inductive reaches : key -> Prop :=
| reach_end : forall x, cpred g x kEND -> reaches x
| reach_step : forall x y, cpred g x y -> In y (chan_keys g) -> reaches y -> reaches x.

Definition fin (st : rstate) (x : key) : Prop := In x (rs_resolved st) \/ skipped st x.

Lemma pred_of_finished : forall st x y,
  SInv g [] [] st -> In y (chan_keys g) -> (started st y \/ skipped st y) -> cpred g x y -> fin st x.
Proof.
  intros st x y HI Hy [Hs|Hs] Hc.
  - destruct (si_started _ _ _ _ HI y Hy Hs) as (_ & _ & Hp). apply Hp. now right.
  - destruct (si_skipped _ _ _ _ HI y Hs) as (_ & _ & Hall).
    destruct (si_skipmark _ _ _ _ HI y x (Hall x Hc)) as [?|[[]|?]]; [now left|now right].
Qed.

Lemma reaches_finished : forall st x,
  SInv g [] [] st -> In kEND (rs_pending st) -> reaches x -> fin st x.
Proof.
  intros st x HI Hend' Hr. induction Hr as [x Hc|x y Hc Hy _ IH].
  - apply (pred_of_finished st x kEND HI); [now left|left; now left|exact Hc].
  - apply (pred_of_finished st x y HI Hy); [|exact Hc]. destruct IH as [Hr|Hs]; [left; now right|now right].
Qed.

Lemma reach_iter_sound : forall n S, (forall y, In y S -> reaches y) -> forall x, In x (reach_iter g n S) -> reaches x.
Proof.
  induction n as [|n IH]; simpl; intros S HS x Hx; [now apply HS|].
  eapply IH; [|exact Hx]. intros y Hy.
  apply in_app_or in Hy as [Hy|Hy]; [now apply HS|].
  apply filter_In in Hy as [_ Hy]. apply existsb_exists in Hy as (z & Hz & Hc).
  apply andb_true_iff in Hc as [Hc1 Hc2]. apply (reach_step y z Hc1); [now apply is_chan_in|now apply HS].
Qed.

Lemma reach_set_sound : forall x, In x (reach_set g) -> reaches x.
Proof.
  intros x Hx. eapply reach_iter_sound; [|exact Hx]. intros y Hy.
  apply filter_In in Hy as [_ Hy]. now apply reach_end.
Qed.

(* open_empty_at_end for graphs in which every node reaches END: no hypothesis on the final state *)
Theorem open_empty_at_end_dag_reach_l : forall sched out dropped st,
  covered g = true -> all_reach g = true ->
  run g sched = Ok (Done out dropped st) ->
  all_finished g st = true /\ s_open (rs_store st) = [out] /\ dropped = [].
Proof.
  intros sched out dropped st Hcov Hreach H.
  assert (Hfin : all_finished g st = true).
  { pose proof H as H'. unfold run in H'. bind_ok H' st0 H0.
    pose proof (init_dag _ Hcov H0) as Hinv.
    destruct (run_from_dag _ _ _ _ _ Hinv H') as (HI & _ & HendP & _).
    unfold all_finished. apply forallb_forall. intros x Hx.
    unfold all_reach in Hreach. rewrite forallb_forall in Hreach. specialize (Hreach x Hx).
    apply orb_true_iff in Hreach as [Hs|Hm]; [now rewrite Hs|].
    apply memb_in in Hm. destruct (reaches_finished st x HI HendP (reach_set_sound x Hm)) as [Hr|Hs].
    - apply memb_in in Hr. rewrite Hr. now rewrite orb_true_r.
    - unfold skipped in Hs. rewrite Hs. now rewrite orb_true_r. }
  split; [exact Hfin|]. eapply open_empty_at_end_dag_l; eauto.
Qed.

End DagRun.

(* ------------------------------------------------------------------ any-predecessor mode (Pregel) *)
Section PregelRun.
Variable g : graph.
Hypothesis Hpre : g_dag g = false.
Hypothesis Hnd : NoDup (all_keys g).
Hypothesis Hend : ~ In kEND (all_keys g).

Definition all_empty (st : rstate) : Prop :=
  forall y p, In p (all_keys g) -> ch_vals (rs_chans st y) p = None.

Definition pregel_inv (st : rstate) : Prop := all_empty st /\ Acc g [] st.

Lemma report_branch_pregel : forall from xs st st', report_branch g from xs st = Ok st' -> st' = st.
Proof.
  intros from xs st st' H. unfold report_branch in H. bind_ok H r H1. destruct r as [[ks q] st1].
  assert (E : forall xs0 q0 sta ks0 q1 stb, skip_each g from xs0 q0 sta = Ok (ks0, q1, stb) -> ks0 = [] /\ stb = sta).
  { induction xs0 as [|x xs0 IH]; simpl; intros q0 sta ks0 q1 stb H0.
    - inversion H0; subst. auto.
    - unfold report_skip in H0 at 1. rewrite Hpre in H0. simpl in H0.
      bind_ok H0 r2 H2. destruct r2 as [[ks2 q2] st2]. inversion H0; subst. now apply IH in H2. }
  destruct (E _ _ _ _ _ _ H1) as [-> ->]. destruct CASCADE_FUEL; simpl in H; inversion H; reflexivity.
Qed.

Lemma phase1_pregel : forall b st l st', phase1 g b st = Ok (l, st') -> rs_chans st' = rs_chans st.
Proof.
  induction b as [|[k outs] b IH]; simpl; intros st l st' H.
  - inversion H; subst. reflexivity.
  - destruct (call_of g k) as [c|]; [|discriminate]. bind_ok H t Ht.
    destruct (fresh (rs_store st)) as [out s1] eqn:Ef.
    bind_ok H r1 H1. destruct r1 as [rv st1]. bind_ok H r2 H2. destruct r2 as [l2 st2]. inversion H; subst.
    rewrite (IH _ _ _ H2). unfold resolve_one in H1.
    bind_ok H1 r0 H0. bind_ok H1 s2 Hs2. bind_ok H1 st3 H3. bind_ok H1 st4 H4. inversion H1; subst.
    apply report_branch_pregel in H3. subst st3.
    destruct (close_all_spec _ _ _ _ H4) as (Hc & _). rewrite Hc. reflexivity.
Qed.

Lemma report_value_out : forall x from h st st' y,
  report_value g x from h st = Ok st' -> ~ In y (chan_keys g) -> rs_chans st' y = rs_chans st y.
Proof.
  intros x from h st st' y H Hy.
  destruct (report_value_gen g _ _ _ _ _ H) as (Hx & [(Hc & _)|[(_ & Hoth & _)|(-> & _)]]).
  - now rewrite Hc.
  - apply Hoth. intros ->. contradiction.
  - reflexivity.
Qed.

Lemma phase2_out : forall l st st' y,
  phase2 g l st = Ok st' -> ~ In y (chan_keys g) -> rs_chans st' y = rs_chans st y.
Proof.
  induction l as [|[[c t] r] l IH]; simpl; intros st st' y H Hy.
  - inversion H; subst. reflexivity.
  - bind_ok H st1 H1. rewrite (IH _ _ _ H Hy). unfold update_one in H1. bind_ok H1 st0 H0.
    destruct (close_all_spec _ _ _ _ H0) as (Hc & _). rewrite <- Hc.
    clear -H1 Hy. revert st0 H1. induction (u_chan (update_values t (r_writes r))) as [|[x h] ws IHw]; simpl; intros st0 H1.
    + inversion H1; subst. reflexivity.
    + bind_ok H1 st2 H2. rewrite (IHw _ H1). eapply report_value_out; eauto.
Qed.

Lemma get_ready_empty : forall xs st ready st',
  NoDup xs -> get_ready g xs st = Ok (ready, st') ->
  (forall y, In y xs -> forall p, In p (all_keys g) -> ch_vals (rs_chans st' y) p = None) /\
  (forall y, ~ In y xs -> rs_chans st' y = rs_chans st y).
Proof.
  induction xs as [|x xs IH]; simpl; intros st ready st' Hnd' H.
  - inversion H; subst. split; [intros y []|reflexivity].
  - bind_ok H r1 H1. destruct r1 as [oh st1]. bind_ok H r2 H2. destruct r2 as [l st2].
    inversion H; subst ready st'; clear H. inversion Hnd'; subst.
    destruct (IH _ _ _ H4 H2) as (He & Ho).
    assert (Hx1 : forall p, In p (all_keys g) -> ch_vals (rs_chans st1 x) p = None).
    { destruct (chan_get_eff g _ _ _ _ H1) as [(_ & -> & Hr)|(h & _ & _ & _ & _ & _ & Hnew & _)].
      - unfold chan_ready in Hr. rewrite Hpre in Hr. apply negb_false_iff in Hr. apply Nat.eqb_eq in Hr.
        apply length_zero_iff_nil in Hr. rewrite chan_values_vlist in Hr. now apply vlist_nil_none.
      - rewrite Hnew. reflexivity. }
    assert (Hoth1 : forall y, y <> x -> rs_chans st1 y = rs_chans st y).
    { destruct (chan_get_eff g _ _ _ _ H1) as [(_ & -> & _)|(h & _ & _ & _ & _ & Hoth & _)]; auto. }
    split.
    + intros y [<-|Hy]; [|now apply He]. rewrite (Ho x H3). exact Hx1.
    + intros y Hy. rewrite Ho by tauto. apply Hoth1. intros ->. apply Hy. now left.
Qed.

Lemma phase1_tasks_pregel : forall b st l st', phase1 g b st = Ok (l, st') -> same_tasks st st'.
Proof.
  induction b as [|[k outs] b IH]; simpl; intros st l st' H.
  - inversion H; subst. apply same_tasks_refl.
  - destruct (call_of g k) as [c|]; [|discriminate]. bind_ok H t Ht.
    destruct (fresh (rs_store st)) as [out s1] eqn:Ef.
    bind_ok H r1 H1. destruct r1 as [rv st1]. bind_ok H r2 H2. destruct r2 as [l2 st2]. inversion H; subst.
    eapply same_tasks_trans; [|eapply IH; exact H2]. unfold resolve_one in H1.
    bind_ok H1 r0 H0. bind_ok H1 s2 Hs2. bind_ok H1 st3 H3. bind_ok H1 st4 H4. inversion H1; subst.
    apply report_branch_pregel in H3. subst st3.
    destruct (close_all_spec _ _ _ _ H4) as (_ & Hts & _). exact Hts.
Qed.

Lemma phase2_vals_frame : forall l st st' y p,
  phase2 g l st = Ok st' -> ~ In p (map node_of l) -> ch_vals (rs_chans st' y) p = ch_vals (rs_chans st y) p.
Proof.
  induction l as [|[[c t] r] l IH]; simpl; intros st st' y p H Hp.
  - inversion H; subst. reflexivity.
  - bind_ok H sta Ha. rewrite (IH _ _ y p H (fun Hin => Hp (or_intror Hin))).
    apply (update_one_frame g _ _ _ _ Ha). intros E. apply Hp. left. unfold node_of. simpl. now rewrite E.
Qed.

(* the batch-free precondition: no channel holds a value written by a task of the batch *)
Lemma resolve_phases_pregel : forall b I st st',
  (forall y p, In p (map fst b) -> ch_vals (rs_chans st y) p = None) ->
  Acc g I st -> NoDup (map fst b) ->
  resolve_phases g b st = Ok st' ->
  Acc g I st' /\
  (forall y, ~ In y (chan_keys g) -> forall p, ch_vals (rs_chans st' y) p = ch_vals (rs_chans st y) p) /\
  (forall y p, ~ In p (map fst b) -> ch_vals (rs_chans st' y) p = ch_vals (rs_chans st y) p) /\
  rs_pending st' = remove_keys (map fst b) (rs_pending st).
Proof.
  intros b I st st' Hfree HA HndB H. unfold resolve_phases in H.
  bind_ok H r1 H1. destruct r1 as [l st1]. bind_ok H st2 H2. bind_ok H st3 H3. inversion H; subst st'; clear H.
  destruct (phase1_acc g Hnd Hend _ _ _ _ _ HA H1) as (HA1 & Hel & Hnodes).
  pose proof (phase1_pregel _ _ _ _ H1) as Hc1.
  assert (Hnone : forall e, In e l -> forall y, ch_vals (rs_chans st1 y) (node_of e) = None).
  { intros e He y. rewrite Hc1. apply Hfree. rewrite <- Hnodes. now apply in_map. }
  assert (HndN : NoDup (map node_of l)) by (rewrite Hnodes; exact HndB).
  pose proof (phase2_acc g Hnd Hend _ _ _ _ HA1 Hel HndN Hnone H2) as HA2.
  destruct (phase3_acc g _ _ _ _ HA2 H3) as (HA3 & [Hp3 _] & Hv3).
  destruct (phase2_tasks g _ _ _ H2) as [Hp2 _]. destruct (phase1_tasks_pregel _ _ _ _ H1) as [Hp1 _].
  split; [exact HA3|]. split; [|split].
  - intros y Hy p. change (rs_chans (mark_resolved (map fst b) st3) y) with (rs_chans st3 y).
    rewrite Hv3. rewrite (phase2_out _ _ _ _ H2 Hy). now rewrite Hc1.
  - intros y p Hp. change (rs_chans (mark_resolved (map fst b) st3) y) with (rs_chans st3 y).
    rewrite Hv3. rewrite <- Hc1. apply (phase2_vals_frame _ _ _ _ _ H2). now rewrite Hnodes.
  - simpl. now rewrite Hp3, Hp2, Hp1.
Qed.

Lemma calc_body_pregel_gen : forall b I st ready st4,
  (forall y p, In p (map fst b) -> ch_vals (rs_chans st y) p = None) ->
  (forall y, ~ In y (chan_keys g) -> forall p, In p (all_keys g) -> ch_vals (rs_chans st y) p = None) ->
  Acc g I st -> NoDup (map fst b) ->
  calc_body g b st = Ok (ready, st4) ->
  all_empty st4 /\ Acc g (map snd ready ++ I) st4 /\ NoDup (map fst ready) /\
  rs_pending st4 = remove_keys (map fst b) (rs_pending st) ++ map fst ready.
Proof.
  intros b I st ready st4 Hfree Hout HA HndB H. unfold calc_body in H. bind_ok H st3 H3. rename H into H4.
  destruct (resolve_phases_pregel _ _ _ _ Hfree HA HndB H3) as (HA3 & Hout3 & _ & Hp3).
  pose proof (get_ready_acc g Hnd Hend _ _ _ _ _ HA3 (incl_refl _) H4) as HA4.
  destruct (get_ready_keys g _ _ _ _ (chan_keys_nodup g Hnd Hend) H4) as (Hrn & Hri).
  destruct (get_ready_empty _ _ _ _ (chan_keys_nodup g Hnd Hend) H4) as (He4 & Ho4).
  destruct (get_ready_pending g _ _ _ _ H4) as (Hp4 & _).
  split; [|split; [exact HA4|split; [exact Hrn|now rewrite Hp4, Hp3]]].
  intros y p Hp. destruct (in_dec N.eq_dec y (chan_keys g)) as [Hy|Hy]; [now apply He4|].
  rewrite (Ho4 y Hy). rewrite (Hout3 y Hy). now apply Hout.
Qed.

Lemma calc_body_pregel : forall b I st ready st4,
  all_empty st -> Acc g I st -> NoDup (map fst b) ->
  calc_body g b st = Ok (ready, st4) ->
  all_empty st4 /\ Acc g (map snd ready ++ I) st4 /\ NoDup (map fst ready).
Proof.
  intros b I st ready st4 Hemp HA HndB H.
  assert (Hin : forall p, In p (map fst b) -> In p (all_keys g)).
  { intros p Hp. unfold calc_body, resolve_phases in H. bind_ok H st3 H3. bind_ok H3 r1 H1. destruct r1 as [l st1].
    destruct (phase1_acc g Hnd Hend _ _ _ _ _ HA H1) as (_ & Hel & Hnodes). rewrite <- Hnodes in Hp.
    apply in_map_iff in Hp as ([[c t] r] & <- & He). rewrite Forall_forall in Hel. destruct (Hel _ He) as (Hc & _).
    eapply nlist_get_in. exact Hc. }
  destruct (calc_body_pregel_gen b I st ready st4) as (H1 & H2 & H3 & _); auto.
Qed.

Lemma calc_next_pregel : forall b st ready st4,
  pregel_inv st -> calc_next g b st = Ok (ready, st4) ->
  all_empty st4 /\ Acc g (map snd ready) st4 /\ NoDup (map fst ready).
Proof.
  intros b st ready st4 (Hemp & HA) H. unfold calc_next in H.
  destruct (batch_fits g b (rs_pending st)) eqn:Eb; simpl in H; [|discriminate].
  destruct (batch_fits_spec _ _ _ Eb) as (HndB & HinB & _).
  destruct (calc_body_pregel _ _ _ _ _ Hemp HA HndB H) as (H1 & H2 & H3). rewrite app_nil_r in H2. tauto.
Qed.

Lemma superstep_pregel : forall b st o,
  pregel_inv st -> superstep g b st = Ok o ->
  match o with
  | Running st' => pregel_inv st'
  | Done out dropped st' => all_empty st' /\ Acc g (out :: map snd dropped) st'
  end.
Proof.
  intros b st o Hinv H. unfold superstep in H. bind_ok H r4 H4. destruct r4 as [ready st4].
  destruct (calc_next_pregel _ _ _ _ Hinv H4) as (Hemp4 & HA4 & Hrn).
  destruct (nlist_get kEND ready) as [out|] eqn:Ee.
  - inversion H; subst o; clear H. split; [exact Hemp4|].
    eapply Acc_perm; [|exact HA4].
    pose proof (nlist_get_split _ _ _ _ Hrn Ee) as HP. apply (Permutation_map snd) in HP. exact HP.
  - bind_ok H s Hs. inversion H; subst o; clear H. split; [exact Hemp4|].
    eapply consume_all_acc; [|exact Hs]. now rewrite app_nil_r.
Qed.

Lemma run_from_pregel : forall sched st out dropped st',
  pregel_inv st -> run_from g sched st = Ok (Done out dropped st') ->
  all_empty st' /\ Acc g (out :: map snd dropped) st'.
Proof.
  induction sched as [|b rest IH]; simpl; intros st out dropped st' Hinv H; [discriminate|].
  bind_ok H o Ho. pose proof (superstep_pregel _ _ _ Hinv Ho) as Hstep. destruct o as [st1|out1 dr1 st1].
  - eapply IH; eauto.
  - destruct rest; [|discriminate]. inversion H; subst. exact Hstep.
Qed.

(* ---- open_empty_at_end, any-predecessor mode: END reached with no other node scheduled *)
Theorem open_empty_at_end_pregel_l : forall sched out st,
  run g sched = Ok (Done out [] st) -> s_open (rs_store st) = [out].
Proof.
  intros sched out st H. unfold run in H. bind_ok H st0 H0.
  unfold init_state in H0. rewrite Hpre in H0. inversion H0; subst st0; clear H0.
  assert (Hinv : pregel_inv state0).
  { split; [intros y p _; reflexivity|]. apply (state0_inv g). }
  destruct (run_from_pregel _ _ _ _ _ Hinv H) as (Hemp & [_ HP]).
  assert (Hheld : held g st = []).
  { unfold held. assert (E : forall l, flat_map (fun x => chan_values g (rs_chans st x)) l = []).
    { induction l as [|x l IH]; cbn [flat_map]; [reflexivity|]. rewrite IH, app_nil_r.
      rewrite chan_values_vlist. apply vlist_all_none. intros p Hp. now apply Hemp. }
    apply E. }
  rewrite Hheld in HP. simpl in HP. symmetry in HP. apply Permutation_length_1_inv in HP. exact HP.
Qed.

End PregelRun.

(* ------------------------------------------------------------------ corollaries and examples *)
Lemma caller_consumes_l : forall st out,
  s_open (rs_store st) = [out] ->
  exists s', consume out (rs_store st) = Ok s' /\ s_open s' = [].
Proof.
  intros st out H. unfold consume. rewrite H. simpl. rewrite N.eqb_refl. simpl.
  eexists. split; [reflexivity|]. simpl. reflexivity.
Qed.

Lemma run_from_dag_running : forall g, g_dag g = true -> NoDup (all_keys g) -> ~ In kEND (all_keys g) ->
  forall sched st st', dag_inv g st -> run_from g sched st = Ok (Running st') -> dag_inv g st'.
Proof.
  intros g Hd Hn He. induction sched as [|b rest IH]; simpl; intros st st' Hinv H.
  - inversion H; subst. exact Hinv.
  - bind_ok H o Ho. pose proof (superstep_dag g Hd Hn He _ _ _ Hinv Ho) as Hstep. destruct o as [st1|out1 dr1 st1].
    + eapply IH; eauto.
    + destruct rest; discriminate.
Qed.

Lemma dag_once_l : forall g, g_dag g = true -> NoDup (all_keys g) -> ~ In kEND (all_keys g) ->
  forall sched st, covered g = true -> run g sched = Ok (Running st) -> NoDup (rs_pending st ++ rs_resolved st).
Proof.
  intros g Hd Hn He sched st Hcov H. unfold run in H. bind_ok H st0 H0.
  pose proof (init_dag g Hd Hn He _ Hcov H0) as Hinv.
  destruct (run_from_dag_running g Hd Hn He _ _ _ Hinv H) as (HI & _). apply (si_nodup _ _ _ _ HI).
Qed.

Definition mkcall (w c : list key) (bs : list bdecl) : call := {| c_write_to := w; c_controls := c; c_branches := bs |}.

(* START -> 2 ; 2 -> END and a multi-branch {3,4} ; 3 -> END ; 4 -> END : the branch selects both *)
Definition ex_dag : graph :=
  {| g_dag := true; g_eager := false;
     g_calls := [ (0, mkcall [2] [2] []);
                  (2, mkcall [1] [1] [ {| bd_nodata := false; bd_ends := [3; 4] |} ]);
                  (3, mkcall [1] [1] []); (4, mkcall [1] [1] []) ] |}.
Definition ex_dag_sched : list batch := [ [(0, [])]; [(2, [[3; 4]])]; [(4, []); (3, [])] ].

Lemma nodup_by_compute : forall l, nodup_keys l = true -> NoDup l.
Proof. exact nodup_keys_NoDup. Qed.

Lemma ex_dag_ok :
  g_dag ex_dag = true /\ NoDup (all_keys ex_dag) /\ ~ In kEND (all_keys ex_dag) /\ covered ex_dag = true /\ all_reach ex_dag = true /\
  exists out st, run ex_dag ex_dag_sched = Ok (Done out [] st) /\ all_finished ex_dag st = true /\
                 s_open (rs_store st) = [out] /\ s_log (rs_store st) = [3%Z; 2%Z] /\ l_merges (rs_log st) = [3%nat].
Proof.
  split; [reflexivity|]. split; [apply nodup_by_compute; reflexivity|].
  split; [intros H; apply memb_in in H; vm_compute in H; discriminate|]. split; [vm_compute; reflexivity|]. split; [vm_compute; reflexivity|].
  destruct (run ex_dag ex_dag_sched) as [[st|out dr st]| |] eqn:E; vm_compute in E; try discriminate.
  inversion E; subst. eexists. eexists. split; [reflexivity|]. vm_compute. repeat split.
Qed.

(* Workflow: START -> 2 (in) ; 2 -> 3 (in) ; branch of 3 without data over {4, 5} selecting 5 ;
   4 has a data-only input from 2 (closed when 4 becomes skipped), 5 has its data from 2 as well
   (data-only) so that the value written by 3 to 5 is closed by updateValues ; 4, 5 -> END *)
Definition ex_wf : graph :=
  {| g_dag := true; g_eager := true;
     g_calls := [ (0, mkcall [2] [2] []);
                  (2, mkcall [3; 4; 5] [3] []);
                  (3, mkcall [] [] [ {| bd_nodata := true; bd_ends := [4; 5] |} ]);
                  (4, mkcall [1] [1] []); (5, mkcall [1] [1] []) ] |}.
Definition ex_wf_sched : list batch := [ [(0, [])]; [(2, [])]; [(3, [[5]])]; [(5, [])] ].

Lemma ex_wf_ok :
  g_dag ex_wf = true /\ g_eager ex_wf = true /\ covered ex_wf = true /\
  exists out st, run ex_wf ex_wf_sched = Ok (Done out [] st) /\ all_finished ex_wf st = true /\
                 s_open (rs_store st) = [out] /\
                 l_update_closes (rs_log st) = 1%nat /\ l_skip_closes (rs_log st) = 1%nat.
Proof.
  split; [reflexivity|]. split; [reflexivity|]. split; [vm_compute; reflexivity|].
  destruct (run ex_wf ex_wf_sched) as [[st|out dr st]| |] eqn:E; vm_compute in E; try discriminate.
  inversion E; subst. eexists. eexists. split; [reflexivity|]. vm_compute. repeat split.
Qed.

(* Pregel: START -> 2 -> 3 ; single-choice branch of 3 over {2, END}: back once, then END *)
Definition ex_pregel : graph :=
  {| g_dag := false; g_eager := false;
     g_calls := [ (0, mkcall [2] [2] []); (2, mkcall [3] [3] []);
                  (3, mkcall [] [] [ {| bd_nodata := false; bd_ends := [2; 1] |} ]) ] |}.
Definition ex_pregel_sched : list batch := [ [(0, [])]; [(2, [])]; [(3, [[2]])]; [(2, [])]; [(3, [[1]])] ].

Lemma ex_pregel_ok :
  g_dag ex_pregel = false /\ NoDup (all_keys ex_pregel) /\ ~ In kEND (all_keys ex_pregel) /\
  exists out st, run ex_pregel ex_pregel_sched = Ok (Done out [] st) /\ s_open (rs_store st) = [out] /\
                 rs_resolved st = [0; 2; 3; 2; 3].
Proof.
  split; [reflexivity|]. split; [apply nodup_by_compute; reflexivity|].
  split; [intros H; apply memb_in in H; vm_compute in H; discriminate|].
  destruct (run ex_pregel ex_pregel_sched) as [[st|out dr st]| |] eqn:E; vm_compute in E; try discriminate.
  inversion E; subst. eexists. eexists. split; [reflexivity|]. vm_compute. repeat split.
Qed.

(* Pregel: START -> 2 ; 2 -> END and 2 -> 3 ; 3 -> END.  END and 3 are scheduled together: the
   input of 3 stays live *)
Definition ex_pregel_bad : graph :=
  {| g_dag := false; g_eager := false;
     g_calls := [ (0, mkcall [2] [2] []); (2, mkcall [1; 3] [1; 3] []); (3, mkcall [1] [1] []) ] |}.

Lemma pregel_end_not_alone_l :
  ~ (forall g sched out dropped st,
       g_dag g = false -> NoDup (all_keys g) -> ~ In kEND (all_keys g) ->
       run g sched = Ok (Done out dropped st) -> s_open (rs_store st) = [out]).
Proof.
  intros H.
  assert (Er : exists out dr st, run ex_pregel_bad [ [(0, [])]; [(2, [])] ] = Ok (Done out dr st) /\
                                 s_open (rs_store st) <> [out]).
  { vm_compute. eexists. eexists. eexists. split; [reflexivity|]. simpl. discriminate. }
  destruct Er as (out & dr & st & E & Hne). apply Hne.
  assert (Hn : NoDup (all_keys ex_pregel_bad)) by (apply nodup_by_compute; reflexivity).
  assert (He : ~ In kEND (all_keys ex_pregel_bad)) by (intros Hin; apply memb_in in Hin; vm_compute in Hin; discriminate).
  exact (H ex_pregel_bad _ _ _ _ eq_refl Hn He E).
Qed.

(* ------------------------------------------------------------------ interrupt exits *)
Lemma consume_all_succeeds : forall hs s rest,
  Permutation (s_open s) (hs ++ rest) ->
  exists s', consume_all hs s = Ok s' /\ Permutation (s_open s') rest.
Proof.
  induction hs as [|h hs IH]; simpl; intros s rest HP.
  - exists s. split; [reflexivity|exact HP].
  - assert (Hin : In h (s_open s)) by (eapply Permutation_in; [symmetry; exact HP|now left]).
    unfold consume at 1. apply memb_in in Hin. rewrite Hin. simpl. apply memb_in in Hin.
    apply IH. simpl. apply remove_one_perm_cons. exact HP.
Qed.

(* at every pass of the run loop the live handles are exactly the streams stored in the channels and
   the inputs of the tasks about to start: the checkpoint conversion of an interrupt exit drains all of them *)
Lemma interrupt_point_dag_l : forall g, g_dag g = true -> NoDup (all_keys g) -> ~ In kEND (all_keys g) ->
  forall sched st b ready st4, covered g = true ->
  run g sched = Ok (Running st) -> calc_next g b st = Ok (ready, st4) ->
  exists s, checkpoint_drain g ready st4 = Ok s /\ s_open s = [].
Proof.
  intros g Hd Hn He sched st b ready st4 Hcov H Hc. unfold run in H. bind_ok H st0 H0.
  pose proof (init_dag g Hd Hn He _ Hcov H0) as Hinv0.
  pose proof (run_from_dag_running g Hd Hn He _ _ _ Hinv0 H) as Hinv.
  destruct (calc_next_dag g Hd Hn He _ _ _ _ Hinv Hc) as (_ & _ & [_ HP] & _).
  unfold checkpoint_drain. destruct (consume_all_succeeds (held g st4 ++ map snd ready) (rs_store st4) []) as (s & Hs & HPs).
  - now rewrite app_nil_r.
  - exists s. split; [exact Hs|]. now apply Permutation_nil.
Qed.

Lemma run_from_pregel_running : forall g, g_dag g = false -> NoDup (all_keys g) -> ~ In kEND (all_keys g) ->
  forall sched st st', pregel_inv g st -> run_from g sched st = Ok (Running st') -> pregel_inv g st'.
Proof.
  intros g Hp Hn He. induction sched as [|b rest IH]; simpl; intros st st' Hinv H.
  - inversion H; subst. exact Hinv.
  - bind_ok H o Ho. pose proof (superstep_pregel g Hp Hn He _ _ _ Hinv Ho) as Hstep. destruct o as [st1|out1 dr1 st1].
    + eapply IH; eauto.
    + destruct rest; discriminate.
Qed.

Lemma interrupt_point_pregel_l : forall g, g_dag g = false -> NoDup (all_keys g) -> ~ In kEND (all_keys g) ->
  forall sched st b ready st4,
  run g sched = Ok (Running st) -> calc_next g b st = Ok (ready, st4) ->
  exists s, checkpoint_drain g ready st4 = Ok s /\ s_open s = [].
Proof.
  intros g Hp Hn He sched st b ready st4 H Hc. unfold run in H. bind_ok H st0 H0.
  unfold init_state in H0. rewrite Hp in H0. inversion H0; subst st0; clear H0.
  assert (Hinv0 : pregel_inv g state0).
  { split; [intros y p _; reflexivity|]. apply (state0_inv g). }
  pose proof (run_from_pregel_running g Hp Hn He _ _ _ Hinv0 H) as Hinv.
  destruct (calc_next_pregel g Hp Hn He _ _ _ _ Hinv Hc) as (_ & [_ HP] & _).
  unfold checkpoint_drain. destruct (consume_all_succeeds (held g st4 ++ map snd ready) (rs_store st4) []) as (s & Hs & HPs).
  - now rewrite app_nil_r.
  - exists s. split; [exact Hs|]. now apply Permutation_nil.
Qed.

(* ------------------------------------------------------------------ the statements of Props/C19.v *)
Lemma interrupt_exit_drains_l : forall g sched st b ready st4,
  NoDup (all_keys g) -> ~ In kEND (all_keys g) -> (g_dag g = true -> covered g = true) ->
  run g sched = Ok (Running st) -> calc_next g b st = Ok (ready, st4) ->
  exists s, checkpoint_drain g ready st4 = Ok s /\ s_open s = [].
Proof.
  intros g sched st b ready st4 Hn He Hc. destruct (g_dag g) eqn:Hd.
  - exact (interrupt_point_dag_l g Hd Hn He sched st b ready st4 (Hc eq_refl)).
  - exact (interrupt_point_pregel_l g Hd Hn He sched st b ready st4).
Qed.

Lemma open_empty_at_end_dag_s : forall g sched out dropped st,
  g_dag g = true -> NoDup (all_keys g) -> ~ In kEND (all_keys g) -> covered g = true ->
  run g sched = Ok (Done out dropped st) ->
  all_finished g st = true ->
  s_open (rs_store st) = [out] /\ dropped = [].
Proof. intros g sched out dropped st Hd Hn He. exact (open_empty_at_end_dag_l g Hd Hn He sched out dropped st). Qed.

Lemma open_empty_at_end_dag_reach_s : forall g sched out dropped st,
  g_dag g = true -> NoDup (all_keys g) -> ~ In kEND (all_keys g) -> covered g = true -> all_reach g = true ->
  run g sched = Ok (Done out dropped st) ->
  all_finished g st = true /\ s_open (rs_store st) = [out] /\ dropped = [].
Proof. intros g sched out dropped st Hd Hn He. exact (open_empty_at_end_dag_reach_l g Hd Hn He sched out dropped st). Qed.

Lemma open_empty_at_end_pregel_s : forall g sched out st,
  g_dag g = false -> NoDup (all_keys g) -> ~ In kEND (all_keys g) ->
  run g sched = Ok (Done out [] st) ->
  s_open (rs_store st) = [out].
Proof. intros g sched out st Hp Hn He. exact (open_empty_at_end_pregel_l g Hp Hn He sched out st). Qed.

Lemma dag_once_s : forall g sched st,
  g_dag g = true -> NoDup (all_keys g) -> ~ In kEND (all_keys g) -> covered g = true ->
  run g sched = Ok (Running st) ->
  NoDup (rs_pending st ++ rs_resolved st).
Proof. intros g sched st Hd Hn He. exact (dag_once_l g Hd Hn He sched st). Qed.

(* ------------------------------------------------------------------ every stream is released *)
Lemma done_store_ok_l : forall g sched out dropped st,
  NoDup (all_keys g) -> ~ In kEND (all_keys g) -> (g_dag g = true -> covered g = true) ->
  run g sched = Ok (Done out dropped st) -> store_ok (rs_store st).
Proof.
  intros g sched out dropped st Hn He Hc H. destruct (g_dag g) eqn:Hd.
  - unfold run in H. bind_ok H st0 H0. pose proof (init_dag g Hd Hn He _ (Hc eq_refl) H0) as Hinv.
    destruct (run_from_dag g Hd Hn He _ _ _ _ _ Hinv H) as (_ & [Hok _] & _). exact Hok.
  - unfold run in H. bind_ok H st0 H0. unfold init_state in H0. rewrite Hd in H0. inversion H0; subst st0; clear H0.
    assert (Hinv : pregel_inv g state0) by (split; [intros y p _; reflexivity|apply (state0_inv g)]).
    destruct (run_from_pregel g Hd Hn He _ _ _ _ _ Hinv H) as (_ & [Hok _]). exact Hok.
Qed.

(* when the run is Done (all-predecessor mode: every node ran or was skipped; any-predecessor mode:
   nothing else scheduled with END) and the caller has drained or closed the output, every stream
   that existed during the run — the input, every node's output, every copy, every merged stream,
   every empty stream — is released *)
Lemma every_stream_released_l : forall g sched out dropped st s',
  NoDup (all_keys g) -> ~ In kEND (all_keys g) ->
  (g_dag g = true -> covered g = true /\ all_finished g st = true) ->
  (g_dag g = false -> dropped = []) ->
  run g sched = Ok (Done out dropped st) ->
  consume out (rs_store st) = Ok s' ->
  s_open s' = [] /\ forall h, created (s_hist s') h -> released (s_hist s') h.
Proof.
  intros g sched out dropped st s' Hn He Hdagh Hpre H Hcons.
  assert (Hok : store_ok (rs_store st)).
  { eapply done_store_ok_l; eauto. intros Hd. apply (Hdagh Hd). }
  assert (Hopen : s_open (rs_store st) = [out]).
  { destruct (g_dag g) eqn:Hd.
    - destruct (Hdagh eq_refl) as [Hcov Hfin]. apply (open_empty_at_end_dag_l g Hd Hn He sched out dropped st Hcov H Hfin).
    - rewrite (Hpre eq_refl) in H. apply (open_empty_at_end_pregel_l g Hd Hn He sched out st H). }
  pose proof (consume_ok _ _ _ Hok Hcons) as Hok'.
  destruct (consume_perm _ _ _ Hcons) as (HP & _). rewrite Hopen in HP.
  assert (Hempty : s_open s' = []).
  { apply Permutation_length in HP. simpl in HP. destruct (s_open s'); [reflexivity|simpl in HP; lia]. }
  split; [exact Hempty|]. now apply all_released.
Qed.

Lemma ex_released_ok :
  exists out st s', run ex_dag ex_dag_sched = Ok (Done out [] st) /\ consume out (rs_store st) = Ok s' /\
    s_open s' = [] /\
    In (HCopy 1 [2; 3; 4]) (s_hist s') /\ In (HMerge [6; 8; 7] 9) (s_hist s') /\ In (HConsume 9) (s_hist s').
Proof.
  assert (E : exists out st, run ex_dag ex_dag_sched = Ok (Done out [] st) /\
                exists s', consume out (rs_store st) = Ok s' /\ s_open s' = [] /\
                  In (HCopy 1 [2; 3; 4]) (s_hist s') /\ In (HMerge [6; 8; 7] 9) (s_hist s') /\ In (HConsume 9) (s_hist s')).
  { vm_compute. eexists. eexists. split; [reflexivity|]. eexists. split; [reflexivity|]. split; [reflexivity|].
    split; [|split]; simpl; tauto. }
  destruct E as (out & st & H1 & s' & H2). exists out, st, s'. tauto.
Qed.
