(* Proofs/DagSkip.v — C02, graph level, part 6: soundness of skips. Invariant ES: every Skipped control
   entry is justified (the predecessor is skipped, or it was resolved with an output for which the target is
   in its list of unselected branch ends), and a skipped node without control predecessors either has no
   predecessor at all or has a skipped data predecessor. With /repo 665541a (a direct control successor is
   never in the skipped list) this gives: skipped => no control predecessor routed to it. *)
From Eino Require Import Base.Util Model.Graph Proofs.DagChan Proofs.DagInv Proofs.DagLoop Proofs.DagTrig.
From Coq Require Import Lia Permutation.
Open Scope N_scope.

Section DagSkip.
  Variable V : Type.
  Variable ops : vops V.
  Variable g : graph.
  Hypothesis Hdag : g_mode g = Dag.
  Hypothesis Hnk : NoDup (map n_key (g_nodes g)).

  Notation chan := (chan V).
  Notation chans := (chans V).
  Notation ctrl_st := (ctrl_st V).
  Notation data_st := (data_st V).
  Notation Inv := (Inv V g).
  Notation skipped := (skipped V).
  Notation sk_mono := (sk_mono V).

  Definition skip_just (cs : chans) (L : list (key * V)) (t p : key) : Prop :=
    skipped cs p \/ exists out n, In (p, out) L /\ find_node g p = Some n /\ In t (skl_of V ops n out).

  Record ES (cs : chans) (L : list (key * V)) : Prop := {
    s_c : forall t c p, alookup t cs = Some c -> ctrl_st c p = Some Skipped -> skip_just cs L t p;
    s_k : forall t c, alookup t cs = Some c -> c_skipped V c = true -> cpreds g t = [] ->
          dpreds g t = [] \/ exists p, In p (dpreds g t) /\ skipped cs p;
  }.

  Lemma skip_just_mono cs cs' L L' t p :
    sk_mono cs cs' -> incl L L' -> skip_just cs L t p -> skip_just cs' L' t p.
  Proof.
    intros [_ Hm] Hi [Hs|(out & n & Hin & H)]; [left; now apply Hm|right]. exists out, n. split; [now apply Hi|assumption].
  Qed.

  Lemma ES_mono_L cs L L' : incl L L' -> ES cs L -> ES cs L'.
  Proof.
    intros Hi [H1 H2]. constructor; [|assumption].
    intros t c p E Hs. eapply skip_just_mono; [apply sk_mono_refl|exact Hi|eapply H1; eassumption].
  Qed.

  (* ---------- one target of report_skip_to ---------- *)
  Lemma rst_body_ES from cs0 R G W L t cs1 nw0 nw1 :
    Inv cs0 R G (W ++ nw0) -> ES cs0 L ->
    (In from R \/ skipped cs0 from) ->
    (forall c, alookup t cs0 = Some c -> ~ In t G) ->
    (forall c, alookup t cs0 = Some c -> ctrl_st c from <> None -> skip_just cs0 L t from) ->
    (forall c, alookup t cs0 = Some c -> cpreds g t = [] ->
               dpreds g t = [] \/ (In from (dpreds g t) /\ skipped cs0 from)) ->
    rst_body V from (cs0, nw0) t = (cs1, nw1) -> ES cs1 L.
  Proof.
    intros HI HE Hfrom HtG Jc Jk Hb.
    pose proof (inv_wf _ _ _ _ _ _ HI) as Hwf.
    destruct (rst_body_inv V g from cs0 R G W t cs1 nw0 nw1 HI Hfrom HtG Hb) as (_ & Hm & _ & _).
    destruct (rst_body_spec V g from cs0 nw0 t cs1 nw1 Hwf Hb) as [(En & -> & ->)|(c & c' & Et & Hlk & Hctrl & _ & _ & Hskc' & _ & _)];
      [assumption|].
    destruct HE as [H1 H2]. constructor.
    - intros t' c1 p. rewrite Hlk. destruct (N.eqb_spec t' t) as [->|]; [|intros E Hs; eapply skip_just_mono; [exact Hm|apply incl_refl|eapply H1; eassumption]].
      intros [= <-]. rewrite Hctrl. destruct (N.eqb_spec p from) as [->|].
      + intros Hs. eapply skip_just_mono; [exact Hm|apply incl_refl|]. apply (Jc c Et).
        destruct (ctrl_st c from); [discriminate|discriminate].
      + intros Hs. eapply skip_just_mono; [exact Hm|apply incl_refl|eapply H1; eassumption].
    - intros t' c1. rewrite Hlk. destruct (N.eqb_spec t' t) as [->|].
      + intros [= <-] S Hc. destruct (c_skipped V c) eqn:Sc.
        * destruct (H2 t c Et Sc Hc) as [?|(p & Hp & Hs)]; [now left|right]. exists p. split; [assumption|]. destruct Hm as [_ Hm]. now apply Hm.
        * destruct (Jk c Et Hc) as [?|[Hd Hs]]; [now left|right]. exists from. split; [assumption|]. destruct Hm as [_ Hm]. now apply Hm.
      + intros E S Hc. destruct (H2 t' c1 E S Hc) as [?|(p & Hp & Hs)]; [now left|right]. exists p. split; [assumption|]. destruct Hm as [_ Hm]. now apply Hm.
  Qed.

  Lemma rst_fold_ES from targets : forall cs0 nw0 R G W L cs1 nw1,
    Inv cs0 R G (W ++ nw0) -> ES cs0 L ->
    (In from R \/ skipped cs0 from) ->
    (forall t c, In t targets -> alookup t cs0 = Some c -> ~ In t G) ->
    (forall t, In t targets -> In from (cpreds g t) ->
               (skipped cs0 from \/ exists out n, In (from, out) L /\ find_node g from = Some n /\ In t (skl_of V ops n out))) ->
    (forall t, In t targets -> cpreds g t = [] -> dpreds g t = [] \/ (In from (dpreds g t) /\ skipped cs0 from)) ->
    fold_left (rst_body V from) targets (cs0, nw0) = (cs1, nw1) -> ES cs1 L.
  Proof.
    induction targets as [|t targets IH]; intros cs0 nw0 R G W L cs1 nw1 HI HE Hfrom HtG Jc Jk Hfold; cbn [fold_left] in Hfold.
    - injection Hfold as <- <-. assumption.
    - destruct (rst_body V from (cs0, nw0) t) as [csm nwm] eqn:Eb.
      destruct (rst_body_inv V g from cs0 R G W t csm nw0 nwm HI Hfrom (fun c E => HtG t c (or_introl eq_refl) E) Eb)
        as (HIm & Hmono & _ & _).
      assert (HEm : ES csm L).
      { apply (rst_body_ES from cs0 R G W L t csm nw0 nwm HI HE Hfrom); [| | |exact Eb].
        - intros c E. eapply HtG; [now left|eassumption].
        - intros c E Hne. apply (Jc t); [now left|].
          pose proof (inv_wf _ _ _ _ _ _ HI) as (_ & _ & Hall). destruct (Hall t c E) as (_ & Hcw & _). now apply Hcw.
        - intros c _. apply (Jk t). now left. }
      destruct Hmono as [Ek Hm].
      eapply IH; try eassumption.
      + destruct Hfrom as [?|Hs]; [now left|right; now apply Hm].
      + intros t' c Hin E. destruct (alookup t' cs0) as [c0|] eqn:E0.
        * eapply HtG; [right; eassumption|eassumption].
        * apply (alookup_same_keys csm cs0 t' Ek) in E0. congruence.
      + intros t' Hin Hcp. destruct (Jc t' (or_intror Hin) Hcp) as [Hs|?]; [left; now apply Hm|now right].
      + intros t' Hin Hc. destruct (Jk t' (or_intror Hin) Hc) as [?|[Hd Hs]]; [now left|right]. split; [assumption|now apply Hm].
  Qed.

  Lemma propagate_ES fuel : forall work cs R G L cs',
    Inv cs R G work -> ES cs L -> propagate V g fuel work cs = Ok cs' -> ES cs' L.
  Proof.
    induction fuel as [|fuel IH]; intros work cs R G L cs' HI HE; destruct work as [|k work]; simpl.
    - intros [= <-]. assumption.
    - discriminate.
    - intros [= <-]. assumption.
    - destruct (find_node g k) as [n|] eqn:Ef; [|discriminate].
      destruct (report_skip_to V cs k (succs n)) as [cs1 newly] eqn:Er. intros Hp.
      assert (Hk : skipped cs k) by (apply (inv_W _ _ _ _ _ _ HI); now left).
      assert (HtG : forall t c, In t (succs n) -> alookup t cs = Some c -> ~ In t G).
      { intros t c Hin Et HinG.
        assert (Hne : t <> kSTART) by (intros ->; rewrite (start_no_chan _ _ _ _ _ _ HI) in Et; discriminate).
        destruct (inv_B _ _ _ _ _ _ HI t HinG Hne) as (c0 & _ & _ & _ & _ & Q).
        destruct (Q k (succs_gpred g k n t Ef Hin)) as [HR|[_ Hn]].
        - apply (gotten_not_skipped _ _ _ _ _ _ k HI); [|assumption]. now apply (inv_RG _ _ _ _ _ _ HI).
        - apply Hn. now left. }
      destruct (report_skip_to_inv V g cs R G (k :: work) k (succs n) cs1 newly HI (or_intror Hk) HtG Er) as (HI1 & _).
      rewrite report_skip_to_eq in Er.
      assert (HI0 : Inv cs R G ((k :: work) ++ [])) by now rewrite app_nil_r.
      assert (HE1 : ES cs1 L).
      { apply (rst_fold_ES k (succs n) cs [] R G (k :: work) L cs1 newly HI0 HE (or_intror Hk) HtG); [| |exact Er].
        - intros t _ _. now left.
        - intros t Hin Hc. right. split; [|assumption].
          destruct (succs_gpred g k n t Ef Hin) as [Hcp|Hdp]; [rewrite Hc in Hcp; destruct Hcp|assumption]. }
      eapply IH; [|exact HE1|exact Hp].
      eapply Inv_weaken_W; [|exact HI1]. intros x Hx. simpl. now right.
  Qed.

  Lemma report_branch_ES cs R G L from sk cs' :
    Inv cs R G [] -> ES cs L -> In from R ->
    (forall t c, In t sk -> alookup t cs = Some c -> ~ In t G) ->
    (forall t, In t sk -> In from (cpreds g t) -> exists out n, In (from, out) L /\ find_node g from = Some n /\ In t (skl_of V ops n out)) ->
    (forall t, In t sk -> cpreds g t = [] -> dpreds g t = []) ->
    report_branch V g from sk cs = Ok cs' -> ES cs' L.
  Proof.
    intros HI HE HR HtG Jc Jk. unfold report_branch. rewrite Hdag.
    destruct (report_skip_to V cs from sk) as [cs1 newly] eqn:Er. intros Hp.
    destruct (report_skip_to_inv V g cs R G [] from sk cs1 newly HI (or_introl HR) HtG Er) as (HI1 & _).
    rewrite report_skip_to_eq in Er. simpl in HI1.
    assert (HE1 : ES cs1 L).
    { apply (rst_fold_ES from sk cs [] R G [] L cs1 newly HI HE (or_introl HR) HtG); [| |exact Er].
      - intros t Hin Hcp. right. now apply Jc.
      - intros t Hin Hc. left. now apply Jk. }
    eapply propagate_ES; eassumption.
  Qed.

  Lemma resolve_all_ES completed : forall cs R G L cs' ws ds,
    Inv cs R G [] -> ES cs L -> incl completed L ->
    (forall k, In k (akeys completed) -> In k R /\ npred g G k) ->
    resolve_all V ops g completed cs = Ok (cs', ws, ds) -> ES cs' L.
  Proof.
    induction completed as [|[k out] completed IH]; intros cs R G L cs' ws ds HI HE HL Hc; cbn [resolve_all].
    - intros [= <- _ _]. assumption.
    - destruct (find_node g k) as [n|] eqn:Ef; [|discriminate].
      destruct (resolve_one V ops g n out cs) as [[[cs1 w1] d1]|e|] eqn:E1; simpl; [|discriminate..].
      destruct (resolve_all V ops g completed cs1) as [[[cs2 w2] d2]|e|] eqn:E2; simpl; [|discriminate..].
      intros [= <- _ _].
      destruct (Hc k (or_introl eq_refl)) as [HkR Hknp].
      destruct (resolve_one_inv V ops g Hdag cs R G k n out cs1 w1 d1 HI Ef HkR Hknp E1) as (HI1 & _).
      eapply IH; [exact HI1| |intros x Hx; apply HL; now right|intros k' Hk'; apply Hc; now right|exact E2].
      unfold resolve_one in E1. destruct (eval_branches V ops n out) as [[sel sk]|e|] eqn:Eb; simpl in E1; [|discriminate..].
      destruct (find_node_in g k n Ef) as [Hn Hk]. rewrite Hk in E1.
      destruct (report_branch V g k sk cs) as [cs1'|e|] eqn:Er; simpl in E1; [|discriminate..].
      injection E1 as <- _ _.
      destruct (sel_skl_of V ops n out sel sk Eb) as [_ Eskl].
      apply (report_branch_ES cs R G L k sk cs1' HI HE HkR); [| | |exact Er].
      + intros t c Hin Et HinG.
        assert (Hne : t <> kSTART) by (intros ->; rewrite (start_no_chan _ _ _ _ _ _ HI) in Et; discriminate).
        apply (Hknp t HinG Hne). left. eapply branch_end_cpred; [eassumption|]. eapply eval_branches_skipped; eassumption.
      + intros t Hin _. exists out, n. split; [apply HL; now left|]. split; [assumption|]. now rewrite Eskl.
      + intros t Hin Hcp. exfalso.
        assert (Hkc : In k (cpreds g t)).
        { eapply branch_end_cpred; [eassumption|]. eapply eval_branches_skipped; eassumption. }
        rewrite Hcp in Hkc. destruct Hkc.
  Qed.

  Lemma update_chans_ES cs R G L ws ds cs' :
    Inv cs R G [] -> ES cs L -> update_chans V g ws ds cs = Ok cs' -> ES cs' L.
  Proof.
    intros HI HE. unfold update_chans. destruct (targets_exist V cs ws ds); [|discriminate].
    intros [= <-]. rewrite (update_chans_eq V g Hdag).
    set (cs' := map (fun kv : N * chan => (fst kv, upd1 V g ws ds (fst kv) (snd kv))) cs).
    assert (Hlk : forall t, alookup t cs' = option_map (upd1 V g ws ds t) (alookup t cs)).
    { intros t. unfold cs'. exact (alookup_map_snd (fun kv => upd1 V g ws ds (fst kv) (snd kv)) t cs). }
    assert (Hsk : forall p, skipped cs p -> skipped cs' p).
    { intros p (c & E & S). exists (upd1 V g ws ds p c). rewrite Hlk, E. split; [reflexivity|now rewrite upd1_skipped]. }
    destruct HE as [H1 H2]. constructor.
    - intros t c' p. rewrite Hlk. destruct (alookup t cs) as [c|] eqn:E; [|discriminate]. simpl. intros [= <-] Hs.
      assert (Hs0 : ctrl_st c p = Some Skipped).
      { rewrite (upd1_ctrl V g) in Hs. destruct (_ && _)%bool; [|assumption]. destruct (ctrl_st c p); discriminate. }
      destruct (H1 t c p E Hs0) as [Hk|?]; [left; now apply Hsk|now right].
    - intros t c'. rewrite Hlk. destruct (alookup t cs) as [c|] eqn:E; [|discriminate]. simpl. intros [= <-] S Hc.
      rewrite upd1_skipped in S. destruct (H2 t c E S Hc) as [?|(p & Hp & Hs)]; [now left|right]. exists p. split; [assumption|now apply Hsk].
  Qed.

  Lemma get_all_ES cs R G L cs' ready :
    Inv cs R G [] -> ES cs L -> get_all V ops g cs = Ok (cs', ready) -> ES cs' L.
  Proof.
    intros HI HE Hg.
    pose proof (inv_wf _ _ _ _ _ _ HI) as (Hks & _ & _).
    destruct (get_all_spec V ops g Hdag cs cs' ready Hks Hg) as (_ & _ & _ & Hspec).
    assert (Hch : forall t c', alookup t cs' = Some c' -> exists c, alookup t cs = Some c /\ (c' = c \/ c' = dag_reset V c)).
    { intros t c' E'. specialize (Hspec t). destruct (alookup t cs) as [c|].
      - destruct Hspec as (ov & c2 & G1 & G2 & _). rewrite E' in G2. injection G2 as <-.
        exists c. split; [reflexivity|]. destruct (dag_get_cases V ops c ov c' G1) as [(_ & -> & _)|(v & _ & -> & _)]; auto.
      - destruct Hspec as [En _]. congruence. }
    assert (Hsk : forall p, skipped cs p -> skipped cs' p).
    { intros p (c & E & S). specialize (Hspec p). rewrite E in Hspec. destruct Hspec as (ov & c2 & G1 & G2 & _).
      exists c2. split; [assumption|]. destruct (dag_get_cases V ops c ov c2 G1) as [(_ & -> & _)|(v & _ & -> & _)]; assumption. }
    destruct HE as [H1 H2]. constructor.
    - intros t c' p E' Hs. destruct (Hch t c' E') as (c & E & [->| ->]).
      + destruct (H1 t c p E Hs) as [Hk|?]; [left; now apply Hsk|now right].
      + rewrite dag_reset_ctrl in Hs. destruct (ctrl_st c p); discriminate.
    - intros t c' E' S Hc. destruct (Hch t c' E') as (c & E & Hcase).
      assert (S0 : c_skipped V c = true) by (destruct Hcase as [-> | ->]; assumption).
      destruct (H2 t c E S0 Hc) as [?|(p & Hp & Hs)]; [now left|right]. exists p. split; [assumption|now apply Hsk].
  Qed.

  Lemma calc_next_ES cs R G L completed cs' ready :
    Inv cs R G [] -> ES cs L -> incl completed L ->
    (forall k, In k (akeys completed) -> In k G /\ npred g G k) ->
    calc_next V ops g cs completed = Ok (cs', ready) -> ES cs' L.
  Proof.
    intros HI HE HL Hc. unfold calc_next.
    destruct (resolve_all V ops g completed cs) as [[[cs1 ws] ds]|e|] eqn:E1; simpl; [|discriminate..].
    destruct (update_chans V g ws ds cs1) as [cs2|e|] eqn:E2; simpl; [|discriminate..].
    intros E3.
    set (R' := akeys completed ++ R).
    assert (HR' : incl R' G).
    { intros x Hx. apply in_app_iff in Hx. destruct Hx as [Hx|Hx]; [exact (proj1 (Hc x Hx))|now apply (inv_RG _ _ _ _ _ _ HI)]. }
    assert (HI' : Inv cs R' G []).
    { apply Inv_grow_R with R; [|assumption..]. intros x Hx. apply in_app_iff. now right. }
    assert (Hnp : forall k, In k (akeys completed) -> In k R' /\ npred g G k).
    { intros k Hk. split; [apply in_app_iff; now left|]. exact (proj2 (Hc k Hk)). }
    destruct (resolve_all_inv V ops g Hdag completed cs R' G cs1 ws ds HI' Hnp E1) as (HI1 & _ & Hws & Hds).
    pose proof (resolve_all_ES completed cs R' G L cs1 ws ds HI' HE HL Hnp E1) as HE1.
    destruct (update_chans_inv V g Hdag cs1 R' G ws ds cs2 HI1
                (fun w Hw => Hnp _ (Hws w Hw)) (fun d Hd => Hnp _ (Hds d Hd)) E2) as (HI2 & _).
    pose proof (update_chans_ES cs1 R' G L ws ds cs2 HI1 HE1 E2) as HE2.
    eapply get_all_ES; eassumption.
  Qed.

  (* ---------- the initial table ---------- *)
  Lemma init_v0_ES : ES (init_chans_v0 V g) [].
  Proof.
    constructor.
    - intros t c p E Hs. rewrite (init_v0_lookup V g) in E. destruct (memb t (chan_keys g)); [|discriminate].
      injection E as <-. rewrite (chan_init_dag_ctrl V g t p Hdag) in Hs. destruct (memb p (cpreds g t)); discriminate.
    - intros t c E S. rewrite (init_v0_lookup V g) in E. destruct (memb t (chan_keys g)); [|discriminate].
      injection E as <-. unfold chan_init in S. rewrite Hdag in S. discriminate.
  Qed.

  Lemma init_chans_ES cs : init_chans V g = Ok cs -> ES cs [].
  Proof.
    unfold init_chans. rewrite Hdag. intros Hrb.
    pose proof (init_v0_inv V g Hdag) as HI0.
    eapply report_branch_ES; [exact HI0|exact init_v0_ES|now left| | | |exact Hrb].
    - intros t c _ E [<-|[]]. rewrite (start_no_chan V g _ _ _ _ HI0) in E. discriminate.
    - intros t Hin Hcp. exfalso. unfold unreachable_nodes in Hin. apply in_map_iff in Hin. destruct Hin as (n & <- & Hn).
      apply filter_In in Hn. destruct Hn as [_ Hf]. destruct (cpreds g (n_key n)); [destruct Hcp|discriminate].
    - intros t Hin _. unfold unreachable_nodes in Hin. apply in_map_iff in Hin. destruct Hin as (n & <- & Hn).
      apply filter_In in Hn. destruct Hn as [_ Hf]. destruct (cpreds g (n_key n)); [|discriminate].
      destruct (dpreds g (n_key n)); [reflexivity|discriminate].
  Qed.

  (* ================= nodes without control predecessor: a skipped data predecessor skips them ================= *)
  Definition EK (cs : chans) (W : list key) : Prop :=
    forall t c q, alookup t cs = Some c -> cpreds g t = [] -> In q (dpreds g t) ->
                  skipped cs q -> ~ In q W -> c_skipped V c = true.

  Lemma no_cpreds_all_skipped t (c : chan) : chan_wf V g t c -> cpreds g t = [] -> all_skipped (c_ctrl V c) = true.
  Proof.
    intros ((Hcc & _) & Hcw & _) Hc. apply all_skipped_iff; [assumption|].
    intros p d E. exfalso. assert (Hin : In p (cpreds g t)) by (apply Hcw; unfold DagChan.ctrl_st; congruence).
    rewrite Hc in Hin. destruct Hin.
  Qed.

  Lemma rst_body_EK from cs0 R G W t cs1 nw0 nw1 :
    Inv cs0 R G (W ++ nw0) -> EK cs0 (W ++ nw0) ->
    (In from R \/ skipped cs0 from) ->
    (forall c, alookup t cs0 = Some c -> ~ In t G) ->
    rst_body V from (cs0, nw0) t = (cs1, nw1) ->
    EK cs1 (W ++ nw1) /\ (forall c', alookup t cs1 = Some c' -> cpreds g t = [] -> c_skipped V c' = true).
  Proof.
    intros HI HE Hfrom HtG Hb.
    pose proof (inv_wf _ _ _ _ _ _ HI) as Hwf.
    destruct (rst_body_inv V g from cs0 R G W t cs1 nw0 nw1 HI Hfrom HtG Hb) as (_ & [Ek Hm] & _ & _).
    destruct (rst_body_spec V g from cs0 nw0 t cs1 nw1 Hwf Hb) as [(En & -> & ->)|(c & c' & Et & Hlk & _ & _ & _ & Hskc' & Hc'wf & ->)].
    { split; [assumption|]. intros c' E. congruence. }
    split.
    - intros t' c1 q E1 Hc Hq Hs Hnin.
      assert (Hs0 : skipped cs0 q).
      { destruct Hs as (cq & Eq & Sq). rewrite Hlk in Eq. destruct (N.eqb_spec q t) as [->|]; [|exists cq; auto].
        injection Eq as <-. destruct (c_skipped V c) eqn:Sc; [exists c; auto|].
        exfalso. apply Hnin. rewrite !in_app_iff. right. right. rewrite Sq. simpl. now left. }
      assert (Hnin0 : ~ In q (W ++ nw0)).
      { intros Hin. apply Hnin. rewrite app_assoc. apply in_app_iff. now left. }
      destruct (alookup t' cs0) as [c0|] eqn:E0.
      + pose proof (HE t' c0 q E0 Hc Hq Hs0 Hnin0) as S0.
        assert (Hs' : skipped cs1 t') by (apply Hm; exists c0; auto).
        destruct Hs' as (c2 & E2 & S2). congruence.
      + apply (alookup_same_keys cs0 cs1 t' (eq_sym Ek)) in E0. congruence.
    - intros c1 E1 Hc. rewrite Hlk, N.eqb_refl in E1. injection E1 as <-.
      rewrite Hskc'. now apply (no_cpreds_all_skipped t c' Hc'wf).
  Qed.

  Lemma rst_fold_EK from targets : forall cs0 nw0 R G W cs1 nw1,
    Inv cs0 R G (W ++ nw0) -> EK cs0 (W ++ nw0) ->
    (In from R \/ skipped cs0 from) ->
    (forall t c, In t targets -> alookup t cs0 = Some c -> ~ In t G) ->
    fold_left (rst_body V from) targets (cs0, nw0) = (cs1, nw1) ->
    EK cs1 (W ++ nw1) /\ (forall t c', In t targets -> alookup t cs1 = Some c' -> cpreds g t = [] -> c_skipped V c' = true).
  Proof.
    induction targets as [|t targets IH]; intros cs0 nw0 R G W cs1 nw1 HI HE Hfrom HtG Hfold; cbn [fold_left] in Hfold.
    - injection Hfold as <- <-. split; [assumption|intros ? ? []].
    - destruct (rst_body V from (cs0, nw0) t) as [csm nwm] eqn:Eb.
      destruct (rst_body_inv V g from cs0 R G W t csm nw0 nwm HI Hfrom (fun c E => HtG t c (or_introl eq_refl) E) Eb)
        as (HIm & [Ek Hm] & _ & _).
      destruct (rst_body_EK from cs0 R G W t csm nw0 nwm HI HE Hfrom (fun c E => HtG t c (or_introl eq_refl) E) Eb) as (HEm & Hmk).
      assert (Hfrom' : In from R \/ skipped csm from).
      { destruct Hfrom as [?|Hs]; [now left|right; now apply Hm]. }
      assert (HtG' : forall t' c, In t' targets -> alookup t' csm = Some c -> ~ In t' G).
      { intros t' c Hin E. destruct (alookup t' cs0) as [c0|] eqn:E0.
        - eapply HtG; [right; eassumption|eassumption].
        - apply (alookup_same_keys csm cs0 t' Ek) in E0. congruence. }
      destruct (IH csm nwm R G W cs1 nw1 HIm HEm Hfrom' HtG' Hfold) as (HE1 & Hmk1).
      destruct (report_skip_to_inv_gen V g from targets csm nwm R G W cs1 nw1 HIm Hfrom' HtG' Hfold) as (_ & [Ek1 Hm1] & _).
      split; [assumption|].
      intros t' c' [<-|Hin] E' Hc; [|eapply Hmk1; eassumption].
      destruct (alookup t csm) as [cm|] eqn:Em.
      + assert (Hs : skipped cs1 t) by (apply Hm1; exists cm; split; [assumption|now apply Hmk]).
        destruct Hs as (c2 & E2 & S2). congruence.
      + apply (alookup_same_keys csm cs1 t (eq_sym Ek1)) in Em. congruence.
  Qed.

  Lemma propagate_EK fuel : forall work cs R G cs',
    Inv cs R G work -> EK cs work -> propagate V g fuel work cs = Ok cs' -> EK cs' [].
  Proof.
    induction fuel as [|fuel IH]; intros work cs R G cs' HI HE; destruct work as [|k work]; simpl.
    - intros [= <-]. assumption.
    - discriminate.
    - intros [= <-]. assumption.
    - destruct (find_node g k) as [n|] eqn:Ef; [|discriminate].
      destruct (report_skip_to V cs k (succs n)) as [cs1 newly] eqn:Er. intros Hp.
      assert (Hk : skipped cs k) by (apply (inv_W _ _ _ _ _ _ HI); now left).
      assert (HtG : forall t c, In t (succs n) -> alookup t cs = Some c -> ~ In t G).
      { intros t c Hin Et HinG.
        assert (Hne : t <> kSTART) by (intros ->; rewrite (start_no_chan _ _ _ _ _ _ HI) in Et; discriminate).
        destruct (inv_B _ _ _ _ _ _ HI t HinG Hne) as (c0 & _ & _ & _ & _ & Q).
        destruct (Q k (succs_gpred g k n t Ef Hin)) as [HR|[_ Hn]].
        - apply (gotten_not_skipped _ _ _ _ _ _ k HI); [|assumption]. now apply (inv_RG _ _ _ _ _ _ HI).
        - apply Hn. now left. }
      destruct (report_skip_to_inv V g cs R G (k :: work) k (succs n) cs1 newly HI (or_intror Hk) HtG Er) as (HI1 & _).
      rewrite report_skip_to_eq in Er.
      assert (HI0 : Inv cs R G ((k :: work) ++ [])) by now rewrite app_nil_r.
      assert (HE0 : EK cs ((k :: work) ++ [])) by now rewrite app_nil_r.
      destruct (rst_fold_EK k (succs n) cs [] R G (k :: work) cs1 newly HI0 HE0 (or_intror Hk) HtG Er) as (HE1 & Hmk).
      assert (HI1' : Inv cs1 R G (work ++ newly)).
      { eapply Inv_weaken_W; [|exact HI1]. intros x Hx. simpl. now right. }
      eapply IH; [exact HI1'| |exact Hp].
      (* pop k: all its successors without control predecessors are skipped now *)
      intros t c q E Hc Hq Hs Hnin. destruct (N.eq_dec q k) as [->|Hne].
      + apply (Hmk t c); [|assumption..]. eapply gpred_succs; [eassumption..|now right].
      + apply (HE1 t c q E Hc Hq Hs). simpl. intros [?|Hin]; [congruence|contradiction].
  Qed.

  Lemma report_branch_EK cs R G from sk cs' :
    Inv cs R G [] -> EK cs [] -> In from R ->
    (forall t c, In t sk -> alookup t cs = Some c -> ~ In t G) ->
    report_branch V g from sk cs = Ok cs' -> EK cs' [].
  Proof.
    intros HI HE HR HtG. unfold report_branch. rewrite Hdag.
    destruct (report_skip_to V cs from sk) as [cs1 newly] eqn:Er. intros Hp.
    destruct (report_skip_to_inv V g cs R G [] from sk cs1 newly HI (or_introl HR) HtG Er) as (HI1 & _).
    rewrite report_skip_to_eq in Er. simpl in HI1.
    destruct (rst_fold_EK from sk cs [] R G [] cs1 newly HI HE (or_introl HR) HtG Er) as (HE1 & _).
    eapply propagate_EK; eassumption.
  Qed.

  Lemma resolve_all_EK completed : forall cs R G cs' ws ds,
    Inv cs R G [] -> EK cs [] ->
    (forall k, In k (akeys completed) -> In k R /\ npred g G k) ->
    resolve_all V ops g completed cs = Ok (cs', ws, ds) -> EK cs' [].
  Proof.
    induction completed as [|[k out] completed IH]; intros cs R G cs' ws ds HI HE Hc; cbn [resolve_all].
    - intros [= <- _ _]. assumption.
    - destruct (find_node g k) as [n|] eqn:Ef; [|discriminate].
      destruct (resolve_one V ops g n out cs) as [[[cs1 w1] d1]|e|] eqn:E1; simpl; [|discriminate..].
      destruct (resolve_all V ops g completed cs1) as [[[cs2 w2] d2]|e|] eqn:E2; simpl; [|discriminate..].
      intros [= <- _ _].
      destruct (Hc k (or_introl eq_refl)) as [HkR Hknp].
      destruct (resolve_one_inv V ops g Hdag cs R G k n out cs1 w1 d1 HI Ef HkR Hknp E1) as (HI1 & _).
      eapply IH; [exact HI1| |intros k' Hk'; apply Hc; now right|exact E2].
      unfold resolve_one in E1. destruct (eval_branches V ops n out) as [[sel sk]|e|] eqn:Eb; simpl in E1; [|discriminate..].
      destruct (find_node_in g k n Ef) as [Hn Hk]. rewrite Hk in E1.
      destruct (report_branch V g k sk cs) as [cs1'|e|] eqn:Er; simpl in E1; [|discriminate..].
      injection E1 as <- _ _.
      apply (report_branch_EK cs R G k sk cs1' HI HE HkR); [|exact Er].
      intros t c Hin Et HinG.
      assert (Hne : t <> kSTART) by (intros ->; rewrite (start_no_chan _ _ _ _ _ _ HI) in Et; discriminate).
      apply (Hknp t HinG Hne). left. eapply branch_end_cpred; [eassumption|]. eapply eval_branches_skipped; eassumption.
  Qed.

  Lemma EK_same_skipped cs cs' :
    akeys cs' = akeys cs ->
    (forall t c c', alookup t cs = Some c -> alookup t cs' = Some c' -> c_skipped V c' = c_skipped V c) ->
    EK cs [] -> EK cs' [].
  Proof.
    intros Ek Hsame HE t c' q E' Hc Hq (cq' & Eq' & Sq') Hn.
    destruct (alookup t cs) as [c|] eqn:E.
    2:{ apply (alookup_same_keys cs cs' t (eq_sym Ek)) in E. congruence. }
    destruct (alookup q cs) as [cq|] eqn:Eq.
    2:{ apply (alookup_same_keys cs cs' q (eq_sym Ek)) in Eq. congruence. }
    rewrite (Hsame t c c' E E'). apply (HE t c q E Hc Hq); [|assumption].
    exists cq. split; [assumption|]. rewrite <- (Hsame q cq cq' Eq Eq'). assumption.
  Qed.

  Lemma update_chans_EK cs ws ds cs' : EK cs [] -> update_chans V g ws ds cs = Ok cs' -> EK cs' [].
  Proof.
    intros HE. unfold update_chans. destruct (targets_exist V cs ws ds); [|discriminate].
    intros [= <-]. rewrite (update_chans_eq V g Hdag).
    set (cs' := map (fun kv : N * chan => (fst kv, upd1 V g ws ds (fst kv) (snd kv))) cs).
    assert (Hlk : forall t, alookup t cs' = option_map (upd1 V g ws ds t) (alookup t cs)).
    { intros t. unfold cs'. exact (alookup_map_snd (fun kv => upd1 V g ws ds (fst kv) (snd kv)) t cs). }
    eapply EK_same_skipped; [| |exact HE].
    - unfold cs'. exact (akeys_map_snd (fun kv => upd1 V g ws ds (fst kv) (snd kv)) cs).
    - intros t c c' E E'. rewrite Hlk, E in E'. simpl in E'. injection E' as <-. apply upd1_skipped.
  Qed.

  Lemma get_all_EK cs R G cs' ready :
    Inv cs R G [] -> EK cs [] -> get_all V ops g cs = Ok (cs', ready) -> EK cs' [].
  Proof.
    intros HI HE Hg.
    pose proof (inv_wf _ _ _ _ _ _ HI) as (Hks & _ & _).
    destruct (get_all_spec V ops g Hdag cs cs' ready Hks Hg) as (Ek & _ & _ & Hspec).
    eapply EK_same_skipped; [exact Ek| |exact HE].
    intros t c c' E E'. specialize (Hspec t). rewrite E in Hspec. destruct Hspec as (ov & c2 & G1 & G2 & _).
    rewrite E' in G2. injection G2 as <-.
    destruct (dag_get_cases V ops c ov c' G1) as [(_ & -> & _)|(v & _ & -> & _)]; reflexivity.
  Qed.

  Lemma calc_next_EK cs R G completed cs' ready :
    Inv cs R G [] -> EK cs [] ->
    (forall k, In k (akeys completed) -> In k G /\ npred g G k) ->
    calc_next V ops g cs completed = Ok (cs', ready) -> EK cs' [].
  Proof.
    intros HI HE Hc. unfold calc_next.
    destruct (resolve_all V ops g completed cs) as [[[cs1 ws] ds]|e|] eqn:E1; simpl; [|discriminate..].
    destruct (update_chans V g ws ds cs1) as [cs2|e|] eqn:E2; simpl; [|discriminate..].
    intros E3.
    set (R' := akeys completed ++ R).
    assert (HR' : incl R' G).
    { intros x Hx. apply in_app_iff in Hx. destruct Hx as [Hx|Hx]; [exact (proj1 (Hc x Hx))|now apply (inv_RG _ _ _ _ _ _ HI)]. }
    assert (HI' : Inv cs R' G []).
    { apply Inv_grow_R with R; [|assumption..]. intros x Hx. apply in_app_iff. now right. }
    assert (Hnp : forall k, In k (akeys completed) -> In k R' /\ npred g G k).
    { intros k Hk. split; [apply in_app_iff; now left|]. exact (proj2 (Hc k Hk)). }
    destruct (resolve_all_inv V ops g Hdag completed cs R' G cs1 ws ds HI' Hnp E1) as (HI1 & _ & Hws & Hds).
    pose proof (resolve_all_EK completed cs R' G cs1 ws ds HI' HE Hnp E1) as HE1.
    destruct (update_chans_inv V g Hdag cs1 R' G ws ds cs2 HI1
                (fun w Hw => Hnp _ (Hws w Hw)) (fun d Hd => Hnp _ (Hds d Hd)) E2) as (HI2 & _).
    pose proof (update_chans_EK cs1 ws ds cs2 HE1 E2) as HE2.
    eapply get_all_EK; eassumption.
  Qed.

  Lemma init_chans_EK cs : init_chans V g = Ok cs -> EK cs [].
  Proof.
    unfold init_chans. rewrite Hdag. intros Hrb.
    pose proof (init_v0_inv V g Hdag) as HI0.
    eapply report_branch_EK; [exact HI0| |now left| |exact Hrb].
    - intros t c q E Hc Hq (cq & Eq & Sq). rewrite (init_v0_lookup V g) in Eq. destruct (memb q (chan_keys g)); [|discriminate].
      injection Eq as <-. unfold chan_init in Sq. rewrite Hdag in Sq. discriminate.
    - intros t c _ E [<-|[]]. rewrite (start_no_chan V g _ _ _ _ HI0) in E. discriminate.
  Qed.
End DagSkip.
