(* Proofs/Callbacks.v — the heap-level model of the repaired callback manager code refines the
   pure list specification, for every growth policy, capacity and offset
   ([script_refines_spec]); consequences: [observed_list_stable], [handler_list_at_creation],
   [handler_lists_immutable], [designated_only_there]. *)
From Coq Require Import List Arith Lia Bool NArith.
From Eino Require Import Base.Util Base.GoSlice Model.Callbacks Proofs.CallbacksSlice.
Import ListNotations.

(* ---------------------------------------------------------------- relation between the levels *)

Definition crel (w : world) (h : heap) (c : ctx) (sc : sctx) : Prop :=
  match c, sc with
  | None, None => True
  | Some m, Some (l, i) =>
      m_global m = w_globals w /\ m_info m = i /\ wf h (m_handlers m) /\ read h (m_handlers m) = l
  | _, _ => False
  end.

Definition ctxs_rel (w : world) (h : heap) (cs : list (ukey * ctx)) (scs : list (ukey * sctx)) : Prop :=
  Forall2 (fun a b => fst a = fst b /\ crel w h (snd a) (snd b)) cs scs.

Definition R (w : world) (st : state) (ss : sstate) : Prop :=
  st_bad st = ss_bad ss /\ st_log st = ss_log ss /\ ctxs_rel w (st_heap st) (st_ctxs st) (ss_ctxs ss).

Lemma crel_keeps w h h' c sc : keeps (List.length h) h h' -> crel w h c sc -> crel w h' c sc.
Proof.
  intros K. destruct c as [m|], sc as [[l i]|]; simpl; auto.
  intros (G & I & W & Rd). split; [auto|]. split; [auto|]. split; [eapply keeps_wf; eauto|].
  rewrite <- Rd. eapply keeps_read; eauto.
Qed.

Lemma ctxs_rel_keeps w h h' cs scs :
  keeps (List.length h) h h' -> ctxs_rel w h cs scs -> ctxs_rel w h' cs scs.
Proof.
  intros K F. induction F as [|a b cs scs [E C] F IH]; constructor; auto.
  split; auto. eapply crel_keeps; eauto.
Qed.

Lemma lookup_rel w h u cs scs :
  ctxs_rel w h cs scs ->
  match lookup u cs, lookup u scs with
  | None, None => True
  | Some c, Some sc => crel w h c sc
  | _, _ => False
  end.
Proof.
  intros F. induction F as [|[k c] [k' sc] cs scs [E C] F IH]; simpl; auto.
  simpl in E. subst k'. destruct (N.eqb u k); auto.
Qed.

(* ---------------------------------------------------------------- the operations *)

Lemma new_manager_rel w h inf s l :
  wf h s -> read h s = l -> crel w h (new_manager w inf s) (snew w inf l).
Proof.
  intros W Rd. unfold new_manager, snew.
  rewrite <- (read_length h s W), Rd. unfold handler, elem in *.
  match goal with |- context [if ?b then _ else _] => destruct b end; simpl; auto.
Qed.

Lemma build_cbs_gen pol n opts : forall h0 s0 acc,
  n <= List.length h0 -> wf h0 s0 -> fresh_from n s0 -> read h0 s0 = acc ->
  let r := fold_left (fun (hs : heap * slice) (o : list handler) => append pol (fst hs) (snd hs) o) opts (h0, s0) in
  keeps n h0 (fst r) /\ wf (fst r) (snd r) /\ fresh_from n (snd r) /\
  read (fst r) (snd r) = acc ++ List.concat opts.
Proof.
  induction opts as [|o opts IH]; intros h0 s0 acc Hn W F Rd; simpl.
  - split; [apply keeps_refl|]. split; [auto|]. split; [auto|]. now rewrite app_nil_r.
  - destruct (append_spec pol h0 s0 o W) as [Rd1 W1].
    destruct (append_frame pol n h0 s0 o Hn (proj1 W) F) as [K1 F1].
    destruct (append pol h0 s0 o) as [h1 s1] eqn:E. simpl in *.
    assert (Hn1 : n <= List.length h1) by (destruct K1; lia).
    specialize (IH h1 s1 (acc ++ o) Hn1 W1 F1).
    rewrite Rd1, Rd in IH. specialize (IH eq_refl). simpl in IH.
    destruct IH as (K2 & W2 & F2 & Rd2).
    split; [eapply keeps_trans; eauto|]. split; [auto|]. split; [auto|].
    rewrite app_assoc. exact Rd2.
Qed.

Lemma nil_slice_wf h : wf h nil_slice.
Proof. split; simpl; auto. Qed.

Lemma build_cbs_spec pol h opts :
  let r := build_cbs pol h opts in
  keeps (List.length h) h (fst r) /\ wf (fst r) (snd r) /\ read (fst r) (snd r) = List.concat opts.
Proof.
  unfold build_cbs.
  destruct (build_cbs_gen pol (List.length h) opts h nil_slice [] (le_n _) (nil_slice_wf h)
              (or_introl eq_refl) eq_refl) as (K & W & _ & Rd).
  split; [auto|]. split; auto.
Qed.

(* AppendHandlers after the repair: the result reads inherited ++ designated and no array
   that existed before is written *)
Lemma append_handlers_fixed_spec w h c sc inf cbs d :
  crel w h c sc -> wf h cbs -> read h cbs = d ->
  let r := append_handlers true w h c inf cbs in
  keeps (List.length h) h (fst r) /\ crel w (fst r) (snd r) (snew w inf (slist sc ++ d)).
Proof.
  intros C Wc Rc. unfold append_handlers.
  destruct c as [m|], sc as [[l i]|]; simpl in C; try contradiction.
  - destruct C as (G & I & Wm & Rm). simpl slist.
    pose proof (make_spec h 0 (len (m_handlers m) + len cbs)) as M.
    destruct (make h 0 (len (m_handlers m) + len cbs)) as [h1 nh0] eqn:E1. simpl in M.
    destruct M as (K1 & W1 & F1 & L1 & _).
    assert (Rm1 : read h1 (m_handlers m) = l) by (rewrite <- Rm; eapply keeps_read; eauto).
    assert (R0 : read h1 nh0 = []) by (unfold read; rewrite L1; reflexivity).
    assert (Hn1 : List.length h <= List.length h1) by (destruct K1; auto).
    destruct (append_spec (w_pol w) h1 nh0 (read h1 (m_handlers m)) W1) as [Rd2 W2].
    destruct (append_frame (w_pol w) (List.length h) h1 nh0 (read h1 (m_handlers m)) Hn1 (proj1 W1) F1) as [K2 F2].
    destruct (append (w_pol w) h1 nh0 (read h1 (m_handlers m))) as [h2 nh1] eqn:E2. simpl in *.
    assert (K12 : keeps (List.length h) h h2) by (eapply keeps_trans; eauto).
    assert (Rc2 : read h2 cbs = d) by (rewrite <- Rc; eapply keeps_read; eauto).
    assert (Hn2 : List.length h <= List.length h2) by (destruct K12; auto).
    destruct (append_spec (w_pol w) h2 nh1 (read h2 cbs) W2) as [Rd3 W3].
    destruct (append_frame (w_pol w) (List.length h) h2 nh1 (read h2 cbs) Hn2 (proj1 W2) F2) as [K3 _].
    destruct (append (w_pol w) h2 nh1 (read h2 cbs)) as [h3 nh2] eqn:E3. simpl in *.
    split; [eapply keeps_trans; eauto|].
    apply new_manager_rel; auto.
    rewrite Rd3, Rd2, R0, Rm1, Rc2. reflexivity.
  - simpl. split; [apply keeps_refl|]. apply new_manager_rel; auto.
Qed.

(* ---------------------------------------------------------------- one step, whole scripts *)

Ltac splitR := split; [simpl; auto | split; [simpl; auto | simpl]].

Lemma step_refines w st ss o : R w st ss -> R w (step true w st o) (sstep w ss o).
Proof.
  intros (B & L & C). destruct o as [new inf o0 hs spare | parent new inf opts | p new inf | u t | src new inf lo hi]; simpl.
  - (* ORaw *)
    pose proof (alloc_slice_spec (st_heap st) o0 hs spare) as A.
    unfold alloc_slice in A. cbv zeta in A. cbn [fst snd] in A.
    destruct A as (K & W & Rd).
    splitR.
    constructor; [split; simpl; auto; apply new_manager_rel; auto|].
    eapply ctxs_rel_keeps; eauto.
  - (* OAppend *)
    assert (P : match (match parent with None => Some None | Some p => lookup p (st_ctxs st) end),
                      (match parent with None => Some None | Some p => lookup p (ss_ctxs ss) end) with
                | None, None => True
                | Some c, Some sc => crel w (st_heap st) c sc
                | _, _ => False
                end).
    { destruct parent as [p|]; [apply lookup_rel; auto | simpl; auto]. }
    destruct (match parent with None => Some None | Some p => lookup p (st_ctxs st) end) as [c|];
      destruct (match parent with None => Some None | Some p => lookup p (ss_ctxs ss) end) as [sc|];
      try contradiction.
    + pose proof (build_cbs_spec (w_pol w) (st_heap st) opts) as Bc.
      destruct (build_cbs (w_pol w) (st_heap st) opts) as [h1 cbs] eqn:E1. simpl in Bc.
      destruct Bc as (K1 & W1 & Rd1).
      assert (C1 : crel w h1 c sc) by (eapply crel_keeps; eauto).
      pose proof (append_handlers_fixed_spec w h1 c sc inf cbs (List.concat opts) C1 W1 Rd1) as A.
      destruct (append_handlers true w h1 c inf cbs) as [h2 c'] eqn:E2. simpl in A.
      destruct A as (K2 & C2).
      splitR.
      constructor; [split; simpl; auto|].
      eapply ctxs_rel_keeps; [|exact C].
      eapply keeps_trans; [exact K1|]. eapply keeps_mono; [|exact K2]. destruct K1; auto.
    + splitR. auto.
  - (* OReuse *)
    pose proof (lookup_rel w (st_heap st) p _ _ C) as P.
    destruct (lookup p (st_ctxs st)) as [c|], (lookup p (ss_ctxs ss)) as [sc|]; try contradiction.
    + splitR.
      constructor; auto. split; simpl; auto.
      destruct c as [m|], sc as [[l i]|]; simpl in *; auto.
      destruct P as (G & I & W & Rd). split; [auto|]. split; [auto|]. split; auto.
    + splitR. auto.
  - (* OOn *)
    pose proof (lookup_rel w (st_heap st) u _ _ C) as P.
    destruct (lookup u (st_ctxs st)) as [c|], (lookup u (ss_ctxs ss)) as [sc|]; try contradiction.
    + destruct c as [m|], sc as [[l i]|]; simpl in P; try contradiction.
      * destruct P as (G & I & W & Rd). simpl.
        splitR; auto.
        rewrite L, Rd, G, I. reflexivity.
      * splitR; auto.
    + splitR. auto.
  - (* OAlias *)
    pose proof (lookup_rel w (st_heap st) src _ _ C) as P.
    destruct (lookup src (st_ctxs st)) as [c|], (lookup src (ss_ctxs ss)) as [sc|]; try contradiction;
      [|splitR; auto].
    destruct c as [m|], sc as [[l i]|]; simpl in P; try contradiction; [|splitR; auto].
    destruct P as (G & I & W & Rd).
    assert (Hlen : List.length l = len (m_handlers m)) by (rewrite <- Rd; apply read_length; auto).
    rewrite Hlen.
    destruct ((lo <=? hi)%nat && (hi <=? len (m_handlers m))%nat) eqn:E; [|splitR; auto].
    apply andb_prop in E. destruct E as [E1 E2]. apply Nat.leb_le in E1. apply Nat.leb_le in E2.
    destruct (reslice_spec (st_heap st) (m_handlers m) lo hi W E1 E2) as [W' Rd'].
    splitR. constructor; auto. split; simpl; auto.
    apply new_manager_rel; auto. now rewrite Rd', Rd.
Qed.

Lemma run_from_refines w ops : forall st ss,
  R w st ss -> R w (run_from true w st ops) (run_spec_from w ss ops).
Proof.
  induction ops as [|o ops IH]; intros st ss H; simpl; auto.
  apply IH. apply step_refines; auto.
Qed.

Lemma R0 w : R w state0 sstate0.
Proof. splitR. constructor. Qed.

(* the slice-level model of the repaired code and the list specification agree on every
   script, whatever the growth policy of append and whatever capacities and offsets the
   initial slices have *)
Theorem script_refines_spec w ops : R w (run_script true w ops) (run_spec w ops).
Proof. apply run_from_refines, R0. Qed.

Corollary script_log_spec w ops : st_log (run_script true w ops) = ss_log (run_spec w ops).
Proof. apply script_refines_spec. Qed.

(* ---------------------------------------------------------------- observed lists *)

Definition sobserved (ss : sstate) (u : ukey) : option (list handler) :=
  match lookup u (ss_ctxs ss) with None => None | Some c => Some (slist c) end.

Lemma observed_rel w st ss u : R w st ss -> observed_list st u = sobserved ss u.
Proof.
  intros (_ & _ & C). unfold observed_list, sobserved.
  pose proof (lookup_rel w (st_heap st) u _ _ C) as P.
  destruct (lookup u (st_ctxs st)) as [c|], (lookup u (ss_ctxs ss)) as [sc|]; try contradiction; auto.
  destruct c as [m|], sc as [[l i]|]; simpl in *; try contradiction; auto.
  destruct P as (_ & _ & _ & Rd). now rewrite Rd.
Qed.

Lemma run_script_app fixed w a b :
  run_script fixed w (a ++ b) = run_from fixed w (run_script fixed w a) b.
Proof. unfold run_script, run_from. apply fold_left_app. Qed.

(* which unit an operation creates *)
Definition creates (o : op) : option ukey :=
  match o with
  | ORaw n _ _ _ _ => Some n
  | OAppend _ n _ _ => Some n
  | OReuse _ n _ => Some n
  | OOn _ _ => None
  | OAlias _ n _ _ _ => Some n
  end.
Definition no_rebind (u : ukey) (ops : list op) : Prop := forall o, In o ops -> creates o <> Some u.

Lemma sstep_lookup_other w ss o u :
  creates o <> Some u -> lookup u (ss_ctxs (sstep w ss o)) = lookup u (ss_ctxs ss).
Proof.
  intros H. destruct o as [new inf o0 hs spare | parent new inf opts | p new inf | v t | src new inf lo hi]; simpl in *.
  - destruct (N.eqb u new) eqn:E; auto. apply N.eqb_eq in E. congruence.
  - destruct (match parent with None => Some None | Some p => lookup p (ss_ctxs ss) end); simpl; auto.
    destruct (N.eqb u new) eqn:E; auto. apply N.eqb_eq in E. congruence.
  - destruct (lookup p (ss_ctxs ss)); simpl; auto.
    destruct (N.eqb u new) eqn:E; auto. apply N.eqb_eq in E. congruence.
  - destruct (lookup v (ss_ctxs ss)) as [[[l i]|]|]; simpl; auto.
  - destruct (lookup src (ss_ctxs ss)) as [[[l i]|]|]; simpl; auto.
    destruct (_ && _); simpl; auto.
    destruct (N.eqb u new) eqn:E; auto. apply N.eqb_eq in E. congruence.
Qed.

Lemma spec_lookup_stable w ops : forall ss u,
  no_rebind u ops -> lookup u (ss_ctxs (run_spec_from w ss ops)) = lookup u (ss_ctxs ss).
Proof.
  induction ops as [|o ops IH]; intros ss u H; simpl; auto.
  rewrite IH by (intros o' Ho'; apply H; right; auto).
  apply sstep_lookup_other. apply H; left; auto.
Qed.

(* Whatever happens later (any operations by any units in any order), the handler list a
   unit observes does not change, as long as its name is not given to a new unit. *)
Theorem observed_list_stable w pre post u :
  no_rebind u post ->
  observed_list (run_from true w (run_script true w pre) post) u = observed_list (run_script true w pre) u.
Proof.
  intros H.
  pose proof (script_refines_spec w pre) as R1.
  pose proof (run_from_refines w post _ _ R1) as R2.
  rewrite (observed_rel w _ _ u R1), (observed_rel w _ _ u R2).
  unfold sobserved. unfold run_spec. rewrite spec_lookup_stable; auto.
Qed.

(* the list of the context a unit is created from: None = context without manager *)
Definition inherited_list (st : state) (parent : option ukey) : option (list handler) :=
  match parent with None => Some [] | Some p => observed_list st p end.

(* At its creation a unit's list is inherited ++ designated ... *)
Theorem handler_list_at_creation w pre parent u inf opts inh :
  inherited_list (run_script true w pre) parent = Some inh ->
  observed_list (run_from true w (run_script true w pre) [OAppend parent u inf opts]) u
  = Some (inh ++ List.concat opts).
Proof.
  intros H.
  pose proof (script_refines_spec w pre) as R1.
  pose proof (run_from_refines w [OAppend parent u inf opts] _ _ R1) as R2.
  rewrite (observed_rel w _ _ u R2).
  assert (Hs : match parent with None => Some [] | Some p => sobserved (run_spec w pre) p end = Some inh).
  { destruct parent as [p|]; simpl in H; auto. now rewrite <- (observed_rel w _ _ p R1). }
  unfold sobserved in *. simpl.
  destruct parent as [p|].
  - destruct (lookup p (ss_ctxs (run_spec w pre))) as [c|]; [|discriminate].
    injection Hs as <-. simpl. rewrite N.eqb_refl. f_equal.
    unfold snew. destruct (_ =? 0)%nat eqn:E; simpl; auto.
    apply Nat.eqb_eq in E. destruct (slist c ++ List.concat opts); simpl in *; auto; lia.
  - injection Hs as <-. simpl. rewrite N.eqb_refl. f_equal.
    unfold snew. destruct (_ =? 0)%nat eqn:E; simpl; auto.
    apply Nat.eqb_eq in E. destruct (List.concat opts); simpl in *; auto; lia.
Qed.

(* ... and stays so: for every prefix and suffix of operations by any units in any order,
   every growth policy of append, every capacity and offset of every slice involved. *)
Theorem handler_lists_immutable_proof w pre parent u inf opts post inh :
  inherited_list (run_script true w pre) parent = Some inh ->
  no_rebind u post ->
  observed_list (run_script true w (pre ++ OAppend parent u inf opts :: post)) u
  = Some (inh ++ List.concat opts).
Proof.
  intros H NR.
  change (OAppend parent u inf opts :: post) with ([OAppend parent u inf opts] ++ post).
  rewrite app_assoc, run_script_app.
  rewrite observed_list_stable by auto.
  rewrite run_script_app.
  apply (handler_list_at_creation w pre parent u inf opts inh H).
Qed.

(* ---------------------------------------------------------------- events of one unit *)


Lemma filter_events_same u t inf l : filter (of_unit u) (events_of u t inf l) = events_of u t inf l.
Proof.
  unfold events_of. induction (invoke_order t l) as [|x xs IH]; simpl; auto.
  unfold of_unit at 1; simpl. rewrite N.eqb_refl. now rewrite IH.
Qed.

Lemma filter_events_other u v t inf l : v <> u -> filter (of_unit u) (events_of v t inf l) = [].
Proof.
  intros H. unfold events_of. induction (invoke_order t l) as [|x xs IH]; simpl; auto.
  unfold of_unit at 1; simpl. destruct (N.eqb v u) eqn:E; auto.
  apply N.eqb_eq in E. congruence.
Qed.

(* what one On of unit u emits, given u's context in the specification *)
Definition sevents (w : world) (u : ukey) (c : sctx) (t : timing) : list event :=
  match c with
  | None => []
  | Some (l, inf) => events_of u t inf (select w t (l ++ w_globals w))
  end.

(* the timings of the On operations of unit u, in order *)
Definition ons_of (u : ukey) (ops : list op) : list timing :=
  flat_map (fun o => match o with OOn v t => if N.eqb v u then [t] else [] | _ => [] end) ops.

(* the events of a unit are produced by its own On operations from its own, fixed list *)
Lemma spec_unit_log w ops : forall ss u c,
  lookup u (ss_ctxs ss) = Some c -> no_rebind u ops ->
  filter (of_unit u) (ss_log (run_spec_from w ss ops))
  = filter (of_unit u) (ss_log ss) ++ flat_map (sevents w u c) (ons_of u ops).
Proof.
  induction ops as [|o ops IH]; intros ss u c Hl NR; simpl.
  - now rewrite app_nil_r.
  - assert (NR' : no_rebind u ops) by (intros o' Ho'; apply NR; right; auto).
    assert (Hc : creates o <> Some u) by (apply NR; left; auto).
    rewrite (IH (sstep w ss o) u c); auto.
    2:{ rewrite sstep_lookup_other; auto. }
    rewrite flat_map_app, app_assoc. f_equal.
    destruct o as [new inf o0 hs spare | parent new inf opts | p new inf | v t | src new inf lo hi]; simpl.
    + now rewrite app_nil_r.
    + rewrite app_nil_r.
      destruct (match parent with None => Some None | Some p => lookup p (ss_ctxs ss) end); reflexivity.
    + rewrite app_nil_r. destruct (lookup p (ss_ctxs ss)); reflexivity.
    + destruct (N.eqb v u) eqn:E.
      * apply N.eqb_eq in E. subst v. rewrite Hl. simpl. rewrite app_nil_r.
        destruct c as [[l inf]|]; simpl.
        -- rewrite filter_app, filter_events_same. reflexivity.
        -- now rewrite app_nil_r.
      * apply N.eqb_neq in E. simpl. rewrite app_nil_r.
        destruct (lookup v (ss_ctxs ss)) as [[[l inf]|]|]; simpl; auto.
        rewrite filter_app, filter_events_other by auto. now rewrite app_nil_r.
    + rewrite app_nil_r. destruct (lookup src (ss_ctxs ss)) as [[[l i]|]|]; try reflexivity.
      destruct (_ && _); reflexivity.
Qed.

(* a unit that does not exist (yet) has no events: On on an unknown context is flagged *)
Definition mentions (u : ukey) (o : op) : bool :=
  match o with
  | OOn v _ => N.eqb v u
  | _ => match creates o with Some n => N.eqb n u | None => false end
  end.

Lemma spec_no_events_before w ops : forall ss u,
  lookup u (ss_ctxs ss) = None -> (forall o, In o ops -> creates o <> Some u) ->
  filter (of_unit u) (ss_log (run_spec_from w ss ops)) = filter (of_unit u) (ss_log ss) /\
  lookup u (ss_ctxs (run_spec_from w ss ops)) = None.
Proof.
  induction ops as [|o ops IH]; intros ss u Hl NR; simpl; auto.
  assert (NR' : forall o', In o' ops -> creates o' <> Some u) by (intros o' Ho'; apply NR; right; auto).
  assert (Hc : creates o <> Some u) by (apply NR; left; auto).
  destruct (IH (sstep w ss o) u) as [F Lk]; auto.
  { rewrite sstep_lookup_other; auto. }
  split; auto. rewrite F.
  destruct o as [new inf o0 hs spare | parent new inf opts | p new inf | v t | src new inf lo hi]; simpl; auto.
  - destruct (match parent with None => Some None | Some p => lookup p (ss_ctxs ss) end); reflexivity.
  - destruct (lookup p (ss_ctxs ss)); reflexivity.
  - destruct (lookup v (ss_ctxs ss)) as [[[l inf]|]|] eqn:E; simpl; auto.
    rewrite filter_app, filter_events_other, app_nil_r; auto.
    intros ->. congruence.
  - destruct (lookup src (ss_ctxs ss)) as [[[l i]|]|]; try reflexivity.
    destruct (_ && _); reflexivity.
Qed.

Lemma run_spec_app_cons w a o b :
  run_spec w (a ++ o :: b) = run_spec_from w (sstep w (run_spec w a) o) b.
Proof. unfold run_spec, run_spec_from. rewrite fold_left_app. reflexivity. Qed.

(* ---------------------------------------------------------------- designated only there *)

Lemma in_events_of u t inf l e : In e (events_of u t inf l) -> In (ev_handler e) l /\ ev_unit e = u.
Proof.
  unfold events_of. rewrite in_map_iff. intros (x & <- & Hx). simpl. split; auto.
  unfold invoke_order in Hx. destruct (is_start t); auto. now apply in_rev.
Qed.

Lemma in_select w t l x : In x (select w t l) -> In x l.
Proof. unfold select. rewrite filter_In. tauto. Qed.

(* A handler that is neither global, nor in the list the unit inherits, nor designated to
   the unit is never invoked for it — whoever else it is designated to, whatever the other
   units do, in any order, with any slice capacities. *)
Theorem designated_only_there_proof w pre parent u inf opts post inh x :
  inherited_list (run_script true w pre) parent = Some inh ->
  (forall o, In o pre -> creates o <> Some u) ->
  no_rebind u post ->
  ~ In x inh -> ~ In x (List.concat opts) -> ~ In x (w_globals w) ->
  forall e, In e (st_log (run_script true w (pre ++ OAppend parent u inf opts :: post))) ->
            ev_unit e = u -> ev_handler e <> x.
Proof.
  intros Hinh Fresh NR N1 N2 N3 e He Hu Hx.
  rewrite script_log_spec in He.
  assert (Hf : In e (filter (of_unit u) (ss_log (run_spec w (pre ++ OAppend parent u inf opts :: post))))).
  { apply filter_In. split; auto. unfold of_unit. now apply N.eqb_eq. }
  rewrite run_spec_app_cons in Hf.
  (* the state of the specification when u is created *)
  pose proof (script_refines_spec w pre) as R1.
  assert (Hs : match parent with None => Some [] | Some p => sobserved (run_spec w pre) p end = Some inh).
  { destruct parent as [p|]; simpl in Hinh; auto. now rewrite <- (observed_rel w _ _ p R1). }
  destruct (spec_no_events_before w pre sstate0 u eq_refl Fresh) as [F0 _].
  set (s1 := sstep w (run_spec w pre) (OAppend parent u inf opts)) in *.
  assert (exists c, lookup u (ss_ctxs s1) = Some c /\ slist c = inh ++ List.concat opts /\
                    ss_log s1 = ss_log (run_spec w pre)) as (c & Lc & Sc & Lg).
  { unfold s1, sobserved in *. simpl.
    destruct parent as [p|].
    - destruct (lookup p (ss_ctxs (run_spec w pre))) as [c0|]; [|discriminate].
      injection Hs as <-. simpl. rewrite N.eqb_refl. eexists; split; [reflexivity|]. split; auto.
      unfold snew. destruct (_ =? 0)%nat eqn:E; simpl; auto.
      apply Nat.eqb_eq in E. destruct (slist c0 ++ List.concat opts); simpl in *; auto; lia.
    - injection Hs as <-. simpl. rewrite N.eqb_refl. eexists; split; [reflexivity|]. split; auto.
      unfold snew. destruct (_ =? 0)%nat eqn:E; simpl; auto.
      apply Nat.eqb_eq in E. destruct (List.concat opts); simpl in *; auto; lia. }
  fold s1 in Hf.
  rewrite (spec_unit_log w post s1 u c Lc NR) in Hf.
  rewrite Lg in Hf. fold (run_spec w pre) in F0. rewrite F0 in Hf. simpl in Hf.
  apply in_flat_map in Hf. destruct Hf as (t & _ & Ht).
  destruct c as [[l i]|]; simpl in Ht; [|contradiction].
  apply in_events_of in Ht. destruct Ht as [Hin _].
  apply in_select in Hin. simpl in Sc. subst l.
  rewrite Hx in Hin. apply in_app_or in Hin. destruct Hin as [Hin|Hin]; auto.
  apply in_app_or in Hin. destruct Hin; auto.
Qed.
