(* Proofs/GenAgreeC07Branch.v — property C07, translator tie for the type handling of
   compose/graph.go addBranch (tools/go2v extractor "c07_branch", Gen/BranchCode.v, translated
   statement by statement):
     branch_head   the typing of a passthrough start node whose type is still unknown (input and
                   output type := the condition's type, helper := the branch's helper for a
                   predecessor passthrough, immediate propagation through updateToValidateMap),
                   the check of the condition's type against the start node's output type, and
                   the converter appended to handlerPreBranch[start];
     branch_end    the body of the loop over branch.endNodes (end node must exist, the pending
                   entry, updateToValidateMap, the start / end node marks);
     branch_gh     the helper newGraphBranch[T] gives a branch: newGenericHelper[T, T].
   They are the model's [branch_pre] + condition check + [b_conv] and one step of [branch_ends]
   of Model/TypeBuilder.v ([add_branch] with the three repair switches off), for every builder
   state whose helpers are in step with the types ([gh_inv], Proofs/GenAgreeC07Validate.v),
   every start node, every condition type.  updateToValidateMap enters as the parameter [upd];
   what is assumed of it ([upd_ok]: it is the model's [update_tvm] and keeps the helpers in
   step) is proved for the translated loop ([upd_of_ok], from gen_update_agrees).
   A source that types the start node although its type is known (F-C07a), drops the
   propagation (F-C07d), checks against the input type, installs the converter on the wrong
   outcome, or skips the existence test of an end node makes this file stop compiling. *)
From Eino Require Import Base.Util Model.Types Model.TypesGenLib Model.TypeBuilder Model.TypeBuilderGenLib.
From Eino Require Import Proofs.TypesBuilder Proofs.GenAgreeC07Validate.
From Eino Require Gen.ValidateCode Gen.BranchCode.
Module V := Gen.ValidateCode.
Module B := Gen.BranchCode.
Arguments check_assignable : simpl never.

Definition upd_ok (u : univ) (orc : nat -> list key) (upd : xstate -> option xstate) : Prop :=
  forall xs, gh_inv xs ->
    match upd xs with
    | Some xs' => update_tvm u orc (x_st xs) = UOk (x_st xs') /\ gh_inv xs'
    | None => forall st', update_tvm u orc (x_st xs) <> UOk st'
    end.

(* the translated loop of updateToValidateMap, as addBranch / addEdge call it *)
Definition upd_of (u : univ) (orc : nat -> list key) (xs : xstate) : option xstate :=
  match x_update (V.validate_entry u) (S (List.length (g_tvm (x_st xs)))) orc 0 xs with
  | Some (Some xs') => Some xs'
  | _ => None
  end.

Theorem upd_of_ok : forall u orc, upd_ok u orc (upd_of u orc).
Proof.
  intros u orc xs I. unfold upd_of, update_tvm.
  pose proof (gen_update_agrees u (S (List.length (g_tvm (x_st xs)))) orc 0 xs I) as A.
  destruct (x_update (V.validate_entry u) (S (List.length (g_tvm (x_st xs)))) orc 0 xs) as [[xs'|]|].
  - exact A.
  - intros st' H. rewrite A in H. discriminate.
  - intros st' H. rewrite A in H. discriminate.
Qed.

Lemma typing_direct_is_set_pass_ty : forall xs k t,
  x_st (x_set_out (x_set_in xs k (Some t)) k (Some t)) = set_pass_ty (x_st xs) k t.
Proof.
  intros xs k t. unfold x_set_out, x_set_in, set_pass_ty; simpl.
  rewrite map_node_map_node. unfold set_nodes; simpl. f_equal.
Qed.

Theorem gen_branch_gh_agrees : forall t, B.branch_gh t = gh_new t t.
Proof. reflexivity. Qed.

Theorem gen_branch_head_agrees : forall u orc upd xs s t, gh_inv xs -> upd_ok u orc upd ->
  match B.branch_head u upd xs s t with
  | BOk xs1 conv =>
      branch_pre u false false false orc (x_st xs) s t = UOk (x_st xs1) /\ gh_inv xs1 /\
      check_assignable u (out_ty (x_st xs1) s) (Some t) <> MustNot /\
      conv = map Some (match check_assignable u (out_ty (x_st xs1) s) (Some t) with May => [t] | _ => [] end)
  | BFail =>
      match branch_pre u false false false orc (x_st xs) s t with
      | UOk st1 => check_assignable u (out_ty st1 s) (Some t) = MustNot
      | _ => True
      end
  end.
Proof.
  (* robust against a reshuffled condition: the three facts it is made of are decided first, then both
     sides compute *)
  intros u orc upd xs s t I U. unfold B.branch_head, branch_pre, update_sel, x_is_pass.
  rewrite ?gen_get_node_output_type_agrees.
  destruct (N.eqb s kSTART) eqn:E1; destruct (is_pass (x_st xs) s) eqn:E2;
    destruct (out_ty (x_st xs) s) as [a|] eqn:E3; cbn [negb andb orb rt_is_nil];
    first
      [ (* the start node is typed by the branch *)
        match goal with |- context [upd ?X] => set (xs3 := X) end;
        assert (S3 : x_st xs3 = set_pass_ty (x_st xs) s t) by apply typing_direct_is_set_pass_ty;
        assert (I3 : gh_inv xs3)
          by (eapply gh_inv_typing with (t := t); [exact I | apply typing_direct_is_set_pass_ty | reflexivity | reflexivity | reflexivity]);
        specialize (U xs3 I3); rewrite S3 in U; destruct (upd xs3) as [xs4|];
        [ destruct U as [U1 I4]; rewrite U1; rewrite ?gen_get_node_output_type_agrees;
          destruct (check_assignable u (out_ty (x_st xs4) s) (Some t)) eqn:K; simpl; rewrite ?K;
          [ reflexivity
          | split; [reflexivity|]; split; [exact I4|]; split; [discriminate | reflexivity]
          | split; [reflexivity|]; split; [exact I4|]; split; [discriminate | reflexivity] ]
        | destruct (update_tvm u orc (set_pass_ty (x_st xs) s t)) eqn:K; auto; exfalso; eapply U; reflexivity ]
      | (* its type is kept *)
        match goal with |- context [check_assignable u ?A (Some t)] => destruct (check_assignable u A (Some t)) eqn:K end;
        simpl; rewrite ?E3, ?K;
        [ reflexivity
        | split; [reflexivity|]; split; [exact I|]; split; [discriminate | reflexivity]
        | split; [reflexivity|]; split; [exact I|]; split; [discriminate | reflexivity] ] ].
Qed.

Lemma gh_inv_frame : forall xs xs', gh_inv xs ->
  x_gh xs' = x_gh xs -> g_in (x_st xs') = g_in (x_st xs) -> g_out (x_st xs') = g_out (x_st xs) ->
  g_nodes (x_st xs') = g_nodes (x_st xs) -> gh_inv xs'.
Proof.
  intros xs xs' I A B C D k. rewrite (helper_frame xs xs' k A B C).
  assert (Ei : in_ty (x_st xs') k = in_ty (x_st xs) k) by (unfold in_ty, get_node; rewrite B, C, D; reflexivity).
  assert (Eo : out_ty (x_st xs') k = out_ty (x_st xs) k) by (unfold out_ty, get_node; rewrite B, C, D; reflexivity).
  rewrite Ei, Eo. apply I.
Qed.

Lemma marks_are_mark_ends : forall st s e,
  (let st1 := if N.eqb s kSTART then mark_ends st kSTART kSTART else st in
   if N.eqb e kEND then mark_ends st1 kEND kEND else st1) = mark_ends st s e.
Proof.
  intros st s e. unfold mark_ends. simpl.
  destruct (N.eqb s kSTART), (N.eqb e kEND); simpl;
    change (N.eqb kSTART kEND) with false; change (N.eqb kEND kSTART) with false;
    change (N.eqb kSTART kSTART) with true; change (N.eqb kEND kEND) with true;
    rewrite ?Bool.orb_false_r, ?Bool.orb_true_r; destruct st; reflexivity.
Qed.

Theorem gen_branch_end_agrees : forall u orc upd xs s e, gh_inv xs -> upd_ok u orc upd ->
  match B.branch_end upd xs s e with
  | BOk xs1 conv =>
      conv = [] /\ (negb (has_node (x_st xs) e) && negb (N.eqb e kEND)) = false /\
      exists st1, update_tvm u orc (set_tvm (x_st xs) (g_tvm (x_st xs) ++ [(s, e)])) = UOk st1 /\
                  x_st xs1 = mark_ends st1 s e /\ gh_inv xs1
  | BFail =>
      (negb (has_node (x_st xs) e) && negb (N.eqb e kEND)) = true \/
      forall st1, update_tvm u orc (set_tvm (x_st xs) (g_tvm (x_st xs) ++ [(s, e)])) <> UOk st1
  end.
Proof.
  intros u orc upd xs s e I U.
  assert (I1 : gh_inv (x_add_tvm xs s e)) by (apply (gh_inv_frame xs); auto).
  specialize (U (x_add_tvm xs s e) I1).
  assert (F : forall xs2 xs3, gh_inv xs2 -> x_gh xs3 = x_gh xs2 -> x_st xs3 = mark_ends (x_st xs2) s e -> gh_inv xs3).
  { intros xs2 xs3 I2 G3 S3. apply (gh_inv_frame xs2); auto; rewrite S3; reflexivity. }
  unfold B.branch_end, x_has_node.
  pose proof (marks_are_mark_ends) as MM.
  destruct (has_node (x_st xs) e) eqn:Hn; destruct (N.eqb e kEND) eqn:He; cbn [negb andb orb];
    try (left; reflexivity);
    (destruct (upd (x_add_tvm xs s e)) as [xs2|];
     [ destruct U as [U1 I2];
       pose proof (MM (x_st xs2) s e) as M; simpl in M; rewrite ?He in M;
       destruct (N.eqb s kSTART); (split; [reflexivity|]; split; [reflexivity|];
         exists (x_st xs2); split; [exact U1|]; split; [exact M | apply (F xs2); [exact I2 | reflexivity | exact M]])
     | right; exact U ]).
Qed.

(* ------------------------------------------------------------------ the loop over branch.endNodes *)

Fixpoint xb_ends (upd : nat -> xstate -> option xstate) (j : nat) (xs : xstate) (s : key)
         (ends : list key) : option xstate :=
  match ends with
  | [] => Some xs
  | e :: rest =>
      match B.branch_end (upd (S j)) xs s e with
      | BOk xs1 _ => xb_ends upd (S j) xs1 s rest
      | BFail => None
      end
  end.

(* the translated loop body, iterated over the end nodes in any order, is the model's
   [branch_ends] *)
Theorem gen_branch_ends_agrees : forall u (orc : nat -> nat -> list key) upd ends j xs s,
  gh_inv xs -> (forall j, upd_ok u (orc (S j)) (upd (S j))) ->
  match xb_ends upd j xs s ends with
  | Some xs' => branch_ends u false orc j (x_st xs) s ends = Some (x_st xs') /\ gh_inv xs'
  | None => branch_ends u false orc j (x_st xs) s ends = None
  end.
Proof.
  intros u orc upd ends; induction ends as [|e rest IH]; intros j xs s I U; simpl.
  - split; [reflexivity | exact I].
  - pose proof (gen_branch_end_agrees u (orc (S j)) (upd (S j)) xs s e I (U j)) as A.
    unfold update_sel.
    destruct (B.branch_end (upd (S j)) xs s e) as [xs1 conv|].
    + destruct A as [_ [A1 [st1 [A2 [A3 I1]]]]]. rewrite A1, A2, <- A3. apply IH; assumption.
    + destruct A as [A|A]; [rewrite A; reflexivity|].
      destruct (negb (has_node (x_st xs) e) && negb (N.eqb e kEND)); [reflexivity|].
      destruct (update_tvm u (orc (S j)) (set_tvm (x_st xs) (g_tvm (x_st xs) ++ [(s, e)]))) eqn:K; try reflexivity.
      exfalso. eapply A. reflexivity.
Qed.

(* ------------------------------------------------------------------ addBranch as a whole *)

Lemma fold_ends_is_xb_ends : forall upd ends j xs s,
  x_fold_ends (fun j xs e => bres_opt (B.branch_end (upd (S j)) xs s e)) j xs ends = xb_ends upd j xs s ends.
Proof.
  intros upd ends; induction ends as [|e rest IH]; intros j xs s; simpl; [reflexivity|].
  destruct (B.branch_end (upd (S j)) xs s e) as [xs1 c|]; simpl; [apply IH | reflexivity].
Qed.

Lemma conv_tys_map_Some : forall l, conv_tys (map Some l) = l.
Proof. induction l as [|x l IH]; simpl; [reflexivity | rewrite IH; reflexivity]. Qed.

(* The whole body of addBranch (sticky build error, compiled flag, the deferred function, END as start
   node, unknown start node, "number of branches is 1", the graph's own copy of the branch and its
   index, the type handling [branch_head], the loop over the end nodes with body [branch_end], the
   append to g.branches) is the model's [add_branch] with the three repair switches off: the k-th
   call of updateToValidateMap inside it is the model's [update_tvm] under the oracle the model uses
   for it, the end nodes are visited in the order [order_keys (orc 0 0) ends]. *)
Theorem gen_add_branch_agrees : forall u (orc : nat -> nat -> list key) upd xs s t ends choice,
  gh_inv xs ->
  upd_ok u (fun n => orc 0%nat (S n)) (upd 0%nat) -> (forall j, upd_ok u (orc (S j)) (upd (S j))) ->
  match B.add_branch u upd xs s t ends (order_keys (orc 0%nat 0%nat) ends) choice false with
  | AOk xs' => add_branch u false false false orc (x_st xs) s t ends choice = (x_st xs', true) /\ gh_inv xs'
  | AFailPlain => add_branch u false false false orc (x_st xs) s t ends choice = (x_st xs, false)
  | AFailSticky => add_branch u false false false orc (x_st xs) s t ends choice = (set_err (x_st xs), false)
  | AOutside => False
  end.
Proof.
  intros u orc upd xs s t ends choice I U0 Uj. unfold B.add_branch, add_branch, x_has_node.
  destruct (g_err (x_st xs)); [reflexivity|].
  destruct (g_compiled (x_st xs)); [reflexivity|].
  destruct (N.eqb s kEND); cbn [negb andb orb]; [reflexivity|].
  destruct (has_node (x_st xs) s); destruct (N.eqb s kSTART); cbn [negb andb orb]; try reflexivity;
  (destruct (Nat.eqb (List.length ends) 1); [reflexivity|]);
  (pose proof (gen_branch_head_agrees u (fun n => orc 0%nat (S n)) (upd 0%nat) xs s t I U0) as H;
   destruct (B.branch_head u (upd 0%nat) xs s t) as [xs1 conv|];
   [ destruct H as [H1 [I1 [H2 H3]]]; rewrite H1; cbn [negb];
     rewrite fold_ends_is_xb_ends;
     pose proof (gen_branch_ends_agrees u orc upd (order_keys (orc 0%nat 0%nat) ends) 0 xs1 s I1 Uj) as E;
     destruct (xb_ends upd 0 xs1 s (order_keys (orc 0%nat 0%nat) ends)) as [xs2|];
     [ destruct E as [E1 I2]; subst conv; rewrite conv_tys_map_Some;
       destruct (check_assignable u (out_ty (x_st xs1) s) (Some t)) eqn:K; [congruence | |];
         rewrite E1; (split; [reflexivity | apply (gh_inv_frame xs2); auto])
     | destruct (check_assignable u (out_ty (x_st xs1) s) (Some t)) eqn:K; [congruence | |]; rewrite E; reflexivity ]
   | destruct (branch_pre u false false false (fun n => orc 0%nat (S n)) (x_st xs) s t) as [st1| |]; try reflexivity;
     rewrite H; reflexivity ]).
Qed.

(* ------------------------------------------------------------------ non-vacuity *)

(* on the state of GenAgreeC07Validate (START:T1; node 2 = untyped passthrough; node 3: I2 -> T1;
   node 4: T2 -> T1), with the translated work-list loop as [upd]:
   a T2 branch on the passthrough node types it T2, helper (T2, T2), no converter;
   an I2 branch at START:T1 is Must (no converter), a T2 branch at START:T1 is rejected,
   a T1 branch on node 3 (output T1) passes, a branch with condition type T2 behind an
   I2-typed passthrough node gets the converter; a branch end that was never added fails,
   END and an existing node pass and the end-node mark is set *)
Example gen_branch_examples :
  let upd := upd_of ex_u (fun _ => []) in
  (exists xs', B.branch_head ex_u upd ex_xs 2%N (TConc 1) = BOk xs' [] /\
               out_ty (x_st xs') 2%N = Some (TConc 1) /\ x_node_gh xs' 2%N = gh_new (TConc 1) (TConc 1)) /\
  B.branch_head ex_u upd ex_xs 0%N (TIface 1) = BOk ex_xs [] /\
  B.branch_head ex_u upd ex_xs 0%N (TConc 1) = BFail /\
  B.branch_head ex_u upd ex_xs 3%N (TConc 0) = BOk ex_xs [] /\
  (exists xs', B.branch_head ex_u upd ex_xs 2%N (TIface 1) = BOk xs' [] /\
               B.branch_head ex_u upd xs' 2%N (TConc 1) = BOk xs' [Some (TConc 1)]) /\
  B.branch_end upd ex_xs 3%N 9%N = BFail /\
  (exists xs', B.branch_end upd ex_xs 3%N 1%N = BOk xs' [] /\ g_has_end (x_st xs') = true /\ g_has_start (x_st xs') = false) /\
  (exists xs', B.branch_end upd ex_xs 0%N 3%N = BOk xs' [] /\ g_has_start (x_st xs') = true).
Proof.
  cbv zeta.
  split; [eexists; split; [vm_compute; reflexivity|]; split; reflexivity|].
  split; [vm_compute; reflexivity|]. split; [vm_compute; reflexivity|]. split; [vm_compute; reflexivity|].
  split; [eexists; split; [vm_compute; reflexivity|]; vm_compute; reflexivity|].
  split; [vm_compute; reflexivity|].
  split; [eexists; split; [vm_compute; reflexivity|]; split; reflexivity|].
  eexists; split; [vm_compute; reflexivity|]; reflexivity.
Qed.
