(* Proofs/TypesFlow.v — scheduler-independent type safety of a compiled graph.

   [run] (Model/TypeBuilder.v) is Invoke on a Pregel graph: one particular discipline of
   moving values (supersteps, fan-in stops the model).  The safety argument does not
   depend on the discipline: whatever order nodes execute in (Pregel supersteps, the
   all-predecessor / DAG mode, Workflow's eager mode), whether values travel as values or as
   streams whose chunks are converted lazily before the consumer reads them, and whether
   several values meet at a node and are merged (mergeValues / mergeMap return a value of
   the common dynamic type of their arguments or fail), a value can only move
     - from a completed node along a data edge or to an end node of one of its branches,
       through the run-time converters installed on that connection,
     - through a state pre handler, a node body, a state post handler.
   [flow st site k d]: a value of dynamic type d can be at the given site of node k in SOME
   execution of the compiled graph [st]; lambdas and state handlers return ANY value their
   declared Go type admits (nothing is assumed about them beyond Go's static typing, no
   emit table), a state handler of a passthrough node (declared for any) returns anything,
   and its result moves on only if the converter of the node's inferred type accepts it.
   Theorem [flow_typed]: every value that can be at a site has the static type of that site;
   [flow_sites_safe]: hence every type assertion the framework makes (state pre handler
   entry, node entry, state post handler entry, branch condition, final output) holds. *)
From Eino Require Import Base.Util Model.Types Model.TypeBuilder Proofs.TypesLattice Proofs.TypesBuilder Proofs.TypesRun Proofs.TypesInv2 Proofs.TypesMay Proofs.TypesMain.
From Coq Require Import Lia.
Arguments check_assignable : simpl never.

Section F.
  Variable u : univ.
  Notation asrt := (assert_type u).

  Inductive site : Type :=
  | SArr     (* handed to the node's task: after the converters of the connection, before the pre handler *)
  | SBody    (* entering the node body (after the pre handler) *)
  | SOut     (* leaving the node body (before the post handler) *)
  | SDone.   (* the completed task's value (after the post handler): what branches and successors see *)

  Inductive flow (st : gstate) : site -> key -> dyn -> Prop :=
  (* the graph input: any value of the graph's input type *)
  | F_start : forall d, has_type u d (g_in st) = true -> flow st SDone kSTART d
  (* along a data edge, through its converters *)
  | F_edge : forall s t d,
      flow st SDone s d -> In (s, t) (g_data st) ->
      conv_all asrt d (hedge_of st s t) = true -> flow st SArr t d
  (* to an end node of a branch, through the branch's converter and the connection's converters
     (whatever the condition selects) *)
  | F_branch : forall s b t d,
      flow st SDone s d -> In (s, b) (g_branches st) -> In t (b_ends b) ->
      conv_all asrt d (b_conv b) = true -> conv_all asrt d (hedge_of st s t) = true -> flow st SArr t d
  (* pre handler: absent, or returns its argument *)
  | F_pre_same : forall k d, flow st SArr k d -> flow st SBody k d
  (* pre handler of a lambda node, declared for the type t: any value of that type *)
  | F_pre_lambda : forall k n d d' t,
      flow st SArr k d -> get_node st k = Some n -> n_pass n = false -> n_pre n = Some t ->
      has_type u d' t = true -> flow st SBody k d'
  (* pre handler of a passthrough node (declared for any): any value the node's converter accepts *)
  | F_pre_pass : forall k n d d' t,
      flow st SArr k d -> get_node st k = Some n -> n_pass n = true -> n_in n = Some t ->
      asrt d' t = true -> flow st SBody k d'
  (* node body: a passthrough node hands its input on; a lambda returns any value of its output type *)
  | F_body_pass : forall k n d,
      flow st SBody k d -> get_node st k = Some n -> n_pass n = true -> flow st SOut k d
  | F_body_lambda : forall k n d d' t,
      flow st SBody k d -> get_node st k = Some n -> n_pass n = false -> n_out n = Some t ->
      has_type u d' t = true -> flow st SOut k d'
  (* post handler, as the pre handler *)
  | F_post_same : forall k d, flow st SOut k d -> flow st SDone k d
  | F_post_lambda : forall k n d d' t,
      flow st SOut k d -> get_node st k = Some n -> n_pass n = false -> n_post n = Some t ->
      has_type u d' t = true -> flow st SDone k d'
  | F_post_pass : forall k n d d' t,
      flow st SOut k d -> get_node st k = Some n -> n_pass n = true -> n_out n = Some t ->
      asrt d' t = true -> flow st SDone k d'.

  (* the static type of a site *)
  Definition site_typed (st : gstate) (s : site) (k : key) (d : dyn) : Prop :=
    match s with
    | SArr | SBody => exists t, in_ty st k = Some t /\ asrt d t = true
    | SOut | SDone => exists t, out_ty st k = Some t /\ has_type u d t = true
    end.

  Lemma in_ty_of_node : forall st k n, nodes_ok st -> get_node st k = Some n -> in_ty st k = n_in n /\ out_ty st k = n_out n.
  Proof. intros. eapply types_of_node; eauto. Qed.

  Theorem flow_typed_inv : forall st, inv u st -> g_compiled st = true ->
    forall s k d, flow st s k d -> site_typed st s k d.
  Proof.
    intros st I C s k d F. pose proof (inv_nodes _ _ I) as NO.
    induction F; simpl in *.
    - (* start *) exists (g_in st). split; [reflexivity | assumption].
    - (* edge *)
      assert (Hc : In (s, t) (conns st)) by (unfold conns; apply in_or_app; left; assumption).
      destruct (compiled_all_validated u st I C _ Hc) as [CO _].
      assert (D : done_ok u st (s, d)) by exact IHF.
      exact (transfer_ok u st s t d CO D H0).
    - (* branch *)
      assert (Hc : In (s, t) (conns st)).
      { unfold conns; apply in_or_app; right. eapply branch_pair_In; eauto. }
      destruct (compiled_all_validated u st I C _ Hc) as [CO _].
      assert (D : done_ok u st (s, d)) by exact IHF.
      exact (transfer_ok u st s t d CO D H2).
    - (* pre same *) exact IHF.
    - (* pre lambda *)
      destruct (NO k n H) as [[_ [_ [Pr _]]] _]. specialize (Pr t H1). rewrite H0 in Pr.
      destruct (in_ty_of_node st k n NO H) as [Ti _].
      exists t. split; [rewrite Ti; exact Pr | apply assert_has_type; assumption].
    - (* pre pass *)
      destruct (in_ty_of_node st k n NO H) as [Ti _].
      exists t. split; [rewrite Ti; assumption | assumption].
    - (* body pass *)
      destruct IHF as [t [It At]].
      destruct (NO k n H) as [[Pp _] _]. destruct (in_ty_of_node st k n NO H) as [Ti To].
      exists t. split; [rewrite To, <- (Pp H0), <- Ti; exact It | apply has_type_assert; exact At].
    - (* body lambda *)
      destruct (in_ty_of_node st k n NO H) as [_ To].
      exists t. split; [rewrite To; assumption | assumption].
    - (* post same *) exact IHF.
    - (* post lambda *)
      destruct (NO k n H) as [[_ [_ [_ Po]]] _]. specialize (Po t H1). rewrite H0 in Po.
      destruct (in_ty_of_node st k n NO H) as [_ To].
      exists t. split; [rewrite To; exact Po | assumption].
    - (* post pass *)
      destruct (in_ty_of_node st k n NO H) as [_ To].
      exists t. split; [rewrite To; assumption | apply has_type_assert; assumption].
  Qed.

  (* every assertion the framework makes on a value that can be there holds *)
  Definition sites_safe (st : gstate) : Prop :=
    (* entry assertion of a state pre handler *)
    (forall k n d t, flow st SArr k d -> get_node st k = Some n -> n_pre n = Some t -> asrt d t = true) /\
    (* entry assertion of a node (lambda: its declared input type) *)
    (forall k n d t, flow st SBody k d -> get_node st k = Some n -> n_in n = Some t -> asrt d t = true) /\
    (* entry assertion of a state post handler *)
    (forall k n d t, flow st SOut k d -> get_node st k = Some n -> n_post n = Some t -> asrt d t = true) /\
    (* a branch condition, behind the branch's converter *)
    (forall s b d, flow st SDone s d -> In (s, b) (g_branches st) ->
       conv_all asrt d (b_conv b) = true -> asrt d (b_ty b) = true) /\
    (* the final output: out.(O) *)
    (forall d, flow st SArr kEND d -> asrt d (g_out st) = true).

  Theorem flow_sites_safe_inv : forall st, inv u st -> g_compiled st = true -> sites_safe st.
  Proof.
    intros st I C. pose proof (inv_nodes _ _ I) as NO.
    pose proof (flow_typed_inv st I C) as FT.
    split; [|split; [|split; [|split]]].
    - intros k n d t F G P. destruct (FT _ _ _ F) as [ti [It At]]. simpl in It.
      destruct (NO k n G) as [[_ [_ [Pr _]]] _]. specialize (Pr t P).
      destruct (in_ty_of_node st k n NO G) as [Ti _].
      destruct (n_pass n); [subst t; apply assert_any|].
      rewrite Ti, Pr in It. inversion It; subst ti. exact At.
    - intros k n d t F G P. destruct (FT _ _ _ F) as [ti [It At]]. simpl in It.
      destruct (in_ty_of_node st k n NO G) as [Ti _]. rewrite Ti, P in It. inversion It; subst ti. exact At.
    - intros k n d t F G P. destruct (FT _ _ _ F) as [to [Ot Ht]]. simpl in Ot.
      destruct (NO k n G) as [[_ [_ [_ Po]]] _]. specialize (Po t P).
      destruct (in_ty_of_node st k n NO G) as [_ To].
      destruct (n_pass n); [subst t; apply assert_any|].
      rewrite To, Po in Ot. inversion Ot; subst to. apply assert_has_type; exact Ht.
    - intros s b d F B CV. destruct (FT _ _ _ F) as [a [Oa Ha]]. simpl in Oa.
      destruct (inv_branches _ _ I s b B) as [_ [a' [Oa' [Hc Hm]]]]. rewrite Oa in Oa'. inversion Oa'; subst a'.
      destruct (check_assignable u (Some a) (Some (b_ty b))) eqn:E.
      + exfalso; apply Hc; reflexivity.
      + eapply must_sound; eauto.
      + specialize (Hm eq_refl). unfold conv_all in CV. rewrite forallb_forall in CV. apply CV; exact Hm.
    - intros d F. destruct (FT _ _ _ F) as [t [It At]]. simpl in It. unfold in_ty in It. simpl in It.
      inversion It; subst t. exact At.
  Qed.

  (* ------------------------------------------------------------------ the Pregel run is an instance:
     every task the superstep loop [run] creates and every completed value it sees is a flow *)
  Variable emit : list (key * dyn).

  Lemma pre_all_flow : forall st tasks tasks1,
    all_typed st -> hret_ok u st ->
    (forall x, In x tasks -> flow st SArr (fst x) (snd x)) ->
    pre_all asrt st tasks = inr tasks1 ->
    forall x, In x tasks1 -> flow st SBody (fst x) (snd x).
  Proof.
    intros st tasks. induction tasks as [|[k d] rest IH]; intros tasks1 AT HR HF H; simpl in H.
    - inversion H; subst. intros x [].
    - destruct (pre_res asrt st (k, d)) as [d1| |] eqn:P; try discriminate.
      destruct (pre_all asrt st rest) as [o|l] eqn:R; [discriminate|]. inversion H; subst tasks1; clear H.
      intros x [Hx|Hx]; [|eapply IH; eauto; intros y Hy; apply HF; right; exact Hy].
      subst x. simpl. pose proof (HF (k, d) (or_introl eq_refl)) as F0. simpl in F0.
      unfold pre_res in P. simpl in P. destruct (get_node st k) as [n|] eqn:G.
      2:{ inversion P; subst d1. apply F_pre_same; exact F0. }
      unfold run_handler in P. destruct (n_pre n) as [t0|] eqn:Pn.
      2:{ inversion P; subst d1. apply F_pre_same; exact F0. }
      destruct (asrt d t0); simpl in P; [|discriminate].
      destruct (n_pass n) eqn:Ps.
      + destruct (n_in n) as [tc|] eqn:Ni.
        * destruct (asrt (match n_pre_ret n with Some r => r | None => d end) tc) eqn:A; [|discriminate].
          inversion P; subst d1. eapply F_pre_pass; eauto.
        * destruct (AT k n G) as [t Ht]. congruence.
      + inversion P; subst d1. destruct (n_pre_ret n) as [r|] eqn:Rr; [|apply F_pre_same; exact F0].
        destruct (HR k n G Ps) as [H1 _]. eapply F_pre_lambda; eauto.
  Qed.

  Lemma post_flow : forall st k d1 d2,
    all_typed st -> nodes_ok st -> emit_ok u emit st -> hret_ok u st ->
    flow st SBody k d1 ->
    post_res asrt st k (node_out asrt emit st (k, d1)) = Some (TVal d2) ->
    flow st SDone k d2.
  Proof.
    intros st k d1 d2 AT NO EM HR F0 P.
    unfold node_out in P. simpl in P. destruct (get_node st k) as [n|] eqn:G; [|discriminate].
    assert (OUT : exists o, (if n_pass n then Some d1
                             else match n_in n with
                                  | Some ty0 => if asrt d1 ty0 then Some (emit_of emit st k) else None
                                  | None => None end) = Some o /\ flow st SOut k o).
    { destruct (n_pass n) eqn:Ps.
      - exists d1. split; [reflexivity | eapply F_body_pass; eauto].
      - destruct (n_in n) as [ty0|]; [|discriminate].
        destruct (asrt d1 ty0); [|discriminate].
        exists (emit_of emit st k). split; [reflexivity|].
        destruct (NO k n G) as [[_ [Pl _]] _]. destruct (Pl Ps) as [i [o [_ Ho]]].
        eapply F_body_lambda; eauto. }
    destruct OUT as [o [E FO]]. rewrite E in P. unfold post_res in P. rewrite G in P.
    unfold run_handler in P. destruct (n_post n) as [t0|] eqn:Pn.
    2:{ inversion P; subst d2. apply F_post_same; exact FO. }
    destruct (asrt o t0); simpl in P; [|discriminate].
    destruct (n_pass n) eqn:Ps.
    - destruct (n_out n) as [tc|] eqn:No.
      + destruct (asrt (match n_post_ret n with Some r => r | None => o end) tc) eqn:A; [|discriminate].
        inversion P; subst d2. eapply F_post_pass; eauto.
      + destruct (AT k n G) as [t Ht]. destruct (NO k n G) as [[Pp _] _]. rewrite (Pp Ps) in Ht. congruence.
    - inversion P; subst d2. destruct (n_post_ret n) as [r|] eqn:Rr; [|apply F_post_same; exact FO].
      destruct (HR k n G Ps) as [_ H2]. eapply F_post_lambda; eauto.
  Qed.

  Lemma collect_flow : forall st tasks1 done,
    all_typed st -> nodes_ok st -> emit_ok u emit st -> hret_ok u st ->
    (forall x, In x tasks1 -> flow st SBody (fst x) (snd x)) ->
    collect_outs tasks1 (map (fun t => post_res asrt st (fst t) (node_out asrt emit st t)) tasks1) = inr done ->
    forall y, In y done -> flow st SDone (fst y) (snd y).
  Proof.
    intros st tasks1. induction tasks1 as [|[k d1] rest IH]; intros done AT NO EM HR HF H; simpl in H.
    - inversion H; subst. intros y [].
    - destruct (post_res asrt st k (node_out asrt emit st (k, d1))) as [[d2| |]|] eqn:P; try discriminate.
      destruct (collect_outs rest _) as [o|l] eqn:R; [discriminate|]. inversion H; subst done; clear H.
      intros y [Hy|Hy].
      + subst y. simpl. eapply post_flow; eauto. apply (HF (k, d1)). left; reflexivity.
      + eapply IH; eauto. intros x Hx. apply HF. right; exact Hx.
  Qed.

  Lemma exec_all_flow : forall st tasks done,
    all_typed st -> nodes_ok st -> emit_ok u emit st -> hret_ok u st ->
    (forall x, In x tasks -> flow st SArr (fst x) (snd x)) ->
    exec_all asrt emit st tasks = inr done ->
    forall y, In y done -> flow st SDone (fst y) (snd y).
  Proof.
    intros st tasks done AT NO EM HR HF H. unfold exec_all in H.
    destruct (forallb (fun t => has_node st (fst t)) tasks); simpl in H; [|discriminate].
    destruct (pre_all asrt st tasks) as [o|tasks1] eqn:P; [discriminate|].
    destruct (forallb _ _) in H; simpl in H; [|discriminate].
    eapply collect_flow; eauto. eapply pre_all_flow; eauto.
  Qed.

  Lemma next_flow : forall st done tasks,
    inv u st -> g_compiled st = true ->
    (forall x, In x done -> flow st SDone (fst x) (snd x)) ->
    next u asrt st done = inr tasks ->
    forall x, In x tasks -> flow st SArr (fst x) (snd x).
  Proof.
    intros st done tasks I C HF H x Hx. unfold next in H.
    assert (HD : forall x, In x done -> done_ok u st x).
    { intros [s d] Hs. exact (flow_typed_inv st I C _ _ _ (HF _ Hs)). }
    pose proof (resolve_safe u st done I HD) as RS.
    destruct (resolve asrt st done) as [o|ws] eqn:R; [discriminate|].
    destruct (resolve_inr u st done ws R) as [RA RB].
    destruct (edges_ok asrt st ws) eqn:EO; simpl in H; [|discriminate].
    destruct (fan_in ws); [discriminate|].
    destruct (memN kEND (targets ws)).
    { cbv zeta in H.
      match type of H with (if ?c then _ else _) = _ => destruct c; discriminate end. }
    inversion H; subst tasks; clear H.
    apply in_map_iff in Hx. destruct Hx as [t [E Ht]]. subst x. simpl.
    destruct (value_for_In t ws Ht) as [s Hw].
    destruct (RS _ _ _ Hw) as [Hc _]. destruct (RB _ _ _ Hw) as [Hd _].
    pose proof (HF _ Hd) as FD. simpl in FD.
    unfold edges_ok in EO. rewrite forallb_forall in EO. pose proof (EO _ Hw) as CV. simpl in CV.
    unfold conns in Hc. apply in_app_or in Hc. destruct Hc as [Hc|Hc].
    - eapply F_edge; eauto.
    - unfold branch_pairs in Hc. apply in_flat_map in Hc. destruct Hc as [[s0 b] [Hb Hp]]. simpl in Hp.
      apply in_map_iff in Hp. destruct Hp as [t0 [E Ht0]]. inversion E; subst s0 t0.
      destruct (RA _ _ Hd) as [BA _].
      assert (Bb : In b (branches_of st s)).
      { unfold branches_of. apply in_map_iff. exists (s, b). split; [reflexivity|].
        apply filter_In. split; [exact Hb | simpl; apply N.eqb_refl]. }
      destruct (BA b Bb) as [CB _].
      eapply F_branch; eauto.
  Qed.

  Lemma loop_flows : forall st steps tasks,
    inv u st -> g_compiled st = true -> emit_ok u emit st -> hret_ok u st ->
    (forall x, In x tasks -> flow st SArr (fst x) (snd x)) ->
    (forall ts, In ts (loop_tasks u emit st steps tasks) -> forall x, In x ts -> flow st SArr (fst x) (snd x)) /\
    (forall ds, In ds (loop_dones u emit st steps tasks) -> forall x, In x ds -> flow st SDone (fst x) (snd x)).
  Proof.
    intros st steps. induction steps as [|n IH]; intros tasks I C EM HR HF; simpl.
    - split; intros ? [].
    - destruct tasks as [|x0 rest] eqn:T; [split; intros ? []|]. rewrite <- T in *.
      destruct (inv_compiled _ _ I C) as [_ AT]. pose proof (inv_nodes _ _ I) as NO.
      destruct (exec_all asrt emit st tasks) as [o|done] eqn:E.
      + split; [|intros ? []]. intros ts [Hts|[]]. subst ts. exact HF.
      + pose proof (exec_all_flow st tasks done AT NO EM HR HF E) as FD.
        destruct (next u asrt st done) as [o|tasks'] eqn:N.
        * split.
          -- intros ts [Hts|[]]. subst ts. exact HF.
          -- intros ds [Hds|[]]. subst ds. exact FD.
        * pose proof (next_flow st done tasks' I C FD N) as FT.
          destruct (IH tasks' I C EM HR FT) as [A B]. split.
          -- intros ts [Hts|Hts]; [subst ts; exact HF | apply A; exact Hts].
          -- intros ds [Hds|Hds]; [subst ds; exact FD | apply B; exact Hds].
  Qed.

  (* Invoke on a Pregel graph is one of the executions [flow] speaks about *)
  Theorem run_flows_inv : forall st input,
    inv u st -> g_compiled st = true -> emit_ok u emit st -> hret_ok u st ->
    has_type u input (g_in st) = true ->
    (forall ts, In ts (run_tasks u emit st input) -> forall x, In x ts -> flow st SArr (fst x) (snd x)) /\
    (forall ds, In ds (run_dones u emit st input) -> forall x, In x ds -> flow st SDone (fst x) (snd x)).
  Proof.
    intros st input I C EM HR HI. unfold run_tasks, run_dones.
    assert (F0 : forall x, In x [(kSTART, input)] -> flow st SDone (fst x) (snd x)).
    { intros x [Hx|[]]. subst x. simpl. apply F_start; exact HI. }
    destruct (next u asrt st [(kSTART, input)]) as [o|tasks] eqn:N.
    - split; [intros ? []|]. intros ds [Hds|[]]. subst ds. exact F0.
    - pose proof (next_flow st _ tasks I C F0 N) as FT.
      destruct (loop_flows st (max_steps st) tasks I C EM HR FT) as [A B]. split; [exact A|].
      intros ds [Hds|Hds]; [subst ds; exact F0 | apply B; exact Hds].
  Qed.
End F.

(* ------------------------------------------------------------------ over construction sequences *)

Theorem flow_typed_main : forall u orcs i o s ops st oks,
  run_ops u orcs 0 (init_graph i o s) ops = (st, oks) -> g_compiled st = true ->
  forall si k d, flow u st si k d -> site_typed u st si k d.
Proof. intros. eapply flow_typed_inv; eauto. eapply reach_inv; eauto. Qed.

Theorem flow_sites_safe_main : forall u orcs i o s ops st oks,
  run_ops u orcs 0 (init_graph i o s) ops = (st, oks) -> g_compiled st = true -> sites_safe u st.
Proof. intros. eapply flow_sites_safe_inv; eauto. eapply reach_inv; eauto. Qed.

Theorem run_flows_main : forall u orcs i o s ops st oks emit input,
  run_ops u orcs 0 (init_graph i o s) ops = (st, oks) -> g_compiled st = true ->
  emit_ok u emit st -> hret_ok u st -> has_type u input (g_in st) = true ->
  (forall ts, In ts (run_tasks u emit st input) -> forall x, In x ts -> flow u st SArr (fst x) (snd x)) /\
  (forall ds, In ds (run_dones u emit st input) -> forall x, In x ds -> flow u st SDone (fst x) (snd x)).
Proof. intros. eapply run_flows_inv; eauto. eapply reach_inv; eauto. Qed.
