(* Proofs/DagProgress.v — C02: an all-predecessor run does not stall.
   Part 1 (SN): a skipped channel belongs to a real node (reportBranch fails with "unknown node: end" when the
   skip reaches END), so in every state the loop reaches END is not skipped. *)
From Eino Require Import Base.Util Model.Graph Model.DagSpec Proofs.DagChan Proofs.DagInv Proofs.DagLoop Proofs.DagTrig
     Proofs.DagVals Proofs.DagSkip Proofs.DagTrigLoop Proofs.DagDen Proofs.DagDenFun.
From Coq Require Import Lia Permutation Wf_nat.
Open Scope N_scope.

Section SkippedAreNodes.
  Variable V : Type.
  Variable ops : vops V.
  Variable g : graph.
  Hypothesis Hdag : g_mode g = Dag.

  Notation chans := (chans V).
  Notation skipped := (skipped V).

  (* W: skipped, still on the work list of reportBranch *)
  Definition SN (cs : chans) (W : list key) : Prop :=
    forall k, skipped cs k -> In k W \/ find_node g k <> None.

  Lemma SN_weaken cs W W' : incl W W' -> SN cs W -> SN cs W'.
  Proof. intros Hi H k Hk. destruct (H k Hk); [left; now apply Hi|now right]. Qed.

  Lemma rst_body_SN from cs0 nw0 W t cs1 nw1 :
    SN cs0 (W ++ nw0) -> rst_body V from (cs0, nw0) t = (cs1, nw1) -> SN cs1 (W ++ nw1).
  Proof.
    intros HS. unfold rst_body. destruct (alookup t cs0) as [c|] eqn:Et; [|intros [= <- <-]; exact HS].
    destruct (dag_report_skip V c [from]) as [c' sk] eqn:Esk. intros [= <- <-].
    assert (Hsk : c_skipped V c' = sk) by (unfold dag_report_skip in Esk; injection Esk as <- <-; reflexivity).
    assert (Hext : forall z, In z (W ++ nw0) -> In z (W ++ (if (sk && negb (c_skipped V c))%bool then nw0 ++ [t] else nw0))).
    { intros z Hz. apply in_app_iff in Hz. apply in_app_iff. destruct Hz as [Hz|Hz]; [now left|right].
      destruct (sk && negb (c_skipped V c))%bool; [apply in_app_iff; now left|assumption]. }
    intros k (ck & Ek & Sk). rewrite alookup_upd_chan in Ek. destruct (N.eqb_spec k t) as [->|Hne].
    - rewrite Et in Ek. simpl in Ek. injection Ek as <-. rewrite Hsk in Sk. subst sk.
      destruct (c_skipped V c) eqn:Sc.
      + assert (Hk : skipped cs0 t) by (exists c; auto).
        destruct (HS t Hk) as [Hin|Hf]; [left; now apply Hext|now right].
      + left. rewrite Sk. simpl. apply in_app_iff. right. apply in_app_iff. right. now left.
    - assert (Hk : skipped cs0 k) by (exists ck; auto).
      destruct (HS k Hk) as [Hin|Hf]; [left; now apply Hext|now right].
  Qed.

  Lemma rst_fold_SN from targets : forall cs0 nw0 W cs1 nw1,
    SN cs0 (W ++ nw0) -> fold_left (rst_body V from) targets (cs0, nw0) = (cs1, nw1) -> SN cs1 (W ++ nw1).
  Proof.
    induction targets as [|t targets IH]; intros cs0 nw0 W cs1 nw1 HS H; cbn [fold_left] in H.
    - injection H as <- <-. exact HS.
    - destruct (rst_body V from (cs0, nw0) t) as [csm nwm] eqn:Eb.
      eapply IH; [eapply rst_body_SN; eassumption|exact H].
  Qed.

  Lemma propagate_SN fuel : forall work cs cs', SN cs work -> propagate V g fuel work cs = Ok cs' -> SN cs' [].
  Proof.
    induction fuel as [|fuel IH]; intros work cs cs' HS; destruct work as [|k work]; simpl.
    - intros [= <-]. exact HS.
    - discriminate.
    - intros [= <-]. exact HS.
    - destruct (find_node g k) as [n|] eqn:Ef; [|discriminate].
      destruct (report_skip_to V cs k (succs n)) as [cs1 newly] eqn:Er. intros Hp.
      rewrite report_skip_to_eq in Er.
      apply (IH (work ++ newly) cs1 cs'); [|exact Hp].
      pose proof (rst_fold_SN k (succs n) cs [] (k :: work) cs1 newly) as H.
      rewrite app_nil_r in H. specialize (H HS Er).
      intros k' Hk'. destruct (H k' Hk') as [[<-|Hin]|Hf]; [right; congruence|now left|now right].
  Qed.

  Lemma report_branch_SN from sk cs cs' : SN cs [] -> report_branch V g from sk cs = Ok cs' -> SN cs' [].
  Proof.
    intros HS. unfold report_branch. rewrite Hdag.
    destruct (report_skip_to V cs from sk) as [cs1 newly] eqn:Er. intros Hp.
    rewrite report_skip_to_eq in Er.
    eapply propagate_SN; [|exact Hp].
    exact (rst_fold_SN from sk cs [] [] cs1 newly HS Er).
  Qed.

  Lemma resolve_all_SN completed : forall cs cs' ws ds,
    SN cs [] -> resolve_all V ops g completed cs = Ok (cs', ws, ds) -> SN cs' [].
  Proof.
    induction completed as [|[k out] completed IH]; intros cs cs' ws ds HS; cbn [resolve_all].
    - intros [= <- _ _]. exact HS.
    - destruct (find_node g k) as [n|]; [|discriminate].
      destruct (resolve_one V ops g n out cs) as [[[cs1 w1] d1]|e|] eqn:E1; simpl; [|discriminate..].
      destruct (resolve_all V ops g completed cs1) as [[[cs2 w2] d2]|e|] eqn:E2; simpl; [|discriminate..].
      intros [= <- _ _]. eapply IH; [|exact E2].
      unfold resolve_one in E1. destruct (eval_branches V ops n out) as [[sel sk]|e|]; simpl in E1; [|discriminate..].
      destruct (report_branch V g (n_key n) sk cs) as [cs1'|e|] eqn:Erb; simpl in E1; [|discriminate..].
      injection E1 as <- _ _. eapply report_branch_SN; eassumption.
  Qed.

  Lemma update_chans_SN ws ds cs cs' : SN cs [] -> update_chans V g ws ds cs = Ok cs' -> SN cs' [].
  Proof.
    intros HS. unfold update_chans. destruct (targets_exist V cs ws ds); [|discriminate].
    intros [= <-]. rewrite (update_chans_eq V g Hdag).
    assert (Hlk : forall t, alookup t (map (fun kv : N * chan V => (fst kv, upd1 V g ws ds (fst kv) (snd kv))) cs)
                           = option_map (upd1 V g ws ds t) (alookup t cs)).
    { intros t. exact (alookup_map_snd (fun kv => upd1 V g ws ds (fst kv) (snd kv)) t cs). }
    intros k (c' & E' & S'). rewrite Hlk in E'.
    destruct (alookup k cs) as [c|] eqn:E; [|discriminate]. simpl in E'. injection E' as <-.
    rewrite upd1_skipped in S'. apply HS. exists c. auto.
  Qed.

  Lemma get_all_SN cs cs' ready : ksorted cs -> SN cs [] -> get_all V ops g cs = Ok (cs', ready) -> SN cs' [].
  Proof.
    intros Hks HS Hg. destruct (get_all_spec V ops g Hdag cs cs' ready Hks Hg) as (_ & _ & _ & Hspec).
    intros k (c' & E' & S'). specialize (Hspec k). destruct (alookup k cs) as [c|] eqn:E.
    - destruct Hspec as (ov & c2 & G1 & G2 & _). rewrite E' in G2. injection G2 as <-.
      apply HS. exists c. split; [assumption|].
      destruct (dag_get_cases V ops c ov c' G1) as [(_ & -> & _)|(v & _ & -> & _)]; [assumption|exact S'].
    - destruct Hspec as [En _]. congruence.
  Qed.

  Lemma calc_next_SN cs completed cs' ready :
    ksorted cs -> SN cs [] -> calc_next V ops g cs completed = Ok (cs', ready) -> SN cs' [].
  Proof.
    intros Hks HS. unfold calc_next.
    destruct (resolve_all V ops g completed cs) as [[[cs1 ws] ds]|e|] eqn:E1; simpl; [|discriminate..].
    destruct (update_chans V g ws ds cs1) as [cs2|e|] eqn:E2; simpl; [|discriminate..].
    intros E3.
    pose proof (resolve_all_SN completed cs cs1 ws ds HS E1) as H1.
    pose proof (update_chans_SN ws ds cs1 cs2 H1 E2) as H2.
    eapply get_all_SN; [|exact H2|exact E3].
    (* the key list, hence sortedness, is unchanged by resolve_all and update_chans *)
    assert (K1 : akeys cs1 = akeys cs) by (destruct (resolve_all_frame V ops g Hdag completed cs cs1 ws ds E1) as [K _]; exact K).
    assert (K2 : akeys cs2 = akeys cs1).
    { unfold update_chans in E2. destruct (targets_exist V cs1 ws ds); [|discriminate]. injection E2 as <-.
      rewrite (update_chans_eq V g Hdag). exact (akeys_map_snd (fun kv => upd1 V g ws ds (fst kv) (snd kv)) cs1). }
    eapply ksorted_akeys_eq; [|exact Hks]. congruence.
  Qed.

  Lemma init_chans_SN cs : init_chans V g = Ok cs -> SN cs [].
  Proof.
    unfold init_chans. rewrite Hdag. apply report_branch_SN.
    intros k (c & E & S). exfalso. rewrite (init_v0_lookup V g) in E. destruct (memb k (chan_keys g)); [|discriminate].
    injection E as <-. unfold chan_init in S. rewrite Hdag in S. discriminate.
  Qed.
End SkippedAreNodes.
