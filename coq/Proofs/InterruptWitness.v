(* Proofs/InterruptWitness.v — concrete witnesses, evaluated by the kernel (owner: C05/C06):
   non-vacuity of the hypotheses of the C05/C06 theorems, and the refutations of the three
   pre-repair behaviours kept in Model/RunLoop.v ([start_v0]: F-C06, [resume_v0]: F-C05,
   [estep_v0]: F-C05c). The graphs are the corpus cases of corpus/C05 and corpus/C06. *)
From Eino Require Import Base.Util Model.Graph Model.RunLoop Model.Interrupt Model.IntrObs Proofs.RunLoop
     Proofs.RunLoopRerun Proofs.InterruptRerun.
Open Scope N_scope.

Definition x1 : value := VMap [(0, VAtom 1)].

(* ---------- a chain START -> 2 -> 3 -> END with interrupt-after 2 and interrupt-before 3 ---------- *)
Definition w_chain (before after : list N) : gspec :=
  Build_gspec (Build_graph [Build_node 0 KLambda None [2] [2] [] [];
                            Build_node 2 KLambda None [3] [3] [] [];
                            Build_node 3 KLambda None [1] [1] [] []] Pregel false 0%nat)
              false [] [] before after [] [].
Definition w_chain_cfg := w_chain [3] [2].
Definition w_chain_ex := node_exec 1 [w_chain_cfg] w_chain_cfg.
Definition w_chain_gr := gs_graph w_chain_cfg.

(* the uninterrupted run completes in two steps ... *)
Lemma w_chain_uninterrupted : exists cs0 v l e,
  init_chans value w_chain_gr = Ok cs0 /\
  start VNil (ifold w_chain_gr) (igetr w_chain_gr) (pre_fn w_chain_cfg) w_chain_ex [] [] 2 cs0 (gs0 w_chain_cfg) x1 (env0 [])
    = (ODone v, l, e) /\ List.length l = 2%nat.
Proof. do 4 eexists. split; [vm_compute; reflexivity|]. split; vm_compute; reflexivity. Qed.

(* ... and the run with the interrupt points takes two calls: interrupted once, then done *)
Lemma w_chain_interrupted : exists co1 co2 e,
  drive (fun c : cpt => c) (fun c => Some c) (seg_fresh w_chain_ex 0 w_chain_cfg x1) (seg_resumed w_chain_ex 0 w_chain_cfg)
        (fun _ e => e) true 2 0 (fun _ s => s) None (env0 []) = ([co1; co2], e) /\
  co_written co1 = true /\ (exists v, co_out co2 = ODone v) /\ List.length (co_log co1 ++ co_log co2) = 2%nat.
Proof. do 3 eexists. split; [vm_compute; reflexivity|]. repeat split; try (vm_compute; reflexivity). eexists; vm_compute; reflexivity. Qed.

(* ---------- F-C06: interrupt-before on the first node after START ---------- *)
Definition w_first := w_chain [2] [].
Definition w_first_ex := node_exec 1 [w_first] w_first.

(* repaired: the initial task set is tested: nothing runs, node 2 is reported *)
Lemma w_first_repaired : exists i c e,
  seg_fresh w_first_ex 0 w_first x1 (env0 []) = (OInterrupted i c, [], e) /\ ii_before i = [2] /\ e_log e = [].
Proof. do 3 eexists. split; [vm_compute; reflexivity|]. split; reflexivity. Qed.

(* before the repair the node ran: the statement of [before_never_runs_fresh] is false for [start_v0] *)
Lemma start_v0_runs_before_node :
  ~ (forall (g : gspec) (ex : N -> option ncp -> value -> env -> tex * env) cs0 x e o log e',
       init_chans value (gs_graph g) = Ok cs0 ->
       start_v0 VNil (ifold (gs_graph g)) (igetr (gs_graph g)) (pre_fn g) ex (gs_before g) (gs_after g)
                (seg_fuel (gs_graph g)) cs0 (gs0 g) x e = (o, log, e') ->
       forall ev, In ev log -> memN (ev_key ev) (gs_before g) = false).
Proof.
  intro H.
  destruct (init_chans value (gs_graph w_first)) as [cs0| |] eqn:Hi; try (vm_compute in Hi; discriminate).
  destruct (start_v0 VNil (ifold (gs_graph w_first)) (igetr (gs_graph w_first)) (pre_fn w_first) w_first_ex
              (gs_before w_first) (gs_after w_first) (seg_fuel (gs_graph w_first)) cs0 (gs0 w_first) x1 (env0 []))
    as [[o log] e'] eqn:Hs.
  specialize (H w_first w_first_ex cs0 x1 (env0 []) o log e' Hi Hs
                {| ev_key := 2; ev_in := x1; ev_abort := false; ev_skip := false |}).
  vm_compute in Hi. inversion Hi; subst cs0. vm_compute in Hs. inversion Hs; subst.
  assert (Hf : memN 2 (gs_before w_first) = false) by (apply H; simpl; auto).
  vm_compute in Hf. discriminate.
Qed.

(* ---------- F-C05: a loop through a nested graph that interrupts inside ---------- *)
Definition w_loop_top : gspec :=
  Build_gspec (Build_graph [Build_node 0 KLambda None [2] [2] [] [];
                            Build_node 2 (KSub 1%nat) None [3] [3] [] [];
                            Build_node 3 KLambda None [] [] [] [Build_branch [2; 1] false [[2]; [1]; [1]]]]
                           Pregel false 0%nat) false [] [] [] [] [] [].
Definition w_loop_sub : gspec :=
  Build_gspec (Build_graph [Build_node 0 KLambda None [4] [4] [] [];
                            Build_node 4 KLambda None [5] [5] [] [];
                            Build_node 5 KLambda None [1] [1] [] []] Pregel false 0%nat) false [] [] [5] [] [] [].
Definition w_loop_F := [w_loop_top; w_loop_sub].
Definition w_loop_ex := node_exec 2 w_loop_F w_loop_top.
Definition w_loop_gr := gs_graph w_loop_top.

(* the second call of the run: resumed from the checkpoint of the first, repaired or not *)
Definition w_loop_call1 (v0 : bool) : option (N * list N) :=
  match seg_fresh w_loop_ex 0 w_loop_top x1 (env0 []) with
  | (OInterrupted _ c, _, e) =>
      let e1 := clear_log e in
      let '(o, _, e') :=
        if v0 then resume_v0 VNil (ifold w_loop_gr) (igetr w_loop_gr) (pre_fn w_loop_top) w_loop_ex [] []
                             (seg_fuel w_loop_gr) (fun s => s) c e1
        else seg_resumed w_loop_ex 0 w_loop_top (fun s => s) c e1 in
      Some (class_of w_loop_gr o, map (fun x : xevt => fst (fst x)) (execs_of (e_log e')))
  | _ => None
  end.

(* repaired: the nested graph finishes, the loop comes back to it, it starts FRESH (node 4 runs on the
   new input) and interrupts again before node 5 *)
Lemma w_loop_repaired : w_loop_call1 false = Some (cInterrupt, [5; 3; 4]).
Proof. vm_compute; reflexivity. Qed.

(* before the repair the stale nested checkpoint was applied again on every iteration: node 5 runs again
   and again on the input saved at the first interrupt, node 4 never runs, until the step limit *)
Lemma resume_v0_reuses_stale_checkpoint : exists l, w_loop_call1 true = Some (cStepLimit, l) /\
  (List.length (filter (N.eqb 5) l) > 1)%nat /\ filter (N.eqb 4) l = [].
Proof. eexists; split; [vm_compute; reflexivity|]. split; vm_compute; auto. Qed.

(* ---------- F-C05c: eager mode, an interrupt-before hit while a running task then asks for a rerun ---------- *)
Definition w_eager : gspec :=
  Build_gspec (Build_graph [Build_node 0 KLambda None [2; 6] [2; 6] [] [];
                            Build_node 2 KLambda None [3; 5] [3; 5; 6] [] [];
                            Build_node 3 KLambda None [1] [1] [] [];
                            Build_node 5 KLambda None [7] [7; 6] [] [];
                            Build_node 6 KLambda None [1] [1] [] [];
                            Build_node 7 KLambda None [1] [1] [] []] Dag true 0%nat)
              true [2; 3; 6] [(3, [1])] [6] [] [] [].
Definition w_eager_ex := node_exec 1 [w_eager] w_eager.
Definition w_eager_gr := gs_graph w_eager.
Definition x8 : value := VMap [(0, VAtom 8)].

(* two calls under the collection orders [2;5;3] and [7;6;3]; the outcome class of the second *)
Definition w_eager_run (v0 : bool) : option N :=
  match init_chans value w_eager_gr with
  | Ok cs0 =>
    match estart VNil (ifold w_eager_gr) (igetr w_eager_gr) (pre_fn w_eager) w_eager_ex [6] [] v0
                 (seg_fuel w_eager_gr) cs0 (gs0 w_eager) x8 [2; 5; 3] (env0 []) with
    | (OInterrupted _ c, _, e) =>
        let '(o, _, _) := eresume VNil (ifold w_eager_gr) (igetr w_eager_gr) (pre_fn w_eager) w_eager_ex [6] [] v0
                                  (seg_fuel w_eager_gr) (fun s => s) c [7; 6; 3] e in
        Some (class_of w_eager_gr o)
    | _ => None
    end
  | _ => None
  end.

Lemma w_eager_repaired : w_eager_run false = Some cDone.
Proof. vm_compute; reflexivity. Qed.

(* before the repair the tasks created from the completed node were dropped: after the resume node 6
   never becomes ready again and the run dies with "no tasks to execute" *)
Lemma estep_v0_loses_pending_tasks : w_eager_run true = Some cFail.
Proof. vm_compute; reflexivity. Qed.

(* ---------- InterruptAndRerun: node 2 aborts its attempts 1 and 2, node 3 its attempt 1 ---------- *)
Definition w_rerun : gspec :=
  Build_gspec (Build_graph [Build_node 0 KLambda None [2] [2] [] [];
                            Build_node 2 KLambda None [3] [3] [] [];
                            Build_node 3 KLambda None [1] [1] [] []] Pregel false 0%nat)
              true [2; 3] [(2, [1; 2]); (3, [1])] [] [3] [] [].
Definition w_rerun_gr := gs_graph w_rerun.

Lemma w_rerun_ok : rerun_ok w_rerun.
Proof.
  split; [reflexivity|]. intros k l H. simpl in H.
  destruct (N.eqb k 2) eqn:E2; [apply N.eqb_eq in E2; subst; reflexivity|].
  destruct (N.eqb k 3) eqn:E3; [apply N.eqb_eq in E3; subst; reflexivity|discriminate].
Qed.

Lemma w_rerun_uninterrupted : exists cs0 v l,
  init_chans value w_rerun_gr = Ok cs0 /\
  start VNil (ifold w_rerun_gr) (igetr w_rerun_gr) (pre_fn w_rerun)
        (execU (SCP := ncp) (SINFO := ninfo) (lam_body w_rerun)) [] [] 2 cs0 (gs0 w_rerun) x1 tt = (ODone v, l, tt) /\
  List.length l = 2%nat.
Proof. do 3 eexists. split; [vm_compute; reflexivity|]. split; vm_compute; reflexivity. Qed.

(* three interrupted calls (aborted attempts), the fourth completes *)
Lemma w_rerun_completes : exists cos e,
  drive (fun c : cpt => c) (fun c => Some c) (seg_fresh (lam_ex w_rerun) 0 w_rerun x1) (seg_resumed (lam_ex w_rerun) 0 w_rerun)
        (fun _ e => e) true 6 0 (fun _ s => s) None (env0 []) = (cos, e) /\
  map (fun co => class_of w_rerun_gr (co_out co)) cos = [cInterrupt; cInterrupt; cInterrupt; cDone] /\
  List.length (filter (fun ev => ev_abort ev) (all_logs cos)) = 3%nat.
Proof. do 2 eexists. split; [vm_compute; reflexivity|]. split; vm_compute; reflexivity. Qed.
