(* Proofs/GenAgreeC03.v — property C03, translator tie: the programs tools/go2v (extractor "tmcode") reads off the
   methods of taskManager in compose/graph_manager.go on every run (Gen/TaskMgrCode.v) are the programs the hand-off
   LTS (Model/TaskMgr.v) and the composed system (Model/RunHandoff.v) assume (Model/TaskMgrCode.v), and through
   Proofs/TaskMgrCode.v they have the meaning the LTS gives them:

     executor    recover -> (panic: the task's error) -> lock -> push -> top up -> unlock, around the node body;
     submit      the state pre-handlers of all new tasks before any task is started, every task counted before it
                 is started, the rule for the synchronous task (for ALL num, len, needAll);
     wait        needAll -> waitAll, otherwise one waitOne;
     waitOne     nothing outstanding -> none; count down, receive one, top up under the mutex, and only then the
                 error test and the post-handler of a successful task (for ALL states: the guards of the LTS's
                 await / empty events are the code's test);
     waitAll     waitOne until none, every task kept;
     updateChan  first entry offered and removed, a full slot ends the method: for ALL lists and slots one
                 iteration of the loop is the LTS's send / full / fall-through transition of the mutex holder.

   An edit of one of these methods that changes its text in these terms (a merged loop in submit, a conditional or
   dropped top-up in waitOne, a waitAll that stops early, a hook event moved across the action it reports, the last
   entry removed instead of the first ...) makes this file stop compiling even when no generated case reaches it. *)
From Eino Require Import Base.Util Model.TaskMgr Model.TaskMgrCode Model.Confluence Model.RunHandoff Model.TaskMgrSubmit
  Proofs.TaskMgrCode Proofs.TaskMgrSubmit.
From Coq Require Import Permutation.
From Eino Require Gen.TaskMgrCode.

Theorem gen_executor_agrees : Gen.TaskMgrCode.code_executor = model_executor.
Proof. reflexivity. Qed.

Theorem gen_submit_agrees : Gen.TaskMgrCode.code_submit = model_submit.
Proof. reflexivity. Qed.

Theorem gen_sync_cond_agrees : forall num len needAll,
  Gen.TaskMgrCode.code_sync_cond num len needAll = model_sync_cond num len needAll.
Proof. intros [|[|num]] [|[|len]] [|]; reflexivity. Qed.

Theorem gen_wait_agrees : Gen.TaskMgrCode.code_wait = model_wait.
Proof. reflexivity. Qed.

Theorem gen_waitOne_agrees : Gen.TaskMgrCode.code_waitOne = model_waitOne.
Proof. reflexivity. Qed.

Theorem gen_waitone_empty_agrees : forall num, Gen.TaskMgrCode.code_waitone_empty num = model_waitone_empty num.
Proof. intros [|[|num]]; reflexivity. Qed.

Theorem gen_waitAll_agrees : Gen.TaskMgrCode.code_waitAll = model_waitAll.
Proof. reflexivity. Qed.

Theorem gen_updateChan_agrees : forall l d, upd_of Gen.TaskMgrCode.code_updateChan l d = upd_step l d.
Proof. intros [|x xs] [y|]; reflexivity. Qed.

(* initTaskManager / graph.compile: a Graph's task manager waits for all, a Workflow's - and only a Workflow's - for
   one; the hand-off channel has one slot
   (the LTS's [done : option entry]; an unbuffered channel or a wider one is another protocol) *)
Theorem gen_tm_init_agrees :
  (forall eager, needAll_of Gen.TaskMgrCode.code_tm_init eager = negb eager)
  /\ ti_done_cap Gen.TaskMgrCode.code_tm_init = 1
  /\ ti_eager_iff_workflow Gen.TaskMgrCode.code_tm_init = true.
Proof. split; [intros [|]|split]; reflexivity. Qed.

(* ---- what the regenerated programs mean in the LTS ---- *)

(* waitOne as translated: its entry is the guard of the checker's await / empty events, in every state *)
Theorem gen_waitone_entry_is_lts : forall s, cp s = CIdle ->
  exec_ev s EvAwait =
    (if Gen.TaskMgrCode.code_waitone_empty (num s) then None else Some (await_st s (Nat.pred (num s))))
  /\ exec_ev s EvEmpty = (if Gen.TaskMgrCode.code_waitone_empty (num s) then Some s else None).
Proof.
  intros s Hc. rewrite gen_waitone_empty_agrees. exact (waitone_entry s Hc).
Qed.

(* updateChan as translated, run by an executor that holds the mutex / by the collector: every iteration is a
   transition of the LTS, for every list and slot *)
Theorem gen_updateChan_is_lts_exec : forall s t b,
  lock s = HExec t -> get_pc t (epcs s) = Some (ETop, b) ->
  match upd_of Gen.TaskMgrCode.code_updateChan (l s) (done s) with
  | USent xs x => step s (mk xs (Some x) (lock s) (epcs s) (cp s) (num s) (collected s))
  | UFull => step s (mk (l s) (done s) (lock s) (set_st t EOut (epcs s)) (cp s) (num s) (collected s))
  | UDone => step s (mk (l s) (done s) HNone (set_st t EDone (epcs s)) (cp s) (num s) (collected s))
  | _ => False
  end.
Proof. intros s t b Hl Hp. rewrite gen_updateChan_agrees. exact (upd_step_exec s t b Hl Hp). Qed.

Theorem gen_updateChan_is_lts_coll : forall s x,
  cp s = CTop x ->
  match upd_of Gen.TaskMgrCode.code_updateChan (l s) (done s) with
  | USent ys y => step s (mk ys (Some y) (lock s) (epcs s) (cp s) (num s) (collected s))
  | UFull => step s (mk (l s) (done s) (lock s) (epcs s) (CFull x) (num s) (collected s))
  | UDone => step s (mk (l s) (done s) HNone (epcs s) CIdle (num s) (x :: collected s))
  | _ => False
  end.
Proof. intros s x Hc. rewrite gen_updateChan_agrees. exact (upd_step_coll s x Hc). Qed.

(* the hook events of waitOne as translated, in program order, take the collector once round its cycle and the
   checker accepts each of them in that position only *)
Theorem gen_waitOne_cycle_is_lts : forall s e s' i,
  exec_ev s e = Some s' -> nth_error (trace_of Gen.TaskMgrCode.code_waitOne) i = Some (tk_of e) ->
  cpos (cp s) = Some i /\ cpos (cp s') = Some (Nat.modulo (S i) 4).
Proof. rewrite gen_waitOne_agrees. exact collector_cycle. Qed.

(* submit as translated: no task is started before the last pre-handler has run (so a failing pre-handler returns
   with nothing of the step started: Model/RunHandoff.v [enter]); every start is counted and logged first *)
Theorem gen_submit_pre_first :
  all_before is_pre is_start Gen.TaskMgrCode.code_submit = true.
Proof. rewrite gen_submit_agrees. exact submit_pre_first. Qed.

(* waitOne as translated: receive, then top up, then the post-handler; the hook's log-order discipline *)
Theorem gen_waitOne_order :
  all_before is_recv is_topup Gen.TaskMgrCode.code_waitOne = true
  /\ all_before is_topup is_post Gen.TaskMgrCode.code_waitOne = true
  /\ discipline Gen.TaskMgrCode.code_waitOne = true.
Proof. rewrite gen_waitOne_agrees. split; [|split]; reflexivity. Qed.

Theorem gen_sync_only_when_idle : forall num len needAll,
  Gen.TaskMgrCode.code_sync_cond num len needAll = true -> num = 0 /\ (len = 1 \/ needAll = true).
Proof. intros num len needAll. rewrite gen_sync_cond_agrees. apply sync_cond_idle. Qed.

(* the hook events of executor's deferred function as translated, in program order, take the task through its stages *)
Theorem gen_executor_cycle_is_lts : forall s e s' i t,
  exec_ev s e = Some s' -> ev_task e = Some t ->
  nth_error (match Gen.TaskMgrCode.code_executor with [_; ADefer b; _; _] => trace_of b | _ => [] end) i = Some (tk_of e) ->
  spos (get_pc t (epcs s)) = Some i /\ spos (get_pc t (epcs s')) = Some (S i).
Proof. rewrite gen_executor_agrees. exact executor_cycle. Qed.

(* submit as translated, with the rule for the synchronous task as translated, run by the interpreter of
   Model/TaskMgrSubmit.v: for EVERY list of new tasks, every number of outstanding tasks, either mode - a failing
   pre-handler: the error, nothing started, nothing counted; otherwise every task started once and counted, every
   pre-handler run once before the first start, the first task on the run loop's goroutine when the rule fires *)
Theorem gen_submit_spec : forall needAll ts num s,
  s = run Gen.TaskMgrCode.code_sync_cond needAll Gen.TaskMgrCode.code_submit (x_init ts num) ->
  if existsb bad ts
  then x_ret s = Some true /\ x_started s = [] /\ x_num s = num
  else x_ret s = Some false /\ x_num s = num + List.length ts /\ x_pre s = filter sk_pre ts /\
       x_started s = match ts with
                     | [] => []
                     | t :: r => if Gen.TaskMgrCode.code_sync_cond num (List.length ts) needAll
                                 then map (fun u => (u, false)) r ++ [(t, true)]
                                 else map (fun u => (u, false)) ts
                     end.
Proof. intros needAll ts num s. rewrite gen_submit_agrees. apply submit_spec. Qed.

(* ... which is the hand-over of the composed system: the tasks the translated submit starts are, up to order, the
   tasks [enter] leaves to be handed over - none, and the run returns the failure, when a pre-handler fails *)
Theorem gen_submit_is_enter : forall needAll pre_of n ch rest ts col log f num s,
  s = run Gen.TaskMgrCode.code_sync_cond needAll Gen.TaskMgrCode.code_submit (x_init (map (sk_of pre_of) ts) num) ->
  let r := enter needAll n ch rest ts col log (S f) in
  Permutation (map (fun p => sk_id (fst p)) (x_started s)) (map (fun x => N.to_nat (tid x)) (r_exp r))
  /\ x_num s = num + List.length (r_exp r)
  /\ (x_ret s = Some true <-> r_res r = Some OFail).
Proof. intros needAll pre_of n ch rest ts col log f num s. rewrite gen_submit_agrees. apply submit_is_enter. Qed.

Example gen_submit_nonvacuous :
  let ts := [mkstk 3 true false; mkstk 4 true true; mkstk 5 false false] in
  let ok := [mkstk 3 true false; mkstk 4 false false] in
  x_started (run Gen.TaskMgrCode.code_sync_cond true Gen.TaskMgrCode.code_submit (x_init ts 0)) = []
  /\ x_ret (run Gen.TaskMgrCode.code_sync_cond true Gen.TaskMgrCode.code_submit (x_init ts 0)) = Some true
  /\ x_started (run Gen.TaskMgrCode.code_sync_cond true Gen.TaskMgrCode.code_submit (x_init ok 0))
     = [(mkstk 4 false false, false); (mkstk 3 true false, true)].
Proof. vm_compute. repeat split; reflexivity. Qed.

(* non-vacuity: a state in which the translated updateChan sends, one in which it gives up, one in which it ends *)
Example gen_updateChan_nonvacuous :
  upd_of Gen.TaskMgrCode.code_updateChan [(3%N, false); (4%N, true)] None = USent [(4%N, true)] (3%N, false)
  /\ upd_of Gen.TaskMgrCode.code_updateChan [(4%N, true)] (Some (3%N, false)) = UFull
  /\ upd_of Gen.TaskMgrCode.code_updateChan [] (Some (3%N, false)) = UDone.
Proof. repeat split; reflexivity. Qed.

Example gen_waitone_entry_nonvacuous :
  exec_ev (mk [] None HNone [(3%N, (ERun, BOk))] CIdle 1 []) EvAwait
    = Some (mk [] None HNone [(3%N, (ERun, BOk))] CWait 0 [])
  /\ Gen.TaskMgrCode.code_waitone_empty 1 = false /\ Gen.TaskMgrCode.code_waitone_empty 0 = true.
Proof. repeat split; reflexivity. Qed.
