(* Proofs/ChainLowerReject.v — property C01: the other direction of Proofs/ChainLowerModel.v. The chain lowering
   code of compose/chain.go (Model/ChainLowerSpec.v, on the model's node lists) reports an error for every chain
   that [chain_compiles] of Model/ChainCompile.v rejects — nothing appended, a Parallel / Branch of fewer than two
   nodes or after several previous nodes, a missing or duplicated output key, a node key used twice or equal to
   START / END — because an error, once reported, sticks (reportError keeps the first, addNode returns at once,
   the other methods only add to it) and the first broken rule is reported from a state in which nothing failed:
     *_sticky, compile_errd      an error stays; Compile then fails
     node_dup_errs, par_fails, branch_fails   one Append* call on a good state with its rule broken
     reject_stages               by induction over the stages
     li_compile_rejects, li_compile_decides   li_compile = if chain_compiles then chain_lower else None *)
From Eino Require Import Base.Util Model.Graph Model.Chain Model.ChainSpec Model.ChainCompile Model.ImpGenLib Model.ChainGenLib Model.ChainLowerSpec Model.ChainLowerInst.
From Eino Require Import Proofs.PregelBase Proofs.PregelChainLower Proofs.PregelChainCompile Proofs.ChainLowerModel.
From Coq Require Import Lia.
Open Scope N_scope.

Definition errd (c : chain_st (list node)) : Prop := is_some (ch_err c) = true.

Lemma report_sticky : forall c e, errd c -> chain_reportError (list node) c e = c.
Proof. intros c e H. unfold chain_reportError, errd in *. destruct (ch_err c); [reflexivity|discriminate]. Qed.

Lemma report_errs : forall c e, errd (chain_reportError (list node) c (Some e)).
Proof. intros c e. unfold chain_reportError, errd. destruct (ch_err c) eqn:E; simpl; [rewrite E; reflexivity|reflexivity]. Qed.

Lemma errd_set_g : forall c g, errd (ch_set_g c g) <-> errd c.
Proof. intros; reflexivity. Qed.

Lemma nodupb_false : forall l, nodupb l = false -> ~ NoDup l.
Proof. intros l H Hn. apply NoDup_nodupb in Hn. congruence. Qed.

Lemma nodup_snoc_key : forall (l : list key) x, NoDup l -> ~ In x l -> NoDup (l ++ [x]).
Proof.
  intros l x H Hn. induction H as [|y l Hy H IH]; simpl.
  - constructor; [intros []|constructor].
  - constructor.
    + rewrite in_app_iff. simpl. intros [H1|[H1|[]]]; [exact (Hy H1)|]. subst. apply Hn. left. reflexivity.
    + apply IH. intros H1. apply Hn. right. exact H1.
Qed.

Section R.
  Variable auto_key : string -> list fmt_arg -> key.
  Variable k_empty : key.

  Notation PAR_ADD := (par_add (list node) li_GN key li_PR (fun _ => li_err) auto_key k_empty li_add_node li_add_edge (fun k => k)
                               (fun _ => true) (fun _ => true) fst snd).
  Notation BR_ADD := (br_add (list node) li_GN key li_PR (fun _ => li_err) auto_key k_empty (li_zero k_empty) li_add_node (fun k => k)
                             (fun _ => true) (fun _ => true) fst snd).

  (* ------------------------------------------------------------ an error, once reported, stays *)
  Lemma addNode_sticky : forall c s, errd c -> li_addNode auto_key k_empty c s = c.
  Proof. intros c s H. unfold li_addNode, chain_addNode. unfold errd in H. rewrite H. reflexivity. Qed.

  Lemma par_add_sticky : forall nodes c start prefix j acc,
    errd c -> errd (fst (fst (PAR_ADD c start prefix j nodes acc))).
  Proof.
    induction nodes as [|node nodes IH]; intros c start prefix j acc H; simpl; [exact H|].
    destruct (li_add_node (ch_g c) _ (fst node) (snd node)) as [g err]. destruct (is_some err).
    - simpl. rewrite report_sticky; exact H.
    - simpl ch_g. unfold li_add_edge at 1. simpl is_some. cbv iota. apply IH. exact H.
  Qed.

  Lemma AppendParallel_sticky : forall c ss, errd c -> errd (li_AppendParallel auto_key k_empty c ss).
  Proof.
    intros c ss H. unfold li_AppendParallel, chain_AppendParallel. simpl.
    destruct (is_some (li_par_err (map li_pair ss))); [rewrite report_sticky; exact H|].
    destruct (Nat.leb (List.length (map li_pair ss)) 1); [rewrite report_sticky; exact H|].
    destruct (start_node (list node) c) as [st|]; [|rewrite report_sticky; exact H].
    pose proof (par_add_sticky (map li_pair ss) (ch_set_idx c (S (ch_idx c))) st
                  (auto_key "node_%d"%string [fa_nat (ch_idx c)]) 0%nat [] H) as Hp.
    unfold chain_nextNodeKey.
    destruct (PAR_ADD (ch_set_idx c (S (ch_idx c))) st (auto_key "node_%d"%string [fa_nat (ch_idx c)]) 0%nat (map li_pair ss) []) as [[c2 keys] failed].
    simpl in Hp. destruct failed; exact Hp.
  Qed.

  Lemma br_add_sticky : forall keys c prefix all k2n,
    errd c -> errd (fst (fst (BR_ADD c prefix all keys k2n))).
  Proof.
    induction keys as [|bk keys IH]; intros c prefix all k2n H; simpl; [exact H|].
    destruct (li_add_node (ch_g c) _ (fst (bn_get (li_zero k_empty) all bk)) (snd (bn_get (li_zero k_empty) all bk))) as [g err].
    destruct (is_some err).
    - simpl. rewrite report_sticky; exact H.
    - apply IH. exact H.
  Qed.

  Lemma AppendBranch_sticky : forall c ss table, errd c -> errd (li_AppendBranch auto_key k_empty c ss table).
  Proof.
    intros c ss table H. unfold li_AppendBranch, chain_AppendBranch. simpl fst. simpl is_some. cbv iota.
    destruct (Nat.eqb _ 0); [rewrite report_sticky; exact H|].
    destruct (Nat.eqb _ 1); [rewrite report_sticky; exact H|].
    destruct (start_node (list node) c) as [st|]; [|rewrite report_sticky; exact H].
    unfold chain_nextNodeKey.
    pose proof (br_add_sticky (bn_keys (map (fun s => (sn_key s, li_pair s)) ss)) (ch_set_idx c (S (ch_idx c)))
                  (auto_key "node_%d"%string [fa_nat (ch_idx c)]) (map (fun s => (sn_key s, li_pair s)) ss) km_empty H) as Hp.
    destruct (BR_ADD (ch_set_idx c (S (ch_idx c))) (auto_key "node_%d"%string [fa_nat (ch_idx c)])
                     (map (fun s => (sn_key s, li_pair s)) ss) (bn_keys (map (fun s => (sn_key s, li_pair s)) ss)) km_empty) as [[c2 k2n] failed].
    simpl in Hp. destruct failed; [exact Hp|].
    unfold li_add_branch. simpl is_some. cbv iota. exact Hp.
  Qed.

  Lemma stage_sticky : forall c st, errd c -> errd (li_stage auto_key k_empty c st).
  Proof.
    intros c [s|ss|ss table] H; simpl.
    - rewrite addNode_sticky; exact H.
    - apply AppendParallel_sticky, H.
    - apply AppendBranch_sticky, H.
  Qed.

  Lemma stages_sticky : forall rest c, errd c -> errd (fold_left (li_stage auto_key k_empty) rest c).
  Proof. induction rest as [|st rest IH]; intros c H; simpl; [exact H|]. apply IH, stage_sticky, H. Qed.

  Lemma compile_errd : forall sts max, errd (fold_left (li_stage auto_key k_empty) sts li_init) -> li_compile auto_key k_empty sts max = None.
  Proof.
    intros sts max H. unfold li_compile, chain_addEndIfNeeded. unfold errd in H. rewrite H.
    destruct (ch_err (fold_left (li_stage auto_key k_empty) sts li_init)); [reflexivity|discriminate].
  Qed.

  (* ------------------------------------------------------------ a broken rule is reported *)
  Lemma node_dup_errs : forall s ns i prev,
    sn_key s <> k_empty -> In (sn_key s) (kEND :: map n_key ns) ->
    errd (li_addNode auto_key k_empty (mkc ns i prev) s).
  Proof.
    intros s ns i prev Hk Hin. unfold li_addNode, chain_addNode. simpl.
    unfold key_eqb. apply N.eqb_neq in Hk. rewrite Hk. unfold li_add_node. apply memb_in in Hin. rewrite Hin. simpl.
    apply report_errs.
  Qed.

  Lemma par_add_dup : forall ss ns i prev start prefix j acc,
    NoDup (kEND :: map n_key ns) ->
    ~ In k_empty (map sn_key ss) ->
    ~ NoDup (kEND :: map n_key ns ++ map sn_key ss) ->
    let r := PAR_ADD (mkc ns i prev) start prefix j (map li_pair ss) acc in
    errd (fst (fst r)) /\ snd r = true.
  Proof.
    induction ss as [|s ss IH]; intros ns i prev start prefix j acc Hnd Hk Hdup; simpl.
    - exfalso. apply Hdup. simpl. rewrite app_nil_r. exact Hnd.
    - unfold own_key. simpl.
      assert (Hk1 : key_eqb (sn_key s) k_empty = false).
      { unfold key_eqb. apply N.eqb_neq. intros E. apply Hk. left. exact E. }
      rewrite Hk1. simpl.
      destruct (li_add_node ns (sn_key s) (sn_kind s, sn_outkey s) (sn_key s)) as [g err] eqn:E.
      unfold li_add_node in E.
      destruct (memb (sn_key s) (kEND :: map n_key ns)) eqn:Hm; inversion E; subst; simpl.
      + split; [apply report_errs|reflexivity].
      + change (li_mk_node (sn_key s) (sn_kind s, sn_outkey s)) with (node_of s).
        match goal with |- context [par_add _ _ _ _ _ _ _ _ _ _ _ _ _ _ ?c _ _ _ _ _] =>
          change c with (mkc (add_edge start (sn_key s) (ns ++ [node_of s])) i prev) end.
        apply memb_false in Hm.
        apply IH.
        * rewrite keys_add_edge, map_app. simpl.
          change (kEND :: map n_key ns ++ [sn_key s]) with ((kEND :: map n_key ns) ++ [sn_key s]).
          apply nodup_snoc_key; assumption.
        * intros H. apply Hk. right. exact H.
        * rewrite keys_add_edge, map_app. simpl. rewrite <- app_assoc. exact Hdup.
  Qed.

  Lemma start_node_multi : forall ns i prev, Nat.leb 2 (List.length prev) = true -> start_node (list node) (mkc ns i prev) = None.
  Proof. intros ns i [|a [|b r]] H; simpl in H; try discriminate. reflexivity. Qed.

  Lemma start_node_single : forall ns i prev, Nat.leb 2 (List.length prev) = false -> exists p, start_node (list node) (mkc ns i prev) = Some p /\ single_prev prev = Some p.
  Proof.
    intros ns i [|a [|b r]] H; simpl in H; try discriminate.
    - exists kSTART. split; reflexivity.
    - exists a. split; reflexivity.
  Qed.

  (* AppendParallel reports an error when the rule for a Parallel stage is broken *)
  Lemma par_fails : forall ss ns i prev,
    NoDup (kEND :: map n_key ns) ->
    ~ In k_empty (map sn_key ss) ->
    (negb (Nat.leb 2 (List.length prev)) && par_ok ss && nodupb (kEND :: map n_key ns ++ map sn_key ss)) = false ->
    errd (li_AppendParallel auto_key k_empty (mkc ns i prev) ss).
  Proof.
    intros ss ns i prev Hnd Hk Hf. unfold li_AppendParallel, chain_AppendParallel. cbv beta iota.
    destruct (is_some (li_par_err (map li_pair ss))) eqn:E1; [apply report_errs|].
    destruct (Nat.leb (List.length (map li_pair ss)) 1) eqn:E2; [apply report_errs|].
    destruct (Nat.leb 2 (List.length prev)) eqn:E3.
    { rewrite (start_node_multi ns i prev E3). apply report_errs. }
    destruct (start_node_single ns i prev E3) as [p [Hp _]]. rewrite Hp.
    assert (Hok : par_ok ss = true).
    { unfold par_ok. rewrite map_length in E2. apply Nat.leb_gt in E2. apply andb_true_iff. split; [apply Nat.leb_le; lia|].
      unfold li_par_err in E1. rewrite snode_eta in E1. destruct (par_outkeys ss) as [ks|]; [|discriminate].
      destruct (nodupb ks); [reflexivity|discriminate]. }
    rewrite Hok in Hf. cbn [negb andb] in Hf.
    unfold chain_nextNodeKey. simpl ch_idx. change (ch_set_idx (mkc ns i prev) (S i)) with (mkc ns (S i) prev).
    destruct (par_add_dup ss ns (S i) prev p (auto_key "node_%d"%string [fa_nat i]) 0%nat [] Hnd Hk (nodupb_false _ Hf)) as [H1 H2].
    destruct (PAR_ADD (mkc ns (S i) prev) p (auto_key "node_%d"%string [fa_nat i]) 0%nat (map li_pair ss) []) as [[c2 keys] failed].
    simpl in H1, H2. subst failed. exact H1.
  Qed.

  Lemma bn_get_key : forall ss_all bk, In bk (map sn_key ss_all) ->
    exists s', bn_get (li_zero k_empty) (map (fun s => (sn_key s, li_pair s)) ss_all) bk = li_pair s' /\ sn_key s' = bk.
  Proof.
    intros ss_all bk. unfold bn_get. induction ss_all as [|s0 ss_all IH]; simpl; intros H; [contradiction|].
    destruct (N.eqb bk (sn_key s0)) eqn:E.
    - exists s0. split; [reflexivity|]. apply N.eqb_eq in E. symmetry. exact E.
    - apply IH. destruct H as [H|H]; [apply N.eqb_neq in E; congruence|exact H].
  Qed.

  Lemma br_add_dup : forall ss_all keys ns i prev prefix k2n,
    (forall k, In k keys -> In k (map sn_key ss_all)) ->
    NoDup (kEND :: map n_key ns) ->
    ~ In k_empty keys ->
    ~ NoDup (kEND :: map n_key ns ++ keys) ->
    let r := BR_ADD (mkc ns i prev) prefix (map (fun s => (sn_key s, li_pair s)) ss_all) keys k2n in
    errd (fst (fst r)) /\ snd r = true.
  Proof.
    intros ss_all keys. induction keys as [|bk keys IH]; intros ns i prev prefix k2n Hsub Hnd Hk Hdup; simpl.
    - exfalso. apply Hdup. simpl. rewrite app_nil_r. exact Hnd.
    - destruct (bn_get_key ss_all bk (Hsub bk (or_introl eq_refl))) as [s' [Hg Hs']]. rewrite Hg. unfold own_key. simpl.
      rewrite Hs'.
      assert (Hk1 : key_eqb bk k_empty = false).
      { unfold key_eqb. apply N.eqb_neq. intros E. apply Hk. left. exact E. }
      rewrite Hk1. simpl.
      destruct (li_add_node ns bk (sn_kind s', sn_outkey s') bk) as [g err] eqn:E.
      unfold li_add_node in E.
      destruct (memb bk (kEND :: map n_key ns)) eqn:Hm; inversion E; subst g err; simpl.
      + split; [apply report_errs|reflexivity].
      + match goal with |- context [br_add _ _ _ _ _ _ _ _ _ _ _ _ _ _ ?c _ _ _ _] =>
          change c with (mkc (ns ++ [li_mk_node bk (sn_kind s', sn_outkey s')]) i prev) end.
        apply memb_false in Hm.
        apply IH.
        * intros k H. apply Hsub. right. exact H.
        * rewrite map_app. simpl.
          change (kEND :: map n_key ns ++ [bk]) with ((kEND :: map n_key ns) ++ [bk]).
          apply nodup_snoc_key; assumption.
        * intros H. apply Hk. right. exact H.
        * rewrite map_app. simpl. rewrite <- app_assoc. exact Hdup.
  Qed.

  Lemma branch_fails : forall ss table ns i prev,
    NoDup (kEND :: map n_key ns) ->
    ~ In k_empty (map sn_key ss) ->
    (negb (Nat.leb 2 (List.length prev)) && Nat.leb 2 (List.length ss) && nodupb (kEND :: map n_key ns ++ map sn_key ss)) = false ->
    errd (li_AppendBranch auto_key k_empty (mkc ns i prev) ss table).
  Proof.
    intros ss table ns i prev Hnd Hk Hf. unfold li_AppendBranch, chain_AppendBranch. simpl fst. simpl is_some. cbv iota.
    rewrite map_length.
    destruct (Nat.eqb (List.length ss) 0) eqn:E0; [apply report_errs|].
    destruct (Nat.eqb (List.length ss) 1) eqn:E1; [apply report_errs|].
    destruct (Nat.leb 2 (List.length prev)) eqn:E3.
    { rewrite (start_node_multi ns i prev E3). apply report_errs. }
    destruct (start_node_single ns i prev E3) as [p [Hp _]]. rewrite Hp.
    assert (Hl : Nat.leb 2 (List.length ss) = true).
    { apply Nat.eqb_neq in E0. apply Nat.eqb_neq in E1. apply Nat.leb_le. lia. }
    rewrite Hl in Hf. cbn [negb andb] in Hf.
    unfold chain_nextNodeKey. simpl ch_idx. change (ch_set_idx (mkc ns i prev) (S i)) with (mkc ns (S i) prev).
    unfold bn_keys. rewrite map_map. simpl fst.
    destruct (br_add_dup ss (map sn_key ss) ns (S i) prev (auto_key "node_%d"%string [fa_nat i]) km_empty
                (fun k H => H) Hnd Hk (nodupb_false _ Hf)) as [H1 H2].
    match goal with |- context [br_add ?a ?b ?c ?d ?e ?f ?g ?h ?i0 ?j ?k ?l ?m ?n ?o ?p0 ?q ?r ?s0] =>
      destruct (br_add a b c d e f g h i0 j k l m n o p0 q r s0) as [[c2 k2n] failed] end.
    simpl in H1, H2. subst failed. exact H1.
  Qed.

  Lemma nodupb_app_split : forall (a l b : list key),
    nodupb (kEND :: a ++ l ++ b) = true -> nodupb (kEND :: a ++ l) = true.
  Proof. intros a l b H. apply NoDup_nodupb. apply nodupb_NoDup in H. apply (nodup_front a l b). exact H. Qed.

  (* from a state in which nothing has failed: if the remaining stages break a rule, an error is reported *)
  Lemma reject_stages : forall rest ns i prev,
    NoDup (kEND :: map n_key ns) ->
    ~ In k_empty (chain_all_keys rest) ->
    (stages_compile (Nat.leb 2 (List.length prev)) rest && nodupb (kEND :: map n_key ns ++ chain_all_keys rest)) = false ->
    errd (fold_left (li_stage auto_key k_empty) rest (mkc ns i prev)).
  Proof.
    induction rest as [|st rest IH]; intros ns i prev Hnd Hk Hf.
    - exfalso. simpl in Hf. unfold chain_all_keys in Hf. simpl in Hf. rewrite app_nil_r in Hf.
      apply NoDup_nodupb in Hnd. simpl in Hnd. rewrite Hnd in Hf. discriminate.
    - unfold chain_all_keys in Hk, Hf. simpl flat_map in Hk, Hf. fold (chain_all_keys rest) in Hk, Hf.
      simpl fold_left.
      destruct (nodupb (kEND :: map n_key ns ++ map sn_key (stage_snodes st))) eqn:Hhead.
      2:{ (* a key of this stage is already taken *)
        apply stages_sticky. destruct st as [s|ss|ss table]; simpl stage_snodes in *; simpl li_stage.
        - apply node_dup_errs; [intros E; apply Hk; left; exact E|].
          simpl map in Hhead. apply nodupb_false in Hhead.
          destruct (in_dec N.eq_dec (sn_key s) (kEND :: map n_key ns)) as [Hin|Hin]; [exact Hin|].
          exfalso. apply Hhead. change (kEND :: map n_key ns ++ [sn_key s]) with ((kEND :: map n_key ns) ++ [sn_key s]).
          apply nodup_snoc_key; assumption.
        - apply par_fails; [exact Hnd|intros H; apply Hk; apply in_or_app; left; exact H|].
          rewrite Hhead. apply andb_false_r.
        - apply branch_fails; [exact Hnd|intros H; apply Hk; apply in_or_app; left; exact H|].
          rewrite Hhead. apply andb_false_r. }
      apply nodupb_NoDup in Hhead.
      destruct st as [s|ss|ss table]; cbn [stages_compile] in Hf; simpl stage_snodes in *; simpl li_stage.
      + (* node *)
        simpl map in Hhead, Hk, Hf.
        assert (Hk1 : sn_key s <> k_empty) by (intros E; apply Hk; left; exact E).
        assert (Hn1 : ~ In (sn_key s) (kEND :: map n_key ns)).
        { intros Hin. change (kEND :: map n_key ns ++ [sn_key s]) with ((kEND :: map n_key ns) ++ [sn_key s]) in Hhead.
          apply (NoDup_app_disj _ _ (sn_key s) Hhead Hin). left. reflexivity. }
        rewrite (step_node auto_key k_empty s ns i prev Hk1 Hn1).
        apply IH.
        * rewrite keys_fold_add_edge, map_app. simpl map. exact Hhead.
        * intros H. apply Hk. right. exact H.
        * simpl List.length. simpl Nat.leb. rewrite keys_fold_add_edge, map_app. simpl map. rewrite <- app_assoc. exact Hf.
      + (* parallel *)
        destruct (negb (Nat.leb 2 (List.length prev)) && par_ok ss) eqn:Hloc.
        2:{ apply stages_sticky. apply par_fails; [exact Hnd|intros H; apply Hk; apply in_or_app; left; exact H|].
            rewrite Hloc. reflexivity. }
        apply andb_true_iff in Hloc. destruct Hloc as [Hm Hok]. apply negb_true_iff in Hm.
        destruct (start_node_single ns i prev Hm) as [p [_ Hp]].
        rewrite (step_par auto_key k_empty ss ns i prev p Hp Hok Hhead) by (intros H; apply Hk; apply in_or_app; left; exact H).
        apply IH.
        * rewrite keys_fold_par. exact Hhead.
        * intros H. apply Hk. apply in_or_app. right. exact H.
        * cbn [negb andb] in Hf.
          assert (Hl : Nat.leb 2 (List.length (map sn_key ss)) = true).
          { rewrite map_length. unfold par_ok in Hok. apply andb_true_iff in Hok. tauto. }
          rewrite Hl, keys_fold_par, <- app_assoc. exact Hf.
      + (* branch *)
        destruct (negb (Nat.leb 2 (List.length prev)) && Nat.leb 2 (List.length ss)) eqn:Hloc.
        2:{ apply stages_sticky. apply branch_fails; [exact Hnd|intros H; apply Hk; apply in_or_app; left; exact H|].
            rewrite Hloc. reflexivity. }
        apply andb_true_iff in Hloc. destruct Hloc as [Hm Hlen]. apply negb_true_iff in Hm.
        destruct (start_node_single ns i prev Hm) as [p [_ Hp]].
        rewrite (step_branch auto_key k_empty ss table ns i prev p Hp Hlen Hhead) by (intros H; apply Hk; apply in_or_app; left; exact H).
        assert (Hkeys : map n_key (add_branch p {| b_ends := map sn_key ss; b_nodata := false; b_table := table |} (ns ++ map node_of ss))
                        = map n_key ns ++ map sn_key ss).
        { rewrite keys_add_branch, map_app, map_map. f_equal. }
        apply IH.
        * rewrite Hkeys. exact Hhead.
        * intros H. apply Hk. apply in_or_app. right. exact H.
        * cbn [negb andb] in Hf.
          rewrite map_length, Hlen, Hkeys, <- app_assoc. exact Hf.
  Qed.

  Theorem li_compile_rejects : forall sts max,
    ~ In k_empty (chain_all_keys sts) ->
    chain_compiles sts = false ->
    li_compile auto_key k_empty sts max = None.
  Proof.
    intros sts max Hk Hc. unfold chain_compiles in Hc.
    destruct sts as [|st sts]; [reflexivity|]. cbn [andb] in Hc.
    apply compile_errd. change li_init with (mkc [Model.Chain.start_node] 0 []).
    apply reject_stages.
    - simpl. constructor; [intros [H|[]]; discriminate|constructor; [intros []|constructor]].
    - exact Hk.
    - simpl List.length. simpl Nat.leb. simpl map.
      destruct (stages_compile false (st :: sts)); [|reflexivity]. rewrite andb_true_r in Hc. cbn [andb].
      destruct (nodupb (kEND :: [kSTART] ++ chain_all_keys (st :: sts))) eqn:E; [|reflexivity].
      exfalso. apply nodupb_NoDup in E. simpl in E.
      assert (Hn : NoDup (kSTART :: kEND :: chain_all_keys (st :: sts))).
      { inversion E as [|? ? He Hrest]; subst. inversion Hrest as [|? ? Hs Hkeys]; subst.
        constructor.
        - intros [H|H]; [apply He; left; symmetry; exact H|apply Hs; simpl in H; exact H].
        - constructor; [|simpl; exact Hkeys]. intros H. apply He. right. simpl in H. exact H. }
      apply NoDup_nodupb in Hn. rewrite Hn in Hc. discriminate.
  Qed.

  (* both directions: the lowering code accepts exactly the chains chain_compiles accepts, and builds chain_lower *)
  Theorem li_compile_decides : forall sts max,
    ~ In k_empty (chain_all_keys sts) ->
    li_compile auto_key k_empty sts max = if chain_compiles sts then chain_lower sts max else None.
  Proof.
    intros sts max Hk. destruct (chain_compiles sts) eqn:E.
    - apply li_compile_is_chain_lower; assumption.
    - apply li_compile_rejects; assumption.
  Qed.
End R.
