(* Proofs/ErrorsFwd.v — property C13, part 3: panics and the stream forwarders.
   (1) the forwarding goroutines (schema/stream.go toStream of convert readers and copy children,
       used by every merge) turn a panic of the stream they read into an error item: behind a
       merge no lazily panicking stream is left, and the panic's payload is still there;
   (2) globally: whatever panics in node bodies and tool calls (at any nesting depth, in any
       paradigm, with any number of parallel failures), no panic reaches the caller of the run —
       the only way a panic can leave a run is a stream, made by a node, whose own convert
       function panics on the goroutine of whoever reads it (BConvPanic / TConvPanic). *)
From Eino Require Import Base.Util Model.Errors Proofs.Errors Proofs.ErrorsRun.

Definition no_lazy (its : list item) : Prop := existsb is_lazy its = false.

Lemma no_lazy_app : forall a b, no_lazy (a ++ b) <-> no_lazy a /\ no_lazy b.
Proof. intros a b. unfold no_lazy. rewrite existsb_app, orb_false_iff. tauto. Qed.

Lemma no_lazy_In : forall its it, no_lazy its -> In it its -> is_lazy it = false.
Proof.
  intros its it H Hin. destruct (is_lazy it) eqn:E; [|reflexivity].
  unfold no_lazy in H. assert (X : existsb is_lazy its = true) by (apply existsb_exists; eauto).
  rewrite X in H. discriminate.
Qed.

Lemma no_lazy_first : forall its, no_lazy its -> first_lazy its = None.
Proof.
  induction its as [|[e|i] its IH]; intros H; cbn in *; auto. discriminate.
Qed.

(* ------------------------------------------------------------------ (1) forwarders *)

Lemma forwarded_not_lazy : forall it, is_lazy (forwarded it) = false.
Proof. destruct it; reflexivity. Qed.

Lemma map_forwarded_no_lazy : forall its, no_lazy (map forwarded its).
Proof.
  unfold no_lazy. induction its as [|it its IH]; cbn; [reflexivity|].
  rewrite forwarded_not_lazy. exact IH.
Qed.

(* a merge of two or more streams: nothing that panics when read comes out of it *)
Lemma fanin_contains_lemma : forall m its, (2 <= m)%nat -> no_lazy (fanin m its).
Proof.
  intros m its Hm. destruct m as [|[|m]]; try lia. cbn [fanin]. apply map_forwarded_no_lazy.
Qed.

(* ... the panic is an error item carrying the payload ... *)
Lemma fanin_panic_item_lemma : forall m its i, (2 <= m)%nat -> In (ILazy i) its ->
  In (IErr (PanicErr i)) (fanin m its).
Proof.
  intros m its i Hm Hin. destruct m as [|[|m]]; try lia. cbn [fanin].
  change (IErr (PanicErr i)) with (forwarded (ILazy i)). apply in_map. exact Hin.
Qed.

(* ... and error items are handed on as they are (any number of predecessors) *)
Lemma fanin_keeps_items_lemma : forall m its e, In (IErr e) its -> In (IErr e) (fanin m its).
Proof.
  intros m its e Hin. destruct m as [|[|m]]; cbn [fanin]; auto.
  change (IErr e) with (forwarded (IErr e)). apply in_map. exact Hin.
Qed.

Lemma fanin_no_lazy : forall m its, no_lazy its -> no_lazy (fanin m its).
Proof.
  intros m its H. destruct m as [|[|m]]; cbn [fanin]; auto. apply map_forwarded_no_lazy.
Qed.

Lemma fanout_no_lazy : forall n its, no_lazy its -> no_lazy (fanout n its).
Proof.
  intros n its H. destruct n as [|[|n]]; cbn [fanout]; auto. apply map_forwarded_no_lazy.
Qed.

(* a stream copied for two or more readers: whatever the source does, no copy panics when read;
   the panic of the source is an error item (with the payload) on every copy, and what the source
   holds otherwise is handed on (repair of F-C13d) *)
Lemma fanout_contains_lemma : forall n its, (2 <= n)%nat -> no_lazy (fanout n its).
Proof.
  intros n its Hn. destruct n as [|[|n]]; try lia. cbn [fanout]. apply map_forwarded_no_lazy.
Qed.

Lemma fanout_keeps : forall n its it, In it its -> In it (fanout n its) \/ In (forwarded it) (fanout n its).
Proof.
  intros n its it H. destruct n as [|[|n]]; cbn [fanout]; auto. right. apply in_map. exact H.
Qed.

Lemma fanout_panic_item_lemma : forall n its i, (2 <= n)%nat -> In (ILazy i) its ->
  In (IErr (PanicErr i)) (fanout n its).
Proof.
  intros n its i Hn Hin. destruct n as [|[|n]]; try lia. cbn [fanout].
  change (IErr (PanicErr i)) with (forwarded (ILazy i)). apply in_map. exact Hin.
Qed.

Lemma fanout_keeps_items_lemma : forall n its e, In (IErr e) its -> In (IErr e) (fanout n its).
Proof.
  intros n its e Hin. destruct n as [|[|n]]; cbn [fanout]; auto.
  change (IErr e) with (forwarded (IErr e)). apply in_map. exact Hin.
Qed.

(* ToolsNode.Stream with two or more calls merges the tools' streams: a tool stream that panics
   while it is forwarded becomes an error item with the payload; nothing panicking is handed on *)
Lemma In_tool_conv_panics : forall ts it, In it (tool_conv_panics ts) ->
  exists i, In (TConvPanic i) ts /\ (it = ILazy i \/ it = IErr (PanicErr i)).
Proof.
  intros ts it H. unfold tool_conv_panics in H. apply in_flat_map in H.
  destruct H as [t [Ht Hit]]. destruct t; try contradiction.
  exists info. split; [exact Ht|]. destruct Hit as [<-|[]].
  destruct ts as [|t0 [|t1 ts']]; auto.
Qed.

Lemma tools_forwarder_lemma : forall ts, (2 <= List.length ts)%nat ->
  no_lazy (tool_conv_panics ts) /\
  forall i, In (TConvPanic i) ts -> In (IErr (PanicErr i)) (tool_conv_panics ts).
Proof.
  intros ts Hlen. destruct ts as [|t0 [|t1 ts']]; cbn [List.length] in Hlen; try lia. split.
  - destruct (existsb is_lazy (tool_conv_panics (t0 :: t1 :: ts'))) eqn:E; [|exact E].
    apply existsb_exists in E. destruct E as [it [Hin Hl]].
    unfold tool_conv_panics in Hin. apply in_flat_map in Hin. destruct Hin as [t [_ Hit]].
    destruct t; try contradiction. destruct Hit as [<-|[]]. discriminate.
  - intros i Hin. unfold tool_conv_panics. apply in_flat_map. exists (TConvPanic i).
    split; [exact Hin|]. left. reflexivity.
Qed.

(* ------------------------------------------------------------------ (2) nothing else lets a panic out *)

Definition conv_free_behav (b : behav) : bool := match b with BConvPanic _ => false | _ => true end.
Definition conv_free_tool (t : tool) : bool := match t with TConvPanic _ => false | _ => true end.
Definition conv_free_node (n : node) : bool :=
  match n with
  | NLam _ _ b => conv_free_behav b
  | NSub _ _ => true
  | NTools _ ts => forallb conv_free_tool ts
  end.
Definition conv_free_stages (sts : list (list node)) : bool := forallb (forallb conv_free_node) sts.
Definition br_free (b : brb) : bool := match b with BrPanic _ => false | _ => true end.
(* no graph of the forest makes a self-panicking stream, and the branch condition of the TOP graph
   does not panic (below the top level a panicking condition is contained by the parent) *)
Definition conv_free (F : forest) : bool :=
  forallb (fun g => conv_free_stages (g_stages g)) F &&
  match F with g :: _ => br_free (g_br g) | [] => true end.

(* a branch condition that does not panic, reading a stream that does not: no panic *)
Lemma branch_eval_safe : forall stream br it i, br_free br = true -> existsb is_lazy it = false ->
  branch_eval stream br it <> BPanicI i.
Proof.
  intros stream br it i Hb Hit. unfold branch_eval.
  destruct br as [| |be|bi]; try discriminate; destruct it as [|[e0|j] it']; try discriminate.
Qed.

Definition nres_safe (r : nres) : Prop := match r with NOk it _ => no_lazy it | _ => True end.
(* [top]: the run is the one the caller started — no panic may leave it *)
Definition gres_safe (top : bool) (r : gres) : Prop :=
  match r with GDone its _ => no_lazy its | GPanic _ => top = false | _ => True end.

Lemma exec_lambda_safe : forall stream items f b,
  conv_free_behav b = true -> no_lazy items -> nres_safe (exec_lambda stream items f b).
Proof.
  intros stream items f b Hb Hit. unfold exec_lambda.
  destruct b; try discriminate; destruct stream, f; cbn; try exact I; try reflexivity;
    destruct items; cbn; try exact I; try reflexivity; try exact Hit.
Qed.

Lemma pre_panic_no_lazy : forall stream items, no_lazy items -> pre_panic stream items = None.
Proof.
  intros stream items H. unfold pre_panic. destruct stream; [|reflexivity].
  destruct items as [|[e|i] its]; try reflexivity. discriminate.
Qed.

Lemma with_post_safe : forall stream b r, nres_safe r -> nres_safe (with_post stream b r).
Proof.
  intros stream b r H. destruct b; cbn [with_post]; auto.
  destruct r as [[|[e0|i] it] c|es|]; cbn; auto.
Qed.

Lemma tool_conv_panics_free : forall ts, forallb conv_free_tool ts = true -> tool_conv_panics ts = [].
Proof.
  intros ts H. destruct (tool_conv_panics ts) as [|it l] eqn:E; [reflexivity|].
  destruct (In_tool_conv_panics ts it) as [i [Hin _]]; [rewrite E; left; reflexivity|].
  rewrite forallb_forall in H. specialize (H _ Hin). discriminate.
Qed.

Lemma exec_tools_safe : forall stream items ts,
  forallb conv_free_tool ts = true -> nres_safe (exec_tools stream items ts).
Proof.
  intros stream items ts H. unfold exec_tools. destruct ts as [|t0 ts']; [exact I|].
  destruct (if stream then items else []); [|exact I].
  destruct (tool0_panics stream t0); [exact I|].
  destruct (negb stream).
  - destruct (first_tool_error false _ _); cbn; auto. reflexivity.
  - rewrite (tool_conv_panics_free _ H). destruct (first_tool_error true _ _); cbn; auto. reflexivity.
Qed.

Lemma all_items_safe : forall rs,
  (forall k r, In (k, r) rs -> nres_safe r) -> no_lazy (all_items rs).
Proof.
  induction rs as [|[k r] rs IH]; intros H; [reflexivity|].
  unfold all_items. cbn [flat_map snd]. fold (all_items rs). apply no_lazy_app. split.
  - specialize (H k r (or_introl eq_refl)). destruct r; cbn in *; auto; reflexivity.
  - apply IH. intros k' r' Hin. apply (H k' r'). right. exact Hin.
Qed.

Section Safe.
  Variable F : forest.
  Variable stream : bool.
  Hypothesis HF : forallb (fun g => conv_free_stages (g_stages g)) F = true.

  Definition rec_safe (rec : graph -> list item -> bool -> gres) : Prop :=
    forall g items canc, conv_free_stages (g_stages g) = true -> no_lazy items ->
      gres_safe false (rec g items canc).

  Lemma forest_graph_free : forall gi g, nth_error F gi = Some g -> conv_free_stages (g_stages g) = true.
  Proof.
    intros gi g H. rewrite forallb_forall in HF.
    apply (HF g). eapply nth_error_In; eauto.
  Qed.

  Lemma exec_node_safe : forall rec items canc n, rec_safe rec ->
    conv_free_node n = true -> no_lazy items -> nres_safe (exec_node F stream rec items canc n).
  Proof.
    intros rec items canc n Hrec Hn Hit. destruct n as [k f b|k gi|k ts]; cbn [exec_node].
    - apply with_post_safe. apply exec_lambda_safe; assumption.
    - destruct (nth_error F gi) as [g|] eqn:Eg; [|exact I].
      specialize (Hrec g items canc (forest_graph_free _ _ Eg) Hit).
      destruct (rec g items canc); cbn in *; auto.
    - apply exec_tools_safe. exact Hn.
  Qed.

  Lemma steps_safe : forall rec all loop br top, rec_safe rec -> conv_free_stages all = true ->
    (top = true -> br_free br = true) ->
    forall k cur items canc, conv_free_stages cur = true -> no_lazy items ->
      gres_safe top (steps F stream rec all loop br k cur items canc).
  Proof.
    intros rec all loop br top Hrec Hall Hbr. induction k as [|k IH]; intros cur items canc Hcur Hit.
    - destruct cur; cbn; [exact Hit|]. destruct canc; exact I.
    - destruct cur as [|st rest]; cbn [steps]; [exact Hit|].
      destruct canc; [exact I|].
      destruct (pre_fails stream items st) as [|pf0 pfs];
        [|cbv beta iota; rewrite (pre_panic_no_lazy stream items Hit); exact I].
      rewrite stage_fold_spec. cbn [orb app].
      set (rs := map (fun n => (node_key n, exec_node F stream rec items false n)) st).
      unfold conv_free_stages in Hcur. cbn [forallb] in Hcur. apply andb_true_iff in Hcur.
      destruct Hcur as [Hst Hrest].
      assert (Hsafe : no_lazy (all_items rs)).
      { apply all_items_safe. intros k0 r Hin. unfold rs in Hin. apply in_map_iff in Hin.
        destruct Hin as [n [Heq Hn]]. inversion Heq; subst.
        apply exec_node_safe; auto. rewrite forallb_forall in Hst. apply Hst. exact Hn. }
      destruct (any_fuel rs); [exact I|].
      destruct (all_fails rs); [|exact I].
      destruct (any_int rs).
      + rewrite (no_lazy_first _ Hsafe). destruct (item_errors (all_items rs)); exact I.
      + destruct rest as [|st' rest'].
        * pose proof (branch_eval_safe stream br (all_items rs)) as Hbe.
          destruct (branch_eval stream br (all_items rs)) as [|be|bi]; [|exact I|].
          -- destruct loop.
             ++ apply IH; [exact Hall|]. apply fanin_no_lazy, fanout_no_lazy. exact Hsafe.
             ++ cbn [gres_safe]. apply fanin_no_lazy, fanout_no_lazy. exact Hsafe.
          -- cbn [gres_safe]. destruct top; [|reflexivity].
             exfalso. exact (Hbe bi (Hbr eq_refl) Hsafe eq_refl).
        * apply IH; [exact Hrest|]. apply fanin_no_lazy, fanout_no_lazy. exact Hsafe.
  Qed.

  Lemma run_graph_safe : forall d, rec_safe (run_graph F stream d).
  Proof.
    induction d as [|d IH]; intros g items canc Hg Hit; cbn [run_graph]; [exact I|].
    apply steps_safe; auto; [discriminate|]. apply fanout_no_lazy. exact Hit.
  Qed.

  Lemma run_graph_top_safe : forall d g items canc,
    conv_free_stages (g_stages g) = true -> br_free (g_br g) = true -> no_lazy items ->
    gres_safe true (run_graph F stream d g items canc).
  Proof.
    intros d g items canc Hg Hb Hit. destruct d as [|d]; cbn [run_graph]; [exact I|].
    apply steps_safe; auto; [apply run_graph_safe|]. apply fanout_no_lazy. exact Hit.
  Qed.
End Safe.

(* no panic reaches the caller, and no result stream panics when the caller reads it *)
Lemma no_panic_escapes_lemma : forall F p cancel_before in_item,
  conv_free F = true -> ~ In APanic (answers F p cancel_before in_item).
Proof.
  intros F p cb ii HF Hin. unfold answers in Hin. destruct F as [|g F']; [destruct Hin as [H|[]]; discriminate|].
  unfold conv_free in HF. apply andb_true_iff in HF. destruct HF as [HFs Hbr].
  set (stream := match p with PInvoke => false | _ => true end) in *.
  set (items := match p, ii with (PCollect | PTransform), Some e => [IErr e] | _, _ => [] end) in *.
  assert (Hit : no_lazy items) by (unfold items; destruct p, ii; reflexivity).
  assert (Hg : conv_free_stages (g_stages g) = true).
  { cbn [forallb] in HFs. apply andb_true_iff in HFs. tauto. }
  pose proof (run_graph_top_safe (g :: F') stream HFs (S (List.length (g :: F'))) g items cb Hg Hbr Hit) as Hs.
  destruct (run_graph (g :: F') stream (S (List.length (g :: F'))) g items cb) as [its c|es| |i|]; cbn in Hs.
  - destruct its as [|it0 its']; [destruct Hin as [H|[]]; discriminate|].
    apply in_map_iff in Hin. destruct Hin as [it [Heq Hi]].
    pose proof (no_lazy_In _ _ Hs Hi) as Hl. destruct it; [destruct p; discriminate|discriminate].
  - apply in_map_iff in Hin. destruct Hin as [e [Heq _]]. discriminate.
  - destruct Hin as [H|[]]; discriminate.
  - discriminate.
  - destruct Hin as [H|[]]; discriminate.
Qed.
