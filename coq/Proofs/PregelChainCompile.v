(* Proofs/PregelChainCompile.v — the decidable acceptance predicate of Chain.Compile ([chain_compiles],
   Model/ChainCompile.v) implies the well-formedness hypothesis [chain_wf] of the chain theorems, so that
   chain_lowering_correct applies to every chain Compile accepts, with a hypothesis the correspondence
   evaluates on every case. *)
From Eino Require Import Base.Util Model.Graph Model.Chain Model.ChainSpec Model.ChainCompile
  Proofs.PregelBase Proofs.Pregel Proofs.PregelRun Proofs.PregelChainLower Proofs.PregelChain.
From Coq Require Import Lia.
Open Scope N_scope.

Lemma memb_In : forall k l, memb k l = true <-> In k l.
Proof.
  intros k l. unfold memb. rewrite existsb_exists. split.
  - intros [x [Hi He]]. apply N.eqb_eq in He. subst. exact Hi.
  - intros Hi. exists k. split; [exact Hi|apply N.eqb_refl].
Qed.

Lemma nodupb_NoDup : forall l, nodupb l = true -> NoDup l.
Proof.
  induction l as [|x r IH]; simpl; intros H; [constructor|].
  apply andb_prop in H. destruct H as [Hm Hr]. constructor; [|apply IH; exact Hr].
  intros Hi. apply memb_In in Hi. rewrite Hi in Hm. discriminate.
Qed.

Lemma NoDup_nodupb : forall l, NoDup l -> nodupb l = true.
Proof.
  induction 1 as [|x r Hn Hd IH]; simpl; [reflexivity|].
  rewrite IH, andb_true_r. destruct (memb x r) eqn:E; [|reflexivity].
  apply memb_In in E. contradiction.
Qed.

Lemma chain_all_keys_eq : forall sts, chain_all_keys sts = chain_keys sts.
Proof. reflexivity. Qed.

Lemma len2_not_nil : forall {A} (l : list A), Nat.leb 2 (List.length l) = true -> is_nil l = false.
Proof. intros A [|a l]; simpl; [discriminate|reflexivity]. Qed.

Lemma stages_compile_shape : forall sts multi prev,
  (multi = false -> is_single prev = true) ->
  stages_compile multi sts = true -> shape_ok prev sts = true.
Proof.
  induction sts as [|st rest IH]; intros multi prev Hp H; [reflexivity|].
  destruct st as [s|ss|ss tb]; simpl in *.
  - apply (IH false); [reflexivity|exact H].
  - apply andb_prop in H. destruct H as [H Hr]. apply andb_prop in H. destruct H as [Hm Hk].
    destruct multi; [discriminate|]. rewrite (Hp eq_refl). unfold par_ok in Hk.
    apply andb_prop in Hk. destruct Hk as [Hl _]. rewrite (len2_not_nil _ Hl). simpl.
    apply (IH true); [discriminate|exact Hr].
  - apply andb_prop in H. destruct H as [H Hr]. apply andb_prop in H. destruct H as [Hm Hl].
    destruct multi; [discriminate|]. rewrite (Hp eq_refl). rewrite (len2_not_nil _ Hl). simpl.
    apply (IH true); [discriminate|exact Hr].
Qed.

Lemma chain_compiles_wf_lemma : forall sts, chain_compiles sts = true -> chain_wf sts.
Proof.
  intros sts H. unfold chain_compiles in H.
  apply andb_prop in H. destruct H as [H Hs]. apply andb_prop in H. destruct H as [Hn Hd].
  split; [destruct sts; [discriminate|discriminate]|].
  split.
  - apply nodupb_NoDup. exact Hd.
  - apply (stages_compile_shape sts false [kSTART]); [reflexivity|exact Hs].
Qed.

(* the parallel stages of an accepted chain have pairwise distinct output keys (what "merged by key" needs) *)
Lemma chain_compiles_par_keys : forall sts ns,
  chain_compiles sts = true -> In (SPar ns) sts ->
  exists ks, par_outkeys ns = Some ks /\ NoDup ks /\ (2 <= List.length ns)%nat.
Proof.
  intros sts ns H Hin. unfold chain_compiles in H.
  apply andb_prop in H. destruct H as [_ Hs]. revert Hs. generalize false.
  induction sts as [|st rest IH]; intros multi Hs; [destruct Hin|].
  destruct Hin as [->|Hin].
  - simpl in Hs. apply andb_prop in Hs. destruct Hs as [Hs _]. apply andb_prop in Hs. destruct Hs as [_ Hk].
    unfold par_ok in Hk. apply andb_prop in Hk. destruct Hk as [Hl Hk].
    destruct (par_outkeys ns) as [ks|]; [|discriminate].
    exists ks. split; [reflexivity|]. split; [apply nodupb_NoDup; exact Hk|apply Nat.leb_le; exact Hl].
  - destruct st as [s|ss|ss tb]; simpl in Hs.
    + apply (IH Hin false). exact Hs.
    + apply andb_prop in Hs. destruct Hs as [_ Hr]. apply (IH Hin true). exact Hr.
    + apply andb_prop in Hs. destruct Hs as [_ Hr]. apply (IH Hin true). exact Hr.
Qed.

(* chain_lowering_correct with the decidable hypothesis *)
Lemma chain_lowering_correct_dec_lemma :
  forall V St (ops : vops V) exec sub sched sts max,
    sub_fail_nonempty V St sub -> chain_compiles sts = true ->
    exists g, chain_lower sts max = Some g /\ pregel_graph g /\
      forall p x s, run_flat V St ops exec sub sched p g x s = eval_chain V St ops exec sub p sts max x s.
Proof.
  intros V St ops exec sub sched sts max Hsub H.
  apply chain_lowering_correct_lemma; [exact Hsub|apply chain_compiles_wf_lemma; exact H].
Qed.

(* a chain that violates the "single previous node" rule does not lower either: the model's lowering and the
   acceptance predicate agree on that rule *)
Lemma chain_lower_some_shape : forall sts max g, chain_lower sts max = Some g -> sts <> [].
Proof.
  intros sts max g H. destruct sts; [|discriminate]. unfold chain_lower in H. simpl in H. discriminate.
Qed.
