(* Proofs/GenAgreeC15.v — translator tie of property C15 (DESIGN §13a, mechanism 2): the Gallina
   functions that tools/go2v re-generates on every run from the CURRENT source of

     compose/field_mapping.go : extractFieldType / checkAndExtractFieldType   (Gen/C15FieldType.v)
     compose/workflow.go      : ( *WorkflowNode).checkAndAddMappedPath          (Gen/C15MappedPath.v)
     compose/workflow.go      : canonicalTargetPath                            (Gen/C15Canonical.v)
     compose/field_mapping.go : isFromAll, isToAll, validateStructOrMap, validateFieldMapping with its two
                                checker closures and the combined checker      (Gen/C15Validate.v)
     compose/field_mapping.go : checkAndExtractFromMapKey, checkAndExtractFromField, takeOne (Gen/C15TakeOne.v)
     compose/field_mapping.go : fieldMap (streamFieldMap = fieldMap(mappings, true) per chunk)   (Gen/C15FieldMap.v)

   by statement-by-statement translation are extensionally the functions of Model/FieldMap.v and
   Model/FieldMapPromote.v that the C15 theorems are about ([extract_ty], [tinsert_all] on the
   declaration's target paths, [expand], [validate], [check_value], [run_checks], [take_one], [field_map]) — for every struct environment, promotion table, type, path,
   trie and path list, with the partial operations (reflect's Elem / Key / FieldByName on a type of
   the wrong kind, a type assertion on a value of another type, a write into a nil map: all panic in
   Go, [None] here) shown never to be reached.  An edit of one of the Go functions that changes its
   meaning (a dropped test, a reordered dereference, another result) makes this file stop compiling.
   When an extractor does not recognise the shape of its source it writes a neutral Gen file instead:
   the reference translation of the function as it stands in the repaired tree (kept in
   tools/go2v/c15_fallbacks.go, [tie_available = false]), for which the proofs below go through
   unchanged — an unrecognised shape leaves the obligations intact (translator tie "unavailable",
   not an alarm). *)
From Eino Require Import Base.Util Base.FMUniverse Model.FieldMap Model.FieldMapPromote Model.FieldMapGenLib
  Proofs.FieldMapOverlap Proofs.FieldMapAssign.
From Eino Require Gen.C15FieldType Gen.C15MappedPath Gen.C15Canonical Gen.C15Validate Gen.C15TakeOne Gen.C15FieldMap.

(* ------------------------------------------------------------------ extractFieldType *)

Lemma gen_extract_loop_agrees : forall env target p t,
  Gen.C15FieldType.extract_field_type_loop env target t p = Some (extract_ty env t p).
Proof.
  intros env target p; induction p as [|f rest IH]; intros t.
  - reflexivity.
  - destruct t as [| | |n|u|ks e]; cbn [Gen.C15FieldType.extract_field_type_loop extract_ty];
      unfold rt_kind_is; cbn.
    + reflexivity.
    + reflexivity.
    + destruct rest; cbn; [apply IH|reflexivity].
    + destruct (lookup_field env n f) as [[[|] ft]|]; cbn; try reflexivity;
        destruct target; cbn; apply IH.
    + destruct u as [| | |n|u'|ks e]; cbn; try reflexivity.
      destruct (lookup_field env n f) as [[[|] ft]|]; cbn; try reflexivity;
        destruct target; cbn; apply IH.
    + destruct ks; cbn; [apply IH|reflexivity].
Qed.

Theorem gen_extract_field_type_agrees : forall env p t target,
  Gen.C15FieldType.extract_field_type env p t target = Some (extract_ty env t p).
Proof. first [ solve [intros; reflexivity] | intros; unfold Gen.C15FieldType.extract_field_type; cbn; apply gen_extract_loop_agrees ]. Qed.

Theorem gen_check_and_extract_field_type_agrees : forall env p t,
  Gen.C15FieldType.check_and_extract_field_type env p t = Some (extract_ty env t p).
Proof. intros; apply gen_extract_field_type_agrees. Qed.

(* non-vacuity: the generated function gives each kind of answer *)
Example gen_extract_answers :
  let env : senv := [(1%N, [(2%N, (true, TPtr (TStruct 1))); (3%N, (false, TInt)); (4%N, (true, TAny)); (5%N, (true, TPtr TAny))])] in
  Gen.C15FieldType.extract_field_type env [2%N; 2%N; 4%N] (TStruct 1) true = Some (SOk TAny false)
  /\ Gen.C15FieldType.extract_field_type env [4%N; 7%N; 8%N] (TPtr (TStruct 1)) false = Some (SOk TAny true)
  /\ Gen.C15FieldType.extract_field_type env [3%N] (TStruct 1) false = Some SErr
  /\ Gen.C15FieldType.extract_field_type env [5%N; 7%N] (TStruct 1) false = Some SErr
  /\ Gen.C15FieldType.extract_field_type env [7%N] (TMap false TInt) false = Some SErr
  /\ Gen.C15FieldType.extract_field_type env [7%N] (TMap true TInt) true = Some (SOk TInt false).
Proof. repeat split; reflexivity. Qed.

(* ------------------------------------------------------------------ checkAndAddMappedPath *)

(* a cursor that is attached to the root *)
Definition att (cs : list (N * trie)) (up : list (N * list (N * trie))) : cursor :=
  {| cu_m := cs; cu_up := up; cu_detached := false; cu_nil := false |}.

Lemma gen_add_path_loop_agrees : forall p cs up,
  p <> [] ->
  match tinsert_sub p cs with
  | None => Gen.C15MappedPath.add_path_loop (att cs up) p = Some None
  | Some cs' => exists cs2 up2,
      Gen.C15MappedPath.add_path_loop (att cs up) p = Some (Some (att cs2 up2))
      /\ zip_up cs2 up2 = zip_up cs' up
  end.
Proof.
  induction p as [|f rest IH]; intros cs up Hne; [congruence|].
  cbn [Gen.C15MappedPath.add_path_loop tinsert_sub].
  unfold cur_lookup. change (cu_m (att cs up)) with cs.
  destruct (aget f cs) as [[|cs1]|] eqn:Hg.
  - (* an already mapped path ends here *)
    reflexivity.
  - destruct rest as [|g rest'].
    + reflexivity.
    + cbn [v_is_terminal v_val rt_more negb cur_descend v_at cu_m cu_up cu_detached].
      specialize (IH cs1 ((f, cs) :: up) ltac:(discriminate)).
      fold (att cs1 ((f, cs) :: up)).
      destruct (tinsert_sub (g :: rest') cs1) as [cs1'|].
      * destruct IH as [cs2 [up2 [H1 H2]]]. exists cs2, up2. split; [exact H1|]. rewrite H2. reflexivity.
      * exact IH.
  - destruct rest as [|g rest'].
    + cbn. exists (ains f Term cs), up. split; reflexivity.
    + cbn [v_is_terminal v_val rt_more negb cur_store_var cu_nil v_make cur_descend v_at cu_m cu_up cu_detached].
      specialize (IH [] ((f, ains f (Node []) cs) :: up) ltac:(discriminate)).
      fold (att [] ((f, ains f (Node []) cs) :: up)).
      destruct (tinsert_sub (g :: rest') []) as [cs1'|].
      * destruct IH as [cs2 [up2 [H1 H2]]]. exists cs2, up2. split; [exact H1|]. rewrite H2.
        cbn [zip_up]. rewrite ains_ains_same. reflexivity.
      * exact IH.
Qed.

Lemma gen_check_add_loop_agrees : forall canon paths t,
  Gen.C15MappedPath.check_add_loop canon (Some t) paths
  = Some (option_map Some (tinsert_all (map canon paths) t)).
Proof.
  intros canon paths; induction paths as [|tp rest IH]; intros t.
  - reflexivity.
  - cbn [Gen.C15MappedPath.check_add_loop map tinsert_all].
    destruct t as [|cs]; [reflexivity|].
    cbn [root_as_map negb tinsert].
    destruct (canon tp) as [|f r] eqn:Hc.
    + cbn [list_is_empty]. destruct cs as [|c cs]; [|reflexivity].
      cbn. apply IH.
    + cbn [list_is_empty].
      pose proof (gen_add_path_loop_agrees (f :: r) cs [] ltac:(discriminate)) as H.
      change (cursor_at_root cs) with (att cs []).
      destruct (tinsert_sub (f :: r) cs) as [cs'|].
      * destruct H as [cs2 [up2 [H1 H2]]]. rewrite H1.
        unfold cur_commit. cbn [cu_detached att cu_m cu_up]. rewrite H2. cbn [zip_up option_map].
        apply IH.
      * rewrite H. reflexivity.
Qed.

Theorem gen_check_and_add_mapped_path_agrees : forall canon root paths,
  Gen.C15MappedPath.check_and_add_mapped_path canon root paths
  = Some (option_map Some
      (tinsert_all (map canon (match paths with [] => [[]] | _ => paths end))
                   (match root with Some t => t | None => Node [] end))).
Proof.
  intros canon root paths. unfold Gen.C15MappedPath.check_and_add_mapped_path.
  destruct root as [t|]; cbn [root_present negb]; destruct paths as [|p ps]; cbn [list_is_empty];
    apply gen_check_add_loop_agrees.
Qed.

(* ------------------------------------------------------------------ canonicalTargetPath *)

Lemma gen_canonical_loop_agrees : forall env pe p t acc,
  Gen.C15Canonical.canonical_loop env pe (Some t) acc p = Some (acc ++ expand env pe t p).
Proof.
  intros env pe p; induction p as [|f rest IH]; intros t acc.
  - cbn. rewrite app_nil_r. reflexivity.
  - assert (Hstruct : forall n,
      match rt_field_by_name_p env pe (TStruct n) f with
      | None => None
      | Some found =>
          let ok := match found with Some _ => true | None => false end in
          let f0 := match found with Some pf => pf | None => {| pf_type := TStruct n; pf_chain_names := [] |} end in
          if negb ok then Some (acc ++ f :: rest)
          else Gen.C15Canonical.canonical_loop env pe (Some (pf_type f0)) ((acc ++ pf_chain_names f0) ++ [f]) rest
      end = Some (acc ++ (let c := promoted pe n f in
                          match chain_ty env (TStruct n) (c ++ [f]) with
                          | Some ft => c ++ f :: expand env pe ft rest
                          | None => f :: rest
                          end))).
    { intros n. unfold rt_field_by_name_p. cbv zeta.
      destruct (chain_ty env (TStruct n) (promoted pe n f ++ [f])) as [ft|]; cbn [negb pf_type pf_chain_names].
      - rewrite IH. f_equal. rewrite <- !app_assoc. reflexivity.
      - reflexivity. }
    destruct t as [| | |n|u|ks e]; cbn [Gen.C15Canonical.canonical_loop expand deref1]; unfold rt_kind_is; cbn [kind_name String.eqb Ascii.eqb Bool.eqb negb rt_elem].
    + reflexivity.
    + reflexivity.
    + reflexivity.
    + apply Hstruct.
    + destruct u as [| | |n|u'|ks e]; cbn [kind_name String.eqb Ascii.eqb Bool.eqb negb]; try reflexivity.
      apply Hstruct.
    + rewrite IH. rewrite <- app_assoc. reflexivity.
Qed.

Theorem gen_canonical_target_path_agrees : forall env pe t p,
  Gen.C15Canonical.canonical_target_path env pe (Some t) p = Some (expand env pe t p).
Proof. first [ solve [intros; reflexivity] | intros; unfold Gen.C15Canonical.canonical_target_path; apply gen_canonical_loop_agrees ]. Qed.

(* a node whose input type the graph does not know: the path is kept as it is *)
Theorem gen_canonical_target_path_untyped : forall env pe p,
  Gen.C15Canonical.canonical_target_path env pe None p = Some p.
Proof. intros env pe [|f rest]; reflexivity. Qed.

(* ------------------------------------------------------------------ the two together: one AddInput

   checkAndAddMappedPath calls canonicalTargetPath(n.inputType(), ·) on every target path; with the
   node's input type T that is the model's elaboration [expand env pe T] (previous theorem), and
   the whole call is the insertion of the ELABORATED declaration's target paths into the trie — the
   step [compile_from] (Model/FieldMap.v) takes for every declaration of [compile_x]. *)
Corollary gen_add_input_overlap_agrees : forall env pe T d t,
  (forall p, Gen.C15Canonical.canonical_target_path env pe (Some T) p = Some (expand env pe T p)) /\
  Gen.C15MappedPath.check_and_add_mapped_path (expand env pe T) (Some t) (map snd (d_maps d))
  = Some (option_map Some (tinsert_all (decl_paths (expand_decl env pe T d)) t)).
Proof.
  intros env pe T d t. split; [intro p; apply gen_canonical_target_path_agrees|].
  rewrite gen_check_and_add_mapped_path_agrees. unfold decl_paths, expand_decl; cbn [d_maps].
  destruct (d_maps d) as [|m ms]; [reflexivity|].
  cbn [map snd fst]. repeat f_equal. rewrite !map_map. reflexivity.
Qed.

(* non-vacuity: the generated functions accept, reject, and spell promoted names out *)
Example gen_check_and_add_answers :
  let id := fun p : path => p in
  Gen.C15MappedPath.check_and_add_mapped_path id None [[1%N; 2%N]; [1%N; 3%N]]
    = Some (Some (Some (Node [(1%N, Node [(2%N, Term); (3%N, Term)])])))
  /\ Gen.C15MappedPath.check_and_add_mapped_path id (Some (Node [(1%N, Node [(2%N, Term)])])) [[1%N]] = Some None
  /\ Gen.C15MappedPath.check_and_add_mapped_path id (Some (Node [(1%N, Term)])) [[1%N; 2%N]] = Some None
  /\ Gen.C15MappedPath.check_and_add_mapped_path id None [] = Some (Some (Some Term))
  /\ Gen.C15MappedPath.check_and_add_mapped_path id (Some Term) [[1%N]] = Some None
  /\ Gen.C15MappedPath.check_and_add_mapped_path id (Some (Node [(1%N, Term)])) [] = Some None.
Proof. repeat split; reflexivity. Qed.

Example gen_canonical_answers :
  (* struct 1 { 5 : struct 2 (embedded); 6 : int }, struct 2 { 7 : int }; 7 is promoted through 5 *)
  let env : senv := [(1%N, [(5%N, (true, TStruct 2)); (6%N, (true, TInt))]); (2%N, [(7%N, (true, TInt))])] in
  let pe : penv := [(1%N, [(7%N, [5%N])])] in
  Gen.C15Canonical.canonical_target_path env pe (Some (TPtr (TStruct 1))) [7%N] = Some [5%N; 7%N]
  /\ Gen.C15Canonical.canonical_target_path env pe (Some (TMap true (TStruct 1))) [9%N; 7%N] = Some [9%N; 5%N; 7%N]
  /\ Gen.C15Canonical.canonical_target_path env pe (Some (TStruct 1)) [6%N; 7%N] = Some [6%N; 7%N]
  /\ Gen.C15Canonical.canonical_target_path env pe None [7%N] = Some [7%N].
Proof. repeat split; reflexivity. Qed.

(* ------------------------------------------------------------------ validateFieldMapping *)

Theorem gen_is_from_all_agrees : forall ms, Gen.C15Validate.is_from_all ms = from_all ms.
Proof.
  induction ms as [|[from to] ms IH]; [reflexivity|].
  cbn [Gen.C15Validate.is_from_all from_all existsb fst]. rewrite IH.
  destruct from; reflexivity.
Qed.

Theorem gen_is_to_all_agrees : forall ms, Gen.C15Validate.is_to_all ms = to_all ms.
Proof.
  induction ms as [|[from to] ms IH]; [reflexivity|].
  cbn [Gen.C15Validate.is_to_all to_all existsb snd]. rewrite IH.
  destruct to; reflexivity.
Qed.

Theorem gen_validate_struct_or_map_agrees : forall t, Gen.C15Validate.validate_struct_or_map t = struct_or_map t.
Proof. destruct t; reflexivity. Qed.

Theorem gen_checker_1_agrees : forall st x, Gen.C15Validate.checker_1 st x = check_value st x.
Proof. intros st x. unfold Gen.C15Validate.checker_1, check_value. destruct (dyn x) as [d|]; cbn; [destruct (assignable d st); reflexivity | destruct st; reflexivity]. Qed.

Theorem gen_checker_2_agrees : forall st x, Gen.C15Validate.checker_2 st x = check_value st x.
Proof. intros st x. unfold Gen.C15Validate.checker_2, check_value. destruct (dyn x) as [d|]; cbn; [destruct (assignable d st); reflexivity | destruct st; reflexivity]. Qed.

(* the closures are built from per-iteration copies of the loop's variables (F-C15h) *)
Theorem gen_closures_capture_per_iteration : Gen.C15Validate.closures_capture_per_iteration = true.
Proof. reflexivity. Qed.

Definition untag (l : fcheckers) : checks := map (fun c => (fst c, snd (snd c))) l.

Lemma untag_app : forall a b, untag (a ++ b) = untag a ++ untag b.
Proof. intros. unfold untag. apply map_app. Qed.

Lemma untag_tag : forall n l, untag (map (fun c => (fst c, (n, snd c))) l) = l.
Proof. intros n l. unfold untag. rewrite map_map. cbn. induction l as [|[k st] l IH]; cbn; [reflexivity|rewrite IH; reflexivity]. Qed.

Lemma fc_set_fresh : forall k c l,
  (forall k', In k' (map fst l) -> path_eqb k k' = false) -> fc_set k c l = l ++ [(k, c)].
Proof.
  intros k c l; induction l as [|[k' c'] l IH]; intros H; [reflexivity|].
  cbn [fc_set]. rewrite (H k' (or_introl eq_refl)). cbn [app]. f_equal. apply IH.
  intros k'' Hin. apply H. right. exact Hin.
Qed.

Lemma path_eqb_false_neq : forall p q, p <> q -> path_eqb p q = false.
Proof. intros p q H. destruct (path_eqb p q) eqn:E; [apply path_eqb_eq in E; contradiction|reflexivity]. Qed.

(* the loop over the mappings, started with the checkers [acc] installed so far: the checkers of the
   remaining mappings are appended (the numbers of the closures are dropped: both are check_value) *)
Lemma gen_validate_loop_agrees : forall env P T ms acc,
  NoDup (map snd ms) ->
  (forall m, In m ms -> ~ In (snd m) (map fst acc)) ->
  option_map (option_map untag) (Gen.C15Validate.validate_loop env P T acc ms)
  = Some (option_map (fun l => untag acc ++ l) (validate_each env P T ms)).
Proof.
  intros env P T ms; induction ms as [|[from to] ms IH]; intros acc Hnd Hfresh.
  - cbn. rewrite app_nil_r. destruct acc; reflexivity.
  - cbn [Gen.C15Validate.validate_loop validate_each fst snd].
    rewrite gen_check_and_extract_field_type_agrees, gen_extract_field_type_agrees.
    destruct (extract_ty env P from) as [pt pinter|]; [|reflexivity].
    destruct (extract_ty env T to) as [st sinter|]; [|reflexivity].
    cbn [map snd] in Hnd. inversion Hnd as [|x l Hnotin Hnd']; subst.
    assert (Hfresh' : forall m, In m ms -> ~ In (snd m) (map fst acc)).
    { intros m Hin. apply Hfresh. right. exact Hin. }
    assert (Hset : forall c, fc_set to c acc = acc ++ [(to, c)]).
    { intros c. apply fc_set_fresh. intros k' Hin. apply path_eqb_false_neq. intro; subst k'.
      exact (Hfresh (from, to) (or_introl eq_refl) Hin). }
    assert (Hstep : forall n,
      option_map (option_map untag) (Gen.C15Validate.validate_loop env P T (acc ++ [(to, (n, st))]) ms)
      = Some (option_map (fun l => untag acc ++ l) (option_map (cons (to, st)) (validate_each env P T ms)))).
    { intros n. rewrite IH; [|exact Hnd'|].
      - rewrite untag_app. destruct (validate_each env P T ms); cbn; [rewrite <- app_assoc; reflexivity|reflexivity].
      - intros m Hin Hin'. rewrite map_app in Hin'. apply in_app_or in Hin'. destruct Hin' as [Hin'|Hin'].
        + exact (Hfresh' m Hin Hin').
        + cbn in Hin'. destruct Hin' as [E|[]]. apply Hnotin. rewrite E. apply in_map. exact Hin. }
    destruct sinter.
    + destruct st; cbn [ty_eqb]; try reflexivity. apply IH; assumption.
    + destruct pinter.
      * rewrite Hset. apply Hstep.
      * destruct (check_assignable pt st); cbn [assn_is String.eqb Ascii.eqb Bool.eqb]; try reflexivity.
        -- apply IH; assumption.
        -- rewrite Hset. apply Hstep.
Qed.

(* validateFieldMapping = the model's validate: the same mapping sets are rejected, and the same target paths
   get a run-time checker for the same successor field type (for mappings with pairwise different target paths,
   which the overlap check has established before) *)
Theorem gen_validate_field_mapping_agrees : forall env P T ms,
  NoDup (map snd ms) ->
  option_map (option_map untag) (Gen.C15Validate.validate_field_mapping env P T ms)
  = Some (validate env P T ms).
Proof.
  intros env P T ms Hnd. unfold Gen.C15Validate.validate_field_mapping, validate.
  rewrite gen_is_from_all_agrees, gen_is_to_all_agrees, !gen_validate_struct_or_map_agrees.
  destruct (from_all ms && to_all ms); [reflexivity|].
  destruct (to_all ms); cbn [negb andb].
  - destruct (negb (from_all ms) && negb (struct_or_map P)); [reflexivity|].
    rewrite gen_validate_loop_agrees; [|exact Hnd|intros m _ []].
    cbn. destruct (validate_each env P T ms); reflexivity.
  - destruct (negb (struct_or_map T) && negb (ty_eqb T TAny)); [reflexivity|].
    destruct (negb (from_all ms) && negb (struct_or_map P)); [reflexivity|].
    rewrite gen_validate_loop_agrees; [|exact Hnd|intros m _ []].
    cbn. destruct (validate_each env P T ms); reflexivity.
Qed.

(* ------------------------------------------------------------------ the combined checker *)

Lemma path_eqb_sym : forall p q, path_eqb p q = path_eqb q p.
Proof.
  intros p q. destruct (path_eqb p q) eqn:E.
  - apply path_eqb_eq in E. subst. symmetry. apply path_eqb_refl.
  - destruct (path_eqb q p) eqn:E'; [apply path_eqb_eq in E'; subst; rewrite path_eqb_refl in E; discriminate|reflexivity].
Qed.

Lemma fm_set_same : forall k x m, fm_get k m = Some x -> fm_set k x m = m.
Proof.
  intros k x m; induction m as [|[k' v'] m IH]; cbn; intros H; [discriminate|].
  destruct (path_eqb k k') eqn:E.
  - apply path_eqb_eq in E. inversion H. subst. reflexivity.
  - rewrite IH; [reflexivity|exact H].
Qed.

Lemma fm_get_none_keys : forall k m, fm_get k m = None -> forall k', In k' (map fst m) -> path_eqb k' k = false.
Proof.
  intros k m; induction m as [|[k0 v0] m IH]; cbn; intros H k' Hin; [contradiction|].
  destruct (path_eqb k k0) eqn:E; [discriminate|].
  destruct Hin as [<-|Hin]; [rewrite path_eqb_sym; exact E|apply IH; assumption].
Qed.

(* one checker over all keys of the map: the value under the checker's key is checked if the key is there *)
Lemma gen_keys_loop : forall chk k v m ks,
  (forall k', In k' ks -> In k' (map fst m)) ->
  keys_for_each ks (fun mapping acc => if path_eqb mapping k then fc_apply chk v mapping acc else Ok acc) m
  = match fm_get k m with
    | Some x => if existsb (fun k' => path_eqb k' k) ks then (if chk (fst v) (snd v) x then Ok m else Err ECheck) else Ok m
    | None => Ok m
    end.
Proof.
  intros chk k v m ks; induction ks as [|k0 ks IH]; intros Hsub.
  - cbn. destruct (fm_get k m); reflexivity.
  - cbn [keys_for_each existsb].
    destruct (path_eqb k0 k) eqn:E.
    + apply path_eqb_eq in E. subst k0. unfold fc_apply at 1.
      destruct (fm_get k m) as [x|] eqn:Hg.
      * cbn [orb]. destruct (chk (fst v) (snd v) x) eqn:Hc; [|reflexivity].
        rewrite (fm_set_same _ _ _ Hg). rewrite IH; [|intros k' Hin; apply Hsub; right; exact Hin].
        destruct (existsb _ ks); reflexivity.
      * exfalso. pose proof (fm_get_none_keys k m Hg k (Hsub k (or_introl eq_refl))) as H.
        rewrite path_eqb_refl in H. discriminate.
    + cbn [orb]. apply IH. intros k' Hin; apply Hsub; right; exact Hin.
Qed.

Lemma fm_get_some_key : forall k m x, fm_get k m = Some x -> existsb (fun k' => path_eqb k' k) (map fst m) = true.
Proof.
  intros k m; induction m as [|[k0 v0] m IH]; cbn; intros x H; [discriminate|].
  destruct (path_eqb k k0) eqn:E.
  - rewrite path_eqb_sym, E. reflexivity.
  - rewrite (IH x H). apply orb_true_r.
Qed.

(* the combined checker of validateFieldMapping = run_checks of the model, whatever order the
   list of checkers is in, given that every installed closure is the model's check_value *)
Theorem gen_combined_checker_agrees : forall chk fcs m,
  (forall n st x, chk n st x = check_value st x) ->
  Gen.C15Validate.combined_checker chk fcs m = run_checks (untag fcs) m.
Proof.
  intros chk fcs m Hchk. unfold Gen.C15Validate.combined_checker.
  induction fcs as [|[k [n st]] fcs IH]; [reflexivity|].
  cbn [fc_for_each untag map fst snd run_checks]. unfold fm_for_each_key.
  rewrite gen_keys_loop; [|intros k' Hin; exact Hin].
  destruct (fm_get k m) as [x|] eqn:Hg.
  - rewrite (fm_get_some_key _ _ _ Hg). cbn [fst snd]. rewrite Hchk.
    destruct (check_value st x); [exact IH|reflexivity].
  - exact IH.
Qed.

Corollary gen_combined_checker_is_run_checks : forall fcs m,
  Gen.C15Validate.combined_checker
    (fun n => match n with 1%nat => Gen.C15Validate.checker_1 | _ => Gen.C15Validate.checker_2 end) fcs m
  = run_checks (untag fcs) m.
Proof.
  intros. apply gen_combined_checker_agrees. intros [|[|n]] st x;
    [apply gen_checker_2_agrees | apply gen_checker_1_agrees | apply gen_checker_2_agrees].
Qed.

(* non-vacuity *)
Example gen_validate_answers :
  let env : senv := [(1%N, [(2%N, (true, TInt)); (4%N, (true, TAny))])] in
  (* from a field of type any to an int field: a run-time checker for the target path *)
  option_map (option_map untag) (Gen.C15Validate.validate_field_mapping env (TStruct 1) (TStruct 1) [([4%N], [2%N])]) = Some (Some [([2%N], TInt)])
  (* two steps below the interface-typed field *)
  /\ option_map (option_map untag) (Gen.C15Validate.validate_field_mapping env (TStruct 1) (TStruct 1) [([4%N; 7%N; 8%N], [2%N])]) = Some (Some [([2%N], TInt)])
  /\ Gen.C15Validate.validate_field_mapping env (TStruct 1) (TStruct 1) [([2%N], [2%N])] = Some (Some [])
  /\ Gen.C15Validate.validate_field_mapping env (TStruct 1) TInt [([2%N], [2%N])] = Some None
  /\ Gen.C15Validate.validate_field_mapping env (TStruct 1) (TStruct 1) [([], [])] = Some None
  /\ Gen.C15Validate.combined_checker (fun _ => check_value) [([2%N], (2%nat, TInt))] [([2%N], VStr "s")] = Err ECheck
  /\ Gen.C15Validate.combined_checker (fun _ => check_value) [([2%N], (2%nat, TInt))] [([2%N], VInt 5); ([4%N], VNil)] = Ok [([2%N], VInt 5); ([4%N], VNil)]
  /\ Gen.C15Validate.combined_checker (fun _ => check_value) [([2%N], (2%nat, TInt))] [([4%N], VNil)] = Ok [([4%N], VNil)].
Proof. repeat split; reflexivity. Qed.

(* ------------------------------------------------------------------ takeOne *)

(* what fieldMap does with takeOne's result: the taken value, or the class of the error *)
Definition gres_res {A B} (f : A -> B) (r : gres A) : res B :=
  match r with GOk a => Ok (f a) | GErr e => Err (gerr_class e) end.

(* takeOne on reflect.ValueOf(v), with the (non-nil) type fieldMap passes along, is the model's take_one:
   the same value is taken, the same class of error (key not found / anything else) is returned, and
   no reflect call panics — for every value, well typed or not *)
Theorem gen_take_one_agrees : forall env v ot f,
  (v <> VNil -> ot <> None) ->
  option_map (gres_res fst) (Gen.C15TakeOne.take_one env (rv_of v) ot f) = Some (take_one env v f).
Proof.
  intros env v ot f Hot. unfold Gen.C15TakeOne.take_one.
  assert (Ht : forall z, v = VInt z \/ (exists s, v = VStr s) -> exists t, ot = Some t).
  { intros z Hv. destruct ot as [t|]; [exists t; reflexivity|]. exfalso. apply Hot; [|reflexivity].
    destruct Hv as [->|[s ->]]; discriminate. }
  destruct v as [|z|s|n fs|u [w|]|ks e [es|]]; cbn [rv_of rv_is_valid negb].
  - (* nil *) reflexivity.
  - (* int *) destruct (Ht z (or_introl eq_refl)) as [t ->]. cbn -[rt_kind_is]. destruct (rt_kind_is _ t); reflexivity.
  - (* string *) destruct (Ht 0%Z (or_intror (ex_intro _ s eq_refl))) as [t ->]. cbn -[rt_kind_is]. destruct (rt_kind_is _ t); reflexivity.
  - (* struct *)
    cbn -[lookup_field]. unfold Gen.C15TakeOne.check_and_extract_from_field, rv_field_by_name, take_field. cbn -[lookup_field].
    destruct (lookup_field env n f) as [[[|] ft]|]; cbn; reflexivity.
  - (* pointer *)
    cbn -[lookup_field]. destruct (is_any u) eqn:Hu.
    + destruct w; cbn; rewrite ?Hu; reflexivity.
    + destruct w as [|z|s|n fs|u' o|ks e o]; cbn -[lookup_field]; rewrite ?Hu; try reflexivity.
      unfold Gen.C15TakeOne.check_and_extract_from_field, rv_field_by_name, take_field. cbn -[lookup_field].
      destruct (lookup_field env n f) as [[[|] ft]|]; cbn; reflexivity.
  - (* nil pointer *) reflexivity.
  - (* map *)
    cbn. unfold Gen.C15TakeOne.check_and_extract_from_map_key. cbn.
    destruct ks; cbn; [|reflexivity]. destruct (aget f es); reflexivity.
  - (* nil map *)
    cbn. unfold Gen.C15TakeOne.check_and_extract_from_map_key. cbn.
    destruct ks; reflexivity.
Qed.

(* the type takeOne hands back for the next step is not the nil reflect.Type when the taken value is not nil *)
Lemma rv_interface_type : forall r x t, rv_interface r = Some x -> rv_type r = Some t -> x <> VNil -> t <> None.
Proof.
  intros [a|] x t Hi Ht Hx; [|discriminate]. unfold rv_interface in Hi. unfold rv_type in Ht.
  destruct (rv_can a); [|discriminate]. inversion Hi; inversion Ht; subst.
  destruct (rv_iface a); [discriminate|]. destruct (rv_val a); try discriminate. contradiction.
Qed.

Lemma gen_take_one_type : forall env r ot f x t,
  Gen.C15TakeOne.take_one env r ot f = Some (GOk (x, t)) -> x <> VNil -> t <> None.
Proof.
  intros env r ot f x t H Hx. unfold Gen.C15TakeOne.take_one in H.
  repeat match type of H with
         | context [match ?e with _ => _ end] => let E := fresh "E" in destruct e eqn:E; try discriminate
         | context [if ?e then _ else _] => let E := fresh "E" in destruct e eqn:E; try discriminate
         end;
    inversion H; subst; eapply rv_interface_type; eauto.
Qed.

(* the second result: the type handed back for the next step is never the nil reflect.Type when a value is
   taken from a well-formed value ... (fieldMap only passes it on to takeOne, which looks at it in the error
   branch of a non-walkable value, where it is the type of a valid Value) *)
Example gen_take_one_answers :
  let env : senv := [(1%N, [(2%N, (true, TInt)); (3%N, (false, TInt)); (4%N, (true, TAny))])] in
  Gen.C15TakeOne.take_one env (rv_of (VStruct 1 [(2%N, VInt 5)])) (Some (TStruct 1)) 2%N = Some (GOk (VInt 5, Some TInt))
  /\ Gen.C15TakeOne.take_one env (rv_of (VStruct 1 [])) (Some (TStruct 1)) 4%N = Some (GOk (VNil, Some TAny))
  /\ Gen.C15TakeOne.take_one env (rv_of (VStruct 1 [])) (Some (TStruct 1)) 3%N = Some (GErr GErrOther)
  /\ Gen.C15TakeOne.take_one env (rv_of (VPtr (TStruct 1) None)) (Some (TPtr (TStruct 1))) 2%N = Some (GErr GErrOther)
  /\ Gen.C15TakeOne.take_one env (rv_of (VMap true TAny (Some []))) (Some (TMap true TAny)) 2%N = Some (GErr GErrKey)
  /\ Gen.C15TakeOne.take_one env (rv_of VNil) None 2%N = Some (GErr GErrIface)
  /\ Gen.C15TakeOne.take_one env (rv_of (VInt 1)) (Some TAny) 2%N = Some (GErr GErrIface).
Proof. repeat split; reflexivity. Qed.

(* ------------------------------------------------------------------ fieldMap *)

Definition po_res (o : path_outcome) : option (res val) :=
  match o with PDone x => Some (Ok x) | PReturn e => Some (Err (gerr_class e)) | PContinueOuter => None end.

(* what fieldMap does with the outcome of walking one source path: a missing key skips the mapping in Stream *)
Definition tp_res (allow : bool) (r : res val) : option (res val) :=
  match r with
  | Err e => if N.eqb e EKey && allow then None else Some (Err e)
  | x => Some x
  end.

Lemma gen_from_path_loop_agrees : forall env allow p cur ot,
  (cur <> VNil -> ot <> None) ->
  option_map po_res (Gen.C15FieldMap.from_path_loop env allow (rv_of cur) ot cur p)
  = Some (tp_res allow (take_path env cur p)).
Proof.
  intros env allow p; induction p as [|f rest IH]; intros cur ot Hot.
  - reflexivity.
  - cbn [Gen.C15FieldMap.from_path_loop take_path].
    pose proof (gen_take_one_agrees env cur ot f Hot) as H.
    destruct (Gen.C15TakeOne.take_one env (rv_of cur) ot f) as [[[x t]|e]|] eqn:E; cbn in H; [| |discriminate].
    + injection H as H1. rewrite <- H1. cbn [res_bind].
      destruct rest as [|g rest'].
      * reflexivity.
      * cbn [rt_more]. apply IH. intro Hx. exact (gen_take_one_type _ _ _ _ _ _ E Hx).
    + injection H as H1. rewrite <- H1. cbn [res_bind]. destruct e; cbn; destruct allow; reflexivity.
Qed.

Definition gres_id {A} (r : gres A) : res A := gres_res (fun a => a) r.

Lemma gen_mappings_loop_agrees : forall env allow input ms iv acc,
  iv = None \/ iv = rv_of input ->
  option_map gres_id (Gen.C15FieldMap.mappings_loop env allow input iv acc ms)
  = Some (field_map env ms allow input acc).
Proof.
  intros env allow input ms; induction ms as [|[from to] ms IH]; intros iv acc Hiv.
  - reflexivity.
  - cbn [Gen.C15FieldMap.mappings_loop field_map fst snd].
    destruct from as [|f r].
    + cbn. apply IH. exact Hiv.
    + cbn [list_is_empty].
      (* whichever branch computes it, inputValue is reflect.ValueOf(input) from here on *)
      assert (Hstep : forall ot, (input <> VNil -> ot <> None) ->
        option_map gres_id
          match Gen.C15FieldMap.from_path_loop env allow (rv_of input) ot input (f :: r) with
          | None => None
          | Some (PReturn err) => Some (GErr err)
          | Some PContinueOuter => Gen.C15FieldMap.mappings_loop env allow input (rv_of input) acc ms
          | Some (PDone taken) => Gen.C15FieldMap.mappings_loop env allow input (rv_of input) (fm_set to taken acc) ms
          end
        = Some match take_path env input (f :: r) with
               | Ok x => field_map env ms allow input (fm_set to x acc)
               | Err e => if N.eqb e EKey && allow then field_map env ms allow input acc else Err e
               | Panic => Panic
               end).
      { intros ot Hot. pose proof (gen_from_path_loop_agrees env allow (f :: r) input ot Hot) as H.
        set (tp := take_path env input (f :: r)) in *.
        destruct (Gen.C15FieldMap.from_path_loop env allow (rv_of input) ot input (f :: r)) as [[x|e|]|];
          cbn [option_map po_res] in H; [| | |discriminate].
        - destruct tp as [y|e'|]; cbn [tp_res] in H.
          + inversion H; subst. apply IH. right; reflexivity.
          + destruct (N.eqb e' EKey && allow); discriminate.
          + discriminate.
        - destruct tp as [y|e'|]; cbn [tp_res] in H.
          + discriminate.
          + destruct (N.eqb e' EKey && allow); [discriminate|]. inversion H; subst. reflexivity.
          + discriminate.
        - destruct tp as [y|e'|]; cbn [tp_res] in H; try discriminate.
          destruct (N.eqb e' EKey && allow); [|discriminate]. apply IH. right; reflexivity. }
      assert (Hin : forall iv', iv' = rv_of input ->
        option_map gres_id
          (let pathInputValue := iv' in let pathInputType : option ty := None in let taken := input in
           if rv_is_valid iv' then
             match rv_type iv' with
             | None => None
             | Some pathInputType =>
                 match Gen.C15FieldMap.from_path_loop env allow pathInputValue pathInputType taken (f :: r) with
                 | None => None
                 | Some (PReturn err) => Some (GErr err)
                 | Some PContinueOuter => Gen.C15FieldMap.mappings_loop env allow input iv' acc ms
                 | Some (PDone taken0) => Gen.C15FieldMap.mappings_loop env allow input iv' (fm_set to taken0 acc) ms
                 end
             end
           else
             match Gen.C15FieldMap.from_path_loop env allow pathInputValue pathInputType taken (f :: r) with
             | None => None
             | Some (PReturn err) => Some (GErr err)
             | Some PContinueOuter => Gen.C15FieldMap.mappings_loop env allow input iv' acc ms
             | Some (PDone taken0) => Gen.C15FieldMap.mappings_loop env allow input iv' (fm_set to taken0 acc) ms
             end)
        = Some match take_path env input (f :: r) with
               | Ok x => field_map env ms allow input (fm_set to x acc)
               | Err e => if N.eqb e EKey && allow then field_map env ms allow input acc else Err e
               | Panic => Panic
               end).
      { intros iv' ->. cbv zeta. destruct input as [|z|s|n fs|u o|ks e o]; cbn [rv_of rv_is_valid rv_type rv_iface rv_val dyn];
          first [ apply (Hstep None); intro Hc; exfalso; apply Hc; reflexivity
                | apply Hstep; intros _; discriminate ]. }
      destruct Hiv as [->| ->].
      * cbn [rv_is_valid negb]. apply Hin. reflexivity.
      * assert (Hsame : forall (b : bool) (A : option (gres fmap)), (if b then A else A) = A) by (intros []; reflexivity).
        cbv zeta. rewrite Hsame. exact (Hin (rv_of input) eq_refl).
Qed.

(* fieldMap(mappings, allowMapKeyNotFound)(input) = the model's field_map started with the empty map: the same
   map of mapped values, or an error of the same class, and no reflect call panics — for every value *)
Theorem gen_field_map_agrees : forall env ms allow input,
  option_map gres_id (Gen.C15FieldMap.field_map env ms allow input) = Some (field_map env ms allow input []).
Proof. intros. unfold Gen.C15FieldMap.field_map. apply gen_mappings_loop_agrees. left; reflexivity. Qed.

Corollary gen_stream_field_map_chunk_agrees : forall env ms chunk,
  option_map gres_id (Gen.C15FieldMap.stream_field_map_chunk env ms chunk) = Some (field_map env ms true chunk []).
Proof. intros. apply gen_field_map_agrees. Qed.

Example gen_field_map_answers :
  let env : senv := [(1%N, [(2%N, (true, TInt)); (4%N, (true, TAny))])] in
  let src := VStruct 1 [(2%N, VInt 5); (4%N, VMap true TAny (Some [(7%N, VStr "s")]))] in
  Gen.C15FieldMap.field_map env [([2%N], [9%N]); ([4%N; 7%N], [8%N]); ([], [6%N])] false src
    = Some (GOk [([9%N], VInt 5); ([8%N], VStr "s"); ([6%N], src)])
  /\ Gen.C15FieldMap.field_map env [([4%N; 3%N], [8%N]); ([2%N], [9%N])] false src = Some (GErr GErrKey)
  /\ Gen.C15FieldMap.field_map env [([4%N; 3%N], [8%N]); ([2%N], [9%N])] true src = Some (GOk [([9%N], VInt 5)])
  /\ Gen.C15FieldMap.field_map env [([2%N; 3%N], [8%N])] true src = Some (GErr GErrOther)
  /\ Gen.C15FieldMap.field_map env [([2%N], [8%N])] true VNil = Some (GErr GErrIface).
Proof. repeat split; reflexivity. Qed.
