(* Proofs/GenAgreeC15.v — translator tie of property C15 (DESIGN §13a, mechanism 2): the Gallina
   functions that tools/go2v re-generates on every run from the CURRENT source of

     compose/field_mapping.go : extractFieldType / checkAndExtractFieldType   (Gen/C15FieldType.v)
     compose/workflow.go      : ( *WorkflowNode).checkAndAddMappedPath          (Gen/C15MappedPath.v)
     compose/workflow.go      : canonicalTargetPath                            (Gen/C15Canonical.v)

   by statement-by-statement translation are extensionally the functions of Model/FieldMap.v and
   Model/FieldMapPromote.v that the C15 theorems are about ([extract_ty], [tinsert_all] on the
   declaration's target paths, [expand]) — for every struct environment, promotion table, type, path,
   trie and path list, with the partial operations (reflect's Elem / Key / FieldByName on a type of
   the wrong kind, a type assertion on a value of another type, a write into a nil map: all panic in
   Go, [None] here) shown never to be reached.  An edit of one of the Go functions that changes its
   meaning (a dropped test, a reordered dereference, another result) makes this file stop compiling. *)
From Eino Require Import Base.Util Base.FMUniverse Model.FieldMap Model.FieldMapPromote Model.FieldMapGenLib
  Proofs.FieldMapOverlap Proofs.FieldMapAssign.
From Eino Require Gen.C15FieldType Gen.C15MappedPath Gen.C15Canonical.

(* ------------------------------------------------------------------ extractFieldType *)

Lemma gen_extract_loop_agrees : forall env target p t,
  Gen.C15FieldType.extract_field_type_loop env target t p = Some (extract_ty env t p).
Proof.
  intros env target p; induction p as [|f rest IH]; intros t.
  - reflexivity.
  - destruct t as [| | |n|u|ks e]; cbn [Gen.C15FieldType.extract_field_type_loop extract_ty];
      unfold rt_kind_is; cbn.
    + reflexivity.
    + reflexivity.
    + destruct rest; cbn; [apply IH|reflexivity].
    + destruct (lookup_field env n f) as [[[|] ft]|]; cbn; try reflexivity;
        destruct target; cbn; apply IH.
    + destruct u as [| | |n|u'|ks e]; cbn; try reflexivity.
      destruct (lookup_field env n f) as [[[|] ft]|]; cbn; try reflexivity;
        destruct target; cbn; apply IH.
    + destruct ks; cbn; [apply IH|reflexivity].
Qed.

Theorem gen_extract_field_type_agrees : forall env p t target,
  Gen.C15FieldType.extract_field_type env p t target = Some (extract_ty env t p).
Proof. intros; unfold Gen.C15FieldType.extract_field_type; cbn; apply gen_extract_loop_agrees. Qed.

Theorem gen_check_and_extract_field_type_agrees : forall env p t,
  Gen.C15FieldType.check_and_extract_field_type env p t = Some (extract_ty env t p).
Proof. intros; apply gen_extract_field_type_agrees. Qed.

(* non-vacuity: the generated function gives each kind of answer *)
Example gen_extract_answers :
  let env : senv := [(1%N, [(2%N, (true, TPtr (TStruct 1))); (3%N, (false, TInt)); (4%N, (true, TAny)); (5%N, (true, TPtr TAny))])] in
  Gen.C15FieldType.extract_field_type env [2%N; 2%N; 4%N] (TStruct 1) true = Some (SOk TAny false)
  /\ Gen.C15FieldType.extract_field_type env [4%N; 7%N; 8%N] (TPtr (TStruct 1)) false = Some (SOk TAny true)
  /\ Gen.C15FieldType.extract_field_type env [3%N] (TStruct 1) false = Some SErr
  /\ Gen.C15FieldType.extract_field_type env [5%N; 7%N] (TStruct 1) false = Some SErr
  /\ Gen.C15FieldType.extract_field_type env [7%N] (TMap false TInt) false = Some SErr
  /\ Gen.C15FieldType.extract_field_type env [7%N] (TMap true TInt) true = Some (SOk TInt false).
Proof. repeat split; reflexivity. Qed.

(* ------------------------------------------------------------------ checkAndAddMappedPath *)

(* a cursor that is attached to the root *)
Definition att (cs : list (N * trie)) (up : list (N * list (N * trie))) : cursor :=
  {| cu_m := cs; cu_up := up; cu_detached := false; cu_nil := false |}.

Lemma gen_add_path_loop_agrees : forall p cs up,
  p <> [] ->
  match tinsert_sub p cs with
  | None => Gen.C15MappedPath.add_path_loop (att cs up) p = Some None
  | Some cs' => exists cs2 up2,
      Gen.C15MappedPath.add_path_loop (att cs up) p = Some (Some (att cs2 up2))
      /\ zip_up cs2 up2 = zip_up cs' up
  end.
Proof.
  induction p as [|f rest IH]; intros cs up Hne; [congruence|].
  cbn [Gen.C15MappedPath.add_path_loop tinsert_sub].
  unfold cur_lookup. change (cu_m (att cs up)) with cs.
  destruct (aget f cs) as [[|cs1]|] eqn:Hg.
  - (* an already mapped path ends here *)
    reflexivity.
  - destruct rest as [|g rest'].
    + reflexivity.
    + cbn [v_is_terminal v_val rt_more negb cur_descend v_at cu_m cu_up cu_detached].
      specialize (IH cs1 ((f, cs) :: up) ltac:(discriminate)).
      fold (att cs1 ((f, cs) :: up)).
      destruct (tinsert_sub (g :: rest') cs1) as [cs1'|].
      * destruct IH as [cs2 [up2 [H1 H2]]]. exists cs2, up2. split; [exact H1|]. rewrite H2. reflexivity.
      * exact IH.
  - destruct rest as [|g rest'].
    + cbn. exists (ains f Term cs), up. split; reflexivity.
    + cbn [v_is_terminal v_val rt_more negb cur_store_var cu_nil v_make cur_descend v_at cu_m cu_up cu_detached].
      specialize (IH [] ((f, ains f (Node []) cs) :: up) ltac:(discriminate)).
      fold (att [] ((f, ains f (Node []) cs) :: up)).
      destruct (tinsert_sub (g :: rest') []) as [cs1'|].
      * destruct IH as [cs2 [up2 [H1 H2]]]. exists cs2, up2. split; [exact H1|]. rewrite H2.
        cbn [zip_up]. rewrite ains_ains_same. reflexivity.
      * exact IH.
Qed.

Lemma gen_check_add_loop_agrees : forall canon paths t,
  Gen.C15MappedPath.check_add_loop canon (Some t) paths
  = Some (option_map Some (tinsert_all (map canon paths) t)).
Proof.
  intros canon paths; induction paths as [|tp rest IH]; intros t.
  - reflexivity.
  - cbn [Gen.C15MappedPath.check_add_loop map tinsert_all].
    destruct t as [|cs]; [reflexivity|].
    cbn [root_as_map negb tinsert].
    destruct (canon tp) as [|f r] eqn:Hc.
    + cbn [list_is_empty]. destruct cs as [|c cs]; [|reflexivity].
      cbn. apply IH.
    + cbn [list_is_empty].
      pose proof (gen_add_path_loop_agrees (f :: r) cs [] ltac:(discriminate)) as H.
      change (cursor_at_root cs) with (att cs []).
      destruct (tinsert_sub (f :: r) cs) as [cs'|].
      * destruct H as [cs2 [up2 [H1 H2]]]. rewrite H1.
        unfold cur_commit. cbn [cu_detached att cu_m cu_up]. rewrite H2. cbn [zip_up option_map].
        apply IH.
      * rewrite H. reflexivity.
Qed.

Theorem gen_check_and_add_mapped_path_agrees : forall canon root paths,
  Gen.C15MappedPath.check_and_add_mapped_path canon root paths
  = Some (option_map Some
      (tinsert_all (map canon (match paths with [] => [[]] | _ => paths end))
                   (match root with Some t => t | None => Node [] end))).
Proof.
  intros canon root paths. unfold Gen.C15MappedPath.check_and_add_mapped_path.
  destruct root as [t|]; cbn [root_present negb]; destruct paths as [|p ps]; cbn [list_is_empty];
    apply gen_check_add_loop_agrees.
Qed.

(* ------------------------------------------------------------------ canonicalTargetPath *)

Lemma gen_canonical_loop_agrees : forall env pe p t acc,
  Gen.C15Canonical.canonical_loop env pe (Some t) acc p = Some (acc ++ expand env pe t p).
Proof.
  intros env pe p; induction p as [|f rest IH]; intros t acc.
  - cbn. rewrite app_nil_r. reflexivity.
  - assert (Hstruct : forall n,
      match rt_field_by_name_p env pe (TStruct n) f with
      | None => None
      | Some found =>
          let ok := match found with Some _ => true | None => false end in
          let f0 := match found with Some pf => pf | None => {| pf_type := TStruct n; pf_chain_names := [] |} end in
          if negb ok then Some (acc ++ f :: rest)
          else Gen.C15Canonical.canonical_loop env pe (Some (pf_type f0)) ((acc ++ pf_chain_names f0) ++ [f]) rest
      end = Some (acc ++ (let c := promoted pe n f in
                          match chain_ty env (TStruct n) (c ++ [f]) with
                          | Some ft => c ++ f :: expand env pe ft rest
                          | None => f :: rest
                          end))).
    { intros n. unfold rt_field_by_name_p. cbv zeta.
      destruct (chain_ty env (TStruct n) (promoted pe n f ++ [f])) as [ft|]; cbn [negb pf_type pf_chain_names].
      - rewrite IH. f_equal. rewrite <- !app_assoc. reflexivity.
      - reflexivity. }
    destruct t as [| | |n|u|ks e]; cbn [Gen.C15Canonical.canonical_loop expand deref1]; unfold rt_kind_is; cbn [kind_name String.eqb Ascii.eqb Bool.eqb negb rt_elem].
    + reflexivity.
    + reflexivity.
    + reflexivity.
    + apply Hstruct.
    + destruct u as [| | |n|u'|ks e]; cbn [kind_name String.eqb Ascii.eqb Bool.eqb negb]; try reflexivity.
      apply Hstruct.
    + rewrite IH. rewrite <- app_assoc. reflexivity.
Qed.

Theorem gen_canonical_target_path_agrees : forall env pe t p,
  Gen.C15Canonical.canonical_target_path env pe (Some t) p = Some (expand env pe t p).
Proof. intros. unfold Gen.C15Canonical.canonical_target_path. apply gen_canonical_loop_agrees. Qed.

(* a node whose input type the graph does not know: the path is kept as it is *)
Theorem gen_canonical_target_path_untyped : forall env pe p,
  Gen.C15Canonical.canonical_target_path env pe None p = Some p.
Proof. intros env pe [|f rest]; reflexivity. Qed.

(* ------------------------------------------------------------------ the two together: one AddInput

   checkAndAddMappedPath calls canonicalTargetPath(n.inputType(), ·) on every target path; with the
   node's input type T that is the model's elaboration [expand env pe T] (previous theorem), and
   the whole call is the insertion of the ELABORATED declaration's target paths into the trie — the
   step [compile_from] (Model/FieldMap.v) takes for every declaration of [compile_x]. *)
Corollary gen_add_input_overlap_agrees : forall env pe T d t,
  (forall p, Gen.C15Canonical.canonical_target_path env pe (Some T) p = Some (expand env pe T p)) /\
  Gen.C15MappedPath.check_and_add_mapped_path (expand env pe T) (Some t) (map snd (d_maps d))
  = Some (option_map Some (tinsert_all (decl_paths (expand_decl env pe T d)) t)).
Proof.
  intros env pe T d t. split; [intro p; apply gen_canonical_target_path_agrees|].
  rewrite gen_check_and_add_mapped_path_agrees. unfold decl_paths, expand_decl; cbn [d_maps].
  destruct (d_maps d) as [|m ms]; [reflexivity|].
  cbn [map snd fst]. repeat f_equal. rewrite !map_map. reflexivity.
Qed.

(* non-vacuity: the generated functions accept, reject, and spell promoted names out *)
Example gen_check_and_add_answers :
  let id := fun p : path => p in
  Gen.C15MappedPath.check_and_add_mapped_path id None [[1%N; 2%N]; [1%N; 3%N]]
    = Some (Some (Some (Node [(1%N, Node [(2%N, Term); (3%N, Term)])])))
  /\ Gen.C15MappedPath.check_and_add_mapped_path id (Some (Node [(1%N, Node [(2%N, Term)])])) [[1%N]] = Some None
  /\ Gen.C15MappedPath.check_and_add_mapped_path id (Some (Node [(1%N, Term)])) [[1%N; 2%N]] = Some None
  /\ Gen.C15MappedPath.check_and_add_mapped_path id None [] = Some (Some (Some Term))
  /\ Gen.C15MappedPath.check_and_add_mapped_path id (Some Term) [[1%N]] = Some None
  /\ Gen.C15MappedPath.check_and_add_mapped_path id (Some (Node [(1%N, Term)])) [] = Some None.
Proof. repeat split; reflexivity. Qed.

Example gen_canonical_answers :
  (* struct 1 { 5 : struct 2 (embedded); 6 : int }, struct 2 { 7 : int }; 7 is promoted through 5 *)
  let env : senv := [(1%N, [(5%N, (true, TStruct 2)); (6%N, (true, TInt))]); (2%N, [(7%N, (true, TInt))])] in
  let pe : penv := [(1%N, [(7%N, [5%N])])] in
  Gen.C15Canonical.canonical_target_path env pe (Some (TPtr (TStruct 1))) [7%N] = Some [5%N; 7%N]
  /\ Gen.C15Canonical.canonical_target_path env pe (Some (TMap true (TStruct 1))) [9%N; 7%N] = Some [9%N; 5%N; 7%N]
  /\ Gen.C15Canonical.canonical_target_path env pe (Some (TStruct 1)) [6%N; 7%N] = Some [6%N; 7%N]
  /\ Gen.C15Canonical.canonical_target_path env pe None [7%N] = Some [7%N].
Proof. repeat split; reflexivity. Qed.
