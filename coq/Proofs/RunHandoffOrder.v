(* Proofs/RunHandoffOrder.v — property C03, the composed system of Model/RunHandoff.v: whatever the
   interleaving of executors, collector and run loop,
   - eager mode: the run-loop component satisfies the invariant RI of Proofs/Eager.v, so two paths
     that return a value return the same value computed from the same executions feeding END, a
     value is never returned while a task feeding END is in flight, no node is started twice, and
     when every failing node feeds END all paths return the same outcome;
   - batch mode: every path that returns, returns what the canonical run (identity completion
     order) of Model/Confluence.v returns, with the same executions. *)
From Eino Require Import Base.Util Model.TaskMgr Model.Confluence Model.RunHandoff.
From Eino Require Import Proofs.TaskMgr Proofs.Confluence Proofs.Eager Proofs.RunHandoff.
From Coq Require Import Permutation.

Section EagerStep.
Variable g : graph.
Hypothesis Hnd : NoDup (map n_id g).
Hypothesis Hstart : ~ In START (map n_id g).

(* one iteration of the eager run loop from a state satisfying the run-loop invariant: any task
   in flight completes (without failing) and is resolved *)
Lemma ri_step s running O log n inp rest :
  RI g s running O log -> Permutation running ((n, inp) :: rest) -> n_fail n = 0%N ->
  match calc_next Dag g s [(n_id n, node_out (n_id n) inp)] with
  | NReturn vE => done_spec g vE log (ids_of rest)
  | NTasks ts s' => RI g s' (rest ++ ts) ((n_id n, node_out (n_id n) inp) :: O) (log ++ log_of ts)
  end.
Proof.
  intros R P Hf.
  assert (Hin : In (n, inp) running) by (apply (Permutation_in _ (Permutation_sym P)); left; reflexivity).
  destruct (ri_run _ _ _ _ _ R n inp Hin) as (A1 & A2 & A3 & A4 & A5).
  assert (Pids : Permutation (ids_of running) (n_id n :: ids_of rest)).
  { unfold ids_of. apply (Permutation_map (fun t : node * val => n_id (fst t))) in P. exact P. }
  assert (Est : forall y, started running O y <->
                          (In y (ids_of rest) \/ y = n_id n \/ In y (map fst O))).
  { intros y. unfold started. split.
    - intros [K|K]; [|auto]. apply (Permutation_in _ Pids) in K. destruct K as [K|K]; auto.
    - intros [K|[K|K]]; [left|left|right; exact K].
      + apply (Permutation_in _ (Permutation_sym Pids)). right; exact K.
      + apply (Permutation_in _ (Permutation_sym Pids)). left; auto. }
  pose proof (step_generic g Hnd Hstart s rest O log (n_id n) (node_out (n_id n) inp)) as G. cbv zeta in G.
  assert (Hnd2 : NoDup (ids_of rest ++ n_id n :: map fst O)).
  { apply (Permutation_NoDup (l := ids_of running ++ map fst O)); [|apply (ri_nd _ _ _ _ _ R)].
    eapply perm_trans; [apply Permutation_app_tail, Pids|]. simpl. apply Permutation_middle. }
  assert (Hx : ~ In (n_id n) (map fst O)).
  { apply NoDup_remove_2 in Hnd2. intros K. apply Hnd2. apply in_or_app. right; exact K. }
  specialize (G (CL_iff g _ _ _ _ Est (ri_cl _ _ _ _ _ R)) (ri_O _ _ _ _ _ R)
                (dv_node g n inp A1 Hf A3 A4) (ri_dom _ _ _ _ _ R)
                (or_intror (in_map n_id _ _ A1)) Hnd2).
  assert (Hrun : forall n0 i0, In (n0, i0) rest ->
           In n0 g /\ n_id n0 <> END /\ n_preds n0 <> [] /\ dins g (n_preds n0) i0 /\
           (forall p, In p (n_preds n0) -> In p (map fst O))).
  { intros n0 i0 K. apply (ri_run _ _ _ _ _ R). apply (Permutation_in _ (Permutation_sym P)). right; exact K. }
  assert (Hdone : forall n0, In n0 g -> In (n_id n0) (n_id n :: map fst O) ->
           forall p, In p (n_preds n0) -> In p (map fst O)).
  { intros n0 Hin0 [K|K] p Hp.
    - assert (n0 = n) by (apply (node_eq g Hnd); auto). subst n0. apply A5, Hp.
    - apply (ri_done _ _ _ _ _ R n0 Hin0 K p Hp). }
  specialize (G Hrun Hdone A2 (ri_noend _ _ _ _ _ R) (ri_log_nd _ _ _ _ _ R) (ri_log_in _ _ _ _ _ R)).
  assert (Hlst : forall y, In y (map fst log) <->
           ((In y (ids_of rest) \/ y = n_id n \/ In y (map fst O)) /\ y <> START)).
  { intros y. rewrite (ri_log_st _ _ _ _ _ R), Est. reflexivity. }
  specialize (G Hlst).
  destruct (calc_next Dag g s [(n_id n, node_out (n_id n) inp)]) as [vE|ts s'] eqn:Ec.
  - destruct G as (nE & B1 & B2 & B2' & B3 & B4).
    exists nE, ((n_id n, node_out (n_id n) inp) :: O).
    split; [exact B1|]. split; [exact B2|]. split; [exact B2'|]. split; [exact B3|]. split; [exact B4|].
    split; [|split; [|split; [|split]]].
    + intros n0 Hin0 K p Hp. right. apply (Hdone n0 Hin0 K p Hp).
    + intros y Hy. split.
      * intros K.
        clear -Hnd2 Hy K. induction (ids_of rest) as [|a r IHr]; simpl in *; [contradiction|].
        inversion Hnd2; subst. destruct Hy as [->|Hy]; [|auto].
        apply H1. apply in_or_app. right. exact K.
      * unfold ids_of in Hy. apply in_map_iff in Hy. destruct Hy as ([n0 i0] & <- & K).
        apply (Hrun _ _ K).
    + apply (ri_log_nd _ _ _ _ _ R).
    + apply (ri_log_in _ _ _ _ _ R).
    + intros y Hy Hne. apply Hlst. split; [|exact Hne]. destruct Hy as [K|K]; auto.
  - exact G.
Qed.


Lemma split_task_perm t run x rest : split_task t run = Some (x, rest) -> Permutation run (x :: rest).
Proof.
  revert x rest. induction run as [|y run IH]; simpl; intros x rest H; [discriminate|].
  destruct (N.eqb t (tid y)).
  - inversion H; subst. apply Permutation_refl.
  - destruct (split_task t run) as [[z r]|]; [|discriminate]. inversion H; subst.
    eapply perm_trans; [apply perm_skip, IH; reflexivity|apply perm_swap].
Qed.

(* what holds of the run-loop component along every path of the composed system (eager mode) *)
Definition EI (r : rl) : Prop :=
  match r_res r with
  | None => exists O, RI g (r_ch r) (r_run r) O (r_log r) /\ In START (map fst O)
  | Some (ODone v) => done_spec g v (r_log r) (ids_of (r_run r))
  | Some OFail => exists pick, fail_spec g pick
  | Some OFuel => False
  end.

(* the link between the two components while the run is going on *)
Definition busy (c : cpc) : Prop := match c with CWait | CGot _ | CTop _ | CFull _ => True | _ => False end.
Definition LK (s : st) (r : rl) : Prop :=
  r_res r = None ->
  List.length (r_run r) + List.length (r_col r) = List.length (epcs s) + List.length (r_exp r) /\
  match r_ph r with
  | PWait => collected s = r_col r /\ ~ busy (cp s)
  | PGot => r_exp r = [] /\
            ((collected s = r_col r /\ busy (cp s)) \/ (exists x, collected s = x :: r_col r /\ cp s = CIdle))
  end.

Lemma ei_init F : EI (rl_init false Dag g F).
Proof.
  unfold rl_init, EI. pose proof (start_ri g Hnd Hstart) as S0.
  destruct (start_next Dag g) as [vE|ts s]; simpl.
  - destruct S0 as (nE & B1 & B2 & B2' & B3 & B4).
    exists nE, [(START, input_val)].
    split; [exact B1|]. split; [exact B2|]. split; [exact B2'|]. split; [exact B3|]. split; [exact B4|].
    split; [|split; [|split; [|split]]].
    + intros n Hin [K|[]] p Hp. exfalso. apply Hstart. simpl in K. rewrite K. apply in_map, Hin.
    + intros y [].
    + constructor.
    + intros y i [].
    + intros y [K|[]] Hne. simpl in K. congruence.
  - unfold enter. destruct (existsb prefail ts) eqn:Epf; simpl.
    + exists (fun _ => 0). right. right. apply (prefail_in g s [] _ _ ts S0 Epf).
    + exists [(START, input_val)]. split; [exact S0|left; reflexivity].
Qed.

Lemma lk_init F : LK init (rl_init false Dag g F).
Proof.
  unfold rl_init, LK. destruct (start_next Dag g) as [vE|ts s]; simpl; [discriminate|].
  unfold enter. destruct (existsb prefail ts); simpl; [discriminate|].
  intros _. split; [lia|]. split; [reflexivity|tauto].
Qed.

Lemma nth_error_In_ex {A} (l : list A) x : In x l -> exists k, nth_error l k = Some x /\ k < List.length l.
Proof.
  intros H. destruct (In_nth_error _ _ H) as [k E]. exists k. split; [exact E|].
  apply nth_error_Some. congruence.
Qed.

Lemma fail_spec_of s running O log n i :
  RI g s running O log -> In START (map fst O) -> In (n, i) running -> failed (n, i) = true ->
  exists pick, fail_spec g pick.
Proof.
  intros R HS Hin Hf. destruct (nth_error_In_ex _ _ Hin) as (k & E & Hk).
  exists (fun _ => k). right. left. exists s, running, O, log, n, i.
  split; [exact R|]. split; [exact HS|]. split; [|exact Hf].
  rewrite Nat.mod_small by exact Hk. exact E.
Qed.

Lemma length_zero_nil {A} (l : list A) : List.length l = 0 -> l = [].
Proof. destruct l; [reflexivity|discriminate]. Qed.

Lemma ei_lk_step s r s' r' :
  reach s -> cstep false Dag g (s, r) (s', r') -> EI r -> LK s r -> EI r' /\ LK s' r'.
Proof.
  intros Rs Hs E L. pose proof (inv_reach s Rs) as I.
  inversion Hs; subst.
  - (* protocol step *)
    split; [exact E|]. unfold LK in *. intros Hn. specialize (L Hn). destruct L as [L1 L2].
    match goal with H : step s s' |- _ => rename H into St end.
    match goal with H : num s' = num s |- _ => rename H into En end.
    destruct (r_ph r').
    + destruct L2 as [Lc Lb].
      inversion St; subst; simpl in *; rewrite ?length_set in *;
        try (rewrite app_length in *; simpl in *; lia);
        try (split; [exact L1|split; [exact Lc|]]; rw_state s; simpl in *; tauto);
        try (exfalso; lia);
        try (exfalso; rw_state s; simpl in *; tauto).
      exfalso. split_or; rw_state s; simpl in *; tauto.
    + destruct L2 as [Le Ld].
      inversion St; subst; simpl in *; rewrite ?length_set in *;
        try (exfalso; lia);
        try (split; [exact L1|split; [exact Le|]];
             destruct Ld as [[Lc Lb]|(x0 & Lc & Lb)]; rw_state s; simpl in *;
             try (left; split; [assumption|exact Logic.I]); try (right; eauto; fail); try tauto; try discriminate; fail).
      split; [exact L1|split; [exact Le|]].
      destruct Ld as [[Lc Lb]|(x0 & Lc & Lb)].
      * right. exists x. split; [rewrite Lc; reflexivity|reflexivity].
      * exfalso. split_or; rw_state s; discriminate.
  - (* submit one *)
    split; [unfold EI, set_exp in *; simpl; exact E|].
    unfold LK, set_exp in *. simpl. intros Hn. specialize (L Hn). destruct L as [L1 L2].
    match goal with H : split_task _ _ = Some _ |- _ => pose proof (split_task_perm _ _ _ _ H) as P end.
    apply Permutation_length in P. simpl in P. rewrite app_length. simpl.
    split; [lia|]. destruct (r_ph r).
    + destruct L2 as [Lc Lb]. split; [exact Lc|]. destruct sy; simpl; tauto.
    + destruct L2 as [Le _]. rewrite Le in P. simpl in P. lia.
  - (* await *)
    split; [unfold EI, set_ph in *; simpl; exact E|].
    unfold LK, set_ph in *. simpl. intros Hn. specialize (L Hn). destruct L as [L1 L2].
    split; [exact L1|]. split; [assumption|]. left.
    match goal with H : r_ph r = PWait |- _ => rewrite H in L2 end.
    destruct L2 as [Lc _]. split; [exact Lc|exact Logic.I].
  - (* nothing outstanding *)
    split; [|unfold LK, set_res; simpl; discriminate].
    unfold EI, set_res in *. simpl.
    match goal with H : r_res r = None |- _ => rename H into Hn end.
    rewrite Hn in E. destruct E as (O & R & HS).
    specialize (L Hn). destruct L as [L1 L2].
    match goal with H : r_ph r = PWait |- _ => rewrite H in L2 end.
    match goal with H : r_exp r = [] |- _ => rewrite H in L1 end.
    destruct L2 as [Lc _].
    pose proof (i_count s' I) as C.
    match goal with H : cp s' = CIdle |- _ => rewrite H in C end.
    match goal with H : num s' = 0 |- _ => rewrite H in C end.
    simpl in C, L1. rewrite Lc in C.
    assert (Er : r_run r = []) by (apply length_zero_nil; lia).
    exists (fun _ => 0). left. exists (r_ch r), O, (r_log r). rewrite <- Er. auto.
  - discriminate.
  - (* resolve one *)
    match goal with H : resolve_eager _ _ _ = Some _ |- _ => rename H into Hr end.
    match goal with H : r_res r = None |- _ => rename H into Hn end.
    unfold resolve_eager in Hr.
    destruct (new_col s' r) as [|[t e] [|? ?]] eqn:Enc; try discriminate.
    destruct (split_task t (r_run r)) as [[x rest]|] eqn:Esp; [|discriminate].
    destruct (negb (Bool.eqb e (flag_of x))); [discriminate|].
    pose proof (split_task_perm _ _ _ _ Esp) as P.
    unfold EI in E. rewrite Hn in E. destruct E as (O & R & HS).
    specialize (L Hn). destruct L as [L1 L2].
    match goal with H : r_ph r = PGot |- _ => rewrite H in L2 end.
    destruct L2 as [Le Ld].
    destruct x as [n inp].
    destruct (failed (n, inp)) eqn:Ef.
    + inversion Hr; subst. split; [|unfold LK; simpl; discriminate].
      unfold EI; simpl. eapply fail_spec_of; try eassumption.
      apply (Permutation_in _ (Permutation_sym P)). left; reflexivity.
    + assert (Hf : n_fail n = 0%N).
      { unfold failed in Ef. simpl in Ef. apply negb_false_iff in Ef. apply N.eqb_eq in Ef. exact Ef. }
      pose proof (ri_step _ _ _ _ _ _ _ R P Hf) as G.
      unfold run_task in Hr. simpl fst in Hr. simpl snd in Hr.
      destruct (calc_next Dag g (r_ch r) [(n_id n, node_out (n_id n) inp)]) as [vE|ts ch'].
      * inversion Hr; subst. split; [unfold EI; simpl; exact G|unfold LK; simpl; discriminate].
      * inversion Hr; subst. unfold enter. destruct (existsb prefail ts) eqn:Epf; simpl.
        { split; [|unfold LK; simpl; discriminate].
          unfold EI; simpl. exists (fun _ => 0). right. right. eapply (prefail_in g); eassumption. }
        split.
        -- unfold EI. simpl. eexists. split; [exact G|right; exact HS].
        -- unfold LK. simpl. intros _.
           apply Permutation_length in P. simpl in P. rewrite Le in L1. simpl in L1.
           match goal with H : cp s' = CIdle |- _ => rename H into Hc end.
           destruct Ld as [[Lc Lb]|(x0 & Lc & _)]; [rewrite Hc in Lb; destruct Lb|].
           rewrite Lc. simpl. rewrite app_length. split; [lia|]. split; [reflexivity|rewrite Hc; tauto].
Qed.


Lemma creach_ei F x : creach false Dag g F x -> EI (snd x) /\ LK (fst x) (snd x).
Proof.
  induction 1 as [|[s r] [s' r'] Hr IH Hs]; simpl in *.
  - split; [apply ei_init|apply lk_init].
  - destruct IH as [E L]. eapply ei_lk_step; try eassumption.
    exact (creach_reach _ _ _ _ _ Hr).
Qed.

(* no node is started twice, whatever the outcome *)
Definition log_ok (log : exec_log) : Prop :=
  NoDup (map fst log) /\ forall y i, In (y, i) log -> y <> END /\ In y (map n_id g).

Lemma ri_log_ok s running O log : RI g s running O log -> log_ok log.
Proof.
  intros R. split; [apply (ri_log_nd _ _ _ _ _ R)|].
  intros y i K. destruct (ri_log_in _ _ _ _ _ R y i K) as (K1 & n & K2 & K3 & _).
  split; [exact K1|]. rewrite <- K3. apply in_map, K2.
Qed.

Lemma creach_log_ok F x : creach false Dag g F x -> log_ok (r_log (snd x)).
Proof.
  induction 1 as [|[s r] [s' r'] Hr IH Hs]; simpl in *.
  - pose proof (ei_init F) as E. unfold EI, rl_init in *.
    destruct (start_next Dag g) as [vE|ts s]; simpl in *.
    + split; [constructor|intros y i []].
    + unfold enter in *. destruct (existsb prefail ts); simpl in *.
      * split; [constructor|intros y i []].
      * destruct E as (O & R & _). eapply ri_log_ok; exact R.
  - assert (E' : EI r').
    { destruct (creach_ei F (s', r')) as [K _]; [eapply cr_step; eassumption|exact K]. }
    destruct (r_res r') eqn:Er.
    + (* returned: the log is the one of the state before *)
      assert (r_log r' = r_log r); [|congruence].
      inversion Hs; subst; try reflexivity; try discriminate.
      match goal with H : resolve_eager _ _ _ = Some _ |- _ => rename H into Hq end.
      unfold resolve_eager in Hq.
      destruct (new_col s' r) as [|[t e] [|? ?]]; try discriminate.
      destruct (split_task t (r_run r)) as [[x rest]|]; [|discriminate].
      destruct (negb (Bool.eqb e (flag_of x))); [discriminate|].
      destruct (failed x); [inversion Hq; reflexivity|].
      destruct (calc_next Dag g (r_ch r) [run_task x]) as [v|ts ch']; [inversion Hq; reflexivity|].
      unfold enter in Hq. destruct (existsb prefail ts); inversion Hq; subst; [reflexivity|discriminate].
    + unfold EI in E'. rewrite Er in E'. destruct E' as (O & R & _). eapply ri_log_ok; exact R.
Qed.

End EagerStep.

(* ================================================================== eager mode: the theorems *)

Theorem combined_eager_value_unique g F1 F2 s1 r1 s2 r2 v1 v2 :
  NoDup (map n_id g) -> ~ In START (map n_id g) ->
  creach false Dag g F1 (s1, r1) -> creach false Dag g F2 (s2, r2) ->
  r_res r1 = Some (ODone v1) -> r_res r2 = Some (ODone v2) ->
  v1 = v2 /\ Permutation (feeding g (r_log r1)) (feeding g (r_log r2)).
Proof.
  intros Hnd Hs C1 C2 E1 E2.
  destruct (creach_ei g Hnd Hs F1 _ C1) as [D1 _]. destruct (creach_ei g Hnd Hs F2 _ C2) as [D2 _].
  unfold EI in D1, D2. simpl in *. rewrite E1 in D1. rewrite E2 in D2.
  exact (done_unique g Hnd Hs _ _ _ _ _ _ D1 D2).
Qed.

Theorem combined_eager_confluent g F1 F2 s1 r1 s2 r2 o1 o2 :
  NoDup (map n_id g) -> ~ In START (map n_id g) -> failing_feed_end g ->
  creach false Dag g F1 (s1, r1) -> creach false Dag g F2 (s2, r2) ->
  r_res r1 = Some o1 -> r_res r2 = Some o2 ->
  o1 = o2 /\ (forall v, o1 = ODone v -> Permutation (feeding g (r_log r1)) (feeding g (r_log r2))).
Proof.
  intros Hnd Hs Hff C1 C2 E1 E2.
  destruct (creach_ei g Hnd Hs F1 _ C1) as [D1 _]. destruct (creach_ei g Hnd Hs F2 _ C2) as [D2 _].
  unfold EI in D1, D2. simpl in *. rewrite E1 in D1. rewrite E2 in D2.
  destruct o1 as [v1| |], o2 as [v2| |]; try contradiction.
  - destruct (done_unique g Hnd Hs _ _ _ _ _ _ D1 D2) as [-> P]. split; [reflexivity|intros _ _; exact P].
  - exfalso. destruct D2 as [pick D2]. exact (done_fail_absurd g Hnd Hs _ _ _ _ Hff D1 D2).
  - exfalso. destruct D1 as [pick D1]. exact (done_fail_absurd g Hnd Hs _ _ _ _ Hff D2 D1).
  - split; [reflexivity|discriminate].
Qed.

Theorem combined_eager_ancestors_finished g F s r v :
  NoDup (map n_id g) -> ~ In START (map n_id g) ->
  creach false Dag g F (s, r) -> r_res r = Some (ODone v) ->
  forall x, In x (ids_of (r_run r)) -> ~ In x (ancestors g).
Proof.
  intros Hnd Hs C E. destruct (creach_ei g Hnd Hs F _ C) as [D _]. unfold EI in D. simpl in D. rewrite E in D.
  exact (done_left g Hnd _ _ _ D).
Qed.

Theorem combined_eager_starts_once g F s r :
  NoDup (map n_id g) -> ~ In START (map n_id g) ->
  creach false Dag g F (s, r) ->
  NoDup (map fst (r_log r)) /\ (forall y i, In (y, i) (r_log r) -> y <> END /\ In y (map n_id g)).
Proof. intros Hnd Hs C. exact (creach_log_ok g Hnd Hs F _ C). Qed.

(* ================================================================== batch mode *)

Lemma split_task_in t run x rest : split_task t run = Some (x, rest) -> In x run.
Proof. intros H. apply (Permutation_in _ (Permutation_sym (split_task_perm _ _ _ _ H))). left; reflexivity. Qed.

Lemma lookup_all_spec es : forall run cts,
  lookup_all es run = Some cts -> map tid cts = map fst es /\ incl cts run.
Proof.
  induction es as [|[t e] es IH]; simpl; intros run cts H.
  - inversion H; subst. split; [reflexivity|intros x []].
  - destruct (split_task t run) as [[x rest]|] eqn:Es; [|discriminate].
    destruct (lookup_all es run) as [xs|] eqn:El; [|discriminate].
    destruct (Bool.eqb e (flag_of x)); [|discriminate]. inversion H; subst.
    destruct (IH _ _ El) as [A B]. split.
    + simpl. rewrite A. f_equal. eapply split_task_tid; exact Es.
    + intros y [<-|Hy]; [eapply split_task_in; exact Es|apply B, Hy].
Qed.

Lemma In_firstn {A} k (l : list A) x : In x (firstn k l) -> In x l.
Proof.
  revert k. induction l as [|a l IH]; intros [|k]; simpl; try tauto.
  intros [->|K]; [left; reflexivity|right; eapply IH; exact K].
Qed.

Lemma NoDup_firstn {A} k (l : list A) : NoDup l -> NoDup (firstn k l).
Proof.
  revert k. induction l as [|a l IH]; intros [|k] H; simpl; try constructor.
  - inversion H; subst. intros K. apply H2. eapply In_firstn; exact K.
  - inversion H; subst. apply IH; assumption.
Qed.

Lemma new_col_nodup s r : NoDup (map fst (collected s)) -> NoDup (map fst (new_col s r)).
Proof.
  intros H. unfold new_col. rewrite map_rev. apply NoDup_rev. rewrite <- firstn_map. apply NoDup_firstn, H.
Qed.

Lemma existsb_perm {A} (f : A -> bool) l l' : Permutation l l' -> existsb f l = existsb f l'.
Proof.
  induction 1; simpl; try congruence.
  destruct (f x), (f y); reflexivity.
Qed.

Section Batch.
Variables (m : mode) (g : graph) (F : nat).
Hypothesis Hnd : NoDup (map n_id g).

Definition BI (r : rl) : Prop :=
  match r_res r with
  | Some o => (o, r_log r) = batch (fun l => l) m g F
  | None => exists ch' log0, ceq (r_ch r) ch' /\ r_log r = log0 ++ log_of (r_run r) /\ tasks_ok (r_run r) /\
            existsb prefail (r_run r) = false /\
            run_batch (fun l => l) m g (S (r_fuel r)) ch' (r_run r) log0 = batch (fun l => l) m g F
  end.

Lemma bi_init : BI (rl_init true m g F).
Proof.
  unfold BI, rl_init, batch. destruct (start_next m g) as [v|ts ch] eqn:E; [simpl; reflexivity|].
  unfold enter. destruct F as [|f]; [simpl; reflexivity|].
  destruct (existsb prefail ts) eqn:Epf; [simpl; rewrite Epf; reflexivity|].
  cbn [r_res r_ch r_log r_run r_fuel]. exists ch, []. split; [apply ceq_refl|]. split; [reflexivity|]. split; [|split; [exact Epf|reflexivity]].
  eapply calc_next_tasks_ok; [exact Hnd|exact E].
Qed.

Lemma bi_step s r s' r' : reach s -> cstep true m g (s, r) (s', r') -> BI r -> BI r'.
Proof.
  intros Rs Hs B. inversion Hs; subst; try exact B; try discriminate.
  match goal with H : resolve_batch _ _ _ _ = Some _ |- _ => rename H into Hr end.
  match goal with H : r_res r = None |- _ => rename H into Hn end.
  unfold BI in B. rewrite Hn in B. destruct B as (ch' & log0 & Hc & Hl & Hok & Hpf & Hb).
  unfold resolve_batch in Hr.
  destruct (lookup_all (new_col s' r) (r_run r)) as [cts|] eqn:El; [|discriminate].
  destruct (Nat.eqb (List.length cts) (List.length (r_run r))) eqn:Elen; simpl in Hr; [|discriminate].
  apply Nat.eqb_eq in Elen.
  destruct (lookup_all_spec _ _ _ El) as [Hids Hincl].
  assert (Hndc : NoDup (map tid cts)).
  { rewrite Hids. apply new_col_nodup. destruct (exactly_once s' Rs) as (_ & _ & K & _). exact K. }
  assert (P : Permutation cts (r_run r)).
  { apply NoDup_Permutation_bis; [eapply NoDup_map_inv; exact Hndc|lia|exact Hincl]. }
  cbn [run_batch] in Hb. rewrite Hpf in Hb. rewrite <- Hl in Hb.
  rewrite <- (existsb_perm failed _ _ P) in Hb.
  destruct (existsb failed cts).
  { inversion Hr; subst. unfold BI; simpl. exact Hb. }
  destruct cts as [|c0 cts0].
  { simpl in Elen. symmetry in Elen. apply length_zero_nil in Elen. rewrite Elen in Hb.
    inversion Hr; subst. unfold BI; simpl. exact Hb. }
  destruct (r_run r) as [|t0 run0] eqn:Erun; [simpl in Elen; discriminate|].
  set (cts := c0 :: cts0) in *. set (run := t0 :: run0) in *.
  assert (K : next_eq (calc_next m g (r_ch r) (map run_task cts)) (calc_next m g ch' (map run_task run))).
  { apply calc_next_perm; [apply Permutation_map, P| |exact Hc].
    rewrite map_map. exact Hndc. }
  destruct (calc_next m g (r_ch r) (map run_task cts)) as [v|ts s1] eqn:E1;
    destruct (calc_next m g ch' (map run_task run)) as [v'|ts' s1'] eqn:E2; simpl in K; try contradiction.
  - subst v'. inversion Hr; subst. unfold BI; simpl. exact Hb.
  - destruct K as [<- K]. inversion Hr; subst. unfold BI, enter.
    destruct (r_fuel r) as [|f'] eqn:Ef; simpl.
    + exact Hb.
    + destruct (existsb prefail ts) eqn:Epf; simpl.
      * cbn [run_batch] in Hb. rewrite Epf in Hb. exact Hb.
      * exists s1', (r_log r). split; [exact K|]. split; [reflexivity|]. split; [|split; [exact Epf|exact Hb]].
        eapply calc_next_tasks_ok; [exact Hnd|exact E2].
Qed.

Lemma creach_bi x : creach true m g F x -> BI (snd x).
Proof.
  induction 1 as [|[s r] [s' r'] Hr IH Hs]; simpl in *; [apply bi_init|].
  eapply bi_step; try eassumption. exact (creach_reach _ _ _ _ _ Hr).
Qed.

End Batch.

(* whatever the interleaving, a batch run that returns, returns the outcome and the executions of
   the canonical run (every step resolved in submission order) *)
Theorem combined_batch_result m g F s r o :
  NoDup (map n_id g) -> creach true m g F (s, r) -> r_res r = Some o ->
  (o, r_log r) = batch (fun l => l) m g F.
Proof.
  intros Hnd C E. pose proof (creach_bi m g F Hnd _ C) as B. unfold BI in B. simpl in B. rewrite E in B. exact B.
Qed.

(* eager mode, every graph: two paths of the composed system that return, return the same outcome or
   one of them returns a failure *)
Theorem combined_eager_dichotomy g F1 F2 s1 r1 s2 r2 o1 o2 :
  NoDup (map n_id g) -> ~ In START (map n_id g) ->
  creach false Dag g F1 (s1, r1) -> creach false Dag g F2 (s2, r2) ->
  r_res r1 = Some o1 -> r_res r2 = Some o2 ->
  o1 = o2 \/ o1 = OFail \/ o2 = OFail.
Proof.
  intros Hnd Hs C1 C2 E1 E2.
  destruct (creach_ei g Hnd Hs F1 _ C1) as [D1 _]. destruct (creach_ei g Hnd Hs F2 _ C2) as [D2 _].
  unfold EI in D1, D2. simpl in *. rewrite E1 in D1. rewrite E2 in D2.
  destruct o1 as [v1| |], o2 as [v2| |]; try contradiction; auto.
  left. destruct (done_unique g Hnd Hs _ _ _ _ _ _ D1 D2) as [-> _]. reflexivity.
Qed.
