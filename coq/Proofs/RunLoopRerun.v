(* Proofs/RunLoopRerun.v — nodes that ask for InterruptAndRerun are transparent (owner: C05).

   Setting (flat graph, batch mode): a node either completes with [body k input] or — only if it is
   [rerunnable] — asks for a rerun; the uninterrupted run is the same loop in which every node completes
   at once, without interrupt points. A rerun interrupt saves a "mid-step" checkpoint: the outputs of
   the tasks that did complete are folded into the channels, the others are pending with the zero
   input, the state is the one after all pre-handlers of the step. What is asked of the surroundings:
     - the channel layer folds completed tasks compositionally and independently of their order
       (H_fold_app, H_fold_perm; exact for the Pregel channels, Proofs/InterruptChanPregel.v);
     - the pre-handler of a rerunnable node rebuilds, from the state it left behind, the input it
       handed to the aborted attempt, and leaves the state alone (H_rebuild; the property's own proviso).
   Result (partial correctness, any number of calls): whenever the run with rerun nodes and interrupt
   points, driven through the store, completes, it completes with the outcome of the uninterrupted run,
   and its completed (non-aborted) executions are, as a multiset, those of the uninterrupted run. *)
From Eino Require Import Base.Util Model.RunLoop Proofs.RunLoop.
From Coq Require Import Permutation.
Open Scope N_scope.

Section Rerun.
  Context {V CS GS ENV SCP SINFO : Type}.
  Variable zero : V.
  Variable fold : CS -> list (N * V) -> res CS.
  Variable getr : CS -> res (CS * list (N * V)).
  Variable pre : N -> V -> GS -> V * GS.
  Variable body : N -> V -> V.
  Variable rerunnable : N -> Prop.
  Variable execR : N -> option SCP -> V -> ENV -> @texec V SCP SINFO * ENV.
  Variable before after : list N.

  Notation taskT := (@task V SCP).
  Notation lstateT := (@lstate V CS GS SCP).
  Notation texecT := (@texec V SCP SINFO).
  Notation cptT := (@checkpoint V CS GS SCP).
  Notation infT := (@iinfo GS SINFO).
  Notation eventT := (@event V).
  Notation outcomeT := (@outcome V CS GS SCP SINFO).

  (* a body of the interrupted run completes like the uninterrupted one, or asks for a rerun *)
  Hypothesis H_execR : forall k v e,
    (exists e', execR k None v e = (TDone (body k v), e')) \/
    (rerunnable k /\ exists e', execR k None v e = (TRerun, e')).

  (* the uninterrupted run: every body completes; it has no environment *)
  Definition execU (k : N) (cp : option SCP) (v : V) (e : unit) : texecT * unit := (TDone (body k v), tt).

  Variable Inv : CS -> Prop.
  Hypothesis H_fold_inv : forall cs l cs', Inv cs -> fold cs l = Ok cs' -> Inv cs'.
  Hypothesis H_getr_inv : forall cs cs' r, Inv cs -> getr cs = Ok (cs', r) -> Inv cs'.
  Hypothesis H_fold_nil : forall cs, Inv cs -> fold cs [] = Ok cs.
  Hypothesis H_getr_idem : forall cs cs' r, Inv cs -> getr cs = Ok (cs', r) -> getr cs' = Ok (cs', []).
  Hypothesis H_getr_nodup : forall cs cs' r, Inv cs -> getr cs = Ok (cs', r) -> NoDup (map fst r).
  (* folding completed tasks is compositional ... *)
  Hypothesis H_fold_app : forall cs A B cs1, Inv cs -> fold cs A = Ok cs1 -> fold cs (A ++ B) = fold cs1 B.
  Hypothesis H_fold_prefix : forall cs A B r, Inv cs -> fold cs (A ++ B) = Ok r -> exists cs1, fold cs A = Ok cs1.
  (* ... and, for the tasks of one step (distinct nodes), independent of their order *)
  Hypothesis H_fold_perm : forall cs A B r, Inv cs -> NoDup (map fst A) -> Permutation A B ->
    fold cs A = Ok r -> fold cs B = Ok r.
  (* the states the pre-handlers work on (e.g. "the graph has a state") *)
  Variable GOK : GS -> Prop.
  Hypothesis H_pre_ok : forall k v gs, GOK gs -> GOK (snd (pre k v gs)).
  Hypothesis H_rebuild : forall (ts : list taskT) gs,
    GOK gs -> NoDup (map t_key ts) -> Forall fresh_task ts ->
    forall t', In t' (fst (run_pres pre ts gs)) -> rerunnable (t_key t') ->
      pre (t_key t') zero (snd (run_pres pre ts gs)) = (t_in t', snd (run_pres pre ts gs)).

  Notation decideR := (decide zero fold getr before after).
  Notation decideU := (decide zero fold getr [] []).
  Notation iterR := (iterate zero fold getr pre execR before after).
  Notation iterU := (iterate zero fold getr pre execU [] []).
  Notation resumeR := (resume zero fold getr pre execR before after).

  (* ---------------------------------------------------------------- *)
  (* what the bodies of a step produce                                 *)
  (* ---------------------------------------------------------------- *)
  Definition out_of_task (t : taskT) : N * V := (t_key t, body (t_key t) (t_in t)).
  Definition outs_of (D : list taskT) : list (N * V) := map out_of_task D.
  Definition ev_of (t : taskT) (ab : bool) : eventT :=
    {| ev_key := t_key t; ev_in := t_in t; ev_abort := ab; ev_skip := t_skip t |}.
  Definition good (l : list eventT) : list eventT := filter (fun ev => negb (ev_abort ev)) l.

  (* [xres ts rs D S]: the results [rs] of the tasks [ts] split them into the completed [D] and the
     ones that asked for a rerun [S] (both in task order) *)
  Inductive xres : list taskT -> list (N * texecT) -> list taskT -> list taskT -> Prop :=
  | xres_nil : xres [] [] [] []
  | xres_done : forall t ts rs D S, xres ts rs D S ->
      xres (t :: ts) ((t_key t, TDone (body (t_key t) (t_in t))) :: rs) (t :: D) S
  | xres_rerun : forall t ts rs D S, xres ts rs D S -> rerunnable (t_key t) ->
      xres (t :: ts) ((t_key t, TRerun) :: rs) D (t :: S).

  Lemma exec_all_xres : forall (ts : list taskT) env,
    Forall (fun t => t_cp t = None) ts ->
    exists D S, xres ts (fst (exec_all execR ts env)) D S.
  Proof.
    induction ts as [|t ts IH]; intros env Hc; simpl.
    - exists [], []. constructor.
    - inversion Hc as [|? ? Hc1 Hc2]; subst. rewrite Hc1.
      destruct (H_execR (t_key t) (t_in t) env) as [[e' He]|[Hr [e' He]]]; rewrite He;
        destruct (IH e' Hc2) as (D & S & Hx);
        destruct (exec_all execR ts e') as [rest env2]; simpl in *.
      + exists (t :: D), S. constructor; auto.
      + exists D, (t :: S). constructor; auto.
  Qed.

  Lemma exec_all_U : forall (ts : list taskT) e,
    exec_all execU ts e = (map (fun t => (t_key t, TDone (body (t_key t) (t_in t)))) ts, tt).
  Proof.
    induction ts as [|t ts IH]; intros e; simpl.
    - destruct e; reflexivity.
    - rewrite IH. reflexivity.
  Qed.

  Lemma xres_outs : forall ts rs D S, xres ts rs D S -> outs rs = outs_of D.
  Proof. induction 1; simpl; auto. unfold outs in *; simpl. f_equal; auto. Qed.
  Lemma xres_reruns : forall ts rs D S, xres ts rs D S -> reruns rs = map t_key S.
  Proof. induction 1; simpl; auto. unfold reruns in *; simpl. f_equal; auto. Qed.
  Lemma xres_subcps : forall ts rs D S, xres ts rs D S -> subcps rs = [].
  Proof. induction 1; simpl; auto. Qed.
  Lemma xres_subinfos : forall ts rs D S, xres ts rs D S -> subinfos rs = [].
  Proof. induction 1; simpl; auto. Qed.
  Lemma xres_no_fail : forall ts rs D S, xres ts rs D S -> first_fail rs = None.
  Proof. unfold first_fail. induction 1; simpl; auto. Qed.
  Lemma xres_perm : forall ts rs D S, xres ts rs D S -> Permutation (D ++ S) ts.
  Proof.
    induction 1; simpl; auto.
    apply Permutation_sym. apply Permutation_cons_app. apply Permutation_sym. exact IHxres.
  Qed.
  Lemma xres_rerunnable : forall ts rs D S, xres ts rs D S -> Forall (fun t => rerunnable (t_key t)) S.
  Proof. induction 1; auto. Qed.
  Lemma xres_nil_S_gen : forall ts rs D S, xres ts rs D S -> S = [] ->
    D = ts /\ rs = map (fun t => (t_key t, TDone (body (t_key t) (t_in t)))) ts.
  Proof.
    induction 1; intros HS; simpl; auto; try discriminate.
    destruct (IHxres HS) as [-> ->]. auto.
  Qed.
  Lemma xres_nil_S : forall ts rs D, xres ts rs D [] ->
    D = ts /\ rs = map (fun t => (t_key t, TDone (body (t_key t) (t_in t)))) ts.
  Proof. intros; eapply xres_nil_S_gen; eauto. Qed.
  Lemma xres_length : forall ts rs D S, xres ts rs D S -> List.length rs = List.length ts.
  Proof. induction 1; simpl; auto. Qed.
  Lemma xres_events : forall ts rs D S, xres ts rs D S ->
    Permutation (good (events_of ts rs)) (map (fun t => ev_of t false) D).
  Proof. induction 1; simpl; auto. Qed.
  Lemma xres_events_all : forall ts rs D S, xres ts rs D S ->
    events_of ts (map (fun t => (t_key t, @TDone V SCP SINFO (body (t_key t) (t_in t)))) ts) = map (fun t => ev_of t false) ts.
  Proof. intros ts rs D S _. induction ts; simpl; auto. f_equal; auto. Qed.

  (* ---------------------------------------------------------------- *)
  (* the tail of a step whose tasks all completed depends only on what  *)
  (* the channels deliver                                               *)
  (* ---------------------------------------------------------------- *)
  Definition finish (bf ha : list N) (gs1 : GS) (r : res (CS * list (N * V))) : @sres V CS GS SCP SINFO :=
    match r with
    | Ok (cs2, ready) =>
      match nlist_get kEnd ready with
      | Some v => Done v
      | None =>
        if is_nil (hits bf ready) && is_nil ha then
          Continue {| ls_cs := cs2; ls_next := map mk_task ready; ls_gs := gs1 |}
        else
          match calc fold getr cs2 [] with
          | Ok (cs4, ready2) =>
            match nlist_get kEnd ready2 with
            | Some v => Done v
            | None => plain_interrupt cs4 gs1 (ready ++ ready2) (hits bf ready ++ hits bf ready2) ha
            end
          | r' => Failed (chan_err r')
          end
      end
    | r' => Failed (chan_err r')
    end.

  Lemma decide_all_done : forall bf af cs (gs1 : GS) (rs : list (N * texecT)),
    first_fail rs = None -> subcps rs = [] -> reruns rs = [] -> rs <> [] ->
    decide zero fold getr bf af cs gs1 rs = finish bf (afters af rs) gs1 (calc fold getr cs (outs rs)).
  Proof.
    intros bf af cs gs1 rs Hf Hs Hr Hn. unfold decide, finish. rewrite Hf, Hs, Hr.
    assert (is_nil rs = false) as Hnil by (destruct rs; [congruence|reflexivity]).
    cbn [is_nil negb andb]. rewrite Hnil.
    destruct (calc fold getr cs (outs rs)) as [[cs2 ready]| |]; reflexivity.
  Qed.

  Lemma calc_facts : forall cs l cs2 ready,
    Inv cs -> calc fold getr cs l = Ok (cs2, ready) ->
    Inv cs2 /\ calc fold getr cs2 [] = Ok (cs2, []) /\ NoDup (map fst ready).
  Proof.
    unfold calc; intros cs l cs2 ready Hi H.
    destruct (fold cs l) as [cs1| |] eqn:Hf; simpl in H; try discriminate.
    assert (Inv cs1) by eauto. assert (Inv cs2) by eauto. repeat split; auto.
    - rewrite H_fold_nil by assumption. simpl. exact (H_getr_idem cs1 cs2 ready H0 H).
    - exact (H_getr_nodup cs1 cs2 ready H0 H).
  Qed.

  Definition WF (s : lstateT) : Prop :=
    Inv (ls_cs s) /\ fresh_state s /\ NoDup (map t_key (ls_next s)) /\ GOK (ls_gs s).

  Lemma run_pres_ok : forall (ts : list taskT) gs, GOK gs -> GOK (snd (run_pres pre ts gs)).
  Proof.
    induction ts as [|t ts IH]; intros gs Hg; simpl; auto.
    destruct (t_skip t).
    - specialize (IH gs Hg). destruct (run_pres pre ts gs); simpl in *; auto.
    - pose proof (H_pre_ok (t_key t) (t_in t) gs Hg) as Hg1.
      destruct (pre (t_key t) (t_in t) gs) as [v gs1]; simpl in *.
      specialize (IH gs1 Hg1). destruct (run_pres pre ts gs1); simpl in *; auto.
  Qed.

  Lemma hits_nil' : forall ready : list (N * V), hits [] ready = [].
  Proof. unfold hits; intros; induction (map fst ready); simpl; auto. Qed.

  Lemma save_mk : forall (cs : CS) (gs : GS) (ready : list (N * V)),
    ({| cp_cs := cs; cp_inputs := ready; cp_gs := gs; cp_skip := []; cp_subs := [] |} : cptT)
    = save {| ls_cs := cs; ls_next := map (@mk_task V SCP) ready; ls_gs := gs |}.
  Proof.
    intros; unfold save; simpl. rewrite map_map; simpl. f_equal.
    induction ready as [|[k v] l IH]; simpl; congruence.
  Qed.

  (* with and without interrupt points, on the same delivery *)
  Lemma finish_sim : forall cs l (gs1 : GS) ha,
    Inv cs -> GOK gs1 ->
    match finish [] [] gs1 (calc fold getr cs l) with
    | Continue s' =>
        WF s' /\
        (finish before ha gs1 (calc fold getr cs l) = Continue s' \/
         exists hb, finish before ha gs1 (calc fold getr cs l) = Interrupted (plain_info gs1 hb ha) (save s'))
    | Done v => finish before ha gs1 (calc fold getr cs l) = Done v
    | Failed e => finish before ha gs1 (calc fold getr cs l) = Failed e
    | Interrupted _ _ => False
    end.
  Proof.
    intros cs l gs1 ha Hi Hg. unfold finish.
    destruct (calc fold getr cs l) as [[cs2 ready]| |] eqn:Hc; auto.
    destruct (nlist_get kEnd ready) eqn:He; auto.
    rewrite hits_nil'. simpl.
    destruct (calc_facts _ _ _ _ Hi Hc) as (Hi2 & Hc2 & Hnd).
    split.
    { split; [exact Hi2|]. split; [apply map_mk_task_fresh|]. split; [|exact Hg].
      simpl. rewrite map_map; simpl. exact Hnd. }
    destruct (is_nil (hits before ready) && is_nil ha); auto.
    right. rewrite Hc2. simpl. rewrite !app_nil_r.
    exists (hits before ready). unfold plain_interrupt, plain_info. rewrite save_mk. reflexivity.
  Qed.

  (* ---------------------------------------------------------------- *)
  (* the mid-step checkpoint                                            *)
  (* ---------------------------------------------------------------- *)
  Definition subm (s : lstateT) : list taskT * GS := run_pres pre (ls_next s) (ls_gs s).

  Record mid (c : cptT) (sU : lstateT) (D S : list taskT) : Prop := {
    mid_perm : Permutation (D ++ S) (fst (subm sU));
    mid_S : S <> [];
    mid_rr : Forall (fun t => rerunnable (t_key t)) S;
    mid_cs : fold (ls_cs sU) (outs_of D) = Ok (cp_cs c);
    mid_in : cp_inputs c = map (fun t => (t_key t, zero)) S;
    mid_gs : cp_gs c = snd (subm sU);
    mid_skip : cp_skip c = [];
    mid_subs : cp_subs c = [];
  }.

  Definition evs (D : list taskT) : list eventT := map (fun t => ev_of t false) D.

  (* what the store holds w.r.t. the uninterrupted run, and the completed executions already logged
     for the step of the uninterrupted run that is under way *)
  Inductive rel (c : cptT) (sU : lstateT) : list eventT -> Prop :=
  | rel_plain : c = save sU -> rel c sU []
  | rel_mid : forall D S, mid c sU D S -> rel c sU (evs D).

  Definition seg_ok (vU : V) (lU : list eventT) (fuelU : nat) (credit : list eventT)
             (r : outcomeT * list eventT * ENV) : Prop :=
    let '(o, l, _) := r in
    (o = ODone vU /\ Permutation (credit ++ good l) lU) \/
    (exists i c sU' fuelU' lU1 lU2 credit',
       o = OInterrupted i c /\ rel c sU' credit' /\ WF sU' /\ (fuelU' <= fuelU)%nat /\
       iterU fuelU' sU' tt [] = (ODone vU, lU2, tt) /\ lU = lU1 ++ lU2 /\
       Permutation (credit ++ good l) (lU1 ++ credit')).

  Lemma good_app : forall a b : list eventT, good (a ++ b) = good a ++ good b.
  Proof. intros; unfold good; apply filter_app. Qed.

  Lemma good_evs : forall D, good (evs D) = evs D.
  Proof. induction D; simpl; auto. f_equal; auto. Qed.

  Lemma seg_ok_prefix : forall vU l' f credit uevs pevs o l e,
    seg_ok vU l' f [] (o, l, e) ->
    Permutation (credit ++ good pevs) uevs ->
    seg_ok vU (uevs ++ l') (S f) credit (o, pevs ++ l, e).
  Proof.
    intros vU l' f credit uevs pevs o l e H Hp. unfold seg_ok in *. rewrite good_app.
    destruct H as [[Ho Hl]|(i & c & sU' & fU' & lU1 & lU2 & cr' & Ho & Hr & Hw & Hle & HU & Hl & Hpm)].
    - left. split; auto. simpl in Hl. rewrite app_assoc. apply Permutation_app; auto.
    - right. exists i, c, sU', fU', (uevs ++ lU1), lU2, cr'.
      split; [exact Ho|]. split; [exact Hr|]. split; [exact Hw|]. split; [lia|]. split; [exact HU|]. split.
      + subst l'. rewrite app_assoc. reflexivity.
      + simpl in Hpm. rewrite app_assoc, <- (app_assoc uevs). apply Permutation_app; auto.
  Qed.

  (* properties of the submitted tasks of a well-formed state *)
  Lemma run_pres_skips : forall ts gs, map t_skip (fst (run_pres pre ts gs)) = map (@t_skip V SCP) ts.
  Proof.
    induction ts as [|t ts IH]; intros gs; simpl; auto.
    destruct (if t_skip t then (t_in t, gs) else pre (t_key t) (t_in t) gs) as [v gs1].
    specialize (IH gs1). destruct (run_pres pre ts gs1) as [rest gs2]; simpl in *. f_equal; auto.
  Qed.

  Lemma Forall_map_eq : forall {A B} (f : A -> B) (b : B) (l l' : list A),
    map f l' = map f l -> Forall (fun a => f a = b) l -> Forall (fun a => f a = b) l'.
  Proof.
    intros A B f b l l'. revert l. induction l' as [|a l' IH]; intros [|a0 l] Hm Hf; simpl in *; try discriminate; auto.
    inversion Hm as [[Ha Hl]]. inversion Hf as [|? ? Hb Hf']; subst. constructor; [congruence|eauto].
  Qed.

  Lemma subm_fresh : forall s, fresh_state s -> Forall fresh_task (fst (subm s)).
  Proof.
    intros s Hf. unfold subm, fresh_state, fresh_task in *.
    pose proof (run_pres_skips (ls_next s) (ls_gs s)) as Hs.
    pose proof (run_pres_cps pre (ls_next s) (ls_gs s)) as Hc.
    assert (H1 : Forall (fun t : taskT => t_skip t = false) (fst (run_pres pre (ls_next s) (ls_gs s)))).
    { eapply Forall_map_eq; eauto. eapply Forall_impl; [|exact Hf]. intros a [? ?]; auto. }
    assert (H2 : Forall (fun t : taskT => t_cp t = None) (fst (run_pres pre (ls_next s) (ls_gs s)))).
    { eapply Forall_map_eq; eauto. eapply Forall_impl; [|exact Hf]. intros a [? ?]; auto. }
    rewrite Forall_forall in *. intros t Ht; split; auto.
  Qed.

  Lemma subm_keys : forall s, map t_key (fst (subm s)) = map t_key (ls_next s).
  Proof. intros; apply run_pres_keys. Qed.

  Lemma outs_of_keys : forall D, map fst (outs_of D) = map t_key D.
  Proof. induction D; simpl; auto. f_equal; auto. Qed.

  Lemma outs_of_app : forall A B, outs_of (A ++ B) = outs_of A ++ outs_of B.
  Proof. intros; unfold outs_of; apply map_app. Qed.

  Lemma fold_split : forall cs A B csA,
    Inv cs -> fold cs (outs_of A) = Ok csA -> fold cs (outs_of (A ++ B)) = fold csA (outs_of B).
  Proof. intros cs A B csA Hi H. rewrite outs_of_app. apply H_fold_app; auto. Qed.

  Lemma fold_ok_prefix : forall cs A B r,
    Inv cs -> fold cs (outs_of (A ++ B)) = Ok r -> exists csA, fold cs (outs_of A) = Ok csA.
  Proof. intros cs A B r Hi H. rewrite outs_of_app in H. eapply H_fold_prefix; eauto. Qed.

  (* the U-step at sU *)
  Definition rsU_of (ts' : list taskT) : list (N * texecT) :=
    map (fun t => (t_key t, TDone (body (t_key t) (t_in t)))) ts'.

  Lemma rsU_facts : forall ts' : list taskT,
    first_fail (rsU_of ts') = None /\ subcps (rsU_of ts') = [] /\ reruns (rsU_of ts') = [] /\
    outs (rsU_of ts') = outs_of ts' /\ events_of ts' (rsU_of ts') = evs ts'.
  Proof.
    induction ts' as [|t ts IH]; simpl; auto.
    destruct IH as (H1 & H2 & H3 & H4 & H5). unfold first_fail, subcps, reruns, outs in *; simpl.
    repeat split; auto. - rewrite H4; reflexivity. - unfold evs in *; simpl; rewrite H5; reflexivity.
  Qed.

  Lemma stepU_unfold : forall sU,
    step zero fold getr pre execU [] [] sU tt =
    (match fst (subm sU) with
     | [] => Failed eNoTasks
     | _ => finish [] [] (snd (subm sU)) (calc fold getr (ls_cs sU) (outs_of (fst (subm sU))))
     end, evs (fst (subm sU)), tt).
  Proof.
    intros sU. unfold step, subm. destruct (run_pres pre (ls_next sU) (ls_gs sU)) as [ts' gs1]; simpl.
    rewrite exec_all_U. fold (rsU_of ts').
    destruct (rsU_facts ts') as (H1 & H2 & H3 & H4 & H5). rewrite H5.
    destruct ts' as [|t ts'].
    - reflexivity.
    - rewrite decide_all_done; auto; [|simpl; discriminate].
      rewrite H4. unfold afters. rewrite H4.
      replace (filter (fun k : N => memN k []) (map fst (outs_of (t :: ts')))) with (@nil N); auto.
      induction (map fst (outs_of (t :: ts'))); simpl; auto.
  Qed.

  (* ---------------------------------------------------------------- *)
  (* one step of the run with rerun nodes                               *)
  (* ---------------------------------------------------------------- *)
  Lemma stepR_unfold : forall (s : lstateT) env,
    Forall (fun t : taskT => t_cp t = None) (fst (subm s)) ->
    exists rs env1 D S,
      xres (fst (subm s)) rs D S /\
      step zero fold getr pre execR before after s env =
        (decideR (ls_cs s) (snd (subm s)) rs, events_of (fst (subm s)) rs, env1).
  Proof.
    intros s env Hc. rewrite step_unfold.
    destruct (exec_all_xres (fst (subm s)) env Hc) as (D & S & Hx).
    exists (fst (results pre execR s env)), (snd (results pre execR s env)), D, S.
    split; [exact Hx|reflexivity].
  Qed.

  Lemma decide_rerun : forall cs (gs1 : GS) ts' rs D S cs1,
    xres ts' rs D S -> S <> [] -> fold cs (outs_of D) = Ok cs1 ->
    exists i, decideR cs gs1 rs =
      Interrupted i {| cp_cs := cs1; cp_inputs := map (fun t => (t_key t, zero)) S; cp_gs := gs1;
                       cp_skip := []; cp_subs := [] |}.
  Proof.
    intros cs gs1 ts' rs D S cs1 Hx HS Hf. unfold decide.
    rewrite (xres_no_fail _ _ _ _ Hx), (xres_subcps _ _ _ _ Hx), (xres_reruns _ _ _ _ Hx).
    assert (Hnil : is_nil (map t_key S) = false) by (destruct S; [congruence|reflexivity]).
    rewrite Hnil. cbn [is_nil negb andb].
    unfold rerun_interrupt. rewrite (xres_outs _ _ _ _ Hx), Hf.
    rewrite (xres_subcps _ _ _ _ Hx), (xres_reruns _ _ _ _ Hx). simpl. rewrite map_map.
    eexists. reflexivity.
  Qed.

  Lemma Forall_cp_none : forall l : list taskT, Forall fresh_task l -> Forall (fun t => t_cp t = None) l.
  Proof. intros l H; eapply Forall_impl; [|exact H]. intros a [? ?]; auto. Qed.

  (* when the uninterrupted loop gets past a step, the channels accepted all outputs of the step *)
  Lemma finish_ok_calc : forall bf ha (gs1 : GS) r,
    (forall e, finish bf ha gs1 r <> Failed e) -> exists cs2 ready, r = Ok (cs2, ready).
  Proof.
    intros bf ha gs1 r H. destruct r as [[cs2 ready]| |]; eauto; exfalso; eapply H; reflexivity.
  Qed.

  Lemma perm_outs_of : forall A B, Permutation A B -> Permutation (outs_of A) (outs_of B).
  Proof. intros; unfold outs_of; apply Permutation_map; auto. Qed.

  Lemma perm_evs : forall A B, Permutation A B -> Permutation (evs A) (evs B).
  Proof. intros; unfold evs; apply Permutation_map; auto. Qed.

  Lemma evs_app : forall A B, evs (A ++ B) = evs A ++ evs B.
  Proof. intros; unfold evs; apply map_app. Qed.

  Lemma nodup_perm_keys : forall A B : list taskT,
    Permutation A B -> NoDup (map t_key B) -> NoDup (map t_key A).
  Proof.
    intros A B Hp Hn. eapply Permutation_NoDup; [|exact Hn].
    apply Permutation_map. apply Permutation_sym. exact Hp.
  Qed.

  (* the whole fold of the U-step, given a completed part D already folded *)
  Lemma fold_rest : forall cs ts' D S csD call,
    Inv cs -> NoDup (map t_key ts') -> Permutation (D ++ S) ts' ->
    fold cs (outs_of D) = Ok csD -> fold cs (outs_of ts') = Ok call ->
    fold csD (outs_of S) = Ok call.
  Proof.
    intros cs ts' D S csD call Hi Hn Hp Hf Hall.
    rewrite <- (fold_split cs D S csD Hi Hf).
    apply (H_fold_perm cs (outs_of ts')); auto.
    - rewrite outs_of_keys. exact Hn.
    - apply perm_outs_of. apply Permutation_sym. exact Hp.
  Qed.

  (* ---------------------------------------------------------------- *)
  (* a segment that starts at a loop state of the uninterrupted run     *)
  (* ---------------------------------------------------------------- *)
  Lemma seg_plain : forall fuelU (sU : lstateT) vU lU,
    WF sU -> iterU fuelU sU tt [] = (ODone vU, lU, tt) ->
    forall fuelR env, (fuelU <= fuelR)%nat -> seg_ok vU lU fuelU [] (iterR fuelR sU env []).
  Proof.
    induction fuelU as [|f IH]; intros sU vU lU Hwf HU fuelR env Hle.
    { simpl in HU. discriminate. }
    destruct fuelR as [|fR]; [lia|].
    pose proof Hwf as (Hi & Hfr & Hnd & Hg).
    pose proof (subm_fresh sU Hfr) as Hfs.
    pose proof (run_pres_ok (ls_next sU) (ls_gs sU) Hg) as Hg1. fold (subm sU) in Hg1.
    simpl in HU. rewrite stepU_unfold in HU.
    simpl. destruct (stepR_unfold sU env (Forall_cp_none _ Hfs)) as (rs & env1 & D & S & Hx & HsR).
    rewrite HsR. clear HsR.
    set (ts' := fst (subm sU)) in *. set (gs1 := snd (subm sU)) in *.
    assert (Hnd' : NoDup (map t_key ts')) by (unfold ts'; rewrite subm_keys; exact Hnd).
    destruct ts' as [|t0 ts0] eqn:Ets; [simpl in HU; discriminate|]. rewrite <- Ets in *.
    assert (Hne : ts' <> []) by (rewrite Ets; discriminate).
    (* the uninterrupted step does not fail: the fold of all outputs succeeds *)
    assert (Hcalc : exists cs2 ready, calc fold getr (ls_cs sU) (outs_of ts') = Ok (cs2, ready)).
    { apply (finish_ok_calc [] [] gs1). intros e He. rewrite He in HU. simpl in HU. discriminate. }
    destruct Hcalc as (cs2 & ready & Hcalc).
    destruct S as [|s0 S0] eqn:ES.
    - (* nobody asks for a rerun: the step is the uninterrupted step, up to interrupt points *)
      destruct (xres_nil_S _ _ _ Hx) as [HD Hrs]. fold (rsU_of ts') in Hrs.
      destruct (rsU_facts ts') as (H1 & H2 & H3 & H4 & H5).
      rewrite Hrs. rewrite decide_all_done; auto; [|rewrite Ets; simpl; discriminate].
      rewrite H4, H5.
      pose proof (finish_sim (ls_cs sU) (outs_of ts') gs1 (afters after (rsU_of ts')) Hi Hg1) as Hsim.
      destruct (finish [] [] gs1 (calc fold getr (ls_cs sU) (outs_of ts'))) as [s'|v|i c|e] eqn:HfU;
        simpl in HU; try discriminate.
      + destruct Hsim as (Hwf' & [HR|[hb HR]]); rewrite HR; simpl.
        * rewrite iterate_log0 in HU. rewrite iterate_log0.
          destruct (iterU f s' tt []) as [[o l'] e] eqn:HU'. destruct e.
          inversion HU; subst o lU.
          pose proof (IH s' vU l' Hwf' HU' fR env1 ltac:(lia)) as Hseg.
          destruct (iterR fR s' env1 []) as [[o l] e].
          apply seg_ok_prefix; auto. simpl. rewrite good_evs. apply Permutation_refl.
        * rewrite iterate_log0 in HU.
          destruct (iterU f s' tt []) as [[o l'] e] eqn:HU'. destruct e.
          inversion HU; subst o lU.
          right. exists (plain_info gs1 hb (afters after (rsU_of ts'))), (save s'), s', f, (evs ts'), l', [].
          split; [reflexivity|]. split; [constructor; reflexivity|]. split; [exact Hwf'|].
          split; [lia|]. split; [exact HU'|]. split; [reflexivity|].
          simpl. rewrite good_evs, app_nil_r. apply Permutation_refl.
      + rewrite Hsim. simpl. inversion HU; subst. left. split; auto.
        simpl. rewrite good_evs. apply Permutation_refl.
    - (* some tasks ask for a rerun: mid-step checkpoint *)
      rewrite <- ES in *. assert (HS : S <> []) by (rewrite ES; discriminate).
      pose proof (xres_perm _ _ _ _ Hx) as Hperm.
      assert (HfD : exists csD, fold (ls_cs sU) (outs_of D) = Ok csD).
      { unfold calc in Hcalc. destruct (fold (ls_cs sU) (outs_of ts')) as [call| |] eqn:Hfa; try discriminate.
        apply (H_fold_perm _ (outs_of ts') (outs_of (D ++ S)) call) in Hfa; auto.
        - eapply fold_ok_prefix; eauto.
        - rewrite outs_of_keys; auto.
        - apply perm_outs_of. apply Permutation_sym; auto. }
      destruct HfD as (csD & HfD).
      destruct (decide_rerun (ls_cs sU) gs1 ts' rs D S csD Hx HS HfD) as (i & Hd).
      rewrite Hd. simpl.
      right. eexists i, _, sU, (Datatypes.S f), [], lU, (evs D).
      split; [reflexivity|]. split.
      { apply rel_mid with (S := S). constructor; simpl; auto.
        eapply xres_rerunnable; eauto. }
      split; [exact Hwf|]. split; [lia|]. split.
      { simpl. rewrite stepU_unfold. fold ts'. fold gs1. rewrite Ets. rewrite <- Ets. exact HU. }
      split; [reflexivity|].
      simpl. apply (xres_events _ _ _ _ Hx).
  Qed.

  (* ---------------------------------------------------------------- *)
  (* a segment resumed from a mid-step checkpoint                       *)
  (* ---------------------------------------------------------------- *)
  Definition zero_task (t : taskT) : taskT := {| t_key := t_key t; t_in := zero; t_skip := false; t_cp := None |}.

  Lemma run_pres_rebuild : forall (S : list taskT) gs1,
    (forall t, In t S -> pre (t_key t) zero gs1 = (t_in t, gs1)) -> Forall fresh_task S ->
    run_pres pre (map zero_task S) gs1 = (S, gs1).
  Proof.
    induction S as [|t S IH]; intros gs1 Hp Hf; simpl; auto.
    inversion Hf as [|? ? [Hs Hc] Hf']; subst.
    rewrite (Hp t (or_introl eq_refl)). rewrite IH; auto.
    - f_equal. f_equal. destruct t as [k i sk cp]; simpl in *; subst; reflexivity.
    - intros t' Ht'. apply Hp. right; exact Ht'.
  Qed.

  Lemma restore_mid : forall c sU D S, mid c sU D S ->
    with_gs (restore c) (ls_gs (restore c)) =
    {| ls_cs := cp_cs c; ls_next := map zero_task S; ls_gs := snd (subm sU) |}.
  Proof.
    intros c sU D S Hm. destruct Hm. unfold restore, with_gs; simpl.
    rewrite mid_in0, mid_gs0, mid_skip0, mid_subs0. rewrite map_map. reflexivity.
  Qed.

  Lemma nodup_app_r : forall {A} (a b : list A), NoDup (a ++ b) -> NoDup b.
  Proof. induction a; simpl; intros b H; auto. inversion H; auto. Qed.

  Lemma perm_in : forall {A} (l l' : list A) a, Permutation l l' -> In a l -> In a l'.
  Proof. intros; eapply Permutation_in; eauto. Qed.

  Lemma seg_mid : forall fuelU (sU : lstateT) vU lU c D S,
    WF sU -> mid c sU D S -> iterU fuelU sU tt [] = (ODone vU, lU, tt) ->
    forall fuelR env, (fuelU <= fuelR)%nat ->
      seg_ok vU lU fuelU (evs D) (resumeR fuelR (fun g => g) c env).
  Proof.
    intros fuelU sU vU lU c D S Hwf Hm HU fuelR env Hle.
    destruct fuelU as [|f]; [simpl in HU; discriminate|].
    destruct fuelR as [|fR]; [lia|].
    pose proof Hwf as (Hi & Hfr & Hnd & Hg).
    pose proof (subm_fresh sU Hfr) as Hfs.
    pose proof (run_pres_ok (ls_next sU) (ls_gs sU) Hg) as Hg1. fold (subm sU) in Hg1.
    unfold resume. cbv beta zeta. rewrite (restore_mid c sU D S Hm).
    destruct Hm as [Hperm HS Hrr Hcs Hin Hgs Hskip Hsubs].
    set (ts' := fst (subm sU)) in *. set (gs1 := snd (subm sU)) in *.
    assert (Hnd' : NoDup (map t_key ts')) by (unfold ts'; rewrite subm_keys; exact Hnd).
    assert (HinS : forall t, In t S -> In t ts') by (intros t Ht; eapply perm_in; [exact Hperm|apply in_or_app; auto]).
    assert (HfS : Forall fresh_task S).
    { rewrite Forall_forall in *. intros t Ht. apply Hfs. auto. }
    assert (HndS : NoDup (map t_key S)).
    { pose proof (nodup_perm_keys _ _ Hperm Hnd') as H0. rewrite map_app in H0. eapply nodup_app_r; eauto. }
    assert (Hreb : forall t, In t S -> pre (t_key t) zero gs1 = (t_in t, gs1)).
    { intros t Ht. unfold gs1, subm. apply H_rebuild.
      - exact Hg.
      - exact Hnd.
      - exact Hfr.
      - apply HinS; auto.
      - rewrite Forall_forall in Hrr. auto. }
    set (sR := {| ls_cs := cp_cs c; ls_next := map zero_task S; ls_gs := gs1 |}).
    assert (Hsub : subm sR = (S, gs1)) by (unfold subm, sR; simpl; apply run_pres_rebuild; auto).
    assert (HiD : Inv (cp_cs c)) by (eapply H_fold_inv; eauto).
    (* the uninterrupted step *)
    simpl in HU. rewrite stepU_unfold in HU. fold ts' in HU. fold gs1 in HU.
    destruct ts' as [|t0 ts0] eqn:Ets; [simpl in HU; discriminate|]. rewrite <- Ets in *.
    assert (Hcalc : exists cs2 ready, calc fold getr (ls_cs sU) (outs_of ts') = Ok (cs2, ready)).
    { apply (finish_ok_calc [] [] gs1). intros e He. rewrite He in HU. simpl in HU. discriminate. }
    destruct Hcalc as (cs2 & ready & Hcalc).
    assert (Hfall : exists call, fold (ls_cs sU) (outs_of ts') = Ok call).
    { unfold calc in Hcalc. destruct (fold (ls_cs sU) (outs_of ts')); try discriminate. eauto. }
    destruct Hfall as (call & Hfall).
    assert (Hfold : fold (cp_cs c) (outs_of S) = Ok call)
      by (apply (fold_rest (ls_cs sU) ts' D S (cp_cs c) call); auto).
    (* the resumed step *)
    simpl.
    destruct (stepR_unfold sR env) as (rs & env1 & D2 & S2 & Hx & HsR).
    { rewrite Hsub. simpl. apply Forall_cp_none; auto. }
    rewrite HsR. clear HsR. rewrite Hsub in *. simpl in Hx |- *.
    pose proof (xres_perm _ _ _ _ Hx) as Hperm2.
    destruct S2 as [|s2 S2'] eqn:ES2.
    - (* the pending tasks all complete: the step of the uninterrupted run is complete *)
      destruct (xres_nil_S _ _ _ Hx) as [HD2 Hrs]. fold (rsU_of S) in Hrs.
      destruct (rsU_facts S) as (H1 & H2 & H3 & H4 & H5).
      rewrite Hrs. rewrite decide_all_done; auto; [|destruct S; [congruence|simpl; discriminate]].
      rewrite H4, H5.
      assert (Hceq : calc fold getr (cp_cs c) (outs_of S) = calc fold getr (ls_cs sU) (outs_of ts'))
        by (unfold calc; rewrite Hfold, Hfall; reflexivity).
      rewrite Hceq.
      pose proof (finish_sim (ls_cs sU) (outs_of ts') gs1 (afters after (rsU_of S)) Hi Hg1) as Hsim.
      assert (Hpe : Permutation (evs D ++ good (evs S)) (evs ts')).
      { rewrite good_evs, <- evs_app. apply perm_evs. exact Hperm. }
      destruct (finish [] [] gs1 (calc fold getr (ls_cs sU) (outs_of ts'))) as [s'|v|i c0|e] eqn:HfU;
        simpl in HU; try discriminate.
      + destruct Hsim as (Hwf' & [HR|[hb HR]]); rewrite HR; simpl.
        * rewrite iterate_log0 in HU. rewrite iterate_log0.
          destruct (iterU f s' tt []) as [[o l'] e] eqn:HU'. destruct e.
          inversion HU; subst o lU.
          pose proof (seg_plain f s' vU l' Hwf' HU' fR env1 ltac:(lia)) as Hseg.
          destruct (iterR fR s' env1 []) as [[o l] e].
          apply seg_ok_prefix; auto.
        * rewrite iterate_log0 in HU.
          destruct (iterU f s' tt []) as [[o l'] e] eqn:HU'. destruct e.
          inversion HU; subst o lU.
          right. exists (plain_info gs1 hb (afters after (rsU_of S))), (save s'), s', f, (evs ts'), l', [].
          split; [reflexivity|]. split; [constructor; reflexivity|]. split; [exact Hwf'|].
          split; [lia|]. split; [exact HU'|]. split; [reflexivity|].
          rewrite app_nil_r. exact Hpe.
      + rewrite Hsim. simpl. inversion HU; subst. left. split; auto.
    - (* some ask again: a new mid-step checkpoint of the same step *)
      rewrite <- ES2 in *. assert (HS2 : S2 <> []) by (rewrite ES2; discriminate).
      assert (HfD2 : exists csD2, fold (cp_cs c) (outs_of D2) = Ok csD2).
      { pose proof Hfold as Hfa.
        apply (H_fold_perm _ (outs_of S) (outs_of (D2 ++ S2)) call) in Hfa; auto.
        - eapply fold_ok_prefix; eauto.
        - rewrite outs_of_keys; auto.
        - apply perm_outs_of. apply Permutation_sym; auto. }
      destruct HfD2 as (csD2 & HfD2).
      destruct (decide_rerun (cp_cs c) gs1 S rs D2 S2 csD2 Hx HS2 HfD2) as (i & Hd).
      rewrite Hd. simpl.
      right. eexists i, _, sU, (Datatypes.S f), [], lU, (evs (D ++ D2)).
      split; [reflexivity|]. split.
      { apply rel_mid with (S := S2). constructor; simpl; auto.
        - fold ts'. rewrite <- app_assoc. eapply Permutation_trans; [|exact Hperm].
          apply Permutation_app_head. exact Hperm2.
        - eapply xres_rerunnable; eauto.
        - rewrite (fold_split (ls_cs sU) D D2 (cp_cs c)); auto. }
      split; [exact Hwf|]. split; [lia|]. split.
      { simpl. rewrite stepU_unfold. fold ts'. fold gs1. rewrite Ets. rewrite <- Ets. exact HU. }
      split; [reflexivity|].
      simpl. rewrite evs_app. apply Permutation_app_head. apply (xres_events _ _ _ _ Hx).
  Qed.

  (* one resumed call, whatever the store holds *)
  Lemma call_rel : forall fuelU (sU : lstateT) vU lU c credit,
    rel c sU credit -> WF sU -> iterU fuelU sU tt [] = (ODone vU, lU, tt) ->
    forall fuelR env, (fuelU <= fuelR)%nat ->
      seg_ok vU lU fuelU credit (resumeR fuelR (fun g => g) c env).
  Proof.
    intros fuelU sU vU lU c credit Hr Hwf HU fuelR env Hle. destruct Hr as [Hc|D S Hm].
    - subst c. pose proof Hwf as (Hi & Hfr & Hnd & Hg).
      rewrite (resume_save_id zero fold getr pre execR before after fuelR sU env Hfr).
      apply seg_plain; auto.
    - eapply seg_mid; eauto.
  Qed.


  (* ---------------------------------------------------------------- *)
  (* progress: how many calls a driven run can take                      *)
  (* ---------------------------------------------------------------- *)
  (* Every call executes at least one node (a resumed call starts from pending tasks); its completed executions
     are executions of the uninterrupted run, each counted once; its aborted attempts use up a BUDGET that the
     environment carries (for the model: the entries of the rerun tables not yet reached). *)
  Definition nab (l : list eventT) : nat := List.length (filter (fun ev => ev_abort ev) l).

  Lemma len_good_nab : forall l : list eventT, List.length l = (List.length (good l) + nab l)%nat.
  Proof.
    unfold good, nab. induction l as [|ev l IH]; simpl; [reflexivity|].
    destruct (ev_abort ev); simpl; lia.
  Qed.

  Lemma nab_app : forall a b : list eventT, nab (a ++ b) = (nab a + nab b)%nat.
  Proof. intros; unfold nab. rewrite filter_app, app_length. reflexivity. Qed.

  Section Budget.
    Variable budget : ENV -> nat.
    Hypothesis H_budget : forall k cp v e r e', execR k cp v e = (r, e') ->
      (budget e' + (if is_rerun r then 1 else 0) <= budget e)%nat.

    Lemma exec_all_budget : forall (ts : list taskT) env,
      (budget (snd (exec_all execR ts env)) + nab (events_of ts (fst (exec_all execR ts env))) <= budget env)%nat.
    Proof.
      induction ts as [|t ts IH]; intros env; simpl; [unfold nab; simpl; lia|].
      destruct (execR (t_key t) (t_cp t) (t_in t) env) as [r env1] eqn:He.
      pose proof (H_budget _ _ _ _ _ _ He) as Hb.
      specialize (IH env1). destruct (exec_all execR ts env1) as [rest env2]. simpl in *.
      unfold nab in *; simpl. destruct (is_rerun r); simpl; lia.
    Qed.

    Lemma events_of_len : forall (ts : list taskT) (rs : list (N * texecT)),
      List.length rs = List.length ts -> List.length (events_of ts rs) = List.length ts.
    Proof.
      induction ts as [|t ts IH]; intros [|r rs] H; simpl in *; try discriminate; try reflexivity.
      f_equal. apply IH. lia.
    Qed.

    Lemma exec_all_len : forall (E : Type) (ex : N -> option SCP -> V -> E -> texecT * E) (ts : list taskT) (env : E),
      List.length (fst (exec_all ex ts env)) = List.length ts.
    Proof.
      intros E ex. induction ts as [|t ts IH]; intros env; simpl; [reflexivity|].
      destruct (ex (t_key t) (t_cp t) (t_in t) env) as [r env1].
      specialize (IH env1). destruct (exec_all ex ts env1) as [rest env2]. simpl in *. lia.
    Qed.

    Lemma run_pres_len : forall (ts : list taskT) gs, List.length (fst (run_pres pre ts gs)) = List.length ts.
    Proof.
      induction ts as [|t ts IH]; intros gs; simpl; [reflexivity|].
      destruct (if t_skip t then (t_in t, gs) else pre (t_key t) (t_in t) gs) as [v gs1].
      specialize (IH gs1). destruct (run_pres pre ts gs1) as [rest gs2]. simpl in *. lia.
    Qed.

    (* one segment: the log grows by at least the tasks of its first step, the budget pays for the aborts *)
    Lemma iterR_budget : forall fuel (s : lstateT) env log o l env',
      iterR fuel s env log = (o, l, env') ->
      (budget env' + nab l <= budget env + nab log)%nat /\ (List.length log <= List.length l)%nat /\
      (fuel <> O -> List.length log + List.length (ls_next s) <= List.length l)%nat.
    Proof.
      induction fuel as [|f IH]; intros s env log o l env' H; simpl in H.
      { inversion H; subst. repeat split; try lia; try (intros C; congruence). }
      unfold step in H.
      destruct (run_pres pre (ls_next s) (ls_gs s)) as [ts gs1] eqn:Hp.
      pose proof (exec_all_budget ts env) as Hb. pose proof (exec_all_len ENV execR ts env) as Hl.
      destruct (exec_all execR ts env) as [rs env1]. simpl in Hb, Hl.
      pose proof (events_of_len ts rs Hl) as Hel.
      pose proof (run_pres_len (ls_next s) (ls_gs s)) as Hpl. rewrite Hp in Hpl. simpl in Hpl.
      destruct (decideR (ls_cs s) gs1 rs) as [s'|v|i c|e].
      - destruct (IH _ _ _ _ _ _ H) as (B1 & B2 & _). rewrite nab_app in B1. rewrite app_length in B2.
        repeat split; try lia.
      - inversion H; subst. rewrite nab_app, app_length. repeat split; try lia.
      - inversion H; subst. rewrite nab_app, app_length. repeat split; try lia.
      - inversion H; subst. rewrite nab_app, app_length. repeat split; try lia.
    Qed.

    Lemma iterU_len : forall fuel (s : lstateT) log o l,
      iterU fuel s tt log = (o, l, tt) -> fuel <> O ->
      (List.length log + List.length (ls_next s) <= List.length l)%nat /\ (List.length log <= List.length l)%nat.
    Proof.
      induction fuel as [|f IH]; intros s log o l H Hf; [congruence|]. simpl in H.
      unfold step in H.
      destruct (run_pres pre (ls_next s) (ls_gs s)) as [ts gs1] eqn:Hp.
      pose proof (exec_all_len unit execU ts tt) as Hl.
      destruct (exec_all execU ts tt) as [rs []]. simpl in Hl.
      pose proof (events_of_len ts rs Hl) as Hel.
      pose proof (run_pres_len (ls_next s) (ls_gs s)) as Hpl. rewrite Hp in Hpl. simpl in Hpl.
      destruct (decideU (ls_cs s) gs1 rs) as [s'|v|i c|e].
      - destruct f as [|f'].
        + simpl in H. inversion H; subst. rewrite app_length. lia.
        + destruct (IH s' (log ++ events_of ts rs) o l H ltac:(congruence)) as [_ B2].
          rewrite app_length in B2. lia.
      - inversion H; subst. rewrite app_length. lia.
      - inversion H; subst. rewrite app_length. lia.
      - inversion H; subst. rewrite app_length. lia.
    Qed.

    (* an uninterrupted run that ends Done starts from a non-empty task set *)
    Lemma iterU_done_next : forall fuelU (sU : lstateT) vU lU,
      iterU fuelU sU tt [] = (ODone vU, lU, tt) -> fuelU <> O /\ ls_next sU <> [].
    Proof.
      intros fuelU sU vU lU H. destruct fuelU as [|f]; [simpl in H; discriminate|].
      split; [congruence|]. intros Hn. simpl in H. unfold step in H. rewrite Hn in H. simpl in H.
      inversion H.
    Qed.

    (* what is already credited lies within the uninterrupted run that remains *)
    Lemma rel_credit_len : forall c (sU : lstateT) credit fuelU vU lU,
      rel c sU credit -> iterU fuelU sU tt [] = (ODone vU, lU, tt) -> (List.length credit <= List.length lU)%nat.
    Proof.
      intros c sU credit fuelU vU lU Hr HU. destruct Hr as [Hc|D S Hm]; [simpl; lia|].
      destruct (iterU_done_next _ _ _ _ HU) as [Hf _].
      destruct (iterU_len _ _ _ _ _ HU Hf) as [B _]. simpl in B.
      pose proof (Permutation_length (mid_perm _ _ _ _ Hm)) as Hpl. rewrite app_length in Hpl.
      unfold subm in Hpl. rewrite run_pres_len in Hpl.
      unfold evs. rewrite map_length. lia.
    Qed.

    (* a resumed call executes at least one node *)
    Lemma resumed_call_runs : forall c (sU : lstateT) credit fuelU vU lU fuelR env o l env',
      rel c sU credit -> iterU fuelU sU tt [] = (ODone vU, lU, tt) -> fuelR <> O ->
      resumeR fuelR (fun g => g) c env = (o, l, env') ->
      (1 <= List.length l)%nat /\ (budget env' + nab l <= budget env)%nat.
    Proof.
      intros c sU credit fuelU vU lU fuelR env o l env' Hr HU Hf H. unfold resume in H.
      destruct (iterR_budget _ _ _ _ _ _ _ H) as (B1 & _ & B3). specialize (B3 Hf).
      unfold nab in B1 at 2. simpl in B1, B3.
      split; [|lia].
      assert (Hin : (1 <= List.length (cp_inputs c))%nat).
      { destruct Hr as [Hc|D S Hm].
        - subst c. simpl. rewrite map_length. destruct (iterU_done_next _ _ _ _ HU) as [_ Hn].
          destruct (ls_next sU); [congruence|simpl; lia].
        - rewrite (mid_in _ _ _ _ Hm), map_length. pose proof (mid_S _ _ _ _ Hm) as Hs.
          destruct S; [congruence|simpl; lia]. }
      unfold restore, with_gs in B3. simpl in B3. rewrite map_length in B3. lia.
    Qed.
  End Budget.

  (* ---------------------------------------------------------------- *)
  (* the run driven through the store                                   *)
  (* ---------------------------------------------------------------- *)
  Section DriveRerun.
    Context {B : Type}.
    Variable ser : cptT -> B.
    Variable deser : B -> option cptT.
    Hypothesis H_ser : forall c, deser (ser c) = Some c.
    Variable fuelR : nat.

    Notation call_obsT := (@call_obs V CS GS SCP SINFO).
    Notation freshT := (ENV -> outcomeT * list eventT * ENV)%type.

    Definition all_logs (cos : list call_obsT) : list eventT := List.concat (map co_log cos).
    Definition is_interrupt (o : outcomeT) : Prop := exists i c, o = OInterrupted i c.

    Lemma drive_nonempty : forall (fresh : freshT) resumed tick with_id n k mods (store : option B) env cos env',
      drive ser deser fresh resumed tick with_id n k mods store env = (cos, env') -> cos <> [].
    Proof.
      intros fresh resumed tick with_id n k mods store env cos env' H.
      rewrite (drive_unfold ser deser) in H.
      destruct (call ser deser fresh resumed with_id store (mods k) (tick k env)) as [[co st] e1].
      destruct (co_out co); try (inversion H; discriminate).
      destruct n; try (inversion H; discriminate).
      destruct with_id; try (inversion H; discriminate).
      destruct (drive ser deser fresh resumed tick true n (S k) mods st e1) as [rest e2].
      inversion H; discriminate.
    Qed.

    Lemma drive_rel : forall (fresh : freshT) n k c (sU : lstateT) credit fuelU vU lU env cos env' cos' co,
      rel c sU credit -> WF sU -> iterU fuelU sU tt [] = (ODone vU, lU, tt) -> (fuelU <= fuelR)%nat ->
      drive ser deser fresh (resumeR fuelR) (fun _ e => e) true n k (fun _ g => g) (Some (ser c)) env = (cos, env') ->
      cos = cos' ++ [co] ->
      is_interrupt (co_out co) \/
      (co_out co = ODone vU /\ Permutation (credit ++ good (all_logs cos)) lU).
    Proof.
      intros fresh. induction n as [|n IH];
        intros k c sU credit fuelU vU lU env cos env' cos' co Hr Hwf HU Hle Hd Hcos;
        rewrite (drive_unfold ser deser) in Hd; unfold call in Hd; rewrite H_ser in Hd;
        pose proof (call_rel fuelU sU vU lU c credit Hr Hwf HU fuelR env Hle) as Hseg;
        destruct (resumeR fuelR (fun g => g) c env) as [[o l] e1];
        destruct Hseg as [[Ho Hp]|(i & c2 & sU' & fU' & lU1 & lU2 & cr' & Ho & Hr' & Hwf' & Hle' & HU' & HlU & Hp)];
        subst o; simpl in Hd.
      - inversion Hd; subst. destruct cos' as [|? [|? ?]]; inversion H0; subst.
        right. split; auto. unfold all_logs; simpl. rewrite app_nil_r. exact Hp.
      - inversion Hd; subst. destruct cos' as [|? [|? ?]]; inversion H0; subst.
        left. red; simpl; eauto.
      - inversion Hd; subst. destruct cos' as [|? [|? ?]]; inversion H0; subst.
        right. split; auto. unfold all_logs; simpl. rewrite app_nil_r. exact Hp.
      - destruct (drive ser deser fresh (resumeR fuelR) (fun _ e => e) true n (S k) (fun _ g => g) (Some (ser c2)) e1)
          as [rest e2] eqn:Hrest.
        injection Hd as Hd1 Hd2. rewrite <- Hd1 in Hcos |- *. clear Hd1.
        pose proof (drive_nonempty _ _ _ _ _ _ _ _ _ _ _ Hrest) as Hne.
        destruct cos' as [|co0 cos'']; simpl in Hcos.
        { inversion Hcos; subst. congruence. }
        inversion Hcos as [[Hco0 Hrest']]. subst co0.
        destruct (IH (S k) c2 sU' cr' fU' vU lU2 e1 rest e2 cos'' co Hr' Hwf' HU' ltac:(lia) Hrest Hrest') as [Hi|[Hdone Hp2]].
        + left; exact Hi.
        + right. split; auto. unfold all_logs in *; simpl. rewrite good_app.
          subst lU. rewrite app_assoc.
          eapply Permutation_trans; [apply Permutation_app_tail; exact Hp|].
          rewrite <- app_assoc. apply Permutation_app_head. rewrite <- Hrest'. exact Hp2.
    Qed.

    Variable cs0 : CS.
    Variable gs0 : GS.
    Variable x : V.

    (* whenever the run with rerun nodes and interrupt points completes, it completes like the
       uninterrupted run: same output, and the completed executions of all calls are, as a multiset,
       the executions of the uninterrupted run (nothing lost, nothing completed twice, same inputs) *)
    Lemma rerun_equiv_l : forall fuelU vU lU n env cos env' cos' co,
      Inv cs0 -> GOK gs0 ->
      start zero fold getr pre execU [] [] fuelU cs0 gs0 x tt = (ODone vU, lU, tt) ->
      (fuelU <= fuelR)%nat ->
      drive ser deser (start zero fold getr pre execR before after fuelR cs0 gs0 x) (resumeR fuelR)
            (fun _ e => e) true n 0 (fun _ g => g) None env = (cos, env') ->
      cos = cos' ++ [co] ->
      is_interrupt (co_out co) \/
      (co_out co = ODone vU /\ Permutation (good (all_logs cos)) lU).
    Proof.
      intros fuelU vU lU n env cos env' cos' co Hi0 Hg0 HU Hle Hd Hcos.
      rewrite (drive_unfold ser deser) in Hd. unfold call in Hd.
      unfold start, start_gen, init_gen in HU, Hd.
      destruct (calc fold getr cs0 [(kStart, x)]) as [[cs1 ready]| |] eqn:Hc; simpl in HU; try discriminate.
      destruct (nlist_get kEnd ready) eqn:He.
      { simpl in HU, Hd. inversion HU; subst. inversion Hd; subst.
        destruct cos' as [|? [|? ?]]; inversion H0; subst. right. split; auto. }
      rewrite hits_nil' in HU. simpl in HU.
      destruct (calc_facts _ _ _ _ Hi0 Hc) as (Hi1 & _ & Hnd).
      set (s0 := {| ls_cs := cs1; ls_next := map mk_task ready; ls_gs := gs0 |}) in *.
      assert (Hwf0 : WF s0).
      { split; [exact Hi1|]. split; [apply map_mk_task_fresh|]. split; [|exact Hg0].
        simpl. rewrite map_map; simpl; exact Hnd. }
      simpl in Hd.
      destruct (is_nil (hits before ready)) eqn:Hh; simpl in Hd.
      - pose proof (seg_plain fuelU s0 vU lU Hwf0 HU fuelR env Hle) as Hseg.
        destruct (iterR fuelR s0 env []) as [[o l] e1].
        destruct Hseg as [[Ho Hp]|(i & c2 & sU' & fU' & lU1 & lU2 & cr' & Ho & Hr' & Hwf' & Hle' & HU' & HlU & Hp)];
          subst o; simpl in Hd.
        + inversion Hd; subst. destruct cos' as [|? [|? ?]]; inversion H0; subst.
          right. split; auto. unfold all_logs; simpl. rewrite app_nil_r. exact Hp.
        + destruct n as [|n].
          { inversion Hd; subst. destruct cos' as [|? [|? ?]]; inversion H0; subst. left; red; simpl; eauto. }
          match type of Hd with context[drive ser deser ?f _ _ true n 1%nat] =>
            destruct (drive ser deser f (resumeR fuelR) (fun _ e => e) true n 1%nat (fun _ g => g) (Some (ser c2)) e1)
              as [rest e2] eqn:Hrest end.
          injection Hd as Hd1 Hd2. rewrite <- Hd1 in Hcos |- *. clear Hd1.
          pose proof (drive_nonempty _ _ _ _ _ _ _ _ _ _ _ Hrest) as Hne.
          destruct cos' as [|co0 cos'']; simpl in Hcos.
          { inversion Hcos; subst. congruence. }
          inversion Hcos as [[Hco0 Hrest']]. subst co0.
          destruct (drive_rel _ n 1%nat c2 sU' cr' fU' vU lU2 e1 rest e2 cos'' co Hr' Hwf' HU' ltac:(lia) Hrest Hrest') as [Hi|[Hdone Hp2]].
          * left; exact Hi.
          * right. split; auto. unfold all_logs in *; simpl. rewrite good_app.
            subst lU. simpl in Hp.
            eapply Permutation_trans; [apply Permutation_app_tail; exact Hp|].
            rewrite <- app_assoc. apply Permutation_app_head. rewrite <- Hrest'. exact Hp2.
      - (* the initial task set hits an interrupt-before node *)
        unfold plain_interrupt in Hd. rewrite save_mk in Hd. fold s0 in Hd. simpl in Hd.
        destruct n as [|n].
        { inversion Hd; subst. destruct cos' as [|? [|? ?]]; inversion H0; subst. left; red; simpl; eauto. }
        match type of Hd with context[drive ser deser ?f _ _ true n 1%nat] =>
          destruct (drive ser deser f (resumeR fuelR) (fun _ e => e) true n 1%nat (fun _ g => g) (Some (ser (save s0))) env)
            as [rest e2] eqn:Hrest end.
        injection Hd as Hd1 Hd2. rewrite <- Hd1 in Hcos |- *. clear Hd1.
        pose proof (drive_nonempty _ _ _ _ _ _ _ _ _ _ _ Hrest) as Hne.
        destruct cos' as [|co0 cos'']; simpl in Hcos.
        { inversion Hcos; subst. congruence. }
        inversion Hcos as [[Hco0 Hrest']]. subst co0.
        destruct (drive_rel _ n 1%nat (save s0) s0 [] fuelU vU lU env rest e2 cos'' co (rel_plain _ _ eq_refl) Hwf0 HU Hle Hrest Hrest') as [Hi|[Hdone Hp2]].
        + left; exact Hi.
        + right. split; auto. unfold all_logs in *; simpl. rewrite <- Hrest'. exact Hp2.
    Qed.

    (* ---------- progress ---------- *)
    Section DriveProgress.
      Variable budget : ENV -> nat.
      Hypothesis H_budget : forall k cp v e r e', execR k cp v e = (r, e') ->
        (budget e' + (if is_rerun r then 1 else 0) <= budget e)%nat.

      (* a driven run whose last call is still interrupted has made all its calls, each of which executed a node:
         a completed execution of the uninterrupted run not yet credited, or an aborted attempt paid by the budget *)
      Lemma drive_progress : forall (fresh : freshT) n k c (sU : lstateT) credit fuelU vU lU env cos env' cos' co,
        rel c sU credit -> WF sU -> iterU fuelU sU tt [] = (ODone vU, lU, tt) -> (fuelU <= fuelR)%nat ->
        drive ser deser fresh (resumeR fuelR) (fun _ e => e) true n k (fun _ g => g) (Some (ser c)) env = (cos, env') ->
        cos = cos' ++ [co] -> is_interrupt (co_out co) ->
        (n + 1 + List.length credit <= List.length lU + budget env)%nat.
      Proof.
        intros fresh. induction n as [|n IH];
          intros k c sU credit fuelU vU lU env cos env' cos' co Hr Hwf HU Hle Hd Hcos Hint;
          rewrite (drive_unfold ser deser) in Hd; unfold call in Hd; rewrite H_ser in Hd;
          pose proof (call_rel fuelU sU vU lU c credit Hr Hwf HU fuelR env Hle) as Hseg;
          destruct (iterU_done_next _ _ _ _ HU) as [HfU _];
          assert (HfR : fuelR <> O) by lia;
          destruct (resumeR fuelR (fun g => g) c env) as [[o l] e1] eqn:Hres;
          destruct (resumed_call_runs budget H_budget c sU credit fuelU vU lU fuelR env o l e1 Hr HU HfR Hres) as [Hl1 Hb];
          pose proof (len_good_nab l) as Hgn;
          destruct Hseg as [[Ho Hp]|(i & c2 & sU' & fU' & lU1 & lU2 & cr' & Ho & Hr' & Hwf' & Hle' & HU' & HlU & Hp)];
          subst o; simpl in Hd.
        - inversion Hd; subst. destruct cos' as [|? [|? ?]]; inversion H0; subst.
          destruct Hint as (i & c' & Hi). simpl in Hi. discriminate.
        - pose proof (rel_credit_len c2 sU' cr' fU' vU lU2 Hr' HU') as Hcl.
          apply Permutation_length in Hp. rewrite !app_length in Hp. subst lU. rewrite app_length. lia.
        - inversion Hd; subst. destruct cos' as [|? [|? ?]]; inversion H0; subst.
          destruct Hint as (i & c' & Hi). simpl in Hi. discriminate.
        - destruct (drive ser deser fresh (resumeR fuelR) (fun _ e => e) true n (S k) (fun _ g => g) (Some (ser c2)) e1)
            as [rest e2] eqn:Hrest.
          injection Hd as Hd1 Hd2. rewrite <- Hd1 in Hcos. clear Hd1.
          pose proof (drive_nonempty _ _ _ _ _ _ _ _ _ _ _ Hrest) as Hne.
          destruct cos' as [|co0 cos'']; simpl in Hcos.
          { inversion Hcos; subst. congruence. }
          inversion Hcos as [[Hco0 Hrest']]. subst co0.
          pose proof (IH (S k) c2 sU' cr' fU' vU lU2 e1 rest e2 cos'' co Hr' Hwf' HU' ltac:(lia) Hrest Hrest' Hint) as Hn.
          apply Permutation_length in Hp. rewrite !app_length in Hp. subst lU. rewrite app_length. lia.
      Qed.

      (* the run with rerun nodes and interrupt points, driven through the store, takes at most
         1 + (executions of the uninterrupted run) + (budget of aborted attempts) calls *)
      Lemma rerun_progress_l : forall fuelU vU lU n env cos env' cos' co,
        Inv cs0 -> GOK gs0 ->
        start zero fold getr pre execU [] [] fuelU cs0 gs0 x tt = (ODone vU, lU, tt) ->
        (fuelU <= fuelR)%nat ->
        drive ser deser (start zero fold getr pre execR before after fuelR cs0 gs0 x) (resumeR fuelR)
              (fun _ e => e) true n 0 (fun _ g => g) None env = (cos, env') ->
        cos = cos' ++ [co] -> is_interrupt (co_out co) ->
        (n <= List.length lU + budget env)%nat.
      Proof.
        intros fuelU vU lU n env cos env' cos' co Hi0 Hg0 HU Hle Hd Hcos Hint.
        rewrite (drive_unfold ser deser) in Hd. unfold call in Hd.
        unfold start, start_gen, init_gen in HU, Hd.
        destruct (calc fold getr cs0 [(kStart, x)]) as [[cs1 ready]| |] eqn:Hc; simpl in HU; try discriminate.
        destruct (nlist_get kEnd ready) eqn:He.
        { simpl in HU, Hd. inversion HU; subst. inversion Hd; subst.
          destruct cos' as [|? [|? ?]]; inversion H0; subst. destruct Hint as (i & c' & Hi). simpl in Hi. discriminate. }
        rewrite hits_nil' in HU. simpl in HU.
        destruct (calc_facts _ _ _ _ Hi0 Hc) as (Hi1 & _ & Hnd).
        set (s0 := {| ls_cs := cs1; ls_next := map mk_task ready; ls_gs := gs0 |}) in *.
        assert (Hwf0 : WF s0).
        { split; [exact Hi1|]. split; [apply map_mk_task_fresh|]. split; [|exact Hg0].
          simpl. rewrite map_map; simpl; exact Hnd. }
        simpl in Hd.
        destruct (is_nil (hits before ready)) eqn:Hh; simpl in Hd.
        - pose proof (seg_plain fuelU s0 vU lU Hwf0 HU fuelR env Hle) as Hseg.
          destruct (iterR fuelR s0 env []) as [[o l] e1] eqn:Hit.
          destruct (iterR_budget budget H_budget _ _ _ _ _ _ _ Hit) as (Hb & _ & _).
          unfold nab in Hb at 2. simpl in Hb.
          pose proof (len_good_nab l) as Hgn.
          destruct Hseg as [[Ho Hp]|(i & c2 & sU' & fU' & lU1 & lU2 & cr' & Ho & Hr' & Hwf' & Hle' & HU' & HlU & Hp)];
            subst o; simpl in Hd.
          + inversion Hd; subst. destruct cos' as [|? [|? ?]]; inversion H0; subst.
            destruct Hint as (i & c' & Hi). simpl in Hi. discriminate.
          + destruct n as [|n]; [lia|].
            match type of Hd with context[drive ser deser ?f _ _ true n 1%nat] =>
              destruct (drive ser deser f (resumeR fuelR) (fun _ e => e) true n 1%nat (fun _ g => g) (Some (ser c2)) e1)
                as [rest e2] eqn:Hrest end.
            injection Hd as Hd1 Hd2. rewrite <- Hd1 in Hcos. clear Hd1.
            pose proof (drive_nonempty _ _ _ _ _ _ _ _ _ _ _ Hrest) as Hne.
            destruct cos' as [|co0 cos'']; simpl in Hcos.
            { inversion Hcos; subst. congruence. }
            inversion Hcos as [[Hco0 Hrest']]. subst co0.
            pose proof (drive_progress _ n 1%nat c2 sU' cr' fU' vU lU2 e1 rest e2 cos'' co Hr' Hwf' HU' ltac:(lia) Hrest Hrest' Hint) as Hn.
            simpl in Hp. apply Permutation_length in Hp. rewrite !app_length in Hp. subst lU. rewrite app_length. lia.
        - unfold plain_interrupt in Hd. rewrite save_mk in Hd. fold s0 in Hd. simpl in Hd.
          destruct n as [|n]; [lia|].
          match type of Hd with context[drive ser deser ?f _ _ true n 1%nat] =>
            destruct (drive ser deser f (resumeR fuelR) (fun _ e => e) true n 1%nat (fun _ g => g) (Some (ser (save s0))) env)
              as [rest e2] eqn:Hrest end.
          injection Hd as Hd1 Hd2. rewrite <- Hd1 in Hcos. clear Hd1.
          pose proof (drive_nonempty _ _ _ _ _ _ _ _ _ _ _ Hrest) as Hne.
          destruct cos' as [|co0 cos'']; simpl in Hcos.
          { inversion Hcos; subst. congruence. }
          inversion Hcos as [[Hco0 Hrest']]. subst co0.
          pose proof (drive_progress _ n 1%nat (save s0) s0 [] fuelU vU lU env rest e2 cos'' co (rel_plain _ _ eq_refl) Hwf0 HU Hle Hrest Hrest' Hint) as Hn.
          simpl in Hn. lia.
      Qed.
    End DriveProgress.
  End DriveRerun.
End Rerun.
