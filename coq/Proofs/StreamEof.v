(* Proofs/StreamEof.v — end of stream (Model/Stream.v, property C08): when Recv returns
   io.EOF on a reader that has not been closed, every source below it has ended (the
   writers closed their pipes, the arrays are exhausted, the forwarders saw their sources'
   EOF) and the reader has received the whole interleaving of its strands; a merged reader
   ends only after every one of its sources has ended. *)
From Eino Require Import Base.Util Model.Stream Proofs.Stream Proofs.StreamRel Proofs.StreamWf Proofs.StreamClose Proofs.StreamLink Proofs.StreamSem.
From Coq Require Import Lia Permutation.

(* ------------------------------------------------------------------ Recv leaves newer parents alone *)

Lemma Recv_frame_parents : forall st t r st' t', Recv st t r st' t' ->
  forall pb, acyclic st -> Forall (ref_below pb) (refs t) ->
  forall q, pb <= q -> nth_error (parents st') q = nth_error (parents st) q.
Proof.
  intros st t r st' t' H. induction H; intros pb Hac Hbel q Hq; auto.
  - (* mul retire *) apply (IHRecv pb); auto.
  - (* conv item *) apply (IHRecv pb); auto.
  - (* conv skip *)
    destruct (Recv_static _ _ _ _ _ H) as [SR Hr].
    rewrite (IHRecv2 pb); auto.
    + apply (IHRecv1 pb); auto.
    + eapply acyclic_store_rel; eauto.
    + simpl. rewrite Hr. exact Hbel.
  - (* conv other *) apply (IHRecv pb); auto.
  - (* child have *)
    simpl. inversion Hbel; subst. simpl in H4. apply nth_error_upd_neq. lia.
  - simpl. inversion Hbel; subst. simpl in H5. apply nth_error_upd_neq. lia.
  - (* pull item *)
    simpl. inversion Hbel; subst. simpl in H6. rewrite nth_error_upd_neq by lia.
    apply (IHRecv p); auto. lia.
  - simpl. inversion Hbel; subst. simpl in H6. rewrite nth_error_upd_neq by lia.
    apply (IHRecv p); auto. lia.
  - simpl. inversion Hbel; subst. simpl in H8. rewrite nth_error_upd_neq by lia.
    apply (IHRecv p); auto. lia.
Qed.

(* ------------------------------------------------------------------ definitions *)

Definition clean (fw : list fwd) (sid : nat) : Prop :=
  forall F, In F fw -> f_dst F = sid -> f_eof F = true.

(* stream sid has ended: send-closed, drained, and not merely cut off by a forwarder that
   was told "closed" *)
Definition EofS (st : store) (fw : list fwd) (sid : nat) : Prop :=
  exists s, nth_error (streams st) sid = Some s /\ s_sclosed s = true /\ s_buf s = [] /\ clean fw sid.

Fixpoint EofR (st : store) (fw : list fwd) (t : rd) : Prop :=
  match t with
  | RArr _ rest => rest = []
  | RStr sid => EofS st fw sid
  | RMul sts ch => ch = [] /\ forall sid, In sid sts -> EofS st fw sid
  | RConv _ src _ _ => EofR st fw src
  | RChild p i => exists P, nth_error (parents st) p = Some P /\ p_eof P = true /\ nth i (p_got P) [] = p_items P
  end.

(* the streams a multi reader has retired have ended *)
Fixpoint mul_ok (st : store) (fw : list fwd) (t : rd) : Prop :=
  match t with
  | RMul sts ch => forall i sid, nth_error sts i = Some sid -> ~ In i ch -> EofS st fw sid
  | RConv _ src _ _ => mul_ok st fw src
  | _ => True
  end.

Definition estable (st st' : store) : Prop :=
  (forall sid s, nth_error (streams st) sid = Some s -> s_sclosed s = true -> s_buf s = [] ->
     exists s', nth_error (streams st') sid = Some s' /\ s_sclosed s' = true /\ s_buf s' = [])
  /\ (forall p P, nth_error (parents st) p = Some P -> p_eof P = true ->
     exists P', nth_error (parents st') p = Some P' /\ p_eof P' = true /\ p_items P' = p_items P
       /\ forall i, nth i (p_got P) [] = p_items P -> nth i (p_got P') [] = p_items P').

Definition fwmono (fw fw' : list fwd) (bound : nat) : Prop :=
  forall F', In F' fw' ->
    (exists F, In F fw /\ f_dst F = f_dst F' /\ (f_eof F = true -> f_eof F' = true)) \/ bound <= f_dst F'.

Lemma estable_refl : forall st, estable st st.
Proof. intros st. split; intros; eauto 8. Qed.

Lemma estable_trans : forall a b c, estable a b -> estable b c -> estable a c.
Proof.
  intros a b c [A1 A2] [B1 B2]. split.
  - intros sid s H1 H2 H3. destruct (A1 _ _ H1 H2 H3) as (s1 & E1 & E2 & E3). apply (B1 _ _ E1 E2 E3).
  - intros p P H1 H2. destruct (A2 _ _ H1 H2) as (P1 & E1 & E2 & E3 & E4).
    destruct (B2 _ _ E1 E2) as (P2 & F1 & F2 & F3 & F4). exists P2.
    split; [exact F1|]. split; [exact F2|]. split; [congruence|].
    intros i Hi. apply F4. apply E4. exact Hi.
Qed.

Lemma fwmono_refl : forall fw b, fwmono fw fw b.
Proof. intros fw b F HF. left. exists F. auto. Qed.

Lemma EofS_stable : forall st fw st' fw' sid,
  EofS st fw sid -> estable st st' -> fwmono fw fw' (List.length (streams st)) -> EofS st' fw' sid.
Proof.
  intros st fw st' fw' sid (s & Hs & Hc & Hb & Hcl) [E1 _] Hm.
  destruct (E1 _ _ Hs Hc Hb) as (s' & Hs' & Hc' & Hb'). exists s'. repeat split; auto.
  intros F' HF' Hd. destruct (Hm _ HF') as [(F & HF & Ed & Em)|Hge].
  - apply Em. apply Hcl; auto. congruence.
  - assert (sid < List.length (streams st)) by (apply nth_error_Some; congruence). lia.
Qed.

Lemma EofR_stable : forall st fw st' fw' t,
  EofR st fw t -> estable st st' -> fwmono fw fw' (List.length (streams st)) -> EofR st' fw' t.
Proof.
  intros st fw st' fw' t. induction t as [d r | sid | sts ch | f src IH cin cout | p i]; simpl; intros H He Hm; auto.
  - eapply EofS_stable; eauto.
  - destruct H as [H1 H2]. split; auto. intros sid Hin. eapply EofS_stable; eauto.
  - destruct H as (P & HP & Hpe & Hg). destruct He as [_ E2]. destruct (E2 _ _ HP Hpe) as (P' & HP' & Hpe' & Hi & Hgg).
    exists P'. repeat split; auto.
Qed.

Lemma mul_ok_stable : forall st fw st' fw' t,
  mul_ok st fw t -> estable st st' -> fwmono fw fw' (List.length (streams st)) -> mul_ok st' fw' t.
Proof.
  intros st fw st' fw' t. induction t as [d r | sid | sts ch | f src IH cin cout | p i]; simpl; intros H He Hm; auto.
  intros i sid Hn Hni. eapply EofS_stable; eauto.
Qed.

(* ------------------------------------------------------------------ primitive updates *)

Lemma estable_set_stream : forall st sid s s',
  nth_error (streams st) sid = Some s ->
  (s_sclosed s = true -> s_buf s = [] -> s_sclosed s' = true /\ s_buf s' = []) ->
  estable st (set_stream st sid s').
Proof.
  intros st sid s s' Hn Hs. split.
  - intros sid0 s0 H0 Hc Hb. simpl. destruct (Nat.eq_dec sid sid0) as [<-|Hne].
    + rewrite Hn in H0. inversion H0; subst s0. exists s'.
      rewrite nth_error_upd_eq by (apply nth_error_Some; congruence). destruct (Hs Hc Hb). auto.
    + exists s0. rewrite nth_error_upd_neq by exact Hne. auto.
  - intros p P HP He. exists P. simpl. auto.
Qed.

Lemma estable_set_parent : forall st p P P',
  nth_error (parents st) p = Some P ->
  (p_eof P = true -> p_eof P' = true /\ p_items P' = p_items P
                     /\ forall i, nth i (p_got P) [] = p_items P -> nth i (p_got P') [] = p_items P') ->
  estable st (set_parent st p P').
Proof.
  intros st p P P' Hn HP. split.
  - intros sid s Hs Hc Hb. exists s. simpl. auto.
  - intros q Q HQ He. simpl. destruct (Nat.eq_dec p q) as [<-|Hne].
    + rewrite Hn in HQ. inversion HQ; subst Q. exists P'.
      rewrite nth_error_upd_eq by (apply nth_error_Some; congruence). destruct (HP He) as (A & B & C). auto.
    + exists Q. rewrite nth_error_upd_neq by exact Hne. auto.
Qed.

Lemma stream_recv_drained : forall s r s', stream_recv s = (r, s') ->
  s_sclosed s = true -> s_buf s = [] -> s_sclosed s' = true /\ s_buf s' = [].
Proof. intros s r s' H Hc Hb. unfold stream_recv in H. rewrite Hb, Hc in H. inversion H; subst. auto. Qed.

Lemma stream_recv_eof : forall s s', stream_recv s = (PEOF, s') -> s' = s /\ s_sclosed s = true /\ s_buf s = [].
Proof.
  intros s s' H. unfold stream_recv in H. destruct (s_buf s) eqn:Eb.
  - destruct (s_sclosed s) eqn:Ec; inversion H; subst; auto.
  - inversion H.
Qed.

Definition FEs (st : store) (fw : list fwd) : Prop :=
  forall F d, In F fw -> nth_error (streams st) (f_dst F) = Some d ->
    s_sclosed d = true -> s_rclosed d = 0 -> f_eof F = true.

Lemma FEs_store_rel : forall st st' fw, store_rel st st' -> FEs st fw -> FEs st' fw.
Proof.
  intros st st' fw [H1 _] HF F d' HFi Hd' Hc Hr.
  destruct (Forall2_nth_r _ _ _ _ _ _ H1 Hd') as (d & Hd & (_ & E2 & E3 & _)). eapply HF; eauto; congruence.
Qed.

(* the parents' part of the EOF invariant *)
Definition PE (st : store) (fw : list fwd) : Prop :=
  forall q Q, nth_error (parents st) q = Some Q ->
    mul_ok st fw (p_src Q) /\ (p_eof Q = true -> EofR st fw (p_src Q)).

Lemma In_remove_nat : forall i j l, In j l -> j <> i -> In j (remove_nat i l).
Proof.
  induction l as [|y l IH]; intros Hin Hne; simpl in *; auto.
  destruct (Nat.eqb i y) eqn:E.
  - apply Nat.eqb_eq in E. subst y. destruct Hin as [->|Hin]; [congruence | exact Hin].
  - destruct Hin as [->|Hin]; [left; reflexivity | right; apply IH; auto].
Qed.

Lemma EofS_of_recv_eof : forall st fw sid s s0,
  FEs st fw -> nth_error (streams st) sid = Some s -> stream_recv s = (PEOF, s0) ->
  ~ rclosed st (RS sid) -> EofS st fw sid.
Proof.
  intros st fw sid s s0 HF Hs Hr Hopen. destruct (stream_recv_eof _ _ Hr) as (_ & Hc & Hb).
  exists s. repeat split; auto. intros F HFi Hd. subst sid. eapply HF; eauto.
  destruct (s_rclosed s) eqn:E; auto. exfalso. apply Hopen. simpl. exists s. split; auto. lia.
Qed.

Lemma PE_set_stream : forall st fw sid s',
  PE st fw -> estable st (set_stream st sid s') -> PE (set_stream st sid s') fw.
Proof.
  intros st fw sid s' HP He q Q HQ. simpl in HQ. destruct (HP _ _ HQ) as [A B]. split.
  - eapply mul_ok_stable; eauto. apply fwmono_refl.
  - intros Hq. eapply EofR_stable; eauto. apply fwmono_refl.
Qed.

Lemma PE_set_parent : forall st fw p P2,
  PE st fw -> estable st (set_parent st p P2) ->
  (mul_ok (set_parent st p P2) fw (p_src P2) /\ (p_eof P2 = true -> EofR (set_parent st p P2) fw (p_src P2))) ->
  PE (set_parent st p P2) fw.
Proof.
  intros st fw p P2 HP He H2 q Q HQ. simpl in HQ.
  destruct (nth_error_upd _ _ _ _ _ _ HQ) as [[-> ->]|[Hne HQ0]]; auto.
  destruct (HP _ _ HQ0) as [A B]. split.
  - eapply mul_ok_stable; eauto. apply fwmono_refl.
  - intros Hq. eapply EofR_stable; eauto. apply fwmono_refl.
Qed.

Lemma child_got_full : forall P i c,
  parent_ok P -> nth_error (p_cur P) i = Some (Some c) -> nth_error (p_items P) c = None ->
  nth i (p_got P) [] = p_items P.
Proof.
  intros P i c (Hl & _ & Hc & _) Hi Hn.
  destruct (nth_error (p_got P) i) as [g|] eqn:Eg.
  - rewrite (nth_error_nth _ _ _ Eg). destruct (Hc i _ _ Hi Eg) as (_ & Hb & _). destruct (Hb c eq_refl) as [-> Hle].
    apply firstn_all2. apply nth_error_None. exact Hn.
  - apply nth_error_None in Eg. assert (i < List.length (p_cur P)) by (apply nth_error_Some; congruence). lia.
Qed.

Lemma child_got_short : forall P i c x,
  parent_ok P -> nth_error (p_cur P) i = Some (Some c) -> nth_error (p_items P) c = Some x ->
  nth i (p_got P) [] <> p_items P.
Proof.
  intros P i c x (Hl & _ & Hc & _) Hi Hn E.
  destruct (nth_error (p_got P) i) as [g|] eqn:Eg.
  - rewrite (nth_error_nth _ _ _ Eg) in E. destruct (Hc i _ _ Hi Eg) as (_ & Hb & _). destruct (Hb c eq_refl) as [Hg Hle].
    subst g. assert (Hlen : List.length (firstn c (p_items P)) = List.length (p_items P)) by congruence.
    rewrite firstn_length in Hlen. assert (c < List.length (p_items P)) by (apply nth_error_Some; congruence). lia.
  - apply nth_error_None in Eg. assert (i < List.length (p_cur P)) by (apply nth_error_Some; congruence). lia.
Qed.

(* ------------------------------------------------------------------ Recv and end of stream *)

Lemma Recv_eof : forall st t r st' t', Recv st t r st' t' ->
  forall fw, store_ok st -> acyclic st -> pcnt st -> PK st -> FEs st fw -> rd_ok t ->
    (forall r0, In r0 (refs t) -> ~ rclosed st r0) ->
    mul_ok st fw t -> PE st fw ->
    estable st st' /\ mul_ok st' fw t' /\ PE st' fw /\ (r = PEOF -> EofR st' fw t').
Proof.
  intros st t r st' t' H. induction H; intros fw Hok Hac Hp HK HF Hrd Hopen Hmul HPE.
  - (* arr eof *) split; [apply estable_refl|]. split; [exact I|]. split; [exact HPE|]. intros _. reflexivity.
  - (* arr item *) split; [apply estable_refl|]. split; [exact I|]. split; [exact HPE|]. discriminate.
  - (* str *)
    assert (He : estable st (set_stream st sid s')).
    { eapply estable_set_stream; eauto. eapply stream_recv_drained; eauto. }
    split; [exact He|]. split; [exact I|]. split; [apply PE_set_stream; auto|].
    intros ->. destruct (stream_recv_eof _ _ H0) as (-> & _).
    eapply EofS_stable; [|exact He|apply fwmono_refl].
    eapply EofS_of_recv_eof; eauto. apply Hopen. left. reflexivity.
  - (* mul eof *)
    split; [apply estable_refl|]. split; [exact Hmul|]. split; [exact HPE|]. intros _. simpl. split; auto.
    intros sid Hin. apply In_nth_error in Hin. destruct Hin as (i & Hi). eapply Hmul; eauto.
  - (* mul block *) split; [apply estable_refl|]. split; [exact Hmul|]. split; [exact HPE|]. discriminate.
  - (* mul item *)
    assert (He : estable st (set_stream st sid s')).
    { eapply estable_set_stream; eauto. eapply stream_recv_drained; eauto. }
    split; [exact He|]. split; [|split; [apply PE_set_stream; auto | discriminate]].
    eapply (mul_ok_stable st fw); eauto. apply fwmono_refl.
  - (* mul retire *)
    apply IHRecv; auto. simpl. intros i' sid' Hn Hni.
    destruct (Nat.eq_dec i' i) as [->|Hne].
    + assert (sid' = sid) by congruence. subst sid'. eapply EofS_of_recv_eof; eauto.
      apply Hopen. simpl. apply in_map. eapply nth_error_In; eauto.
    + apply (Hmul i' sid' Hn). intros Hin. apply Hni. apply In_remove_nat; auto.
  - (* conv item *)
    destruct Hrd as [_ Hrs]. destruct (IHRecv fw Hok Hac Hp HK HF Hrs Hopen Hmul HPE) as (A & B & C & D).
    split; [exact A|]. split; [exact B|]. split; [exact C|]. discriminate.
  - (* conv skip *)
    destruct Hrd as [Hc Hrs]. destruct (IHRecv1 fw Hok Hac Hp HK HF Hrs Hopen Hmul HPE) as (A & B & C & D).
    destruct (Recv_ok _ _ _ _ _ H Hok Hrs) as [Hok1 Hrs1].
    destruct (Recv_static _ _ _ _ _ H) as [SR1 Hrefs1].
    destruct (IHRecv2 fw) as (A2 & B2 & C2 & D2); auto.
    + eapply acyclic_store_rel; eauto.
    + eapply pcnt_store_rel; eauto.
    + eapply PK_store_rel; eauto.
    + eapply FEs_store_rel; eauto.
    + simpl. split; auto. rewrite filter_map_app. simpl. rewrite H0. rewrite app_nil_r. exact Hc.
    + intros r0 Hr0 Hc0. simpl in Hr0. rewrite Hrefs1 in Hr0. apply (Hopen r0 Hr0). apply (rclosed_store_rel _ _ _ SR1). exact Hc0.
    + split; [eapply estable_trans; eauto|]. auto.
  - (* conv other *)
    destruct Hrd as [_ Hrs]. destruct (IHRecv fw Hok Hac Hp HK HF Hrs Hopen Hmul HPE) as (A & B & C & D).
    split; [exact A|]. split; [exact B|]. split; [exact C|]. exact D.
  - (* child closed *)
    exfalso. apply (Hopen (RC p i)); [left; reflexivity|]. simpl. eauto.
  - (* child have *)
    assert (HPok : parent_ok P) by (destruct Hok as [_ Hpp]; eapply Forall_nth_error; eauto).
    assert (He : estable st (set_parent st p (deliver P i c x))).
    { eapply estable_set_parent; eauto. intros Hpe. simpl. repeat split; auto.
      intros j Hj. destruct (Nat.eq_dec i j) as [<-|Hne].
      - exfalso. eapply child_got_short; eauto.
      - rewrite nth_app_at_neq by exact Hne. exact Hj. }
    split; [exact He|]. split; [exact I|]. split; [|discriminate].
    apply PE_set_parent; auto. simpl. destruct (HPE _ _ H) as [A B]. split.
    + eapply mul_ok_stable; eauto. apply fwmono_refl.
    + intros Hpe. eapply EofR_stable; eauto. apply fwmono_refl.
  - (* child eof *)
    assert (HPok : parent_ok P) by (destruct Hok as [_ Hpp]; eapply Forall_nth_error; eauto).
    assert (He : estable st (set_parent st p (mark_eof P i))).
    { eapply estable_set_parent; eauto; intros Hpe; simpl; auto. }
    split; [exact He|]. split; [exact I|]. split.
    + apply PE_set_parent; auto. simpl. destruct (HPE _ _ H) as [A B]. split.
      * eapply mul_ok_stable; eauto. apply fwmono_refl.
      * intros Hpe. eapply EofR_stable; eauto. apply fwmono_refl.
    + intros _. simpl. exists (mark_eof P i). split; [apply nth_error_upd_eq; apply nth_error_Some; congruence|].
      simpl. split; auto. eapply child_got_full; eauto.
  - (* pull item *)
    assert (HPok : parent_ok P) by (destruct Hok as [_ Hpp]; eapply Forall_nth_error; eauto).
    assert (Hsrcok : rd_ok (p_src P)) by (destruct HPok as (_ & _ & _ & _ & X); exact X).
    destruct (HPE _ _ H) as [Hms _].
    destruct (IHRecv fw Hok Hac Hp HK HF Hsrcok (parent_open_src _ _ _ _ _ Hp HK H H0) Hms HPE) as (A & B & C & D).
    assert (HP1 : nth_error (parents st1) p = Some P).
    { rewrite (Recv_frame_parents _ _ _ _ _ H3 p Hac (Hac _ _ H)); auto. }
    set (P2 := deliver (pulled_item (with_src P src1) x) i c x).
    assert (He2 : estable st1 (set_parent st1 p P2)).
    { eapply estable_set_parent; eauto; intros Hpe; congruence. }
    split; [eapply estable_trans; eauto|]. split; [exact I|]. split; [|discriminate].
    apply PE_set_parent; auto. simpl. split.
    + eapply mul_ok_stable; eauto. apply fwmono_refl.
    + intros Hpe. congruence.
  - (* pull eof *)
    assert (HPok : parent_ok P) by (destruct Hok as [_ Hpp]; eapply Forall_nth_error; eauto).
    assert (Hsrcok : rd_ok (p_src P)) by (destruct HPok as (_ & _ & _ & _ & X); exact X).
    destruct (HPE _ _ H) as [Hms _].
    destruct (IHRecv fw Hok Hac Hp HK HF Hsrcok (parent_open_src _ _ _ _ _ Hp HK H H0) Hms HPE) as (A & B & C & D).
    assert (HP1 : nth_error (parents st1) p = Some P).
    { rewrite (Recv_frame_parents _ _ _ _ _ H3 p Hac (Hac _ _ H)); auto. }
    set (P2 := mark_eof (pulled_eof (with_src P src1)) i).
    assert (He2 : estable st1 (set_parent st1 p P2)).
    { eapply estable_set_parent; eauto; intros Hpe; congruence. }
    split; [eapply estable_trans; eauto|]. split; [exact I|]. split.
    + apply PE_set_parent; auto. simpl. split.
      * eapply mul_ok_stable; eauto. apply fwmono_refl.
      * intros _. eapply EofR_stable; eauto. apply fwmono_refl.
    + intros _. simpl. exists P2. split; [apply nth_error_upd_eq; apply nth_error_Some; congruence|].
      simpl. split; auto. eapply child_got_full; eauto.
  - (* pull other *)
    assert (HPok : parent_ok P) by (destruct Hok as [_ Hpp]; eapply Forall_nth_error; eauto).
    assert (Hsrcok : rd_ok (p_src P)) by (destruct HPok as (_ & _ & _ & _ & X); exact X).
    destruct (HPE _ _ H) as [Hms _].
    destruct (IHRecv fw Hok Hac Hp HK HF Hsrcok (parent_open_src _ _ _ _ _ Hp HK H H0) Hms HPE) as (A & B & C & D).
    assert (HP1 : nth_error (parents st1) p = Some P).
    { rewrite (Recv_frame_parents _ _ _ _ _ H3 p Hac (Hac _ _ H)); auto. }
    set (P2 := with_src P src1).
    assert (He2 : estable st1 (set_parent st1 p P2)).
    { eapply estable_set_parent; eauto; intros Hpe; congruence. }
    split; [eapply estable_trans; eauto|]. split; [exact I|]. split; [|intros ->; congruence].
    apply PE_set_parent; auto. simpl. split.
    + eapply mul_ok_stable; eauto. apply fwmono_refl.
    + intros Hpe. congruence.
  - (* stuck *)
    destruct H as [-> | ->]; (split; [apply estable_refl|]; split; [exact Hmul|]; split; [exact HPE|]; discriminate).
Qed.

Lemma Recv_estable : forall st t r st' t', Recv st t r st' t' ->
  store_ok st -> acyclic st -> rd_ok t -> estable st st'.
Proof.
  intros st t r st' t' H. induction H; intros Hok Hac Hrd; try apply estable_refl.
  - eapply estable_set_stream; eauto. eapply stream_recv_drained; eauto.
  - eapply estable_set_stream; eauto. eapply stream_recv_drained; eauto.
  - apply IHRecv; auto.
  - destruct Hrd as [_ Hrs]. apply IHRecv; auto.
  - destruct Hrd as [Hc Hrs]. destruct (Recv_ok _ _ _ _ _ H Hok Hrs) as [Hok1 Hrs1].
    destruct (Recv_static _ _ _ _ _ H) as [SR1 _].
    eapply estable_trans; [apply IHRecv1; auto|]. apply IHRecv2; auto.
    + eapply acyclic_store_rel; eauto.
    + simpl. split; auto. rewrite filter_map_app. simpl. rewrite H0. rewrite app_nil_r. exact Hc.
  - destruct Hrd as [_ Hrs]. apply IHRecv; auto.
  - assert (HPok : parent_ok P) by (destruct Hok as [_ Hpp]; eapply Forall_nth_error; eauto).
    eapply estable_set_parent; eauto. intros Hpe. simpl. repeat split; auto.
    intros j Hj. destruct (Nat.eq_dec i j) as [<-|Hne].
    + exfalso. eapply child_got_short; eauto.
    + rewrite nth_app_at_neq by exact Hne. exact Hj.
  - eapply estable_set_parent; eauto; intros Hpe; simpl; auto.
  - assert (HPok : parent_ok P) by (destruct Hok as [_ Hpp]; eapply Forall_nth_error; eauto).
    assert (Hsrcok : rd_ok (p_src P)) by (destruct HPok as (_ & _ & _ & _ & X); exact X).
    assert (HP1 : nth_error (parents st1) p = Some P).
    { rewrite (Recv_frame_parents _ _ _ _ _ H3 p Hac (Hac _ _ H)); auto. }
    eapply estable_trans; [apply IHRecv; auto|]. eapply estable_set_parent; eauto; intros Hpe; congruence.
  - assert (HPok : parent_ok P) by (destruct Hok as [_ Hpp]; eapply Forall_nth_error; eauto).
    assert (Hsrcok : rd_ok (p_src P)) by (destruct HPok as (_ & _ & _ & _ & X); exact X).
    assert (HP1 : nth_error (parents st1) p = Some P).
    { rewrite (Recv_frame_parents _ _ _ _ _ H3 p Hac (Hac _ _ H)); auto. }
    eapply estable_trans; [apply IHRecv; auto|]. eapply estable_set_parent; eauto; intros Hpe; congruence.
  - assert (HPok : parent_ok P) by (destruct Hok as [_ Hpp]; eapply Forall_nth_error; eauto).
    assert (Hsrcok : rd_ok (p_src P)) by (destruct HPok as (_ & _ & _ & _ & X); exact X).
    assert (HP1 : nth_error (parents st1) p = Some P).
    { rewrite (Recv_frame_parents _ _ _ _ _ H3 p Hac (Hac _ _ H)); auto. }
    eapply estable_trans; [apply IHRecv; auto|]. eapply estable_set_parent; eauto; intros Hpe; congruence.
Qed.

(* once at EOF, always at EOF *)
Lemma EofR_sticky : forall st t r st' t', Recv st t r st' t' ->
  forall fw, store_ok st -> acyclic st -> rd_ok t -> EofR st fw t -> EofR st' fw t'.
Proof.
  intros st t r st' t' H. induction H; intros fw Hok Hac Hrd He; auto.
  - (* arr item *) simpl in He. discriminate.
  - (* str *) eapply EofS_stable; eauto; [|apply fwmono_refl].
    eapply estable_set_stream; eauto. eapply stream_recv_drained; eauto.
  - (* mul item *) simpl in He. destruct He as [-> _]. inversion H.
  - (* mul retire *) simpl in He. destruct He as [-> _]. inversion H.
  - (* conv item *) destruct Hrd as [_ Hrs]. simpl in *. eapply IHRecv; eauto.
  - (* conv skip *)
    destruct Hrd as [Hc Hrs]. destruct (Recv_ok _ _ _ _ _ H Hok Hrs) as [Hok1 Hrs1].
    destruct (Recv_static _ _ _ _ _ H) as [SR1 _].
    apply IHRecv2; auto.
    + eapply acyclic_store_rel; eauto.
    + simpl. split; auto. rewrite filter_map_app. simpl. rewrite H0. rewrite app_nil_r. exact Hc.
    + simpl in *. eapply IHRecv1; eauto.
  - (* conv other *) destruct Hrd as [_ Hrs]. simpl in *. eapply IHRecv; eauto.
  - (* child have *)
    exfalso. simpl in He. destruct He as (P0 & HP0 & Hpe & Hg). rewrite H in HP0. inversion HP0; subst P0.
    assert (HPok : parent_ok P) by (destruct Hok as [_ Hpp]; eapply Forall_nth_error; eauto).
    eapply child_got_short; eauto.
  - (* child eof *)
    simpl in *. destruct He as (P0 & HP0 & Hpe & Hg). rewrite H in HP0. inversion HP0; subst P0.
    exists (mark_eof P i). split; [apply nth_error_upd_eq; apply nth_error_Some; congruence|]. simpl. auto.
  - exfalso. simpl in He. destruct He as (P0 & HP0 & Hpe & Hg). rewrite H in HP0. inversion HP0; subst P0. congruence.
  - exfalso. simpl in He. destruct He as (P0 & HP0 & Hpe & Hg). rewrite H in HP0. inversion HP0; subst P0. congruence.
  - exfalso. simpl in He. destruct He as (P0 & HP0 & Hpe & Hg). rewrite H in HP0. inversion HP0; subst P0. congruence.
Qed.

(* ------------------------------------------------------------------ the invariant on whole states *)

Definition rok (st : store) (fw : list fwd) (t : rd) (eof : bool) : Prop :=
  mul_ok st fw t /\ (eof = true -> EofR st fw t).

Definition einv (G : state) : Prop :=
  FEs (st_store G) (st_fwds G)
  /\ (forall h H, nth_error (st_handles G) h = Some H -> h_live H = true ->
        rok (st_store G) (st_fwds G) (h_rd H) (h_eof H))
  /\ PE (st_store G) (st_fwds G)
  /\ (forall k F, nth_error (st_fwds G) k = Some F -> rok (st_store G) (st_fwds G) (f_src F) (f_eof F)).

Lemma rok_stable : forall st fw st' fw' t e,
  rok st fw t e -> estable st st' -> fwmono fw fw' (List.length (streams st)) -> rok st' fw' t e.
Proof.
  intros st fw st' fw' t e [A B] He Hm. split.
  - eapply mul_ok_stable; eauto.
  - intros E. eapply EofR_stable; eauto.
Qed.

Lemma rok_mono : forall st fw t e e', rok st fw t e -> (e' = true -> e = true) -> rok st fw t e'.
Proof. intros st fw t e e' [A B] H. split; auto. Qed.

(* a step after which every root is either inherited (same reader, flag not newly set) from a
   root of the old state or justified directly *)
Lemma einv_step : forall G G',
  einv G ->
  estable (st_store G) (st_store G') ->
  fwmono (st_fwds G) (st_fwds G') (List.length (streams (st_store G))) ->
  FEs (st_store G') (st_fwds G') ->
  (forall h H', nth_error (st_handles G') h = Some H' -> h_live H' = true ->
     (exists h0 H, nth_error (st_handles G) h0 = Some H /\ h_live H = true /\ h_rd H' = h_rd H /\ (h_eof H' = true -> h_eof H = true))
     \/ rok (st_store G') (st_fwds G') (h_rd H') (h_eof H')) ->
  (forall q Q', nth_error (parents (st_store G')) q = Some Q' ->
     (exists q0 Q, nth_error (parents (st_store G)) q0 = Some Q /\ p_src Q' = p_src Q /\ (p_eof Q' = true -> p_eof Q = true))
     \/ rok (st_store G') (st_fwds G') (p_src Q') (p_eof Q')) ->
  (forall k F', nth_error (st_fwds G') k = Some F' ->
     (exists k0 F, nth_error (st_fwds G) k0 = Some F /\ f_src F' = f_src F /\ (f_eof F' = true -> f_eof F = true))
     \/ rok (st_store G') (st_fwds G') (f_src F') (f_eof F')) ->
  einv G'.
Proof.
  intros G G' (E1 & E2 & E3 & E4) Hst Hfm HFE Hh Hp Hf. split; [exact HFE|]. split; [|split].
  - intros h H' Hn Hlv. destruct (Hh _ _ Hn Hlv) as [(h0 & H & Hn0 & Hlv0 & Er & Ee)|Hr]; auto.
    rewrite Er. eapply rok_mono; [|exact Ee]. eapply rok_stable; eauto.
  - intros q Q' HQ'. destruct (Hp _ _ HQ') as [(q0 & Q & HQ & Er & Ee)|Hr]; [|exact Hr].
    rewrite Er. destruct (E3 _ _ HQ) as [A B].
    assert (R : rok (st_store G) (st_fwds G) (p_src Q) (p_eof Q)) by (split; auto).
    destruct (rok_mono _ _ _ _ (p_eof Q') (rok_stable _ _ _ _ _ _ R Hst Hfm) Ee) as [A' B']. split; auto.
  - intros k F' HF'. destruct (Hf _ _ HF') as [(k0 & F & HF & Er & Ee)|Hr]; auto.
    rewrite Er. eapply rok_mono; [|exact Ee]. eapply rok_stable; eauto.
Qed.

Lemma estable_ext : forall st st' ns np,
  streams st' = streams st ++ ns -> parents st' = parents st ++ np -> estable st st'.
Proof.
  intros st st' ns np Hs Hp. split.
  - intros sid s H Hc Hb. exists s. rewrite Hs. rewrite nth_error_app1 by (apply nth_error_Some; congruence). auto.
  - intros p P H He. exists P. rewrite Hp. rewrite nth_error_app1 by (apply nth_error_Some; congruence). auto.
Qed.

Lemma estable_cstore_rel : forall st st', cstore_rel st st' -> estable st st'.
Proof.
  intros st st' [H1 H2]. split.
  - intros sid s H Hc Hb. destruct (Forall2_nth _ _ _ _ _ _ H1 H) as (s' & Hs' & (_ & Eb & Ec & _)).
    exists s'. repeat split; auto; congruence.
  - intros p P H He. destruct (Forall2_nth _ _ _ _ _ _ H2 H) as (P' & HP' & (_ & Ei & Ee & _ & Eg & _)).
    exists P'. split; [exact HP'|]. split; [congruence|]. split; [exact Ei|]. intros i Hi. rewrite Eg, Ei. exact Hi.
Qed.

Lemma einv_constructor_gen : forall G st' hs1 news np nf ns,
  einv G -> wf G ->
  streams st' = streams (st_store G) ++ ns ->
  parents st' = parents (st_store G) ++ np ->
  (forall h0 H', nth_error hs1 h0 = Some H' ->
     exists H, nth_error (st_handles G) h0 = Some H /\ (H' = H \/ h_live H' = false)) ->
  (forall F d, In F nf -> List.length (streams (st_store G)) <= f_dst F /\
                          (nth_error (streams st') (f_dst F) = Some d -> s_sclosed d = false)) ->
  (forall N, In N news -> h_eof N = false /\ mul_ok st' (st_fwds G ++ nf) (h_rd N)) ->
  (forall P, In P np -> p_eof P = false /\ mul_ok st' (st_fwds G ++ nf) (p_src P)) ->
  (forall F, In F nf -> f_eof F = false /\ mul_ok st' (st_fwds G ++ nf) (f_src F)) ->
  einv (mkState st' (st_fwds G ++ nf) (hs1 ++ news)).
Proof.
  intros G st' hs1 news np nf ns HE HW Hstr Hpar Hold Hnf HN HP HF.
  pose proof HE as (E1 & E2 & E3 & E4).
  apply (einv_step G); simpl; auto.
  - eapply estable_ext; eauto.
  - intros F' HF'. apply in_app_or in HF'. destruct HF' as [HF'|HF'].
    + left. exists F'. auto.
    + right. apply (Hnf F' (new_stream 0 false) HF').
  - intros F d HFi Hd Hc Hr. apply in_app_or in HFi. destruct HFi as [HFi|HFi].
    + destruct HW as (_ & _ & _ & W4 & _). rewrite Forall_forall in W4. destruct (W4 _ HFi) as (d0 & Hd0 & _).
      rewrite Hstr in Hd. rewrite nth_error_app1 in Hd by (apply nth_error_Some; congruence).
      apply (E1 F d); auto.
    + destruct (Hnf F d HFi) as [_ X]. rewrite (X Hd) in Hc. discriminate.
  - intros h H' Hn Hlv. destruct (nth_error_app_new _ _ _ _ _ Hn) as [E|[_ Hin]].
    + destruct (Hold _ _ E) as (H & HnG & [->|Hd]); [|congruence]. left. exists h, H. auto.
    + right. destruct (HN _ Hin) as [A B]. split; auto. intros E. congruence.
  - intros q Q' HQ'. rewrite Hpar in HQ'. destruct (nth_error_app_new _ _ _ _ _ HQ') as [E|[_ Hin]].
    + left. exists q, Q'. auto.
    + right. destruct (HP _ Hin) as [A B]. split; auto. intros E. congruence.
  - intros k F' HF'. destruct (nth_error_app_new _ _ _ _ _ HF') as [E|[_ Hin]].
    + left. exists k, F'. auto.
    + right. destruct (HF _ Hin) as [A B]. split; auto. intros E. congruence.
Qed.

Lemma fresh_mul_ok : forall G h t, einv G -> live_rd G h = Some t -> mul_ok (st_store G) (st_fwds G) t.
Proof.
  intros G h t (_ & E2 & _) Hl. destruct (live_rd_nth _ _ _ Hl) as (H & Hn & Hlv & Hrd).
  destruct (E2 _ _ Hn Hlv) as [A _]. rewrite <- Hrd. exact A.
Qed.

Lemma mul_ok_fresh_chosen : forall st fw sts, mul_ok st fw (RMul sts (seq 0 (List.length sts))).
Proof.
  intros st fw sts i sid Hn Hni. exfalso. apply Hni. apply in_seq. split; [lia|].
  simpl. apply nth_error_Some. congruence.
Qed.

Lemma stream_send_eof_facts : forall s x r s', stream_send s x = (r, s') ->
  (s_sclosed s = true -> s_buf s = [] -> s_sclosed s' = true /\ s_buf s' = [])
  /\ s_sclosed s' = s_sclosed s /\ s_rclosed s' = s_rclosed s
  /\ (r = SClosed -> 0 < s_rclosed s).
Proof.
  intros s x r s' H. unfold stream_send in H.
  destruct (Nat.ltb 0 (s_rclosed s)) eqn:E0.
  { inversion H; subst. apply Nat.ltb_lt in E0. auto. }
  destruct (s_sclosed s) eqn:Ec.
  { inversion H; subst. rewrite Ec. repeat split; auto; discriminate. }
  destruct (Nat.ltb (List.length (s_buf s)) (eff_cap (s_cap s))); inversion H; subst; simpl.
  - repeat split; auto; discriminate.
  - rewrite Ec. repeat split; auto; discriminate.
Qed.

Lemma stream_close_send_eof_facts : forall s r s', stream_close_send s = (r, s') ->
  s_sclosed s' = true /\ s_buf s' = s_buf s /\ s_rclosed s' = s_rclosed s.
Proof. intros s r s'. unfold stream_close_send. destruct (s_sclosed s) eqn:E; intros H; inversion H; subst; auto. Qed.

Lemma FEs_cstore_rel : forall st st' fw, cstore_rel st st' -> FEs st fw -> FEs st' fw.
Proof.
  intros st st' fw [H1 _] HF F d' HFi Hd' Hc Hr.
  destruct (Forall2_nth_r _ _ _ _ _ _ H1 Hd') as (d & Hd & (_ & _ & E3 & _ & _ & _ & E7)).
  apply (HF F d); auto; [congruence | lia].
Qed.

Lemma einv_user_stream : forall G sid s s',
  einv G -> wf G -> nth_error (streams (st_store G)) sid = Some s -> s_user s = true ->
  (s_sclosed s = true -> s_buf s = [] -> s_sclosed s' = true /\ s_buf s' = []) ->
  einv (mkState (set_stream (st_store G) sid s') (st_fwds G) (st_handles G)).
Proof.
  intros G sid s s' HE HW Hn Hu Hs. pose proof HE as (E1 & E2 & E3 & E4).
  apply (einv_step G); simpl; auto.
  - eapply estable_set_stream; eauto.
  - apply fwmono_refl.
  - intros F d HFi Hd Hc Hr.
    destruct HW as (_ & _ & _ & W4 & _). rewrite Forall_forall in W4. destruct (W4 _ HFi) as (d0 & Hd0 & Hu0).
    assert (Hne : sid <> f_dst F) by (intros ->; congruence).
    simpl in Hd. rewrite nth_error_upd_neq in Hd by exact Hne. apply (E1 F d); auto.
  - intros h H' Hh Hlv. left. exists h, H'. auto.
  - intros q Q' HQ'. left. exists q, Q'. auto.
  - intros k F' HF'. left. exists k, F'. auto.
Qed.

Lemma do_op_einv : forall fuel G o b G',
  do_op fuel G o = (b, G') -> Inv G -> op_legal G o -> einv G -> einv G'.
Proof.
  intros fuel G o b G' H (HS & HW & Hp & HK & HL) Hpre HE.
  pose proof HE as (E1 & E2 & E3 & E4).
  destruct o as [cap | xs | h n | hs | h f | sid x | sid | h ch | h | k ch]; simpl in H.
  - (* OPipe *)
    inversion H; subst; clear H. rewrite <- (app_nil_r (st_fwds G)).
    apply (einv_constructor_gen G _ (st_handles G) _ [] [] [new_stream cap true] HE HW); auto.
    + simpl. rewrite app_nil_r. reflexivity.
    + apply identity_nth'.
    + intros F d [].
    + intros N [<-|[]]. simpl. auto.
    + intros P [].
    + intros F [].
  - (* OArray *)
    inversion H; subst; clear H. rewrite <- (app_nil_r (st_fwds G)).
    apply (einv_constructor_gen G _ (st_handles G) _ [] [] [] HE HW); auto.
    + rewrite app_nil_r. reflexivity.
    + rewrite app_nil_r. reflexivity.
    + apply identity_nth'.
    + intros F d [].
    + intros N [<-|[]]. simpl. auto.
    + intros P [].
    + intros F [].
  - (* OCopy *)
    destruct (live_rd G h) as [t|] eqn:El; [|inversion H; subst; auto].
    destruct (Nat.ltb n 2) eqn:En; [inversion H; subst; auto|].
    pose proof (fresh_mul_ok G h t HE El) as Hm.
    assert (Hpar : forall t0, t0 = t ->
      einv (mkState (add_parent (st_store G) (new_parent t0 n)) (st_fwds G)
             (st_handles (consume G h) ++
              map (fun i => mkH (RChild (List.length (parents (st_store G))) i) true false [] false) (seq 0 n)))).
    { intros t0 ->. rewrite <- (app_nil_r (st_fwds G)).
      apply (einv_constructor_gen G _ (st_handles (consume G h)) _ [new_parent t n] [] [] HE HW).
      + simpl. rewrite app_nil_r. reflexivity.
      + reflexivity.
      + apply consume_nth'.
      + intros F d [].
      + intros N HN. apply in_map_iff in HN. destruct HN as (i0 & <- & _). simpl. auto.
      + intros P [<-|[]]. simpl. split; auto. rewrite app_nil_r.
        eapply mul_ok_stable; eauto; [|apply fwmono_refl].
        apply (estable_ext _ _ [] [new_parent t n]); simpl; auto. rewrite app_nil_r. reflexivity.
      + intros F []. }
    destruct t as [d rest | s0 | sts ch | f src cin cout | p i]; inversion H; subst; clear H;
      rewrite ?consume_store, ?consume_fwds; try (apply Hpar; reflexivity).
    rewrite <- (app_nil_r (st_fwds G)).
    apply (einv_constructor_gen G _ (st_handles (consume G h)) _ [] [] [] HE HW).
    + rewrite app_nil_r. reflexivity.
    + rewrite app_nil_r. reflexivity.
    + apply consume_nth'.
    + intros F d0 [].
    + intros N HN. apply repeat_spec in HN. subst N. simpl. auto.
    + intros P [].
    + intros F [].
  - (* OMerge *)
    destruct hs as [|h0 [|h1 hs']]; [inversion H; subst; auto| |].
    { destruct (live_rd G h0); inversion H; subst; auto. }
    destruct (nodupb (h0 :: h1 :: hs')) eqn:End; cbn [negb] in H; [|inversion H; subst; auto].
    destruct (live_rds G (h0 :: h1 :: hs')) as [ts|] eqn:El; [|inversion H; subst; auto].
    rewrite consume_all_store, consume_all_fwds in H.
    destruct (merge_collect _ _ ts [] []) as [[[st1 fw1] ss] arr] eqn:Em.
    destruct (merge_collect_spec _ _ _ _ _ _ _ _ _ Em) as (P1 & k0 & S1 & D1 & Pm).
    destruct (merge_collect_fine _ _ _ _ _ _ _ _ _ Em) as ((nf & Efw & Hnf) & Hss).
    assert (Hts : forall t, In t ts -> mul_ok (st_store G) (st_fwds G) t).
    { intros t Ht. destruct (live_rds_in _ _ _ _ El Ht) as (h & Hh & Hl). eapply fresh_mul_ok; eauto. }
    assert (Hgen : forall st2 ns2 rdnew,
       streams st2 = streams (st_store G) ++ repeat (new_stream 5 false) k0 ++ ns2 ->
       parents st2 = parents st1 ->
       (forall fw2, mul_ok st2 fw2 rdnew) ->
       einv (mkState st2 fw1 (st_handles (consume_all G (h0 :: h1 :: hs')) ++ [mkH rdnew true false [] false]))).
    { intros st2 ns2 rdnew Hs2 Hp2 Hnew. rewrite Efw.
      assert (Hest : estable (st_store G) st2).
      { apply (estable_ext _ _ (repeat (new_stream 5 false) k0 ++ ns2) []); auto. rewrite app_nil_r. congruence. }
      assert (Hfm : fwmono (st_fwds G) (st_fwds G ++ nf) (List.length (streams (st_store G)))).
      { intros F' HF'. apply in_app_or in HF'. destruct HF' as [HF'|HF'].
        - left. exists F'. auto.
        - right. rewrite Forall_forall in Hnf. apply (Hnf _ HF'). }
      apply (einv_constructor_gen G st2 _ _ [] nf (repeat (new_stream 5 false) k0 ++ ns2) HE HW).
      + exact Hs2.
      + rewrite app_nil_r. congruence.
      + apply consume_all_nth'.
      + intros F d HF. rewrite Forall_forall in Hnf. destruct (Hnf F HF) as (A & B & C & D). split; auto.
        intros Hd.
        assert (Hlt : f_dst F < List.length (streams (st_store G)) + k0).
        { assert (Hdst : In (f_dst F) (map f_dst fw1)) by (rewrite Efw, map_app; apply in_or_app; right; apply in_map; exact HF).
          rewrite D1 in Hdst. apply in_app_or in Hdst. destruct Hdst as [Hdst|Hdst].
          - destruct HW as (_ & _ & _ & W4 & _). apply in_map_iff in Hdst. destruct Hdst as (F0 & E0 & HF0).
            rewrite Forall_forall in W4. destruct (W4 _ HF0) as (d0 & Hd0 & _).
            assert (f_dst F0 < List.length (streams (st_store G))) by (apply nth_error_Some; congruence). lia.
          - apply in_seq in Hdst. lia. }
        rewrite Hs2 in Hd. rewrite nth_error_app2 in Hd by exact D.
        rewrite nth_error_app1 in Hd by (rewrite repeat_length; lia).
        apply nth_error_In in Hd. apply repeat_spec in Hd. subst d. reflexivity.
      + intros N [<-|[]]. simpl. split; auto.
      + intros P [].
      + intros F HF. rewrite Forall_forall in Hnf. destruct (Hnf F HF) as (A & B & C & D). split; auto.
        eapply mul_ok_stable; eauto. }
    destruct ss as [|s0 ss']; destruct arr as [|a0 arr']; inversion H; subst b G'; clear H.
    + apply (Hgen st1 []); auto. * rewrite app_nil_r. exact S1. * intros fw2. apply (mul_ok_fresh_chosen st1 fw2 []).
    + apply (Hgen st1 []); auto. * rewrite app_nil_r. exact S1. * intros fw2. exact I.
    + apply (Hgen st1 []); auto. * rewrite app_nil_r. exact S1. * intros fw2. apply (mul_ok_fresh_chosen st1 fw2 (s0 :: ss')).
    + apply (Hgen (add_stream st1 (array_stream (a0 :: arr'))) [array_stream (a0 :: arr')]).
      * simpl. rewrite S1. rewrite <- app_assoc. reflexivity.
      * reflexivity.
      * intros fw2. apply (mul_ok_fresh_chosen _ fw2 (s0 :: ss' ++ [List.length (streams st1)])).
  - (* OConv *)
    destruct (live_rd G h) as [t|] eqn:El; [|inversion H; subst; auto].
    inversion H; subst; clear H. rewrite consume_store, consume_fwds.
    pose proof (fresh_mul_ok G h t HE El) as Hm.
    rewrite <- (app_nil_r (st_fwds G)).
    apply (einv_constructor_gen G _ (st_handles (consume G h)) _ [] [] [] HE HW).
    + rewrite app_nil_r. reflexivity.
    + rewrite app_nil_r. reflexivity.
    + apply consume_nth'.
    + intros F d [].
    + intros N [<-|[]]. simpl. split; auto. rewrite app_nil_r. exact Hm.
    + intros P [].
    + intros F [].
  - (* OSend *)
    destruct (nth_error (streams (st_store G)) sid) as [s|] eqn:Es; [|inversion H; subst; auto].
    destruct (s_user s) eqn:Eu; cbn [negb] in H; [|inversion H; subst; auto].
    destruct (stream_send s x) as [r s'] eqn:E. inversion H; subst; clear H.
    destruct (stream_send_eof_facts _ _ _ _ E) as (F1 & F2 & F3 & _).
    apply (einv_user_stream G sid s s'); auto.
  - (* OCloseSend *)
    destruct (nth_error (streams (st_store G)) sid) as [s|] eqn:Es; [|inversion H; subst; auto].
    destruct (s_user s) eqn:Eu; cbn [negb] in H; [|inversion H; subst; auto].
    destruct (stream_close_send s) as [r s'] eqn:E. inversion H; subst; clear H.
    destruct (stream_close_send_eof_facts _ _ _ E) as (F1 & F2 & F3).
    apply (einv_user_stream G sid s s'); auto. intros _ Hb. split; congruence.
  - (* ORecv *)
    destruct (nth_error (st_handles G) h) as [Hh|] eqn:Eh; [|inversion H; subst; auto].
    destruct (h_live Hh) eqn:Elv; cbn [negb] in H; [|inversion H; subst; auto].
    destruct (recv fuel (st_store G) (h_rd Hh) ch) as [[[r st1] t1] ch1] eqn:Er.
    inversion H; subst; clear H. apply recv_Recv in Er. simpl in Hpre.
    pose proof (SI_of_state G HS HW Hp HK) as (S1 & S2 & S3 & S4 & S5).
    assert (Hrefs : root_refs G (RtH h) = refs (h_rd Hh)) by (simpl; rewrite Eh; unfold hrefs; rewrite Elv; reflexivity).
    assert (Hrd : rd_ok (h_rd Hh)) by (destruct HS as (_ & X & _); exact (Forall_nth_error _ _ _ _ _ X Eh)).
    assert (Hopen : forall r0, In r0 (refs (h_rd Hh)) -> ~ rclosed (st_store G) r0).
    { intros r0 Hr0 Hc. destruct (HK (RtH h) r0) as (H0 & HE0 & Hc0); [rewrite Hrefs; exact Hr0 | exact Hc |].
      rewrite (Hpre _ HE0) in Hc0. discriminate. }
    destruct (E2 _ _ Eh Elv) as [Hm He].
    destruct (Recv_eof _ _ _ _ _ Er (st_fwds G) S1 S2 S3 S4 E1 Hrd Hopen Hm E3) as (A & B & C & D).
    destruct (Recv_static _ _ _ _ _ Er) as [SR _].
    apply (einv_step G); simpl; auto.
    + apply fwmono_refl.
    + eapply FEs_store_rel; eauto.
    + intros h2 H2 Hn2 Hlv2. destruct (nth_error_upd _ _ _ _ _ _ Hn2) as [[-> ->]|[Hne Hn0]].
      * right. simpl. split; auto. intros Ee. destruct r; try (apply D; reflexivity);
          (eapply EofR_sticky; eauto).
      * left. exists h2, H2. auto.
    + intros q Q' HQ'. right. destruct (C _ _ HQ') as [X Y]. split; auto.
    + intros k F' HF'. left. exists k, F'. auto.
  - (* OClose *)
    destruct (nth_error (st_handles G) h) as [Hh|] eqn:Eh; [|inversion H; subst; auto].
    destruct (h_live Hh) eqn:Elv; cbn [negb] in H; [|inversion H; subst; auto].
    destruct (close_rd fuel (st_store G) (h_rd Hh)) as [r st1] eqn:Er.
    inversion H; subst; clear H. apply close_Close in Er. pose proof (Close_static _ _ _ _ Er) as SR.
    apply (einv_step G); simpl; auto.
    + apply estable_cstore_rel; auto.
    + apply fwmono_refl.
    + eapply FEs_cstore_rel; eauto.
    + intros h2 H2 Hn2 Hlv2. left. destruct (nth_error_upd _ _ _ _ _ _ Hn2) as [[<- ->]|[Hne Hn0]].
      * exists h, Hh. simpl. auto.
      * exists h2, H2. auto.
    + intros q Q' HQ'. left. destruct (Forall2_nth_r _ _ _ _ _ _ (proj2 SR) HQ') as (Q & HQ & (E1' & _ & E3' & _)).
      exists q, Q. repeat split; auto. congruence.
    + intros k F' HF'. left. exists k, F'. auto.
  - (* OFwd *)
    destruct (nth_error (st_fwds G) k) as [F|] eqn:EF; [|inversion H; subst; auto].
    pose proof HW as (W1 & W2 & W3 & W4 & W5).
    pose proof (Forall_nth_error _ _ _ _ _ W4 EF) as (d & Hd & Hud).
    assert (Hdst : forall k2 F2, nth_error (st_fwds G) k2 = Some F2 -> f_dst F2 = f_dst F -> k2 = k).
    { intros k2 F2 HF2 E2'. apply (proj1 (NoDup_nth_error (map f_dst (st_fwds G))) W5).
      - rewrite map_length. apply nth_error_Some. congruence.
      - rewrite (map_nth_error f_dst _ _ HF2), (map_nth_error f_dst _ _ EF). congruence. }
    destruct (E4 _ _ EF) as [HmF HeF].
    (* a step that changes forwarder k (same destination, eof flag not reset) and the store *)
    assert (Hstep : forall st2 F',
       estable (st_store G) st2 -> f_dst F' = f_dst F -> (f_eof F = true -> f_eof F' = true) ->
       (forall F2 d2, In F2 (upd (st_fwds G) k F') -> nth_error (streams st2) (f_dst F2) = Some d2 ->
          s_sclosed d2 = true -> s_rclosed d2 = 0 -> f_eof F2 = true) ->
       (forall q Q', nth_error (parents st2) q = Some Q' ->
          (exists q0 Q, nth_error (parents (st_store G)) q0 = Some Q /\ p_src Q' = p_src Q /\ (p_eof Q' = true -> p_eof Q = true))
          \/ rok st2 (upd (st_fwds G) k F') (p_src Q') (p_eof Q')) ->
       rok st2 (upd (st_fwds G) k F') (f_src F') (f_eof F') ->
       einv (mkState st2 (upd (st_fwds G) k F') (st_handles G))).
    { intros st2 F' Hest HdF HeF' HFE' Hpar HrF. apply (einv_step G); simpl; auto.
      - intros F2 HF2. left. apply In_nth_error in HF2. destruct HF2 as (k2 & Hk2).
        destruct (nth_error_upd _ _ _ _ _ _ Hk2) as [[-> ->]|[Hne Hk20]].
        + exists F. split; [eapply nth_error_In; eauto|]. auto.
        + exists F2. split; [eapply nth_error_In; eauto|]. auto.
      - intros h2 H2 Hn2 Hlv2. left. exists h2, H2. auto.
      - intros k2 F2 HF2. destruct (nth_error_upd _ _ _ _ _ _ HF2) as [[-> ->]|[Hne HF20]].
        + right. exact HrF.
        + left. exists k2, F2. auto. }
    assert (Hfm : forall F', f_dst F' = f_dst F -> (f_eof F = true -> f_eof F' = true) ->
               fwmono (st_fwds G) (upd (st_fwds G) k F') (List.length (streams (st_store G)))).
    { intros F' HdF HeF' F2 HF2. left. apply In_nth_error in HF2. destruct HF2 as (k2 & Hk2).
      destruct (nth_error_upd _ _ _ _ _ _ Hk2) as [[-> ->]|[Hne Hk20]].
      - exists F. split; [eapply nth_error_In; eauto|]. auto.
      - exists F2. split; [eapply nth_error_In; eauto|]. auto. }
    (* FEs after an update of forwarder k, given the facts about its destination *)
    assert (HFE : forall st2 F', f_dst F' = f_dst F ->
       (forall sid d2, sid <> f_dst F -> nth_error (streams st2) sid = Some d2 ->
          exists d0, nth_error (streams (st_store G)) sid = Some d0 /\ s_sclosed d0 = s_sclosed d2 /\ s_rclosed d0 <= s_rclosed d2) ->
       (forall d2, nth_error (streams st2) (f_dst F) = Some d2 -> s_sclosed d2 = true -> s_rclosed d2 = 0 -> f_eof F' = true) ->
       forall F2 d2, In F2 (upd (st_fwds G) k F') -> nth_error (streams st2) (f_dst F2) = Some d2 ->
          s_sclosed d2 = true -> s_rclosed d2 = 0 -> f_eof F2 = true).
    { intros st2 F' HdF Hoth Hk F2 d2 HF2 Hd2 Hc Hr. apply In_nth_error in HF2. destruct HF2 as (k2 & Hk2).
      destruct (nth_error_upd _ _ _ _ _ _ Hk2) as [[-> ->]|[Hne Hk20]].
      - rewrite HdF in Hd2. eapply Hk; eauto.
      - assert (Hnd : f_dst F2 <> f_dst F) by (intros E2'; apply Hne; symmetry; eapply Hdst; eauto).
        destruct (Hoth _ _ Hnd Hd2) as (d0 & Hd0 & Ec0 & Er0).
        apply (E1 F2 d0); auto; [eapply nth_error_In; eauto | congruence | lia]. }
    destruct (f_st F) as [|x| |] eqn:Est.
    + (* FRecv *)
      destruct (recv fuel (st_store G) (f_src F) ch) as [[[r st1] src1] ch1] eqn:Er.
      apply recv_Recv in Er.
      pose proof (SI_of_state G HS HW Hp HK) as (S1 & S2 & S3 & S4 & S5).
      assert (Hrefs : root_refs G (RtF k) = refs (f_src F)) by (simpl; rewrite EF; reflexivity).
      assert (Hrd : rd_ok (f_src F)) by (destruct HS as (_ & _ & X); exact (Forall_nth_error _ _ _ _ _ X EF)).
      assert (Hopen : forall r0, In r0 (refs (f_src F)) -> ~ rclosed (st_store G) r0).
      { intros r0 Hr0 Hc. destruct (HK (RtF k) r0) as (F0 & HE0 & Hc0); [rewrite Hrefs; exact Hr0 | exact Hc |].
        rewrite EF in HE0. inversion HE0; subst F0. congruence. }
      destruct (Recv_eof _ _ _ _ _ Er (st_fwds G) S1 S2 S3 S4 E1 Hrd Hopen HmF E3) as (A & B & C & D).
      destruct (Recv_static _ _ _ _ _ Er) as [SR _].
      assert (Hstr1 : forall sid d2, nth_error (streams st1) sid = Some d2 ->
                 exists d0, nth_error (streams (st_store G)) sid = Some d0 /\ s_sclosed d0 = s_sclosed d2 /\ s_rclosed d0 <= s_rclosed d2).
      { intros sid d2 Hd2. destruct (Forall2_nth_r _ _ _ _ _ _ (proj1 SR) Hd2) as (d0 & Hd0 & (_ & Ec & Erc & _)).
        exists d0. repeat split; auto. lia. }
      assert (Hsticky : f_eof F = true -> EofR st1 (st_fwds G) src1) by (intros Ee; eapply EofR_sticky; eauto).
      assert (Hgen : forall F', f_src F' = src1 -> f_dst F' = f_dst F -> f_eof F' = f_eof F ->
                einv (mkState st1 (upd (st_fwds G) k F') (st_handles G))).
      { intros F' Hsrc HdF HeF'. apply Hstep; auto.
        - intros Ee. congruence.
        - apply (HFE st1 F' HdF).
          + intros sid d2 _ Hd2. apply Hstr1; auto.
          + intros d2 Hd2 Hc Hr. destruct (Hstr1 _ _ Hd2) as (d0 & Hd0 & Ec0 & Er0). rewrite HeF'.
            apply (E1 F d0); auto; [eapply nth_error_In; eauto | congruence | lia].
        - intros q Q' HQ'. right. destruct (C _ _ HQ') as [X Y].
          assert (R : rok st1 (st_fwds G) (p_src Q') (p_eof Q')) by (split; auto).
          eapply rok_stable; [exact R | apply estable_refl |].
          replace (List.length (streams st1)) with (List.length (streams (st_store G))).
          { apply Hfm; auto. intros Ee; congruence. }
          apply (Forall2_length' _ _ _ _ (proj1 SR)).
        - rewrite Hsrc, HeF'.
          assert (R : rok st1 (st_fwds G) src1 (f_eof F)) by (split; auto).
          eapply rok_stable; [exact R | apply estable_refl |].
          replace (List.length (streams st1)) with (List.length (streams (st_store G))).
          { apply Hfm; auto. intros Ee; congruence. }
          apply (Forall2_length' _ _ _ _ (proj1 SR)). }
      destruct r; try (inversion H; subst; clear H; apply Hgen; reflexivity).
      (* EOF *)
      destruct (nth_error (streams st1) (f_dst F)) as [d1|] eqn:Ed; [|inversion H; subst; auto].
      destruct (stream_close_send d1) as [r0 d'] eqn:Ec. inversion H; subst; clear H.
      destruct (stream_close_send_eof_facts _ _ _ Ec) as (Fc1 & Fc2 & Fc3).
      assert (He2 : estable st1 (set_stream st1 (f_dst F) d')).
      { eapply estable_set_stream; eauto. intros _ Hb. split; congruence. }
      assert (Hlen1 : List.length (streams st1) = List.length (streams (st_store G))).
      { symmetry. apply (Forall2_length' _ _ _ _ (proj1 SR)). }
      apply Hstep; auto.
      * eapply estable_trans; eauto.
      * apply (HFE _ (mkF src1 (f_dst F) FClosing true) eq_refl).
        -- intros sid d2 Hne Hd2. simpl in Hd2. rewrite nth_error_upd_neq in Hd2 by congruence. apply Hstr1; auto.
        -- intros; reflexivity.
      * intros q Q' HQ'. right. simpl in HQ'. destruct (C _ _ HQ') as [X Y].
        assert (R : rok st1 (st_fwds G) (p_src Q') (p_eof Q')) by (split; auto).
        eapply rok_stable; [exact R | exact He2 |]. rewrite Hlen1. apply Hfm; auto.
      * simpl. assert (R : rok st1 (st_fwds G) src1 true) by (split; auto).
        eapply rok_stable; [exact R | exact He2 |]. rewrite Hlen1. apply Hfm; auto.
    + (* FSend *)
      rewrite Hd in H.
      assert (Hgen : forall d' F', f_src F' = f_src F -> f_dst F' = f_dst F -> f_eof F' = f_eof F ->
                (s_sclosed d = true -> s_buf d = [] -> s_sclosed d' = true /\ s_buf d' = []) ->
                (s_sclosed d' = true -> s_rclosed d' = 0 -> f_eof F = true) ->
                einv (mkState (set_stream (st_store G) (f_dst F) d') (upd (st_fwds G) k F') (st_handles G))).
      { intros d' F' Hsrc HdF HeF' Hdr Hfe.
        assert (He2 : estable (st_store G) (set_stream (st_store G) (f_dst F) d')) by (eapply estable_set_stream; eauto).
        apply Hstep; auto.
        - intros Ee. congruence.
        - apply (HFE _ F' HdF).
          + intros sid d2 Hne Hd2. simpl in Hd2. rewrite nth_error_upd_neq in Hd2 by congruence. exists d2. auto.
          + intros d2 Hd2 Hc Hr. simpl in Hd2. rewrite nth_error_upd_eq in Hd2 by (apply nth_error_Some; congruence).
            inversion Hd2; subst d2. rewrite HeF'. apply Hfe; auto.
        - intros q Q' HQ'. left. exists q, Q'. auto.
        - rewrite Hsrc, HeF'. assert (R : rok (st_store G) (st_fwds G) (f_src F) (f_eof F)) by (split; auto).
          eapply rok_stable; [exact R | exact He2 |]. apply Hfm; auto. intros Ee; congruence. }
      destruct (stream_send d x) as [r d'] eqn:Es.
      destruct (stream_send_eof_facts _ _ _ _ Es) as (Fs1 & Fs2 & Fs3 & Fs4).
      destruct r; try (inversion H; subst; auto; fail).
      * inversion H; subst; clear H. apply Hgen; auto.
        intros Hc Hr. apply (E1 F d); auto; [eapply nth_error_In; eauto | congruence | congruence].
      * destruct (stream_close_send d) as [r0 d''] eqn:Ec. inversion H; subst; clear H.
        destruct (stream_close_send_eof_facts _ _ _ Ec) as (Fc1 & Fc2 & Fc3).
        apply Hgen; auto.
        -- intros _ Hb. split; congruence.
        -- intros _ Hr. specialize (Fs4 eq_refl). lia.
    + (* FClosing *)
      destruct (close_rd fuel (st_store G) (f_src F)) as [r st1] eqn:Er.
      inversion H; subst; clear H. apply close_Close in Er. pose proof (Close_static _ _ _ _ Er) as SR.
      assert (Hlen1 : List.length (streams st1) = List.length (streams (st_store G))).
      { symmetry. apply (Forall2_length' _ _ _ _ (proj1 SR)). }
      apply Hstep; auto.
      * apply estable_cstore_rel; auto.
      * apply (HFE _ (mkF (f_src F) (f_dst F) FDone (f_eof F)) eq_refl).
        -- intros sid d2 _ Hd2. destruct (Forall2_nth_r _ _ _ _ _ _ (proj1 SR) Hd2) as (d0 & Hd0 & (_ & _ & Ec & _ & _ & _ & Erc)).
           exists d0. auto.
        -- intros d2 Hd2 Hc Hr. simpl.
           destruct (Forall2_nth_r _ _ _ _ _ _ (proj1 SR) Hd2) as (d0 & Hd0 & (_ & _ & Ec & _ & _ & _ & Erc)).
           apply (E1 F d0); auto; [eapply nth_error_In; eauto | congruence | lia].
      * intros q Q' HQ'. left. destruct (Forall2_nth_r _ _ _ _ _ _ (proj2 SR) HQ') as (Q & HQ & (E1' & _ & E3' & _)).
        exists q, Q. repeat split; auto. congruence.
      * simpl. assert (R : rok (st_store G) (st_fwds G) (f_src F) (f_eof F)) by (split; auto).
        eapply rok_stable; [exact R | apply estable_cstore_rel; auto |]. apply Hfm; auto.
    + inversion H; subst; auto.
Qed.

Lemma init_einv : einv init_state.
Proof.
  split; [|split; [|split]]; simpl.
  - intros F d [].
  - intros h H Hn. destruct h; discriminate.
  - intros q Q Hn. destruct q; discriminate.
  - intros k F Hn. destruct k; discriminate.
Qed.

Lemma run_Inv_einv : forall fuel ops G bs G',
  run fuel G ops = (bs, G') -> run_pre op_legal fuel G ops -> Inv G -> einv G -> Inv G' /\ einv G'.
Proof.
  intros fuel. induction ops as [|o r IH]; intros G bs G' H Hpre HI HE; simpl in H.
  - inversion H; subst; auto.
  - destruct (do_op fuel G o) as [b G1] eqn:E1. destruct (run fuel G1 r) as [bs2 G2] eqn:E2.
    inversion H; subst. simpl in Hpre. destruct Hpre as [Hpo Hpr]. rewrite E1 in Hpr. simpl in Hpr.
    eapply IH; eauto.
    + eapply do_op_Inv; eauto.
    + eapply do_op_einv; eauto.
Qed.

(* ------------------------------------------------------------------ a reader at EOF has received everything *)

Lemma Shuf_single_eq : forall l, Shuf true l [l].
Proof. apply Shuf_single_full. Qed.

Theorem strands_complete : forall G, Inv G -> einv G ->
  forall N t L strs, rd_ok t -> Link (st_store G) t L -> EofR (st_store G) (st_fwds G) t ->
    strands N G (cur_w G) t = Some strs -> Shuf true L strs.
Proof.
  intros G (HS & HW & Hp & HK & HL) (E1 & E2 & E3 & E4).
  pose proof HS as ((Hstr & Hpar) & Hhs & Hfs). pose proof HL as (L1 & L2 & L3).
  induction N as [|N IH]; intros t L strs Hrd HLk He Hs; [discriminate|].
  rewrite strands_unfold in Hs.
  assert (Hstream : forall sid ss, EofS (st_store G) (st_fwds G) sid ->
            of_stream N G (cur_w G) sid = Some ss -> Shuf true (sdeliv (st_store G) sid) ss).
  { intros sid ss (s & Hsn & Hc & Hb & Hcl) Ho. unfold of_stream in Ho.
    pose proof (Forall_nth_error _ _ _ _ _ Hstr Hsn) as [Hsent _]. rewrite Hb, app_nil_r in Hsent.
    unfold sdeliv. rewrite Hsn.
    destruct (find_fwd_to G sid) as [F|] eqn:Ef.
    - destruct (find_fwd_to_spec _ _ _ Ef) as (k & Hk & Hd). subst sid.
      assert (Hfe : f_eof F = true) by (apply Hcl; auto; eapply nth_error_In; eauto).
      pose proof (L3 _ _ _ Hk Hsn) as Hf.
      assert (Hlk : Link (st_store G) (f_src F) (s_sent s)).
      { unfold finv in Hf. destruct (f_st F).
        - destruct Hf as [_ X]. congruence.
        - destruct Hf as [_ X]. congruence.
        - destruct Hf as (dr & A & B). rewrite (B Hfe), app_nil_r in A. exact A.
        - destruct Hf as (dr & A & B). rewrite (B Hfe), app_nil_r in A. exact A. }
      assert (Hrs : rd_ok (f_src F)) by exact (Forall_nth_error _ _ _ _ _ Hfs Hk).
      destruct (E4 _ _ Hk) as [_ HeF].
      rewrite <- Hsent. eapply IH; eauto.
    - rewrite Hsn in Ho. destruct (s_user s); inversion Ho; subst.
      + unfold cur_w. rewrite Hsn. rewrite Hsent. apply Shuf_single_full.
      + rewrite Hb, app_nil_r. apply Shuf_single_full. }
  destruct t as [d rest | sid | sts ch | f src cin cout | p i].
  - inversion Hs; subst. simpl in HLk, He. subst L rest. rewrite app_nil_r. apply Shuf_single_full.
  - simpl in HLk, He. subst L. apply Hstream; auto.
  - simpl in HLk, He. destruct He as [_ Hall]. destruct (opt_concat_spec _ _ _ Hs) as (ls & E1' & E2'). subst strs.
    apply Shuf_concat with (ls := map (sdeliv (st_store G)) sts).
    + apply Interleave_Shuf. exact HLk.
    + clear - E1' Hstream Hall. revert ls E1'. induction sts as [|s sts IHs]; intros [|a ls] E1'; simpl in *; try discriminate; constructor.
      * apply Hstream; [apply Hall; left; reflexivity|]. inversion E1'. auto.
      * apply IHs; [intros sid Hin; apply Hall; right; exact Hin|]. inversion E1'. auto.
  - simpl in HLk, He. destruct HLk as [-> HLs]. destruct Hrd as [Hc Hrs].
    destruct (strands N G (cur_w G) src) as [l|] eqn:E; [|discriminate]. inversion Hs; subst.
    apply Shuf_filter_map. eapply IH; eauto.
  - simpl in HLk, He. subst L. destruct He as (P & EP & Hpe & Hg). rewrite EP in Hs.
    pose proof (Forall_nth_error _ _ _ _ _ Hpar EP) as (_ & _ & _ & _ & Prd).
    destruct (E3 _ _ EP) as [_ HeP].
    unfold cgot. rewrite EP, Hg. eapply IH; eauto.
Qed.

(* ------------------------------------------------------------------ statements over runs *)

Lemma run_legal_einv : forall fuel ops bs G,
  run fuel init_state ops = (bs, G) -> legal_run fuel ops -> Inv G /\ einv G.
Proof. intros. eapply run_Inv_einv; eauto; [apply init_Inv | apply init_einv]. Qed.

Lemma run_tree_delivery_full : forall fuel ops bs G,
  run fuel init_state ops = (bs, G) -> legal_run fuel ops ->
  forall h H, nth_error (st_handles G) h = Some H -> h_live H = true -> h_eof H = true ->
  forall N strs, strands N G (cur_w G) (h_rd H) = Some strs ->
    Shuf true (h_got H) strs /\ is_interleaving_of true (h_got H) strs = true.
Proof.
  intros fuel ops bs G Hrun Hleg h H Hn Hlv He N strs Hs.
  destruct (run_legal_einv _ _ _ _ Hrun Hleg) as [HI HE].
  assert (Hsh : Shuf true (h_got H) strs).
  { eapply strands_complete; eauto.
    - destruct HI as ((_ & Hh & _) & _). exact (Forall_nth_error _ _ _ _ _ Hh Hn).
    - destruct HI as (_ & _ & _ & _ & (L1 & _)). eapply L1; eauto.
    - destruct HE as (_ & E2 & _). destruct (E2 _ _ Hn Hlv) as [_ X]. apply X. exact He. }
  split; auto. apply Shuf_checker. exact Hsh.
Qed.

(* a merged reader ends only after every one of its sources has ended *)
Lemma run_merge_eof : forall fuel ops bs G,
  run fuel init_state ops = (bs, G) -> legal_run fuel ops ->
  forall h H sts ch, nth_error (st_handles G) h = Some H -> h_live H = true -> h_eof H = true ->
    h_rd H = RMul sts ch ->
    ch = [] /\ forall sid, In sid sts ->
      exists s, nth_error (streams (st_store G)) sid = Some s /\ s_sclosed s = true /\ s_buf s = []
                /\ s_deliv s = s_sent s
                /\ forall F, In F (st_fwds G) -> f_dst F = sid -> f_eof F = true.
Proof.
  intros fuel ops bs G Hrun Hleg h H sts ch Hn Hlv He Hrd.
  destruct (run_legal_einv _ _ _ _ Hrun Hleg) as [HI HE].
  destruct HE as (_ & E2 & _). destruct (E2 _ _ Hn Hlv) as [_ X]. specialize (X He). rewrite Hrd in X. simpl in X.
  destruct X as [-> Hall]. split; auto. intros sid Hin. destruct (Hall sid Hin) as (s & Hs & Hc & Hb & Hcl).
  exists s. repeat split; auto.
  destruct HI as (((Hst & _) & _) & _). pose proof (Forall_nth_error _ _ _ _ _ Hst Hs) as [Hsent _].
  rewrite Hb, app_nil_r in Hsent. auto.
Qed.

(* a copy that read to EOF has received the whole shared list, which is everything its source delivered up to its EOF *)
Lemma run_copy_child_full : forall fuel ops bs G,
  run fuel init_state ops = (bs, G) -> legal_run fuel ops ->
  forall h H p i P, nth_error (st_handles G) h = Some H -> h_live H = true -> h_eof H = true ->
    h_rd H = RChild p i -> nth_error (parents (st_store G)) p = Some P ->
    h_got H = p_items P /\ p_eof P = true
    /\ Link (st_store G) (p_src P) (p_items P) /\ EofR (st_store G) (st_fwds G) (p_src P).
Proof.
  intros fuel ops bs G Hrun Hleg h H p i P Hn Hlv He Hrd HP.
  destruct (run_legal_einv _ _ _ _ Hrun Hleg) as [HI HE].
  destruct HE as (_ & E2 & E3 & _). destruct (E2 _ _ Hn Hlv) as [_ X]. specialize (X He). rewrite Hrd in X. simpl in X.
  destruct X as (P0 & HP0 & Hpe & Hg). rewrite HP in HP0. inversion HP0; subst P0.
  destruct HI as (_ & _ & _ & _ & (L1 & L2 & _)).
  pose proof (L1 _ _ Hn Hlv) as HL. rewrite Hrd in HL. simpl in HL. unfold cgot in HL. rewrite HP in HL.
  split; [congruence|]. split; auto. split; [eapply L2; eauto|]. destruct (E3 _ _ HP) as [_ Y]. auto.
Qed.
