(* Proofs/FieldMapAssign.v — target assignment (assignOne / convertTo): for target paths
   none of which equals or is a prefix of another, every processing order of the
   map[string]any handed to convertTo gives the same result (Go iterates a map). *)
From Coq Require Import Permutation.
From Eino Require Import Base.Util Base.FMUniverse Model.FieldMap Proofs.FieldMapOverlap.

(* ------------------------------------------------------------ sorted insertion *)

Ltac cmp1 :=
  match goal with
  | |- context[N.ltb ?a ?b] => destruct (N.ltb_spec a b)
  | |- context[N.eqb ?a ?b] => destruct (N.eqb_spec a b)
  end.
Ltac cmp := repeat (cmp1; simpl); subst; try lia; try reflexivity.

Lemma ains_ains_same : forall {A} k (a b : A) l, ains k a (ains k b l) = ains k a l.
Proof.
  intros A k a b l. unfold ains. induction l as [|[k0 a0] l IH]; simpl.
  - cmp.
  - cmp. rewrite IH. reflexivity.
Qed.

Lemma ains_comm : forall {A} k k' (a b : A) l, k <> k' ->
  ains k a (ains k' b l) = ains k' b (ains k a l).
Proof.
  intros A k k' a b l Hne. unfold ains. induction l as [|[k0 a0] l IH]; simpl.
  - cmp.
  - cmp. rewrite IH. reflexivity.
Qed.

(* ------------------------------------------------------------ first steps *)

Lemma any_enter_map : forall t v ks e o,
  any_enter t v = VMap ks e o ->
  forall v', (exists o', v' = VMap ks e o') -> any_enter t v' = v'.
Proof.
  intros t v ks e o H v' [o' ->]. destruct t; simpl in *; try reflexivity.
  destruct v as [| | | |? ?|[] [] ?]; inversion H; subst; reflexivity.
Qed.

Lemma any_enter_notmap : forall t v,
  (forall ks e o, any_enter t v <> VMap ks e o) -> forall v', any_enter t v' = v'.
Proof.
  intros t v H v'. destruct t; try reflexivity. exfalso.
  simpl in H. destruct v as [| | | |? ?|[] [] ?]; eapply H; reflexivity.
Qed.

(* no nil pointer is met at a descent step of path q (a nil pointer there makes the
   intermediate step of assignOne fail while the terminal step instantiates it; such a
   state is only reachable through overlapping target paths) *)
Fixpoint npa (env : senv) (t : ty) (v : val) (q : path) {struct q} : Prop :=
  match q with
  | [] => True
  | f :: rest =>
      match any_enter t v with
      | VMap ks e (Some es) =>
          match rest with
          | [] => True
          | _ :: _ => npa env e (entry_of e (aget f es)) rest
          end
      | VMap _ _ None => True
      | v1 =>
          match rest with
          | [] => True
          | _ :: _ =>
              match v1 with
              | VPtr _ None => False
              | _ =>
                  match unwrap v1 false with
                  | Some (_, _, VStruct n fs) =>
                      match lookup_field env n f with
                      | Some (true, ft) => npa env ft (instantiate (field_of ft (aget f fs))) rest
                      | _ => True
                      end
                  | _ => True
                  end
              end
          end
      end
  end.

Definition obind {A B} (o : option A) (f : A -> option B) : option B :=
  match o with Some a => f a | None => None end.

Lemma obind_map : forall {A B C} (o : option A) (g : A -> B) (f : B -> option C),
  obind (option_map g o) f = obind o (fun a => f (g a)).
Proof. intros. destruct o; reflexivity. Qed.

Lemma obind_ext : forall {A B} (o : option A) (f g : A -> option B),
  (forall a, f a = g a) -> obind o f = obind o g.
Proof. intros. destruct o; simpl; auto. Qed.

Lemma obind_swap : forall {A B C} (o : option A) (o' : option B) (f : A -> B -> option C),
  obind o (fun a => obind o' (fun b => f a b)) = obind o' (fun b => obind o (fun a => f a b)).
Proof. intros. destruct o, o'; reflexivity. Qed.

Lemma unwrap_rewrap : forall isptr u n fs last,
  unwrap (rewrap isptr u (VStruct n fs)) last = Some (isptr, (if isptr then u else TInt), VStruct n fs).
Proof. intros [] u n fs last; reflexivity. Qed.

Lemma rewrap_irrelevant : forall u u' w, rewrap false u w = rewrap false u' w.
Proof. reflexivity. Qed.

Lemma unwrap_notptr_ty : forall v last u w, unwrap v last = Some (false, u, w) -> u = TInt /\ w = v.
Proof.
  intros v last u w H. destruct v as [| | | |? [?|]|]; simpl in H; try (inversion H; auto; fail).
  destruct last; inversion H.
Qed.

(* one-step unfolding with the continuation kept folded *)
Definition assign_next (env : senv) (e : ty) (slot : val) (rest : path) (x : val) (term : option val) : option val :=
  match rest with [] => term | _ :: _ => assign env e slot rest x end.

Lemma assign_cons : forall env t v f rest x,
  assign env t v (f :: rest) x =
  match any_enter t v with
  | VMap ks e o =>
      if negb ks then None else
      match o with
      | None => None
      | Some es =>
          option_map (fun a => VMap ks e (Some (ains f a es)))
            (assign_next env e (entry_of e (aget f es)) rest x (store_map e x))
      end
  | v1 =>
      match unwrap v1 (is_nil_path rest) with
      | Some (isptr, u, VStruct n fs) =>
          if isptr && is_any u then None else
          match lookup_field env n f with
          | Some (true, ft) =>
              option_map (fun a => rewrap isptr u (VStruct n (ains f a fs)))
                (assign_next env ft (instantiate (field_of ft (aget f fs))) rest x
                   (store_field ft (field_of ft (aget f fs)) x))
          | _ => None
          end
      | _ => None
      end
  end.
Proof. intros. destruct rest; reflexivity. Qed.

Lemma assign_next_cons : forall env e slot g rest x term,
  assign_next env e slot (g :: rest) x term = assign env e slot (g :: rest) x.
Proof. reflexivity. Qed.

Arguments assign : simpl never.
Arguments assign_next : simpl never.

(* what an assignment leaves in a slot is never a nil pointer or a nil map *)
Lemma assign_result_inst : forall env t v p x a, assign env t v p x = Some a -> instantiate a = a.
Proof.
  intros env t v [|f rest] x a H; [discriminate|]. rewrite assign_cons in H.
  assert (Fin : forall isptr u n fs,
            (if isptr && is_any u then None else
             match lookup_field env n f with
             | Some (true, ft) =>
                 option_map (fun a0 => rewrap isptr u (VStruct n (ains f a0 fs)))
                   (assign_next env ft (instantiate (field_of ft (aget f fs))) rest x
                      (store_field ft (field_of ft (aget f fs)) x))
             | _ => None
             end) = Some a -> instantiate a = a).
  { intros isptr u n fs H0. destruct (isptr && is_any u); [discriminate|].
    destruct (lookup_field env n f) as [[[] ft]|]; try discriminate.
    destruct (assign_next _ _ _ _ _ _); inversion H0. destruct isptr; reflexivity. }
  destruct (any_enter t v) as [| | |n fs|u o|ks e o]; simpl in H; try discriminate.
  - apply (Fin false TInt n fs). exact H.
  - destruct o as [w|].
    + simpl in H. destruct w as [| | |n fs| |]; try discriminate. exact (Fin true u n fs H).
    + destruct (is_nil_path rest); simpl in H; [|discriminate].
      destruct (zero u) as [| | |n fs| |] eqn:Ez; try discriminate. exact (Fin true u n fs H).
  - destruct ks; simpl in H; [|discriminate]. destruct o; [|discriminate].
    destruct (assign_next _ _ _ _ _ _); inversion H; reflexivity.
Qed.

Lemma obind_option_map_r : forall {A B C} (o : option A) (k : A -> option B) (h : B -> C),
  obind o (fun a => option_map h (k a)) = option_map h (obind o k).
Proof. intros. destruct o; reflexivity. Qed.

Lemma option_map_ext' : forall {A B} (f g : A -> B) (o : option A),
  (forall a, f a = g a) -> option_map f o = option_map g o.
Proof. intros. destruct o; simpl; [rewrite H|]; reflexivity. Qed.

Lemma npa_cons_map : forall env t v f g rest ks e es,
  any_enter t v = VMap ks e (Some es) ->
  npa env t v (f :: g :: rest) -> npa env e (entry_of e (aget f es)) (g :: rest).
Proof. intros env t v f g rest ks e es H N. cbn [npa] in N. rewrite H in N. exact N. Qed.

(* the struct step, shared by the plain-struct and the pointer-to-struct cases *)
Section StructStep.
  Variable env : senv.
  Variable t : ty.
  Variable isptr : bool.
  Variable u : ty.
  Variable n : N.
  Hypothesis Hre : forall v', any_enter t v' = v'.
  Hypothesis Hu : isptr = false -> u = TInt.
  Hypothesis Hua : is_any u = false.                (* a pointer to an interface is never followed *)

  Definition sstep (fs : list (N * val)) (f : N) (rest : path) (x : val) : option val :=
    match lookup_field env n f with
    | Some (true, ft) =>
        option_map (fun a => rewrap isptr u (VStruct n (ains f a fs)))
          (assign_next env ft (instantiate (field_of ft (aget f fs))) rest x
             (store_field ft (field_of ft (aget f fs)) x))
    | _ => None
    end.

  Lemma assign_rewrap : forall fs f rest x,
    assign env t (rewrap isptr u (VStruct n fs)) (f :: rest) x = sstep fs f rest x.
  Proof.
    intros. rewrite assign_cons, Hre. unfold sstep.
    generalize Hu. destruct isptr; intro Hu'.
    - simpl. rewrite Hua. reflexivity.
    - rewrite (Hu' eq_refl). reflexivity.
  Qed.

  Lemma sstep_comm : forall fs f pr g qr x y,
    (forall q t' v x' y', q <> [] -> conflict pr q = false -> npa env t' v pr -> npa env t' v q -> pr <> [] ->
        obind (assign env t' v pr x') (fun v' => assign env t' v' q y') =
        obind (assign env t' v q y') (fun v' => assign env t' v' pr x')) ->
    conflict (f :: pr) (g :: qr) = false ->
    (forall ft, lookup_field env n f = Some (true, ft) -> pr <> [] -> npa env ft (instantiate (field_of ft (aget f fs))) pr) ->
    (forall ft, lookup_field env n g = Some (true, ft) -> qr <> [] -> npa env ft (instantiate (field_of ft (aget g fs))) qr) ->
    obind (sstep fs f pr x) (fun v' => assign env t v' (g :: qr) y) =
    obind (sstep fs g qr y) (fun v' => assign env t v' (f :: pr) x).
  Proof.
    intros fs f pr g qr x y IH Hc Np Nq.
    destruct (N.eq_dec f g) as [->|Hfg].
    - rewrite conflict_cons_same in Hc.
      destruct pr as [|f' pr']; [rewrite conflict_nil_l in Hc; discriminate|].
      destruct qr as [|g' qr']; [rewrite conflict_sym, conflict_nil_l in Hc; discriminate|].
      unfold sstep. destruct (lookup_field env n g) as [[[] ft]|] eqn:Hl; try reflexivity.
      rewrite !obind_map, !assign_next_cons.
      set (E := instantiate (field_of ft (aget g fs))).
      assert (R : forall (P Q : path) (X Y : val) (a : val),
                 assign env ft E P X = Some a -> Q <> [] ->
                 assign env t (rewrap isptr u (VStruct n (ains g a fs))) (g :: Q) Y =
                 option_map (fun b => rewrap isptr u (VStruct n (ains g b fs))) (assign env ft a Q Y)).
      { intros P Q X Y a Ha HQ. rewrite assign_rewrap. unfold sstep. rewrite Hl.
        rewrite aget_ains_same. simpl field_of. rewrite (assign_result_inst _ _ _ _ _ _ Ha).
        destruct Q as [|g0 Q0]; [contradiction|]. rewrite assign_next_cons.
        apply option_map_ext'. intro b. rewrite ains_ains_same. reflexivity. }
      specialize (IH (g' :: qr') ft E x y ltac:(discriminate) Hc (Np ft eq_refl ltac:(discriminate))
                     (Nq ft eq_refl ltac:(discriminate)) ltac:(discriminate)).
      destruct (assign env ft E (f' :: pr') x) as [a|] eqn:Ea;
        destruct (assign env ft E (g' :: qr') y) as [b|] eqn:Eb; simpl obind in *.
      + rewrite (R _ _ _ _ _ Ea) by discriminate. rewrite (R _ _ _ _ _ Eb) by discriminate.
        rewrite IH. reflexivity.
      + rewrite (R _ _ _ _ _ Ea) by discriminate. rewrite IH. reflexivity.
      + rewrite (R _ _ _ _ _ Eb) by discriminate. rewrite <- IH. reflexivity.
      + reflexivity.
    - (* different fields *)
      assert (R : forall f g (P Q : path) (X Y : val) a, f <> g ->
                 assign env t (rewrap isptr u (VStruct n (ains f a fs))) (g :: Q) Y =
                 match lookup_field env n g with
                 | Some (true, gt) =>
                     option_map (fun b => rewrap isptr u (VStruct n (ains g b (ains f a fs))))
                       (assign_next env gt (instantiate (field_of gt (aget g fs))) Q Y
                          (store_field gt (field_of gt (aget g fs)) Y))
                 | _ => None
                 end).
      { intros f0 g0 P Q X Y a Hne. rewrite assign_rewrap. unfold sstep.
        destruct (lookup_field env n g0) as [[[] gt]|]; try reflexivity.
        rewrite aget_ains_other by congruence. reflexivity. }
      unfold sstep.
      destruct (lookup_field env n f) as [[[] ft]|] eqn:Hlf;
        destruct (lookup_field env n g) as [[[] gt]|] eqn:Hlg;
        rewrite ?obind_map; simpl obind; try reflexivity.
      + set (A := assign_next env ft (instantiate (field_of ft (aget f fs))) pr x
                    (store_field ft (field_of ft (aget f fs)) x)).
        set (B := assign_next env gt (instantiate (field_of gt (aget g fs))) qr y
                    (store_field gt (field_of gt (aget g fs)) y)).
        etransitivity.
        { apply obind_ext. intro a. rewrite (R f g pr qr x y a Hfg), Hlg. fold B. reflexivity. }
        symmetry. etransitivity.
        { apply obind_ext. intro b. rewrite (R g f qr pr y x b (not_eq_sym Hfg)), Hlf. fold A. reflexivity. }
        destruct A, B; simpl; try reflexivity. rewrite ains_comm by congruence. reflexivity.
      + destruct (assign_next _ _ _ _ _ _) as [a|]; simpl; [|reflexivity].
        rewrite (R f g pr qr x y a Hfg), Hlg. reflexivity.
      + destruct (assign_next _ _ _ _ _ _) as [a|]; simpl; [|reflexivity].
        rewrite (R f g pr qr x y a Hfg), Hlg. reflexivity.
      + destruct (assign_next _ _ _ _ _ _) as [b|]; simpl; [|reflexivity].
        rewrite (R g f qr pr y x b (not_eq_sym Hfg)), Hlf. reflexivity.
      + destruct (assign_next _ _ _ _ _ _) as [b|]; simpl; [|reflexivity].
        rewrite (R g f qr pr y x b (not_eq_sym Hfg)), Hlf. reflexivity.
  Qed.
End StructStep.
