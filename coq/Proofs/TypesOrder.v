(* Proofs/TypesOrder.v — the work-list loop of updateToValidateMap gives the same result for
   every iteration order of toValidateMap.  Part 1: facts about one call of [update].

   The argument.  Types only move from unknown to known.  Fix a second run with final
   state [r].  (K1) every node the first run types is typed in [r], because every entry is
   "closed" in [r] (both ends known or both unknown).  (K2) when the only source of new
   types is one type [a] (precondition [preT]), every newly typed node gets [a].  So two
   runs type the same nodes with the same type.  (K3) the loop fails only on an entry both
   of whose types were known from the start, and then every run fails.  (K4) the pending
   list and the converter list of the result are determined, up to order, by the final
   types.  (K0) the bound on the number of passes is never reached. *)
From Eino Require Import Base.Util Model.Types Model.TypeBuilder Proofs.TypesLattice Proofs.TypesBuilder.
From Coq Require Import Lia Permutation.
Arguments check_assignable : simpl never.

(* ------------------------------------------------------------------ lists *)

Lemma NoDup_dedupN : forall l, NoDup (dedupN l).
Proof.
  induction l as [|x l IH]; simpl; [constructor|].
  destruct (memN x l) eqn:E; [exact IH|].
  constructor; [|exact IH]. rewrite In_dedupN. intro H. apply memN_In in H. congruence.
Qed.

Lemma NoDup_app_disj : forall (A : Type) (l1 l2 : list A),
  NoDup l1 -> NoDup l2 -> (forall x, In x l1 -> ~ In x l2) -> NoDup (l1 ++ l2).
Proof.
  intros A l1 l2 H1 H2 D. induction l1 as [|x l1 IH]; simpl; [exact H2|].
  inversion H1; subst. constructor.
  - rewrite in_app_iff. intros [H|H]; [auto | apply (D x (or_introl eq_refl) H)].
  - apply IH; [assumption|]. intros y Hy. apply D. right; exact Hy.
Qed.

Lemma order_keys_perm : forall prio ks, NoDup ks -> Permutation (order_keys prio ks) ks.
Proof.
  intros prio ks ND. apply NoDup_Permutation.
  - unfold order_keys. apply NoDup_app_disj.
    + apply NoDup_filter. apply NoDup_dedupN.
    + apply NoDup_filter. exact ND.
    + intros x H1 H2. apply filter_In in H1. apply filter_In in H2.
      destruct H1 as [H1 _]. destruct H2 as [_ H2]. apply (proj1 (In_dedupN _ _)) in H1. apply (proj2 (memN_In _ _)) in H1.
      rewrite H1 in H2. discriminate.
  - exact ND.
  - intro x. apply In_order_keys.
Qed.

Lemma filter_disj_app : forall (A : Type) (P Q : A -> bool) (l : list A),
  (forall x, P x = true -> Q x = true -> False) ->
  Permutation (filter P l ++ filter Q l) (filter (fun x => P x || Q x) l).
Proof.
  intros A P Q l D. induction l as [|x l IH]; simpl; [constructor|].
  destruct (P x) eqn:EP; destruct (Q x) eqn:EQ; simpl.
  - exfalso; eapply D; eauto.
  - constructor. exact IH.
  - eapply Permutation_trans; [apply Permutation_sym, Permutation_middle|]. constructor. exact IH.
  - exact IH.
Qed.

Lemma flat_map_groups : forall (l : list (key * key)) (ks : list key),
  NoDup ks ->
  Permutation (flat_map (fun k => filter (fun p => N.eqb (fst p) k) l) ks)
              (filter (fun p => memN (fst p) ks) l).
Proof.
  intros l ks ND. induction ks as [|k ks IH]; simpl.
  - induction l as [|x l IHl]; simpl; [constructor | exact IHl].
  - inversion ND; subst.
    eapply Permutation_trans; [apply Permutation_app_head; apply IH; assumption|].
    eapply Permutation_trans; [apply filter_disj_app|].
    + intros x Hx Hm. apply N.eqb_eq in Hx. apply memN_In in Hm. subst k. auto.
    + assert (E : forall x : key * key, (N.eqb (fst x) k || memN (fst x) ks) = memN (fst x) (k :: ks)).
      { intro x. unfold memN; simpl. reflexivity. }
      rewrite (filter_ext _ _ E). apply Permutation_refl.
Qed.

Lemma filter_all : forall (A : Type) (P : A -> bool) (l : list A),
  (forall x, In x l -> P x = true) -> filter P l = l.
Proof.
  intros A P l H. induction l as [|x l IH]; simpl; [reflexivity|].
  rewrite (H x (or_introl eq_refl)). f_equal. apply IH. intros y Hy; apply H; right; exact Hy.
Qed.

Lemma group_order_perm : forall prio tvm, Permutation (group_order prio tvm) tvm.
Proof.
  intros prio tvm. unfold group_order.
  eapply Permutation_trans.
  - apply Permutation_flat_map. apply order_keys_perm. apply NoDup_dedupN.
  - eapply Permutation_trans; [apply flat_map_groups; apply NoDup_dedupN|].
    rewrite filter_all; [apply Permutation_refl|].
    intros p Hp. apply memN_In. apply In_dedupN. apply in_map. exact Hp.
Qed.

Lemma Permutation_filter' : forall (A : Type) (P : A -> bool) (l l' : list A),
  Permutation l l' -> Permutation (filter P l) (filter P l').
Proof.
  intros A P l l' H. induction H; simpl.
  - constructor.
  - destruct (P x); [constructor|]; assumption.
  - destruct (P x); destruct (P y); try constructor; try apply Permutation_refl.
  - eapply Permutation_trans; eauto.
Qed.

Lemma map_fst_map_node : forall k f l, map fst (map_node k f l) = map fst l.
Proof.
  intros k f l. induction l as [|[k0 n] l IH]; simpl; [reflexivity|].
  destruct (N.eqb k k0); simpl; [reflexivity | rewrite IH; reflexivity].
Qed.

Lemma nlist_get_notin : forall (l : list (key * node)) k, ~ In k (map fst l) -> nlist_get k l = None.
Proof.
  induction l as [|[k0 n] l IH]; simpl; intros k H; [reflexivity|].
  destruct (N.eqb_spec k k0) as [Q|Q]; [subst; exfalso; apply H; left; reflexivity|].
  apply IH. intro H'; apply H; right; exact H'.
Qed.

Lemma nodes_eq : forall (l1 l2 : list (key * node)),
  NoDup (map fst l1) -> map fst l1 = map fst l2 ->
  (forall k, nlist_get k l1 = nlist_get k l2) -> l1 = l2.
Proof.
  induction l1 as [|[k1 n1] l1 IH]; intros [|[k2 n2] l2] ND E G; simpl in *; try discriminate; [reflexivity|].
  injection E as Ek El. subst k2. inversion ND as [|x xs Hnotin ND']; subst.
  pose proof (G k1) as G1. simpl in G1. rewrite N.eqb_refl in G1. injection G1 as En. subst n2.
  f_equal. apply IH; [exact ND' | exact El|].
  intro k. specialize (G k). simpl in G. destruct (N.eqb_spec k k1) as [Ek|Ek]; [|exact G].
  subst k. rewrite (nlist_get_notin l1 k1 Hnotin).
  rewrite El in Hnotin. rewrite (nlist_get_notin l2 k1 Hnotin). reflexivity.
Qed.

(* ------------------------------------------------------------------ vocabulary *)

Definition unk (st : gstate) (p : key * key) : bool :=
  match out_ty st (fst p), in_ty st (snd p) with None, None => true | _, _ => false end.
Definition both (st : gstate) (p : key * key) : Prop :=
  (exists a, out_ty st (fst p) = Some a) /\ (exists b, in_ty st (snd p) = Some b).
Definition closed (st : gstate) (p : key * key) : Prop := unk st p = true \/ both st p.
Definition quiet (st : gstate) : Prop := forall p, In p (g_tvm st) -> unk st p = true.

(* every field but nodes (same keys), tvm and hedge *)
Record frame (a b : gstate) : Prop := {
  fr_in : g_in b = g_in a; fr_out : g_out b = g_out a; fr_st : g_st b = g_st a;
  fr_data : g_data b = g_data a; fr_ctrl : g_ctrl b = g_ctrl a; fr_branches : g_branches b = g_branches a;
  fr_hs : g_has_start b = g_has_start a; fr_he : g_has_end b = g_has_end a;
  fr_err : g_err b = g_err a; fr_compiled : g_compiled b = g_compiled a;
  fr_keys : map fst (g_nodes b) = map fst (g_nodes a)
}.
Lemma frame_refl : forall a, frame a a.
Proof. intro a; constructor; reflexivity. Qed.
Lemma frame_trans : forall a b c, frame a b -> frame b c -> frame a c.
Proof. intros a b c [] []; constructor; congruence. Qed.
Lemma frame_set_pass_ty : forall st k t, frame st (set_pass_ty st k t).
Proof. intros; constructor; simpl; try reflexivity. apply map_fst_map_node. Qed.
Lemma frame_set_hedge : forall st h, frame st (set_hedge st h).
Proof. intros; constructor; reflexivity. Qed.
Lemma frame_set_tvm : forall st t, frame st (set_tvm st t).
Proof. intros; constructor; reflexivity. Qed.

Section O.
  Variable u : univ.

  (* the converter an entry contributes, judged by the types of [st] *)
  Definition hf (st : gstate) (p : key * key) : list (key * key * ty) :=
    match out_ty st (fst p), in_ty st (snd p) with
    | Some ta, Some tb =>
        match check_assignable u (Some ta) (Some tb) with May => [(fst p, snd p, tb)] | _ => [] end
    | _, _ => []
    end.

  Lemma both_ext : forall st st' p, ext st st' -> both st p -> both st' p.
  Proof.
    intros st st' p X [[a Ha] [b Hb]]. split; [exists a; eapply ext_out_ty; eauto | exists b; eapply ext_in_ty; eauto].
  Qed.
  Lemma hf_ext : forall st st' p, ext st st' -> both st p -> hf st' p = hf st p.
  Proof.
    intros st st' p X [[a Ha] [b Hb]]. unfold hf.
    rewrite (ext_out_ty _ _ _ _ X Ha), (ext_in_ty _ _ _ _ X Hb), Ha, Hb. reflexivity.
  Qed.
  Lemma unk_not_both : forall st p, unk st p = true -> both st p -> False.
  Proof. intros st p U [[a Ha] _]. unfold unk in U. rewrite Ha in U. discriminate. Qed.
  Lemma hf_unk : forall st p, unk st p = true -> hf st p = [].
  Proof. intros st p U. unfold unk in U. unfold hf. destruct (out_ty st (fst p)); [discriminate|reflexivity]. Qed.
  Lemma unk_ext : forall st st' p, ext st st' -> unk st' p = true -> unk st p = true.
  Proof.
    intros st st' p X U. unfold unk in *.
    destruct (out_ty st (fst p)) as [a|] eqn:A; [rewrite (ext_out_ty _ _ _ _ X A) in U; discriminate|].
    destruct (in_ty st (snd p)) as [b|] eqn:B; [|reflexivity].
    rewrite (ext_in_ty _ _ _ _ X B) in U. destruct (out_ty st' (fst p)); discriminate.
  Qed.

  (* types after typing one node *)
  Lemma in_ty_set_pass_other : forall st k t k', k' <> k -> in_ty (set_pass_ty st k t) k' = in_ty st k'.
  Proof.
    intros st k t k' D. unfold in_ty. change (g_in (set_pass_ty st k t)) with (g_in st).
    change (g_out (set_pass_ty st k t)) with (g_out st).
    destruct (N.eqb k' kSTART); [reflexivity|]. destruct (N.eqb k' kEND); [reflexivity|].
    rewrite get_node_set_pass_ty. destruct (N.eqb_spec k k'); [congruence | reflexivity].
  Qed.
  Lemma out_ty_set_pass_other : forall st k t k', k' <> k -> out_ty (set_pass_ty st k t) k' = out_ty st k'.
  Proof.
    intros st k t k' D. unfold out_ty. change (g_in (set_pass_ty st k t)) with (g_in st).
    change (g_out (set_pass_ty st k t)) with (g_out st).
    destruct (N.eqb k' kSTART); [reflexivity|]. destruct (N.eqb k' kEND); [reflexivity|].
    rewrite get_node_set_pass_ty. destruct (N.eqb_spec k k'); [congruence | reflexivity].
  Qed.

  (* ---------------------------------------------------------------- frame *)

  Lemma process_entry_frame : forall st s e st', process_entry u st s e = PDone st' -> frame st st'.
  Proof.
    intros st s e st' H. unfold process_entry, process_types in H.
    destruct (out_ty st s) as [ta|]; destruct (in_ty st e) as [tb|].
    - destruct (check_assignable u (Some ta) (Some tb)); inversion H; subst;
        [apply frame_refl | apply frame_set_hedge].
    - inversion H; subst; apply frame_set_pass_ty.
    - inversion H; subst; apply frame_set_pass_ty.
    - discriminate.
  Qed.

  Lemma pass_frame : forall todo st st' kept ch, pass u st todo = Some (st', kept, ch) -> frame st st'.
  Proof.
    induction todo as [|[s e] rest IH]; intros st st' kept ch H; simpl in H.
    - inversion H; subst; apply frame_refl.
    - destruct (process_entry u st s e) as [|st1|] eqn:PE.
      + destruct (pass u st rest) as [[[st2 k2] c2]|] eqn:PR; [|discriminate]. inversion H; subst. eapply IH; eauto.
      + destruct (pass u st1 rest) as [[[st2 k2] c2]|] eqn:PR; [|discriminate]. inversion H; subst.
        eapply frame_trans; [eapply process_entry_frame; eauto | eapply IH; eauto].
      + discriminate.
  Qed.

  Lemma update_frame : forall fuel orc n st st', update u fuel orc n st = UOk st' -> frame st st'.
  Proof.
    induction fuel as [|f IH]; intros orc n st st' H; simpl in H; [discriminate|].
    destruct (pass u st _) as [[[st1 kept] ch]|] eqn:P; [|discriminate].
    pose proof (pass_frame _ _ _ _ _ P) as F1.
    assert (F2 : frame st (set_tvm st1 kept)) by (eapply frame_trans; [exact F1 | apply frame_set_tvm]).
    destruct ch; [eapply frame_trans; [exact F2 | eapply IH; eauto] | inversion H; subst; exact F2].
  Qed.

  (* ---------------------------------------------------------------- K0: the bound is never reached *)

  Lemma update_fuel : forall fuel orc n st,
    good st -> (List.length (g_tvm st) < fuel)%nat -> update u fuel orc n st <> UFuel.
  Proof.
    induction fuel as [|f IH]; intros orc n st [NO HE] L; [lia|]. simpl.
    destruct (pass u st (group_order (orc n) (g_tvm st))) as [[[st1 kept] ch]|] eqn:P; [|discriminate].
    assert (HE' : forall p, In p (group_order (orc n) (g_tvm st)) -> ends_ok st p).
    { intros p Hp. apply In_group_order in Hp. apply HE; exact Hp. }
    destruct (pass_spec u _ _ _ _ _ NO HE' P) as [X [NO1 [TV [Hk [Hi [Hf Ht]]]]]].
    destruct ch; [|discriminate].
    apply IH.
    - split; [intros k nd; apply NO1|]. simpl. intros p Hp. apply Hi in Hp. apply In_group_order in Hp.
      eapply ext_ends_ok; [eapply ext_trans; [exact X | apply ext_set_tvm]|]. apply HE; exact Hp.
    - simpl. specialize (Ht eq_refl).
      rewrite (Permutation_length (group_order_perm (orc n) (g_tvm st))) in Ht. lia.
  Qed.

  Lemma update_tvm_fuel : forall orc st, good st -> update_tvm u orc st <> UFuel.
  Proof. intros orc st G. unfold update_tvm. apply update_fuel; [exact G | lia]. Qed.

  (* ---------------------------------------------------------------- K1: domination *)

  Definition dom (st r : gstate) : Prop :=
    forall k, (in_ty st k <> None -> in_ty r k <> None) /\ (out_ty st k <> None -> out_ty r k <> None).

  Lemma dom_same_types : forall st st' r,
    (forall k, in_ty st' k = in_ty st k) -> (forall k, out_ty st' k = out_ty st k) -> dom st r -> dom st' r.
  Proof. intros st st' r A B D k. rewrite A, B. apply D. Qed.

  Lemma closed_known_out : forall r p, closed r p -> out_ty r (fst p) <> None -> both r p.
  Proof.
    intros r p [U|B] H; [|exact B]. unfold unk in U. destruct (out_ty r (fst p)); [discriminate | congruence].
  Qed.
  Lemma closed_known_in : forall r p, closed r p -> in_ty r (snd p) <> None -> both r p.
  Proof.
    intros r p [U|B] H; [|exact B]. unfold unk in U.
    destruct (out_ty r (fst p)); [discriminate|]. destruct (in_ty r (snd p)); [discriminate | congruence].
  Qed.

  Lemma dom_set_pass : forall st r k t,
    nodes_ok r -> dom st r -> in_ty r k <> None -> dom (set_pass_ty st k t) r.
  Proof.
    intros st r k t NR D Hk k'. destruct (N.eqb_spec k' k) as [E|E].
    - subst k'. split; intros _; [exact Hk|].
      intro O. apply Hk. apply out_none_in_none; assumption.
    - rewrite in_ty_set_pass_other, out_ty_set_pass_other by exact E. apply D.
  Qed.

  Lemma process_entry_dom : forall st r s e st',
    nodes_ok st -> nodes_ok r -> dom st r -> closed r (s, e) ->
    process_entry u st s e = PDone st' -> dom st' r.
  Proof.
    intros st r s e st' NO NR D C H. unfold process_entry, process_types in H.
    destruct (out_ty st s) as [ta|] eqn:Oa; destruct (in_ty st e) as [tb|] eqn:Ib.
    - destruct (check_assignable u (Some ta) (Some tb)); inversion H; subst; [exact D|].
      apply (dom_same_types st); [reflexivity | reflexivity | exact D].
    - inversion H; subst st'. apply dom_set_pass; [exact NR | exact D|].
      assert (K : out_ty r s <> None) by (apply (D s); rewrite Oa; discriminate).
      destruct (closed_known_out r (s, e) C K) as [_ [b Hb]]. simpl in Hb. rewrite Hb. discriminate.
    - inversion H; subst st'. apply dom_set_pass; [exact NR | exact D|].
      assert (K : in_ty r e <> None) by (apply (D e); rewrite Ib; discriminate).
      destruct (closed_known_in r (s, e) C K) as [[a Ha] _]. simpl in Ha.
      intro I0. rewrite (in_none_out_none r s NR I0) in Ha. discriminate.
    - discriminate.
  Qed.

  Lemma pass_dom : forall todo st r st' kept ch,
    nodes_ok st -> (forall p, In p todo -> ends_ok st p) -> nodes_ok r -> dom st r ->
    (forall p, In p todo -> closed r p) ->
    pass u st todo = Some (st', kept, ch) -> dom st' r.
  Proof.
    induction todo as [|[s e] rest IH]; intros st r st' kept ch NO HE NR D C H; simpl in H.
    - inversion H; subst; exact D.
    - destruct (process_entry u st s e) as [|st1|] eqn:PE.
      + destruct (pass u st rest) as [[[st2 k2] c2]|] eqn:PR; [|discriminate]. inversion H; subst.
        eapply IH; [exact NO | | exact NR | exact D | | exact PR].
        * intros p Hp; apply HE; right; exact Hp.
        * intros p Hp; apply C; right; exact Hp.
      + destruct (process_entry_done u st s e st1 NO (HE _ (or_introl eq_refl)) PE) as [X1 [NO1 _]].
        destruct (pass u st1 rest) as [[[st2 k2] c2]|] eqn:PR; [|discriminate]. inversion H; subst.
        eapply IH; [exact NO1 | | exact NR | | | exact PR].
        * intros p Hp. eapply ext_ends_ok; [exact X1|]. apply HE; right; exact Hp.
        * eapply process_entry_dom; [exact NO | exact NR | exact D | | exact PE]. apply C; left; reflexivity.
        * intros p Hp; apply C; right; exact Hp.
      + discriminate.
  Qed.

  Lemma update_dom : forall fuel orc n st r st',
    good st -> nodes_ok r -> dom st r -> (forall p, In p (g_tvm st) -> closed r p) ->
    update u fuel orc n st = UOk st' -> dom st' r.
  Proof.
    induction fuel as [|f IH]; intros orc n st r st' [NO HE] NR D C H; simpl in H; [discriminate|].
    destruct (pass u st (group_order (orc n) (g_tvm st))) as [[[st1 kept] ch]|] eqn:P; [|discriminate].
    assert (HE' : forall p, In p (group_order (orc n) (g_tvm st)) -> ends_ok st p).
    { intros p Hp. apply In_group_order in Hp. apply HE; exact Hp. }
    assert (C' : forall p, In p (group_order (orc n) (g_tvm st)) -> closed r p).
    { intros p Hp. apply In_group_order in Hp. apply C; exact Hp. }
    destruct (pass_spec u _ _ _ _ _ NO HE' P) as [X [NO1 [TV [Hk [Hi _]]]]].
    pose proof (pass_dom _ _ _ _ _ _ NO HE' NR D C' P) as D1.
    assert (D1' : dom (set_tvm st1 kept) r) by exact D1.
    destruct ch; [|inversion H; subst; exact D1'].
    eapply IH; [ | exact NR | exact D1' | | exact H].
    - split; [intros k nd; apply NO1|]. simpl. intros p Hp. apply Hi in Hp. apply In_group_order in Hp.
      eapply ext_ends_ok; [eapply ext_trans; [exact X | apply ext_set_tvm]|]. apply HE; exact Hp.
    - simpl. intros p Hp. apply C'. apply Hi. exact Hp.
  Qed.
End O.

(* ==================================================================== Part 2 *)

Lemma flat_map_ext_in : forall (A B : Type) (f g : A -> list B) (l : list A),
  (forall x, In x l -> f x = g x) -> flat_map f l = flat_map g l.
Proof.
  intros A B f g l H. induction l as [|x l IH]; simpl; [reflexivity|].
  rewrite (H x (or_introl eq_refl)), IH; [reflexivity|]. intros y Hy; apply H; right; exact Hy.
Qed.
Lemma flat_map_nil : forall (A B : Type) (f : A -> list B) (l : list A),
  (forall x, In x l -> f x = []) -> flat_map f l = [].
Proof.
  intros A B f l H. induction l as [|x l IH]; simpl; [reflexivity|].
  rewrite (H x (or_introl eq_refl)). simpl. apply IH. intros y Hy; apply H; right; exact Hy.
Qed.
Lemma filter_none : forall (A : Type) (P : A -> bool) (l : list A),
  (forall x, In x l -> P x = false) -> filter P l = [].
Proof.
  intros A P l H. induction l as [|x l IH]; simpl; [reflexivity|].
  rewrite (H x (or_introl eq_refl)). apply IH. intros y Hy; apply H; right; exact Hy.
Qed.

Section O2.
  Variable u : univ.

  (* ---------------------------------------------------------------- K2: a single source type *)

  (* every entry with exactly one known end has the type [a] there *)
  Definition preT (a : ty) (E : list (key * key)) (st : gstate) : Prop :=
    forall p, In p E ->
      (forall c, out_ty st (fst p) = Some c -> in_ty st (snd p) = None -> c = a) /\
      (forall c, out_ty st (fst p) = None -> in_ty st (snd p) = Some c -> c = a).

  (* [st'] is [st] with some untyped nodes typed [a] *)
  Record newa (a : ty) (st st' : gstate) : Prop := {
    na_in : g_in st' = g_in st;
    na_out : g_out st' = g_out st;
    na_nodes : forall k,
      match get_node st k with
      | None => get_node st' k = None
      | Some n => get_node st' k = Some n \/ (n_in n = None /\ get_node st' k = Some (retype a n))
      end
  }.

  Lemma newa_refl : forall a st, newa a st st.
  Proof. intros a st; constructor; try reflexivity. intro k. destruct (get_node st k); auto. Qed.

  Lemma newa_same_nodes : forall a st st',
    g_in st' = g_in st -> g_out st' = g_out st -> g_nodes st' = g_nodes st -> newa a st st'.
  Proof.
    intros a st st' A B C. constructor; auto. intro k. unfold get_node. rewrite C.
    destruct (nlist_get k (g_nodes st)); auto.
  Qed.

  Lemma newa_trans : forall a x y z, newa a x y -> newa a y z -> newa a x z.
  Proof.
    intros a x y z [i1 o1 n1] [i2 o2 n2]. constructor; try congruence.
    intro k. specialize (n1 k). specialize (n2 k).
    destruct (get_node x k) as [n|].
    - destruct n1 as [E|[U E]]; rewrite E in n2.
      + exact n2.
      + destruct n2 as [E2|[U2 _]]; [right; auto | simpl in U2; discriminate].
    - rewrite n1 in n2. exact n2.
  Qed.

  Lemma newa_in_ty : forall a st st' k, newa a st st' ->
    in_ty st' k = in_ty st k \/ (in_ty st k = None /\ in_ty st' k = Some a).
  Proof.
    intros a st st' k [i o n]. unfold in_ty. rewrite i, o.
    destruct (N.eqb k kSTART); [left; reflexivity|]. destruct (N.eqb k kEND); [left; reflexivity|].
    specialize (n k). destruct (get_node st k) as [nd|].
    - destruct n as [E|[U E]]; rewrite E; [left; reflexivity | right; simpl; auto].
    - rewrite n. left; reflexivity.
  Qed.

  Lemma newa_out_ty : forall a st st' k, nodes_ok st -> newa a st st' ->
    out_ty st' k = out_ty st k \/ (out_ty st k = None /\ out_ty st' k = Some a).
  Proof.
    intros a st st' k NO [i o n]. unfold out_ty. rewrite i, o.
    destruct (N.eqb k kSTART); [left; reflexivity|]. destruct (N.eqb k kEND); [left; reflexivity|].
    specialize (n k). destruct (get_node st k) as [nd|] eqn:G.
    - destruct n as [E|[U E]]; rewrite E; [left; reflexivity|]. right. simpl.
      destruct (unknown_is_pass st k nd NO G U) as [_ Ou]. auto.
    - rewrite n. left; reflexivity.
  Qed.

  Lemma newa_set_pass : forall a st k,
    in_ty st k = None -> has_node st k = true -> newa a st (set_pass_ty st k a).
  Proof.
    intros a st k Ik Hn. constructor; try reflexivity. intro k'.
    rewrite get_node_set_pass_ty. destruct (N.eqb_spec k k') as [E|E].
    - subst k'. unfold has_node in Hn. destruct (get_node st k) as [n|] eqn:G; [|discriminate].
      simpl. right. split; [|reflexivity].
      unfold in_ty in Ik. destruct (N.eqb k kSTART); [discriminate|]. destruct (N.eqb k kEND); [discriminate|].
      rewrite G in Ik. exact Ik.
    - destruct (get_node st k'); auto.
  Qed.

  Lemma preT_set_pass : forall a E st k,
    has_node st k = true -> k <> kSTART -> k <> kEND ->
    preT a E st -> preT a E (set_pass_ty st k a).
  Proof.
    intros a E st k Hn A B P p Hp. destruct (P p Hp) as [P1 P2].
    destruct (set_pass_ty_types st k a Hn A B) as [T1 T2]. split.
    - intros c Ho Hi. destruct (N.eqb_spec (snd p) k) as [E2|E2]; [rewrite E2, T1 in Hi; discriminate|].
      rewrite in_ty_set_pass_other in Hi by exact E2.
      destruct (N.eqb_spec (fst p) k) as [E1|E1]; [rewrite E1, T2 in Ho; congruence|].
      rewrite out_ty_set_pass_other in Ho by exact E1. apply P1; assumption.
    - intros c Ho Hi. destruct (N.eqb_spec (fst p) k) as [E1|E1]; [rewrite E1, T2 in Ho; discriminate|].
      rewrite out_ty_set_pass_other in Ho by exact E1.
      destruct (N.eqb_spec (snd p) k) as [E2|E2]; [rewrite E2, T1 in Hi; congruence|].
      rewrite in_ty_set_pass_other in Hi by exact E2. apply P2; assumption.
  Qed.

  Lemma process_entry_newa : forall a E st s e st',
    nodes_ok st -> ends_ok st (s, e) -> preT a E st -> In (s, e) E ->
    process_entry u st s e = PDone st' -> newa a st st' /\ preT a E st'.
  Proof.
    intros a E st s e st' NO [Hs He] P Hin H. simpl in Hs, He.
    destruct (P _ Hin) as [P1 P2]. simpl in P1, P2.
    unfold process_entry, process_types in H.
    destruct (out_ty st s) as [ta|] eqn:Oa; destruct (in_ty st e) as [tb|] eqn:Ib.
    - destruct (check_assignable u (Some ta) (Some tb)); inversion H; subst st'.
      + split; [apply newa_refl | exact P].
      + split; [apply newa_same_nodes; reflexivity | exact P].
    - inversion H; subst st'. rewrite (P1 ta eq_refl eq_refl).
      destruct (in_ty_node _ _ Ib) as [E1 E2]. destruct He as [He|He]; [|congruence].
      split; [apply newa_set_pass; assumption | apply preT_set_pass; assumption].
    - inversion H; subst st'. rewrite (P2 tb eq_refl eq_refl).
      destruct (out_ty_node _ _ Oa) as [E1 E2]. destruct Hs as [Hs|Hs]; [|congruence].
      pose proof (out_none_in_none st s NO Oa) as Is.
      split; [apply newa_set_pass; assumption | apply preT_set_pass; assumption].
    - discriminate.
  Qed.

  Lemma pass_newa : forall a E todo st st' kept ch,
    nodes_ok st -> (forall p, In p todo -> ends_ok st p) -> preT a E st -> incl todo E ->
    pass u st todo = Some (st', kept, ch) -> newa a st st' /\ preT a E st'.
  Proof.
    intros a E. induction todo as [|[s e] rest IH]; intros st st' kept ch NO HE P I H; simpl in H.
    - inversion H; subst. split; [apply newa_refl | exact P].
    - destruct (process_entry u st s e) as [|st1|] eqn:PE.
      + destruct (pass u st rest) as [[[st2 k2] c2]|] eqn:PR; [|discriminate]. inversion H; subst.
        eapply IH; [exact NO | | exact P | | exact PR].
        * intros p Hp; apply HE; right; exact Hp.
        * intros p Hp; apply I; right; exact Hp.
      + destruct (process_entry_done u st s e st1 NO (HE _ (or_introl eq_refl)) PE) as [X1 [NO1 _]].
        destruct (process_entry_newa a E st s e st1 NO (HE _ (or_introl eq_refl)) P (I _ (or_introl eq_refl)) PE) as [N1 P1].
        destruct (pass u st1 rest) as [[[st2 k2] c2]|] eqn:PR; [|discriminate]. inversion H; subst.
        destruct (IH st1 st' kept c2 NO1) as [N2 P2]; auto.
        * intros p Hp. eapply ext_ends_ok; [exact X1|]. apply HE; right; exact Hp.
        * intros p Hp; apply I; right; exact Hp.
        * split; [eapply newa_trans; eauto | exact P2].
      + discriminate.
  Qed.

  Lemma update_newa : forall a E fuel orc n st st',
    good st -> preT a E st -> incl (g_tvm st) E ->
    update u fuel orc n st = UOk st' -> newa a st st' /\ preT a E st'.
  Proof.
    intros a E. induction fuel as [|f IH]; intros orc n st st' [NO HE] P I H; simpl in H; [discriminate|].
    destruct (pass u st (group_order (orc n) (g_tvm st))) as [[[st1 kept] ch]|] eqn:PS; [|discriminate].
    assert (HE' : forall p, In p (group_order (orc n) (g_tvm st)) -> ends_ok st p).
    { intros p Hp. apply In_group_order in Hp. apply HE; exact Hp. }
    assert (I' : incl (group_order (orc n) (g_tvm st)) E).
    { intros p Hp. apply In_group_order in Hp. apply I; exact Hp. }
    destruct (pass_spec u _ _ _ _ _ NO HE' PS) as [X [NO1 [TV [Hk [Hi _]]]]].
    destruct (pass_newa a E _ _ _ _ _ NO HE' P I' PS) as [N1 P1].
    assert (N1' : newa a st (set_tvm st1 kept)).
    { eapply newa_trans; [exact N1 | apply newa_same_nodes; reflexivity]. }
    assert (P1' : preT a E (set_tvm st1 kept)) by exact P1.
    destruct ch; [|inversion H; subst; split; assumption].
    destruct (IH orc (S n) (set_tvm st1 kept) st') as [N2 P2]; auto.
    - split; [intros k nd; apply NO1|]. simpl. intros p Hp. apply Hi in Hp. apply In_group_order in Hp.
      eapply ext_ends_ok; [eapply ext_trans; [exact X | apply ext_set_tvm]|]. apply HE; exact Hp.
    - simpl. intros p Hp. apply I'. apply Hi. exact Hp.
    - split; [eapply newa_trans; eauto | exact P2].
  Qed.

  (* ---------------------------------------------------------------- K3: failure *)

  Lemma mustnot_back : forall a E st0 cur p ta tb,
    nodes_ok st0 -> newa a st0 cur -> preT a E st0 -> In p E ->
    out_ty cur (fst p) = Some ta -> in_ty cur (snd p) = Some tb ->
    check_assignable u (Some ta) (Some tb) = MustNot ->
    out_ty st0 (fst p) = Some ta /\ in_ty st0 (snd p) = Some tb.
  Proof.
    intros a E st0 cur p ta tb NO N P Hp Ho Hi C. destruct (P p Hp) as [P1 P2].
    destruct (newa_out_ty a st0 cur (fst p) NO N) as [Eo|[Uo Eo]];
      destruct (newa_in_ty a st0 cur (snd p) N) as [Ei|[Ui Ei]].
    - split; congruence.
    - exfalso. rewrite Ho in Eo. rewrite Hi in Ei. inversion Ei; subst tb.
      rewrite (P1 ta (eq_sym Eo) Ui), check_refl in C. discriminate.
    - exfalso. rewrite Ho in Eo. rewrite Hi in Ei. inversion Eo; subst ta.
      rewrite (P2 tb Uo (eq_sym Ei)), check_refl in C. discriminate.
    - exfalso. rewrite Ho in Eo. rewrite Hi in Ei. inversion Eo; inversion Ei; subst.
      rewrite check_refl in C. discriminate.
  Qed.

  Definition bad_entry (st : gstate) (p : key * key) : Prop :=
    exists ta tb, out_ty st (fst p) = Some ta /\ in_ty st (snd p) = Some tb /\
                  check_assignable u (Some ta) (Some tb) = MustNot.

  Lemma pass_fail : forall a E st0 todo cur,
    nodes_ok st0 -> preT a E st0 -> newa a st0 cur ->
    nodes_ok cur -> (forall p, In p todo -> ends_ok cur p) -> preT a E cur -> incl todo E ->
    pass u cur todo = None -> exists p, In p todo /\ bad_entry st0 p.
  Proof.
    intros a E st0. induction todo as [|[s e] rest IH]; intros cur NO0 P0 N NO HE P I H; simpl in H; [discriminate|].
    destruct (process_entry u cur s e) as [|st1|] eqn:PE.
    - destruct (pass u cur rest) as [[[st2 k2] c2]|] eqn:PR; [discriminate|].
      destruct (IH cur NO0 P0 N NO) as [p [Hp B]]; auto.
      + intros p Hp; apply HE; right; exact Hp.
      + intros p Hp; apply I; right; exact Hp.
      + exists p; split; [right; exact Hp | exact B].
    - destruct (process_entry_done u cur s e st1 NO (HE _ (or_introl eq_refl)) PE) as [X1 [NO1 _]].
      destruct (process_entry_newa a E cur s e st1 NO (HE _ (or_introl eq_refl)) P (I _ (or_introl eq_refl)) PE) as [N1 P1].
      destruct (pass u st1 rest) as [[[st2 k2] c2]|] eqn:PR; [discriminate|].
      destruct (IH st1 NO0 P0 (newa_trans _ _ _ _ N N1) NO1) as [p [Hp B]]; auto.
      + intros p Hp. eapply ext_ends_ok; [exact X1|]. apply HE; right; exact Hp.
      + intros p Hp; apply I; right; exact Hp.
      + exists p; split; [right; exact Hp | exact B].
    - exists (s, e). split; [left; reflexivity|].
      unfold process_entry, process_types in PE.
      destruct (out_ty cur s) as [ta|] eqn:Oa; destruct (in_ty cur e) as [tb|] eqn:Ib; try discriminate.
      destruct (check_assignable u (Some ta) (Some tb)) eqn:C; try discriminate.
      destruct (mustnot_back a E st0 cur (s, e) ta tb NO0 N P0 (I _ (or_introl eq_refl)) Oa Ib C) as [A B].
      exists ta, tb. auto.
  Qed.

  Lemma update_fail : forall a E st0 fuel orc n cur,
    nodes_ok st0 -> preT a E st0 -> newa a st0 cur ->
    good cur -> preT a E cur -> incl (g_tvm cur) E ->
    update u fuel orc n cur = UFail -> exists p, In p E /\ bad_entry st0 p.
  Proof.
    intros a E st0. induction fuel as [|f IH]; intros orc n cur NO0 P0 N [NO HE] P I H; simpl in H; [discriminate|].
    assert (HE' : forall p, In p (group_order (orc n) (g_tvm cur)) -> ends_ok cur p).
    { intros p Hp. apply In_group_order in Hp. apply HE; exact Hp. }
    assert (I' : incl (group_order (orc n) (g_tvm cur)) E).
    { intros p Hp. apply In_group_order in Hp. apply I; exact Hp. }
    destruct (pass u cur (group_order (orc n) (g_tvm cur))) as [[[st1 kept] ch]|] eqn:PS.
    - destruct (pass_spec u _ _ _ _ _ NO HE' PS) as [X [NO1 [TV [Hk [Hi _]]]]].
      destruct (pass_newa a E _ _ _ _ _ NO HE' P I' PS) as [N1 P1].
      destruct ch; [|discriminate].
      apply (IH orc (S n) (set_tvm st1 kept)); auto.
      + eapply newa_trans; [exact N|]. eapply newa_trans; [exact N1 | apply newa_same_nodes; reflexivity].
      + split; [intros k nd; apply NO1|]. simpl. intros p Hp. apply Hi in Hp. apply In_group_order in Hp.
        eapply ext_ends_ok; [eapply ext_trans; [exact X | apply ext_set_tvm]|]. apply HE; exact Hp.
      + simpl. intros p Hp. apply I'. apply Hi. exact Hp.
    - destruct (pass_fail a E st0 _ cur NO0 P0 N NO HE' P I' PS) as [p [Hp B]].
      exists p. split; [apply I'; exact Hp | exact B].
  Qed.

  (* a bad entry makes every run fail *)
  Lemma update_bad_not_ok : forall fuel orc n st st' p,
    good st -> In p (g_tvm st) -> bad_entry st p -> update u fuel orc n st = UOk st' -> False.
  Proof.
    intros fuel orc n st st' p G Hp [ta [tb [Ha [Hb C]]]] H.
    destruct (update_spec u _ _ _ _ _ G H) as [X [_ [_ [PO Q]]]].
    destruct (PO p (or_intror Hp)) as [[a [b [Ha' [Hb' [Hc _]]]]]|Hin].
    - rewrite (ext_out_ty _ _ _ _ X Ha) in Ha'. rewrite (ext_in_ty _ _ _ _ X Hb) in Hb'.
      inversion Ha'; inversion Hb'; subst. apply Hc; exact C.
    - destruct (Q p Hin) as [Q1 _]. rewrite (ext_out_ty _ _ _ _ X Ha) in Q1. discriminate.
  Qed.

  (* ---------------------------------------------------------------- K4: bookkeeping *)

  Lemma process_entry_book : forall st s e st1,
    nodes_ok st -> ends_ok st (s, e) -> process_entry u st s e = PDone st1 ->
    both st1 (s, e) /\ g_hedge st1 = g_hedge st ++ hf u st1 (s, e).
  Proof.
    intros st s e st1 NO HE H.
    destruct (process_entry_done u st s e st1 NO HE H) as [X [_ [[a [b [Ha [Hb _]]]] _]]].
    split; [split; eauto|]. destruct HE as [Hs He]. simpl in Hs, He, Ha, Hb.
    unfold process_entry, process_types in H.
    destruct (out_ty st s) as [ta|] eqn:Oa; destruct (in_ty st e) as [tb|] eqn:Ib.
    - destruct (check_assignable u (Some ta) (Some tb)) eqn:C; inversion H; subst st1.
      + unfold hf; simpl. rewrite Oa, Ib, C. rewrite app_nil_r. reflexivity.
      + unfold hf. simpl fst; simpl snd.
        change (out_ty (set_hedge st (g_hedge st ++ [(s, e, tb)])) s) with (out_ty st s).
        change (in_ty (set_hedge st (g_hedge st ++ [(s, e, tb)])) e) with (in_ty st e).
        rewrite Oa, Ib, C. reflexivity.
    - inversion H; subst st1.
      destruct (in_ty_node _ _ Ib) as [E1 E2]. destruct He as [He|He]; [|congruence].
      destruct (set_pass_ty_types st e ta He E1 E2) as [T1 _].
      unfold hf. simpl fst; simpl snd. rewrite (ext_out_ty _ _ _ _ X Oa), T1, check_refl.
      simpl. rewrite app_nil_r. reflexivity.
    - inversion H; subst st1.
      destruct (out_ty_node _ _ Oa) as [E1 E2]. destruct Hs as [Hs|Hs]; [|congruence].
      destruct (set_pass_ty_types st s tb Hs E1 E2) as [_ T2].
      unfold hf. simpl fst; simpl snd. rewrite (ext_in_ty _ _ _ _ X Ib), T2, check_refl.
      simpl. rewrite app_nil_r. reflexivity.
    - discriminate.
  Qed.

  Lemma pass_book : forall todo st st' kept ch,
    nodes_ok st -> (forall p, In p todo -> ends_ok st p) ->
    pass u st todo = Some (st', kept, ch) ->
    exists R, Permutation todo (kept ++ R) /\ (forall p, In p R -> both st' p) /\
              g_hedge st' = g_hedge st ++ flat_map (hf u st') R.
  Proof.
    induction todo as [|[s e] rest IH]; intros st st' kept ch NO HE H; simpl in H.
    - inversion H; subst. exists []. simpl. rewrite app_nil_r. split; [constructor|]. split; [intros p []|reflexivity].
    - destruct (process_entry u st s e) as [|st1|] eqn:PE.
      + destruct (pass u st rest) as [[[st2 k2] c2]|] eqn:PR; [|discriminate]. inversion H; subst.
        destruct (IH st st' k2 ch NO (fun p Hp => HE p (or_intror Hp)) PR) as [R [A [B C]]].
        exists R. split; [simpl; constructor; exact A | split; assumption].
      + destruct (process_entry_done u st s e st1 NO (HE _ (or_introl eq_refl)) PE) as [X1 [NO1 _]].
        destruct (process_entry_book st s e st1 NO (HE _ (or_introl eq_refl)) PE) as [B1 H1].
        destruct (pass u st1 rest) as [[[st2 k2] c2]|] eqn:PR; [|discriminate]. inversion H; subst.
        assert (HE1 : forall p, In p rest -> ends_ok st1 p).
        { intros p Hp. eapply ext_ends_ok; [exact X1|]. apply HE; right; exact Hp. }
        destruct (IH st1 st' kept c2 NO1 HE1 PR) as [R [A [B C]]].
        destruct (pass_spec u _ _ _ _ _ NO1 HE1 PR) as [X2 _].
        exists ((s, e) :: R). split; [|split].
        * eapply Permutation_trans; [constructor; exact A|]. apply Permutation_middle.
        * intros p [Hp|Hp]; [subst p; eapply both_ext; eauto | apply B; exact Hp].
        * simpl. rewrite (hf_ext u st1 st' (s, e) X2 B1). rewrite C, H1. rewrite <- app_assoc. reflexivity.
      + discriminate.
  Qed.

  Lemma update_book : forall fuel orc n st st',
    good st -> update u fuel orc n st = UOk st' ->
    exists R, Permutation (g_tvm st) (g_tvm st' ++ R) /\ (forall p, In p R -> both st' p) /\
              g_hedge st' = g_hedge st ++ flat_map (hf u st') R.
  Proof.
    induction fuel as [|f IH]; intros orc n st st' [NO HE] H; simpl in H; [discriminate|].
    destruct (pass u st (group_order (orc n) (g_tvm st))) as [[[st1 kept] ch]|] eqn:PS; [|discriminate].
    assert (HE' : forall p, In p (group_order (orc n) (g_tvm st)) -> ends_ok st p).
    { intros p Hp. apply In_group_order in Hp. apply HE; exact Hp. }
    destruct (pass_spec u _ _ _ _ _ NO HE' PS) as [X [NO1 [TV [Hk [Hi _]]]]].
    destruct (pass_book _ _ _ _ _ NO HE' PS) as [R1 [A1 [B1 C1]]].
    assert (G1 : good (set_tvm st1 kept)).
    { split; [intros k nd; apply NO1|]. simpl. intros p Hp. apply Hi in Hp. apply In_group_order in Hp.
      eapply ext_ends_ok; [eapply ext_trans; [exact X | apply ext_set_tvm]|]. apply HE; exact Hp. }
    destruct ch.
    - destruct (IH _ _ _ _ G1 H) as [R2 [A2 [B2 C2]]].
      destruct (update_spec u _ _ _ _ _ G1 H) as [X2 _].
      exists (R1 ++ R2). split; [|split].
      + eapply Permutation_trans; [apply Permutation_sym, group_order_perm|].
        eapply Permutation_trans; [exact A1|]. simpl in A2.
        eapply Permutation_trans; [apply Permutation_app_tail; exact A2|].
        rewrite <- app_assoc. apply Permutation_app_head. apply Permutation_app_comm.
      + intros p Hp. apply in_app_or in Hp. destruct Hp as [Hp|Hp]; [|apply B2; exact Hp].
        eapply both_ext; [exact X2|]. apply B1; exact Hp.
      + rewrite flat_map_app. rewrite C2. simpl. rewrite C1. rewrite <- app_assoc. f_equal. f_equal.
        apply flat_map_ext_in. intros p Hp. symmetry. apply (hf_ext u (set_tvm st1 kept) st' p X2). apply B1; exact Hp.
    - inversion H; subst st'. exists R1. split; [|split].
      + simpl. eapply Permutation_trans; [apply Permutation_sym, group_order_perm | exact A1].
      + exact B1.
      + exact C1.
  Qed.

  (* the pending list and the converters of the result are determined by its types *)
  Lemma update_result_shape : forall fuel orc n st st',
    good st -> update u fuel orc n st = UOk st' ->
    Permutation (g_tvm st') (filter (unk st') (g_tvm st)) /\
    Permutation (g_hedge st') (g_hedge st ++ flat_map (hf u st') (g_tvm st)).
  Proof.
    intros fuel orc n st st' G H.
    destruct (update_book _ _ _ _ _ G H) as [R [A [B C]]].
    destruct (update_spec u _ _ _ _ _ G H) as [_ [_ [_ [_ Q]]]].
    assert (QU : forall p, In p (g_tvm st') -> unk st' p = true).
    { intros p Hp. destruct (Q p Hp) as [Q1 Q2]. unfold unk. rewrite Q1, Q2. reflexivity. }
    split.
    - apply Permutation_sym. eapply Permutation_trans; [apply Permutation_filter'; exact A|].
      rewrite filter_app. rewrite (filter_all _ _ _ QU).
      rewrite filter_none; [rewrite app_nil_r; apply Permutation_refl|].
      intros p Hp. destruct (unk st' p) eqn:U; [|reflexivity]. exfalso. eapply unk_not_both; [exact U | apply B; exact Hp].
    - rewrite C. apply Permutation_app_head. apply Permutation_sym.
      eapply Permutation_trans; [apply Permutation_flat_map; exact A|].
      rewrite flat_map_app. rewrite flat_map_nil; [apply Permutation_refl|].
      intros p Hp. apply hf_unk. apply QU; exact Hp.
  Qed.
End O2.

(* ==================================================================== Part 3: two runs *)

Definition set_eq {A : Type} (l l' : list A) : Prop := forall x, In x l <-> In x l'.
Lemma set_eq_refl : forall (A : Type) (l : list A), set_eq l l.
Proof. intros A l x; tauto. Qed.
Lemma set_eq_sym : forall (A : Type) (l l' : list A), set_eq l l' -> set_eq l' l.
Proof. intros A l l' H x; specialize (H x); tauto. Qed.
Lemma set_eq_app_tail : forall (A : Type) (l l' m : list A), set_eq l l' -> set_eq (l ++ m) (l' ++ m).
Proof. intros A l l' m H x. rewrite !in_app_iff. specialize (H x). tauto. Qed.
Lemma set_eq_nil : forall (A : Type) (l : list A), set_eq l [] -> l = [].
Proof. intros A [|x l] H; [reflexivity|]. exfalso. apply (H x). left; reflexivity. Qed.

(* equal up to the order (and multiplicity) of the pending list and of the converter list *)
Record eqv (a b : gstate) : Prop := {
  ev_in : g_in b = g_in a; ev_out : g_out b = g_out a; ev_st : g_st b = g_st a;
  ev_nodes : g_nodes b = g_nodes a;
  ev_data : g_data b = g_data a; ev_ctrl : g_ctrl b = g_ctrl a; ev_branches : g_branches b = g_branches a;
  ev_hs : g_has_start b = g_has_start a; ev_he : g_has_end b = g_has_end a;
  ev_err : g_err b = g_err a; ev_compiled : g_compiled b = g_compiled a;
  ev_tvm : set_eq (g_tvm a) (g_tvm b);
  ev_hedge : set_eq (g_hedge a) (g_hedge b)
}.
Lemma eqv_refl : forall a, eqv a a.
Proof. intro a; constructor; try reflexivity; apply set_eq_refl. Qed.
Lemma eqv_sym : forall a b, eqv a b -> eqv b a.
Proof. intros a b []; constructor; try (symmetry; assumption); apply set_eq_sym; assumption. Qed.

Lemma types_eq : forall a b,
  g_in b = g_in a -> g_out b = g_out a -> g_nodes b = g_nodes a ->
  (forall k, get_node b k = get_node a k) /\ (forall k, in_ty b k = in_ty a k) /\
  (forall k, out_ty b k = out_ty a k).
Proof.
  intros a b A B C. assert (G : forall k, get_node b k = get_node a k) by (intro k; unfold get_node; rewrite C; reflexivity).
  split; [exact G|]. split; intro k; [unfold in_ty | unfold out_ty]; rewrite A, B, G; reflexivity.
Qed.

Lemma eqv_types : forall a b, eqv a b ->
  (forall k, get_node b k = get_node a k) /\ (forall k, in_ty b k = in_ty a k) /\
  (forall k, out_ty b k = out_ty a k).
Proof. intros a b E. apply types_eq; [apply (ev_in _ _ E) | apply (ev_out _ _ E) | apply (ev_nodes _ _ E)]. Qed.

Lemma eqv_has_node : forall a b k, eqv a b -> has_node b k = has_node a k.
Proof. intros a b k E. unfold has_node. destruct (eqv_types a b E) as [G _]. rewrite G. reflexivity. Qed.

Lemma eqv_unk : forall a b p, eqv a b -> unk b p = unk a p.
Proof. intros a b p E. destruct (eqv_types a b E) as [_ [I O]]. unfold unk. rewrite I, O. reflexivity. Qed.

Lemma eqv_good : forall a b, eqv a b -> good a -> good b.
Proof.
  intros a b E [NO HE]. destruct (eqv_types a b E) as [G _]. split.
  - intros k n H. rewrite G in H. apply NO; exact H.
  - intros p Hp. apply (ev_tvm _ _ E) in Hp. destruct (HE p Hp) as [A B].
    split; rewrite (eqv_has_node a b _ E); assumption.
Qed.

Lemma eqv_quiet : forall a b, eqv a b -> quiet a -> quiet b.
Proof. intros a b E Q p Hp. rewrite (eqv_unk a b p E). apply Q. apply (ev_tvm _ _ E). exact Hp. Qed.

Section O3.
  Variable u : univ.

  Lemma eqv_hf : forall a b p, eqv a b -> hf u b p = hf u a p.
  Proof. intros a b p E. destruct (eqv_types a b E) as [_ [I O]]. unfold hf. rewrite I, O. reflexivity. Qed.

  Lemma eqv_preT : forall t E a b, eqv a b -> preT t E a -> preT t E b.
  Proof.
    intros t E a b Ev P p Hp. destruct (eqv_types a b Ev) as [_ [I O]]. rewrite !I, !O. apply P; exact Hp.
  Qed.

  Lemma eqv_bad_entry : forall a b p, eqv a b -> bad_entry u a p -> bad_entry u b p.
  Proof.
    intros a b p Ev [ta [tb [A [B C]]]]. destruct (eqv_types a b Ev) as [_ [I O]].
    exists ta, tb. rewrite I, O. auto.
  Qed.

  (* set characterisation of the result of one update *)
  Lemma update_sets : forall fuel orc n st st',
    good st -> update u fuel orc n st = UOk st' ->
    (forall p, In p (g_tvm st') <-> In p (g_tvm st) /\ unk st' p = true) /\
    (forall x, In x (g_hedge st') <-> In x (g_hedge st) \/ exists p, In p (g_tvm st) /\ In x (hf u st' p)).
  Proof.
    intros fuel orc n st st' G H.
    destruct (update_book u _ _ _ _ _ G H) as [R [A [B C]]].
    destruct (update_spec u _ _ _ _ _ G H) as [X [_ [IN [PO Q]]]].
    assert (QU : forall p, In p (g_tvm st') -> unk st' p = true).
    { intros p Hp. destruct (Q p Hp) as [Q1 Q2]. unfold unk. rewrite Q1, Q2. reflexivity. }
    assert (RI : forall p, In p (g_tvm st) -> unk st' p = false -> In p R).
    { intros p Hp U. apply (Permutation_in _ A) in Hp. apply in_app_or in Hp. destruct Hp as [Hp|Hp]; [|exact Hp].
      rewrite (QU p Hp) in U. discriminate. }
    split.
    - intro p. split.
      + intro Hp. split; [apply IN; exact Hp | apply QU; exact Hp].
      + intros [Hp U]. apply (Permutation_in _ A) in Hp. apply in_app_or in Hp. destruct Hp as [Hp|Hp]; [exact Hp|].
        exfalso. eapply unk_not_both; [exact U | apply B; exact Hp].
    - intro x. rewrite C, in_app_iff, in_flat_map. split.
      + intros [Hx|[p [Hp Hx]]]; [left; exact Hx|]. right. exists p. split; [|exact Hx].
        apply (Permutation_in _ (Permutation_sym A)). apply in_or_app. right; exact Hp.
      + intros [Hx|[p [Hp Hx]]]; [left; exact Hx|]. right. exists p. split; [|exact Hx].
        apply RI; [exact Hp|]. destruct (unk st' p) eqn:U; [|reflexivity].
        rewrite (hf_unk u st' p U) in Hx. destruct Hx.
  Qed.

  (* every entry is closed in the result *)
  Lemma update_closed : forall fuel orc n st st',
    good st -> update u fuel orc n st = UOk st' -> forall p, In p (g_tvm st) -> closed st' p.
  Proof.
    intros fuel orc n st st' G H p Hp.
    destruct (update_spec u _ _ _ _ _ G H) as [X [_ [IN [PO Q]]]].
    destruct (PO p (or_intror Hp)) as [[a [b [Ha [Hb _]]]]|Hin].
    - right. split; eauto.
    - left. destruct (Q p Hin) as [Q1 Q2]. unfold unk. rewrite Q1, Q2. reflexivity.
  Qed.

  Lemma dom_of_ext : forall st st', ext st st' -> dom st st'.
  Proof.
    intros st st' X k. split; intro H.
    - destruct (in_ty st k) as [t|] eqn:E; [|congruence]. rewrite (ext_in_ty _ _ _ _ X E). discriminate.
    - destruct (out_ty st k) as [t|] eqn:E; [|congruence]. rewrite (ext_out_ty _ _ _ _ X E). discriminate.
  Qed.

  Lemma dom_eqv_l : forall a b r, eqv a b -> dom a r -> dom b r.
  Proof.
    intros a b r E D. destruct (eqv_types a b E) as [_ [I O]]. apply (dom_same_types a); auto.
  Qed.

  (* two states typed from a common ancestor with the single type [t], each dominating the
     other, have the same nodes *)
  Lemma newa_dom_nodes : forall t st1 st2 f1 f2,
    g_in st2 = g_in st1 -> g_out st2 = g_out st1 -> g_nodes st2 = g_nodes st1 ->
    nodes_ok st1 -> NoDup (map fst (g_nodes st1)) ->
    newa t st1 f1 -> newa t st2 f2 ->
    map fst (g_nodes f1) = map fst (g_nodes st1) -> map fst (g_nodes f2) = map fst (g_nodes st2) ->
    dom f1 f2 -> dom f2 f1 -> g_nodes f1 = g_nodes f2.
  Proof.
    intros t st1 st2 f1 f2 A B C NO ND N1 N2 F1 F2 D12 D21.
    destruct (types_eq st1 st2 A B C) as [G _].
    apply nodes_eq.
    - rewrite F1. exact ND.
    - rewrite F1, F2, C. reflexivity.
    - intro k. change (get_node f1 k = get_node f2 k).
      pose proof (na_nodes _ _ _ N1 k) as H1. pose proof (na_nodes _ _ _ N2 k) as H2. rewrite G in H2.
      destruct (get_node st1 k) as [n|] eqn:Gk; [|congruence].
      destruct (NO k n Gk) as [_ [KS KE]].
      assert (IT : forall f, in_ty f k = match get_node f k with Some x => n_in x | None => None end).
      { intro f. unfold in_ty. destruct (N.eqb_spec k kSTART); [congruence|]. destruct (N.eqb_spec k kEND); [congruence|]. reflexivity. }
      destruct H1 as [E1|[U1 E1]]; destruct H2 as [E2|[U2 E2]]; try congruence.
      + exfalso. assert (K : in_ty f2 k <> None) by (rewrite IT, E2; simpl; discriminate).
        apply (D21 k) in K. rewrite IT, E1, U2 in K. congruence.
      + exfalso. assert (K : in_ty f1 k <> None) by (rewrite IT, E1; simpl; discriminate).
        apply (D12 k) in K. rewrite IT, E2, U1 in K. congruence.
  Qed.

  Lemma update_two : forall t fuel1 fuel2 orc1 orc2 n1 n2 st1 st2,
    eqv st1 st2 -> good st1 -> NoDup (map fst (g_nodes st1)) -> preT t (g_tvm st1) st1 ->
    (List.length (g_tvm st1) < fuel1)%nat -> (List.length (g_tvm st2) < fuel2)%nat ->
    match update u fuel1 orc1 n1 st1, update u fuel2 orc2 n2 st2 with
    | UOk f1, UOk f2 => eqv f1 f2
    | UFail, UFail => True
    | _, _ => False
    end.
  Proof.
    intros t fuel1 fuel2 orc1 orc2 n1 n2 st1 st2 E G1 ND P1 L1 L2.
    pose proof (eqv_good _ _ E G1) as G2.
    assert (P2 : preT t (g_tvm st2) st2).
    { apply (eqv_preT t _ st1 st2 E). intros p Hp. apply P1. apply (ev_tvm _ _ E). exact Hp. }
    pose proof (update_fuel u fuel1 orc1 n1 st1 G1 L1) as NF1.
    pose proof (update_fuel u fuel2 orc2 n2 st2 G2 L2) as NF2.
    destruct (update u fuel1 orc1 n1 st1) as [f1| |] eqn:U1; [| |congruence];
      destruct (update u fuel2 orc2 n2 st2) as [f2| |] eqn:U2; try congruence; try exact I.
    - (* both succeed *)
      destruct (update_spec u _ _ _ _ _ G1 U1) as [X1 [Gf1 _]].
      destruct (update_spec u _ _ _ _ _ G2 U2) as [X2 [Gf2 _]].
      destruct (update_newa u t (g_tvm st1) _ _ _ _ _ G1 P1 (incl_refl _) U1) as [N1 _].
      destruct (update_newa u t (g_tvm st2) _ _ _ _ _ G2 P2 (incl_refl _) U2) as [N2 _].
      pose proof (update_frame u _ _ _ _ _ U1) as F1. pose proof (update_frame u _ _ _ _ _ U2) as F2.
      assert (D12 : dom f1 f2).
      { eapply update_dom; [exact G1 | exact (proj1 Gf2) | | | exact U1].
        - apply (dom_eqv_l st2 st1 f2 (eqv_sym _ _ E)). apply dom_of_ext; exact X2.
        - intros p Hp. apply (update_closed _ _ _ _ _ G2 U2). apply (ev_tvm _ _ E). exact Hp. }
      assert (D21 : dom f2 f1).
      { eapply update_dom; [exact G2 | exact (proj1 Gf1) | | | exact U2].
        - apply (dom_eqv_l st1 st2 f1 E). apply dom_of_ext; exact X1.
        - intros p Hp. apply (update_closed _ _ _ _ _ G1 U1). apply (ev_tvm _ _ E). exact Hp. }
      assert (NE : g_nodes f1 = g_nodes f2).
      { apply (newa_dom_nodes t st1 st2 f1 f2 (ev_in _ _ E) (ev_out _ _ E) (ev_nodes _ _ E) (proj1 G1) ND N1 N2
                                (fr_keys _ _ F1) (fr_keys _ _ F2) D12 D21). }
      destruct (update_sets _ _ _ _ _ G1 U1) as [T1 H1]. destruct (update_sets _ _ _ _ _ G2 U2) as [T2 H2].
      assert (TE : (forall k, in_ty f2 k = in_ty f1 k) /\ (forall k, out_ty f2 k = out_ty f1 k)).
      { destruct (types_eq f1 f2) as [_ [I O]]; auto.
        - rewrite (fr_in _ _ F2), (fr_in _ _ F1). apply (ev_in _ _ E).
        - rewrite (fr_out _ _ F2), (fr_out _ _ F1). apply (ev_out _ _ E). }
      destruct TE as [TI TO].
      assert (UE : forall p, unk f2 p = unk f1 p) by (intro p; unfold unk; rewrite TI, TO; reflexivity).
      assert (HE : forall p, hf u f2 p = hf u f1 p) by (intro p; unfold hf; rewrite TI, TO; reflexivity).
      constructor.
      + rewrite (fr_in _ _ F2), (fr_in _ _ F1). apply (ev_in _ _ E).
      + rewrite (fr_out _ _ F2), (fr_out _ _ F1). apply (ev_out _ _ E).
      + rewrite (fr_st _ _ F2), (fr_st _ _ F1). apply (ev_st _ _ E).
      + symmetry; exact NE.
      + rewrite (fr_data _ _ F2), (fr_data _ _ F1). apply (ev_data _ _ E).
      + rewrite (fr_ctrl _ _ F2), (fr_ctrl _ _ F1). apply (ev_ctrl _ _ E).
      + rewrite (fr_branches _ _ F2), (fr_branches _ _ F1). apply (ev_branches _ _ E).
      + rewrite (fr_hs _ _ F2), (fr_hs _ _ F1). apply (ev_hs _ _ E).
      + rewrite (fr_he _ _ F2), (fr_he _ _ F1). apply (ev_he _ _ E).
      + rewrite (fr_err _ _ F2), (fr_err _ _ F1). apply (ev_err _ _ E).
      + rewrite (fr_compiled _ _ F2), (fr_compiled _ _ F1). apply (ev_compiled _ _ E).
      + intro p. rewrite T1, T2, UE. pose proof (ev_tvm _ _ E p). tauto.
      + intro x. rewrite H1, H2. pose proof (ev_hedge _ _ E x) as HH. split.
        * intros [Hx|[p [Hp Hx]]]; [left; tauto|]. right. exists p. rewrite HE. split; [apply (ev_tvm _ _ E); exact Hp | exact Hx].
        * intros [Hx|[p [Hp Hx]]]; [left; tauto|]. right. exists p. rewrite HE in Hx. split; [apply (ev_tvm _ _ E); exact Hp | exact Hx].
    - (* run 1 succeeds, run 2 fails *)
      destruct (update_fail u t (g_tvm st2) st2 _ _ _ st2 (proj1 G2) P2 (newa_refl t st2) G2 P2 (incl_refl _) U2) as [p [Hp B]].
      eapply update_bad_not_ok; [exact G1 | | | exact U1].
      + apply (ev_tvm _ _ E). exact Hp.
      + apply (eqv_bad_entry st2 st1 p (eqv_sym _ _ E) B).
    - (* run 1 fails, run 2 succeeds *)
      destruct (update_fail u t (g_tvm st1) st1 _ _ _ st1 (proj1 G1) P1 (newa_refl t st1) G1 P1 (incl_refl _) U1) as [p [Hp B]].
      eapply update_bad_not_ok; [exact G2 | | | exact U2].
      + apply (ev_tvm _ _ E). exact Hp.
      + apply (eqv_bad_entry st1 st2 p E B).
  Qed.
End O3.

(* ==================================================================== Part 4: the calls *)

Lemma frame_has_node : forall a b k, frame a b -> has_node b k = has_node a k.
Proof.
  intros a b k F. pose proof (fr_keys _ _ F) as K. unfold has_node, get_node.
  assert (Q : forall (l l' : list (key * node)), map fst l' = map fst l ->
              match nlist_get k l' with Some _ => true | None => false end =
              match nlist_get k l with Some _ => true | None => false end).
  { induction l as [|[k0 n0] l IH]; intros [|[k1 n1] l'] E; simpl in *; try discriminate; [reflexivity|].
    injection E as E1 E2. subst k1. destruct (N.eqb k k0); [reflexivity | apply IH; exact E2]. }
  apply Q; exact K.
Qed.

Lemma has_node_false_notin : forall st k, has_node st k = false -> ~ In k (map fst (g_nodes st)).
Proof.
  intros st k H. unfold has_node, get_node in H. induction (g_nodes st) as [|[k0 n0] l IH]; simpl; [tauto|].
  simpl in H. destruct (N.eqb_spec k k0) as [E|E]; [discriminate|].
  intros [Q|Q]; [congruence | apply IH; assumption].
Qed.

Section O4.
  Variable u : univ.

  Definition keys_ok (st : gstate) : Prop := NoDup (map fst (g_nodes st)).

  (* appending one entry to a quiet pending list: a single source type *)
  Lemma preT_append : forall st s e, quiet st -> exists t, preT t (g_tvm st ++ [(s, e)]) st.
  Proof.
    intros st s e Q.
    assert (OLD : forall t p, In p (g_tvm st) ->
      (forall c, out_ty st (fst p) = Some c -> in_ty st (snd p) = None -> c = t) /\
      (forall c, out_ty st (fst p) = None -> in_ty st (snd p) = Some c -> c = t)).
    { intros t p Hp. specialize (Q p Hp). unfold unk in Q.
      destruct (out_ty st (fst p)); [discriminate|]. destruct (in_ty st (snd p)); [discriminate|].
      split; intros c A B; discriminate. }
    destruct (out_ty st s) as [ta|] eqn:Oa; destruct (in_ty st e) as [tb|] eqn:Ib.
    - exists TAny. intros p Hp. apply in_app_or in Hp. destruct Hp as [Hp|[Hp|[]]]; [apply OLD; exact Hp|].
      subst p; simpl. rewrite Oa, Ib. split; intros c A B; discriminate.
    - exists ta. intros p Hp. apply in_app_or in Hp. destruct Hp as [Hp|[Hp|[]]]; [apply OLD; exact Hp|].
      subst p; simpl. rewrite Oa, Ib. split; intros c A B; [congruence | discriminate].
    - exists tb. intros p Hp. apply in_app_or in Hp. destruct Hp as [Hp|[Hp|[]]]; [apply OLD; exact Hp|].
      subst p; simpl. rewrite Oa, Ib. split; intros c A B; [discriminate | congruence].
    - exists TAny. intros p Hp. apply in_app_or in Hp. destruct Hp as [Hp|[Hp|[]]]; [apply OLD; exact Hp|].
      subst p; simpl. rewrite Oa, Ib. split; intros c A B; discriminate.
  Qed.

  Lemma preT_append_known : forall st s e a,
    quiet st -> out_ty st s = Some a -> preT a (g_tvm st ++ [(s, e)]) st.
  Proof.
    intros st s e a Q Oa p Hp. apply in_app_or in Hp. destruct Hp as [Hp|[Hp|[]]].
    - specialize (Q p Hp). unfold unk in Q.
      destruct (out_ty st (fst p)); [discriminate|]. destruct (in_ty st (snd p)); [discriminate|].
      split; intros c A B; discriminate.
    - subst p; simpl. rewrite Oa. split; intros c A B; [congruence | discriminate].
  Qed.

  Lemma quiet_of_update : forall fuel orc n st st',
    good st -> update u fuel orc n st = UOk st' -> quiet st'.
  Proof.
    intros fuel orc n st st' G H p Hp. destruct (update_spec u _ _ _ _ _ G H) as [_ [_ [_ [_ Q]]]].
    destruct (Q p Hp) as [Q1 Q2]. unfold unk. rewrite Q1, Q2. reflexivity.
  Qed.

  (* ---------------------------------------------------------------- AddEdge *)

  Lemma add_edge_two : forall orc1 orc2 st1 st2 s e,
    eqv st1 st2 -> inv u st1 -> keys_ok st1 -> (g_err st1 = false -> quiet st1) ->
    snd (add_edge u false orc1 st1 s e) = snd (add_edge u false orc2 st2 s e) /\
    eqv (fst (add_edge u false orc1 st1 s e)) (fst (add_edge u false orc2 st2 s e)) /\
    keys_ok (fst (add_edge u false orc1 st1 s e)) /\
    (g_err (fst (add_edge u false orc1 st1 s e)) = false -> quiet (fst (add_edge u false orc1 st1 s e))).
  Proof.
    intros orc1 orc2 st1 st2 s e E I ND Q. unfold add_edge.
    rewrite (ev_err _ _ E), (ev_compiled _ _ E), !(eqv_has_node st1 st2 _ E), (ev_ctrl _ _ E).
    assert (ERR : eqv (set_err st1) (set_err st2)) by (destruct E; constructor; simpl; auto).
    destruct (g_err st1) eqn:GE; [simpl; split; [reflexivity|]; split; [exact E|]; split; [exact ND|]; intro; congruence|].
    specialize (Q eq_refl).
    destruct (g_compiled st1); [simpl; split; [reflexivity|]; split; [exact E|]; split; [exact ND|]; intros _; exact Q|].
    destruct (N.eqb s kEND); [simpl; split; [reflexivity|]; split; [exact ERR|]; split; [exact ND|]; discriminate|].
    destruct (N.eqb e kSTART); [simpl; split; [reflexivity|]; split; [exact ERR|]; split; [exact ND|]; discriminate|].
    destruct (negb (has_node st1 s) && negb (N.eqb s kSTART)) eqn:Hs; [simpl; split; [reflexivity|]; split; [exact ERR|]; split; [exact ND|]; discriminate|].
    destruct (negb (has_node st1 e) && negb (N.eqb e kEND)) eqn:He; [simpl; split; [reflexivity|]; split; [exact ERR|]; split; [exact ND|]; discriminate|].
    destruct (mem_pair (s, e) (g_ctrl st1)); [simpl; split; [reflexivity|]; split; [exact ERR|]; split; [exact ND|]; discriminate|].
    apply has_or in Hs. apply has_or in He.
    set (m1 := mark_ends (set_ctrl st1 (g_ctrl st1 ++ [(s, e)])) s e).
    set (m2 := mark_ends (set_ctrl st2 (g_ctrl st1 ++ [(s, e)])) s e).
    change (g_data m1) with (g_data st1). change (g_data m2) with (g_data st2). rewrite (ev_data _ _ E).
    destruct (mem_pair (s, e) (g_data st1)); [simpl; split; [reflexivity|]; split; [exact ERR|]; split; [exact ND|]; discriminate|].
    set (a1 := set_tvm m1 (g_tvm m1 ++ [(s, e)])). set (a2 := set_tvm m2 (g_tvm m2 ++ [(s, e)])).
    assert (Ea : eqv a1 a2).
    { destruct E; constructor; simpl; auto; try congruence. apply set_eq_app_tail; assumption. }
    assert (SC : same_core st1 m1) by (unfold same_core, m1; simpl; repeat split; reflexivity).
    pose proof (same_core_inv u _ _ SC I) as I1.
    assert (Ga : good a1).
    { split; [exact (inv_nodes _ _ I1)|]. simpl. intros p Hp. apply in_app_or in Hp. destruct Hp as [Hp|[Hp|[]]].
      - apply (inv_tvm _ _ I1 p Hp).
      - subst p. split; simpl; auto. }
    destruct (preT_append st1 s e Q) as [t PT].
    assert (PTa : preT t (g_tvm a1) a1) by exact PT.
    pose proof (update_two u t (S (List.length (g_tvm a1))) (S (List.length (g_tvm a2))) (orc1 0%nat) (orc2 0%nat)
                           0 0 a1 a2 Ea Ga ND PTa (Nat.lt_succ_diag_r _) (Nat.lt_succ_diag_r _)) as UT.
    unfold update_sel, update_tvm.
    destruct (update u (S (List.length (g_tvm a1))) (orc1 0%nat) 0 a1) as [f1| |] eqn:U1;
      destruct (update u (S (List.length (g_tvm a2))) (orc2 0%nat) 0 a2) as [f2| |] eqn:U2; try contradiction.
    - simpl. split; [reflexivity|]. split; [|split].
      + destruct UT; constructor; simpl; auto. congruence.
      + unfold keys_ok. simpl. rewrite (fr_keys _ _ (update_frame u _ _ _ _ _ U1)). exact ND.
      + intros _. exact (quiet_of_update _ _ _ _ _ Ga U1).
    - simpl. split; [reflexivity|]. split; [exact ERR|]. split; [exact ND|]. discriminate.
  Qed.

  (* ---------------------------------------------------------------- AddBranch, first part *)

  Lemma preT_typed_node : forall st s t,
    quiet st -> has_node st s = true -> s <> kSTART -> s <> kEND ->
    preT t (g_tvm st) (set_pass_ty st s t).
  Proof.
    intros st s t Q Hn A B p Hp. specialize (Q p Hp). unfold unk in Q.
    destruct (out_ty st (fst p)) eqn:O; [discriminate|]. destruct (in_ty st (snd p)) eqn:I; [discriminate|].
    destruct (set_pass_ty_types st s t Hn A B) as [T1 T2]. split.
    - intros c Ho Hi. destruct (N.eqb_spec (fst p) s) as [E1|E1]; [rewrite E1, T2 in Ho; congruence|].
      rewrite out_ty_set_pass_other in Ho by exact E1. congruence.
    - intros c Ho Hi. destruct (N.eqb_spec (snd p) s) as [E2|E2]; [rewrite E2, T1 in Hi; congruence|].
      rewrite in_ty_set_pass_other in Hi by exact E2. congruence.
  Qed.

  Lemma is_pass_has_node : forall st s, is_pass st s = true -> has_node st s = true.
  Proof. intros st s H. unfold is_pass in H. unfold has_node. destruct (get_node st s); [reflexivity | discriminate]. Qed.

  Lemma branch_pre_two : forall orc1 orc2 st1 st2 s t,
    eqv st1 st2 -> good st1 -> keys_ok st1 -> quiet st1 -> s <> kEND ->
    match branch_pre u false false false orc1 st1 s t, branch_pre u false false false orc2 st2 s t with
    | UOk f1, UOk f2 => eqv f1 f2 /\ quiet f1 /\ ext st1 f1 /\ good f1 /\ keys_ok f1
    | UFail, UFail => True
    | _, _ => False
    end.
  Proof.
    intros orc1 orc2 st1 st2 s t E G ND Q SE. unfold branch_pre.
    destruct (eqv_types st1 st2 E) as [GN [TI TO]].
    assert (IP : is_pass st2 s = is_pass st1 s) by (unfold is_pass; rewrite GN; reflexivity).
    rewrite IP, TO.
    destruct (negb (N.eqb s kSTART) && is_pass st1 s &&
              (false || match out_ty st1 s with None => true | Some _ => false end)) eqn:C.
    - apply andb_true_iff in C. destruct C as [C C3]. apply andb_true_iff in C. destruct C as [C1 C2].
      apply negb_true_iff in C1. apply N.eqb_neq in C1. simpl in C3.
      destruct (out_ty st1 s) eqn:O; [discriminate|].
      pose proof (is_pass_has_node _ _ C2) as Hn.
      pose proof (out_none_in_none st1 s (proj1 G) O) as Is.
      pose proof (set_pass_ty_ext st1 s t (proj1 G) Is) as X0.
      set (a1 := set_pass_ty st1 s t). set (a2 := set_pass_ty st2 s t).
      assert (Ea : eqv a1 a2).
      { destruct E; constructor; simpl; auto. congruence. }
      assert (Ga : good a1).
      { split; [apply set_pass_ty_nodes_ok; [exact (proj1 G) | exact Is]|].
        intros p Hp. eapply ext_ends_ok; [exact X0|]. apply (proj2 G). exact Hp. }
      assert (NDa : keys_ok a1).
      { unfold keys_ok, a1. simpl. rewrite map_fst_map_node. exact ND. }
      assert (PT : preT t (g_tvm a1) a1) by exact (preT_typed_node st1 s t Q Hn C1 SE).
      pose proof (update_two u t (S (List.length (g_tvm a1))) (S (List.length (g_tvm a2)))
                             (fun n => orc1 n) (fun n => orc2 n)
                             0 0 a1 a2 Ea Ga NDa PT (Nat.lt_succ_diag_r _) (Nat.lt_succ_diag_r _)) as UT.
      unfold update_sel, update_tvm.
      destruct (update u (S (List.length (g_tvm a1))) (fun n => orc1 n) 0 a1) as [f1| |] eqn:U1;
        destruct (update u (S (List.length (g_tvm a2))) (fun n => orc2 n) 0 a2) as [f2| |] eqn:U2; try contradiction; [|exact I].
      destruct (update_spec u _ _ _ _ _ Ga U1) as [X1 [Gf _]].
      split; [exact UT|]. split; [exact (quiet_of_update _ _ _ _ _ Ga U1)|].
      split; [eapply ext_trans; eauto|]. split; [exact Gf|].
      unfold keys_ok. rewrite (fr_keys _ _ (update_frame u _ _ _ _ _ U1)). exact NDa.
    - split; [exact E|]. split; [exact Q|]. split; [apply ext_refl|]. split; [exact G | exact ND].
  Qed.
End O4.

(* ==================================================================== Part 5: the loop over branch.endNodes *)

Section O5.
  Variable u : univ.

  Lemma hf_in_both : forall st p x, In x (hf u st p) -> both st p.
  Proof.
    intros st p x H. unfold hf in H. destruct (out_ty st (fst p)) as [a|] eqn:A; [|destruct H].
    destruct (in_ty st (snd p)) as [b|] eqn:B; [|destruct H]. split; eauto.
  Qed.

  (* what the calls [addToValidateMap(s, e); updateToValidateMap()] for the end nodes [l]
     did to the state *)
  Record befacts (a : ty) (s : key) (l : list key) (st f : gstate) : Prop := {
    bf_ext : ext st f;
    bf_good : good f;
    bf_quiet : quiet f;
    bf_newa : newa a st f;
    bf_in : g_in f = g_in st; bf_out : g_out f = g_out st; bf_st : g_st f = g_st st;
    bf_data : g_data f = g_data st; bf_ctrl : g_ctrl f = g_ctrl st; bf_branches : g_branches f = g_branches st;
    bf_err : g_err f = g_err st; bf_compiled : g_compiled f = g_compiled st;
    bf_keys : map fst (g_nodes f) = map fst (g_nodes st);
    bf_hs : g_has_start f = g_has_start st || (match l with [] => false | _ => N.eqb s kSTART end);
    bf_he : g_has_end f = g_has_end st || existsb (fun e => N.eqb e kEND) l;
    bf_tvm : forall p, In p (g_tvm f) <-> In p (g_tvm st ++ map (pair s) l) /\ unk f p = true;
    bf_hedge : forall x, In x (g_hedge f) <->
                 In x (g_hedge st) \/ exists p, In p (g_tvm st ++ map (pair s) l) /\ In x (hf u f p);
    bf_closed : forall p, In p (g_tvm st ++ map (pair s) l) -> closed f p;
    bf_dom : forall r, nodes_ok r -> dom st r ->
               (forall p, In p (g_tvm st ++ map (pair s) l) -> closed r p) -> dom f r
  }.

  Lemma befacts_nil : forall a s st, good st -> quiet st -> befacts a s [] st st.
  Proof.
    intros a s st G Q. constructor; try reflexivity; auto.
    - apply ext_refl.
    - apply newa_refl.
    - rewrite orb_false_r; reflexivity.
    - simpl. rewrite orb_false_r; reflexivity.
    - intro p. simpl. rewrite app_nil_r. split; [intro H; split; [exact H | apply Q; exact H] | tauto].
    - intro x. simpl. rewrite app_nil_r. split; [tauto|]. intros [H|[p [Hp Hx]]]; [exact H|].
      exfalso. rewrite (hf_unk u st p (Q p Hp)) in Hx. destruct Hx.
    - intros p Hp. simpl in Hp. rewrite app_nil_r in Hp. left. apply Q; exact Hp.
  Qed.

  Lemma befacts_trans : forall a s l1 l2 st mid f,
    befacts a s l1 st mid -> befacts a s l2 mid f -> befacts a s (l1 ++ l2) st f.
  Proof.
    intros a s l1 l2 st mid f A B.
    assert (SUB : forall p, In p (g_tvm mid) -> In p (g_tvm st ++ map (pair s) l1)).
    { intros p Hp. apply (bf_tvm _ _ _ _ _ A) in Hp. tauto. }
    constructor.
    - eapply ext_trans; [apply (bf_ext _ _ _ _ _ A) | apply (bf_ext _ _ _ _ _ B)].
    - apply (bf_good _ _ _ _ _ B).
    - apply (bf_quiet _ _ _ _ _ B).
    - eapply newa_trans; [apply (bf_newa _ _ _ _ _ A) | apply (bf_newa _ _ _ _ _ B)].
    - rewrite (bf_in _ _ _ _ _ B); apply (bf_in _ _ _ _ _ A).
    - rewrite (bf_out _ _ _ _ _ B); apply (bf_out _ _ _ _ _ A).
    - rewrite (bf_st _ _ _ _ _ B); apply (bf_st _ _ _ _ _ A).
    - rewrite (bf_data _ _ _ _ _ B); apply (bf_data _ _ _ _ _ A).
    - rewrite (bf_ctrl _ _ _ _ _ B); apply (bf_ctrl _ _ _ _ _ A).
    - rewrite (bf_branches _ _ _ _ _ B); apply (bf_branches _ _ _ _ _ A).
    - rewrite (bf_err _ _ _ _ _ B); apply (bf_err _ _ _ _ _ A).
    - rewrite (bf_compiled _ _ _ _ _ B); apply (bf_compiled _ _ _ _ _ A).
    - rewrite (bf_keys _ _ _ _ _ B); apply (bf_keys _ _ _ _ _ A).
    - rewrite (bf_hs _ _ _ _ _ B), (bf_hs _ _ _ _ _ A).
      destruct l1; destruct l2; simpl; destruct (g_has_start st); destruct (N.eqb s kSTART); reflexivity.
    - rewrite (bf_he _ _ _ _ _ B), (bf_he _ _ _ _ _ A). rewrite existsb_app. rewrite orb_assoc. reflexivity.
    - intro p. rewrite map_app. rewrite (bf_tvm _ _ _ _ _ B p). rewrite !in_app_iff. split.
      + intros [[Hp|Hp] U]; split; auto. apply SUB in Hp. apply in_app_or in Hp. tauto.
      + intros [[Hp|[Hp|Hp]] U]; split; auto.
        * left. apply (bf_tvm _ _ _ _ _ A). split; [apply in_or_app; left; exact Hp|].
          eapply unk_ext; [apply (bf_ext _ _ _ _ _ B) | exact U].
        * left. apply (bf_tvm _ _ _ _ _ A). split; [apply in_or_app; right; exact Hp|].
          eapply unk_ext; [apply (bf_ext _ _ _ _ _ B) | exact U].
    - intro x. rewrite map_app. rewrite (bf_hedge _ _ _ _ _ B x). split.
      + intros [Hx|[p [Hp Hx]]].
        * apply (bf_hedge _ _ _ _ _ A) in Hx. destruct Hx as [Hx|[p [Hp Hx]]]; [left; exact Hx|].
          right. exists p. split; [rewrite app_assoc; apply in_or_app; left; exact Hp|].
          rewrite (hf_ext u mid f p (bf_ext _ _ _ _ _ B) (hf_in_both _ _ _ Hx)). exact Hx.
        * right. exists p. split; [|exact Hx]. rewrite app_assoc. apply in_app_or in Hp. apply in_or_app.
          destruct Hp as [Hp|Hp]; [left; apply SUB; exact Hp | right; exact Hp].
      + intros [Hx|[p [Hp Hx]]].
        * left. apply (bf_hedge _ _ _ _ _ A). left; exact Hx.
        * rewrite app_assoc in Hp. apply in_app_or in Hp. destruct Hp as [Hp|Hp].
          -- destruct (bf_closed _ _ _ _ _ A p Hp) as [U|Bo].
             ++ right. exists p. split; [|exact Hx]. apply in_or_app. left. apply (bf_tvm _ _ _ _ _ A). split; assumption.
             ++ left. apply (bf_hedge _ _ _ _ _ A). right. exists p. split; [exact Hp|].
                rewrite <- (hf_ext u mid f p (bf_ext _ _ _ _ _ B) Bo). exact Hx.
          -- right. exists p. split; [apply in_or_app; right; exact Hp | exact Hx].
    - intros p Hp. rewrite map_app, app_assoc in Hp. apply in_app_or in Hp. destruct Hp as [Hp|Hp].
      + destruct (bf_closed _ _ _ _ _ A p Hp) as [U|Bo].
        * apply (bf_closed _ _ _ _ _ B). apply in_or_app. left. apply (bf_tvm _ _ _ _ _ A). split; assumption.
        * right. eapply both_ext; [apply (bf_ext _ _ _ _ _ B) | exact Bo].
      + apply (bf_closed _ _ _ _ _ B). apply in_or_app. right; exact Hp.
    - intros r NR D C. apply (bf_dom _ _ _ _ _ B r NR).
      + apply (bf_dom _ _ _ _ _ A r NR D). intros p Hp. apply C. rewrite map_app, app_assoc. apply in_or_app. left; exact Hp.
      + intros p Hp. apply C. rewrite map_app, app_assoc. apply in_app_or in Hp. apply in_or_app.
        destruct Hp as [Hp|Hp]; [left; apply SUB; exact Hp | right; exact Hp].
  Qed.

  (* one end node *)
  Lemma befacts_stage : forall a s e orc st st1,
    good st -> quiet st -> out_ty st s = Some a -> (has_node st s = true \/ s = kSTART) ->
    (has_node st e = true \/ e = kEND) ->
    update_tvm u orc (set_tvm st (g_tvm st ++ [(s, e)])) = UOk st1 ->
    befacts a s [e] st (mark_ends st1 s e).
  Proof.
    intros a s e orc st st1 G Q Oa Hs He U.
    set (sta := set_tvm st (g_tvm st ++ [(s, e)])) in *.
    assert (Ga : good sta).
    { split; [exact (proj1 G)|]. unfold sta; simpl. intros p Hp. apply in_app_or in Hp.
      destruct Hp as [Hp|[Hp|[]]]; [apply (proj2 G p Hp)|]. subst p. split; simpl; auto. }
    assert (PT : preT a (g_tvm sta) sta) by exact (preT_append_known st s e a Q Oa).
    unfold update_tvm in U.
    destruct (update_spec u _ _ _ _ _ Ga U) as [X1 [G1 _]].
    destruct (update_newa u a (g_tvm sta) _ _ _ _ _ Ga PT (incl_refl _) U) as [N1 _].
    pose proof (update_frame u _ _ _ _ _ U) as F1.
    destruct (update_sets u _ _ _ _ _ Ga U) as [T1 H1].
    pose proof (quiet_of_update u _ _ _ _ _ Ga U) as Q1.
    assert (SC : same_core st1 (mark_ends st1 s e)) by (unfold same_core; simpl; repeat split; reflexivity).
    constructor.
    - eapply ext_trans; [apply ext_set_tvm|]. eapply ext_trans; [exact X1 | apply same_core_ext; exact SC].
    - eapply good_same_core; [exact SC | exact G1].
    - exact Q1.
    - eapply newa_trans; [apply (newa_same_nodes a st sta); reflexivity|].
      eapply newa_trans; [exact N1 | apply newa_same_nodes; reflexivity].
    - apply (fr_in _ _ F1).
    - apply (fr_out _ _ F1).
    - apply (fr_st _ _ F1).
    - apply (fr_data _ _ F1).
    - apply (fr_ctrl _ _ F1).
    - apply (fr_branches _ _ F1).
    - apply (fr_err _ _ F1).
    - apply (fr_compiled _ _ F1).
    - apply (fr_keys _ _ F1).
    - simpl. rewrite (fr_hs _ _ F1). reflexivity.
    - simpl. rewrite (fr_he _ _ F1). rewrite orb_false_r. reflexivity.
    - exact T1.
    - exact H1.
    - intros p Hp. exact (update_closed u _ _ _ _ _ Ga U p Hp).
    - intros r NR D C. change (dom st1 r). eapply update_dom; [exact Ga | exact NR | exact D | exact C | exact U].
  Qed.

  Lemma branch_ends_facts : forall a s l orc j st f,
    good st -> quiet st -> out_ty st s = Some a -> (has_node st s = true \/ s = kSTART) ->
    branch_ends u false orc j st s l = Some f -> befacts a s l st f.
  Proof.
    intros a s. induction l as [|e rest IH]; intros orc j st f G Q Oa Hs H; simpl in H.
    - inversion H; subst. apply befacts_nil; assumption.
    - destruct (negb (has_node st e) && negb (N.eqb e kEND)) eqn:He; [discriminate|]. apply has_or in He.
      unfold update_sel in H.
      destruct (update_tvm u (orc (S j)) (set_tvm st (g_tvm st ++ [(s, e)]))) as [st1| |] eqn:U; [|discriminate|discriminate].
      pose proof (befacts_stage a s e _ st st1 G Q Oa Hs He U) as S1.
      change (e :: rest) with ([e] ++ rest). eapply befacts_trans; [exact S1|].
      eapply IH; [apply (bf_good _ _ _ _ _ S1) | apply (bf_quiet _ _ _ _ _ S1) | | | exact H].
      + eapply ext_out_ty; [apply (bf_ext _ _ _ _ _ S1) | exact Oa].
      + destruct Hs as [Hs|Hs]; [left; eapply ext_has_node; [apply (bf_ext _ _ _ _ _ S1) | exact Hs] | right; exact Hs].
  Qed.
End O5.

(* ==================================================================== Part 6: AddBranch, AddNode, Compile, sequences *)

Lemma keys_has_node : forall a b k, map fst (g_nodes b) = map fst (g_nodes a) -> has_node b k = has_node a k.
Proof.
  intros a b k K. unfold has_node, get_node.
  assert (Q : forall (l l' : list (key * node)), map fst l' = map fst l ->
              match nlist_get k l' with Some _ => true | None => false end =
              match nlist_get k l with Some _ => true | None => false end).
  { induction l as [|[k0 n0] l IH]; intros [|[k1 n1] l'] E; simpl in *; try discriminate; [reflexivity|].
    injection E as E1 E2. subst k1. destruct (N.eqb k k0); [reflexivity | apply IH; exact E2]. }
  apply Q; exact K.
Qed.

Lemma existsb_set_eq : forall (A : Type) (f : A -> bool) (l l' : list A),
  set_eq l l' -> existsb f l = existsb f l'.
Proof.
  intros A f l l' H. destruct (existsb f l) eqn:E1; destruct (existsb f l') eqn:E2; try reflexivity.
  - apply existsb_exists in E1. destruct E1 as [x [Hx Fx]]. apply H in Hx.
    assert (existsb f l' = true) by (apply existsb_exists; exists x; auto). congruence.
  - apply existsb_exists in E2. destruct E2 as [x [Hx Fx]]. apply H in Hx.
    assert (existsb f l = true) by (apply existsb_exists; exists x; auto). congruence.
Qed.

Section O6.
  Variable u : univ.

  Lemma bad_entry_ext : forall st st' p, ext st st' -> bad_entry u st p -> bad_entry u st' p.
  Proof.
    intros st st' p X [ta [tb [A [B C]]]]. exists ta, tb.
    split; [eapply ext_out_ty; eauto|]. split; [eapply ext_in_ty; eauto | exact C].
  Qed.

  Definition end_bad (st : gstate) (s e : key) : Prop :=
    (has_node st e = false /\ e <> kEND) \/ bad_entry u st (s, e).

  Lemma branch_ends_none : forall a s l orc j st,
    good st -> quiet st -> out_ty st s = Some a -> (has_node st s = true \/ s = kSTART) ->
    branch_ends u false orc j st s l = None -> exists e, In e l /\ end_bad st s e.
  Proof.
    intros a s. induction l as [|e rest IH]; intros orc j st G Q Oa Hs H; simpl in H; [discriminate|].
    destruct (negb (has_node st e) && negb (N.eqb e kEND)) eqn:He.
    - exists e. split; [left; reflexivity|]. left. apply andb_true_iff in He. destruct He as [A B].
      apply negb_true_iff in A. apply negb_true_iff in B. apply N.eqb_neq in B. auto.
    - apply has_or in He. unfold update_sel in H.
      set (sta := set_tvm st (g_tvm st ++ [(s, e)])) in *.
      assert (Ga : good sta).
      { split; [exact (proj1 G)|]. unfold sta; simpl. intros p Hp. apply in_app_or in Hp.
        destruct Hp as [Hp|[Hp|[]]]; [apply (proj2 G p Hp)|]. subst p. split; simpl; auto. }
      assert (PT : preT a (g_tvm sta) sta) by exact (preT_append_known st s e a Q Oa).
      destruct (update_tvm u (orc (S j)) sta) as [st1| |] eqn:U.
      + pose proof (befacts_stage u a s e _ st st1 G Q Oa Hs He U) as S1.
        destruct (IH orc (S j) (mark_ends st1 s e)) as [e' [He' B]]; auto.
        * apply (bf_good _ _ _ _ _ _ S1).
        * apply (bf_quiet _ _ _ _ _ _ S1).
        * eapply ext_out_ty; [apply (bf_ext _ _ _ _ _ _ S1) | exact Oa].
        * destruct Hs as [Hs|Hs]; [left; eapply ext_has_node; [apply (bf_ext _ _ _ _ _ _ S1) | exact Hs] | right; exact Hs].
        * exists e'. split; [right; exact He'|]. destruct B as [[M1 M2]|[ta [tb [A1 [A2 A3]]]]].
          -- left. rewrite (keys_has_node st _ e' (bf_keys _ _ _ _ _ _ S1)) in M1. auto.
          -- right.
             assert (P0 : preT a [(s, e')] st).
             { intros p [Hp|[]]. subst p. simpl. rewrite Oa. split; intros c X Y; [congruence | discriminate]. }
             destruct (mustnot_back u a [(s, e')] st _ (s, e') ta tb (proj1 G) (bf_newa _ _ _ _ _ _ S1) P0
                                    (or_introl eq_refl) A1 A2 A3) as [B1 B2].
             exists ta, tb. auto.
      + exists e. split; [left; reflexivity|]. right. unfold update_tvm in U.
        destruct (update_fail u a (g_tvm sta) sta _ _ _ sta (proj1 Ga) PT (newa_refl a sta) Ga PT (incl_refl _) U) as [p [Hp B]].
        unfold sta in Hp; simpl in Hp. apply in_app_or in Hp. destruct Hp as [Hp|[Hp|[]]].
        * exfalso. destruct B as [ta [tb [A1 _]]]. specialize (Q p Hp). unfold unk in Q.
          change (out_ty st (fst p) = Some ta) in A1. rewrite A1 in Q. discriminate.
        * subst p. exact B.
      + exfalso. apply (update_tvm_fuel u (orc (S j)) sta Ga). exact U.
  Qed.

  Lemma branch_ends_bad : forall s l orc j st f e,
    good st -> (has_node st s = true \/ s = kSTART) -> In e l -> end_bad st s e ->
    branch_ends u false orc j st s l = Some f -> False.
  Proof.
    intros s. induction l as [|e0 rest IH]; intros orc j st f e G Hs Hin B H; simpl in H; [destruct Hin|].
    destruct (negb (has_node st e0) && negb (N.eqb e0 kEND)) eqn:He; [discriminate|]. apply has_or in He.
    unfold update_sel in H.
    set (sta := set_tvm st (g_tvm st ++ [(s, e0)])) in *.
    assert (Ga : good sta).
    { split; [exact (proj1 G)|]. unfold sta; simpl. intros p Hp. apply in_app_or in Hp.
      destruct Hp as [Hp|[Hp|[]]]; [apply (proj2 G p Hp)|]. subst p. split; simpl; auto. }
    destruct (update_tvm u (orc (S j)) sta) as [st1| |] eqn:U; [|discriminate|discriminate].
    unfold update_tvm in U.
    destruct (update_spec u _ _ _ _ _ Ga U) as [X1 [G1 _]].
    destruct Hin as [Hin|Hin].
    - subst e0. destruct B as [[M1 M2]|B].
      + destruct He as [He|He]; congruence.
      + eapply update_bad_not_ok; [exact Ga | | | exact U].
        * unfold sta; simpl. apply in_or_app. right. left. reflexivity.
        * exact B.
    - assert (SC : same_core st1 (mark_ends st1 s e0)) by (unfold same_core; simpl; repeat split; reflexivity).
      assert (X : ext st (mark_ends st1 s e0)).
      { eapply ext_trans; [apply ext_set_tvm|]. eapply ext_trans; [exact X1 | apply same_core_ext; exact SC]. }
      eapply (IH orc (S j) (mark_ends st1 s e0) f e); [eapply good_same_core; eauto | | exact Hin | | exact H].
      + destruct Hs as [Hs|Hs]; [left; eapply ext_has_node; eauto | right; exact Hs].
      + destruct B as [[M1 M2]|B].
        * left. split; [|exact M2].
          rewrite (keys_has_node st (mark_ends st1 s e0) e); [exact M1|].
          simpl. exact (fr_keys _ _ (update_frame u _ _ _ _ _ U)).
        * right. eapply bad_entry_ext; eauto.
  Qed.

  Lemma eqv_end_bad : forall st1 st2 s e, eqv st1 st2 -> end_bad st1 s e -> end_bad st2 s e.
  Proof.
    intros st1 st2 s e E [[A B]|B]; [left | right].
    - rewrite (eqv_has_node st1 st2 e E). auto.
    - eapply eqv_bad_entry; eauto.
  Qed.

  Lemma branch_ends_two : forall a s l1 l2 orc1 orc2 j1 j2 st1 st2,
    eqv st1 st2 -> good st1 -> keys_ok st1 -> quiet st1 -> out_ty st1 s = Some a ->
    (has_node st1 s = true \/ s = kSTART) -> set_eq l1 l2 ->
    match branch_ends u false orc1 j1 st1 s l1, branch_ends u false orc2 j2 st2 s l2 with
    | Some f1, Some f2 => eqv f1 f2 /\ quiet f1 /\ keys_ok f1
    | None, None => True
    | _, _ => False
    end.
  Proof.
    intros a s l1 l2 orc1 orc2 j1 j2 st1 st2 E G1 ND Q1 Oa Hs SE.
    pose proof (eqv_good _ _ E G1) as G2. pose proof (eqv_quiet _ _ E Q1) as Q2.
    destruct (eqv_types st1 st2 E) as [GN [TI TO]].
    assert (Oa2 : out_ty st2 s = Some a) by (rewrite TO; exact Oa).
    assert (Hs2 : has_node st2 s = true \/ s = kSTART) by (rewrite (eqv_has_node st1 st2 s E); exact Hs).
    destruct (branch_ends u false orc1 j1 st1 s l1) as [f1|] eqn:B1;
      destruct (branch_ends u false orc2 j2 st2 s l2) as [f2|] eqn:B2; try exact I.
    - pose proof (branch_ends_facts u a s l1 _ _ _ _ G1 Q1 Oa Hs B1) as F1.
      pose proof (branch_ends_facts u a s l2 _ _ _ _ G2 Q2 Oa2 Hs2 B2) as F2.
      assert (SE' : forall p, In p (g_tvm st1 ++ map (pair s) l1) <-> In p (g_tvm st2 ++ map (pair s) l2)).
      { intro p. rewrite !in_app_iff, !in_map_iff. pose proof (ev_tvm _ _ E p) as T.
        split; (intros [H|[e [He Hi]]]; [left; tauto | right; exists e; split; [exact He | apply SE; exact Hi]]). }
      assert (D12 : dom f1 f2).
      { apply (bf_dom _ _ _ _ _ _ F1 f2 (proj1 (bf_good _ _ _ _ _ _ F2))).
        - apply (dom_eqv_l st2 st1 f2 (eqv_sym _ _ E)). apply dom_of_ext. apply (bf_ext _ _ _ _ _ _ F2).
        - intros p Hp. apply (bf_closed _ _ _ _ _ _ F2). apply SE'. exact Hp. }
      assert (D21 : dom f2 f1).
      { apply (bf_dom _ _ _ _ _ _ F2 f1 (proj1 (bf_good _ _ _ _ _ _ F1))).
        - apply (dom_eqv_l st1 st2 f1 E). apply dom_of_ext. apply (bf_ext _ _ _ _ _ _ F1).
        - intros p Hp. apply (bf_closed _ _ _ _ _ _ F1). apply SE'. exact Hp. }
      assert (NE : g_nodes f1 = g_nodes f2).
      { apply (newa_dom_nodes a st1 st2 f1 f2 (ev_in _ _ E) (ev_out _ _ E) (ev_nodes _ _ E) (proj1 G1) ND
                 (bf_newa _ _ _ _ _ _ F1) (bf_newa _ _ _ _ _ _ F2) (bf_keys _ _ _ _ _ _ F1) (bf_keys _ _ _ _ _ _ F2) D12 D21). }
      assert (TE : (forall k, in_ty f2 k = in_ty f1 k) /\ (forall k, out_ty f2 k = out_ty f1 k)).
      { destruct (types_eq f1 f2) as [_ [I0 O0]]; auto.
        - rewrite (bf_in _ _ _ _ _ _ F2), (bf_in _ _ _ _ _ _ F1). apply (ev_in _ _ E).
        - rewrite (bf_out _ _ _ _ _ _ F2), (bf_out _ _ _ _ _ _ F1). apply (ev_out _ _ E). }
      destruct TE as [TI' TO'].
      assert (UE : forall p, unk f2 p = unk f1 p) by (intro p; unfold unk; rewrite TI', TO'; reflexivity).
      assert (HE : forall p, hf u f2 p = hf u f1 p) by (intro p; unfold hf; rewrite TI', TO'; reflexivity).
      split; [|split; [apply (bf_quiet _ _ _ _ _ _ F1) | unfold keys_ok; rewrite (bf_keys _ _ _ _ _ _ F1); exact ND]].
      constructor.
      + rewrite (bf_in _ _ _ _ _ _ F2), (bf_in _ _ _ _ _ _ F1). apply (ev_in _ _ E).
      + rewrite (bf_out _ _ _ _ _ _ F2), (bf_out _ _ _ _ _ _ F1). apply (ev_out _ _ E).
      + rewrite (bf_st _ _ _ _ _ _ F2), (bf_st _ _ _ _ _ _ F1). apply (ev_st _ _ E).
      + symmetry; exact NE.
      + rewrite (bf_data _ _ _ _ _ _ F2), (bf_data _ _ _ _ _ _ F1). apply (ev_data _ _ E).
      + rewrite (bf_ctrl _ _ _ _ _ _ F2), (bf_ctrl _ _ _ _ _ _ F1). apply (ev_ctrl _ _ E).
      + rewrite (bf_branches _ _ _ _ _ _ F2), (bf_branches _ _ _ _ _ _ F1). apply (ev_branches _ _ E).
      + rewrite (bf_hs _ _ _ _ _ _ F2), (bf_hs _ _ _ _ _ _ F1), (ev_hs _ _ E).
        destruct l1 as [|x1 l1]; destruct l2 as [|x2 l2]; try reflexivity.
        * exfalso. apply (SE x2). left; reflexivity.
        * exfalso. apply (SE x1). left; reflexivity.
      + rewrite (bf_he _ _ _ _ _ _ F2), (bf_he _ _ _ _ _ _ F1), (ev_he _ _ E).
        rewrite (existsb_set_eq _ _ l1 l2 SE). reflexivity.
      + rewrite (bf_err _ _ _ _ _ _ F2), (bf_err _ _ _ _ _ _ F1). apply (ev_err _ _ E).
      + rewrite (bf_compiled _ _ _ _ _ _ F2), (bf_compiled _ _ _ _ _ _ F1). apply (ev_compiled _ _ E).
      + intro p. rewrite (bf_tvm _ _ _ _ _ _ F1 p), (bf_tvm _ _ _ _ _ _ F2 p), UE, (SE' p). tauto.
      + intro x. rewrite (bf_hedge _ _ _ _ _ _ F1 x), (bf_hedge _ _ _ _ _ _ F2 x). pose proof (ev_hedge _ _ E x) as HH. split.
        * intros [Hx|[p [Hp Hx]]]; [left; tauto|]. right. exists p. rewrite HE. split; [apply SE'; exact Hp | exact Hx].
        * intros [Hx|[p [Hp Hx]]]; [left; tauto|]. right. exists p. rewrite HE in Hx. split; [apply SE'; exact Hp | exact Hx].
    - destruct (branch_ends_none a s l2 _ _ _ G2 Q2 Oa2 Hs2 B2) as [e [He B]].
      eapply (branch_ends_bad s l1 orc1 j1 st1 f1 e G1 Hs); [apply SE; exact He | | exact B1].
      apply (eqv_end_bad st2 st1 s e (eqv_sym _ _ E) B).
    - destruct (branch_ends_none a s l1 _ _ _ G1 Q1 Oa Hs B1) as [e [He B]].
      eapply (branch_ends_bad s l2 orc2 j2 st2 f2 e G2 Hs2); [apply SE; exact He | | exact B2].
      apply (eqv_end_bad st1 st2 s e E B).
  Qed.
End O6.

Section O7.
  Variable u : univ.

  (* ---------------------------------------------------------------- AddBranch *)

  Lemma add_branch_two : forall orc1 orc2 st1 st2 s t ends choice,
    eqv st1 st2 -> inv u st1 -> keys_ok st1 -> (g_err st1 = false -> quiet st1) ->
    snd (add_branch u false false false orc1 st1 s t ends choice) =
    snd (add_branch u false false false orc2 st2 s t ends choice) /\
    eqv (fst (add_branch u false false false orc1 st1 s t ends choice))
        (fst (add_branch u false false false orc2 st2 s t ends choice)) /\
    keys_ok (fst (add_branch u false false false orc1 st1 s t ends choice)) /\
    (g_err (fst (add_branch u false false false orc1 st1 s t ends choice)) = false ->
     quiet (fst (add_branch u false false false orc1 st1 s t ends choice))).
  Proof.
    intros orc1 orc2 st1 st2 s t ends choice E I ND Q. unfold add_branch.
    rewrite (ev_err _ _ E), (ev_compiled _ _ E), (eqv_has_node st1 st2 _ E).
    assert (ERR : eqv (set_err st1) (set_err st2)) by (destruct E; constructor; simpl; auto).
    destruct (g_err st1) eqn:GE; [simpl; split; [reflexivity|]; split; [exact E|]; split; [exact ND|]; intro; congruence|].
    specialize (Q eq_refl).
    destruct (g_compiled st1); [simpl; split; [reflexivity|]; split; [exact E|]; split; [exact ND|]; intros _; exact Q|].
    destruct (N.eqb_spec s kEND) as [SE|SE]; [simpl; split; [reflexivity|]; split; [exact ERR|]; split; [exact ND|]; discriminate|].
    destruct (negb (has_node st1 s) && negb (N.eqb s kSTART)) eqn:Hs; [simpl; split; [reflexivity|]; split; [exact ERR|]; split; [exact ND|]; discriminate|].
    destruct (Nat.eqb (List.length ends) 1); [simpl; split; [reflexivity|]; split; [exact ERR|]; split; [exact ND|]; discriminate|].
    apply has_or in Hs.
    pose proof (branch_pre_two u (fun n => orc1 0%nat (S n)) (fun n => orc2 0%nat (S n)) st1 st2 s t E (inv_good u _ I) ND Q SE) as BP.
    destruct (branch_pre u false false false (fun n => orc1 0%nat (S n)) st1 s t) as [p1| |] eqn:B1;
      destruct (branch_pre u false false false (fun n => orc2 0%nat (S n)) st2 s t) as [p2| |] eqn:B2; try contradiction;
      [|simpl; split; [reflexivity|]; split; [exact ERR|]; split; [exact ND|]; discriminate].
    destruct BP as [Ep [Qp [Xp [Gp NDp]]]].
    destruct (eqv_types p1 p2 Ep) as [_ [_ TO]]. rewrite TO.
    destruct (out_ty p1 s) as [a|] eqn:Oa;
      [|rewrite check_none_l; simpl; split; [reflexivity|]; split; [exact ERR|]; split; [exact ND|]; discriminate].
    assert (Hsp : has_node p1 s = true \/ s = kSTART).
    { destruct Hs as [Hs|Hs]; [left; eapply ext_has_node; eauto | right; exact Hs]. }
    assert (SEQ : set_eq (order_keys (orc1 0%nat 0%nat) ends) (order_keys (orc2 0%nat 0%nat) ends)).
    { intro x. rewrite !In_order_keys. tauto. }
    pose proof (branch_ends_two u a s _ _ orc1 orc2 0%nat 0%nat p1 p2 Ep Gp NDp Qp Oa Hsp SEQ) as BE.
    destruct (check_assignable u (Some a) (Some t)) eqn:C;
      [simpl; split; [reflexivity|]; split; [exact ERR|]; split; [exact ND|]; discriminate| |].
    - destruct (branch_ends u false orc1 0 p1 s (order_keys (orc1 0%nat 0%nat) ends)) as [f1|] eqn:E1;
        destruct (branch_ends u false orc2 0 p2 s (order_keys (orc2 0%nat 0%nat) ends)) as [f2|] eqn:E2; try contradiction;
        [|simpl; split; [reflexivity|]; split; [exact ERR|]; split; [exact ND|]; discriminate].
      destruct BE as [Ef [Qf NDf]]. simpl. split; [reflexivity|]. split; [|split; [exact NDf | intros _; exact Qf]].
      destruct Ef; constructor; simpl; auto. congruence.
    - destruct (branch_ends u false orc1 0 p1 s (order_keys (orc1 0%nat 0%nat) ends)) as [f1|] eqn:E1;
        destruct (branch_ends u false orc2 0 p2 s (order_keys (orc2 0%nat 0%nat) ends)) as [f2|] eqn:E2; try contradiction;
        [|simpl; split; [reflexivity|]; split; [exact ERR|]; split; [exact ND|]; discriminate].
      destruct BE as [Ef [Qf NDf]]. simpl. split; [reflexivity|]. split; [|split; [exact NDf | intros _; exact Qf]].
      destruct Ef; constructor; simpl; auto. congruence.
  Qed.

  (* ---------------------------------------------------------------- AddNode *)

  Lemma NoDup_snoc : forall (A : Type) (l : list A) (x : A), NoDup l -> ~ In x l -> NoDup (l ++ [x]).
  Proof.
    intros A l x ND H. apply NoDup_app_disj; [exact ND | constructor; [intros []|constructor]|].
    intros y Hy [E|[]]. subst. auto.
  Qed.

  Lemma add_node_two : forall st1 st2 k isp i o pre post,
    eqv st1 st2 -> inv u st1 -> keys_ok st1 -> (g_err st1 = false -> quiet st1) ->
    snd (add_node st1 k isp i o pre post) = snd (add_node st2 k isp i o pre post) /\
    eqv (fst (add_node st1 k isp i o pre post)) (fst (add_node st2 k isp i o pre post)) /\
    keys_ok (fst (add_node st1 k isp i o pre post)) /\
    (g_err (fst (add_node st1 k isp i o pre post)) = false -> quiet (fst (add_node st1 k isp i o pre post))).
  Proof.
    intros st1 st2 k isp i o pre post E I ND Q. unfold add_node.
    assert (HO : forall d h, handler_ok st2 d h = handler_ok st1 d h).
    { intros d h. unfold handler_ok. rewrite (ev_st _ _ E). reflexivity. }
    rewrite (ev_err _ _ E), (ev_compiled _ _ E), (eqv_has_node st1 st2 _ E), !HO.
    assert (ERR : eqv (set_err st1) (set_err st2)) by (destruct E; constructor; simpl; auto).
    destruct (g_err st1) eqn:GE; [simpl; split; [reflexivity|]; split; [exact E|]; split; [exact ND|]; intro; congruence|].
    specialize (Q eq_refl).
    destruct (g_compiled st1); [simpl; split; [reflexivity|]; split; [exact E|]; split; [exact ND|]; intros _; exact Q|].
    destruct (N.eqb k kSTART || N.eqb k kEND); [simpl; split; [reflexivity|]; split; [exact ERR|]; split; [exact ND|]; discriminate|].
    destruct (has_node st1 k) eqn:HN; [simpl; split; [reflexivity|]; split; [exact ERR|]; split; [exact ND|]; discriminate|].
    destruct (handler_ok st1 i pre); simpl; [|split; [reflexivity|]; split; [exact ERR|]; split; [exact ND|]; discriminate].
    destruct (handler_ok st1 o post); simpl; [|split; [reflexivity|]; split; [exact ERR|]; split; [exact ND|]; discriminate].
    split; [reflexivity|]. split; [|split].
    - destruct E; constructor; simpl; auto. congruence.
    - unfold keys_ok. simpl. rewrite map_app. simpl. apply NoDup_snoc; [exact ND | apply has_node_false_notin; exact HN].
    - intros _ p Hp. simpl in Hp. pose proof (Q p Hp) as U.
      destruct (inv_tvm _ _ I p Hp) as [A B].
      set (st' := set_nodes st1 (g_nodes st1 ++ [(k, {| n_pass := isp; n_in := i; n_out := o;
                   n_pre := option_map h_ty pre; n_post := option_map h_ty post |})])).
      assert (GN : forall k', has_node st1 k' = true -> get_node st' k' = get_node st1 k').
      { intros k' H. unfold get_node, st'; simpl. rewrite get_app_new. unfold has_node, get_node in H.
        destruct (nlist_get k' (g_nodes st1)); [reflexivity | discriminate]. }
      assert (TI : forall k', has_node st1 k' = true \/ k' = kSTART \/ k' = kEND ->
                              in_ty st' k' = in_ty st1 k' /\ out_ty st' k' = out_ty st1 k').
      { intros k' H. unfold in_ty, out_ty. change (g_in st') with (g_in st1). change (g_out st') with (g_out st1).
        destruct (N.eqb_spec k' kSTART); [auto|]. destruct (N.eqb_spec k' kEND); [auto|].
        destruct H as [H|[H|H]]; try congruence. rewrite (GN k' H). auto. }
      unfold unk in *.
      destruct (TI (fst p)) as [_ T1]; [tauto|]. destruct (TI (snd p)) as [T2 _]; [tauto|].
      change (match out_ty st' (fst p), in_ty st' (snd p) with None, None => true | _, _ => false end = true).
      rewrite T1, T2. exact U.
  Qed.

  (* ---------------------------------------------------------------- Compile *)

  Lemma compile_two : forall st1 st2,
    eqv st1 st2 -> keys_ok st1 -> (g_err st1 = false -> quiet st1) ->
    snd (compile st1) = snd (compile st2) /\ eqv (fst (compile st1)) (fst (compile st2)) /\
    keys_ok (fst (compile st1)) /\ (g_err (fst (compile st1)) = false -> quiet (fst (compile st1))).
  Proof.
    intros st1 st2 E ND Q. unfold compile.
    rewrite (ev_err _ _ E), (ev_hs _ _ E), (ev_he _ _ E), (ev_nodes _ _ E).
    destruct (g_err st1) eqn:GE; [simpl; split; [reflexivity|]; split; [exact E|]; split; [exact ND|]; intro; congruence|].
    specialize (Q eq_refl).
    destruct (g_has_start st1); simpl; [|split; [reflexivity|]; split; [exact E|]; split; [exact ND|]; intros _; exact Q].
    destruct (g_has_end st1); simpl; [|split; [reflexivity|]; split; [exact E|]; split; [exact ND|]; intros _; exact Q].
    destruct (g_tvm st1) as [|x l] eqn:T1; destruct (g_tvm st2) as [|y l'] eqn:T2.
    - destruct (existsb _ (g_nodes st1)); simpl; (split; [reflexivity|]); (split; [|split; [exact ND | intros _; exact Q]]); [exact E|].
      destruct E; constructor; simpl; auto.
    - exfalso. pose proof (ev_tvm _ _ E y) as H. rewrite T1, T2 in H. apply H. left; reflexivity.
    - exfalso. pose proof (ev_tvm _ _ E x) as H. rewrite T1, T2 in H. apply H. left; reflexivity.
    - simpl. split; [reflexivity|]. split; [exact E|]. split; [exact ND | intros _; exact Q].
  Qed.

  (* ---------------------------------------------------------------- every call, every sequence *)

  Definition sim_inv (st : gstate) : Prop := inv u st /\ keys_ok st /\ (g_err st = false -> quiet st).

  Lemma step_two : forall orc1 orc2 st1 st2 o,
    eqv st1 st2 -> sim_inv st1 ->
    snd (step u orc1 st1 o) = snd (step u orc2 st2 o) /\
    eqv (fst (step u orc1 st1 o)) (fst (step u orc2 st2 o)) /\ sim_inv (fst (step u orc1 st1 o)).
  Proof.
    intros orc1 orc2 st1 st2 o E [I [ND Q]].
    assert (IV : inv u (fst (step u orc1 st1 o))).
    { destruct (step u orc1 st1 o) as [st' ok] eqn:S. destruct (step_spec u _ _ _ _ _ I S) as [I' _]. exact I'. }
    destruct o as [k i ot pre post|k pre post|s e|s t ends choice|]; unfold step, step_sel in *.
    - destruct (add_node_two st1 st2 k false (Some i) (Some ot) pre post E I ND Q) as [A [B [C D]]].
      split; [exact A|]. split; [exact B|]. split; [exact IV|]. split; assumption.
    - destruct (add_node_two st1 st2 k true None None pre post E I ND Q) as [A [B [C D]]].
      split; [exact A|]. split; [exact B|]. split; [exact IV|]. split; assumption.
    - destruct (add_edge_two u orc1 orc2 st1 st2 s e E I ND Q) as [A [B [C D]]].
      split; [exact A|]. split; [exact B|]. split; [exact IV|]. split; assumption.
    - destruct (add_branch_two orc1 orc2 st1 st2 s t ends choice E I ND Q) as [A [B [C D]]].
      split; [exact A|]. split; [exact B|]. split; [exact IV|]. split; assumption.
    - destruct (compile_two st1 st2 E ND Q) as [A [B [C D]]].
      split; [exact A|]. split; [exact B|]. split; [exact IV|]. split; assumption.
  Qed.

  Lemma run_ops_two : forall ops orcs1 orcs2 i1 i2 st1 st2,
    eqv st1 st2 -> sim_inv st1 ->
    snd (run_ops u orcs1 i1 st1 ops) = snd (run_ops u orcs2 i2 st2 ops) /\
    eqv (fst (run_ops u orcs1 i1 st1 ops)) (fst (run_ops u orcs2 i2 st2 ops)).
  Proof.
    induction ops as [|o rest IH]; intros orcs1 orcs2 i1 i2 st1 st2 E SI; unfold run_ops in *; simpl.
    - split; [reflexivity | exact E].
    - destruct (step_two (orcs1 i1) (orcs2 i2) st1 st2 o E SI) as [A [B C]]. unfold step in A, B, C.
      destruct (step_sel u false false false (orcs1 i1) st1 o) as [a1 ok1].
      destruct (step_sel u false false false (orcs2 i2) st2 o) as [a2 ok2]. simpl in A, B, C. subst ok2.
      destruct (IH orcs1 orcs2 (S i1) (S i2) a1 a2 B C) as [A' B'].
      destruct (run_ops_sel u false false false orcs1 (S i1) a1 rest) as [b1 oks1].
      destruct (run_ops_sel u false false false orcs2 (S i2) a2 rest) as [b2 oks2]. simpl in *.
      split; [f_equal; exact A' | exact B'].
  Qed.

  Lemma sim_inv_init : forall i o s, sim_inv (init_graph i o s).
  Proof.
    intros i o s. split; [apply inv_init|]. split; [constructor|]. intros _ p [].
  Qed.

  Theorem worklist_independent_main : forall orcs1 orcs2 i o s ops,
    snd (run_ops u orcs1 0 (init_graph i o s) ops) = snd (run_ops u orcs2 0 (init_graph i o s) ops) /\
    eqv (fst (run_ops u orcs1 0 (init_graph i o s) ops)) (fst (run_ops u orcs2 0 (init_graph i o s) ops)).
  Proof. intros. apply run_ops_two; [apply eqv_refl | apply sim_inv_init]. Qed.
End O7.

(* ==================================================================== Part 7: runs do not see the difference *)

Lemma forallb_set_eq : forall (A : Type) (f : A -> bool) (l l' : list A),
  set_eq l l' -> forallb f l = forallb f l'.
Proof.
  intros A f l l' H. destruct (forallb f l) eqn:E1; destruct (forallb f l') eqn:E2; try reflexivity.
  - rewrite forallb_forall in E1. assert (forallb f l' = true) by (apply forallb_forall; intros x Hx; apply E1; apply H; exact Hx). congruence.
  - rewrite forallb_forall in E2. assert (forallb f l = true) by (apply forallb_forall; intros x Hx; apply E2; apply H; exact Hx). congruence.
Qed.

Lemma forallb_ext : forall (A : Type) (f g : A -> bool) (l : list A),
  (forall x, f x = g x) -> forallb f l = forallb g l.
Proof. intros A f g l H. induction l as [|x l IH]; simpl; [reflexivity | rewrite H, IH; reflexivity]. Qed.

Section O8.
  Variable u : univ.
  Variable asrt : dyn -> ty -> bool.
  Variable emit : list (key * dyn).

  Lemma hedge_of_set : forall st s t c, In c (hedge_of st s t) <-> In (s, t, c) (g_hedge st).
  Proof.
    intros st s t c. unfold hedge_of. rewrite in_map_iff. split.
    - intros [[[s0 t0] c0] [E H]]. simpl in E; subst c0. apply filter_In in H. destruct H as [H Q].
      unfold pair_eqb in Q; simpl in Q. apply andb_true_iff in Q. destruct Q as [Q1 Q2].
      apply N.eqb_eq in Q1. apply N.eqb_eq in Q2. subst. exact H.
    - intro H. exists (s, t, c). split; [reflexivity|]. apply filter_In. split; [exact H|].
      unfold pair_eqb; simpl. rewrite !N.eqb_refl. reflexivity.
  Qed.

  Lemma eqv_resolve : forall a b done, eqv a b -> resolve asrt b done = resolve asrt a done.
  Proof.
    intros a b done E. induction done as [|[s d] rest IH]; simpl; [reflexivity|].
    unfold branches_of, succ_of. rewrite (ev_branches _ _ E), (ev_data _ _ E), IH. reflexivity.
  Qed.

  Lemma eqv_edges_ok : forall a b ws, eqv a b -> edges_ok asrt b ws = edges_ok asrt a ws.
  Proof.
    intros a b ws E. unfold edges_ok. apply forallb_ext. intros [[t s] d]. unfold conv_all.
    apply forallb_set_eq. intro c. rewrite !hedge_of_set. pose proof (ev_hedge _ _ E (s, t, c)). tauto.
  Qed.

  Lemma eqv_next : forall a b done, eqv a b -> next u asrt b done = next u asrt a done.
  Proof.
    intros a b done E. unfold next. rewrite (eqv_resolve a b done E).
    destruct (resolve asrt a done) as [o|ws]; [reflexivity|].
    rewrite (eqv_edges_ok a b ws E), (ev_out _ _ E). reflexivity.
  Qed.

  Lemma eqv_exec_all : forall a b tasks, eqv a b -> exec_all asrt emit b tasks = exec_all asrt emit a tasks.
  Proof.
    intros a b tasks E. destruct (eqv_types a b E) as [G [TI TO]]. unfold exec_all.
    assert (H1 : forallb (fun t => has_node b (fst t)) tasks = forallb (fun t => has_node a (fst t)) tasks).
    { apply forallb_ext. intro t. apply eqv_has_node; exact E. }
    assert (H2 : forall l, pre_all asrt b l = pre_all asrt a l).
    { induction l as [|t r IH]; simpl; [reflexivity|]. unfold pre_res. rewrite G, IH. reflexivity. }
    rewrite H1, H2. destruct (pre_all asrt a tasks) as [o|tasks1]; [reflexivity|].
    assert (H3 : map (fun t => post_res asrt b (fst t) (node_out asrt emit b t)) tasks1 =
                 map (fun t => post_res asrt a (fst t) (node_out asrt emit a t)) tasks1).
    { apply map_ext. intro t. unfold post_res, node_out, emit_of. rewrite !G, TO. reflexivity. }
    rewrite H3. reflexivity.
  Qed.

  Lemma eqv_loop : forall a b steps tasks, eqv a b -> loop u asrt emit b steps tasks = loop u asrt emit a steps tasks.
  Proof.
    intros a b steps. induction steps as [|n IH]; intros tasks E; simpl; [reflexivity|].
    destruct tasks as [|x r]; [reflexivity|].
    rewrite (eqv_exec_all a b (x :: r) E). destruct (exec_all asrt emit a (x :: r)) as [o|done]; [reflexivity|].
    rewrite (eqv_next a b done E). destruct (next u asrt a done) as [o|tasks']; [reflexivity|]. apply IH; exact E.
  Qed.

  Lemma eqv_run : forall a b input, eqv a b -> run u asrt emit b input = run u asrt emit a input.
  Proof.
    intros a b input E. unfold run. rewrite (eqv_next a b _ E).
    destruct (next u asrt a [(kSTART, input)]) as [o|tasks]; [reflexivity|].
    unfold max_steps. rewrite (ev_nodes _ _ E). apply eqv_loop; exact E.
  Qed.
End O8.

(* the statement used by Props/C07.v *)
Theorem worklist_independent_obs : forall u orcs1 orcs2 i o s ops st1 oks1 st2 oks2,
  run_ops u orcs1 0 (init_graph i o s) ops = (st1, oks1) ->
  run_ops u orcs2 0 (init_graph i o s) ops = (st2, oks2) ->
  oks1 = oks2 /\
  (forall k, in_ty st1 k = in_ty st2 k) /\ (forall k, out_ty st1 k = out_ty st2 k) /\
  g_nodes st1 = g_nodes st2 /\ g_data st1 = g_data st2 /\ g_branches st1 = g_branches st2 /\
  g_compiled st1 = g_compiled st2 /\ g_err st1 = g_err st2 /\
  (forall x, In x (g_hedge st1) <-> In x (g_hedge st2)) /\
  (forall p, In p (g_tvm st1) <-> In p (g_tvm st2)) /\
  (forall asrt emit input, run u asrt emit st1 input = run u asrt emit st2 input).
Proof.
  intros u orcs1 orcs2 i o s ops st1 oks1 st2 oks2 H1 H2.
  destruct (worklist_independent_main u orcs1 orcs2 i o s ops) as [A B]. rewrite H1, H2 in A, B. simpl in A, B.
  destruct (eqv_types st1 st2 B) as [_ [TI TO]].
  split; [exact A|]. split; [intro k; symmetry; apply TI|]. split; [intro k; symmetry; apply TO|].
  split; [symmetry; apply (ev_nodes _ _ B)|]. split; [symmetry; apply (ev_data _ _ B)|].
  split; [symmetry; apply (ev_branches _ _ B)|]. split; [symmetry; apply (ev_compiled _ _ B)|].
  split; [symmetry; apply (ev_err _ _ B)|]. split; [apply (ev_hedge _ _ B)|]. split; [apply (ev_tvm _ _ B)|].
  intros asrt emit input. symmetry. apply eqv_run. exact B.
Qed.
