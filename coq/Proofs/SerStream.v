(* Proofs/SerStream.v — the stream conversion of a checkpoint value keeps what the successor sees. *)
From Coq Require Import List Bool NArith String.
From Eino Require Import Base.Util Base.Universe Model.Ser Model.SerCheckpoint Model.SerStream.
Import ListNotations.

Section Conv.
  Variable concat : list chunk -> res chunk.
  Hypothesis concat_single : forall c, concat [c] = Ok c.

  (* an empty stream stays empty; a stream with chunks comes back as the one-chunk stream of its
     concatenation (so a successor that concatenates gets the same value, a streaming successor a
     stream that is empty iff the original was) *)
  Lemma convert_restore : forall s st,
    convert concat true s = Ok st ->
    match s with
    | [] => restore_stream st = []
    | _ => exists c, concat s = Ok c /\ restore_stream st = [c]
    end.
  Proof.
    intros [|a r] st H; simpl in H.
    - inversion H. reflexivity.
    - destruct (concat (a :: r)) as [c|e|] eqn:E; simpl in H; try discriminate H.
      exists c. split; [reflexivity|]. destruct c; inversion H; reflexivity.
  Qed.
  Lemma convert_restore_short : forall s st,
    List.length s <= 1 -> convert concat true s = Ok st -> restore_stream st = s.
  Proof.
    intros [|a [|b r]] st Hl H; simpl in Hl.
    - simpl in H. inversion H. reflexivity.
    - pose proof (convert_restore [a] st H) as [c [Hc Hr]]. rewrite concat_single in Hc. inversion Hc. subst. exact Hr.
    - exfalso. apply (PeanoNat.Nat.nle_succ_0 (List.length r)). apply le_S_n. exact Hl.
  Qed.
  (* resumed without streams the successor is handed the concatenation *)
  Lemma convert_restore_value : forall s st c,
    s <> [] -> convert concat true s = Ok st -> concat s = Ok c -> restore_value st = c.
  Proof.
    intros [|a r] st c Hne H Hc; [congruence|]. simpl in H. rewrite Hc in H. simpl in H.
    destruct c; inversion H; reflexivity.
  Qed.
End Conv.

(* a value written by a run without streams: resumed through Stream it is the one-chunk stream of
   the value, resumed through Invoke the value *)
Lemma convert_value_restore : forall (concat : list chunk -> res chunk) c,
  restore_stream (convert_value true c) = [c] /\ restore_value (convert_value true c) = c.
Proof. intros concat [v|]; split; reflexivity. Qed.
Lemma convert_value_v0_counterexample :
  restore_stream (convert_value false None) = [] /\ [@None val] <> [].
Proof. split; [reflexivity|discriminate]. Qed.

(* before fix 5464095: the stream of the one chunk nil came back without chunks *)
Lemma convert_restore_v0_counterexample :
  convert concat_c false [None] = Ok SNil /\ restore_stream SNil = [] /\ [@None val] <> [].
Proof. repeat split. discriminate. Qed.
