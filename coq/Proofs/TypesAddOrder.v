(* Proofs/TypesAddOrder.v — order of the Add* calls, universes without interface types.
   If one order of the calls (nodes before their uses) is accepted, every other such order is
   accepted and infers the same types.

   Argument: against a reference state [r] (the result of the accepted order) in which every
   connection carries equal types.  [sub cur r]: every type known in [cur] is the type [r]
   has.  (1) [sub] is preserved by every successful call whose connections are "closed with
   equal types" in [r]; (2) if the connections have equal known types in [r], no check of the
   call can fail.  (1) is used in both directions (the second run against the first, and the
   first against the second to see that it types every node), (2) for the second run. *)
From Eino Require Import Base.Util Model.Types Model.TypeBuilder Proofs.TypesLattice Proofs.TypesBuilder.
From Eino Require Import Proofs.TypesRun Proofs.TypesInv2 Proofs.TypesMay Proofs.TypesMain Proofs.TypesOrder.
From Coq Require Import Lia Permutation.
Arguments check_assignable : simpl never.

(* ------------------------------------------------------------------ sub *)

Definition sub (cur r : gstate) : Prop :=
  g_in r = g_in cur /\ g_out r = g_out cur /\
  forall k n, get_node cur k = Some n ->
    exists n', get_node r k = Some n' /\ n_pass n' = n_pass n /\
      (forall t, n_in n = Some t -> n_in n' = Some t) /\ (forall t, n_out n = Some t -> n_out n' = Some t).

Lemma sub_refl : forall st, sub st st.
Proof. intro st. split; [reflexivity|]. split; [reflexivity|]. intros k n G. exists n. auto. Qed.

Lemma sub_in_ty : forall cur r k t, sub cur r -> in_ty cur k = Some t -> in_ty r k = Some t.
Proof.
  intros cur r k t [A [B C]]. unfold in_ty. rewrite A, B.
  destruct (N.eqb k kSTART); [auto|]. destruct (N.eqb k kEND); [auto|].
  destruct (get_node cur k) as [n|] eqn:G; [|discriminate].
  destruct (C k n G) as [n' [G' [_ [I _]]]]. rewrite G'. auto.
Qed.
Lemma sub_out_ty : forall cur r k t, sub cur r -> out_ty cur k = Some t -> out_ty r k = Some t.
Proof.
  intros cur r k t [A [B C]]. unfold out_ty. rewrite A, B.
  destruct (N.eqb k kSTART); [auto|]. destruct (N.eqb k kEND); [auto|].
  destruct (get_node cur k) as [n|] eqn:G; [|discriminate].
  destruct (C k n G) as [n' [G' [_ [_ O]]]]. rewrite G'. auto.
Qed.

Lemma sub_same_nodes : forall cur cur' r,
  g_in cur' = g_in cur -> g_out cur' = g_out cur -> g_nodes cur' = g_nodes cur -> sub cur r -> sub cur' r.
Proof.
  intros cur cur' r A B C [X [Y Z]]. split; [congruence|]. split; [congruence|].
  intros k n G. unfold get_node in G. rewrite C in G. apply Z; exact G.
Qed.

(* a connection of [r]: both ends unknown, or both known with the same type *)
Definition ceq (r : gstate) (p : key * key) : Prop :=
  unk r p = true \/ exists t, out_ty r (fst p) = Some t /\ in_ty r (snd p) = Some t.
Definition seq (r : gstate) (p : key * key) : Prop :=
  exists t, out_ty r (fst p) = Some t /\ in_ty r (snd p) = Some t.
Lemma seq_ceq : forall r p, seq r p -> ceq r p.
Proof. intros r p H; right; exact H. Qed.

(* typing an untyped node of [cur] with the type [r] has for it *)
Lemma sub_set_pass : forall cur r k t,
  nodes_ok cur -> nodes_ok r -> sub cur r -> in_ty cur k = None -> has_node cur k = true ->
  in_ty r k = Some t -> sub (set_pass_ty cur k t) r.
Proof.
  intros cur r k t NO NR [A [B C]] Ik Hn Ir. split; [exact A|]. split; [exact B|].
  intros k' n' G'. rewrite get_node_set_pass_ty in G'. destruct (N.eqb_spec k k') as [E|E]; [|apply C; exact G'].
  subst k'. unfold has_node in Hn. destruct (get_node cur k) as [n|] eqn:G; [|discriminate].
  simpl in G'. inversion G'; subst n'; clear G'.
  destruct (C k n G) as [m [Gm [Pm [Im Om]]]]. exists m. split; [exact Gm|]. simpl.
  destruct (NO k n G) as [_ [KS KE]].
  assert (In0 : n_in n = None).
  { unfold in_ty in Ik. destruct (N.eqb_spec k kSTART); [congruence|]. destruct (N.eqb_spec k kEND); [congruence|].
    rewrite G in Ik. exact Ik. }
  destruct (unknown_is_pass cur k n NO G In0) as [Pn _].
  assert (Im' : n_in m = Some t).
  { unfold in_ty in Ir. destruct (N.eqb_spec k kSTART); [congruence|]. destruct (N.eqb_spec k kEND); [congruence|].
    rewrite Gm in Ir. exact Ir. }
  destruct (NR k m Gm) as [[PP _] _]. rewrite Pm, Pn in PP. specialize (PP eq_refl).
  split; [exact Pm|]. split; intros t0 H0; inversion H0; subst t0; [exact Im' | rewrite <- PP; exact Im'].
Qed.

Lemma sub_pass_in_out : forall cur r k,
  nodes_ok cur -> nodes_ok r -> sub cur r -> has_node cur k = true -> in_ty cur k = None ->
  in_ty r k = out_ty r k.
Proof.
  intros cur r k NO NR [_ [_ C]] Hn Ik. destruct (in_ty_node _ _ Ik) as [E1 E2].
  unfold has_node in Hn. destruct (get_node cur k) as [n|] eqn:G; [|discriminate].
  assert (In0 : n_in n = None).
  { unfold in_ty in Ik. destruct (N.eqb_spec k kSTART); [congruence|]. destruct (N.eqb_spec k kEND); [congruence|].
    rewrite G in Ik. exact Ik. }
  destruct (unknown_is_pass cur k n NO G In0) as [Pn _].
  destruct (C k n G) as [m [Gm [Pm _]]].
  destruct (NR k m Gm) as [[PP _] _]. rewrite Pm, Pn in PP. specialize (PP eq_refl).
  unfold in_ty, out_ty. destruct (N.eqb_spec k kSTART); [congruence|]. destruct (N.eqb_spec k kEND); [congruence|].
  rewrite Gm. exact PP.
Qed.

Section A.
  Variable u : univ.

  (* ---------------------------------------------------------------- one entry, one pass, the loop *)

  Lemma process_entry_sub : forall cur r s e cur',
    nodes_ok cur -> nodes_ok r -> ends_ok cur (s, e) -> sub cur r -> ceq r (s, e) ->
    process_entry u cur s e = PDone cur' -> sub cur' r.
  Proof.
    intros cur r s e cur' NO NR [Hs He] S C H. simpl in Hs, He.
    unfold process_entry, process_types in H.
    destruct (out_ty cur s) as [ta|] eqn:Oa; destruct (in_ty cur e) as [tb|] eqn:Ib.
    - destruct (check_assignable u (Some ta) (Some tb)); inversion H; subst; [exact S|].
      apply (sub_same_nodes cur); auto.
    - inversion H; subst cur'.
      destruct (in_ty_node _ _ Ib) as [E1 E2]. destruct He as [He|He]; [|congruence].
      apply sub_set_pass; auto.
      pose proof (sub_out_ty _ _ _ _ S Oa) as Or.
      destruct C as [U|[t [Ho Hi]]]; simpl in *.
      + unfold unk in U. simpl in U. rewrite Or in U. discriminate.
      + congruence.
    - inversion H; subst cur'.
      destruct (out_ty_node _ _ Oa) as [E1 E2]. destruct Hs as [Hs|Hs]; [|congruence].
      pose proof (out_none_in_none cur s NO Oa) as Is.
      apply sub_set_pass; auto.
      pose proof (sub_in_ty _ _ _ _ S Ib) as Ir.
      destruct C as [U|[t [Ho Hi]]]; simpl in *.
      + unfold unk in U. simpl in U. rewrite Ir in U. destruct (out_ty r s); discriminate.
      + assert (t = tb) by congruence. subst t.
        rewrite (sub_pass_in_out cur r s NO NR S Hs Is). exact Ho.
    - discriminate.
  Qed.

  Lemma process_entry_ok : forall cur r s e,
    sub cur r -> seq r (s, e) -> process_entry u cur s e <> PFail.
  Proof.
    intros cur r s e S [t [Ho Hi]] H. simpl in Ho, Hi. unfold process_entry, process_types in H.
    destruct (out_ty cur s) as [ta|] eqn:Oa; destruct (in_ty cur e) as [tb|] eqn:Ib; try discriminate.
    rewrite (sub_out_ty _ _ _ _ S Oa) in Ho. rewrite (sub_in_ty _ _ _ _ S Ib) in Hi.
    inversion Ho; inversion Hi; subst. rewrite check_refl in H. discriminate.
  Qed.

  Lemma pass_sub : forall todo cur r cur' kept ch,
    nodes_ok cur -> nodes_ok r -> (forall p, In p todo -> ends_ok cur p) -> sub cur r ->
    (forall p, In p todo -> ceq r p) ->
    pass u cur todo = Some (cur', kept, ch) -> sub cur' r.
  Proof.
    induction todo as [|[s e] rest IH]; intros cur r cur' kept ch NO NR HE S C H; simpl in H.
    - inversion H; subst; exact S.
    - destruct (process_entry u cur s e) as [|st1|] eqn:PE.
      + destruct (pass u cur rest) as [[[st2 k2] c2]|] eqn:PR; [|discriminate]. inversion H; subst.
        eapply IH; [exact NO | exact NR | | exact S | | exact PR].
        * intros p Hp; apply HE; right; exact Hp.
        * intros p Hp; apply C; right; exact Hp.
      + destruct (process_entry_done u cur s e st1 NO (HE _ (or_introl eq_refl)) PE) as [X1 [NO1 _]].
        destruct (pass u st1 rest) as [[[st2 k2] c2]|] eqn:PR; [|discriminate]. inversion H; subst.
        eapply IH; [exact NO1 | exact NR | | | | exact PR].
        * intros p Hp. eapply ext_ends_ok; [exact X1|]. apply HE; right; exact Hp.
        * eapply process_entry_sub; [exact NO | exact NR | apply HE; left; reflexivity | exact S | apply C; left; reflexivity | exact PE].
        * intros p Hp; apply C; right; exact Hp.
      + discriminate.
  Qed.

  Lemma pass_ok : forall todo cur r,
    nodes_ok cur -> nodes_ok r -> (forall p, In p todo -> ends_ok cur p) -> sub cur r ->
    (forall p, In p todo -> seq r p) -> pass u cur todo <> None.
  Proof.
    induction todo as [|[s e] rest IH]; intros cur r NO NR HE S C; simpl; [discriminate|].
    destruct (process_entry u cur s e) as [|st1|] eqn:PE.
    - assert (Q : pass u cur rest <> None).
      { eapply IH; [exact NO | exact NR | | exact S |].
        - intros p Hp; apply HE; right; exact Hp.
        - intros p Hp; apply C; right; exact Hp. }
      destruct (pass u cur rest) as [[[st2 k2] c2]|]; [discriminate | congruence].
    - destruct (process_entry_done u cur s e st1 NO (HE _ (or_introl eq_refl)) PE) as [X1 [NO1 _]].
      assert (Q : pass u st1 rest <> None).
      { eapply IH; [exact NO1 | exact NR | | |].
        - intros p Hp. eapply ext_ends_ok; [exact X1|]. apply HE; right; exact Hp.
        - eapply process_entry_sub; [exact NO | exact NR | apply HE; left; reflexivity | exact S | | exact PE].
          apply seq_ceq. apply C; left; reflexivity.
        - intros p Hp; apply C; right; exact Hp. }
      destruct (pass u st1 rest) as [[[st2 k2] c2]|]; [discriminate | congruence].
    - exfalso. eapply process_entry_ok; [exact S | apply C; left; reflexivity | exact PE].
  Qed.

  Lemma update_sub : forall fuel orc n cur r cur',
    good cur -> nodes_ok r -> sub cur r -> (forall p, In p (g_tvm cur) -> ceq r p) ->
    update u fuel orc n cur = UOk cur' -> sub cur' r.
  Proof.
    induction fuel as [|f IH]; intros orc n cur r cur' [NO HE] NR S C H; simpl in H; [discriminate|].
    destruct (pass u cur (group_order (orc n) (g_tvm cur))) as [[[st1 kept] ch]|] eqn:P; [|discriminate].
    assert (HE' : forall p, In p (group_order (orc n) (g_tvm cur)) -> ends_ok cur p).
    { intros p Hp. apply In_group_order in Hp. apply HE; exact Hp. }
    assert (C' : forall p, In p (group_order (orc n) (g_tvm cur)) -> ceq r p).
    { intros p Hp. apply In_group_order in Hp. apply C; exact Hp. }
    destruct (pass_spec u _ _ _ _ _ NO HE' P) as [X [NO1 [TV [Hk [Hi _]]]]].
    pose proof (pass_sub _ _ _ _ _ _ NO NR HE' S C' P) as S1.
    assert (S1' : sub (set_tvm st1 kept) r) by (apply (sub_same_nodes st1); auto).
    destruct ch; [|inversion H; subst; exact S1'].
    eapply IH; [ | exact NR | exact S1' | | exact H].
    - split; [intros k nd; apply NO1|]. simpl. intros p Hp. apply Hi in Hp. apply In_group_order in Hp.
      eapply ext_ends_ok; [eapply ext_trans; [exact X | apply ext_set_tvm]|]. apply HE; exact Hp.
    - simpl. intros p Hp. apply C'. apply Hi. exact Hp.
  Qed.

  Lemma update_ok : forall fuel orc n cur r,
    good cur -> nodes_ok r -> sub cur r -> (forall p, In p (g_tvm cur) -> seq r p) ->
    update u fuel orc n cur <> UFail.
  Proof.
    induction fuel as [|f IH]; intros orc n cur r [NO HE] NR S C; simpl; [discriminate|].
    assert (HE' : forall p, In p (group_order (orc n) (g_tvm cur)) -> ends_ok cur p).
    { intros p Hp. apply In_group_order in Hp. apply HE; exact Hp. }
    assert (C' : forall p, In p (group_order (orc n) (g_tvm cur)) -> seq r p).
    { intros p Hp. apply In_group_order in Hp. apply C; exact Hp. }
    pose proof (pass_ok _ _ _ NO NR HE' S C') as PO.
    destruct (pass u cur (group_order (orc n) (g_tvm cur))) as [[[st1 kept] ch]|] eqn:P; [|congruence].
    destruct (pass_spec u _ _ _ _ _ NO HE' P) as [X [NO1 [TV [Hk [Hi _]]]]].
    assert (S1 : sub st1 r).
    { eapply pass_sub; [exact NO | exact NR | exact HE' | exact S | | exact P]. intros p Hp. apply seq_ceq. apply C'; exact Hp. }
    destruct ch; [|discriminate].
    eapply IH; [ | exact NR | apply (sub_same_nodes st1); auto; exact S1 | ].
    - split; [intros k nd; apply NO1|]. simpl. intros p Hp. apply Hi in Hp. apply In_group_order in Hp.
      eapply ext_ends_ok; [eapply ext_trans; [exact X | apply ext_set_tvm]|]. apply HE; exact Hp.
    - simpl. intros p Hp. apply C'. apply Hi. exact Hp.
  Qed.
End A.

(* ==================================================================== the calls *)

Lemma has_or_inv : forall st k x,
  has_node st k = true \/ k = x -> negb (has_node st k) && negb (N.eqb k x) = false.
Proof.
  intros st k x [H|H]; [rewrite H; reflexivity|]. subst. rewrite N.eqb_refl. simpl. apply andb_false_r.
Qed.

Section B.
  Variable u : univ.

  Lemma ext_sub : forall st st', ext st st' -> sub st st'.
  Proof.
    intros st st' X. split; [apply (ext_in _ _ X)|]. split; [apply (ext_out _ _ X)|].
    intros k n G. destruct (ext_nodes _ _ X k n G) as [n' [G' [P [_ [_ [I O]]]]]]. exists n'. auto.
  Qed.

  Lemma sub_trans : forall a b c, sub a b -> sub b c -> sub a c.
  Proof.
    intros a b c [A1 [B1 C1]] [A2 [B2 C2]]. split; [congruence|]. split; [congruence|].
    intros k n G. destruct (C1 k n G) as [n1 [G1 [P1 [I1 O1]]]]. destruct (C2 k n1 G1) as [n2 [G2 [P2 [I2 O2]]]].
    exists n2. split; [exact G2|]. split; [congruence|]. split; auto.
  Qed.

  (* ---------------------------------------------------------------- AddEdge *)

  Lemma add_edge_sub : forall orc cur r s e cur',
    inv u cur -> nodes_ok r -> sub cur r ->
    (forall p, In p (g_tvm cur) -> ceq r p) -> ceq r (s, e) ->
    add_edge u false orc cur s e = (cur', true) ->
    sub cur' r /\ (forall p, In p (g_tvm cur') -> In p (g_tvm cur) \/ p = (s, e)).
  Proof.
    intros orc cur r s e cur' I NR SB C Cn H.
    destruct (add_edge_shape u _ _ _ _ _ _ H) as [[F _]|[_ [_ [_ [Hs [He [_ [_ [_ [_ Q]]]]]]]]]]; [discriminate|].
    simpl in Q. destruct Q as [st2 [U E]]. subst cur'.
    set (m := mark_ends (set_ctrl cur (g_ctrl cur ++ [(s, e)])) s e) in *.
    assert (SC : same_core cur m) by (unfold same_core, m; simpl; repeat split; reflexivity).
    pose proof (same_core_inv u _ _ SC I) as I1.
    set (sta := set_tvm m (g_tvm m ++ [(s, e)])) in *.
    assert (Ga : good sta).
    { split; [exact (inv_nodes _ _ I1)|]. simpl. intros p Hp. apply in_app_or in Hp. destruct Hp as [Hp|[Hp|[]]].
      - apply (inv_tvm _ _ I1 p Hp).
      - subst p. split; simpl; auto. }
    assert (Sa : sub sta r) by (apply (sub_same_nodes cur); auto).
    assert (Ca : forall p, In p (g_tvm sta) -> ceq r p).
    { simpl. intros p Hp. apply in_app_or in Hp. destruct Hp as [Hp|[Hp|[]]]; [apply C; exact Hp | subst; exact Cn]. }
    unfold update_tvm in U.
    pose proof (update_sub u _ _ _ _ _ _ Ga NR Sa Ca U) as S2.
    destruct (update_spec u _ _ _ _ _ Ga U) as [_ [_ [IN _]]].
    split; [apply (sub_same_nodes st2); auto|].
    simpl. intros p Hp. apply IN in Hp. simpl in Hp. apply in_app_or in Hp. destruct Hp as [Hp|[Hp|[]]]; auto.
  Qed.

  Lemma add_edge_ok : forall orc cur r s e,
    inv u cur -> nodes_ok r -> sub cur r ->
    (forall p, In p (g_tvm cur) -> seq r p) -> seq r (s, e) ->
    g_err cur = false -> g_compiled cur = false -> s <> kEND -> e <> kSTART ->
    (has_node cur s = true \/ s = kSTART) -> (has_node cur e = true \/ e = kEND) ->
    mem_pair (s, e) (g_ctrl cur) = false -> mem_pair (s, e) (g_data cur) = false ->
    snd (add_edge u false orc cur s e) = true.
  Proof.
    intros orc cur r s e I NR SB C Cn GE GC SE ES Hs He MC MD. unfold add_edge.
    rewrite GE, GC. apply N.eqb_neq in SE. apply N.eqb_neq in ES. rewrite SE, ES.
    rewrite (has_or_inv _ _ _ Hs), (has_or_inv _ _ _ He), MC.
    set (m := mark_ends (set_ctrl cur (g_ctrl cur ++ [(s, e)])) s e).
    change (g_data m) with (g_data cur). rewrite MD.
    assert (SC : same_core cur m) by (unfold same_core, m; simpl; repeat split; reflexivity).
    pose proof (same_core_inv u _ _ SC I) as I1.
    set (sta := set_tvm m (g_tvm m ++ [(s, e)])).
    assert (Ga : good sta).
    { split; [exact (inv_nodes _ _ I1)|]. simpl. intros p Hp. apply in_app_or in Hp. destruct Hp as [Hp|[Hp|[]]].
      - apply (inv_tvm _ _ I1 p Hp).
      - subst p. split; simpl; auto. }
    assert (Sa : sub sta r) by (apply (sub_same_nodes cur); auto).
    assert (Ca : forall p, In p (g_tvm sta) -> seq r p).
    { simpl. intros p Hp. apply in_app_or in Hp. destruct Hp as [Hp|[Hp|[]]]; [apply C; exact Hp | subst; exact Cn]. }
    unfold update_sel.
    pose proof (update_ok u (S (List.length (g_tvm sta))) (orc 0%nat) 0 sta r Ga NR Sa Ca) as NF.
    pose proof (update_tvm_fuel u (orc 0%nat) sta Ga) as NU. unfold update_tvm in *.
    destruct (update u (S (List.length (g_tvm sta))) (orc 0%nat) 0 sta); [reflexivity | congruence | congruence].
  Qed.

  (* ---------------------------------------------------------------- AddBranch *)

  Lemma branch_pre_sub : forall orc cur r s t p1,
    good cur -> nodes_ok r -> sub cur r -> (forall p, In p (g_tvm cur) -> ceq r p) ->
    out_ty r s = Some t ->
    branch_pre u false false false orc cur s t = UOk p1 ->
    sub p1 r /\ incl (g_tvm p1) (g_tvm cur).
  Proof.
    intros orc cur r s t p1 G NR SB C Or H. unfold branch_pre in H.
    destruct (negb (N.eqb s kSTART) && is_pass cur s &&
              (false || match out_ty cur s with None => true | Some _ => false end)) eqn:Cd.
    - apply andb_true_iff in Cd. destruct Cd as [Cd C3]. apply andb_true_iff in Cd. destruct Cd as [C1 C2].
      simpl in C3. destruct (out_ty cur s) eqn:O; [discriminate|].
      pose proof (is_pass_has_node _ _ C2) as Hn.
      pose proof (out_none_in_none cur s (proj1 G) O) as Is.
      pose proof (set_pass_ty_ext cur s t (proj1 G) Is) as X0.
      assert (Ga : good (set_pass_ty cur s t)).
      { split; [apply set_pass_ty_nodes_ok; [exact (proj1 G) | exact Is]|].
        intros p Hp. eapply ext_ends_ok; [exact X0|]. apply (proj2 G). exact Hp. }
      assert (Sa : sub (set_pass_ty cur s t) r).
      { apply sub_set_pass; auto; [exact (proj1 G)|]. rewrite (sub_pass_in_out cur r s (proj1 G) NR SB Hn Is). exact Or. }
      unfold update_sel, update_tvm in H.
      split; [eapply update_sub; [exact Ga | exact NR | exact Sa | exact C | exact H]|].
      destruct (update_spec u _ _ _ _ _ Ga H) as [_ [_ [IN _]]]. exact IN.
    - inversion H; subst. split; [exact SB | apply incl_refl].
  Qed.

  Lemma branch_pre_ok : forall orc cur r s t,
    good cur -> nodes_ok r -> sub cur r -> (forall p, In p (g_tvm cur) -> seq r p) ->
    out_ty r s = Some t ->
    exists p1, branch_pre u false false false orc cur s t = UOk p1.
  Proof.
    intros orc cur r s t G NR SB C Or. unfold branch_pre.
    destruct (negb (N.eqb s kSTART) && is_pass cur s &&
              (false || match out_ty cur s with None => true | Some _ => false end)) eqn:Cd; [|eauto].
    apply andb_true_iff in Cd. destruct Cd as [Cd C3]. apply andb_true_iff in Cd. destruct Cd as [C1 C2].
    simpl in C3. destruct (out_ty cur s) eqn:O; [discriminate|].
    pose proof (is_pass_has_node _ _ C2) as Hn.
    pose proof (out_none_in_none cur s (proj1 G) O) as Is.
    pose proof (set_pass_ty_ext cur s t (proj1 G) Is) as X0.
    assert (Ga : good (set_pass_ty cur s t)).
    { split; [apply set_pass_ty_nodes_ok; [exact (proj1 G) | exact Is]|].
      intros p Hp. eapply ext_ends_ok; [exact X0|]. apply (proj2 G). exact Hp. }
    assert (Sa : sub (set_pass_ty cur s t) r).
    { apply sub_set_pass; auto; [exact (proj1 G)|]. rewrite (sub_pass_in_out cur r s (proj1 G) NR SB Hn Is). exact Or. }
    unfold update_sel.
    pose proof (update_ok u (S (List.length (g_tvm (set_pass_ty cur s t)))) orc 0 _ r Ga NR Sa C) as NF.
    pose proof (update_tvm_fuel u orc _ Ga) as NU. unfold update_tvm in *.
    destruct (update u (S (List.length (g_tvm (set_pass_ty cur s t)))) orc 0 (set_pass_ty cur s t)); [eauto | congruence | congruence].
  Qed.

  Lemma branch_pre_out : forall orc cur s t p1,
    good cur -> (has_node cur s = true \/ s = kSTART) ->
    branch_pre u false false false orc cur s t = UOk p1 -> out_ty cur s = None -> out_ty p1 s = Some t.
  Proof.
    intros orc cur s t p1 G Hs H O. destruct (out_ty_node _ _ O) as [E1 E2].
    destruct Hs as [Hs|Hs]; [|congruence].
    pose proof (out_none_in_none cur s (proj1 G) O) as Is.
    assert (Pn : is_pass cur s = true).
    { unfold has_node in Hs. unfold is_pass. destruct (get_node cur s) as [n|] eqn:Gn; [|discriminate].
      assert (In0 : n_in n = None).
      { unfold in_ty in Is. destruct (N.eqb_spec s kSTART); [congruence|]. destruct (N.eqb_spec s kEND); [congruence|].
        rewrite Gn in Is. exact Is. }
      apply (unknown_is_pass cur s n (proj1 G) Gn In0). }
    unfold branch_pre in H. rewrite Pn, O in H. apply N.eqb_neq in E1. rewrite E1 in H. simpl in H.
    apply N.eqb_neq in E1.
    pose proof (set_pass_ty_ext cur s t (proj1 G) Is) as X0.
    assert (Ga : good (set_pass_ty cur s t)).
    { split; [apply set_pass_ty_nodes_ok; [exact (proj1 G) | exact Is]|].
      intros p Hp. eapply ext_ends_ok; [exact X0|]. apply (proj2 G). exact Hp. }
    unfold update_sel, update_tvm in H. destruct (update_spec u _ _ _ _ _ Ga H) as [X _].
    destruct (set_pass_ty_types cur s t Hs E1 E2) as [_ T2]. apply (ext_out_ty _ _ _ _ X T2).
  Qed.

  Lemma branch_ends_sub : forall l orc j cur r s f,
    good cur -> (has_node cur s = true \/ s = kSTART) -> nodes_ok r -> sub cur r ->
    (forall p, In p (g_tvm cur) -> ceq r p) -> (forall e, In e l -> ceq r (s, e)) ->
    branch_ends u false orc j cur s l = Some f ->
    sub f r /\ (forall p, In p (g_tvm f) -> In p (g_tvm cur) \/ exists e, In e l /\ p = (s, e)).
  Proof.
    induction l as [|e rest IH]; intros orc j cur r s f G Hs NR SB C Cl H; simpl in H.
    - inversion H; subst. split; [exact SB | auto].
    - destruct (negb (has_node cur e) && negb (N.eqb e kEND)) eqn:He; [discriminate|]. apply has_or in He.
      unfold update_sel in H.
      set (sta := set_tvm cur (g_tvm cur ++ [(s, e)])) in *.
      assert (Ga : good sta).
      { split; [exact (proj1 G)|]. unfold sta; simpl. intros p Hp. apply in_app_or in Hp.
        destruct Hp as [Hp|[Hp|[]]]; [apply (proj2 G p Hp)|]. subst p. split; simpl; auto. }
      destruct (update_tvm u (orc (S j)) sta) as [st1| |] eqn:U; [|discriminate|discriminate].
      unfold update_tvm in U.
      assert (Sa : sub sta r) by (apply (sub_same_nodes cur); auto).
      assert (Ca : forall p, In p (g_tvm sta) -> ceq r p).
      { simpl. intros p Hp. apply in_app_or in Hp. destruct Hp as [Hp|[Hp|[]]]; [apply C; exact Hp|].
        subst. apply Cl. left; reflexivity. }
      pose proof (update_sub u _ _ _ _ _ _ Ga NR Sa Ca U) as S1.
      destruct (update_spec u _ _ _ _ _ Ga U) as [X1 [G1 [IN _]]].
      assert (SC : same_core st1 (mark_ends st1 s e)) by (unfold same_core; simpl; repeat split; reflexivity).
      assert (Gm : good (mark_ends st1 s e)) by (eapply good_same_core; eauto).
      assert (Hsm : has_node (mark_ends st1 s e) s = true \/ s = kSTART).
      { destruct Hs as [Hs|Hs]; [left|right; exact Hs].
        eapply ext_has_node; [apply same_core_ext; exact SC|]. eapply ext_has_node; [exact X1|]. exact Hs. }
      assert (Sm : sub (mark_ends st1 s e) r) by (apply (sub_same_nodes st1); auto).
      assert (Cm : forall p, In p (g_tvm (mark_ends st1 s e)) -> ceq r p).
      { simpl. intros p Hp. apply Ca. apply IN. exact Hp. }
      assert (Clm : forall e', In e' rest -> ceq r (s, e')) by (intros e' He'; apply Cl; right; exact He').
      destruct (IH orc (S j) (mark_ends st1 s e) r s f Gm Hsm NR Sm Cm Clm H) as [Sf Tf].
      split; [exact Sf|]. intros p Hp. destruct (Tf p Hp) as [Q|[e' [He' Q]]].
        * simpl in Q. apply IN in Q. simpl in Q. apply in_app_or in Q. destruct Q as [Q|[Q|[]]]; [left; exact Q|].
          right. exists e. split; [left; reflexivity | auto].
        * right. exists e'. split; [right; exact He' | exact Q].
  Qed.

  Lemma branch_ends_ok : forall l orc j cur r s,
    good cur -> (has_node cur s = true \/ s = kSTART) -> nodes_ok r -> sub cur r ->
    (forall p, In p (g_tvm cur) -> seq r p) -> (forall e, In e l -> seq r (s, e)) ->
    (forall e, In e l -> has_node cur e = true \/ e = kEND) ->
    exists f, branch_ends u false orc j cur s l = Some f.
  Proof.
    induction l as [|e rest IH]; intros orc j cur r s G Hs NR SB C Cl Hl; simpl; [eauto|].
    rewrite (has_or_inv _ _ _ (Hl e (or_introl eq_refl))).
    pose proof (Hl e (or_introl eq_refl)) as He.
    unfold update_sel.
    set (sta := set_tvm cur (g_tvm cur ++ [(s, e)])).
    assert (Ga : good sta).
    { split; [exact (proj1 G)|]. unfold sta; simpl. intros p Hp. apply in_app_or in Hp.
      destruct Hp as [Hp|[Hp|[]]]; [apply (proj2 G p Hp)|]. subst p. split; simpl; auto. }
    assert (Sa : sub sta r) by (apply (sub_same_nodes cur); auto).
    assert (Ca : forall p, In p (g_tvm sta) -> seq r p).
    { simpl. intros p Hp. apply in_app_or in Hp. destruct Hp as [Hp|[Hp|[]]]; [apply C; exact Hp|].
      subst. apply Cl. left; reflexivity. }
    pose proof (update_ok u (S (List.length (g_tvm sta))) (orc (S j)) 0 sta r Ga NR Sa Ca) as NF.
    pose proof (update_tvm_fuel u (orc (S j)) sta Ga) as NU. unfold update_tvm in *.
    destruct (update u (S (List.length (g_tvm sta))) (orc (S j)) 0 sta) as [st1| |] eqn:U; [|congruence|congruence].
    assert (S1 : sub st1 r).
    { eapply update_sub; [exact Ga | exact NR | exact Sa | | exact U]. intros p Hp. apply seq_ceq. apply Ca; exact Hp. }
    destruct (update_spec u _ _ _ _ _ Ga U) as [X1 [G1 [IN _]]].
    assert (SC : same_core st1 (mark_ends st1 s e)) by (unfold same_core; simpl; repeat split; reflexivity).
    assert (XM : ext cur (mark_ends st1 s e)).
    { eapply ext_trans; [apply ext_set_tvm|]. eapply ext_trans; [exact X1 | apply same_core_ext; exact SC]. }
    apply (IH orc (S j) (mark_ends st1 s e) r s).
    - eapply good_same_core; eauto.
    - destruct Hs as [Hs|Hs]; [left; eapply ext_has_node; eauto | right; exact Hs].
    - exact NR.
    - apply (sub_same_nodes st1); auto.
    - simpl. intros p Hp. apply Ca. apply IN. exact Hp.
    - intros e' He'. apply Cl. right; exact He'.
    - intros e' He'. destruct (Hl e' (or_intror He')) as [Q|Q]; [left; eapply ext_has_node; eauto | right; exact Q].
  Qed.

  Lemma add_branch_sub : forall orc cur r s t ends choice cur',
    inv u cur -> nodes_ok r -> sub cur r ->
    (forall p, In p (g_tvm cur) -> ceq r p) -> out_ty r s = Some t -> (forall e, In e ends -> ceq r (s, e)) ->
    add_branch u false false false orc cur s t ends choice = (cur', true) ->
    sub cur' r /\ (forall p, In p (g_tvm cur') -> In p (g_tvm cur) \/ exists e, In e ends /\ p = (s, e)).
  Proof.
    intros orc cur r s t ends choice cur' I NR SB C Or Cl H.
    destruct (add_branch_shape u _ _ _ _ _ _ _ _ H) as [[F _]|[_ [_ [_ [Hs [_ [_ Q]]]]]]]; [discriminate|].
    destruct Q as [p1 [a [st2 [BP [Oa [_ [BE E]]]]]]]. subst cur'.
    destruct (branch_pre_spec u _ _ _ _ _ (inv_good u _ I) BP) as [X1 [G1 _]].
    destruct (branch_pre_sub _ _ _ _ _ _ (inv_good u _ I) NR SB C Or BP) as [S1 T1].
    assert (Hs1 : has_node p1 s = true \/ s = kSTART).
    { destruct Hs as [Hs|Hs]; [left; eapply ext_has_node; eauto | right; exact Hs]. }
    destruct (branch_ends_sub _ _ _ _ _ _ _ G1 Hs1 NR S1 (fun p Hp => C p (T1 p Hp))
                (fun e He => Cl e (proj1 (In_order_keys _ _ _) He)) BE) as [S2 T2].
    split; [apply (sub_same_nodes st2); auto|].
    simpl. intros p Hp. destruct (T2 p Hp) as [Q|[e [He Q]]]; [left; apply T1; exact Q|].
    right. exists e. split; [exact (proj1 (In_order_keys _ _ _) He) | exact Q].
  Qed.

  Lemma add_branch_ok : forall orc cur r s t ends choice,
    inv u cur -> nodes_ok r -> sub cur r ->
    (forall p, In p (g_tvm cur) -> seq r p) -> out_ty r s = Some t -> (forall e, In e ends -> seq r (s, e)) ->
    g_err cur = false -> g_compiled cur = false -> s <> kEND -> List.length ends <> 1%nat ->
    (has_node cur s = true \/ s = kSTART) -> (forall e, In e ends -> has_node cur e = true \/ e = kEND) ->
    snd (add_branch u false false false orc cur s t ends choice) = true.
  Proof.
    intros orc cur r s t ends choice I NR SB C Or Cl GE GC SE LE Hs Hl. unfold add_branch.
    rewrite GE, GC. apply N.eqb_neq in SE. rewrite SE. rewrite (has_or_inv _ _ _ Hs).
    apply Nat.eqb_neq in LE. rewrite LE.
    destruct (branch_pre_ok (fun n => orc 0%nat (S n)) cur r s t (inv_good u _ I) NR SB C Or) as [p1 BP]. rewrite BP.
    destruct (branch_pre_spec u _ _ _ _ _ (inv_good u _ I) BP) as [X1 [G1 _]].
    destruct (branch_pre_sub _ _ _ _ _ _ (inv_good u _ I) NR SB (fun p Hp => seq_ceq _ _ (C p Hp)) Or BP) as [S1 T1].
    assert (Hs1 : has_node p1 s = true \/ s = kSTART).
    { destruct Hs as [Hs|Hs]; [left; eapply ext_has_node; eauto | right; exact Hs]. }
    (* the condition's type *)
    assert (Oa : out_ty p1 s = Some t).
    { destruct (out_ty cur s) as [a|] eqn:O0.
      - pose proof (ext_out_ty _ _ _ _ X1 O0) as O1. rewrite (sub_out_ty _ _ _ _ S1 O1) in Or. congruence.
      - exact (branch_pre_out _ cur s t p1 (inv_good u _ I) Hs BP O0). }
    rewrite Oa, check_refl.
    destruct (branch_ends_ok (order_keys (orc 0%nat 0%nat) ends) orc 0%nat p1 r s G1 Hs1 NR S1
                (fun p Hp => C p (T1 p Hp))) as [f BE].
    - intros e He. apply Cl. exact (proj1 (In_order_keys _ _ _) He).
    - intros e He. apply (proj1 (In_order_keys _ _ _)) in He. destruct (Hl e He) as [Q|Q]; [left; eapply ext_has_node; eauto | right; exact Q].
    - rewrite BE. reflexivity.
  Qed.
End B.

(* ==================================================================== a property of all known types *)

Definition tyP (P : ty -> Prop) (st : gstate) : Prop :=
  P (g_in st) /\ P (g_out st) /\
  forall k n t, get_node st k = Some n -> (n_in n = Some t \/ n_out n = Some t) -> P t.

Lemma tyP_in : forall P st k t, tyP P st -> in_ty st k = Some t -> P t.
Proof.
  intros P st k t [A [B C]]. unfold in_ty.
  destruct (N.eqb k kSTART); [intro H; inversion H; subst; exact A|].
  destruct (N.eqb k kEND); [intro H; inversion H; subst; exact B|].
  destruct (get_node st k) as [n|] eqn:G; [|discriminate]. intro H. apply (C k n t G). left; exact H.
Qed.
Lemma tyP_out : forall P st k t, tyP P st -> out_ty st k = Some t -> P t.
Proof.
  intros P st k t [A [B C]]. unfold out_ty.
  destruct (N.eqb k kSTART); [intro H; inversion H; subst; exact A|].
  destruct (N.eqb k kEND); [intro H; inversion H; subst; exact B|].
  destruct (get_node st k) as [n|] eqn:G; [|discriminate]. intro H. apply (C k n t G). right; exact H.
Qed.
Lemma tyP_same_nodes : forall P st st',
  g_in st' = g_in st -> g_out st' = g_out st -> g_nodes st' = g_nodes st -> tyP P st -> tyP P st'.
Proof.
  intros P st st' A B C [X [Y Z]]. split; [rewrite A; exact X|]. split; [rewrite B; exact Y|].
  intros k n t G. unfold get_node in G. rewrite C in G. apply (Z k n t G).
Qed.
Lemma tyP_set_pass : forall P st k t, tyP P st -> P t -> tyP P (set_pass_ty st k t).
Proof.
  intros P st k t [X [Y Z]] Pt. split; [exact X|]. split; [exact Y|].
  intros k' n' t' G H. rewrite get_node_set_pass_ty in G. destruct (N.eqb k k'); [|exact (Z k' n' t' G H)].
  destruct (get_node st k') as [n|] eqn:Gn; [|discriminate]. simpl in G. inversion G; subst n'. simpl in H.
  destruct H as [H|H]; inversion H; subst; exact Pt.
Qed.

Section C.
  Variable u : univ.
  Variable P : ty -> Prop.

  Lemma process_entry_tyP : forall st s e st', tyP P st -> process_entry u st s e = PDone st' -> tyP P st'.
  Proof.
    intros st s e st' T H. unfold process_entry, process_types in H.
    destruct (out_ty st s) as [ta|] eqn:Oa; destruct (in_ty st e) as [tb|] eqn:Ib.
    - destruct (check_assignable u (Some ta) (Some tb)); inversion H; subst; [exact T|].
      apply (tyP_same_nodes P st); auto.
    - inversion H; subst. apply tyP_set_pass; [exact T | exact (tyP_out P st s ta T Oa)].
    - inversion H; subst. apply tyP_set_pass; [exact T | exact (tyP_in P st e tb T Ib)].
    - discriminate.
  Qed.

  Lemma pass_tyP : forall todo st st' kept ch, tyP P st -> pass u st todo = Some (st', kept, ch) -> tyP P st'.
  Proof.
    induction todo as [|[s e] rest IH]; intros st st' kept ch T H; simpl in H.
    - inversion H; subst; exact T.
    - destruct (process_entry u st s e) as [|st1|] eqn:PE.
      + destruct (pass u st rest) as [[[st2 k2] c2]|] eqn:PR; [|discriminate]. inversion H; subst. eapply IH; eauto.
      + destruct (pass u st1 rest) as [[[st2 k2] c2]|] eqn:PR; [|discriminate]. inversion H; subst.
        eapply IH; [eapply process_entry_tyP; eauto | exact PR].
      + discriminate.
  Qed.

  Lemma update_tyP : forall fuel orc n st st', tyP P st -> update u fuel orc n st = UOk st' -> tyP P st'.
  Proof.
    induction fuel as [|f IH]; intros orc n st st' T H; simpl in H; [discriminate|].
    destruct (pass u st _) as [[[st1 kept] ch]|] eqn:PS; [|discriminate].
    pose proof (pass_tyP _ _ _ _ _ T PS) as T1.
    assert (T1' : tyP P (set_tvm st1 kept)) by (apply (tyP_same_nodes P st1); auto).
    destruct ch; [eapply IH; eauto | inversion H; subst; exact T1'].
  Qed.

  Lemma branch_ends_tyP : forall l orc j st s f, tyP P st -> branch_ends u false orc j st s l = Some f -> tyP P f.
  Proof.
    induction l as [|e rest IH]; intros orc j st s f T H; simpl in H.
    - inversion H; subst; exact T.
    - destruct (negb (has_node st e) && negb (N.eqb e kEND)); [discriminate|].
      unfold update_sel, update_tvm in H.
      destruct (update u _ (orc (S j)) 0 (set_tvm st (g_tvm st ++ [(s, e)]))) as [st1| |] eqn:U; [|discriminate|discriminate].
      eapply IH; [|exact H]. apply (tyP_same_nodes P st1); auto.
      eapply update_tyP; [|exact U]. apply (tyP_same_nodes P st); auto.
  Qed.

  Definition op_tyP (o : op) : Prop :=
    match o with
    | OpNode _ i o' _ _ => P i /\ P o'
    | OpBranch _ t _ _ => P t
    | _ => True
    end.

  Lemma step_tyP : forall orc st o, inv u st -> tyP P st -> op_tyP o -> tyP P (fst (step u orc st o)).
  Proof.
    intros orc st o I T OP. destruct (step u orc st o) as [st' ok] eqn:H. simpl.
    destruct o as [k i ot pre post|k pre post|s e|s t ends choice|]; unfold step, step_sel in H.
    - unfold add_node in H.
      repeat match type of H with
             | (if ?c then _ else _) = _ => destruct c; [inversion H; subst; try exact T; apply (tyP_same_nodes P st); auto|]
             end.
      inversion H; subst. destruct T as [X [Y Z]]. split; [exact X|]. split; [exact Y|].
      intros k' n' t' G Hn. unfold get_node in G. simpl in G. rewrite get_app_new in G.
      destruct (nlist_get k' (g_nodes st)) as [x|] eqn:Gx.
      + inversion G; subst. eapply Z; eauto.
      + destruct (N.eqb k' k); [|discriminate]. inversion G; subst n'. simpl in Hn. destruct OP as [Pi Po].
        destruct Hn as [Hn|Hn]; inversion Hn; subst; assumption.
    - unfold add_node in H.
      repeat match type of H with
             | (if ?c then _ else _) = _ => destruct c; [inversion H; subst; try exact T; apply (tyP_same_nodes P st); auto|]
             end.
      inversion H; subst. destruct T as [X [Y Z]]. split; [exact X|]. split; [exact Y|].
      intros k' n' t' G Hn. unfold get_node in G. simpl in G. rewrite get_app_new in G.
      destruct (nlist_get k' (g_nodes st)) as [x|] eqn:Gx.
      + inversion G; subst. eapply Z; eauto.
      + destruct (N.eqb k' k); [|discriminate]. inversion G; subst n'. simpl in Hn. destruct Hn as [Hn|Hn]; discriminate.
    - destruct (add_edge_shape u _ _ _ _ _ _ H) as [[_ [E|E]]|[_ [_ [_ [_ [_ [_ [_ [_ [_ Q]]]]]]]]]].
      + subst; exact T.
      + subst; apply (tyP_same_nodes P st); auto.
      + simpl in Q. destruct Q as [st2 [U E]]. subst st'. apply (tyP_same_nodes P st2); auto.
        unfold update_tvm in U. eapply update_tyP; [|exact U]. apply (tyP_same_nodes P st); auto.
    - destruct (add_branch_shape u _ _ _ _ _ _ _ _ H) as [[_ [E|E]]|[_ [_ [_ [_ [_ [_ Q]]]]]]].
      + subst; exact T.
      + subst; apply (tyP_same_nodes P st); auto.
      + destruct Q as [p1 [a [st2 [BP [_ [_ [BE E]]]]]]]. subst st'. apply (tyP_same_nodes P st2); auto.
        eapply branch_ends_tyP; [|exact BE].
        unfold branch_pre in BP.
        destruct (negb (N.eqb s kSTART) && is_pass st s && _).
        * unfold update_sel, update_tvm in BP. eapply update_tyP; [|exact BP]. apply tyP_set_pass; [exact T | exact OP].
        * inversion BP; subst; exact T.
    - unfold compile in H.
      repeat match type of H with
             | (if ?c then _ else _) = _ => destruct c; [inversion H; subst; exact T|]
             end.
      destruct (g_tvm st); [|inversion H; subst; exact T].
      destruct (existsb _ _); inversion H; subst; [exact T | apply (tyP_same_nodes P st); auto].
  Qed.
End C.

(* ==================================================================== frames and inversions of the calls *)

(* every field but nodes (same keys), tvm, hedge and the two flags *)
Record frame0 (a b : gstate) : Prop := {
  f0_in : g_in b = g_in a; f0_out : g_out b = g_out a; f0_st : g_st b = g_st a;
  f0_data : g_data b = g_data a; f0_ctrl : g_ctrl b = g_ctrl a; f0_branches : g_branches b = g_branches a;
  f0_err : g_err b = g_err a; f0_compiled : g_compiled b = g_compiled a;
  f0_keys : map fst (g_nodes b) = map fst (g_nodes a)
}.
Lemma frame0_refl : forall a, frame0 a a.
Proof. intro a; constructor; reflexivity. Qed.
Lemma frame0_trans : forall a b c, frame0 a b -> frame0 b c -> frame0 a c.
Proof. intros a b c [] []; constructor; congruence. Qed.
Lemma frame_frame0 : forall a b, frame a b -> frame0 a b.
Proof. intros a b []; constructor; assumption. Qed.

Section D.
  Variable u : univ.

  Lemma branch_pre_frame : forall orc st s t p1,
    branch_pre u false false false orc st s t = UOk p1 -> frame st p1.
  Proof.
    intros orc st s t p1 H. unfold branch_pre in H.
    destruct (negb (N.eqb s kSTART) && is_pass st s && _).
    - unfold update_sel, update_tvm in H. eapply frame_trans; [apply frame_set_pass_ty | eapply update_frame; exact H].
    - inversion H; subst; apply frame_refl.
  Qed.

  Lemma branch_ends_frame0 : forall l orc j st s f,
    branch_ends u false orc j st s l = Some f -> frame0 st f.
  Proof.
    induction l as [|e rest IH]; intros orc j st s f H; simpl in H.
    - inversion H; subst; apply frame0_refl.
    - destruct (negb (has_node st e) && negb (N.eqb e kEND)); [discriminate|].
      unfold update_sel, update_tvm in H.
      destruct (update u _ (orc (S j)) 0 (set_tvm st (g_tvm st ++ [(s, e)]))) as [st1| |] eqn:U; [|discriminate|discriminate].
      pose proof (update_frame u _ _ _ _ _ U) as F1.
      eapply frame0_trans; [|eapply IH; exact H].
      destruct F1; constructor; simpl in *; assumption.
  Qed.

  Lemma branch_ends_has : forall l orc j st s f,
    branch_ends u false orc j st s l = Some f -> forall e, In e l -> has_node st e = true \/ e = kEND.
  Proof.
    induction l as [|e0 rest IH]; intros orc j st s f H e He; simpl in H; [destruct He|].
    destruct (negb (has_node st e0) && negb (N.eqb e0 kEND)) eqn:C; [discriminate|]. apply has_or in C.
    destruct He as [He|He]; [subst; exact C|].
    unfold update_sel, update_tvm in H.
    destruct (update u _ (orc (S j)) 0 (set_tvm st (g_tvm st ++ [(s, e0)]))) as [st1| |] eqn:U; [|discriminate|discriminate].
    destruct (IH _ _ _ _ _ H e He) as [Q|Q]; [left|right; exact Q].
    rewrite (keys_has_node st (mark_ends st1 s e0) e) in Q; [exact Q|].
    simpl. exact (fr_keys _ _ (update_frame u _ _ _ _ _ U)).
  Qed.

  Lemma add_node_shape : forall st k isp i o pre post st' ok,
    add_node st k isp i o pre post = (st', ok) ->
    (ok = false /\ (st' = st \/ st' = set_err st)) \/
    (ok = true /\ g_err st = false /\ g_compiled st = false /\ k <> kSTART /\ k <> kEND /\
     has_node st k = false /\ handler_ok st i pre = true /\ handler_ok st o post = true /\
     st' = set_nodes st (g_nodes st ++ [(k, {| n_pass := isp; n_in := i; n_out := o;
                                              n_pre := option_map h_ty pre; n_post := option_map h_ty post;
                                              n_pre_ret := match pre with Some h => h_ret h | None => None end;
                                              n_post_ret := match post with Some h => h_ret h | None => None end |})])).
  Proof.
    intros st k isp i o pre post st' ok H. unfold add_node in H.
    destruct (g_err st); [inversion H; subst; left; auto|].
    destruct (g_compiled st); [inversion H; subst; left; auto|].
    destruct (N.eqb_spec k kSTART); [simpl in H; inversion H; subst; left; auto|].
    destruct (N.eqb_spec k kEND); [simpl in H; inversion H; subst; left; auto|]. simpl in H.
    destruct (has_node st k); [inversion H; subst; left; auto|].
    destruct (handler_ok st i pre); simpl in H; [|inversion H; subst; left; auto].
    destruct (handler_ok st o post); simpl in H; [|inversion H; subst; left; auto].
    inversion H; subst. right. repeat (split; [solve [auto]|]). reflexivity.
  Qed.

  (* a failing call (not Compile, graph not compiled, no error so far) records the error *)
  Lemma step_false_err : forall orc st o,
    g_err st = false -> g_compiled st = false -> o <> OpCompile ->
    snd (step u orc st o) = false -> g_err (fst (step u orc st o)) = true.
  Proof.
    intros orc st o GE GC NC. destruct o as [k i ot pre post|k pre post|s e|s t ends choice|]; unfold step, step_sel.
    - unfold add_node. rewrite GE, GC.
      repeat match goal with |- context [if ?c then _ else _] => destruct c; simpl; try reflexivity; try discriminate end.
    - unfold add_node. rewrite GE, GC.
      repeat match goal with |- context [if ?c then _ else _] => destruct c; simpl; try reflexivity; try discriminate end.
    - unfold add_edge. rewrite GE, GC.
      repeat match goal with |- context [if ?c then _ else _] => destruct c; simpl; try reflexivity; try discriminate end.
      match goal with |- context [update_tvm u ?a ?b] => destruct (update_tvm u a b) end; simpl; try reflexivity; discriminate.
    - unfold add_branch. rewrite GE, GC.
      repeat match goal with |- context [if ?c then _ else _] => destruct c; simpl; try reflexivity; try discriminate end.
      match goal with |- context [branch_pre u false false false ?a st s t] => destruct (branch_pre u false false false a st s t) end; simpl; try reflexivity.
      match goal with |- context [check_assignable u ?a ?b] => destruct (check_assignable u a b) end; simpl; try reflexivity;
        match goal with |- context [branch_ends u false orc 0 ?a s ?b] => destruct (branch_ends u false orc 0 a s b) end; simpl; try reflexivity; discriminate.
    - congruence.
  Qed.

  Lemma step_err_stuck : forall orc st o, g_err st = true -> step u orc st o = (st, false).
  Proof.
    intros orc st o GE. destruct o; unfold step, step_sel, add_node, add_edge, add_branch, compile; rewrite GE; reflexivity.
  Qed.

  Lemma run_err_stuck : forall L orcs j st, g_err st = true -> fst (run_ops u orcs j st L) = st.
  Proof.
    induction L as [|o rest IH]; intros orcs j st GE; unfold run_ops in *; simpl; [reflexivity|].
    change (step_sel u false false false (orcs j) st o) with (step u (orcs j) st o).
    rewrite (step_err_stuck _ _ _ GE).
    specialize (IH orcs (S j) st GE). destruct (run_ops_sel u false false false orcs (S j) st rest). simpl in *. exact IH.
  Qed.
End D.

(* ==================================================================== whole sequences *)

Definition nodekeys (L : list op) : list key :=
  flat_map (fun o => match o with OpNode k _ _ _ _ => [k] | OpPass k _ _ => [k] | _ => [] end) L.
Definition edges_of (L : list op) : list (key * key) :=
  flat_map (fun o => match o with OpEdge s e => [(s, e)] | _ => [] end) L.
Definition no_compile (L : list op) : Prop := Forall (fun o => o <> OpCompile) L.

(* node-before-use *)
Definition uses_ok (have : list key) (o : op) : Prop :=
  match o with
  | OpEdge s e => (In s have \/ s = kSTART) /\ (In e have \/ e = kEND)
  | OpBranch s _ ends _ => (In s have \/ s = kSTART) /\ forall e, In e ends -> In e have \/ e = kEND
  | _ => True
  end.
Fixpoint nbu (have : list key) (L : list op) : Prop :=
  match L with
  | [] => True
  | o :: rest => uses_ok have o /\ nbu (have ++ nodekeys [o]) rest
  end.

(* the checks of a call that do not depend on the other calls *)
Definition static_ok (st0 : gstate) (o : op) : Prop :=
  match o with
  | OpNode k i o' pre post =>
      k <> kSTART /\ k <> kEND /\ handler_ok st0 (Some i) pre = true /\ handler_ok st0 (Some o') post = true
  | OpPass k pre post =>
      k <> kSTART /\ k <> kEND /\ handler_ok st0 None pre = true /\ handler_ok st0 None post = true
  | OpEdge s e => s <> kEND /\ e <> kSTART
  | OpBranch s _ ends _ => s <> kEND /\ List.length ends <> 1%nat
  | OpCompile => False
  end.

Lemma handler_ok_gst : forall a b d h, g_st b = g_st a -> handler_ok b d h = handler_ok a d h.
Proof. intros a b d h E. unfold handler_ok. rewrite E. reflexivity. Qed.
Lemma static_ok_gst : forall a b o, g_st b = g_st a -> static_ok a o -> static_ok b o.
Proof.
  intros a b o E. destruct o; simpl; auto; rewrite !(handler_ok_gst a b _ _ E); auto.
Qed.

(* what a reference state knows about a call; [Q] says how its connections look *)
Definition opref (Q : gstate -> key * key -> Prop) (r : gstate) (o : op) : Prop :=
  match o with
  | OpNode k i o' _ _ =>
      exists n, get_node r k = Some n /\ n_pass n = false /\ n_in n = Some i /\ n_out n = Some o'
  | OpPass k _ _ => exists n, get_node r k = Some n /\ n_pass n = true
  | OpEdge s e => Q r (s, e)
  | OpBranch s t ends _ => out_ty r s = Some t /\ forall e, In e ends -> Q r (s, e)
  | OpCompile => True
  end.
Lemma opref_imp : forall (Q Q' : gstate -> key * key -> Prop) r o,
  (forall p, Q r p -> Q' r p) -> opref Q r o -> opref Q' r o.
Proof. intros Q Q' r o H. destruct o; simpl; auto. intros [A B]. split; auto. Qed.

Lemma has_node_in_keys : forall st k, has_node st k = true <-> In k (map fst (g_nodes st)).
Proof.
  intros st k. unfold has_node, get_node. induction (g_nodes st) as [|[k0 n0] l IH]; simpl.
  - split; [discriminate | tauto].
  - destruct (N.eqb_spec k k0) as [E|E].
    + split; [intros _; left; auto | reflexivity].
    + rewrite IH. split; [auto|]. intros [Q|Q]; [congruence | exact Q].
Qed.
Lemma mem_pair_In : forall p l, mem_pair p l = true <-> In p l.
Proof.
  intros [a b] l. unfold mem_pair. rewrite existsb_exists. split.
  - intros [[c d] [H Q]]. unfold pair_eqb in Q; simpl in Q. apply andb_true_iff in Q. destruct Q as [Q1 Q2].
    apply N.eqb_eq in Q1. apply N.eqb_eq in Q2. subst. exact H.
  - intro H. exists (a, b). split; [exact H|]. unfold pair_eqb; simpl. rewrite !N.eqb_refl. reflexivity.
Qed.

Lemma sub_same_nodes_r : forall cur r r',
  g_in r' = g_in r -> g_out r' = g_out r -> g_nodes r' = g_nodes r -> sub cur r -> sub cur r'.
Proof.
  intros cur r r' A B C [X [Y Z]]. split; [congruence|]. split; [congruence|].
  intros k n G. destruct (Z k n G) as [n' [G' R]]. exists n'. split; [|exact R]. unfold get_node in *. rewrite C. exact G'.
Qed.

Section E.
  Variable u : univ.

  (* ---------------------------------------------------------------- every call only adds knowledge *)

  Lemma step_self : forall orc st o,
    inv u st -> sub st (fst (step u orc st o)) /\ incl (conns st) (conns (fst (step u orc st o))).
  Proof.
    intros orc st o I. destruct (step u orc st o) as [st' ok] eqn:H. simpl.
    destruct o as [k i ot pre post|k pre post|s e|s t ends choice|]; unfold step, step_sel in H.
    - destruct (add_node_spec u st k false (Some i) (Some ot) pre post st' ok I) as [_ X]; auto.
      { discriminate. } { intros _; eauto. }
      split; [apply ext_sub; exact X | rewrite (conns_ext _ _ X); apply incl_refl].
    - destruct (add_node_spec u st k true None None pre post st' ok I) as [_ X]; auto.
      { discriminate. }
      split; [apply ext_sub; exact X | rewrite (conns_ext _ _ X); apply incl_refl].
    - destruct (add_edge_shape u _ _ _ _ _ _ H) as [[_ [E|E]]|[_ [_ [_ [Hs [He [_ [_ [_ [_ Q]]]]]]]]]].
      + subst. split; [apply sub_refl | apply incl_refl].
      + subst. split; [apply (sub_same_nodes_r st st); auto; apply sub_refl | apply incl_refl].
      + simpl in Q. destruct Q as [st2 [U E]]. subst st'.
        set (m := mark_ends (set_ctrl st (g_ctrl st ++ [(s, e)])) s e) in *.
        assert (SC : same_core st m) by (unfold same_core, m; simpl; repeat split; reflexivity).
        pose proof (same_core_inv u _ _ SC I) as I1.
        set (sta := set_tvm m (g_tvm m ++ [(s, e)])) in *.
        assert (Ga : good sta).
        { split; [exact (inv_nodes _ _ I1)|]. simpl. intros p Hp. apply in_app_or in Hp. destruct Hp as [Hp|[Hp|[]]].
          - apply (inv_tvm _ _ I1 p Hp).
          - subst p. split; simpl; auto. }
        unfold update_tvm in U. destruct (update_spec u _ _ _ _ _ Ga U) as [X2 _].
        assert (X : ext st st2).
        { eapply ext_trans; [apply same_core_ext; exact SC|]. eapply ext_trans; [apply ext_set_tvm | exact X2]. }
        split; [apply (sub_same_nodes_r st st2); auto; apply ext_sub; exact X|].
        unfold conns. simpl. change (branch_pairs (set_data st2 (g_data st2 ++ [(s, e)]))) with (branch_pairs st2).
        unfold branch_pairs. rewrite (ext_data _ _ X), (ext_branches _ _ X).
        intros p Hp. apply in_app_or in Hp. apply in_or_app. destruct Hp as [Hp|Hp]; [left; apply in_or_app; left; exact Hp | right; exact Hp].
    - destruct (add_branch_shape u _ _ _ _ _ _ _ _ H) as [[_ [E|E]]|[_ [_ [_ [Hs [_ [_ Q]]]]]]].
      + subst. split; [apply sub_refl | apply incl_refl].
      + subst. split; [apply (sub_same_nodes_r st st); auto; apply sub_refl | apply incl_refl].
      + destruct Q as [p1 [a [st2 [BP [_ [_ [BE E]]]]]]]. subst st'.
        destruct (branch_pre_spec u _ _ _ _ _ (inv_good u _ I) BP) as [X1 [G1 _]].
        assert (Hs1 : has_node p1 s = true \/ s = kSTART).
        { destruct Hs as [Hs|Hs]; [left; eapply ext_has_node; eauto | right; exact Hs]. }
        destruct (branch_ends_spec u _ _ _ _ _ _ G1 Hs1 BE) as [X2 _].
        assert (X : ext st st2) by (eapply ext_trans; eauto).
        split; [apply (sub_same_nodes_r st st2); auto; apply ext_sub; exact X|].
        unfold conns. rewrite branch_pairs_app. simpl.
        unfold branch_pairs. rewrite (ext_data _ _ X), (ext_branches _ _ X).
        intros p Hp. apply in_app_or in Hp. apply in_or_app. destruct Hp as [Hp|Hp]; [left; exact Hp | right; apply in_or_app; left; exact Hp].
    - unfold compile in H.
      repeat match type of H with
             | (if ?c then _ else _) = _ => destruct c; [inversion H; subst; split; [apply sub_refl | apply incl_refl]|]
             end.
      destruct (g_tvm st); [|inversion H; subst; split; [apply sub_refl | apply incl_refl]].
      destruct (existsb _ _); inversion H; subst; split; try apply sub_refl; try apply incl_refl.
      apply (sub_same_nodes_r st st); auto; apply sub_refl.
  Qed.

  Lemma run_self : forall L orcs j st,
    inv u st -> sub st (fst (run_ops u orcs j st L)) /\ incl (conns st) (conns (fst (run_ops u orcs j st L))).
  Proof.
    induction L as [|o rest IH]; intros orcs j st I; unfold run_ops in *; simpl.
    - split; [apply sub_refl | apply incl_refl].
    - destruct (step_self (orcs j) st o I) as [S1 C1]. unfold step in S1, C1.
      destruct (step_sel u false false false (orcs j) st o) as [st1 ok] eqn:Hs. simpl in S1, C1.
      assert (I1 : inv u st1) by (destruct (step_spec u _ _ _ _ _ I Hs) as [I1 _]; exact I1).
      destruct (IH orcs (S j) st1 I1) as [S2 C2].
      destruct (run_ops_sel u false false false orcs (S j) st1 rest) as [st2 oks]. simpl in *.
      split; [eapply sub_trans; eauto | eapply incl_tran; eauto].
  Qed.
End E.

Lemma compile_shape : forall st st' ok,
  compile st = (st', ok) ->
  (st' = st /\ ok = false) \/
  (st' = set_compiled st /\ ok = true /\ g_tvm st = [] /\ g_err st = false /\
   g_has_start st = true /\ g_has_end st = true /\
   existsb (fun p : key * node => match n_in (snd p) with None => true | Some _ => false end) (g_nodes st) = false).
Proof.
  intros st st' ok H. unfold compile in H.
  destruct (g_err st); [inversion H; auto|].
  destruct (g_has_start st); simpl in H; [|inversion H; auto].
  destruct (g_has_end st); simpl in H; [|inversion H; auto].
  destruct (g_tvm st) as [|x l]; [|inversion H; auto].
  destruct (existsb _ (g_nodes st)) eqn:EX; inversion H; subst; [left; auto|].
  right. repeat split; auto.
Qed.

(* the connections a call adds to toValidateMap *)
Definition oppair (o : op) (p : key * key) : Prop :=
  match o with
  | OpEdge s e => p = (s, e)
  | OpBranch s _ ends _ => exists e, In e ends /\ p = (s, e)
  | _ => False
  end.
Lemma oppair_Q : forall (Q : gstate -> key * key -> Prop) r o p, opref Q r o -> oppair o p -> Q r p.
Proof.
  intros Q r o p OR OP. destruct o; simpl in *; try contradiction.
  - subst; exact OR.
  - destruct OP as [e [He E]]. subst. apply (proj2 OR). exact He.
Qed.

Section F.
  Variable u : univ.

  (* ---------------------------------------------------------------- a successful call against a reference *)

  Lemma step_sub : forall orc cur r o,
    inv u cur -> nodes_ok r -> sub cur r -> (forall p, In p (g_tvm cur) -> ceq r p) -> opref ceq r o ->
    snd (step u orc cur o) = true ->
    sub (fst (step u orc cur o)) r /\
    (forall p, In p (g_tvm (fst (step u orc cur o))) -> In p (g_tvm cur) \/ oppair o p).
  Proof.
    intros orc cur r o I NR SB C OR OK. destruct (step u orc cur o) as [cur' ok] eqn:H. simpl in *. subst ok.
    destruct o as [k i ot pre post|k pre post|s e|s t ends choice|]; unfold step, step_sel in H; simpl in OR.
    - destruct (add_node_shape _ _ _ _ _ _ _ _ _ H) as [[F _]|[_ [_ [_ [_ [_ [HN [_ [_ E]]]]]]]]]; [discriminate|]. subst cur'.
      split; [|simpl; auto]. destruct SB as [A [B Z]]. split; [exact A|]. split; [exact B|].
      intros k' n' G. unfold get_node in G. simpl in G. rewrite get_app_new in G.
      destruct (nlist_get k' (g_nodes cur)) as [x|] eqn:Gx.
      + inversion G; subst. apply Z. exact Gx.
      + destruct (N.eqb_spec k' k) as [Ek|Ek]; [|discriminate]. subst k'. inversion G; subst n'. simpl.
        destruct OR as [m [Gm [Pm [Im Om]]]]. exists m. split; [exact Gm|]. split; [exact Pm|].
        split; intros t0 Ht; inversion Ht; subst; assumption.
    - destruct (add_node_shape _ _ _ _ _ _ _ _ _ H) as [[F _]|[_ [_ [_ [_ [_ [HN [_ [_ E]]]]]]]]]; [discriminate|]. subst cur'.
      split; [|simpl; auto]. destruct SB as [A [B Z]]. split; [exact A|]. split; [exact B|].
      intros k' n' G. unfold get_node in G. simpl in G. rewrite get_app_new in G.
      destruct (nlist_get k' (g_nodes cur)) as [x|] eqn:Gx.
      + inversion G; subst. apply Z. exact Gx.
      + destruct (N.eqb_spec k' k) as [Ek|Ek]; [|discriminate]. subst k'. inversion G; subst n'. simpl.
        destruct OR as [m [Gm Pm]]. exists m. split; [exact Gm|]. split; [exact Pm|].
        split; intros t0 Ht; discriminate.
    - destruct (add_edge_sub u _ _ _ _ _ _ I NR SB C OR H) as [S' T'].
      split; [exact S'|]. intros p Hp. destruct (T' p Hp) as [Q|Q]; [left; exact Q | right; exact Q].
    - destruct OR as [Or Cl].
      destruct (add_branch_sub u _ _ _ _ _ _ _ _ I NR SB C Or Cl H) as [S' T'].
      split; [exact S'|]. intros p Hp. destruct (T' p Hp) as [Q|[e [He Q]]]; [left; exact Q | right; exists e; auto].
    - destruct (compile_shape _ _ _ H) as [[_ F]|[E [_ [T _]]]]; [discriminate|]. subst cur'.
      split; [apply (sub_same_nodes cur); auto|]. simpl. rewrite T. intros p [].
  Qed.

  (* ---------------------------------------------------------------- the structure a sequence needs *)

  Definition STR (cur : gstate) (L : list op) : Prop :=
    NoDup (map fst (g_nodes cur) ++ nodekeys L) /\
    NoDup (g_ctrl cur ++ edges_of L) /\
    g_data cur = g_ctrl cur /\
    nbu (map fst (g_nodes cur)) L /\
    Forall (static_ok cur) L.

  Lemma NoDup_app_notin_l : forall (A : Type) (l1 l2 : list A) x, NoDup (l1 ++ x :: l2) -> ~ In x l1.
  Proof.
    intros A l1 l2 x H Hin. apply NoDup_remove_2 in H. apply H. apply in_or_app. left; exact Hin.
  Qed.

  Lemma step_ok : forall orc cur r o rest,
    inv u cur -> g_err cur = false -> g_compiled cur = false ->
    nodes_ok r -> sub cur r -> (forall p, In p (g_tvm cur) -> seq r p) -> opref seq r o ->
    STR cur (o :: rest) ->
    snd (step u orc cur o) = true /\ STR (fst (step u orc cur o)) rest /\
    g_err (fst (step u orc cur o)) = false /\ g_compiled (fst (step u orc cur o)) = false.
  Proof.
    intros orc cur r o rest I GE GC NR SB C OR [N1 [N2 [N3 [N4 N5]]]].
    inversion N5 as [|o0 l0 SO N5']; subst. destruct N4 as [UO N4'].
    destruct o as [k i ot pre post|k pre post|s e|s t ends choice|]; simpl in SO, UO, OR; [| | | |destruct SO].
    - (* AddLambdaNode *)
      destruct SO as [K1 [K2 [H1 H2]]]. simpl in N1.
      assert (HN : has_node cur k = false).
      { destruct (has_node cur k) eqn:Q; [|reflexivity]. exfalso. apply has_node_in_keys in Q.
        eapply NoDup_app_notin_l; [exact N1 | exact Q]. }
      unfold step, step_sel, add_node. rewrite GE, GC, HN, H1, H2.
      apply N.eqb_neq in K1. apply N.eqb_neq in K2. rewrite K1, K2. simpl.
      split; [reflexivity|]. split; [|split; [exact GE | exact GC]].
      unfold STR. simpl. rewrite map_app. simpl. split; [|split; [exact N2|split; [exact N3|split]]].
      + rewrite <- app_assoc. simpl. exact N1.
      + simpl in N4'. exact N4'.
      + eapply Forall_impl; [|exact N5']. intros o0. apply static_ok_gst. reflexivity.
    - (* AddPassthroughNode *)
      destruct SO as [K1 [K2 [H1 H2]]]. simpl in N1.
      assert (HN : has_node cur k = false).
      { destruct (has_node cur k) eqn:Q; [|reflexivity]. exfalso. apply has_node_in_keys in Q.
        eapply NoDup_app_notin_l; [exact N1 | exact Q]. }
      unfold step, step_sel, add_node. rewrite GE, GC, HN, H1, H2.
      apply N.eqb_neq in K1. apply N.eqb_neq in K2. rewrite K1, K2. simpl.
      split; [reflexivity|]. split; [|split; [exact GE | exact GC]].
      unfold STR. simpl. rewrite map_app. simpl. split; [|split; [exact N2|split; [exact N3|split]]].
      + rewrite <- app_assoc. simpl. exact N1.
      + simpl in N4'. exact N4'.
      + eapply Forall_impl; [|exact N5']. intros o0. apply static_ok_gst. reflexivity.
    - (* AddEdge *)
      destruct SO as [SE ES]. destruct UO as [Us Ue]. simpl in N2.
      assert (Hs : has_node cur s = true \/ s = kSTART) by (destruct Us as [Q|Q]; [left; apply has_node_in_keys; exact Q | right; exact Q]).
      assert (He : has_node cur e = true \/ e = kEND) by (destruct Ue as [Q|Q]; [left; apply has_node_in_keys; exact Q | right; exact Q]).
      assert (MC : mem_pair (s, e) (g_ctrl cur) = false).
      { destruct (mem_pair (s, e) (g_ctrl cur)) eqn:Q; [|reflexivity]. exfalso. apply mem_pair_In in Q.
        eapply NoDup_app_notin_l; [exact N2 | exact Q]. }
      assert (MD : mem_pair (s, e) (g_data cur) = false) by (rewrite N3; exact MC).
      pose proof (add_edge_ok u orc cur r s e I NR SB C OR GE GC SE ES Hs He MC MD) as OK.
      unfold step, step_sel. destruct (add_edge u false orc cur s e) as [cur' ok] eqn:H. simpl in OK. subst ok. simpl.
      split; [reflexivity|].
      destruct (add_edge_shape u _ _ _ _ _ _ H) as [[F _]|[_ [_ [_ [_ [_ [_ [_ [_ [_ Q]]]]]]]]]]; [discriminate|].
      simpl in Q. destruct Q as [st2 [U E]]. subst cur'. unfold update_tvm in U.
      pose proof (update_frame u _ _ _ _ _ U) as F. simpl.
      split; [|split; [rewrite (fr_err _ _ F); exact GE | rewrite (fr_compiled _ _ F); exact GC]].
      unfold STR. simpl. rewrite (fr_keys _ _ F), (fr_ctrl _ _ F), (fr_data _ _ F). simpl.
      split; [exact N1|]. split; [rewrite <- app_assoc; exact N2|]. split; [rewrite N3; reflexivity|]. split; [simpl in N4'; rewrite app_nil_r in N4'; exact N4'|].
      eapply Forall_impl; [|exact N5']. intros o0. apply static_ok_gst. simpl. rewrite (fr_st _ _ F). reflexivity.
    - (* AddBranch *)
      destruct SO as [SE LE]. destruct UO as [Us Ul]. destruct OR as [Or Cl].
      assert (Hs : has_node cur s = true \/ s = kSTART) by (destruct Us as [Q|Q]; [left; apply has_node_in_keys; exact Q | right; exact Q]).
      assert (Hl : forall e, In e ends -> has_node cur e = true \/ e = kEND).
      { intros e He. destruct (Ul e He) as [Q|Q]; [left; apply has_node_in_keys; exact Q | right; exact Q]. }
      pose proof (add_branch_ok u orc cur r s t ends choice I NR SB C Or Cl GE GC SE LE Hs Hl) as OK.
      unfold step, step_sel. destruct (add_branch u false false false orc cur s t ends choice) as [cur' ok] eqn:H.
      simpl in OK. subst ok. simpl. split; [reflexivity|].
      destruct (add_branch_shape u _ _ _ _ _ _ _ _ H) as [[F _]|[_ [_ [_ [_ [_ [_ Q]]]]]]]; [discriminate|].
      destruct Q as [p1 [a [st2 [BP [_ [_ [BE E]]]]]]]. subst cur'.
      pose proof (frame0_trans _ _ _ (frame_frame0 _ _ (branch_pre_frame u _ _ _ _ _ BP)) (branch_ends_frame0 u _ _ _ _ _ _ BE)) as F.
      simpl. split; [|split; [rewrite (f0_err _ _ F); exact GE | rewrite (f0_compiled _ _ F); exact GC]].
      unfold STR. simpl. rewrite (f0_keys _ _ F), (f0_ctrl _ _ F), (f0_data _ _ F).
      split; [exact N1|]. split; [exact N2|]. split; [exact N3|]. split; [simpl in N4'; rewrite app_nil_r in N4'; exact N4'|].
      eapply Forall_impl; [|exact N5']. intros o0. apply static_ok_gst. simpl. rewrite (f0_st _ _ F). reflexivity.
  Qed.
End F.

Section G.
  Variable u : univ.

  Definition conc (t : ty) : Prop := is_iface t = false.

  (* ---------------------------------------------------------------- flags *)

  Definition hs_op (o : op) : bool :=
    match o with
    | OpEdge s _ => N.eqb s kSTART
    | OpBranch s _ ends _ => match ends with [] => false | _ => N.eqb s kSTART end
    | _ => false
    end.
  Definition he_op (o : op) : bool :=
    match o with
    | OpEdge _ e => N.eqb e kEND
    | OpBranch _ _ ends _ => existsb (fun e => N.eqb e kEND) ends
    | _ => false
    end.

  Lemma branch_ends_flags : forall l orc j st s f,
    branch_ends u false orc j st s l = Some f ->
    g_has_start f = g_has_start st || (match l with [] => false | _ => N.eqb s kSTART end) /\
    g_has_end f = g_has_end st || existsb (fun e => N.eqb e kEND) l.
  Proof.
    induction l as [|e rest IH]; intros orc j st s f H; simpl in H.
    - inversion H; subst. simpl. rewrite !orb_false_r. auto.
    - destruct (negb (has_node st e) && negb (N.eqb e kEND)); [discriminate|].
      unfold update_sel, update_tvm in H.
      destruct (update u _ (orc (S j)) 0 (set_tvm st (g_tvm st ++ [(s, e)]))) as [st1| |] eqn:U; [|discriminate|discriminate].
      pose proof (update_frame u _ _ _ _ _ U) as F.
      destruct (IH _ _ _ _ _ H) as [A B]. simpl in A, B. rewrite (fr_hs _ _ F) in A. rewrite (fr_he _ _ F) in B. simpl in A, B.
      split.
      + rewrite A. destruct rest; destruct (g_has_start st); destruct (N.eqb s kSTART); reflexivity.
      + rewrite B. simpl. rewrite orb_assoc. reflexivity.
  Qed.

  Lemma step_flags : forall orc st o,
    snd (step u orc st o) = true -> o <> OpCompile ->
    g_has_start (fst (step u orc st o)) = g_has_start st || hs_op o /\
    g_has_end (fst (step u orc st o)) = g_has_end st || he_op o.
  Proof.
    intros orc st o OK NC. destruct (step u orc st o) as [st' ok] eqn:H. simpl in *. subst ok.
    destruct o as [k i ot pre post|k pre post|s e|s t ends choice|]; unfold step, step_sel in H; simpl.
    - destruct (add_node_shape _ _ _ _ _ _ _ _ _ H) as [[F _]|[_ [_ [_ [_ [_ [_ [_ [_ E]]]]]]]]]; [discriminate|].
      subst. simpl. rewrite !orb_false_r. auto.
    - destruct (add_node_shape _ _ _ _ _ _ _ _ _ H) as [[F _]|[_ [_ [_ [_ [_ [_ [_ [_ E]]]]]]]]]; [discriminate|].
      subst. simpl. rewrite !orb_false_r. auto.
    - destruct (add_edge_shape u _ _ _ _ _ _ H) as [[F _]|[_ [_ [_ [_ [_ [_ [_ [_ [_ Q]]]]]]]]]]; [discriminate|].
      simpl in Q. destruct Q as [st2 [U E]]. subst st'. unfold update_tvm in U.
      pose proof (update_frame u _ _ _ _ _ U) as F. simpl. rewrite (fr_hs _ _ F), (fr_he _ _ F). simpl. auto.
    - destruct (add_branch_shape u _ _ _ _ _ _ _ _ H) as [[F _]|[_ [_ [_ [_ [_ [_ Q]]]]]]]; [discriminate|].
      destruct Q as [p1 [a [st2 [BP [_ [_ [BE E]]]]]]]. subst st'. simpl.
      pose proof (branch_pre_frame u _ _ _ _ _ BP) as F.
      destruct (branch_ends_flags _ _ _ _ _ _ BE) as [A B]. rewrite A, B, (fr_hs _ _ F), (fr_he _ _ F). split.
      + f_equal. destruct ends as [|x l].
        * destruct (order_keys (orc 0%nat 0%nat) []) as [|y l'] eqn:Q; [reflexivity|].
          exfalso. assert (In y []) by (apply (proj1 (In_order_keys (orc 0%nat 0%nat) [] y)); rewrite Q; left; reflexivity). contradiction.
        * destruct (order_keys (orc 0%nat 0%nat) (x :: l)) as [|y l'] eqn:Q; [|reflexivity].
          exfalso. assert (In x []) by (rewrite <- Q; apply (proj2 (In_order_keys (orc 0%nat 0%nat) (x :: l) x)); left; reflexivity). contradiction.
      + f_equal. apply existsb_set_eq. intro x. apply In_order_keys.
    - congruence.
  Qed.

  Lemma step_compiled_same : forall orc st o,
    o <> OpCompile -> g_compiled (fst (step u orc st o)) = g_compiled st.
  Proof.
    intros orc st o NC. destruct (step u orc st o) as [st' ok] eqn:H. simpl.
    destruct o as [k i ot pre post|k pre post|s e|s t ends choice|]; unfold step, step_sel in H.
    - destruct (add_node_shape _ _ _ _ _ _ _ _ _ H) as [[_ [E|E]]|[_ [_ [_ [_ [_ [_ [_ [_ E]]]]]]]]]; subst; reflexivity.
    - destruct (add_node_shape _ _ _ _ _ _ _ _ _ H) as [[_ [E|E]]|[_ [_ [_ [_ [_ [_ [_ [_ E]]]]]]]]]; subst; reflexivity.
    - destruct (add_edge_shape u _ _ _ _ _ _ H) as [[_ [E|E]]|[_ [_ [_ [_ [_ [_ [_ [_ [_ Q]]]]]]]]]]; try (subst; reflexivity).
      simpl in Q. destruct Q as [st2 [U E]]. subst st'. unfold update_tvm in U. simpl.
      rewrite (fr_compiled _ _ (update_frame u _ _ _ _ _ U)). reflexivity.
    - destruct (add_branch_shape u _ _ _ _ _ _ _ _ H) as [[_ [E|E]]|[_ [_ [_ [_ [_ [_ Q]]]]]]]; try (subst; reflexivity).
      destruct Q as [p1 [a [st2 [BP [_ [_ [BE E]]]]]]]. subst st'. simpl.
      rewrite (f0_compiled _ _ (branch_ends_frame0 u _ _ _ _ _ _ BE)), (fr_compiled _ _ (branch_pre_frame u _ _ _ _ _ BP)). reflexivity.
    - congruence.
  Qed.

  (* ---------------------------------------------------------------- a run without error: every call succeeded *)

  Lemma run_all_ok : forall L orcs j st,
    no_compile L -> g_err st = false -> g_compiled st = false ->
    g_err (fst (run_ops u orcs j st L)) = false ->
    Forall (eq true) (snd (run_ops u orcs j st L)) /\ g_compiled (fst (run_ops u orcs j st L)) = false.
  Proof.
    induction L as [|o rest IH]; intros orcs j st NC GE GC F; unfold run_ops in *; simpl in *.
    - split; [constructor | exact GC].
    - inversion NC as [|o0 l0 NO NC']; subst.
      pose proof (step_false_err u (orcs j) st o GE GC NO) as FE.
      pose proof (step_compiled_same (orcs j) st o NO) as CS. unfold step in FE, CS.
      destruct (step_sel u false false false (orcs j) st o) as [st1 ok] eqn:Hs. simpl in FE, CS.
      assert (GE1 : g_err st1 = false).
      { destruct (g_err st1) eqn:Q; [|reflexivity]. exfalso.
        pose proof (run_err_stuck u rest orcs (S j) st1 Q) as ST. unfold run_ops in ST.
        destruct (run_ops_sel u false false false orcs (S j) st1 rest) as [st2 oks]. simpl in *. subst st2. congruence. }
      assert (OK : ok = true) by (destruct ok; [reflexivity | specialize (FE eq_refl); congruence]).
      specialize (IH orcs (S j) st1 NC' GE1). rewrite CS in IH. specialize (IH GC).
      destruct (run_ops_sel u false false false orcs (S j) st1 rest) as [st2 oks]. simpl in *.
      destruct (IH F) as [A B]. split; [constructor; [symmetry; exact OK | exact A] | exact B].
  Qed.

  (* ---------------------------------------------------------------- run 1 as a reference: completeness of STR *)

  Lemma run_str : forall L orcs j st,
    inv u st -> NoDup (map fst (g_nodes st)) -> NoDup (g_ctrl st) -> g_data st = g_ctrl st ->
    Forall (eq true) (snd (run_ops u orcs j st L)) -> no_compile L -> STR st L.
  Proof.
    induction L as [|o rest IH]; intros orcs j st I NK NC DC OK NCo; unfold run_ops in *; simpl in OK.
    - unfold STR. simpl. rewrite !app_nil_r. repeat split; auto.
    - inversion NCo as [|o0 l0 NO NCo']; subst.
      destruct (step_sel u false false false (orcs j) st o) as [st1 ok] eqn:Hs.
      destruct (run_ops_sel u false false false orcs (S j) st1 rest) as [st2 oks] eqn:R. simpl in OK.
      inversion OK as [|x l OKh OKt]; subst. clear OK.
      assert (I1 : inv u st1) by (destruct (step_spec u _ _ _ _ _ I Hs) as [I1 _]; exact I1).
      assert (IHr : forall (NK1 : NoDup (map fst (g_nodes st1))) (NC1 : NoDup (g_ctrl st1)) (DC1 : g_data st1 = g_ctrl st1), STR st1 rest).
      { intros NK1 NC1 DC1. specialize (IH orcs (S j) st1 I1 NK1 NC1 DC1). unfold run_ops in IH. rewrite R in IH. apply IH; assumption. }
      destruct o as [k i ot pre post|k pre post|s e|s t ends choice|]; unfold step_sel in Hs; [| | | |congruence].
      + destruct (add_node_shape _ _ _ _ _ _ _ _ _ Hs) as [[F _]|[_ [_ [_ [K1 [K2 [HN [H1 [H2 E]]]]]]]]]; [discriminate|]. subst st1.
        destruct IHr as [N1 [N2 [N3 [N4 N5]]]]; simpl; auto.
        { rewrite map_app. simpl. apply NoDup_snoc; [exact NK | apply has_node_false_notin; exact HN]. }
        simpl in N1, N2, N3, N4. rewrite map_app in N1, N4. simpl in N1, N4.
        unfold STR. simpl. split; [rewrite <- app_assoc in N1; exact N1|]. split; [exact N2|]. split; [exact N3|].
        split; [split; [exact Logic.I | exact N4]|].
        constructor; [simpl; auto|]. eapply Forall_impl; [|exact N5]. intros o0. apply static_ok_gst. reflexivity.
      + destruct (add_node_shape _ _ _ _ _ _ _ _ _ Hs) as [[F _]|[_ [_ [_ [K1 [K2 [HN [H1 [H2 E]]]]]]]]]; [discriminate|]. subst st1.
        destruct IHr as [N1 [N2 [N3 [N4 N5]]]]; simpl; auto.
        { rewrite map_app. simpl. apply NoDup_snoc; [exact NK | apply has_node_false_notin; exact HN]. }
        simpl in N1, N2, N3, N4. rewrite map_app in N1, N4. simpl in N1, N4.
        unfold STR. simpl. split; [rewrite <- app_assoc in N1; exact N1|]. split; [exact N2|]. split; [exact N3|].
        split; [split; [exact Logic.I | exact N4]|].
        constructor; [simpl; auto|]. eapply Forall_impl; [|exact N5]. intros o0. apply static_ok_gst. reflexivity.
      + destruct (add_edge_shape u _ _ _ _ _ _ Hs) as [[F _]|[_ [_ [_ [Hs' [He' [SE [ES [MC [MD Q]]]]]]]]]]; [discriminate|].
        simpl in Q. destruct Q as [st2' [U E]]. subst st1. unfold update_tvm in U.
        pose proof (update_frame u _ _ _ _ _ U) as F.
        assert (MC' : ~ In (s, e) (g_ctrl st)) by (intro Q; apply mem_pair_In in Q; congruence).
        destruct IHr as [N1 [N2 [N3 [N4 N5]]]]; simpl.
        { rewrite (fr_keys _ _ F). exact NK. }
        { rewrite (fr_ctrl _ _ F). simpl. apply NoDup_snoc; assumption. }
        { rewrite (fr_data _ _ F), (fr_ctrl _ _ F). simpl. rewrite DC. reflexivity. }
        simpl in N1, N2, N4. rewrite (fr_keys _ _ F) in N1, N4. rewrite (fr_ctrl _ _ F) in N2. simpl in N1, N2, N4.
        unfold STR. simpl. split; [exact N1|]. split; [rewrite <- app_assoc in N2; exact N2|]. split; [exact DC|].
        split; [split; [|rewrite app_nil_r; exact N4]|].
        * split; [destruct Hs' as [Q|Q]; [left; apply has_node_in_keys; exact Q | right; exact Q] |
                  destruct He' as [Q|Q]; [left; apply has_node_in_keys; exact Q | right; exact Q]].
        * constructor; [simpl; auto|]. eapply Forall_impl; [|exact N5]. intros o0. apply static_ok_gst.
          simpl. rewrite (fr_st _ _ F). reflexivity.
      + destruct (add_branch_shape u _ _ _ _ _ _ _ _ Hs) as [[F _]|[_ [_ [_ [Hs' [SE [LE Q]]]]]]]; [discriminate|].
        destruct Q as [p1 [a [st2' [BP [_ [_ [BE E]]]]]]]. subst st1.
        pose proof (branch_pre_frame u _ _ _ _ _ BP) as F1.
        pose proof (frame0_trans _ _ _ (frame_frame0 _ _ F1) (branch_ends_frame0 u _ _ _ _ _ _ BE)) as F.
        destruct IHr as [N1 [N2 [N3 [N4 N5]]]]; simpl.
        { rewrite (f0_keys _ _ F). exact NK. }
        { rewrite (f0_ctrl _ _ F). exact NC. }
        { rewrite (f0_data _ _ F), (f0_ctrl _ _ F). exact DC. }
        simpl in N1, N2, N4. rewrite (f0_keys _ _ F) in N1, N4. rewrite (f0_ctrl _ _ F) in N2.
        unfold STR. simpl. split; [exact N1|]. split; [exact N2|]. split; [exact DC|].
        split; [split; [|rewrite app_nil_r; exact N4]|].
        * split; [destruct Hs' as [Q|Q]; [left; apply has_node_in_keys; exact Q | right; exact Q]|].
          intros e He. pose proof (branch_ends_has u _ _ _ _ _ _ BE e (proj2 (In_order_keys _ _ _) He)) as Q.
          destruct Q as [Q|Q]; [left|right; exact Q]. apply has_node_in_keys.
          rewrite <- (keys_has_node st p1 e (fr_keys _ _ F1)). exact Q.
        * constructor; [simpl; auto|]. eapply Forall_impl; [|exact N5]. intros o0. apply static_ok_gst.
          simpl. rewrite (f0_st _ _ F). reflexivity.
  Qed.
End G.

Section H.
  Variable u : univ.

  (* the declared types: any set of pairwise incomparable types (an antichain of the lattice:
     two of them are compatible only when equal), for instance all non-interface types *)
  Variable P : ty -> Prop.
  Hypothesis P_eq : forall a b, P a -> P b -> check_assignable u (Some a) (Some b) <> MustNot -> a = b.

  Lemma conn_ceq : forall f p, inv u f -> quiet f -> tyP P f -> In p (conns f) -> ceq f p.
  Proof.
    intros f p I Q T Hp. destruct (inv_conns _ _ I p Hp) as [[[a [b [Ha [Hb [Hc _]]]]]|Hin] _].
    - right. exists a. split; [exact Ha|]. rewrite Hb. f_equal. symmetry.
      apply P_eq; [eapply tyP_out; eauto | eapply tyP_in; eauto | exact Hc].
    - left. apply Q; exact Hin.
  Qed.

  Lemma conn_seq : forall f p, inv u f -> g_tvm f = [] -> tyP P f -> In p (conns f) -> seq f p.
  Proof.
    intros f p I T0 T Hp. destruct (inv_conns _ _ I p Hp) as [[[a [b [Ha [Hb [Hc _]]]]]|Hin] _].
    - exists a. split; [exact Ha|]. rewrite Hb. f_equal. symmetry.
      apply P_eq; [eapply tyP_out; eauto | eapply tyP_in; eauto | exact Hc].
    - rewrite T0 in Hin. destruct Hin.
  Qed.

  (* ---------------------------------------------------------------- run-level lemmas *)

  Lemma run_inv : forall L orcs j st, inv u st -> inv u (fst (run_ops u orcs j st L)).
  Proof.
    intros L orcs j st I. destruct (run_ops u orcs j st L) as [f oks] eqn:R.
    destruct (run_ops_spec u L orcs j _ _ _ I R) as [I' _]. exact I'.
  Qed.

  Lemma run_tyP : forall L orcs j st,
    inv u st -> tyP P st -> Forall (op_tyP P) L -> tyP P (fst (run_ops u orcs j st L)).
  Proof.
    induction L as [|o rest IH]; intros orcs j st I T F; unfold run_ops in *; simpl; [exact T|].
    inversion F as [|o0 l0 Fo Fr]; subst.
    pose proof (step_tyP u P (orcs j) st o I T Fo) as T1. unfold step in T1.
    destruct (step_sel u false false false (orcs j) st o) as [st1 ok] eqn:Hs. simpl in T1.
    assert (I1 : inv u st1) by (destruct (step_spec u _ _ _ _ _ I Hs) as [I1 _]; exact I1).
    specialize (IH orcs (S j) st1 I1 T1 Fr).
    destruct (run_ops_sel u false false false orcs (S j) st1 rest). exact IH.
  Qed.

  Lemma run_sim_inv : forall L orcs j st, sim_inv u st -> sim_inv u (fst (run_ops u orcs j st L)).
  Proof.
    induction L as [|o rest IH]; intros orcs j st SI; unfold run_ops in *; simpl; [exact SI|].
    destruct (step_two u (orcs j) (orcs j) st st o (eqv_refl st) SI) as [_ [_ SI1]]. unfold step in SI1.
    destruct (step_sel u false false false (orcs j) st o) as [st1 ok]. simpl in SI1.
    specialize (IH orcs (S j) st1 SI1). destruct (run_ops_sel u false false false orcs (S j) st1 rest). exact IH.
  Qed.

  Lemma run_flags : forall L orcs j st,
    no_compile L -> Forall (eq true) (snd (run_ops u orcs j st L)) ->
    g_has_start (fst (run_ops u orcs j st L)) = g_has_start st || existsb hs_op L /\
    g_has_end (fst (run_ops u orcs j st L)) = g_has_end st || existsb he_op L.
  Proof.
    induction L as [|o rest IH]; intros orcs j st NC OK; unfold run_ops in *; simpl in *.
    - rewrite !orb_false_r. auto.
    - inversion NC as [|o0 l0 NO NC']; subst.
      pose proof (step_flags u (orcs j) st o) as SF. unfold step in SF.
      destruct (step_sel u false false false (orcs j) st o) as [st1 ok] eqn:Hs.
      specialize (IH orcs (S j) st1 NC').
      destruct (run_ops_sel u false false false orcs (S j) st1 rest) as [st2 oks]. simpl in *.
      inversion OK as [|x l OKh OKt]; subst. destruct (SF eq_refl NO) as [A B]. destruct (IH OKt) as [A' B'].
      rewrite A', B', A, B, !orb_assoc. auto.
  Qed.

  Lemma run_sub : forall L orcs j cur r,
    inv u cur -> nodes_ok r -> sub cur r -> (forall p, In p (g_tvm cur) -> ceq r p) ->
    Forall (opref ceq r) L -> Forall (eq true) (snd (run_ops u orcs j cur L)) ->
    sub (fst (run_ops u orcs j cur L)) r.
  Proof.
    induction L as [|o rest IH]; intros orcs j cur r I NR SB C F OK; unfold run_ops in *; simpl in *; [exact SB|].
    inversion F as [|o0 l0 Fo Fr]; subst.
    pose proof (step_sub u (orcs j) cur r o I NR SB C Fo) as SS. unfold step in SS.
    destruct (step_sel u false false false (orcs j) cur o) as [st1 ok] eqn:Hs.
    assert (I1 : inv u st1) by (destruct (step_spec u _ _ _ _ _ I Hs) as [I1 _]; exact I1).
    specialize (IH orcs (S j) st1 r I1 NR).
    destruct (run_ops_sel u false false false orcs (S j) st1 rest) as [st2 oks]. simpl in *.
    inversion OK as [|x l OKh OKt]; subst. destruct (SS eq_refl) as [S1 T1].
    apply IH; auto. intros p Hp. destruct (T1 p Hp) as [Q|Q]; [apply C; exact Q | eapply oppair_Q; eauto].
  Qed.

  Lemma run_ok : forall L orcs j cur r,
    inv u cur -> g_err cur = false -> g_compiled cur = false -> nodes_ok r -> sub cur r ->
    (forall p, In p (g_tvm cur) -> seq r p) -> Forall (opref seq r) L -> STR cur L ->
    Forall (eq true) (snd (run_ops u orcs j cur L)) /\
    g_err (fst (run_ops u orcs j cur L)) = false /\ g_compiled (fst (run_ops u orcs j cur L)) = false /\
    sub (fst (run_ops u orcs j cur L)) r.
  Proof.
    induction L as [|o rest IH]; intros orcs j cur r I GE GC NR SB C F ST; unfold run_ops in *; simpl in *.
    - split; [constructor|]. split; [exact GE|]. split; [exact GC | exact SB].
    - inversion F as [|o0 l0 Fo Fr]; subst.
      destruct (step_ok u (orcs j) cur r o rest I GE GC NR SB C Fo ST) as [OK [ST1 [GE1 GC1]]].
      pose proof (step_sub u (orcs j) cur r o I NR SB (fun p Hp => seq_ceq _ _ (C p Hp))
                           (opref_imp seq ceq r o (seq_ceq r) Fo) OK) as [S1 T1].
      unfold step in OK, ST1, GE1, GC1, S1, T1.
      destruct (step_sel u false false false (orcs j) cur o) as [st1 ok] eqn:Hs. simpl in *. subst ok.
      assert (I1 : inv u st1) by (destruct (step_spec u _ _ _ _ _ I Hs) as [I1 _]; exact I1).
      assert (C1 : forall p, In p (g_tvm st1) -> seq r p).
      { intros p Hp. destruct (T1 p Hp) as [Q|Q]; [apply C; exact Q | eapply oppair_Q; eauto]. }
      specialize (IH orcs (S j) st1 r I1 GE1 GC1 NR S1 C1 Fr ST1).
      destruct (run_ops_sel u false false false orcs (S j) st1 rest) as [st2 oks]. simpl in *.
      destruct IH as [A [B [C' D]]]. split; [constructor; [reflexivity | exact A]|]. split; [exact B|]. split; [exact C' | exact D].
  Qed.

  Definition Qc (r : gstate) (p : key * key) : Prop := In p (conns r).

  Lemma opref_transfer : forall a b o, sub a b -> incl (conns a) (conns b) -> opref Qc a o -> opref Qc b o.
  Proof.
    intros a b o SB IN OR. destruct o as [k i ot pre post|k pre post|s e|s t ends choice|]; simpl in *; auto.
    - destruct OR as [n [G [Pn [In0 On]]]]. destruct SB as [_ [_ Z]]. destruct (Z k n G) as [n' [G' [P' [I' O']]]].
      exists n'. split; [exact G'|]. split; [congruence|]. auto.
    - destruct OR as [n [G Pn]]. destruct SB as [_ [_ Z]]. destruct (Z k n G) as [n' [G' [P' _]]].
      exists n'. split; [exact G' | congruence].
    - apply IN; exact OR.
    - destruct OR as [Or Cl]. split; [eapply sub_out_ty; eauto|]. intros e He. apply IN. apply Cl; exact He.
  Qed.

  Lemma run_ref : forall L orcs j st,
    inv u st -> tyP P st -> Forall (op_tyP P) L ->
    Forall (eq true) (snd (run_ops u orcs j st L)) ->
    Forall (opref Qc (fst (run_ops u orcs j st L))) L.
  Proof.
    induction L as [|o rest IH]; intros orcs j st I T F OK; [constructor|].
    inversion F as [|o0 l0 Fo Fr]; subst.
    unfold run_ops in *; simpl in *.
    pose proof (step_tyP u P (orcs j) st o I T Fo) as T1. unfold step in T1.
    destruct (step_sel u false false false (orcs j) st o) as [st1 ok] eqn:Hs. simpl in T1.
    assert (I1 : inv u st1) by (destruct (step_spec u _ _ _ _ _ I Hs) as [I1 _]; exact I1).
    specialize (IH orcs (S j) st1 I1 T1 Fr).
    destruct (run_self u rest orcs (S j) st1 I1) as [SS CI]. unfold run_ops in SS, CI.
    destruct (run_ops_sel u false false false orcs (S j) st1 rest) as [st2 oks]. simpl in *.
    inversion OK as [|x l OKh OKt]; subst. constructor; [|apply IH; exact OKt].
    apply (opref_transfer st1 st2 o SS CI).
    destruct o as [k i ot pre post|k pre post|s e|s t ends choice|]; unfold step_sel in Hs; simpl; auto.
    - destruct (add_node_shape _ _ _ _ _ _ _ _ _ Hs) as [[Q _]|[_ [_ [_ [_ [_ [HN [_ [_ E]]]]]]]]]; [discriminate|]. subst st1.
      eexists. split; [unfold get_node; simpl; rewrite get_app_new;
        unfold has_node, get_node in HN; destruct (nlist_get k (g_nodes st)); [discriminate|]; rewrite N.eqb_refl; reflexivity|].
      simpl. repeat split; reflexivity.
    - destruct (add_node_shape _ _ _ _ _ _ _ _ _ Hs) as [[Q _]|[_ [_ [_ [_ [_ [HN [_ [_ E]]]]]]]]]; [discriminate|]. subst st1.
      eexists. split; [unfold get_node; simpl; rewrite get_app_new;
        unfold has_node, get_node in HN; destruct (nlist_get k (g_nodes st)); [discriminate|]; rewrite N.eqb_refl; reflexivity|].
      simpl. repeat split; reflexivity.
    - destruct (add_edge_shape u _ _ _ _ _ _ Hs) as [[Q _]|[_ [_ [_ [_ [_ [_ [_ [_ [_ Q]]]]]]]]]]; [discriminate|].
      simpl in Q. destruct Q as [st2' [U E]]. subst st1. unfold Qc, conns. simpl.
      apply in_or_app. left. apply in_or_app. right. left. reflexivity.
    - destruct (add_branch_shape u _ _ _ _ _ _ _ _ Hs) as [[Q _]|[_ [_ [_ [_ [_ [_ Q]]]]]]]; [discriminate|].
      destruct Q as [p1 [a [st2' [BP [_ [_ [BE E]]]]]]].
      assert (HB : In (s, {| b_ty := t; b_ends := ends; b_choice := choice;
                            b_conv := match check_assignable u (Some a) (Some t) with May => [t] | _ => [] end |})
                      (g_branches st1)).
      { subst st1. simpl. apply in_or_app. right. left. reflexivity. }
      split.
      + destruct (inv_branches _ _ I1 _ _ HB) as [_ [a' [Ha' [Hc _]]]]. simpl in Hc.
        rewrite Ha'. f_equal. apply P_eq; [eapply tyP_out; eauto | exact Fo | exact Hc].
      + intros e He. unfold Qc, conns. apply in_or_app. right.
        eapply branch_pair_In; [exact HB | exact He].
  Qed.
End H.

(* ==================================================================== the theorem *)

Lemma nodekeys_perm : forall L1 L2, Permutation L1 L2 -> Permutation (nodekeys L1) (nodekeys L2).
Proof. intros; unfold nodekeys; apply Permutation_flat_map; assumption. Qed.
Lemma edges_perm : forall L1 L2, Permutation L1 L2 -> Permutation (edges_of L1) (edges_of L2).
Proof. intros; unfold edges_of; apply Permutation_flat_map; assumption. Qed.
Lemma existsb_perm : forall (A : Type) (f : A -> bool) l l', Permutation l l' -> existsb f l = existsb f l'.
Proof.
  intros A f l l' H. apply existsb_set_eq. intro x. split; apply Permutation_in; [exact H | apply Permutation_sym; exact H].
Qed.

Lemma In_nlist_get : forall (l : list (key * node)) k n,
  NoDup (map fst l) -> In (k, n) l -> nlist_get k l = Some n.
Proof.
  induction l as [|[k0 n0] l IH]; intros k n ND H; [destruct H|]. simpl in *. inversion ND; subst.
  destruct H as [H|H].
  - inversion H; subst. rewrite N.eqb_refl. reflexivity.
  - destruct (N.eqb_spec k k0) as [E|E]; [|apply IH; assumption].
    subst. exfalso. apply H2. apply in_map_iff. exists (k0, n). auto.
Qed.

Section Z.
  Variable u : univ.
  Variable P : ty -> Prop.
  Hypothesis P_eq : forall a b, P a -> P b -> check_assignable u (Some a) (Some b) <> MustNot -> a = b.

  Lemma sub_both_types : forall a b, sub a b -> sub b a ->
    forall k, in_ty a k = in_ty b k /\ out_ty a k = out_ty b k.
  Proof.
    intros a b S1 S2 k. split.
    - destruct (in_ty a k) as [t|] eqn:A; [symmetry; eapply sub_in_ty; eauto|].
      destruct (in_ty b k) as [t|] eqn:B; [|reflexivity]. rewrite (sub_in_ty _ _ _ _ S2 B) in A. discriminate.
    - destruct (out_ty a k) as [t|] eqn:A; [symmetry; eapply sub_out_ty; eauto|].
      destruct (out_ty b k) as [t|] eqn:B; [|reflexivity]. rewrite (sub_out_ty _ _ _ _ S2 B) in A. discriminate.
  Qed.

  (* one direction: the first order is accepted, so is the second, with the same types *)
  Theorem add_order_accept_gen : forall orcs1 orcs2 i o s L1 L2,
    P i -> P o -> Forall (op_tyP P) L1 -> no_compile L1 -> Permutation L1 L2 -> nbu [] L2 ->
    last (snd (run_ops u orcs1 0 (init_graph i o s) (L1 ++ [OpCompile]))) false = true ->
    last (snd (run_ops u orcs2 0 (init_graph i o s) (L2 ++ [OpCompile]))) false = true /\
    forall k,
      in_ty (fst (run_ops u orcs1 0 (init_graph i o s) (L1 ++ [OpCompile]))) k =
      in_ty (fst (run_ops u orcs2 0 (init_graph i o s) (L2 ++ [OpCompile]))) k /\
      out_ty (fst (run_ops u orcs1 0 (init_graph i o s) (L1 ++ [OpCompile]))) k =
      out_ty (fst (run_ops u orcs2 0 (init_graph i o s) (L2 ++ [OpCompile]))) k.
  Proof.
    intros orcs1 orcs2 i o s L1 L2 Ci Co F1 NC1 PM NB ACC.
    set (st0 := init_graph i o s) in *.
    assert (I0 : inv u st0) by apply inv_init.
    assert (SI0 : sim_inv u st0) by apply sim_inv_init.
    assert (T0 : tyP P st0).
    { split; [exact Ci|]. split; [exact Co|]. intros k n t G. discriminate. }
    assert (F2 : Forall (op_tyP P) L2) by (eapply Permutation_Forall; eauto).
    assert (NC2 : no_compile L2) by (eapply Permutation_Forall; eauto).
    (* run 1 *)
    destruct (run_ops u orcs1 0 st0 (L1 ++ [OpCompile])) as [fin1 oks1] eqn:R1.
    destruct (run_ops_snoc u _ _ _ _ _ _ _ R1) as [f1 [oksa [ok1 [Ra [Sa Ea]]]]]. subst oks1.
    simpl in ACC. rewrite last_last in ACC. subst ok1. simpl in Sa.
    destruct (compile_shape _ _ _ Sa) as [[_ Q]|[Efin [_ [TV1 [GE1 [HS1 [HE1 EX1]]]]]]]; [discriminate|].
    pose proof (run_all_ok u L1 orcs1 0%nat st0 NC1 eq_refl eq_refl) as AO1. rewrite Ra in AO1. simpl in AO1.
    destruct (AO1 GE1) as [OK1 GC1].
    pose proof (run_inv u L1 orcs1 0%nat st0 I0) as If1. rewrite Ra in If1. simpl in If1.
    pose proof (run_tyP u P L1 orcs1 0%nat st0 I0 T0 F1) as Tf1. rewrite Ra in Tf1. simpl in Tf1.
    pose proof (run_sim_inv u L1 orcs1 0%nat st0 SI0) as SIf1. rewrite Ra in SIf1. simpl in SIf1.
    (* structure of the op list, from the success of run 1 *)
    assert (STR1 : STR st0 L1).
    { apply (run_str u L1 orcs1 0%nat st0 I0); try (simpl; constructor); auto. rewrite Ra. exact OK1. }
    destruct STR1 as [N1 [N2 [N3 [N4 N5]]]].
    assert (STR2 : STR st0 L2).
    { unfold STR. simpl in *. split; [eapply Permutation_NoDup; [apply nodekeys_perm; exact PM | exact N1]|].
      split; [eapply Permutation_NoDup; [apply edges_perm; exact PM | exact N2]|].
      split; [reflexivity|]. split; [exact NB|]. eapply Permutation_Forall; eauto. }
    (* f1 as a (strong) reference *)
    pose proof (run_ref u P P_eq L1 orcs1 0%nat st0 I0 T0 F1) as RF1. rewrite Ra in RF1. simpl in RF1. specialize (RF1 OK1).
    assert (RS1 : Forall (opref seq f1) L2).
    { eapply Permutation_Forall; [exact PM|]. eapply Forall_impl; [|exact RF1].
      intros o0. apply opref_imp. intros p Hp. apply (conn_seq u P P_eq f1 p If1 TV1 Tf1 Hp). }
    destruct (run_self u L1 orcs1 0%nat st0 I0) as [S01 _]. rewrite Ra in S01. simpl in S01.
    (* run 2 succeeds *)
    destruct (run_ok u L2 orcs2 0%nat st0 f1 I0 eq_refl eq_refl (inv_nodes _ _ If1) S01 (fun p Hp => match Hp with end) RS1 STR2)
      as [OK2 [GE2 [GC2 S21]]].
    destruct (run_ops u orcs2 0 st0 L2) as [f2 oksb] eqn:Rb. simpl in OK2, GE2, GC2, S21.
    pose proof (run_inv u L2 orcs2 0%nat st0 I0) as If2. rewrite Rb in If2. simpl in If2.
    pose proof (run_tyP u P L2 orcs2 0%nat st0 I0 T0 F2) as Tf2. rewrite Rb in Tf2. simpl in Tf2.
    pose proof (run_sim_inv u L2 orcs2 0%nat st0 SI0) as SIf2. rewrite Rb in SIf2. simpl in SIf2.
    destruct SIf2 as [_ [KO2 Q2]]. specialize (Q2 GE2).
    (* f2 as a (weak) reference for run 1 *)
    pose proof (run_ref u P P_eq L2 orcs2 0%nat st0 I0 T0 F2) as RF2. rewrite Rb in RF2. simpl in RF2. specialize (RF2 OK2).
    assert (RW2 : Forall (opref ceq f2) L1).
    { eapply Permutation_Forall; [apply Permutation_sym; exact PM|]. eapply Forall_impl; [|exact RF2].
      intros o0. apply opref_imp. intros p Hp. apply (conn_ceq u P P_eq f2 p If2 Q2 Tf2 Hp). }
    destruct (run_self u L2 orcs2 0%nat st0 I0) as [S02 _]. rewrite Rb in S02. simpl in S02.
    pose proof (run_sub u L1 orcs1 0%nat st0 f2 I0 (inv_nodes _ _ If2) S02 (fun p Hp => match Hp with end) RW2) as S12.
    rewrite Ra in S12. simpl in S12. specialize (S12 OK1).
    pose proof (sub_both_types f1 f2 S12 S21) as TY.
    (* Compile on f2 *)
    destruct (run_flags u L1 orcs1 0%nat st0 NC1) as [A1 B1]; [rewrite Ra; exact OK1|]. rewrite Ra in A1, B1. simpl in A1, B1.
    destruct (run_flags u L2 orcs2 0%nat st0 NC2) as [A2 B2]; [rewrite Rb; exact OK2|]. rewrite Rb in A2, B2. simpl in A2, B2.
    assert (HS2 : g_has_start f2 = true) by (rewrite A2, <- (existsb_perm _ hs_op _ _ PM), <- A1; exact HS1).
    assert (HE2 : g_has_end f2 = true) by (rewrite B2, <- (existsb_perm _ he_op _ _ PM), <- B1; exact HE1).
    assert (TYPED : forall k n, get_node f2 k = Some n -> exists t, n_in n = Some t).
    { intros k n G. destruct S21 as [_ [_ Z]]. destruct (Z k n G) as [n' [G' _]].
      destruct (inv_nodes _ _ If2 k n G) as [_ [KS KE]].
      assert (I1 : exists t, in_ty f1 k = Some t).
      { unfold in_ty. destruct (N.eqb_spec k kSTART); [congruence|]. destruct (N.eqb_spec k kEND); [congruence|]. rewrite G'.
        destruct (n_in n') as [t|] eqn:Q; [eauto|]. exfalso.
        assert (existsb (fun p : key * node => match n_in (snd p) with None => true | Some _ => false end) (g_nodes f1) = true).
        { apply existsb_exists. exists (k, n'). split; [apply nlist_get_In; exact G' | simpl; rewrite Q; reflexivity]. }
        congruence. }
      destruct I1 as [t It]. rewrite (proj1 (TY k)) in It. unfold in_ty in It.
      destruct (N.eqb_spec k kSTART); [congruence|]. destruct (N.eqb_spec k kEND); [congruence|]. rewrite G in It. eauto. }
    assert (TV2 : g_tvm f2 = []).
    { destruct (g_tvm f2) as [|p l] eqn:Q; [reflexivity|]. exfalso.
      assert (Hp : In p (g_tvm f2)) by (rewrite Q; left; reflexivity).
      pose proof (Q2 p Hp) as U. destruct (inv_tvm _ _ If2 p Hp) as [[Hn|Hn] _].
      - unfold has_node in Hn. destruct (get_node f2 (fst p)) as [n|] eqn:G; [|discriminate].
        destruct (TYPED _ _ G) as [t Ht]. destruct (inv_nodes _ _ If2 _ _ G) as [_ [KS KE]].
        unfold unk in U. destruct (out_ty f2 (fst p)) eqn:O; [discriminate|].
        pose proof (out_none_in_none f2 (fst p) (inv_nodes _ _ If2) O) as In0. unfold in_ty in In0.
        destruct (N.eqb_spec (fst p) kSTART); [congruence|]. destruct (N.eqb_spec (fst p) kEND); [congruence|].
        rewrite G in In0. congruence.
      - unfold unk in U. unfold out_ty in U. rewrite Hn in U. simpl in U. discriminate. }
    assert (EX2 : existsb (fun p : key * node => match n_in (snd p) with None => true | Some _ => false end) (g_nodes f2) = false).
    { apply not_true_is_false. intro E. apply existsb_exists in E. destruct E as [[k n] [Hin Hn]]. simpl in Hn.
      pose proof (In_nlist_get _ _ _ KO2 Hin) as G. destruct (TYPED k n G) as [t Ht]. rewrite Ht in Hn. discriminate. }
    (* assemble *)
    assert (R2 : run_ops u orcs2 0 st0 (L2 ++ [OpCompile]) = (set_compiled f2, oksb ++ [true])).
    { rewrite run_ops_app, Rb. unfold run_ops. simpl. unfold compile. rewrite GE2, HS2, HE2, TV2, EX2. reflexivity. }
    rewrite R2. simpl. rewrite last_last. split; [reflexivity|]. subst fin1. intro k. exact (TY k).
  Qed.

  (* both orders keep node-before-use: same verdict *)
  Theorem add_order_verdict_gen : forall orcs1 orcs2 i o s L1 L2,
    P i -> P o -> Forall (op_tyP P) L1 -> no_compile L1 -> Permutation L1 L2 -> nbu [] L1 -> nbu [] L2 ->
    last (snd (run_ops u orcs1 0 (init_graph i o s) (L1 ++ [OpCompile]))) false =
    last (snd (run_ops u orcs2 0 (init_graph i o s) (L2 ++ [OpCompile]))) false.
  Proof.
    intros orcs1 orcs2 i o s L1 L2 Ci Co F1 NC1 PM NB1 NB2.
    destruct (last (snd (run_ops u orcs1 0 (init_graph i o s) (L1 ++ [OpCompile]))) false) eqn:A.
    - symmetry. apply (add_order_accept_gen orcs1 orcs2 i o s L1 L2); auto.
    - destruct (last (snd (run_ops u orcs2 0 (init_graph i o s) (L2 ++ [OpCompile]))) false) eqn:B; [|reflexivity].
      assert (F2 : Forall (op_tyP P) L2) by (eapply Permutation_Forall; eauto).
      assert (NC2 : no_compile L2) by (eapply Permutation_Forall; eauto).
      destruct (add_order_accept_gen orcs2 orcs1 i o s L2 L1 Ci Co F2 NC2 (Permutation_sym PM) NB1 B) as [C _]. congruence.
  Qed.
End Z.


(* the antichain of the non-interface types: the instance stated in Props/C07.v since round 2 *)
Lemma conc_eq : forall u a b, conc a -> conc b -> check_assignable u (Some a) (Some b) <> MustNot -> a = b.
Proof.
  intros u a b Ca Cb H. destruct a as [x| |]; try discriminate. destruct b as [y| |]; try discriminate.
  f_equal. eapply concrete_pair_equal; eauto.
Qed.

Theorem add_order_accept : forall u orcs1 orcs2 i o s L1 L2,
  conc i -> conc o -> Forall (op_tyP conc) L1 -> no_compile L1 -> Permutation L1 L2 -> nbu [] L2 ->
  last (snd (run_ops u orcs1 0 (init_graph i o s) (L1 ++ [OpCompile]))) false = true ->
  last (snd (run_ops u orcs2 0 (init_graph i o s) (L2 ++ [OpCompile]))) false = true /\
  forall k,
    in_ty (fst (run_ops u orcs1 0 (init_graph i o s) (L1 ++ [OpCompile]))) k =
    in_ty (fst (run_ops u orcs2 0 (init_graph i o s) (L2 ++ [OpCompile]))) k /\
    out_ty (fst (run_ops u orcs1 0 (init_graph i o s) (L1 ++ [OpCompile]))) k =
    out_ty (fst (run_ops u orcs2 0 (init_graph i o s) (L2 ++ [OpCompile]))) k.
Proof. intros u. exact (add_order_accept_gen u conc (conc_eq u)). Qed.

Theorem add_order_verdict : forall u orcs1 orcs2 i o s L1 L2,
  conc i -> conc o -> Forall (op_tyP conc) L1 -> no_compile L1 -> Permutation L1 L2 -> nbu [] L1 -> nbu [] L2 ->
  last (snd (run_ops u orcs1 0 (init_graph i o s) (L1 ++ [OpCompile]))) false =
  last (snd (run_ops u orcs2 0 (init_graph i o s) (L2 ++ [OpCompile]))) false.
Proof. intros u. exact (add_order_verdict_gen u conc (conc_eq u)). Qed.
