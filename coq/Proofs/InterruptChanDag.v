(* Proofs/InterruptChanDag.v — the DAG (all-predecessor) channels of Model/Graph.v as a [chan_layer]
   of Proofs/RunLoopSusp.v (owner: C05).

   The joint invariant is C02's (Proofs/DagInv.v): R = resolved keys, G = keys handed out by a successful
   get; the tasks that are pending (handed out, not yet folded in) are in G and not in R — such a task has
   not reported to any channel yet.  Proved here for every all-predecessor graph: the invariant is
   preserved by fold / getr, folding nothing changes nothing, a channel table that has just been read is
   not ready again, the ready list has distinct keys, a prefix of a successful fold succeeds.
   Compositionality and order independence of the fold are proved for graphs WITHOUT BRANCHES (no skip is
   ever reported after initChannelManager, so the fold only writes values and dependencies). *)
From Eino Require Import Base.Util Model.Graph Model.RunLoop Model.Interrupt
     Proofs.RunLoop Proofs.RunLoopSusp Proofs.InterruptChan Proofs.InterruptChanPregel
     Proofs.DagChan Proofs.DagInv Proofs.DagLoop.
From Coq Require Import Permutation.
Open Scope N_scope.

#[local] Arguments c_ctrl {V} _.
#[local] Arguments c_data {V} _.
#[local] Arguments c_skipped {V} _.
#[local] Arguments c_vals {V} _.

Section DagLayer.
  Variable g : graph.
  Hypothesis Hdag : g_mode g = Dag.
  Hypothesis Hend : exists q, gpred g kEND q.

  Notation Inv := (DagInv.Inv value g).
  Notation orph := (DagInv.orph value g).

  Definition dagJ (cs : chans value) (P : list N) : Prop :=
    exists R G, Inv cs R G [] /\ orph cs /\ NoDup G /\ incl P G /\ (forall k, In k P -> npred g G k) /\ NoDup P.

  Lemma dagJ_perm : forall cs P Q, Permutation P Q -> dagJ cs P -> dagJ cs Q.
  Proof.
    intros cs P Q Hp (R & G & HI & Ho & Hn & Hi & Hd & Hnp). exists R, G.
    split; [exact HI|]. split; [exact Ho|]. split; [exact Hn|]. split; [|split].
    - intros k Hk. apply Hi. eapply Permutation_in; [apply Permutation_sym; exact Hp|exact Hk].
    - intros k Hk. apply Hd. eapply Permutation_in; [apply Permutation_sym; exact Hp|exact Hk].
    - eapply Permutation_NoDup; eauto.
  Qed.

  Lemma nodup_app_l : forall {A} (a b : list A), NoDup (a ++ b) -> NoDup a.
  Proof.
    induction a as [|x a IH]; intros b H; [constructor|]. inversion H; subst. constructor; eauto.
    intro Hi. apply H2. apply in_or_app; auto.
  Qed.
  Lemma nodup_app_r' : forall {A} (a b : list A), NoDup (a ++ b) -> NoDup b.
  Proof. induction a; simpl; intros b H; auto. inversion H; auto. Qed.
  Lemma nodup_app_disj : forall {A} (a b : list A) x, NoDup (a ++ b) -> In x a -> ~ In x b.
  Proof.
    induction a as [|y a IH]; intros b x H Hx; [destruct Hx|]. inversion H; subst.
    destruct Hx as [<-|Hx]; [intro Hi; apply H2; apply in_or_app; auto|eauto].
  Qed.

  (* the two halves of [ifold] with the invariant *)
  Lemma ifold_parts : forall cs A R G,
    Inv cs R G [] -> orph cs -> incl (map fst A) G -> (forall k, In k (map fst A) -> npred g G k) ->
    forall cs', ifold g cs A = Ok cs' ->
      Inv cs' (map fst A ++ R) G [] /\ orph cs' /\ akeys cs' = akeys cs.
  Proof.
    intros cs A R G HI Ho Hin Hnr cs' Hf. unfold ifold in Hf.
    destruct (resolve_all value tree_ops g A cs) as [[[cs1 ws] ds]|e|] eqn:E1; simpl in Hf; try discriminate.
    set (R' := map fst A ++ R).
    assert (HR' : incl R' G).
    { intros x Hx. apply in_app_iff in Hx. destruct Hx as [Hx|Hx]; [auto|now apply (inv_RG _ _ _ _ _ _ HI)]. }
    assert (HI' : Inv cs R' G []).
    { apply Inv_grow_R with R; [|assumption..]. intros x Hx. apply in_app_iff. now right. }
    assert (Hnp : forall k, In k (akeys A) -> In k R' /\ npred g G k).
    { intros k Hk. split; [apply in_app_iff; now left|]. apply Hnr. exact Hk. }
    destruct (resolve_all_inv value tree_ops g Hdag A cs R' G cs1 ws ds HI' Hnp E1) as (HI1 & Hm1 & Hws & Hds).
    destruct (update_chans_inv value g Hdag cs1 R' G ws ds cs' HI1
                (fun w Hw => Hnp _ (Hws w Hw)) (fun d Hd => Hnp _ (Hds d Hd)) Hf) as (HI2 & Hm2).
    split; [exact HI2|]. split.
    - eapply orph_mono; [exact Hm2|]. eapply orph_mono; [exact Hm1|assumption].
    - destruct Hm1 as [E _]. destruct Hm2 as [E2 _]. congruence.
  Qed.

  Lemma dagJ_fold : forall cs A Q cs1, dagJ cs (map fst A ++ Q) -> ifold g cs A = Ok cs1 -> dagJ cs1 Q.
  Proof.
    intros cs A Q cs1 (R & G & HI & Ho & Hn & Hi & Hd & Hnp) Hf.
    destruct (ifold_parts cs A R G HI Ho) with (cs' := cs1) as (HI2 & Ho2 & _); auto.
    { intros k Hk. apply Hi. apply in_or_app; auto. }
    { intros k Hk. apply Hd. apply in_or_app; auto. }
    exists (map fst A ++ R), G. split; [exact HI2|]. split; [exact Ho2|]. split; [exact Hn|]. split; [|split].
    - intros k Hk. apply Hi. apply in_or_app; auto.
    - intros k Hk. apply Hd. apply in_or_app; auto.
    - eapply nodup_app_r'; eauto.
  Qed.

  Lemma dagJ_getr : forall cs cs2 r, dagJ cs [] -> igetr g cs = Ok (cs2, r) -> dagJ cs2 (map fst r).
  Proof.
    intros cs cs2 r (R & G & HI & Ho & Hn & _) Hg. unfold igetr in Hg.
    destruct (get_all_inv value tree_ops g Hdag cs R G cs2 r HI Ho Hn Hg) as (HI3 & Hm3 & Hnd3 & _).
    assert (HI3' : Inv cs2 R (G ++ akeys r) []) by (apply HI3; right; exact Hend).
    exists R, (G ++ akeys r). split; [exact HI3'|]. split; [eapply orph_mono; eauto|].
    split; [exact Hnd3|]. split; [|split].
    - intros k Hk. apply in_or_app; right. exact Hk.
    - intros k Hk. apply (pending_npred value g cs2 R (G ++ akeys r) k HI3').
      + apply in_or_app; right; exact Hk.
      + intros Hr. apply (nodup_app_disj G (akeys r) k Hnd3); auto. now apply (inv_RG _ _ _ _ _ _ HI).
    - eapply nodup_app_r'; eauto.
  Qed.

  Lemma dagJ_chan_inv : forall cs P, dagJ cs P -> chan_inv g cs.
  Proof.
    intros cs P (R & G & HI & Ho & _). unfold chan_inv. rewrite Hdag.
    destruct (inv_wf _ _ _ _ _ _ HI) as (Hks & _ & Hall).
    rewrite Forall_forall. intros [t c] Hin. simpl.
    assert (E : alookup t cs = Some c) by (apply ksorted_in_alookup; auto).
    destruct (Hall t c E) as (_ & Hc & Hd).
    intros H1 H2.
    assert (Hnone : forall p, ~ gpred g t p).
    { intros p [Hp|Hp].
      - apply Hc in Hp. unfold DagChan.ctrl_st in Hp. rewrite H1 in Hp. simpl in Hp. congruence.
      - apply Hd in Hp. unfold DagChan.data_st in Hp. rewrite H2 in Hp. simpl in Hp. congruence. }
    destruct (N.eq_dec t kEND) as [->|Hne].
    - destruct Hend as (q & Hq). exfalso. exact (Hnone q Hq).
    - exact (Ho t c Hne E Hnone).
  Qed.

  Lemma dagJ_getr_idem : forall cs cs' r, dagJ cs [] -> igetr g cs = Ok (cs', r) -> igetr g cs' = Ok (cs', []).
  Proof. intros cs cs' r Hj Hg. eapply igetr_idem; eauto. eapply dagJ_chan_inv; eauto. Qed.

  Lemma dagJ_getr_nodup : forall cs cs' r, dagJ cs [] -> igetr g cs = Ok (cs', r) -> NoDup (map fst r).
  Proof.
    intros cs cs' r (R & G & HI & _) Hg. unfold igetr in Hg.
    destruct (inv_wf _ _ _ _ _ _ HI) as (Hks & _).
    destruct (get_all_spec value tree_ops g Hdag cs cs' r Hks Hg) as (_ & Hsr & _).
    apply (ksorted_nodup r Hsr).
  Qed.

  (* ---------- a prefix of a successful fold succeeds ---------- *)
  Lemma resolve_all_app : forall A B cs,
    resolve_all value tree_ops g (A ++ B) cs =
    do r1 <- resolve_all value tree_ops g A cs;
    let '(cs1, w1, d1) := r1 in
    do r2 <- resolve_all value tree_ops g B cs1;
    let '(cs2, w2, d2) := r2 in Ok (cs2, w1 ++ w2, d1 ++ d2).
  Proof.
    induction A as [|[k out] A IH]; intros B cs; simpl.
    - destruct (resolve_all value tree_ops g B cs) as [[[cs2 w2] d2]| |]; reflexivity.
    - destruct (find_node g k) as [n|]; [|reflexivity].
      destruct (resolve_one value tree_ops g n out cs) as [[[cs1 w1] d1]| |]; simpl; try reflexivity.
      rewrite IH.
      destruct (resolve_all value tree_ops g A cs1) as [[[cs2 w2] d2]| |]; simpl; try reflexivity.
      destruct (resolve_all value tree_ops g B cs2) as [[[cs3 w3] d3]| |]; simpl; try reflexivity.
      rewrite !app_assoc. reflexivity.
  Qed.

  Lemma dagJ_fold_prefix : forall cs A B Q r, dagJ cs (map fst A ++ map fst B ++ Q) ->
    ifold g cs (A ++ B) = Ok r -> exists cs1, ifold g cs A = Ok cs1.
  Proof.
    intros cs A B Q r (R & G & HI & Ho & Hn & Hi & Hd & Hnp) Hf. unfold ifold in *.
    rewrite resolve_all_app in Hf.
    destruct (resolve_all value tree_ops g A cs) as [[[cs1 w1] d1]|e|] eqn:E1; simpl in Hf; try discriminate.
    destruct (resolve_all value tree_ops g B cs1) as [[[cs2 w2] d2]|e|] eqn:E2; simpl in Hf; try discriminate.
    simpl. unfold update_chans in *.
    destruct (targets_exist value cs2 (w1 ++ w2) (d1 ++ d2)) eqn:Et; [|discriminate].
    rewrite targets_exist_app in Et. apply andb_prop in Et as [Et1 _].
    (* the keys of the table do not change *)
    set (R' := map fst (A ++ B) ++ R).
    assert (HinAB : forall k, In k (map fst (A ++ B)) -> In k G /\ npred g G k).
    { intros k Hk. rewrite map_app in Hk. split.
      - apply Hi. rewrite app_assoc. apply in_or_app; auto.
      - apply Hd. rewrite app_assoc. apply in_or_app; auto. }
    assert (HR' : incl R' G).
    { intros x Hx. apply in_app_iff in Hx. destruct Hx as [Hx|Hx]; [apply HinAB; auto|now apply (inv_RG _ _ _ _ _ _ HI)]. }
    assert (HI' : Inv cs R' G []).
    { apply Inv_grow_R with R; [|assumption..]. intros x Hx. apply in_app_iff. now right. }
    assert (HnpB : forall k, In k (akeys B) -> In k R' /\ npred g G k).
    { intros k Hk. assert (Hk' : In k (map fst (A ++ B))) by (rewrite map_app; apply in_or_app; auto).
      split; [apply in_app_iff; now left|]. apply HinAB; auto. }
    assert (HnpA : forall k, In k (akeys A) -> In k R' /\ npred g G k).
    { intros k Hk. assert (Hk' : In k (map fst (A ++ B))) by (rewrite map_app; apply in_or_app; auto).
      split; [apply in_app_iff; now left|]. apply HinAB; auto. }
    destruct (resolve_all_inv value tree_ops g Hdag A cs R' G cs1 w1 d1 HI' HnpA E1) as (HI1 & Hm1 & _).
    destruct (resolve_all_inv value tree_ops g Hdag B cs1 R' G cs2 w2 d2 HI1 HnpB E2) as (_ & Hm2 & _).
    rewrite (targets_exist_keys cs1 cs2) in Et1 by (destruct Hm2 as [E _]; exact E).
    rewrite Et1. eauto.
  Qed.

  (* ================= graphs without branches ================= *)
  Section NoBranch.
    Hypothesis Hnb : forall n, In n (g_nodes g) -> n_branches n = [].

    Lemma report_branch_nil : forall k cs, report_branch value g k [] cs = Ok cs.
    Proof. intros k cs. unfold report_branch. rewrite Hdag. reflexivity. Qed.

    Lemma eval_branches_nb : forall n out, In n (g_nodes g) -> eval_branches value tree_ops n out = Ok ([], []).
    Proof. intros n out Hn. unfold eval_branches. rewrite (Hnb n Hn). reflexivity. Qed.

    (* resolving completed tasks does not touch the channels *)
    Lemma resolve_all_nb : forall l cs,
      resolve_all value tree_ops g l cs = do r <- rw g l; Ok (cs, fst r, snd r).
    Proof.
      induction l as [|[k out] l IH]; intros cs; simpl; auto.
      unfold tw; simpl. destruct (find_node g k) as [n|] eqn:Hf; simpl; auto.
      assert (Hn : In n (g_nodes g)) by (apply find_node_in in Hf; tauto).
      unfold resolve_one. rewrite (eval_branches_nb n out Hn). simpl.
      rewrite report_branch_nil. simpl. rewrite IH.
      destruct (rw g l) as [[w d]| |]; simpl; auto.
    Qed.

    Definition updD (ws : writes_t value) (ds : deps_t) (kc : key * chan value) : key * chan value :=
      (fst kc, dag_report_deps value (dag_report_values value (snd kc) (incoming_vals value g (fst kc) ws))
                               (incoming_deps g (fst kc) ds)).

    Lemma update_chan_dag : forall ws ds kc, update_chan value g ws ds kc = updD ws ds kc.
    Proof. intros ws ds [k c]. unfold update_chan, updD. rewrite Hdag. reflexivity. Qed.

    Lemma ifold_nb : forall cs l,
      ifold g cs l =
      do r <- rw g l;
      if targets_exist value cs (fst r) (snd r) then Ok (map (updD (fst r) (snd r)) cs) else Err eUnknownNode.
    Proof.
      intros cs l. unfold ifold. rewrite resolve_all_nb.
      destruct (rw g l) as [[w d]| |]; simpl; auto.
      unfold update_chans. destruct (targets_exist value cs w d); auto.
      f_equal. apply map_ext. intros kc. apply update_chan_dag.
    Qed.

    (* values and dependencies are written to different parts of a channel *)
    Lemma val_dep_step_comm : forall (c : chan value) kv d,
      val_step value (dep_step value c d) kv = dep_step value (val_step value c kv) d.
    Proof.
      intros c kv d. unfold val_step, dep_step.
      destruct (alookup d (c_ctrl c)) eqn:E1; destruct (alookup (fst kv) (c_data c)) eqn:E2; simpl;
        rewrite ?E1, ?E2; reflexivity.
    Qed.

    Lemma val_steps_dep_comm : forall ins (c : chan value) d,
      fold_left (val_step value) ins (dep_step value c d) = dep_step value (fold_left (val_step value) ins c) d.
    Proof.
      induction ins as [|kv ins IH]; intros c d; simpl; auto. rewrite val_dep_step_comm. apply IH.
    Qed.

    Lemma val_steps_deps_comm : forall ds ins (c : chan value),
      fold_left (val_step value) ins (fold_left (dep_step value) ds c) =
      fold_left (dep_step value) ds (fold_left (val_step value) ins c).
    Proof.
      induction ds as [|d ds IH]; intros ins c; simpl; auto. rewrite IH. rewrite val_steps_dep_comm. reflexivity.
    Qed.

    Lemma dag_vals_deps_comm : forall (c : chan value) ins ds,
      dag_report_values value (dag_report_deps value c ds) ins = dag_report_deps value (dag_report_values value c ins) ds.
    Proof.
      intros c ins ds. rewrite !dag_report_values_eq, !dag_report_deps_eq.
      destruct (c_skipped c) eqn:Es.
      - rewrite Es. reflexivity.
      - destruct (dep_steps_rest value c ds) as (_ & E1 & _). rewrite E1, Es.
        destruct (val_steps_rest value c ins) as (_ & E2). rewrite E2, Es.
        apply val_steps_deps_comm.
    Qed.

    Lemma dag_vals_app : forall (c : chan value) a b,
      dag_report_values value c (a ++ b) = dag_report_values value (dag_report_values value c a) b.
    Proof.
      intros c a b. rewrite !dag_report_values_eq. destruct (c_skipped c) eqn:Es.
      - rewrite Es. reflexivity.
      - destruct (val_steps_rest value c a) as (_ & E2). rewrite E2, Es. apply fold_left_app.
    Qed.

    Lemma dag_deps_app : forall (c : chan value) a b,
      dag_report_deps value c (a ++ b) = dag_report_deps value (dag_report_deps value c a) b.
    Proof.
      intros c a b. rewrite !dag_report_deps_eq. destruct (c_skipped c) eqn:Es.
      - rewrite Es. reflexivity.
      - destruct (dep_steps_rest value c a) as (_ & E2 & _). rewrite E2, Es. apply fold_left_app.
    Qed.

    Lemma incoming_deps_app : forall t d1 d2, incoming_deps g t (d1 ++ d2) = incoming_deps g t d1 ++ incoming_deps g t d2.
    Proof. intros. unfold incoming_deps. rewrite filter_app, map_app. reflexivity. Qed.

    Lemma updD_app : forall w1 w2 d1 d2 kc, updD (w1 ++ w2) (d1 ++ d2) kc = updD w2 d2 (updD w1 d1 kc).
    Proof.
      intros w1 w2 d1 d2 [k c]. unfold updD; simpl. rewrite incoming_vals_app, incoming_deps_app.
      rewrite dag_vals_app, dag_deps_app. rewrite dag_vals_deps_comm. reflexivity.
    Qed.

    Lemma updD_keys : forall ws ds cs, map fst (map (updD ws ds) cs) = map fst cs.
    Proof. intros. rewrite map_map. apply map_ext. intros [k c]; reflexivity. Qed.

    Lemma ifold_app_nb : forall cs A B cs1 r,
      ifold g cs A = Ok cs1 -> ifold g cs (A ++ B) = Ok r -> ifold g cs1 B = Ok r.
    Proof.
      intros cs A B cs1 r HA HAB. rewrite !ifold_nb in *. rewrite rw_app in HAB.
      destruct (rw g A) as [[wA dA]| |]; simpl in *; try discriminate.
      destruct (targets_exist value cs wA dA) eqn:HtA; try discriminate.
      inversion HA; subst cs1. clear HA.
      destruct (rw g B) as [[wB dB]| |]; simpl in *; try discriminate.
      rewrite targets_exist_app, HtA in HAB. simpl in HAB.
      rewrite (targets_exist_keys cs (map (updD wA dA) cs)) by apply updD_keys.
      destruct (targets_exist value cs wB dB); try discriminate.
      rewrite <- HAB. f_equal. rewrite map_map. apply map_ext. intros kc. symmetry. apply updD_app.
    Qed.

    (* ---------- the fold does not depend on the order of the completed tasks ---------- *)
    Lemma chan_ext : forall c1 c2 : chan value,
      chan_ok value c1 -> chan_ok value c2 ->
      (forall p, DagChan.ctrl_st value c1 p = DagChan.ctrl_st value c2 p) ->
      (forall p, DagChan.data_st value c1 p = DagChan.data_st value c2 p) ->
      (forall p, alookup p (c_vals c1) = alookup p (c_vals c2)) ->
      c_skipped c1 = c_skipped c2 -> c1 = c2.
    Proof.
      intros [ct1 d1 s1 v1] [ct2 d2 s2 v2] (Hc1 & Hd1 & Hv1) (Hc2 & Hd2 & Hv2) Hc Hd Hv Hs. simpl in *.
      unfold DagChan.ctrl_st, DagChan.data_st in *. simpl in *.
      rewrite (ksorted_ext ct1 ct2 Hc1 Hc2 Hc), (ksorted_ext d1 d2 Hd1 Hd2 Hd), (ksorted_ext v1 v2 Hv1 Hv2 Hv), Hs.
      reflexivity.
    Qed.

    Lemma memb_perm : forall p (l l' : list N), Permutation l l' -> memb p l = memb p l'.
    Proof.
      intros p l l' Hp. destruct (memb p l) eqn:E1; destruct (memb p l') eqn:E2; auto.
      - apply memb_in in E1. apply memb_false in E2. exfalso. apply E2. eapply Permutation_in; eauto.
      - apply memb_in in E2. apply memb_false in E1. exfalso. apply E1. eapply Permutation_in; [apply Permutation_sym|]; eauto.
    Qed.

    Lemma dag_deps_perm : forall (c : chan value) ds ds',
      chan_ok value c -> Permutation ds ds' -> dag_report_deps value c ds = dag_report_deps value c ds'.
    Proof.
      intros c ds ds' Hok Hp. apply chan_ext; try (apply dag_report_deps_ok; exact Hok).
      - intros p. rewrite !dag_report_deps_ctrl. rewrite (memb_perm p ds ds' Hp). reflexivity.
      - intros p. unfold DagChan.data_st.
        destruct (dag_report_deps_rest value c ds) as (E1 & _). destruct (dag_report_deps_rest value c ds') as (E2 & _).
        rewrite E1, E2. reflexivity.
      - intros p.
        destruct (dag_report_deps_rest value c ds) as (_ & _ & E1). destruct (dag_report_deps_rest value c ds') as (_ & _ & E2).
        rewrite E1, E2. reflexivity.
      - destruct (dag_report_deps_rest value c ds) as (_ & E1 & _). destruct (dag_report_deps_rest value c ds') as (_ & E2 & _).
        congruence.
    Qed.

    Lemma functional_perm : forall {A} (l l' : list (N * A)), Permutation l l' -> functional l -> functional l'.
    Proof.
      intros A l l' Hp Hf k v v' H1 H2. eapply Hf; eapply Permutation_in; try apply Permutation_sym; eauto.
    Qed.

    Lemma dag_vals_perm : forall (c : chan value) ins ins',
      chan_ok value c -> functional ins -> Permutation ins ins' ->
      dag_report_values value c ins = dag_report_values value c ins'.
    Proof.
      intros c ins ins' Hok Hf Hp.
      assert (Hf' : functional ins') by (eapply functional_perm; eauto).
      assert (Hk : Permutation (akeys ins) (akeys ins')) by (apply Permutation_map; exact Hp).
      apply chan_ext; try (apply dag_report_values_ok; exact Hok).
      - intros p. unfold DagChan.ctrl_st.
        destruct (dag_report_values_rest value c ins) as (E1 & _). destruct (dag_report_values_rest value c ins') as (E2 & _).
        rewrite E1, E2. reflexivity.
      - intros p. rewrite !dag_report_values_data. rewrite (memb_perm p _ _ Hk). reflexivity.
      - intros p. rewrite !dag_report_values_eq. destruct (c_skipped c); [reflexivity|].
        destruct (DagChan.data_st value c p) as [b|] eqn:Ed.
        + destruct (in_dec N.eq_dec p (akeys ins)) as [Hin|Hnin].
          * assert (Hex : exists v, In (p, v) ins).
            { unfold akeys in Hin. apply in_map_iff in Hin as ([k v] & E & Hi). simpl in E; subst. eauto. }
            destruct Hex as (v & Hv).
            rewrite (val_steps_vals_in value c ins p v); [|congruence|exact Hin|intros w Hw; eapply Hf; eauto].
            rewrite (val_steps_vals_in value c ins' p v); [reflexivity|congruence| |].
            -- eapply Permutation_in; eauto.
            -- intros w Hw. eapply Hf'; eauto. eapply Permutation_in; eauto.
          * rewrite (val_steps_vals_other value c ins p Hnin).
            rewrite (val_steps_vals_other value c ins' p); [reflexivity|].
            intro Hi. apply Hnin. eapply Permutation_in; [apply Permutation_sym; exact Hk|exact Hi].
        + rewrite !val_steps_vals_nodata by exact Ed. reflexivity.
      - destruct (dag_report_values_rest value c ins) as (_ & E1). destruct (dag_report_values_rest value c ins') as (_ & E2).
        congruence.
    Qed.

    Lemma incoming_deps_perm : forall t d1 d2, Permutation d1 d2 -> Permutation (incoming_deps g t d1) (incoming_deps g t d2).
    Proof. intros t d1 d2 Hp. unfold incoming_deps. apply Permutation_map. apply perm_filter. exact Hp. Qed.

    Lemma ifold_perm_nb : forall cs A B Q r,
      dagJ cs (map fst A ++ Q) -> NoDup (map fst A) -> Permutation A B ->
      ifold g cs A = Ok r -> ifold g cs B = Ok r.
    Proof.
      intros cs A B Q r (R & G & HI & _) Hn Hp H. rewrite !ifold_nb in *.
      destruct (rw g A) as [[wA dA]| |] eqn:HA; simpl in *; try discriminate.
      destruct (rw_perm g A B Hp wA dA HA) as (wB & dB & HB & Hw & Hd). rewrite HB. simpl.
      rewrite <- (targets_exist_perm cs wA wB dA dB Hw Hd).
      destruct (targets_exist value cs wA dA); try discriminate.
      inversion H; subst r. f_equal. symmetry.
      destruct (inv_wf _ _ _ _ _ _ HI) as (Hks & _ & Hall).
      apply map_ext_in. intros [k c] Hin. unfold updD; simpl.
      assert (E : alookup k cs = Some c) by (apply ksorted_in_alookup; auto).
      destruct (Hall k c E) as (Hok & _).
      f_equal. rewrite (dag_vals_perm c (incoming_vals value g k wA) (incoming_vals value g k wB) Hok).
      - apply dag_deps_perm; [apply dag_report_values_ok; exact Hok|]. apply incoming_deps_perm. exact Hd.
      - eapply incoming_vals_functional; eauto.
      - apply incoming_vals_perm. exact Hw.
    Qed.

    (* the DAG channels of a graph without branches are a channel layer *)
    Lemma chan_layer_dag_nb : chan_layer (ifold g) (igetr g) dagJ.
    Proof.
      constructor.
      - exact dagJ_perm.
      - exact dagJ_fold.
      - exact dagJ_getr.
      - intros; apply ifold_nil.
      - exact dagJ_getr_idem.
      - exact dagJ_getr_nodup.
      - intros cs A B Q cs1 r _. apply ifold_app_nb.
      - exact dagJ_fold_prefix.
      - exact ifold_perm_nb.
    Qed.
  End NoBranch.

  Lemma dagJ_init : forall cs0, init_chans value g = Ok cs0 -> dagJ cs0 [kStart].
  Proof.
    intros cs0 Hi. destruct (init_chans_inv value g Hdag cs0 Hi) as [HI Ho].
    exists [kSTART], [kSTART]. split; [exact HI|]. split; [exact Ho|].
    split; [repeat constructor; intros []|]. split; [|split].
    - intros k [<-|[]]. left. reflexivity.
    - intros k _ t [<-|[]] Hne. congruence.
    - repeat constructor. intros [].
  Qed.
End DagLayer.
