(* Proofs/ToolsConcat.v — C17's position-wise concatenation [concat_pos] (Model/Tools.v) is
   C14's model of compose.concatStreamReader on []*schema.Message ([msglist_stream] =
   concatMessageArray + ConcatMessages, Model/ConcatMsg.v) applied to the sparse tool-message
   lists the tools node emits.  So the "concatenation of the streamed form" that
   tools_stream_concat talks about is the framework's own concatenation as verified (and tied
   to the code) under property C14. *)
From Coq Require Import Permutation.
From Eino Require Import Base.Util Model.Concat Model.ConcatMsg Model.Tools Model.ToolsMsg Proofs.Tools.
Local Open Scope string_scope.

Section User.
Context {U : UserFn}.

Lemma sparse_length : forall ids e, List.length (sparse ids e) = List.length ids.
Proof. intros. unfold sparse. rewrite map_length, combine_length, seq_length. apply Nat.min_id. Qed.

Lemma nth_error_sparse : forall ids e k,
  nth_error (sparse ids e) k =
  option_map (fun id => if Nat.eqb (fst e) k then Some (tool_msg (snd e, id)) else None) (nth_error ids k).
Proof.
  intros. unfold sparse. rewrite nth_error_map, nth_error_combine_seq.
  destruct (nth_error ids k); reflexivity.
Qed.

Lemma column_sparse : forall ids em k id,
  nth_error ids k = Some id ->
  column k (map (sparse ids) em) = map (fun c => tool_msg (c, id)) (Tools.proj k em).
Proof.
  intros ids em k id Hk. unfold column. induction em as [|e em IH]; simpl; auto.
  rewrite nth_error_sparse, Hk. simpl. destruct e as [i c]. rewrite proj_cons. simpl.
  destruct (Nat.eqb i k); simpl; rewrite IH; reflexivity.
Qed.

(* ---- ConcatMessages on the chunks of one tool message ---- *)
Lemma all_some_map_Some : forall A (l : list A), all_some (map Some l) = Some l.
Proof. induction l; simpl; auto. rewrite IHl. reflexivity. Qed.

Lemma pick_from_same : forall A s (l : list A), pick_from s (map (fun _ => s) l) = Ok s.
Proof.
  intros A s. induction l; simpl; auto.
  destruct (str_empty s) eqn:E; auto. rewrite String.eqb_refl. auto.
Qed.

Lemma pick_const : forall A s (l : list A), l <> [] -> pick (map (fun _ => s) l) = Ok s.
Proof.
  intros A s l H. destruct l as [|a l]; [congruence|]. unfold pick. simpl.
  destruct (str_empty s) eqn:E.
  - unfold str_empty in E. apply String.eqb_eq in E. subst s. apply pick_from_same.
  - simpl. apply pick_from_same.
Qed.

Lemma flat_map_nil : forall A B (l : list A), flat_map (fun _ => @nil B) l = [].
Proof. induction l; simpl; auto. Qed.

Lemma concat_multi_nils : forall A (l : list A), concat_multi (map (fun _ => []) l) = [].
Proof. intros. unfold concat_multi. induction l; simpl; auto. Qed.

Lemma concat_meta_nones : forall A (l : list A), concat_meta (map (fun _ => None) l) = None.
Proof. intros. unfold concat_meta. induction l; simpl; auto. Qed.

Lemma filter_nonempty_nils : forall A (l : list A),
  filter nonempty_map (map (fun _ => @nil (string * cval)) l) = [].
Proof. induction l; simpl; auto. Qed.

Lemma concat_msgs_tool : forall id (cs : list string),
  cs <> [] ->
  concat_msgs (map Some (map (fun c => tool_msg (c, id)) cs)) = Ok (tool_msg (concat_strings cs, id)).
Proof.
  intros id cs Hne. unfold concat_msgs. rewrite all_some_map_Some.
  rewrite !map_map. simpl.
  rewrite (pick_const _ "tool" cs Hne). simpl.
  rewrite (pick_const _ "" cs Hne). simpl.
  rewrite (pick_const _ id cs Hne). simpl.
  rewrite flat_map_concat_map, map_map. simpl.
  rewrite <- flat_map_concat_map, flat_map_nil.
  change (concat_toolcalls []) with (@Ok (list toolcall) []). simpl.
  rewrite filter_nonempty_nils.
  change (concat_maps_top []) with (@Ok (list (string * cval)) []). simpl.
  rewrite concat_multi_nils, concat_meta_nones, map_id. reflexivity.
Qed.

Lemma concat_column_tool : forall id (cs : list string),
  concat_column (map (fun c => tool_msg (c, id)) cs) =
  Ok (option_map tool_msg (match cs with [] => None | _ => Some (concat_strings cs, id) end)).
Proof.
  intros id cs. destruct cs as [|c1 [|c2 r]].
  - reflexivity.
  - simpl. rewrite append_nil_r_str. reflexivity.
  - change (map (fun c => tool_msg (c, id)) (c1 :: c2 :: r))
      with (tool_msg (c1, id) :: tool_msg (c2, id) :: map (fun c => tool_msg (c, id)) r).
    unfold concat_column.
    change (map Some (tool_msg (c1, id) :: tool_msg (c2, id) :: map (fun c => tool_msg (c, id)) r))
      with (map Some (map (fun c => tool_msg (c, id)) (c1 :: c2 :: r))).
    rewrite concat_msgs_tool by discriminate. reflexivity.
Qed.

Lemma mapM_seq_combine : forall A B (l : list A) s (F : nat -> res B) (h : nat * A -> B),
  (forall k a, nth_error l k = Some a -> F (s + k) = Ok (h (s + k, a))) ->
  res_mapM F (seq s (List.length l)) = Ok (map h (combine (seq s (List.length l)) l)).
Proof.
  induction l; intros s F h H; simpl; auto.
  pose proof (H 0 a eq_refl) as H0. rewrite Nat.add_0_r in H0. rewrite H0. simpl.
  rewrite (IHl (S s) F h).
  - reflexivity.
  - intros k b Hk. specialize (H (S k) b Hk). rewrite Nat.add_succ_r in H. exact H.
Qed.

(* the entry concat_pos computes for position p *)
Definition pos_entry (em : list emitted) (p : nat * string) : option tmsg :=
  match Tools.proj (fst p) em with [] => None | cs => Some (concat_strings cs, snd p) end.

Lemma concat_arrays_sparse : forall ids e1 e2 em,
  concat_msg_arrays (map (sparse ids) (e1 :: e2 :: em)) =
  Ok (map (option_map tool_msg) (map (pos_entry (e1 :: e2 :: em)) (combine (seq 0 (List.length ids)) ids))).
Proof.
  intros ids e1 e2 em. set (all := e1 :: e2 :: em). unfold concat_msg_arrays.
  change (map (sparse ids) all) with (sparse ids e1 :: map (sparse ids) (e2 :: em)).
  cbv iota beta. rewrite sparse_length.
  change (sparse ids e1 :: map (sparse ids) (e2 :: em)) with (map (sparse ids) all).
  assert (L : forallb (fun ma => Nat.eqb (List.length ma) (List.length ids)) (map (sparse ids) all) = true).
  { apply forallb_forall. intros ma Hin. apply in_map_iff in Hin. destruct Hin as [e [<- _]].
    rewrite sparse_length. apply Nat.eqb_refl. }
  rewrite L. rewrite map_map.
  apply (mapM_seq_combine _ _ ids 0 (fun i => concat_column (column i (map (sparse ids) all)))
           (fun p => option_map tool_msg (pos_entry all p))).
  intros k id Hk. change (0 + k) with k. rewrite (column_sparse ids all k id Hk).
  rewrite concat_column_tool. unfold pos_entry. cbn [fst snd].
  destruct (Tools.proj k all); reflexivity.
Qed.

(* C17 meets C14: the framework's concatenation of the sparse lists received from the tools
   node (empty stream = error, one chunk = that chunk, otherwise concatMessageArray) is
   concat_pos, message for message *)
Theorem concat_pos_is_msglist_stream : forall ids em,
  framework_concat ids em =
  match concat_pos ids em with
  | Ok l => Ok (map (option_map tool_msg) l)
  | _ => Err Concat.E_EMPTY
  end.
Proof.
  intros ids em. unfold framework_concat. destruct em as [|e1 [|e2 em]].
  - reflexivity.
  - simpl. f_equal. unfold sparse. rewrite map_map. apply map_ext. intros [j id].
    destruct e1 as [i c]. unfold Tools.proj. simpl. destruct (Nat.eqb i j); simpl; auto.
    rewrite append_nil_r_str. reflexivity.
  - change (msglist_stream (map (sparse ids) (e1 :: e2 :: em)))
      with (concat_msg_arrays (map (sparse ids) (e1 :: e2 :: em))).
    rewrite concat_arrays_sparse. reflexivity.
Qed.

(* the streamed form, concatenated by the framework itself, is the Invoke answer (as messages) *)
Theorem stream_concat_framework :
  forall kind_of inv str handler pi pi' calls css,
    calls <> [] ->
    Permutation pi (seq 0 (List.length calls)) ->
    Permutation pi' (seq 0 (List.length calls)) ->
    Forall2 (fun c cs => s_answer kind_of inv str handler c = Ok (SOk cs None) /\ cs <> []) calls css ->
    Forall2 (fun c cs => answer kind_of inv str handler c = Ok (TOk (concat_strings cs))) calls css ->
    exists ss msgs,
      tools_stream_open kind_of inv str handler pi true calls = Ok ss
      /\ tools_invoke kind_of inv str handler pi' true calls = Ok msgs
      /\ forall sched,
           drained (merge_rest sched (stream_srcs ss)) = true ->
           framework_concat (stream_ids ss) (fst (merge_run sched (stream_srcs ss)))
           = Ok (map (fun m => Some (tool_msg m)) msgs).
Proof.
  intros kind_of inv str handler pi pi' calls css Hne P P' Hs Hi.
  destruct (stream_concat_eq_invoke kind_of inv str handler pi pi' calls css Hne P P' Hs Hi)
    as [ss [msgs [Ho [Hv [_ Hc]]]]].
  exists ss, msgs. repeat split; auto.
  intros sched Hd. rewrite concat_pos_is_msglist_stream, (Hc sched Hd), map_map. reflexivity.
Qed.
End User.
