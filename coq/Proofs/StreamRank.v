(* Proofs/StreamRank.v — property C08: the derivation structure of readers is well founded.

   A forwarder goroutine reads a reader that existed before its destination stream was made, a
   copy parent reads a reader that existed before the parent: there is a rank on base streams
   and copy parents such that every reference in the source of a forwarder has a smaller rank
   than the forwarder's destination, and every reference in the source of a parent has a
   smaller rank than the parent ([ranked], an invariant of every reachable state).  Hence the
   recursion of [strands] / [feeds] through forwarders and parents terminates: for every reader
   of a reachable state there is a fuel for which [strands] returns a value ([strands_total]). *)
From Eino Require Import Base.Util Model.Stream Proofs.Stream Proofs.StreamRel Proofs.StreamWf Proofs.StreamClose.
From Coq Require Import Lia Permutation.

Definition rkr (rs rp : nat -> nat) (r : ref) : nat :=
  match r with RS s => rs s | RC p _ => rp p end.

Definition RK (rs rp : nat -> nat) (G : state) : Prop :=
  (forall F, In F (st_fwds G) -> Forall (fun r => rkr rs rp r < rs (f_dst F)) (refs (f_src F)))
  /\ (forall q Q, nth_error (parents (st_store G)) q = Some Q ->
        Forall (fun r => rkr rs rp r < rp q) (refs (p_src Q))).

Definition ranked (G : state) : Prop := exists rs rp, RK rs rp G.

Lemma init_ranked : ranked init_state.
Proof.
  exists (fun _ => 0), (fun _ => 0). split.
  - intros F [].
  - intros q Q H. destruct q; discriminate.
Qed.

(* ------------------------------------------------------------------ steps that keep the shape *)

Lemma RK_same : forall rs rp G G', RK rs rp G ->
  (forall F', In F' (st_fwds G') ->
     exists F, In F (st_fwds G) /\ f_dst F' = f_dst F /\ refs (f_src F') = refs (f_src F)) ->
  (forall q Q', nth_error (parents (st_store G')) q = Some Q' ->
     exists Q, nth_error (parents (st_store G)) q = Some Q /\ refs (p_src Q') = refs (p_src Q)) ->
  RK rs rp G'.
Proof.
  intros rs rp G G' [K1 K2] HF HP. split.
  - intros F' Hin. destruct (HF _ Hin) as (F & HinF & Ed & Er). rewrite Ed, Er. apply K1. exact HinF.
  - intros q Q' HQ'. destruct (HP _ _ HQ') as (Q & HQ & Er). rewrite Er. eapply K2; eauto.
Qed.

Lemma In_upd : forall A (l : list A) i a x, In x (upd l i a) -> x = a \/ In x l.
Proof.
  induction l as [|b l IH]; intros [|i] a x H; simpl in *; auto.
  - destruct H as [H|H]; auto.
  - destruct H as [H|H]; auto. destruct (IH _ _ _ H); auto.
Qed.

Lemma fwds_same_shape : forall fw, forall F', In F' fw ->
  exists F, In F fw /\ f_dst F' = f_dst F /\ refs (f_src F') = refs (f_src F).
Proof. intros fw F' H. exists F'. auto. Qed.

Lemma fwds_upd_shape : forall fw k F F0, nth_error fw k = Some F ->
  f_dst F0 = f_dst F -> refs (f_src F0) = refs (f_src F) ->
  forall F', In F' (upd fw k F0) ->
  exists F1, In F1 fw /\ f_dst F' = f_dst F1 /\ refs (f_src F') = refs (f_src F1).
Proof.
  intros fw k F F0 Hn Ed Er F' Hin. apply In_upd in Hin. destruct Hin as [->|Hin].
  - exists F. split; [eapply nth_error_In; eauto | auto].
  - exists F'. auto.
Qed.

Lemma parents_same_shape : forall st st', parents st' = parents st ->
  forall q Q', nth_error (parents st') q = Some Q' ->
  exists Q, nth_error (parents st) q = Some Q /\ refs (p_src Q') = refs (p_src Q).
Proof. intros st st' E q Q' H. rewrite E in H. eauto. Qed.

Lemma parents_store_rel_shape : forall st st', store_rel st st' ->
  forall q Q', nth_error (parents st') q = Some Q' ->
  exists Q, nth_error (parents st) q = Some Q /\ refs (p_src Q') = refs (p_src Q).
Proof.
  intros st st' [_ H] q Q' HQ'. destruct (Forall2_nth_r _ _ _ _ _ _ H HQ') as (Q & HQ & (E & _)). eauto.
Qed.

Lemma parents_cstore_rel_shape : forall st st', cstore_rel st st' ->
  forall q Q', nth_error (parents st') q = Some Q' ->
  exists Q, nth_error (parents st) q = Some Q /\ refs (p_src Q') = refs (p_src Q).
Proof.
  intros st st' [_ H] q Q' HQ'. destruct (Forall2_nth_r _ _ _ _ _ _ H HQ') as (Q & HQ & (E & _)).
  exists Q. split; auto. rewrite E. reflexivity.
Qed.

(* ------------------------------------------------------------------ references in range *)

Definition in_range (st : store) (r : ref) : Prop :=
  match r with RS s => s < List.length (streams st) | RC p _ => p < List.length (parents st) end.

Lemma ref_ok_in_range : forall st r, ref_ok st r -> in_range st r.
Proof.
  intros st [s|p i]; simpl; auto. intros (P & HP & _). apply nth_error_Some. congruence.
Qed.

Lemma wf_fwd_in_range : forall G F, wf G -> In F (st_fwds G) ->
  Forall (in_range (st_store G)) (refs (f_src F)) /\ f_dst F < List.length (streams (st_store G)).
Proof.
  intros G F (_ & W2 & _ & W4 & _) Hin. split.
  - apply Forall_forall. intros r Hr. apply ref_ok_in_range. rewrite Forall_forall in W2. apply W2.
    unfold all_refs. apply in_or_app. right. apply in_or_app. right. unfold frefs. apply in_flat_map. eauto.
  - rewrite Forall_forall in W4. destruct (W4 F Hin) as (d & Hd & _). apply nth_error_Some. congruence.
Qed.

Lemma wf_parent_in_range : forall G q Q, wf G -> nth_error (parents (st_store G)) q = Some Q ->
  Forall (in_range (st_store G)) (refs (p_src Q)).
Proof.
  intros G q Q (_ & W2 & _) HQ. apply Forall_forall. intros r Hr. apply ref_ok_in_range.
  rewrite Forall_forall in W2. apply W2. unfold all_refs. apply in_or_app. right. apply in_or_app. left.
  unfold prefs. apply in_flat_map. exists Q. split; auto. eapply nth_error_In; eauto.
Qed.

Lemma wf_live_in_range : forall G h t, wf G -> live_rd G h = Some t -> Forall (in_range (st_store G)) (refs t).
Proof.
  intros G h t (_ & W2 & _) Hl. destruct (live_rd_nth _ _ _ Hl) as (H & Hn & Hlv & Hrd).
  apply Forall_forall. intros r Hr. apply ref_ok_in_range. rewrite Forall_forall in W2. apply W2.
  unfold all_refs. apply in_or_app. left. apply in_flat_map. exists H. split; [eapply nth_error_In; eauto|].
  unfold hrefs. rewrite Hlv, Hrd. exact Hr.
Qed.

Lemma list_max_ge : forall l x, In x l -> x <= list_max l.
Proof.
  intros l x Hin. pose proof (proj1 (list_max_le l (list_max l)) (le_n _)) as Hf.
  rewrite Forall_forall in Hf. apply Hf. exact Hin.
Qed.

(* ------------------------------------------------------------------ Copy: a new parent *)

Lemma ranked_add_parent : forall G t n fw hs,
  wf G -> ranked G -> Forall (in_range (st_store G)) (refs t) -> fw = st_fwds G ->
  ranked (mkState (add_parent (st_store G) (new_parent t n)) fw hs).
Proof.
  intros G t n fw hs HW (rs & rp & K1 & K2) Ht ->.
  set (q0 := List.length (parents (st_store G))).
  set (M := list_max (map (rkr rs rp) (refs t))).
  set (rp' := fun p => if Nat.eqb p q0 then S M else rp p).
  assert (Hsame : forall r, in_range (st_store G) r -> rkr rs rp' r = rkr rs rp r).
  { intros [s|p i] Hr; simpl; auto. unfold rp'. simpl in Hr. fold q0 in Hr.
    assert (Nat.eqb p q0 = false) as -> by (apply Nat.eqb_neq; lia). reflexivity. }
  exists rs, rp'. split; simpl.
  - intros F Hin. destruct (wf_fwd_in_range _ _ HW Hin) as [Hr _].
    specialize (K1 F Hin). rewrite Forall_forall in *. intros r Hi. rewrite Hsame by (apply Hr; exact Hi). apply K1; exact Hi.
  - intros q Q HQ. destruct (Nat.lt_ge_cases q q0) as [Hlt|Hge].
    + rewrite nth_error_app1 in HQ by exact Hlt.
      pose proof (wf_parent_in_range _ _ _ HW HQ) as Hr. specialize (K2 _ _ HQ).
      rewrite Forall_forall in *. intros r Hi. rewrite Hsame by (apply Hr; exact Hi).
      unfold rp' at 1. assert (Nat.eqb q q0 = false) as -> by (apply Nat.eqb_neq; lia). apply K2; exact Hi.
    + rewrite nth_error_app2 in HQ by exact Hge. fold q0 in HQ.
      destruct (q - q0) as [|k] eqn:Ek; simpl in HQ; [|destruct k; discriminate].
      inversion HQ; subst Q. simpl. assert (q = q0) by lia. subst q.
      rewrite Forall_forall in *. intros r Hi. rewrite Hsame by (apply Ht; exact Hi).
      unfold rp'. rewrite Nat.eqb_refl. apply Nat.lt_succ_r. apply list_max_ge. apply in_map. exact Hi.
Qed.

(* ------------------------------------------------------------------ Merge: new forwarders *)

Lemma merge_collect_fwds : forall ts st fw ss arr st' fw' ss' arr',
  merge_collect st fw ts ss arr = (st', fw', ss', arr') ->
  forall F, In F fw' -> In F fw \/ (In (f_src F) ts /\ List.length (streams st) <= f_dst F).
Proof.
  induction ts as [|t r IH]; intros st fw ss arr st' fw' ss' arr' H F Hin; simpl in H.
  - inversion H; subst. auto.
  - assert (Hfwd : merge_collect (add_stream st (new_stream 5 false)) (fw ++ [mkF t (List.length (streams st)) FRecv false]) r
                            (ss ++ [List.length (streams st)]) arr = (st', fw', ss', arr') ->
                   In F fw \/ (In (f_src F) (t :: r) /\ List.length (streams st) <= f_dst F)).
    { intros H0. destruct (IH _ _ _ _ _ _ _ _ H0 F Hin) as [Hi|[Hi Hl]].
      - apply in_app_or in Hi. destruct Hi as [Hi|[<-|[]]]; auto. right. simpl. auto.
      - right. split; [right; exact Hi|]. simpl in Hl. rewrite app_length in Hl. simpl in Hl. lia. }
    destruct t as [d rest | s | sts ch | f src cin cout | p i]; auto;
      (destruct (IH _ _ _ _ _ _ _ _ H F Hin) as [Hi|[Hi Hl]]; [left; exact Hi | right; split; [right; exact Hi | exact Hl]]).
Qed.

Lemma live_rds_in_range : forall G hs ts, wf G -> live_rds G hs = Some ts ->
  Forall (in_range (st_store G)) (flat_map refs ts).
Proof.
  intros G hs ts HW Hl. apply Forall_forall. intros r Hr. apply in_flat_map in Hr. destruct Hr as (t & Ht & Hr).
  destruct (live_rds_in _ _ _ _ Hl Ht) as (h & _ & Hlh). pose proof (wf_live_in_range _ _ _ HW Hlh) as Hf.
  rewrite Forall_forall in Hf. apply Hf. exact Hr.
Qed.

Lemma ranked_merge : forall G ts st1 fw1 ss arr st2 hs,
  wf G -> ranked G -> Forall (in_range (st_store G)) (flat_map refs ts) ->
  merge_collect (st_store G) (st_fwds G) ts [] [] = (st1, fw1, ss, arr) ->
  parents st2 = parents st1 ->
  ranked (mkState st2 fw1 hs).
Proof.
  intros G ts st1 fw1 ss arr st2 hs HW (rs & rp & K1 & K2) Ht Em Hp2.
  destruct (merge_collect_spec _ _ _ _ _ _ _ _ _ Em) as (Hp1 & _).
  set (n0 := List.length (streams (st_store G))).
  set (M := list_max (map (rkr rs rp) (flat_map refs ts))).
  set (rs' := fun s => if Nat.ltb s n0 then rs s else S M).
  assert (Hsame : forall r, in_range (st_store G) r -> rkr rs' rp r = rkr rs rp r).
  { intros [s|p i] Hr; simpl; auto. unfold rs'. simpl in Hr. fold n0 in Hr.
    assert (Nat.ltb s n0 = true) as -> by (apply Nat.ltb_lt; lia). reflexivity. }
  exists rs', rp. split; simpl.
  - intros F Hin. destruct (merge_collect_fwds _ _ _ _ _ _ _ _ _ Em F Hin) as [Hold|[Hsrc Hdst]].
    + destruct (wf_fwd_in_range _ _ HW Hold) as [Hr Hd]. specialize (K1 F Hold).
      rewrite Forall_forall in *. intros r Hi. rewrite Hsame by (apply Hr; exact Hi).
      unfold rs' at 1. fold n0 in Hd. assert (Nat.ltb (f_dst F) n0 = true) as -> by (apply Nat.ltb_lt; lia).
      apply K1; exact Hi.
    + rewrite Forall_forall in *. intros r Hi.
      assert (Hin2 : In r (flat_map refs ts)) by (apply in_flat_map; eauto).
      rewrite Hsame by (apply Ht; exact Hin2).
      unfold rs' at 1. fold n0 in Hdst. assert (Nat.ltb (f_dst F) n0 = false) as -> by (apply Nat.ltb_ge; lia).
      apply Nat.lt_succ_r. apply list_max_ge. apply in_map. exact Hin2.
  - intros q Q HQ. rewrite Hp2, Hp1 in HQ.
    pose proof (wf_parent_in_range _ _ _ HW HQ) as Hr. specialize (K2 _ _ HQ).
    rewrite Forall_forall in *. intros r Hi. rewrite Hsame by (apply Hr; exact Hi). apply K2; exact Hi.
Qed.

(* ------------------------------------------------------------------ every step *)

Lemma do_op_ranked : forall fuel G o b G', do_op fuel G o = (b, G') -> wf G -> ranked G -> ranked G'.
Proof.
  intros fuel G o b G' H HW HR.
  assert (Keep : forall G2,
    (forall F', In F' (st_fwds G2) ->
       exists F, In F (st_fwds G) /\ f_dst F' = f_dst F /\ refs (f_src F') = refs (f_src F)) ->
    (forall q Q', nth_error (parents (st_store G2)) q = Some Q' ->
       exists Q, nth_error (parents (st_store G)) q = Some Q /\ refs (p_src Q') = refs (p_src Q)) ->
    ranked G2).
  { intros G2 A B. destruct HR as (rs & rp & K). exists rs, rp. eapply RK_same; eauto. }
  destruct o as [cap | xs | h n | hs | h f | sid x | sid | h ch | h | k ch]; simpl in H.
  - inversion H; subst. apply Keep; simpl; [apply fwds_same_shape | apply parents_same_shape; reflexivity].
  - inversion H; subst. apply Keep; simpl; [apply fwds_same_shape | apply parents_same_shape; reflexivity].
  - destruct (live_rd G h) as [t|] eqn:El; [|inversion H; subst; auto].
    destruct (Nat.ltb n 2); [inversion H; subst; auto|].
    pose proof (wf_live_in_range _ _ _ HW El) as Hrt.
    destruct t; inversion H; subst; clear H; rewrite ?consume_store, ?consume_fwds;
      try (apply ranked_add_parent; auto; fail).
    apply Keep; simpl; [apply fwds_same_shape | apply parents_same_shape; reflexivity].
  - destruct hs as [|h0 [|h1 hs']]; [inversion H; subst; auto| |].
    { destruct (live_rd G h0); inversion H; subst; auto. }
    destruct (negb (nodupb (h0 :: h1 :: hs'))); [inversion H; subst; auto|].
    destruct (live_rds G (h0 :: h1 :: hs')) as [ts|] eqn:El; [|inversion H; subst; auto].
    rewrite consume_all_store, consume_all_fwds in H.
    destruct (merge_collect _ _ ts [] []) as [[[st1 fw1] ss] arr] eqn:Em.
    pose proof (live_rds_in_range _ _ _ HW El) as Hrt.
    destruct ss as [|s0 ss']; destruct arr as [|a0 arr']; inversion H; subst; clear H;
      eapply ranked_merge; eauto.
  - destruct (live_rd G h) as [t|] eqn:El; [|inversion H; subst; auto].
    inversion H; subst. rewrite consume_store, consume_fwds.
    apply Keep; simpl; [apply fwds_same_shape | apply parents_same_shape; reflexivity].
  - destruct (nth_error (streams (st_store G)) sid) as [s|] eqn:Es; [|inversion H; subst; auto].
    destruct (negb (s_user s)); [inversion H; subst; auto|].
    destruct (stream_send s x) as [r s'] eqn:E. inversion H; subst.
    apply Keep; simpl; [apply fwds_same_shape | apply parents_same_shape; reflexivity].
  - destruct (nth_error (streams (st_store G)) sid) as [s|] eqn:Es; [|inversion H; subst; auto].
    destruct (negb (s_user s)); [inversion H; subst; auto|].
    destruct (stream_close_send s) as [r s'] eqn:E. inversion H; subst.
    apply Keep; simpl; [apply fwds_same_shape | apply parents_same_shape; reflexivity].
  - destruct (nth_error (st_handles G) h) as [Hh|] eqn:Eh; [|inversion H; subst; auto].
    destruct (negb (h_live Hh)); [inversion H; subst; auto|].
    destruct (recv fuel (st_store G) (h_rd Hh) ch) as [[[r st1] t1] ch1] eqn:Er.
    inversion H; subst. apply recv_Recv in Er. destruct (Recv_static _ _ _ _ _ Er) as [SR _].
    apply Keep; simpl; [apply fwds_same_shape | apply parents_store_rel_shape; exact SR].
  - destruct (nth_error (st_handles G) h) as [Hh|] eqn:Eh; [|inversion H; subst; auto].
    destruct (negb (h_live Hh)); [inversion H; subst; auto|].
    destruct (close_rd fuel (st_store G) (h_rd Hh)) as [r st1] eqn:Er.
    inversion H; subst. apply close_Close in Er. pose proof (Close_static _ _ _ _ Er) as SR.
    apply Keep; simpl; [apply fwds_same_shape | apply parents_cstore_rel_shape; exact SR].
  - destruct (nth_error (st_fwds G) k) as [F|] eqn:EF; [|inversion H; subst; auto].
    destruct (f_st F) as [|x| |].
    + destruct (recv fuel (st_store G) (f_src F) ch) as [[[r st1] src1] ch1] eqn:Er.
      apply recv_Recv in Er. destruct (Recv_static _ _ _ _ _ Er) as [SR Hrf].
      assert (X : forall fs eo st2, parents st2 = parents st1 ->
                  ranked (mkState st2 (upd (st_fwds G) k (mkF src1 (f_dst F) fs eo)) (st_handles G))).
      { intros fs eo st2 Hp2. apply Keep; simpl.
        - eapply fwds_upd_shape; eauto.
        - intros q Q' HQ'. rewrite Hp2 in HQ'. eapply parents_store_rel_shape; eauto. }
      destruct r; try (inversion H; subst; apply X; reflexivity).
      destruct (nth_error (streams st1) (f_dst F)) as [d|] eqn:Ed; [|inversion H; subst; auto].
      destruct (stream_close_send d) as [r0 d'] eqn:Ec. inversion H; subst. apply X. reflexivity.
    + destruct (nth_error (streams (st_store G)) (f_dst F)) as [d|] eqn:Ed; [|inversion H; subst; auto].
      assert (X : forall fs st2, parents st2 = parents (st_store G) ->
                  ranked (mkState st2 (upd (st_fwds G) k (mkF (f_src F) (f_dst F) fs (f_eof F))) (st_handles G))).
      { intros fs st2 Hp2. apply Keep; simpl.
        - eapply fwds_upd_shape; eauto.
        - apply parents_same_shape. exact Hp2. }
      destruct (stream_send d x) as [r d'] eqn:Es.
      destruct r; try (inversion H; subst; first [exact HR | apply X; reflexivity]; fail).
      destruct (stream_close_send d) as [r0 d''] eqn:Ec. inversion H; subst. apply X. reflexivity.
    + destruct (close_rd fuel (st_store G) (f_src F)) as [r st1] eqn:Er.
      inversion H; subst. apply close_Close in Er. pose proof (Close_static _ _ _ _ Er) as SR.
      apply Keep; simpl; [eapply fwds_upd_shape; eauto | apply parents_cstore_rel_shape; exact SR].
    + inversion H; subst; auto.
Qed.

Lemma run_ranked : forall fuel ops G bs G', run fuel G ops = (bs, G') -> wf G -> ranked G -> ranked G'.
Proof.
  intros fuel. induction ops as [|o r IH]; intros G bs G' H HW HR; simpl in H.
  - inversion H; subst; auto.
  - destruct (do_op fuel G o) as [b G1] eqn:E1. destruct (run fuel G1 r) as [bs2 G2] eqn:E2.
    inversion H; subst. eapply IH; eauto; [eapply do_op_wf; eauto | eapply do_op_ranked; eauto].
Qed.

Lemma reachable_ranked : forall fuel ops bs G, run fuel init_state ops = (bs, G) -> ranked G.
Proof. intros. eapply run_ranked; eauto; [apply init_wf | apply init_ranked]. Qed.
