(* Proofs/GenAgreeStatePlumb.v — C11, translator tie: the statements of compose/graph.go (graph.compile:
   r.runCtx) and compose/graph_run.go (runner.run: the start of a run and the two resume blocks;
   handleInterrupt / handleInterruptWithSubGraphAndRerunNodes: what goes into cp.State) that create,
   save and restore the holder of the graph state, as tools/go2v (extractor "stateplumb") reads them on
   every run (Gen/StatePlumb.v), are the blocks of Model/StatePlumb.v — and hence [new_inst] (a run / a
   nested graph starts: a graph that declares state gets a NEW holder with what its generator returns,
   a graph without state keeps the context) and [ChResume] (interrupt + resume: only a graph that
   declares state saves the state it finds; the caller's modifier is applied once to the saved state;
   the result goes into a NEW holder before the restored tasks are created) of the transition system of
   Model/StateLockLTS.v are what the source computes.  A holder hoisted out of the per-run closure, a
   state generated elsewhere, a save without the `declares state` guard, a restore after the tasks, a
   modifier applied twice or to something else make this file stop compiling. *)
From Eino Require Import Base.Util Model.StateLock Model.StateLockLTS Model.StateLockCode Model.StatePlumb.
From Eino Require Import Proofs.StatePlumb.
From Eino Require Gen.StatePlumb.

(* Agreement is agreement of BEHAVIOUR: for every environment (graph declares state or not, what its
   generator returns, the caller's modifier) and every state (context binding, holders, cp.State …) the
   source's block and the model's compute the same state (or both panic).  So the same statements cut into
   helpers (inlined by the extractor), a test nested instead of conjoined, an early return instead of an
   enclosing if still agree; a block that creates, saves or restores something else does not. *)
Ltac c11_plumb_agree :=
  intros S env [ctx objs cp restored modcalls];
  unfold pexec, Gen.StatePlumb.start_block, Gen.StatePlumb.resume_sub_block, Gen.StatePlumb.resume_top_block,
    Gen.StatePlumb.save_block_interrupt, Gen.StatePlumb.save_block_rerun,
    Model.StatePlumb.start_block, Model.StatePlumb.resume_sub_block, Model.StatePlumb.resume_top_block,
    Model.StatePlumb.resume_block, Model.StatePlumb.save_block;
  destruct env as [hg g [m|] sh]; destruct hg; destruct cp as [v|]; cbn;
  repeat (match goal with
          | |- context [ctx ?k] => destruct (ctx k) as [?|] eqn:?; cbn
          | |- context [nth_error ?l ?o] => destruct (nth_error l o) as [?|] eqn:?; cbn
          end);
  reflexivity.

Theorem gen_start_block_agrees : forall S env st,
  pexec S env Gen.StatePlumb.start_block st = pexec S env Model.StatePlumb.start_block st.
Proof. c11_plumb_agree. Qed.
Lemma gen_resume_sub_agrees : forall S env st,
  pexec S env Gen.StatePlumb.resume_sub_block st = pexec S env Model.StatePlumb.resume_sub_block st.
Proof. c11_plumb_agree. Qed.
Lemma gen_resume_top_agrees : forall S env st,
  pexec S env Gen.StatePlumb.resume_top_block st = pexec S env Model.StatePlumb.resume_top_block st.
Proof. c11_plumb_agree. Qed.
Theorem gen_resume_blocks_agree : forall S env st,
  pexec S env Gen.StatePlumb.resume_sub_block st = pexec S env Model.StatePlumb.resume_sub_block st /\
  pexec S env Gen.StatePlumb.resume_top_block st = pexec S env Model.StatePlumb.resume_top_block st.
Proof. intros; split; [apply gen_resume_sub_agrees | apply gen_resume_top_agrees]. Qed.
Lemma gen_save_interrupt_agrees : forall S env st,
  pexec S env Gen.StatePlumb.save_block_interrupt st = pexec S env Model.StatePlumb.save_block st.
Proof. c11_plumb_agree. Qed.
Lemma gen_save_rerun_agrees : forall S env st,
  pexec S env Gen.StatePlumb.save_block_rerun st = pexec S env Model.StatePlumb.save_block st.
Proof. c11_plumb_agree. Qed.
Theorem gen_save_blocks_agree : forall S env st,
  pexec S env Gen.StatePlumb.save_block_interrupt st = pexec S env Model.StatePlumb.save_block st /\
  pexec S env Gen.StatePlumb.save_block_rerun st = pexec S env Model.StatePlumb.save_block st.
Proof. intros; split; [apply gen_save_interrupt_agrees | apply gen_save_rerun_agrees]. Qed.

(* a block followed by a block *)
Lemma c11_pexec_fuel_app : forall S env n a b st,
  pexec_fuel S env n (a ++ b) st =
  match pexec_fuel S env n a st with Some st' => pexec_fuel S env n b st' | None => None end.
Proof.
  intros S env n a; induction a as [|s a IH]; intros b st; cbn; [reflexivity|].
  destruct (pexec1 S env n s st); [apply IH | reflexivity].
Qed.
Lemma c11_pexec_app : forall S env a b st,
  pexec S env (a ++ b) st = match pexec S env a st with Some st' => pexec S env b st' | None => None end.
Proof. intros; apply c11_pexec_fuel_app. Qed.

(* save block followed by resume block: the source's and the model's *)
Lemma gen_save_then_resume_agrees : forall sb rb,
  sb = Gen.StatePlumb.save_block_interrupt \/ sb = Gen.StatePlumb.save_block_rerun ->
  rb = Gen.StatePlumb.resume_sub_block \/ rb = Gen.StatePlumb.resume_top_block ->
  exists rb', (rb' = resume_sub_block \/ rb' = resume_top_block) /\
              forall S env st, pexec S env (sb ++ rb) st = pexec S env (save_block ++ rb') st.
Proof.
  intros sb rb Hsb Hrb.
  assert (Es : forall S env st0, pexec S env sb st0 = pexec S env save_block st0)
    by (intros; destruct Hsb; subst sb; [apply gen_save_interrupt_agrees | apply gen_save_rerun_agrees]).
  destruct Hrb; subst rb.
  - exists resume_sub_block; split; [now left|]. intros S env st. rewrite !c11_pexec_app, Es.
    destruct (pexec S env save_block st); [apply gen_resume_sub_agrees | reflexivity].
  - exists resume_top_block; split; [now right|]. intros S env st. rewrite !c11_pexec_app, Es.
    destruct (pexec S env save_block st); [apply gen_resume_top_agrees | reflexivity].
Qed.

(* the start of an instance in the transition system is the source's start block *)
Theorem gen_new_inst_is_source_start_block :
  forall (S X : Type) (gen : nat -> S) (c : config S X) r g G parent inherited x,
    let c' := new_inst S X gen c r g G parent inherited x in
    exists st' J,
      pexec S (mkPE (g_state G) (gen g) None 0) Gen.StatePlumb.start_block (st_of S X c inherited) = Some st' /\
      ps_objs st' = map (@o_val S) (c_objs c') /\
      nth_error (c_insts c') (List.length (c_insts c)) = Some J /\
      i_obj J = ps_ctx st' KState /\ i_run J = r /\ i_graph J = g /\ i_parent J = parent.
Proof. intros. rewrite gen_start_block_agrees. apply new_inst_is_start_block. Qed.

(* the resume step of the transition system is the source's save block followed by the source's
   resume block (either interrupt handler, either resume block) *)
Theorem gen_resume_step_is_source_blocks :
  forall (S X : Type) gen hfun lout mrg f x0 sb rb (c : config S X) o om c',
    sb = Gen.StatePlumb.save_block_interrupt \/ sb = Gen.StatePlumb.save_block_rerun ->
    rb = Gen.StatePlumb.resume_sub_block \/ rb = Gen.StatePlumb.resume_top_block ->
    pstep S X gen hfun lout mrg f x0 c (ChResume o (mod_fun om)) = Some c' ->
    exists r st',
      nth_error (c_objs c) o = Some r /\
      pexec S (mkPE true (o_val r) om 0) (sb ++ rb) (st_of S X c (Some o)) = Some st' /\
      ps_objs st' = map (@o_val S) (c_objs c') /\
      ps_ctx st' KState = Some (List.length (c_objs c)) /\
      ps_restored st' = [Some (List.length (c_objs c))] /\
      ps_modcalls st' = (match om with Some _ => 1 | None => 0 end)%nat /\
      (forall J, i_obj J = Some o -> i_obj (remap S X o (List.length (c_objs c)) J) = ps_ctx st' KState).
Proof.
  intros S X gen hfun lout mrg f x0 sb rb c o om c' Hsb Hrb Hp.
  destruct (gen_save_then_resume_agrees sb rb Hsb Hrb) as (rb' & Hrb' & E).
  destruct (resume_step_is_save_then_resume_block S X gen hfun lout mrg f x0 rb' c o om c' Hrb' Hp)
    as (r & st' & Hn & Hx & Hrest).
  exists r, st'. split; [exact Hn|]. split; [rewrite E; exact Hx | exact Hrest].
Qed.

(* a graph that declares no state: nothing saved, context untouched on resume (F-C11a) *)
Theorem gen_stateless_graph_keeps_context :
  forall (S : Type) sb rb (g0 : S) om st,
    sb = Gen.StatePlumb.save_block_interrupt \/ sb = Gen.StatePlumb.save_block_rerun ->
    rb = Gen.StatePlumb.resume_sub_block \/ rb = Gen.StatePlumb.resume_top_block ->
    ps_cp st = None ->
    exists st', pexec S (mkPE false g0 om 0) (sb ++ rb) st = Some st' /\
                ps_ctx st' = ps_ctx st /\ ps_objs st' = ps_objs st /\ ps_cp st' = None /\
                ps_modcalls st' = ps_modcalls st /\ ps_restored st' = ps_restored st ++ [ps_ctx st KState].
Proof.
  intros S sb rb g0 om st Hsb Hrb Hc.
  destruct (gen_save_then_resume_agrees sb rb Hsb Hrb) as (rb' & Hrb' & E).
  rewrite E. now apply stateless_graph_keeps_context.
Qed.

(* non-vacuity: a run of a stateful graph, interrupted and resumed with a modifier, through the
   source's blocks: generated 10, saved 10, modified to 11 in a new holder *)
Example gen_plumb_roundtrip :
  let env := mkPE true 10%nat (Some S) 0 in
  let st0 := mkPS (fun _ => None) [] None [] 0 in
  match pexec nat env Gen.StatePlumb.start_block st0 with
  | Some st1 =>
      ps_objs st1 = [10%nat] /\ ps_ctx st1 KState = Some 0%nat /\
      match pexec nat env (Gen.StatePlumb.save_block_interrupt ++ Gen.StatePlumb.resume_top_block) st1 with
      | Some st2 => ps_objs st2 = [10; 11]%nat /\ ps_ctx st2 KState = Some 1%nat /\ ps_restored st2 = [Some 1%nat] /\
                    ps_modcalls st2 = 1%nat
      | None => False
      end
  | None => False
  end.
Proof. cbn. repeat split; reflexivity. Qed.
