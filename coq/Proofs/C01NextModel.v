(* Proofs/C01NextModel.v — property C01: the specification of runner.calculateNextTasks / createTasks
   (Model/NextSpec.v, which Proofs/GenAgreeC01Next.v proves equal to the functions regenerated from
   compose/graph_run.go on every run) against the engine model: with resolveCompletedTasks as specified
   (Model/ResolveSpec.v, = resolve_all by Proofs/ResolveModel.v) and cm.updateAndGet doing on the grouped maps what
   [update_chans] + [get_all] do on the lists the tasks give rise to (hypothesis [uag_is_model]: graph_manager.go is not
   translated; satisfiable for every run: the function that answers with the right-hand side),
   calculateNextTasks IS [calc_next] followed by the END test of [step]. *)
From Eino Require Import Base.Util Model.Graph Model.ImpGenLib Model.CalcBranchSpec Model.ResolveGenLib Model.ResolveSpec Model.NextSpec.
From Eino Require Import Proofs.CalcBranchModel Proofs.ResolveModel.

(* lookups in an association list, the model's way and the translator's *)
Lemma am_has_alookup : forall {A} k (l : list (key * A)),
  am_has k l = match alookup k l with Some _ => true | None => false end.
Proof.
  intros A k l; induction l as [|[k' a] l IH]; simpl; [reflexivity|].
  rewrite (N.eqb_sym k' k). destruct (N.eqb k k'); [reflexivity|exact IH].
Qed.

Lemma am_get_alookup : forall {A} (d : A) k (l : list (key * A)),
  am_get d k l = match alookup k l with Some a => a | None => d end.
Proof.
  intros A d k l; induction l as [|[k' a] l IH]; simpl; [reflexivity|].
  rewrite (N.eqb_sym k' k). destruct (N.eqb k k'); [reflexivity|exact IH].
Qed.

Section Tie.
  Variable V : Type.
  Variable ops : vops V.
  Variable ec : nat -> N.
  Variable g : graph.
  Variable zero_node : node.
  Variable subscribe : list (key * node).                        (* r.chanSubscribeTo *)
  Variable uag : chans V -> wmap V -> dmap -> res (list (key * V) * chans V).   (* cm.updateAndGet *)

  (* graph_manager.go is not translated: on the two maps resolveCompletedTasks returns, updateAndGet does what the
     model's update_chans and get_all do on the lists of writes and dependencies they group *)
  Definition uag_is_model (tasks : list (node * V)) (cs : chans V) : Prop :=
    forall cs1 ws ds,
      resolve_all V ops g (map (fun t => (n_key (fst t), snd t)) tasks) cs = Ok (cs1, ws, ds) ->
      uag cs1 (wmap_of V ws) (dmap_of ds)
      = do cs2 <- update_chans V g ws ds cs1; do r <- get_all V ops g cs2; Ok (snd r, fst r).

  Definition spec_next_on_nodes (tasks : list (node * V)) (isStream : bool) (cs : chans V)
    : res (list (key * V) * V * bool * chans V) :=
    calculate_next_tasks V (node * V) (key * V) node (chans V) (v_zero ops) zero_node ec subscribe
      (fun k _ v => (k, v))
      (fun cs tasks isStream => spec_on_nodes V ops ec g tasks isStream cs)
      uag tasks isStream cs.

  Theorem spec_next_is_calc_next : forall tasks isStream cs,
    g_mode g = Pregel ->
    (forall t, In t tasks -> n_dmap (fst t) = [] /\ find_node g (n_key (fst t)) = Some (fst t)) ->
    uag_is_model tasks cs ->
    spec_next_on_nodes tasks isStream cs
    = do r <- calc_next V ops g cs (map (fun t => (n_key (fst t), snd t)) tasks);
      let '(cs', ready) := r in
      match alookup kEND ready with
      | Some v => Ok ([], v, true, cs')
      | None => do ts <- create_tasks V (key * V) node zero_node ec subscribe (fun k _ v => (k, v)) ready;
                Ok (ts, v_zero ops, false, cs')
      end.
  Proof.
    intros tasks isStream cs Hm Ht Hu. unfold spec_next_on_nodes, calculate_next_tasks, calc_next.
    rewrite (spec_resolve_is_resolve_all V ops ec g tasks isStream cs Hm Ht).
    destruct (resolve_all V ops g (map (fun t => (n_key (fst t), snd t)) tasks) cs) as [[[cs1 ws] ds]| |] eqn:E; simpl; try reflexivity.
    rewrite (Hu cs1 ws ds E).
    destruct (update_chans V g ws ds cs1) as [cs2| |]; simpl; try reflexivity.
    destruct (get_all V ops g cs2) as [[cs3 ready]| |]; simpl; try reflexivity.
    unfold vm_has, vm_get. rewrite am_has_alookup, am_get_alookup.
    destruct (alookup kEND ready); reflexivity.
  Qed.

  (* every ready node has a chanCall: one task per ready node, on the value its channel handed out *)
  Theorem next_tasks_are_ready : forall ready : list (key * V),
    forallb (fun kv => am_has (fst kv) subscribe) ready = true ->
    create_tasks V (key * V) node zero_node ec subscribe (fun k _ v => (k, v)) ready = Ok ready.
  Proof.
    intros ready H. unfold create_tasks.
    assert (G : forall (l acc : list (key * V)), forallb (fun kv => am_has (fst kv) subscribe) l = true ->
              fold_res (fun acc0 (kv : key * V) =>
                          if am_has (fst kv) subscribe
                          then Ok (acc0 ++ [(fst kv, snd kv)])
                          else Err (ec 1%nat)) l acc = Ok (acc ++ l)).
    { intros l; induction l as [|[k v] l IH]; intros acc Hl; simpl in Hl.
      - rewrite app_nil_r. reflexivity.
      - apply andb_true_iff in Hl. destruct Hl as [H1 H2]. rewrite fold_res_cons. simpl fst; simpl snd. rewrite H1.
        rewrite IH by exact H2. rewrite <- app_assoc. reflexivity. }
    exact (G ready [] H).
  Qed.
End Tie.
