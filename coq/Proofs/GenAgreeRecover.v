(* Proofs/GenAgreeRecover.v — property C13: the attributes tools/go2v (extractor "recoversites") reads off the
   five places where a panic of user code becomes an error (Gen/RecoverSites.v) make them what the model
   says they are, for EVERY payload, the nil-valued panic included:

     taskManager.executor            of_call      : a panic is the task's error PanicErr i
     parallelRunToolCall goroutine   (same shape)   : a panic is the call's error
     the two toStream forwarders     fwd          : a panic is one error item, then the stream ends
     parentStreamReader.peek         child_read   : a panic is recorded as an error item for every copy

   A site whose deferred function uses a bare recover() again, sets its flag before the guarded call, or
   no longer stores / sends safe.NewPanicErr makes this file stop compiling (F-C13f, mutants M3-M5, M18). *)
From Eino Require Import Base.Util Model.Errors Model.ErrorsFwd Model.ErrorsNilPanic Model.ErrorsRecoverLib.
From Eino Require Gen.RecoverSites.

Lemma good_site_reports : forall r i, r <> RNone -> site_panic (good_site r) i = Some (PanicErr i).
Proof.
  intros r i H. unfold site_panic, good_site. cbn [rs_guard_nil rs_flag_after rs_report_first rs_report andb negb].
  rewrite Bool.andb_false_r. destruct r; [reflexivity | reflexivity | congruence].
Qed.

Theorem gen_executor_site_agrees : forall wrap c ok,
  of_call_site Gen.RecoverSites.site_executor wrap c ok = of_call wrap c ok.
Proof.
  intros wrap c ok. destruct c as [|e|i]; try reflexivity.
  unfold of_call_site. change Gen.RecoverSites.site_executor with (good_site RTaskErr).
  rewrite good_site_reports by congruence. reflexivity.
Qed.

Theorem gen_toolcall_site_agrees : forall i,
  site_panic Gen.RecoverSites.site_toolcall i = Some (PanicErr i).
Proof.
  intros i. change Gen.RecoverSites.site_toolcall with (good_site RTaskErr).
  apply good_site_reports; congruence.
Qed.

Lemma fwd_site_good : forall src, fwd_site (good_site RItem) src = fwd src.
Proof.
  induction src as [|x r IH]; [reflexivity|].
  destruct x; cbn [fwd_site fwd]; rewrite ?IH; try reflexivity.
  rewrite good_site_reports by congruence. reflexivity.
Qed.

Theorem gen_convert_forwarder_site_agrees : forall src,
  fwd_site Gen.RecoverSites.site_convert_forwarder src = fwd src.
Proof. intros src. change Gen.RecoverSites.site_convert_forwarder with (good_site RItem). apply fwd_site_good. Qed.

Theorem gen_child_forwarder_site_agrees : forall src,
  fwd_site Gen.RecoverSites.site_child_forwarder src = fwd src.
Proof. intros src. change Gen.RecoverSites.site_child_forwarder with (good_site RItem). apply fwd_site_good. Qed.

Theorem gen_copy_peek_site_agrees : forall src,
  fwd_site Gen.RecoverSites.site_copy_peek src = child_read src.
Proof. intros src. change Gen.RecoverSites.site_copy_peek with (good_site RItem). apply fwd_site_good. Qed.

(* the sites as they were before F-C13f (a bare recover()) are the _v5 functions of Model/ErrorsNilPanic.v:
   the attribute the extractor reads is exactly what separates the two *)
Theorem bare_recover_site_is_v5 : forall wrap c ok src,
  of_call_site (mkRsite false false true RTaskErr) wrap c ok = of_call_v5 wrap c ok /\
  fwd_site (mkRsite false false true RItem) src = fwd_v5 src.
Proof.
  intros wrap c ok src. split.
  - destruct c as [|e|i]; try reflexivity.
    unfold of_call_site, of_call_v5, site_panic. cbn [rs_guard_nil rs_flag_after rs_report_first rs_report andb negb].
    rewrite Bool.andb_true_r. destruct (N.eqb i nil_payload); reflexivity.
  - induction src as [|x r IH]; [reflexivity|].
    destruct x; cbn [fwd_site fwd_v5]; rewrite ?IH; try reflexivity.
    unfold site_panic. cbn [rs_guard_nil rs_flag_after rs_report_first rs_report andb negb].
    rewrite Bool.andb_true_r. destruct (N.eqb i nil_payload); reflexivity.
Qed.

(* non-vacuity: a nil-valued panic and an ordinary one through the generated sites *)
Example gen_sites_contain_nil_panic :
  of_call_site Gen.RecoverSites.site_executor (fun e => e) (CPanic nil_payload) (NOk [] false) = NErr [PanicErr nil_payload]
  /\ fwd_site Gen.RecoverSites.site_convert_forwarder [SVal 1; SBoom nil_payload; SVal 2] = [RVal 1; RErr (PanicErr nil_payload)]
  /\ fwd_site Gen.RecoverSites.site_copy_peek [SBoom 7] = [RErr (PanicErr 7)].
Proof. repeat split; reflexivity. Qed.
