(* Proofs/PregelHyps.v — the decidable hypotheses of Model/PregelHyps.v imply the propositional ones the
   theorems of Props/C01.v use. *)
From Eino Require Import Base.Util Model.Graph Model.Chain Model.ChainCompile Model.PregelHyps
  Proofs.PregelBase Proofs.Pregel Proofs.PregelRun Proofs.PregelNest Proofs.PregelChainCompile.
From Coq Require Import Lia.
Open Scope N_scope.

Lemma pregel_ok_sound : forall g,
  pregel_ok g = true -> pregel_graph g /\ unique_keys g /\ data_branches g.
Proof.
  intros g H. unfold pregel_ok in H.
  apply andb_prop in H. destruct H as [H Hb]. apply andb_prop in H. destruct H as [Hm Hk].
  split; [|split].
  - unfold is_pregel_mode in Hm. unfold pregel_graph. destruct (g_mode g); [|discriminate].
    split; [reflexivity|]. destruct (g_eager g); [discriminate|reflexivity].
  - unfold unique_keys. apply nodupb_NoDup. exact Hk.
  - intros n b Hn Hbn. rewrite forallb_forall in Hb. specialize (Hb n Hn).
    rewrite forallb_forall in Hb. specialize (Hb b Hbn). destruct (b_nodata b); [discriminate|reflexivity].
Qed.

Lemma nested_from_sound : forall F len j0,
  nested_from len j0 F = true ->
  forall j g i, nth_error F j = Some g -> sub_indices g i -> (j0 + j < i)%nat /\ (i < len)%nat.
Proof.
  induction F as [|g0 rest IH]; intros len j0 H j g i Hn Hs.
  - destruct j; discriminate.
  - simpl in H. apply andb_prop in H. destruct H as [Hg Hr]. destruct j as [|j].
    + simpl in Hn. injection Hn as <-. destruct Hs as [n [Hin Hk]].
      rewrite forallb_forall in Hg. specialize (Hg n Hin). unfold sub_ok in Hg. rewrite Hk in Hg.
      apply andb_prop in Hg. destruct Hg as [H1 H2]. apply Nat.ltb_lt in H1. apply Nat.ltb_lt in H2. lia.
    + simpl in Hn. destruct (IH len (S j0) Hr j g i Hn Hs) as [H1 H2]. lia.
Qed.

Lemma nested_ok_sound : forall F, nested_ok F = true -> well_nested F.
Proof.
  intros F H j g i Hn Hs. destruct (nested_from_sound F (List.length F) 0%nat H j g i Hn Hs) as [H1 H2].
  split; [lia|exact H2].
Qed.

Lemma hyps_ok_sound : forall F,
  hyps_ok F = true ->
  well_nested F /\
  forall g, In g F -> is_pregel_mode g = true -> pregel_graph g /\ unique_keys g /\ data_branches g.
Proof.
  intros F H. unfold hyps_ok in H. apply andb_prop in H. destruct H as [Hn Hg].
  split; [apply nested_ok_sound; exact Hn|].
  intros g Hin Hp. rewrite forallb_forall in Hg. specialize (Hg g Hin). rewrite Hp in Hg. simpl in Hg.
  apply pregel_ok_sound. exact Hg.
Qed.
