(* Proofs/Concat.v — lemmas about Model/Concat.v (generic chunk concatenation). *)
From Eino Require Import Base.Util Model.ConcatTable Model.Concat.

(* What a function registered by the application must satisfy for the theorems to hold
   (the code calls it on the chunk list as it is, so the laws are the user's business):
   it never panics, and it is itself invariant under re-chunking.  It is never called on
   fewer than two chunks (concatSliceValue / concatStreamReader return a single chunk as it is). *)
Class UserLaw {U : UserFn} : Prop := {
  ulaw_total : forall tag g ps, ufn tag = Some g -> g ps <> Panic;
  ulaw_rechunk : forall tag g xs ys, ufn tag = Some g -> 2 <= List.length xs -> ys <> [] ->
    match g xs with
    | Ok c =>
        match g (c :: ys), g (xs ++ ys) with
        | Ok a, Ok b => a = b
        | Ok _, _ => False
        | _, Ok _ => False
        | _, _ => True
        end
    | _ => is_ok (g (xs ++ ys)) = false
    end
}.

(* no registered function at all: the laws hold trivially *)
Definition no_user : UserFn := {| ufn := fun _ => None |}.
Lemma no_user_law : @UserLaw no_user.
Proof. split; cbn; intros; discriminate. Qed.

Section User.
Context {U : UserFn} {L : UserLaw}.

Lemma res_mapM_no_panic {A B} (f : A -> res B) l :
  (forall a, In a l -> f a <> Panic) -> res_mapM f l <> Panic.
Proof.
  induction l as [|a l IH]; cbn; intros H; [discriminate|].
  assert (Ha : f a <> Panic) by (apply H; now left).
  assert (Hl : res_mapM f l <> Panic) by (apply IH; intros a' Hin; apply H; now right).
  destruct (f a); cbn; [|discriminate|congruence].
  destruct (res_mapM f l); cbn; [discriminate|discriminate|congruence].
Qed.

Lemma single_nonzero_no_panic z vs : single_nonzero z vs <> Panic.
Proof. unfold single_nonzero. destruct (filter _ vs) as [|v [|w l]]; discriminate. Qed.

Lemma filter_nonnil_head vs v0 rest :
  filter (fun v => negb (is_nil v)) vs = v0 :: rest -> dyn_ty v0 <> None.
Proof.
  intros H. assert (Hin : In v0 (filter (fun v => negb (is_nil v)) vs)) by (rewrite H; now left).
  apply filter_In in Hin. destruct Hin as [_ Hn]. destruct v0; cbn in *; congruence.
Qed.

Lemma registered_str : registered TStr = Some FConcatStrings.
Proof. reflexivity. Qed.

Lemma registered_num k : registered (TNum k) = Some FUseLast.
Proof.
  unfold registered, kind_name.
  destruct (N.eqb k 0); [reflexivity|]. destruct (N.eqb k 1); [reflexivity|].
  destruct (N.eqb k 2); reflexivity.
Qed.

Lemma concat_typed_no_panic f t vs :
  (forall ms, f ms <> Panic) -> concat_typed f t vs <> Panic.
Proof.
  intros Hf. unfold concat_typed. destruct t.
  - destruct vs as [|v [|w l]]; try discriminate; rewrite registered_str; discriminate.
  - destruct vs as [|v [|w l]]; try discriminate; rewrite registered_num; discriminate.
  - destruct vs as [|v [|w l]]; try discriminate; cbn [registered user_registered];
      (destruct (ufn tag) as [g|] eqn:Eg; [|apply single_nonzero_no_panic]).
    + pose proof (ulaw_total tag g (payloads []) Eg) as H. destruct (g _); cbn; congruence.
    + pose proof (ulaw_total tag g (payloads (v :: w :: l)) Eg) as H. destruct (g _); cbn; congruence.
  - specialize (Hf (maps vs)). destruct (f (maps vs)); cbn; congruence.
Qed.

Lemma concat_key_no_panic f vs :
  (forall ms, f ms <> Panic) -> concat_key f vs <> Panic.
Proof.
  intros Hf. unfold concat_key.
  destruct (filter _ vs) as [|v0 rest] eqn:Hfl; [discriminate|].
  pose proof (filter_nonnil_head _ _ _ Hfl) as Hty.
  destruct (dyn_ty v0) as [t|]; [|congruence].
  destruct (same_types t rest); [apply concat_typed_no_panic; auto|discriminate].
Qed.

Lemma concat_maps_no_panic fuel ms : concat_maps fuel ms <> Panic.
Proof.
  revert ms. induction fuel as [|f IH]; intros ms; cbn; [discriminate|].
  unfold concat_maps_step. apply res_mapM_no_panic. intros k _.
  pose proof (concat_key_no_panic (concat_maps f) (vals_at k ms) IH) as H.
  destruct (concat_key (concat_maps f) (vals_at k ms)); cbn; congruence.
Qed.

(* concatenation of a statically typed chunk list never panics *)
Lemma concat_stream_total vs :
  (forall v, In v vs -> is_nil v = false) -> concat_stream vs <> Panic.
Proof.
  intros Hnn. unfold concat_stream.
  destruct vs as [|v0 [|v1 l]]; try discriminate.
  unfold concat_items.
  assert (H0 : is_nil v0 = false) by (apply Hnn; now left).
  destruct v0 as [s|k z| |tag p|mt m]; cbn in H0; try discriminate H0; cbn [dyn_ty].
  - apply concat_typed_no_panic; discriminate.
  - apply concat_typed_no_panic; discriminate.
  - apply concat_typed_no_panic; discriminate.
  - pose proof (concat_maps_no_panic (S (depth_list (CMap mt m :: v1 :: l))) (maps (CMap mt m :: v1 :: l))) as H.
    destruct (concat_maps _ _); cbn; congruence.
Qed.

End User.
