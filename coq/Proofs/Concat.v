(* Proofs/Concat.v — lemmas about Model/Concat.v (generic chunk concatenation). *)
From Eino Require Import Base.Util Model.ConcatTable Model.Concat.

Lemma res_mapM_no_panic {A B} (f : A -> res B) l :
  (forall a, In a l -> f a <> Panic) -> res_mapM f l <> Panic.
Proof.
  induction l as [|a l IH]; cbn; intros H; [discriminate|].
  assert (Ha : f a <> Panic) by (apply H; now left).
  assert (Hl : res_mapM f l <> Panic) by (apply IH; intros a' Hin; apply H; now right).
  destruct (f a); cbn; [|discriminate|congruence].
  destruct (res_mapM f l); cbn; [discriminate|discriminate|congruence].
Qed.

Lemma single_nonzero_no_panic z vs : single_nonzero z vs <> Panic.
Proof. unfold single_nonzero. destruct (filter _ vs) as [|v [|w l]]; discriminate. Qed.

Lemma filter_nonnil_head vs v0 rest :
  filter (fun v => negb (is_nil v)) vs = v0 :: rest -> dyn_ty v0 <> None.
Proof.
  intros H. assert (Hin : In v0 (filter (fun v => negb (is_nil v)) vs)) by (rewrite H; now left).
  apply filter_In in Hin. destruct Hin as [_ Hn]. destruct v0; cbn in *; congruence.
Qed.

Lemma registered_str : registered TStr = Some FConcatStrings.
Proof. reflexivity. Qed.

Lemma registered_num k : registered (TNum k) = Some FUseLast.
Proof.
  unfold registered, kind_name.
  destruct (N.eqb k 0); [reflexivity|]. destruct (N.eqb k 1); [reflexivity|].
  destruct (N.eqb k 2); reflexivity.
Qed.

Lemma concat_typed_no_panic f t vs :
  (forall ms, f ms <> Panic) -> concat_typed f t vs <> Panic.
Proof.
  intros Hf. unfold concat_typed. destruct t.
  - destruct vs as [|v [|w l]]; try discriminate; rewrite registered_str; discriminate.
  - destruct vs as [|v [|w l]]; try discriminate; rewrite registered_num; discriminate.
  - destruct vs as [|v [|w l]]; try discriminate; apply single_nonzero_no_panic.
  - specialize (Hf (maps vs)). destruct (f (maps vs)); cbn; congruence.
Qed.

Lemma concat_key_no_panic f vs :
  (forall ms, f ms <> Panic) -> concat_key f vs <> Panic.
Proof.
  intros Hf. unfold concat_key.
  destruct (filter _ vs) as [|v0 rest] eqn:Hfl; [discriminate|].
  pose proof (filter_nonnil_head _ _ _ Hfl) as Hty.
  destruct (dyn_ty v0) as [t|]; [|congruence].
  destruct (same_types t rest); [apply concat_typed_no_panic; auto|discriminate].
Qed.

Lemma concat_maps_no_panic fuel ms : concat_maps fuel ms <> Panic.
Proof.
  revert ms. induction fuel as [|f IH]; intros ms; cbn; [discriminate|].
  unfold concat_maps_step. apply res_mapM_no_panic. intros k _.
  pose proof (concat_key_no_panic (concat_maps f) (vals_at k ms) IH) as H.
  destruct (concat_key (concat_maps f) (vals_at k ms)); cbn; congruence.
Qed.

(* concatenation of a statically typed chunk list never panics *)
Lemma concat_stream_total vs :
  (forall v, In v vs -> is_nil v = false) -> concat_stream vs <> Panic.
Proof.
  intros Hnn. unfold concat_stream.
  destruct vs as [|v0 [|v1 l]]; try discriminate.
  unfold concat_items.
  assert (H0 : is_nil v0 = false) by (apply Hnn; now left).
  destruct v0 as [s|k z| |tag p|mt m]; cbn in H0; try discriminate H0; cbn [dyn_ty].
  - apply concat_typed_no_panic; discriminate.
  - apply concat_typed_no_panic; discriminate.
  - apply concat_typed_no_panic; discriminate.
  - pose proof (concat_maps_no_panic (S (depth_list (CMap mt m :: v1 :: l))) (maps (CMap mt m :: v1 :: l))) as H.
    destruct (concat_maps _ _); cbn; congruence.
Qed.
