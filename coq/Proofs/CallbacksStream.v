(* Proofs/CallbacksStream.v — independence of the stream copies handed to callback handlers
   ([stream_copies_independent], [stream_copies_same_own], [flow_reads_everything]). *)
From Coq Require Import List Arith Lia Bool NArith.
From Eino Require Import Base.Util Base.GoSlice Model.CallbacksStream Proofs.CallbacksSlice.
Import ListNotations.

Lemma set_nth_ne_same {A} (l : list A) i a b :
  nth_error l i = Some b -> nth_error (set_nth l i a) i = Some a.
Proof.
  revert i; induction l as [|x l IH]; intros [|i] H; simpl in *; try discriminate; auto.
Qed.

Lemma set_nth_ne_other {A} (l : list A) i j a :
  i <> j -> nth_error (set_nth l i a) j = nth_error l j.
Proof.
  revert i j; induction l as [|x l IH]; intros [|i] [|j] H; simpl; auto; try congruence.
Qed.

(* invariant: the buffer followed by the rest of the source is the original stream, and no
   cursor is beyond the buffer *)
Definition cinv (orig : list N) (c : copies) : Prop :=
  cp_buf c ++ cp_src c = orig /\
  forall i k, nth_error (cp_cur c) i = Some (Some k) -> k <= List.length (cp_buf c).

Lemma cinv_item orig c k :
  cinv orig c -> k <= List.length (cp_buf c) ->
  nth_error orig k =
  match nth_error (cp_buf c) k with
  | Some v => Some v
  | None => match cp_src c with v :: _ => Some v | [] => None end
  end.
Proof.
  intros [E _] Hk. rewrite <- E.
  destruct (nth_error (cp_buf c) k) as [v|] eqn:Hb.
  - rewrite nth_error_app1; auto. apply nth_error_Some. congruence.
  - apply nth_error_None in Hb. assert (k = List.length (cp_buf c)) by lia. subst k.
    rewrite nth_error_app2, Nat.sub_diag by lia. destruct (cp_src c); reflexivity.
Qed.

(* a receive of child j, characterised through the ORIGINAL stream *)
Lemma cstep_recv orig c j :
  cinv orig c ->
  match nth_error (cp_cur c) j with
  | Some (Some k) =>
      match nth_error orig k with
      | Some v => snd (cstep c (CRecv j)) = Some v /\
                  cp_cur (fst (cstep c (CRecv j))) = set_nth (cp_cur c) j (Some (S k))
      | None => cstep c (CRecv j) = (c, None)
      end
  | _ => cstep c (CRecv j) = (c, None)
  end.
Proof.
  intros Inv. unfold cstep.
  destruct (nth_error (cp_cur c) j) as [[k|]|] eqn:Hj; auto.
  rewrite (cinv_item orig c k Inv (proj2 Inv _ _ Hj)).
  destruct (nth_error (cp_buf c) k) as [v|]; [split; reflexivity|].
  destruct (cp_src c) as [|v src']; [reflexivity | split; reflexivity].
Qed.

Lemma cstep_inv orig c a : cinv orig c -> cinv orig (fst (cstep c a)).
Proof.
  intros [E B]. destruct a as [i|i]; unfold cstep.
  - destruct (nth_error (cp_cur c) i) as [[k|]|] eqn:Hi; try (split; auto; fail).
    destruct (nth_error (cp_buf c) k) as [v|] eqn:Hk.
    + split; auto. cbn [fst cp_cur cp_buf]. intros j k' Hj.
      destruct (Nat.eq_dec i j) as [->|Hne].
      * rewrite (set_nth_ne_same _ _ _ _ Hi) in Hj. injection Hj as <-.
        assert (k < List.length (cp_buf c)) by (apply nth_error_Some; congruence). lia.
      * rewrite set_nth_ne_other in Hj by auto. eauto.
    + destruct (cp_src c) as [|v src'] eqn:Hs; [split; [cbn [fst]; rewrite Hs; exact E | exact B]|].
      split; cbn [fst cp_cur cp_buf cp_src].
      * rewrite <- app_assoc. exact E.
      * intros j k' Hj. rewrite app_length. simpl.
        destruct (Nat.eq_dec i j) as [->|Hne].
        -- rewrite (set_nth_ne_same _ _ _ _ Hi) in Hj. injection Hj as <-.
           specialize (B _ _ Hi). lia.
        -- rewrite set_nth_ne_other in Hj by auto. specialize (B _ _ Hj). lia.
  - split; auto. cbn [fst cp_cur cp_buf]. intros j k Hj.
    destruct (Nat.eq_dec i j) as [->|Hne].
    + destruct (nth_error (cp_cur c) j) eqn:Hc.
      * rewrite (set_nth_ne_same _ _ _ _ Hc) in Hj. discriminate.
      * apply nth_error_None in Hc.
        assert (nth_error (set_nth (cp_cur c) j None) j = None)
          by (apply nth_error_None; now rewrite set_nth_length).
        congruence.
    + rewrite set_nth_ne_other in Hj by auto. eauto.
Qed.

Lemma received_cons c i a acts :
  received c i (a :: acts) =
  match snd (cstep c a) with
  | Some v => if own i a then v :: received (fst (cstep c a)) i acts else received (fst (cstep c a)) i acts
  | None => received (fst (cstep c a)) i acts
  end.
Proof. reflexivity. Qed.

Lemma received_view orig acts : forall c i cur,
  cinv orig c -> nth_error (cp_cur c) i = Some cur ->
  received c i acts = view orig cur i acts.
Proof.
  induction acts as [|a acts IH]; intros c i cur Inv Hc; [reflexivity|].
  rewrite received_cons.
  pose proof (cstep_inv orig c a Inv) as Inv'.
  destruct a as [j|j].
  - pose proof (cstep_recv orig c j Inv) as S.
    cbn [view]. unfold own at 2. cbn [act_reader].
    destruct (Nat.eqb j i) eqn:Eji.
    + apply Nat.eqb_eq in Eji. subst j. rewrite Hc in S.
      destruct cur as [k|].
      * destruct (nth_error orig k) as [v|] eqn:Ho.
        -- destruct S as [S1 S2]. rewrite S1. unfold own. cbn [act_reader]. rewrite Nat.eqb_refl.
           f_equal. apply IH; auto. rewrite S2. eapply set_nth_ne_same; eauto.
        -- rewrite S. cbn [fst snd]. apply IH; auto.
      * rewrite S. cbn [fst snd]. apply IH; auto.
    + assert (Hne : j <> i) by (now apply Nat.eqb_neq).
      assert (Hown : own i (CRecv j) = false) by (unfold own; cbn [act_reader]; exact Eji).
      rewrite Hown.
      assert (Hcur : nth_error (cp_cur (fst (cstep c (CRecv j)))) i = Some cur).
      { destruct (nth_error (cp_cur c) j) as [[k|]|] eqn:Hj; try (rewrite S; exact Hc).
        destruct (nth_error orig k) as [v|]; [|rewrite S; exact Hc].
        destruct S as [_ S2]. rewrite S2. rewrite set_nth_ne_other; auto. }
      destruct (snd (cstep c (CRecv j))); apply IH; auto.
  - cbn [view]. unfold own. cbn [act_reader cstep snd fst].
    destruct (Nat.eqb j i) eqn:Eji.
    + apply Nat.eqb_eq in Eji. subst j. apply IH; auto.
      cbn [cp_cur]. eapply set_nth_ne_same; eauto.
    + apply Nat.eqb_neq in Eji. apply IH; auto.
      cbn [cp_cur]. rewrite set_nth_ne_other; auto.
Qed.

Lemma copy_n_inv src n : cinv src (copy_n src n).
Proof.
  split; simpl; auto. intros i k H.
  apply nth_error_In, repeat_spec in H. injection H as <-. lia.
Qed.

Lemma copy_n_cursor src n i : i < n -> nth_error (cp_cur (copy_n src n)) i = Some (Some 0).
Proof.
  intros H. simpl. revert i H. induction n as [|n IH]; intros [|i] H; simpl; auto; try lia.
  apply IH. lia.
Qed.

(* What a reader of one copy receives is determined by the original stream and by that
   reader's own recv / close actions: whatever the other readers do (read all, read a
   little, close at once, never read), in whatever order. *)
Theorem stream_copies_independent src n i acts :
  i < n -> received (copy_n src n) i acts = view src (Some 0) i acts.
Proof.
  intros H. apply received_view; [apply copy_n_inv | now apply copy_n_cursor].
Qed.

Lemma view_own orig i acts : forall cur, view orig cur i acts = view orig cur i (filter (own i) acts).
Proof.
  induction acts as [|a acts IH]; intros cur; [reflexivity|].
  cbn [view filter]. destruct (own i a) eqn:E; [|apply IH].
  cbn [view]. rewrite E.
  destruct a as [j|j]; [|apply IH].
  destruct cur as [k|]; [|apply IH]. destruct (nth_error orig k); [f_equal|]; apply IH.
Qed.

Corollary stream_copies_same_own src n i acts1 acts2 :
  i < n -> filter (own i) acts1 = filter (own i) acts2 ->
  received (copy_n src n) i acts1 = received (copy_n src n) i acts2.
Proof.
  intros H E. rewrite !stream_copies_independent by auto.
  rewrite (view_own src i acts1), (view_own src i acts2), E. reflexivity.
Qed.

(* a reader that keeps receiving gets the whole stream, in order *)
Lemma skipn_cons_nth {A} (l : list A) : forall k v rest,
  skipn k l = v :: rest -> nth_error l k = Some v /\ skipn (S k) l = rest.
Proof.
  induction l as [|x l IH]; intros [|k] v rest H; simpl in H; try discriminate.
  - injection H as -> ->. split; reflexivity.
  - apply IH in H. exact H.
Qed.

Lemma view_all orig i : forall rest k,
  skipn k orig = rest ->
  view orig (Some k) i (repeat (CRecv i) (List.length rest)) = rest.
Proof.
  induction rest as [|v rest IH]; intros k H; [reflexivity|].
  cbn [List.length repeat view]. unfold own at 1. cbn [act_reader]. rewrite Nat.eqb_refl.
  destruct (skipn_cons_nth orig k v rest H) as [Hk Hr].
  rewrite Hk. f_equal. apply IH. exact Hr.
Qed.

(* the flow (or any reader) that receives |src| times gets exactly the stream, whatever the
   other readers do in between *)
Corollary reader_reads_everything src n i acts :
  i < n -> filter (own i) acts = repeat (CRecv i) (List.length src) ->
  received (copy_n src n) i acts = src.
Proof.
  intros H E. rewrite stream_copies_independent by auto.
  rewrite view_own, E. apply view_all. reflexivity.
Qed.
