(* Proofs/GenAgreeC16Conv.v — property C16, translator tie (mechanism 2): compose.convertOption as tools/go2v
   (extractor "c16convert") translates it from the current source (Gen/OptConvert.v) is the model's conversion in
   front of a component (convert_items) and in front of a sub graph (convert_opts) of Model/Options.v. *)
From Eino Require Import Base.Util Model.Options Model.OptionsCtor.
From Eino Require Gen.OptConvert.

Lemma range_res_ext {X A} (f g : X -> A -> res A) :
  (forall x a, f x a = g x a) -> forall l acc, go_range_res l f acc = go_range_res l g acc.
Proof.
  intros H. induction l as [|x l IH]; intros acc; simpl; [reflexivity|].
  rewrite H. destruct (g x acc); simpl; auto.
Qed.

Lemma range_res_items ty : forall es acc,
  go_range_res es (fun e ret => if negb (is_item_of ty e) then Err E_CONVERT else Ok (ret ++ [e])) acc
  = res_map (fun r => acc ++ map EItem r) (convert_items ty es).
Proof.
  induction es as [|e es IH]; intros acc; simpl.
  - rewrite app_nil_r. reflexivity.
  - destruct e as [[t x]|o]; simpl; [|reflexivity].
    destruct (N.eqb t ty) eqn:E; simpl; [|reflexivity].
    rewrite IH. destruct (convert_items ty es); simpl; try reflexivity.
    rewrite <- app_assoc. reflexivity.
Qed.

Lemma range_res_opts : forall es acc,
  go_range_res es (fun e ret => if negb (is_opt e) then Err E_CONVERT else Ok (ret ++ [e])) acc
  = res_map (fun r => acc ++ map EOpt r) (convert_opts es).
Proof.
  induction es as [|e es IH]; intros acc; simpl.
  - rewrite app_nil_r. reflexivity.
  - destruct e as [it|o]; simpl; [reflexivity|].
    rewrite IH. destruct (convert_opts es); simpl; try reflexivity.
    rewrite <- app_assoc. reflexivity.
Qed.

Lemma flip_if (b : bool) {A} (x y : A) : (if b then x else y) = (if negb b then y else x).
Proof. destruct b; reflexivity. Qed.

(* in front of a component of option type ty: the values of that type, in order; a value of another type
   (or an Option) fails the conversion *)
Theorem gen_convertOption_is_convert_items : forall ty es,
  Gen.OptConvert.convertOption (is_item_of ty) es = res_map (map EItem) (convert_items ty es).
Proof.
  intros ty es.
  first [ unfold Gen.OptConvert.convertOption;
          destruct es as [|e es]; [reflexivity|];
          cbn [List.length Nat.eqb];
          rewrite (range_res_items ty (e :: es) []);
          destruct (convert_items ty (e :: es)); reflexivity
        | unfold Gen.OptConvert.convertOption;
          rewrite (range_res_ext _ (fun e ret => if negb (is_item_of ty e) then Err E_CONVERT else Ok (ret ++ [e])))
            by (intros; apply flip_if);
          rewrite (range_res_items ty es []);
          destruct (convert_items ty es); reflexivity ].
Qed.

(* in front of a sub graph: the Options, in order *)
Theorem gen_convertOption_is_convert_opts : forall es,
  Gen.OptConvert.convertOption is_opt es = res_map (map EOpt) (convert_opts es).
Proof.
  intros es.
  first [ unfold Gen.OptConvert.convertOption;
          destruct es as [|e es]; [reflexivity|];
          cbn [List.length Nat.eqb];
          rewrite (range_res_opts (e :: es) []);
          destruct (convert_opts (e :: es)); reflexivity
        | unfold Gen.OptConvert.convertOption;
          rewrite (range_res_ext _ (fun e ret => if negb (is_opt e) then Err E_CONVERT else Ok (ret ++ [e])))
            by (intros; apply flip_if);
          rewrite (range_res_opts es []);
          destruct (convert_opts es); reflexivity ].
Qed.

Example gen_convert_example :
  Gen.OptConvert.convertOption (is_item_of 6) [EItem (6, 1); EItem (6, 2)]%N = Ok [EItem (6, 1); EItem (6, 2)]%N /\
  Gen.OptConvert.convertOption (is_item_of 6) [EItem (6, 1); EItem (7, 2)]%N = Err E_CONVERT /\
  Gen.OptConvert.convertOption (is_item_of 6) [] = Ok [].
Proof. repeat split; reflexivity. Qed.

Print Assumptions gen_convertOption_is_convert_items.
Print Assumptions gen_convertOption_is_convert_opts.
