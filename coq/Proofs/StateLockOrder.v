(* Proofs/StateLockOrder.v — C11: a node's pre-handler runs before it, its ProcessState
   calls run one after the other, its post-handler runs after it; no critical section of a
   node execution happens twice. For every interleaving of Model/StateLockLTS.v the list of
   critical sections completed by one node of one graph instance is, at every moment, the
   prefix of [full_kinds] determined by the node's position. *)
From Eino Require Import Base.Util Model.StateLock Model.StateLockLTS Proofs.StateLockLTS.
From Coq Require Import Lia Sorted.

Section Order.
  Variables (S X : Type).
  Variable gen : nat -> S.
  Variable hfun : kind -> N -> X -> S -> X * S.
  Variable lout : N -> X -> X.
  Variable mrg : list X -> X.
  Variable f : forest.
  Variable x0 : X.

  Notation config := (config S X).
  Notation inst := (inst S X).
  Notation pstep := (pstep S X gen hfun lout mrg f x0).
  Notation preach := (preach S X gen hfun lout mrg f x0).
  Notation lookup := (lookup S X f).
  Notation new_inst := (new_inst S X gen).
  Notation node_tr := (node_tr S X).

  Ltac inv H := inversion H; subst; clear H.

  Notation is_stored := (is_stored S).

  (* what node a has completed when it is at position p (st: the user function of the
     critical section in progress has already stored) *)
  Definition done_kinds (a : node) (p : pos X) (st : bool) : list kind :=
    match p with
    | PWait => []
    | PReady _ => if st then [KPre] else []
    | PPred _ => pre_k a
    | PRun _ j => pre_k a ++ bodies (if st then Datatypes.S j else j)
    | PSub _ => pre_k a
    | PDone _ => pre_k a ++ body_k a ++ (if st then [KPost] else [])
    | PFin _ => full_kinds a
    end.

  Definition pos_wf (a : node) (p : pos X) (cs : option (csph S)) : Prop :=
    match p with
    | PWait | PPred _ | PFin _ => cs = None
    | PReady _ => cs <> None -> n_pre a = true
    | PRun _ j => n_sub a = None /\ (j <= n_ps a)%nat /\ (cs <> None -> (j < n_ps a)%nat)
    | PSub _ => cs = None /\ n_sub a <> None
    | PDone _ => cs <> None -> n_post a = true
    end.

  Definition inst_bound (c : config) : Prop :=
    forall e, In e (c_trace c) -> (t_inst e < List.length (c_insts c))%nat.

  Definition order_inv (c : config) : Prop :=
    forall i J G n a s,
      nth_error (c_insts c) i = Some J -> nth_error f (i_graph J) = Some G ->
      find_in_graph n (g_nodes G) = Some a -> get_ns S X J n = Some s ->
      node_tr c i n = done_kinds a (ns_pos s) (is_stored (ns_cs s)) /\ pos_wf a (ns_pos s) (ns_cs s).

  Lemma node_tr_eq : forall (c1 c2 : config) i n, c_trace c1 = c_trace c2 -> node_tr c1 i n = node_tr c2 i n.
  Proof. intros. unfold StateLockLTS.node_tr. rewrite H. reflexivity. Qed.

  Lemma node_tr_app : forall c e i n,
    StateLockLTS.node_tr S X (add_trace S X c e) i n =
    node_tr c i n ++ (if Nat.eqb (t_inst e) i && N.eqb (n_id (t_node e)) n then [t_kind e] else []).
  Proof.
    intros. unfold StateLockLTS.node_tr, StateLockLTS.kinds_in, add_trace; simpl. rewrite filter_app, map_app. simpl.
    destruct (Nat.eqb (t_inst e) i && N.eqb (n_id (t_node e)) n); reflexivity.
  Qed.

  Lemma node_tr_fresh : forall c i n, inst_bound c -> (List.length (c_insts c) <= i)%nat -> node_tr c i n = [].
  Proof.
    intros c i n Hb Hl. unfold StateLockLTS.node_tr, StateLockLTS.kinds_in. unfold inst_bound in Hb.
    induction (c_trace c) as [|e l IH]; simpl; auto.
    assert (t_inst e < List.length (c_insts c))%nat by (apply Hb; left; auto).
    destruct (Nat.eqb_spec (t_inst e) i); [lia|]. simpl. apply IH. intros e' He'. apply Hb. right; auto.
  Qed.

  Lemma bodies_S : forall j, bodies (Datatypes.S j) = bodies j ++ [KBody j].
  Proof. intros. unfold bodies. rewrite seq_S, map_app. reflexivity. Qed.

  Lemma inst_bound_step : forall c ch c', inst_bound c -> pstep c ch = Some c' -> inst_bound c'.
  Proof.
    intros c ch c' Hb H. destruct ch as [r|i n|i n|i n|i n|i n|o m].
    - apply pstep_start_inv in H. destruct H as (G & _ & ->). intros e He.
      rewrite new_inst_trace in He. rewrite new_inst_insts_len. apply Hb in He. lia.
    - apply pstep_acq_inv in H. destruct H as (J & a & p & k & x & o & r & El & Ek & Ex & Eo & Er & Eh & ->).
      intros e He. simpl in *. rewrite upd_length. auto.
    - apply pstep_load_inv in H. destruct H as (J & a & p & o & r & El & Eo & Er & ->).
      intros e He. simpl in *. rewrite upd_length. auto.
    - apply pstep_store_inv in H.
      destruct H as (J & a & p & l & k & x & o & r & x' & s' & El & Ek & Ex & Eo & Er & Eh & ->).
      apply lookup_inv in El. destruct El as (Ei & _).
      intros e He. simpl in *. rewrite upd_length. apply in_app_or in He. destruct He as [He|[He|[]]]; auto.
      subst e; simpl. eapply nth_some_lt; eauto.
    - apply pstep_rel_inv in H. destruct H as (J & a & p & o & r & q & El & Eo & Er & ->).
      intros e He. simpl in *. rewrite upd_length. auto.
    - apply pstep_adv_inv in H. destruct H as (J & a & p & El & En & [(p' & q & _ & ->)|(x & g & G & -> & Es & EG & ->)]).
      + intros e He. simpl in *. rewrite upd_length. auto.
      + intros e He. simpl in *. rewrite upd_length. rewrite new_inst_trace in He.
        rewrite new_inst_insts_len. apply Hb in He. lia.
    - apply pstep_resume_inv in H. destruct H as (r & Er & Eh & ->).
      intros e He. unfold resumed in *; simpl in *. rewrite map_length. auto.
  Qed.

  Lemma init_ns_get : forall G n s, get_ns S X (mkInst 0%N 0 None None x0 (init_ns S X G) []) n = Some s ->
    s = mkNs PWait None.
  Proof. intros. unfold get_ns in H; simpl in H. eapply init_ns_cs; eauto. Qed.

  (* the invariant for the nodes of a freshly created instance *)
  Lemma order_new : forall (c : config) G (J : inst) n a s i,
    inst_bound c -> (List.length (c_insts c) <= i)%nat ->
    i_ns J = init_ns S X G -> get_ns S X J n = Some s ->
    node_tr c i n = done_kinds a (ns_pos s) (is_stored (ns_cs s)) /\ pos_wf a (ns_pos s) (ns_cs s).
  Proof.
    intros. unfold get_ns in H2. rewrite H1 in H2. apply init_ns_cs in H2. subst s. simpl.
    split; auto. apply node_tr_fresh; auto.
  Qed.

  Lemma next_cs_none_cases : forall a p, next_cs X a p = None ->
    match p with
    | PReady _ => n_pre a = false
    | PRun _ j => n_sub a <> None \/ ~ (j < n_ps a)%nat
    | PDone _ => n_post a = false
    | _ => True
    end.
  Proof.
    intros a p H. destruct p; simpl in *; auto.
    - destruct (n_pre a); [discriminate|auto].
    - destruct (n_sub a); [left; discriminate|]. destruct (Nat.ltb_spec j (n_ps a)); [discriminate|right; lia].
    - destruct (n_post a); [discriminate|auto].
  Qed.

  Lemma next_cs_some_cases : forall a p k, next_cs X a p = Some k ->
    match p with
    | PReady _ => n_pre a = true /\ k = KPre
    | PRun _ j => n_sub a = None /\ (j < n_ps a)%nat /\ k = KBody j
    | PDone _ => n_post a = true /\ k = KPost
    | _ => False
    end.
  Proof.
    intros a p k H. destruct p; simpl in *; try discriminate.
    - destruct (n_pre a); [inv H; auto|discriminate].
    - destruct (n_sub a); [discriminate|]. destruct (Nat.ltb_spec j (n_ps a)); [inv H; auto|discriminate].
    - destruct (n_post a); [inv H; auto|discriminate].
  Qed.

  Lemma order_step : forall c ch c',
    inst_bound c -> order_inv c -> pstep c ch = Some c' -> order_inv c'.
  Proof.
    intros c ch c' Hb IH H. destruct ch as [r|i n|i n|i n|i n|i n|o m].
    - (* start *)
      apply pstep_start_inv in H. destruct H as (G0 & _ & ->).
      intros i J G n a s Hi HG Hf Hg. rewrite (node_tr_eq _ c) by apply new_inst_trace.
      apply new_inst_insts in Hi. destruct Hi as [Hi|[-> ->]]; [eapply IH; eauto|].
      eapply order_new; eauto. reflexivity.
    - (* acquire *)
      apply pstep_acq_inv in H. destruct H as (J & a & p & k & x & o & r & El & Ek & Ex & Eo & Er & Eh & ->).
      apply lookup_inv in El. destruct El as (Ei & Eg & G1 & EG1 & Ef1).
      intros i0 J0 G n0 a0 s0 Hi HG Hf Hg. simpl in Hi.
      rewrite (node_tr_eq _ c) by reflexivity.
      destruct (moved_cases' _ _ _ _ _ _ _ _ _ _ _ Ei Hi Hg) as [(-> & -> & -> & Hs)|(J1 & H1 & H2 & Hs & Hne)].
      + destruct Hs as (_ & Hgr & _). rewrite <- Hgr in HG. rewrite EG1 in HG. inv HG.
        rewrite Ef1 in Hf. inv Hf.
        destruct (IH _ _ _ _ _ _ Ei EG1 Ef1 Eg) as (Htr & Hwf). simpl in *. split; [exact Htr|].
        apply next_cs_some_cases in Ek. destruct p; simpl in *; try contradiction.
        * intros _. tauto.
        * destruct Hwf as (? & ? & ?). destruct Ek as (? & ? & ?). repeat split; auto.
        * intros _. tauto.
      + destruct Hs as (_ & Hgr & _). rewrite <- Hgr in HG. eapply IH; eauto.
    - (* load *)
      apply pstep_load_inv in H. destruct H as (J & a & p & o & r & El & Eo & Er & ->).
      apply lookup_inv in El. destruct El as (Ei & Eg & G1 & EG1 & Ef1).
      intros i0 J0 G n0 a0 s0 Hi HG Hf Hg. simpl in Hi.
      rewrite (node_tr_eq _ c) by reflexivity.
      destruct (moved_cases' _ _ _ _ _ _ _ _ _ _ _ Ei Hi Hg) as [(-> & -> & -> & Hs)|(J1 & H1 & H2 & Hs & Hne)].
      + destruct Hs as (_ & Hgr & _). rewrite <- Hgr in HG. rewrite EG1 in HG. inv HG.
        rewrite Ef1 in Hf. inv Hf.
        destruct (IH _ _ _ _ _ _ Ei EG1 Ef1 Eg) as (Htr & Hwf). simpl in *. split; [exact Htr|].
        destruct p; simpl in *; try discriminate; auto.
        * intros _. apply Hwf. discriminate.
        * destruct Hwf as (? & ? & Hw). repeat split; auto. intros _. apply Hw. discriminate.
        * destruct Hwf; discriminate.
        * intros _. apply Hwf. discriminate.
      + destruct Hs as (_ & Hgr & _). rewrite <- Hgr in HG. eapply IH; eauto.
    - (* store *)
      apply pstep_store_inv in H.
      destruct H as (J & a & p & l & k & x & o & r & x' & s' & El & Ek & Ex & Eo & Er & Eh & ->).
      apply lookup_inv in El. destruct El as (Ei & Eg & G1 & EG1 & Ef1).
      pose proof (find_in_graph_id _ _ _ Ef1) as Hid.
      intros i0 J0 G n0 a0 s0 Hi HG Hf Hg. simpl in Hi.
      rewrite (node_tr_eq _ (add_trace S X c (mkT o i a k x l x'))) by reflexivity.
      rewrite node_tr_app. simpl. rewrite Hid.
      destruct (moved_cases' _ _ _ _ _ _ _ _ _ _ _ Ei Hi Hg) as [(-> & -> & -> & Hs)|(J1 & H1 & H2 & Hs & Hne)].
      + destruct Hs as (_ & Hgr & _). rewrite <- Hgr in HG. rewrite EG1 in HG. inv HG.
        rewrite Ef1 in Hf. inv Hf. rewrite Nat.eqb_refl, N.eqb_refl. simpl.
        destruct (IH _ _ _ _ _ _ Ei EG1 Ef1 Eg) as (Htr & Hwf). simpl in *. rewrite Htr.
        apply next_cs_some_cases in Ek. destruct p; simpl in *; try contradiction.
        * destruct Ek as (? & ->). split; auto.
        * destruct Ek as (? & ? & ->). split; [|tauto]. rewrite bodies_S, app_assoc. reflexivity.
        * destruct Ek as (? & ->). split; auto. rewrite app_nil_r, <- !app_assoc. reflexivity.
      + destruct Hs as (_ & Hgr & _). rewrite <- Hgr in HG.
        assert (Hb0 : Nat.eqb i i0 && N.eqb n n0 = false).
        { destruct (Nat.eqb_spec i i0); destruct (N.eqb_spec n n0); auto. subst. destruct Hne; congruence. }
        rewrite Hb0, app_nil_r. eapply IH; eauto.
    - (* release *)
      apply pstep_rel_inv in H. destruct H as (J & a & p & o & r & q & El & Eo & Er & ->).
      apply lookup_inv in El. destruct El as (Ei & Eg & G1 & EG1 & Ef1).
      intros i0 J0 G n0 a0 s0 Hi HG Hf Hg. simpl in Hi.
      rewrite (node_tr_eq _ c) by reflexivity.
      destruct (moved_cases _ _ _ _ _ _ _ _ _ _ _ _ Ei Hi Hg) as [(-> & -> & -> & Hs)|(J1 & H1 & H2 & Hs & Hne)].
      + destruct Hs as (_ & Hgr & _). rewrite <- Hgr in HG. rewrite EG1 in HG. inv HG.
        rewrite Ef1 in Hf. inv Hf.
        destruct (IH _ _ _ _ _ _ Ei EG1 Ef1 Eg) as (Htr & Hwf). simpl in *. rewrite Htr.
        destruct p; simpl in *; try discriminate; auto.
        * assert (n_pre a0 = true) by (apply Hwf; discriminate). unfold pre_k. rewrite H. auto.
        * destruct Hwf as (? & ? & Hw). assert (j < n_ps a0)%nat by (apply Hw; discriminate).
          split; auto. repeat split; auto. intros []; reflexivity.
        * destruct Hwf; discriminate.
        * assert (n_post a0 = true) by (apply Hwf; discriminate).
          unfold full_kinds, post_k. rewrite H. auto.
      + destruct Hs as (_ & Hgr & _). rewrite <- Hgr in HG. eapply IH; eauto.
    - (* other moves *)
      apply pstep_adv_inv in H. destruct H as (J & a & p & El & En & [(p' & q & Hadv & ->)|(x & g & G2 & -> & Es & EG2 & ->)]).
      + apply lookup_inv in El. destruct El as (Ei & Eg & G1 & EG1 & Ef1).
        intros i0 J0 G n0 a0 s0 Hi HG Hf Hg. simpl in Hi.
        rewrite (node_tr_eq _ c) by reflexivity.
        destruct (moved_cases _ _ _ _ _ _ _ _ _ _ _ _ Ei Hi Hg) as [(-> & -> & -> & Hs)|(J1 & H1 & H2 & Hs & Hne)].
        * destruct Hs as (_ & Hgr & _). rewrite <- Hgr in HG. rewrite EG1 in HG. inv HG.
          rewrite Ef1 in Hf. inv Hf.
          destruct (IH _ _ _ _ _ _ Ei EG1 Ef1 Eg) as (Htr & Hwf). simpl in *. rewrite Htr.
          apply next_cs_none_cases in En.
          inv Hadv; simpl in *; auto.
          -- unfold pre_k. rewrite En. auto.
          -- unfold bodies. simpl. rewrite app_nil_r. split; auto. repeat split; auto; try lia. intros []; reflexivity.
          -- destruct Hwf as (? & ? & _). destruct En as [En|En]; [congruence|].
             assert (j = n_ps a0) by lia. subst j. unfold body_k. rewrite H. rewrite app_nil_r.
             split; auto.
          -- destruct Hwf as (_ & Hsub). unfold body_k. destruct (n_sub a0); [|congruence]. simpl.
             rewrite app_nil_r. split; auto.
          -- unfold full_kinds, post_k. rewrite En. auto.
        * destruct Hs as (_ & Hgr & _). rewrite <- Hgr in HG. eapply IH; eauto.
      + apply lookup_inv in El. destruct El as (Ei & Eg & G1 & EG1 & Ef1).
        intros i0 J0 G n0 a0 s0 Hi HG Hf Hg. simpl in Hi.
        rewrite (node_tr_eq _ c) by (simpl; apply new_inst_trace).
        apply upd_cases in Hi. destruct Hi as [(-> & -> & _)|(Hne & Hi)].
        * rewrite get_set_ns in Hg. simpl in HG. destruct (N.eqb_spec n0 n).
          -- subst n0. inv Hg. rewrite EG1 in HG. inv HG. rewrite Ef1 in Hf. inv Hf.
             destruct (IH _ _ _ _ _ _ Ei EG1 Ef1 Eg) as (Htr & Hwf). simpl in *. rewrite Htr.
             split; auto. split; auto. congruence.
          -- eapply IH; eauto.
        * apply new_inst_insts in Hi. destruct Hi as [Hi|[-> ->]]; [eapply IH; eauto|].
          eapply order_new; eauto. reflexivity.
    - (* resume *)
      apply pstep_resume_inv in H. destruct H as (r & Er & Eh & ->).
      intros i J G n a s Hi HG Hf Hg.
      rewrite (node_tr_eq _ c) by reflexivity.
      apply resumed_insts in Hi. destruct Hi as (J1 & Hi & ->).
      destruct (remap_static S X o (List.length (c_objs c)) J1) as (_ & Hgr & _ & _ & Hns & _).
      rewrite Hgr in HG. unfold get_ns in Hg. rewrite Hns in Hg. eapply IH; eauto.
  Qed.

  Lemma order_init : order_inv (init_cfg S X).
  Proof. intros i J G n a s H. destruct i; discriminate. Qed.

  Lemma order_reach : forall c, preach c -> inst_bound c /\ order_inv c.
  Proof.
    induction 1.
    - split; [intros e []|apply order_init].
    - destruct IHpreach. split; [eapply inst_bound_step; eauto|eapply order_step; eauto].
  Qed.

  Lemma bodies_split : forall j k, (j <= k)%nat -> bodies k = bodies j ++ map KBody (seq j (k - j)).
  Proof.
    intros. unfold bodies. rewrite <- map_app. f_equal.
    replace k with (j + (k - j))%nat at 1 by lia. apply seq_app.
  Qed.

  Lemma done_prefix : forall a p cs, pos_wf a p cs ->
    exists rest, done_kinds a p (is_stored cs) ++ rest = full_kinds a.
  Proof.
    intros a p cs Hwf. unfold full_kinds. destruct p; simpl in *.
    - eexists; reflexivity.
    - destruct cs as [[| |]|]; simpl; try (eexists; reflexivity).
      assert (n_pre a = true) by (apply Hwf; discriminate). unfold pre_k. rewrite H.
      eexists; reflexivity.
    - eexists; reflexivity.
    - destruct Hwf as (Hs & Hle & Hlt). unfold body_k. rewrite Hs.
      assert (Hj : ((if is_stored cs then Datatypes.S j else j) <= n_ps a)%nat).
      { destruct cs as [[| |]|]; simpl; auto. apply Hlt. discriminate. }
      rewrite (bodies_split _ _ Hj). eexists. rewrite <- !app_assoc. reflexivity.
    - eexists; reflexivity.
    - destruct cs as [[| |]|]; simpl; try (exists (post_k a); rewrite app_nil_r, <- app_assoc; reflexivity).
      assert (n_post a = true) by (apply Hwf; discriminate). unfold post_k. rewrite H.
      exists []. rewrite app_nil_r. reflexivity.
    - exists []. rewrite app_nil_r. reflexivity.
  Qed.

  Lemma bodies_sorted : forall j, StronglySorted (kind_before) (bodies j).
  Proof.
    induction j.
    - constructor.
    - rewrite bodies_S. clear - IHj.
      assert (Hall : Forall (fun k => kind_before k (KBody j)) (bodies j)).
      { unfold bodies. apply Forall_forall. intros k Hk. apply in_map_iff in Hk.
        destruct Hk as (m & <- & Hm). apply in_seq in Hm. simpl. lia. }
      induction IHj; simpl.
      + repeat constructor.
      + inv Hall. constructor; auto. apply Forall_app. split; auto.
  Qed.

  Lemma full_kinds_sorted : forall a, StronglySorted kind_before (full_kinds a).
  Proof.
    intros a. unfold full_kinds, pre_k, body_k, post_k.
    assert (Hb : forall l, StronglySorted kind_before l ->
                           Forall (fun k => exists j, k = KBody j) l ->
                           StronglySorted kind_before (l ++ (if n_post a then [KPost] else []))).
    { induction 1; intros Hf; simpl.
      - destruct (n_post a); repeat constructor.
      - inv Hf. constructor; auto. apply Forall_app. split; auto.
        destruct (n_post a); constructor; auto. destruct H3 as (j & ->). exact I. }
    assert (Hbody : StronglySorted kind_before
              ((match n_sub a with Some _ => [] | None => bodies (n_ps a) end) ++ (if n_post a then [KPost] else []))).
    { apply Hb.
      - destruct (n_sub a); [constructor|apply bodies_sorted].
      - destruct (n_sub a); [constructor|]. unfold bodies. apply Forall_forall. intros k Hk.
        apply in_map_iff in Hk. destruct Hk as (m & <- & _). eauto. }
    destruct (n_pre a); simpl; auto.
    constructor; auto. apply Forall_app. split.
    - destruct (n_sub a); [constructor|]. unfold bodies. apply Forall_forall. intros k Hk.
      apply in_map_iff in Hk. destruct Hk as (m & <- & _). exact I.
    - destruct (n_post a); repeat constructor.
  Qed.

  (* pre-handler before the node, its ProcessState calls in program order, post-handler
     after it, nothing twice: the critical sections completed by one node of one graph
     instance are always an initial segment of [full_kinds], which is strictly increasing
     for [kind_before]; a node whose output is final has performed all of them *)
  Theorem node_order_preach : forall c, preach c ->
    forall i J G n a s,
      nth_error (c_insts c) i = Some J -> nth_error f (i_graph J) = Some G ->
      find_in_graph n (g_nodes G) = Some a -> get_ns S X J n = Some s ->
      (exists rest, node_tr c i n ++ rest = full_kinds a) /\
      (forall y, ns_pos s = PFin y -> node_tr c i n = full_kinds a) /\
      StronglySorted kind_before (full_kinds a).
  Proof.
    intros c Hr i J G n a s Hi HG Hf Hg.
    destruct (order_reach c Hr) as (_ & Ho). destruct (Ho _ _ _ _ _ _ Hi HG Hf Hg) as (Htr & Hwf).
    split; [|split].
    - rewrite Htr. apply done_prefix; auto.
    - intros y Hy. rewrite Htr, Hy. reflexivity.
    - apply full_kinds_sorted.
  Qed.
End Order.
