(* Proofs/C04NilEnd.v — property C04, finding F-C04e: the witness, and the repaired ending agrees
   with the stream paradigms for every value. *)
From Eino Require Import Base.Util Model.Paradigm Model.StreamOps Model.C04NilEnd.

(* before ff3e750: a nil value at END — Invoke fails, the stream paradigms deliver it *)
Lemma nil_end_v0 :
  finish_v0 true ONil = Err e_notasks
  /\ sconcatR oconcat (finish_stream true [Val ONil]) = Ok ONil
  /\ sconcatR oconcat (finish_stream true [Val ONil; Val ONil]) = Ok ONil.
Proof. repeat split; reflexivity. Qed.

(* as repaired: whatever single value reaches END (nil included), Invoke returns what the
   one-chunk stream of the stream paradigms concatenates to *)
Lemma nil_end_fixed : forall r, finish true r = sconcatR oconcat (finish_stream true (box r)).
Proof. intros []; reflexivity. Qed.

(* and the old ending was right exactly for the non-nil values *)
Lemma nil_end_v0_only_nil : forall r, finish_v0 true r = finish true r <-> r <> ONil.
Proof. intros [|v]; simpl; split; intro H; congruence. Qed.

(* F-C04f: before d2e8680 an interface-typed node behind an input key took a nil in value mode and
   failed in stream mode *)
Lemma nil_under_key_v0 :
  inkey_value true ONil = Ok ONil /\ sconcat oconcat [inkey_chunk_v0 true ONil] = Err e_node.
Proof. split; reflexivity. Qed.

(* as repaired: for every value under the key and either kind of node the two forms agree *)
Lemma nil_under_key_fixed : forall iface v,
  agree (inkey_value iface v) (sconcat oconcat [inkey_chunk iface v]).
Proof. intros [] [|x]; simpl; auto. Qed.
