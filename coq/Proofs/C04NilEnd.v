(* Proofs/C04NilEnd.v — property C04, finding F-C04e: the witness, and the repaired ending agrees
   with the stream paradigms for every value. *)
From Eino Require Import Base.Util Model.Paradigm Model.StreamOps Model.C04NilEnd.

(* before ff3e750: a nil value at END — Invoke fails, the stream paradigms deliver it *)
Lemma nil_end_v0 :
  finish_v0 true ONil = Err e_notasks
  /\ sconcatR oconcat (finish_stream true [Val ONil]) = Ok ONil
  /\ sconcatR oconcat (finish_stream true [Val ONil; Val ONil]) = Ok ONil.
Proof. repeat split; reflexivity. Qed.

(* as repaired: whatever single value reaches END (nil included), Invoke returns what the
   one-chunk stream of the stream paradigms concatenates to *)
Lemma nil_end_fixed : forall r, finish true r = sconcatR oconcat (finish_stream true (box r)).
Proof. intros []; reflexivity. Qed.

(* and the old ending was right exactly for the non-nil values *)
Lemma nil_end_v0_only_nil : forall r, finish_v0 true r = finish true r <-> r <> ONil.
Proof. intros [|v]; simpl; split; intro H; congruence. Qed.
