(* Proofs/ConcatState.v — what the table of package-level state (Model/ConcatState.v, regenerated from the Go
   sources on every run and proved equal by Proofs/GenAgreeConcatState.v) says: the concatenation code keeps no
   state between calls.  A finite table: the proofs are case analyses over its rows. *)
From Eino Require Import Base.Util Model.ConcatState.

Lemma only_registration_mutates :
  forall f v fn e, In (f, v, fn, e) state_effects -> mutating e = true ->
    f = "internal/concat.go"%string /\ v = "concatFuncs"%string /\
    fn = "RegisterStreamChunkConcatFunc"%string /\ e = EWrite.
Proof.
  intros f v fn e H M. unfold state_effects in H. simpl in H.
  destruct H as [H|[H|[H|[]]]]; inversion H; subst; simpl in M; try discriminate; repeat split.
Qed.

(* a variable handed out whole by a reader (so that an alias of it escapes the syntactic analysis) is one that
   nothing mutates: today the error value emptyStreamConcatErr *)
Lemma leaked_never_mutated :
  forall f v, In (f, v) (state_leaks state_effects) ->
    forall fn e, In (f, v, fn, e) state_effects -> mutating e = false.
Proof.
  intros f v L fn e H. unfold state_effects in *. simpl in L. destruct L as [L|[]]. inversion L; subst.
  simpl in H. destruct H as [H|[H|[H|[]]]]; inversion H; subst; reflexivity.
Qed.

Lemma state_mutations_closed_form :
  state_mutations state_effects =
    [("internal/concat.go"%string, "concatFuncs"%string, "RegisterStreamChunkConcatFunc"%string)].
Proof. reflexivity. Qed.
