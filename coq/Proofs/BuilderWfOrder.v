(* Proofs/BuilderWfOrder.v — property C20: whether Workflow.Compile accepts does not depend on
   the order in which Go's map iteration visits the workflow nodes.

   Workflow.compile applies the deferred AddInput / AddDependency calls node by node, in the
   order of `for _, n := range wf.workflowNodes` ([ord] in the model), and then runs
   graph.compile.  Which deferred error is met first — hence the error class, and what a
   failed attempt leaves behind — does depend on that order.  Accept / reject does not:
     (A) a node's deferred inputs fail or succeed independently of the other nodes;
     (B) when all succeed, the graphs built in two orders differ only by the order of their
         edge lists, have the same inferred types ([infer_order_independent] after
         re-ordering every run as "declare all edges, then infer": the frame lemma), and
         graph.compile cannot tell them apart ([validateDAG_sound]/[_complete]). *)
From Eino Require Import Base.Util Model.Builder Proofs.Builder Proofs.BuilderReject Proofs.BuilderDag
  Proofs.BuilderSound Proofs.BuilderReject2 Proofs.BuilderInfer.
From Coq Require Import Permutation.
Local Open Scope string_scope.
Local Open Scope list_scope.

(* ================================================================== 1. the typing part of a state *)
(* resolve1 / update_pending read and write only: node table, pending list, mapping records,
   edge handlers.  [tpart] forgets everything else. *)
Definition tpart (g : gstate) : gstate :=
  mkG CGraph false (g_nodes g) [] [] [] [] [] (g_pending g) (g_fm g) (g_h_edges g) [] [] None false.

Definition addp (g : gstate) (x : list pend) : gstate := set_pending (g_pending g ++ x) g.

Lemma tpart_in_typed : forall g k, in_typed (tpart g) k = in_typed g k.
Proof. reflexivity. Qed.
Lemma tpart_out_typed : forall g k, out_typed (tpart g) k = out_typed g k.
Proof. reflexivity. Qed.
Lemma tpart_resolvable : forall g p, resolvable (tpart g) p = resolvable g p.
Proof. intros g [[s e] fs]. reflexivity. Qed.

Lemma tpart_resolve1 : forall g p, tpart (resolve1 g p) = resolve1 (tpart g) p.
Proof.
  intros g [[s e] fs]. unfold resolve1.
  change (out_typed (tpart g) s) with (out_typed g s). change (in_typed (tpart g) e) with (in_typed g e).
  destruct (out_typed g s), (in_typed g e); simpl; destruct fs; reflexivity.
Qed.

Lemma tpart_resolve_pass : forall todo g g' kept,
  resolve_pass g todo = (g', kept) -> resolve_pass (tpart g) todo = (tpart g', kept).
Proof.
  induction todo as [|p rest IH]; intros g g' kept H.
  - simpl in *. inversion H; subst. reflexivity.
  - rewrite resolve_pass_cons in *. rewrite tpart_resolvable. destruct (resolvable g p).
    + rewrite <- tpart_resolve1. apply IH. assumption.
    + destruct (resolve_pass g rest) as [g1 k1] eqn:E. inversion H; subst.
      rewrite (IH _ _ _ E). reflexivity.
Qed.

Lemma tpart_set_pending : forall x g, tpart (set_pending x g) = set_pending x (tpart g).
Proof. reflexivity. Qed.

Lemma tpart_resolve_once : forall g, tpart (resolve_once g) = resolve_once (tpart g).
Proof.
  intros g. unfold resolve_once.
  destruct (resolve_pass (set_pending [] g) (g_pending g)) as [g' kept] eqn:E.
  change (g_pending (tpart g)) with (g_pending g).
  rewrite <- tpart_set_pending. rewrite (tpart_resolve_pass _ _ _ _ E). reflexivity.
Qed.

Lemma tpart_iter : forall n g, tpart (Nat.iter n resolve_once g) = Nat.iter n resolve_once (tpart g).
Proof. induction n as [|n IH]; intros g; simpl; [reflexivity|]. rewrite tpart_resolve_once, IH. reflexivity. Qed.

Lemma tpart_update_pending : forall g, tpart (update_pending g) = update_pending (tpart g).
Proof. intros g. unfold update_pending. apply tpart_iter. Qed.

Lemma tpart_idem : forall g, tpart (tpart g) = tpart g.
Proof. reflexivity. Qed.

(* inference never touches the build error or the compiled flag *)
Lemma resolve_pass_flags : forall todo y,
  g_err (fst (resolve_pass y todo)) = g_err y /\ g_compiled (fst (resolve_pass y todo)) = g_compiled y.
Proof.
  induction todo as [|p rest IH]; intros y; [simpl; auto|]. rewrite resolve_pass_cons.
  destruct (resolvable y p).
  - destruct (IH (resolve1 y p)) as [A B]. rewrite A, B. destruct p as [[a b] f]. unfold resolve1.
    destruct f; simpl; repeat dif; auto.
  - specialize (IH y). destruct (resolve_pass y rest); simpl in *. assumption.
Qed.

Lemma update_pending_flags : forall y,
  g_err (update_pending y) = g_err y /\ g_compiled (update_pending y) = g_compiled y.
Proof.
  intros y. unfold update_pending. generalize (S (List.length (g_pending y))). intros n.
  induction n as [|n IH]; simpl; [auto|].
  destruct IH as [A B]. unfold resolve_once at 1 3.
  pose proof (resolve_pass_flags (g_pending (Nat.iter n resolve_once y)) (set_pending [] (Nat.iter n resolve_once y))) as P.
  destruct (resolve_pass _ _) as [y' kept]; simpl in *. destruct P as [P1 P2]. split; congruence.
Qed.

(* ---- what a successful addEdge does *)
Record edge_effect (g g' : gstate) (s e : string) (nc nd : bool) (fs : list string) : Prop := {
  ee_err : g_err g = None;
  ee_err' : g_err g' = None;
  ee_compiled : g_compiled g' = g_compiled g;
  ee_branches : g_branches g' = g_branches g;
  ee_ctrl : g_ctrl g' = g_ctrl g ++ (if nc then [] else [(s, e)]);
  ee_starts : g_starts g' = g_starts g ++ (if nc then [] else if String.eqb s START then [e] else []);
  ee_ends : g_ends g' = g_ends g ++ (if nc then [] else if String.eqb e END_ then [s] else []);
  ee_data : g_data g' = g_data g ++ (if nd then [] else [(s, e)]);
  ee_tpart : tpart g' = if nd then tpart g else update_pending (addp (tpart g) [(s, e, fs)]);
  ee_src : is_se s = true \/ has_node g s = true;
  ee_dst : is_se e = true \/ has_node g e = true;
  ee_cmp : g_cmp g' = g_cmp g
}.

Lemma add_edge_ok : forall g s e nc nd fs g',
  g_add_edge g s e nc nd fs = (g', OOk) -> edge_effect g g' s e nc nd fs.
Proof.
  intros g s e nc nd fs g' H0.
  pose proof (cmp_add_edge g s e nc nd fs) as CMP. rewrite H0 in CMP. simpl in CMP.
  revert H0. unfold g_add_edge, fail.
  destruct (g_err g) eqn:E0; [discriminate|]. destruct (g_compiled g) eqn:C0; [discriminate|].
  destruct (nc && nd) eqn:B; [discriminate|].
  destruct (String.eqb s END_); [discriminate|]. destruct (String.eqb e START); [discriminate|].
  destruct (negb (has_node g s) && negb (String.eqb s START)) eqn:CS; [discriminate|].
  destruct (negb (has_node g e) && negb (String.eqb e END_)) eqn:CE; [discriminate|].
  destruct (negb nc && pmem s e (g_ctrl g)); [discriminate|].
  fold (add_ctrl g s e).
  destruct (add_ctrl_fields g s e) as [F1 [F2 [F3 [F4 [F5 [F6 [F7 F8]]]]]]].
  assert (AC : g_err (add_ctrl g s e) = None /\ g_compiled (add_ctrl g s e) = false /\
               tpart (add_ctrl g s e) = tpart g).
  { unfold add_ctrl. destruct (String.eqb s START), (String.eqb e END_); simpl; rewrite E0, C0; auto. }
  destruct AC as [AC1 [AC2 AC3]].
  pose proof (se_or_node_src _ _ CS) as SRC. pose proof (se_or_node_dst _ _ CE) as DST.
  destruct nd.
  - (* no data flow *)
    destruct nc; [discriminate|]. intros H. inversion H; subst.
    split; try assumption; try (rewrite ?app_nil_r; assumption || reflexivity).
    + rewrite AC2, C0. reflexivity.
    + rewrite F7. destruct (String.eqb s START); [reflexivity|rewrite app_nil_r; reflexivity].
    + rewrite F8. destruct (String.eqb e END_); [reflexivity|rewrite app_nil_r; reflexivity].
  - set (g1 := if nc then g else add_ctrl g s e).
    destruct (pmem s e (g_data g1)); [discriminate|]. intros H. inversion H; subst. clear H.
    set (g2 := update_pending (set_pending (g_pending g1 ++ [(s, e, fs)]) g1)).
    assert (T1 : tpart g1 = tpart g) by (unfold g1; destruct nc; [reflexivity|assumption]).
    assert (SS : same_skel g1 g2) by (eapply ss_trans; [apply ss_set_pending|apply ss_update_pending]).
    assert (T2 : tpart g2 = update_pending (addp (tpart g) [(s, e, fs)])).
    { unfold g2. rewrite tpart_update_pending. rewrite tpart_set_pending. rewrite <- T1. reflexivity. }
    assert (KEEP : g_err g2 = g_err g1 /\ g_compiled g2 = g_compiled g1).
    { unfold g2. apply (update_pending_flags (set_pending (g_pending g1 ++ [(s, e, fs)]) g1)). }
    destruct KEEP as [K1 K2].
    assert (E1 : g_err g1 = None /\ g_compiled g1 = false).
    { unfold g1. destruct nc; auto. }
    destruct E1 as [E1 E2].
    split; simpl; try assumption.
    + congruence.
    + congruence.
    + rewrite (ss_branches _ _ SS). unfold g1. destruct nc; [reflexivity|assumption].
    + rewrite (ss_ctrl _ _ SS). unfold g1. destruct nc; [rewrite app_nil_r; reflexivity|assumption].
    + rewrite (ss_starts _ _ SS). unfold g1. destruct nc; [rewrite app_nil_r; reflexivity|].
      rewrite F7. destruct (String.eqb s START); [reflexivity|rewrite app_nil_r; reflexivity].
    + rewrite (ss_ends _ _ SS). unfold g1. destruct nc; [rewrite app_nil_r; reflexivity|].
      rewrite F8. destruct (String.eqb e END_); [reflexivity|rewrite app_nil_r; reflexivity].
    + rewrite (ss_data _ _ SS). unfold g1. destruct nc; [reflexivity|rewrite F4; reflexivity].
Qed.

(* ================================================================== 2. declare first, infer later *)
Lemma addp_resolve1 : forall g x p, resolve1 (addp g x) p = addp (resolve1 g p) x.
Proof.
  intros g x p. unfold addp. rewrite resolve1_set_pending, resolve1_pending. reflexivity.
Qed.

(* a run is still a run when more entries are waiting at the end of the pending list *)
Lemma ireach_frame : forall g g', ireach g g' -> forall x, ireach (addp g x) (addp g' x).
Proof.
  intros g g' H. induction H as [g|g l1 p l2 g' E R _ IH]; intros x; [apply ir_refl|].
  eapply ir_step with (l1 := l1) (l2 := l2 ++ x).
  - unfold addp. simpl. rewrite E. rewrite <- app_assoc. reflexivity.
  - unfold addp. rewrite resolvable_set_pending. assumption.
  - rewrite addp_resolve1.
    replace (set_pending (l1 ++ l2 ++ x) (addp (resolve1 g p) x))
       with (addp (set_pending (l1 ++ l2) (resolve1 g p)) x); [apply IH|].
    unfold addp. simpl. rewrite !set_pending_twice. rewrite app_assoc. reflexivity.
Qed.

Lemma addp_addp : forall g x y, addp (addp g x) y = addp g (x ++ y).
Proof. intros g x y. unfold addp. simpl. rewrite set_pending_twice, app_assoc. reflexivity. Qed.

Lemma addp_nil : forall g, addp g [] = g.
Proof. intros g. unfold addp. rewrite app_nil_r. apply set_pending_self. Qed.

(* the typing part of [g] can be obtained from [T0] by declaring the entries [X] and inferring *)
Definition built (T0 : gstate) (X : list pend) (g : gstate) : Prop := ireach (addp T0 X) (tpart g).

Lemma built_init : forall g, built (tpart g) [] g.
Proof. intros g. unfold built. rewrite addp_nil. apply ir_refl. Qed.

Lemma built_same : forall T0 X g g', tpart g' = tpart g -> built T0 X g -> built T0 X g'.
Proof. intros T0 X g g' H B. unfold built in *. rewrite H. assumption. Qed.

Lemma built_push : forall T0 X g g' x,
  built T0 X g -> tpart g' = update_pending (addp (tpart g) [x]) -> built T0 (X ++ [x]) g'.
Proof.
  intros T0 X g g' x B H. unfold built in *. rewrite H, <- addp_addp.
  eapply ireach_trans; [apply ireach_frame; exact B|]. apply update_pending_is_a_run.
Qed.

(* ================================================================== 3. mapping records along a run *)
Definition fmget (g : gstate) (e : string) : list string :=
  match alist_get e (g_fm g) with Some l => l | None => [] end.
Definition fields_into (e : string) (p : pend) : list string :=
  let '(_, e', fs) := p in if String.eqb e' e then fs else [].

Lemma alist_get_set_same : forall {A} k (a : A) l, alist_get k (alist_set k a l) = Some a.
Proof.
  intros A k a l. induction l as [|[x y] l IH]; simpl.
  - rewrite String.eqb_refl. reflexivity.
  - destruct (String.eqb k x) eqn:E; simpl; [rewrite String.eqb_refl; reflexivity|rewrite E; assumption].
Qed.

Lemma fmget_resolve1 : forall g p e, fmget (resolve1 g p) e = fmget g e ++ fields_into e p.
Proof.
  intros g [[s e'] fs] e. unfold fmget, resolve1, fields_into.
  set (g1 := if out_typed g s && negb (in_typed g e') then set_typed e' g
             else if negb (out_typed g s) then set_typed s g else g).
  assert (F : g_fm g1 = g_fm g) by (unfold g1; repeat dif; reflexivity).
  destruct fs as [|f fs].
  - rewrite F. destruct (String.eqb e' e); rewrite app_nil_r; reflexivity.
  - simpl. rewrite F.
    destruct (String.eqb e' e) eqn:X.
    + apply String.eqb_eq in X; subst e'.
      destruct (alist_get e (g_fm g)) as [old|] eqn:G.
      * rewrite alist_get_set_same. reflexivity.
      * rewrite alist_get_app, G. simpl. rewrite String.eqb_refl. reflexivity.
    + assert (N : e <> e') by (intros C; subst; rewrite String.eqb_refl in X; discriminate).
      destruct (alist_get e' (g_fm g)) as [old|] eqn:G.
      * rewrite alist_get_set_other by assumption. rewrite app_nil_r. reflexivity.
      * rewrite alist_get_app. destruct (alist_get e (g_fm g)); [rewrite app_nil_r; reflexivity|].
        simpl. apply String.eqb_neq in N. rewrite N. reflexivity.
Qed.

Lemma ireach_fm : forall g g', ireach g g' ->
  exists del, Permutation (g_pending g) (g_pending g' ++ del) /\
              forall e, fmget g' e = fmget g e ++ flat_map (fields_into e) del.
Proof.
  intros g g' H. induction H as [g|g l1 p l2 g' E R _ IH].
  - exists []. split; [rewrite app_nil_r; apply Permutation_refl|]. intros e. simpl. rewrite app_nil_r. reflexivity.
  - destruct IH as [del [P F]]. exists (p :: del). split.
    + rewrite E. simpl in P.
      eapply Permutation_trans; [apply Permutation_sym; apply Permutation_middle|].
      eapply Permutation_trans; [apply perm_skip; exact P|]. apply Permutation_middle.
    + intros e. rewrite F. simpl. change (fmget (set_pending (l1 ++ l2) (resolve1 g p)) e) with (fmget (resolve1 g p) e).
      rewrite fmget_resolve1, <- app_assoc. reflexivity.
Qed.

(* keys and kinds never change during inference *)
Definition kinds (g : gstate) : list nkind := map (fun kn => n_kind (snd kn)) (g_nodes g).

Lemma kinds_set_typed : forall x g, kinds (set_typed x g) = kinds g.
Proof.
  intros x g. unfold kinds, set_typed. simpl. rewrite map_map. apply map_ext.
  intros [k n]; simpl. destruct (String.eqb k x); reflexivity.
Qed.

Lemma resolve1_keys_kinds : forall g p, keys (resolve1 g p) = keys g /\ kinds (resolve1 g p) = kinds g.
Proof.
  intros g p. unfold keys, kinds. rewrite resolve1_nodes. destruct p as [[s e] fs]. unfold typed_step.
  repeat dif; try (split; [apply (ss_keys _ _ (ss_set_typed _ g))|apply kinds_set_typed]); auto.
Qed.

Lemma ireach_keys_kinds : forall g g', ireach g g' -> keys g' = keys g /\ kinds g' = kinds g.
Proof.
  intros g g' H. induction H as [g|g l1 p l2 g' E R _ IH]; [auto|].
  destruct IH as [A B]. destruct (resolve1_keys_kinds g p) as [C D]. split.
  - rewrite A. exact C.
  - rewrite B. exact D.
Qed.

(* ---- the closure only looks at membership *)
Lemma Tn_incl : forall A B, g_nodes B = g_nodes A -> (forall p, In p (g_pending A) -> In p (g_pending B)) ->
  forall k, Tn A k -> Tn B k.
Proof.
  intros A B N I k T. induction T as [k H|s e fs P _ IH|s e fs P O|s e fs P _ IH O].
  - apply T_base. rewrite (in_typed_nodes _ _ k N). assumption.
  - eapply T_fwd_t; [apply I; eassumption|assumption].
  - eapply T_fwd_o; [apply I; eassumption|]. rewrite (out_typed_nodes _ _ s N). assumption.
  - eapply T_bwd; [apply I; eassumption|assumption|]. rewrite (out_typed_nodes _ _ s N). assumption.
Qed.

Theorem infer_perm_independent : forall A B g1 g2,
  g_nodes B = g_nodes A -> g_fm B = g_fm A -> Permutation (g_pending A) (g_pending B) ->
  io_ok A -> ends_ok A ->
  ireach A g1 -> istable g1 -> ireach B g2 -> istable g2 ->
  (forall k, in_typed g1 k = in_typed g2 k /\ out_typed g1 k = out_typed g2 k) /\
  Permutation (g_pending g1) (g_pending g2) /\
  (forall e, Permutation (fmget g1 e) (fmget g2 e)) /\
  keys g1 = keys g2 /\ kinds g1 = kinds g2.
Proof.
  intros A B g1 g2 N FM P IO EN R1 S1 R2 S2.
  assert (IOB : io_ok B).
  { intros k. rewrite (in_typed_nodes _ _ k N), (out_typed_nodes _ _ k N). apply IO. }
  assert (ENB : ends_ok B).
  { intros s e fs H. rewrite !(has_node_nodes _ _ _ N). apply (EN s e fs).
    apply (Permutation_in _ (Permutation_sym P)). assumption. }
  destruct (infer_any_order A IO EN g1 R1 S1) as [A1 [B1 C1]].
  destruct (infer_any_order B IOB ENB g2 R2 S2) as [A2 [B2 C2]].
  assert (TT : forall k, Tn A k <-> Tn B k).
  { intros k. split; apply Tn_incl; auto; intros p H.
    - apply (Permutation_in _ P). assumption.
    - apply (Permutation_in _ (Permutation_sym P)). assumption. }
  assert (F : forall k, in_typed g1 k = in_typed g2 k /\ out_typed g1 k = out_typed g2 k).
  { intros k. split; apply bool_eq_iff.
    - rewrite A1, A2. apply TT.
    - rewrite B1, B2, TT, (out_typed_nodes _ _ k N). reflexivity. }
  assert (PP : Permutation (g_pending g1) (g_pending g2)).
  { eapply Permutation_trans; [exact C1|]. eapply Permutation_trans; [|apply Permutation_sym; exact C2].
    replace (filter (fun p => negb (resolvable g1 p)) (g_pending A))
       with (filter (fun p => negb (resolvable g2 p)) (g_pending A)).
    - apply Permutation_filter'. assumption.
    - apply filter_ext. intros [[s e] fs]. simpl. destruct (F s) as [_ Fs], (F e) as [Fe _]. rewrite Fs, Fe. reflexivity. }
  split; [exact F|]. split; [exact PP|].
  destruct (ireach_fm _ _ R1) as [d1 [P1 F1]]. destruct (ireach_fm _ _ R2) as [d2 [P2 F2]].
  assert (DD : Permutation d1 d2).
  { apply (Permutation_app_inv_l (g_pending g1)).
    eapply Permutation_trans; [apply Permutation_sym; exact P1|].
    eapply Permutation_trans; [exact P|]. eapply Permutation_trans; [exact P2|].
    apply Permutation_app_tail. apply Permutation_sym. assumption. }
  split.
  - intros e. rewrite F1, F2. unfold fmget at 2. rewrite FM. fold (fmget A e).
    apply Permutation_app_head. apply Permutation_flat_map. assumption.
  - destruct (ireach_keys_kinds _ _ R1) as [K1 K2]. destruct (ireach_keys_kinds _ _ R2) as [K3 K4].
    unfold keys, kinds in *. rewrite K1, K2, K3, K4, N. auto.
Qed.

(* ================================================================== 4. the node phase *)
(* ---- (A) a node's deferred inputs succeed or fail independently of the other nodes *)
Definition edge_ok (g : gstate) (s e : string) (nc nd : bool) : bool :=
  match g_err g with
  | Some _ => false
  | None =>
    negb (g_compiled g) && negb (nc && nd) && negb (String.eqb s END_) && negb (String.eqb e START)
    && negb (negb (has_node g s) && negb (String.eqb s START))
    && negb (negb (has_node g e) && negb (String.eqb e END_))
    && negb (negb nc && pmem s e (g_ctrl g))
    && (nd || negb (pmem s e (g_data g)))
  end.

Lemma add_edge_verdict : forall g s e nc nd fs,
  err_of (snd (g_add_edge g s e nc nd fs)) = None <-> edge_ok g s e nc nd = true.
Proof.
  intros g s e nc nd fs. unfold g_add_edge, edge_ok, fail.
  destruct (g_err g); [simpl; split; discriminate|].
  destruct (g_compiled g); [simpl; split; discriminate|].
  destruct (nc && nd) eqn:B; [simpl; split; discriminate|].
  destruct (String.eqb s END_); [simpl; split; discriminate|].
  destruct (String.eqb e START); [simpl; split; discriminate|].
  destruct (negb (has_node g s) && negb (String.eqb s START)); [simpl; split; discriminate|].
  destruct (negb (has_node g e) && negb (String.eqb e END_)); [simpl; split; discriminate|].
  destruct (negb nc && pmem s e (g_ctrl g)); [simpl; split; discriminate|].
  fold (add_ctrl g s e). simpl.
  assert (D : g_data (if nc then g else add_ctrl g s e) = g_data g).
  { destruct nc; [reflexivity|apply (add_ctrl_fields g s e)]. }
  destruct nd; [simpl; split; reflexivity|]. rewrite D.
  destruct (pmem s e (g_data g)); simpl; split; try discriminate; reflexivity.
Qed.

Lemma add_edge_outcome : forall g s e nc nd fs,
  err_of (snd (g_add_edge g s e nc nd fs)) = None -> snd (g_add_edge g s e nc nd fs) = OOk.
Proof.
  intros g s e nc nd fs. unfold g_add_edge, fail. destruct (g_err g); [simpl; discriminate|].
  repeat (dif; try (simpl; discriminate)); reflexivity.
Qed.

Definition agree_on (k : string) (g g2 : gstate) : Prop :=
  g_err g2 = g_err g /\ g_compiled g2 = g_compiled g /\ (forall x, has_node g2 x = has_node g x) /\
  (forall s, pmem s k (g_ctrl g2) = pmem s k (g_ctrl g)) /\ (forall s, pmem s k (g_data g2) = pmem s k (g_data g)).

Lemma agree_refl : forall k g, agree_on k g g.
Proof. intros; repeat split; reflexivity. Qed.
Lemma agree_sym : forall k a b, agree_on k a b -> agree_on k b a.
Proof. intros k a b [A [B [C [D E]]]]. repeat split; intros; symmetry; auto. Qed.
Lemma agree_trans : forall k a b c, agree_on k a b -> agree_on k b c -> agree_on k a c.
Proof.
  intros k a b c [A [B [C [D E]]]] [A' [B' [C' [D' E']]]]. repeat split; intros; congruence.
Qed.

Lemma edge_ok_agree : forall k g g2 s nc nd, agree_on k g g2 -> edge_ok g2 s k nc nd = edge_ok g s k nc nd.
Proof.
  intros k g g2 s nc nd [A [B [C [D E]]]]. unfold edge_ok. rewrite A, B, !C, D, E. reflexivity.
Qed.

Lemma pmem_app : forall a b l l', pmem a b (l ++ l') = pmem a b l || pmem a b l'.
Proof.
  intros a b l l'. induction l as [|[x y] l IH]; simpl; [reflexivity|]. rewrite IH. apply orb_assoc.
Qed.

Lemma add_edge_split : forall g s e nc nd fs,
  edge_ok g s e nc nd = true -> exists g', g_add_edge g s e nc nd fs = (g', OOk).
Proof.
  intros g s e nc nd fs H. apply (add_edge_verdict g s e nc nd fs) in H.
  pose proof (add_edge_outcome _ _ _ _ _ _ H) as O.
  destruct (g_add_edge g s e nc nd fs) as [g' o]. simpl in O. subst o. eauto.
Qed.

Lemma has_node_add_edge : forall g s e nc nd fs x, has_node (fst (g_add_edge g s e nc nd fs)) x = has_node g x.
Proof. intros. apply has_node_of_keys. apply keys_add_edge. Qed.

(* the same edge into k, added in two states that agree on k *)
Lemma sim_edge : forall k g g2 s nc nd fs g',
  agree_on k g g2 -> g_add_edge g s k nc nd fs = (g', OOk) ->
  exists g2', g_add_edge g2 s k nc nd fs = (g2', OOk) /\ agree_on k g' g2'.
Proof.
  intros k g g2 s nc nd fs g' AG H.
  assert (V : edge_ok g s k nc nd = true).
  { apply (add_edge_verdict g s k nc nd fs). rewrite H. reflexivity. }
  rewrite <- (edge_ok_agree k g g2 s nc nd AG) in V.
  destruct (add_edge_split g2 s k nc nd fs V) as [g2' H2]. exists g2'. split; [assumption|].
  pose proof (add_edge_ok _ _ _ _ _ _ _ H) as E1. pose proof (add_edge_ok _ _ _ _ _ _ _ H2) as E2.
  destruct AG as [A [B [C [D E]]]]. repeat split.
  - rewrite (ee_err' _ _ _ _ _ _ _ E1), (ee_err' _ _ _ _ _ _ _ E2). reflexivity.
  - rewrite (ee_compiled _ _ _ _ _ _ _ E1), (ee_compiled _ _ _ _ _ _ _ E2). assumption.
  - intros x. pose proof (has_node_add_edge g s k nc nd fs x) as X1. pose proof (has_node_add_edge g2 s k nc nd fs x) as X2.
    rewrite H in X1. rewrite H2 in X2. simpl in *. rewrite X1, X2. apply C.
  - intros x. rewrite (ee_ctrl _ _ _ _ _ _ _ E1), (ee_ctrl _ _ _ _ _ _ _ E2), !pmem_app, D. reflexivity.
  - intros x. rewrite (ee_data _ _ _ _ _ _ _ E1), (ee_data _ _ _ _ _ _ _ E2), !pmem_app, E. reflexivity.
Qed.

(* an edge into another node *)
Lemma other_edge : forall k k' g s nc nd fs g',
  k' <> k -> g_add_edge g s k' nc nd fs = (g', OOk) -> agree_on k g g'.
Proof.
  intros k k' g s nc nd fs g' N H. pose proof (add_edge_ok _ _ _ _ _ _ _ H) as E1.
  assert (Z : forall x, pmem x k [(s, k')] = false).
  { intros x. simpl. apply String.eqb_neq in N. rewrite (String.eqb_sym k k'), N, andb_false_r. reflexivity. }
  repeat split.
  - rewrite (ee_err' _ _ _ _ _ _ _ E1), (ee_err _ _ _ _ _ _ _ E1). reflexivity.
  - apply (ee_compiled _ _ _ _ _ _ _ E1).
  - intros x. pose proof (has_node_add_edge g s k' nc nd fs x) as X1. rewrite H in X1. exact X1.
  - intros x. rewrite (ee_ctrl _ _ _ _ _ _ _ E1), pmem_app. destruct nc; [simpl|rewrite Z]; apply orb_false_r.
  - intros x. rewrite (ee_data _ _ _ _ _ _ _ E1), pmem_app. destruct nd; [simpl|rewrite Z]; apply orb_false_r.
Qed.

Lemma run_input_ok_inv : forall g k m i g' m',
  run_input g k m i = (g', m', None) ->
  exists nc nd fs, g_add_edge g (wi_from i) k nc nd fs = (g', OOk) /\
    (nd = true \/ check_mapped m (wi_fields i) = (m', None)) /\ (nd = true -> m' = m) /\
    (nc, nd, fs) = match wi_kind i with
                   | WNormal => (false, false, wi_fields i)
                   | WNoDirect => (true, false, wi_fields i)
                   | WDepOnly => (false, true, [])
                   end.
Proof.
  intros g k m i g' m' H. unfold run_input in H. destruct (wi_kind i).
  - destruct (check_mapped m (wi_fields i)) as [m1 [e|]] eqn:CM; [discriminate|].
    destruct (g_add_edge g (wi_from i) k false false (wi_fields i)) as [g1 o] eqn:A.
    inversion H; subst. exists false, false, (wi_fields i).
    assert (O : o = OOk).
    { pose proof (add_edge_outcome g (wi_from i) k false false (wi_fields i)) as X. rewrite A in X. simpl in X. auto. }
    subst o. repeat split; auto. discriminate.
  - destruct (check_mapped m (wi_fields i)) as [m1 [e|]] eqn:CM; [discriminate|].
    destruct (g_add_edge g (wi_from i) k true false (wi_fields i)) as [g1 o] eqn:A.
    inversion H; subst. exists true, false, (wi_fields i).
    assert (O : o = OOk).
    { pose proof (add_edge_outcome g (wi_from i) k true false (wi_fields i)) as X. rewrite A in X. simpl in X. auto. }
    subst o. repeat split; auto. discriminate.
  - destruct (g_add_edge g (wi_from i) k false true []) as [g1 o] eqn:A.
    inversion H; subst. exists false, true, [].
    assert (O : o = OOk).
    { pose proof (add_edge_outcome g (wi_from i) k false true []) as X. rewrite A in X. simpl in X. auto. }
    subst o. repeat split; auto.
Qed.

Lemma sim_input : forall k g g2 m i g' m',
  agree_on k g g2 -> run_input g k m i = (g', m', None) ->
  exists g2', run_input g2 k m i = (g2', m', None) /\ agree_on k g' g2'.
Proof.
  intros k g g2 m i g' m' AG H.
  destruct (run_input_ok_inv _ _ _ _ _ _ H) as [nc [nd [fs [A [CM [MM K]]]]]].
  destruct (sim_edge k g g2 (wi_from i) nc nd fs g' AG A) as [g2' [A2 AG2]].
  exists g2'. split; [|assumption].
  unfold run_input. destruct (wi_kind i); inversion K; subst nc nd fs.
  - destruct CM as [CM|CM]; [discriminate|]. rewrite CM, A2. reflexivity.
  - destruct CM as [CM|CM]; [discriminate|]. rewrite CM, A2. reflexivity.
  - rewrite A2. rewrite (MM eq_refl). reflexivity.
Qed.

Lemma sim_inputs : forall is k g g2 m g' m',
  agree_on k g g2 -> run_inputs g k m is = (g', m', None) ->
  exists g2', run_inputs g2 k m is = (g2', m', None) /\ agree_on k g' g2'.
Proof.
  induction is as [|i rest IH]; intros k g g2 m g' m' AG H; simpl in *.
  - inversion H; subst. eauto.
  - destruct (run_input g k m i) as [[g1 m1] [e|]] eqn:R; [discriminate|].
    destruct (sim_input k g g2 m i g1 m1 AG R) as [g21 [R2 AG1]]. rewrite R2.
    apply (IH k g1 g21 m1 g' m' AG1 H).
Qed.

Lemma inputs_verdict_agree : forall is k g g2 m,
  agree_on k g g2 -> (snd (run_inputs g k m is) = None <-> snd (run_inputs g2 k m is) = None).
Proof.
  assert (D : forall is k g g2 m, agree_on k g g2 -> snd (run_inputs g k m is) = None -> snd (run_inputs g2 k m is) = None).
  { intros is k g g2 m AG H. destruct (run_inputs g k m is) as [[g' m'] r] eqn:R. simpl in H. subst r.
    destruct (sim_inputs is k g g2 m g' m' AG R) as [g2' [R2 _]]. rewrite R2. reflexivity. }
  intros is k g g2 m AG. split; [apply D; assumption|apply D; apply agree_sym; assumption].
Qed.

Lemma other_input : forall k k' g m i g' m',
  k' <> k -> run_input g k' m i = (g', m', None) -> agree_on k g g'.
Proof.
  intros k k' g m i g' m' N H.
  destruct (run_input_ok_inv _ _ _ _ _ _ H) as [nc [nd [fs [A _]]]].
  eapply other_edge; eassumption.
Qed.

Lemma other_inputs : forall is k k' g m g' m',
  k' <> k -> run_inputs g k' m is = (g', m', None) -> agree_on k g g'.
Proof.
  induction is as [|i rest IH]; intros k k' g m g' m' N H; simpl in *.
  - inversion H; subst. apply agree_refl.
  - destruct (run_input g k' m i) as [[g1 m1] [e|]] eqn:R; [discriminate|].
    eapply agree_trans; [eapply other_input; eassumption|eapply IH; eassumption].
Qed.

(* node k can be processed in state w *)
Definition nd_ok (w : wstate) (k : string) : Prop :=
  match alist_get k (w_nodes w) with
  | None => True
  | Some n => snd (run_inputs (w_g w) k (wn_mapped n) (wn_pending n)) = None
  end.

Theorem run_nodes_ok_iff : forall L w, snd (run_nodes w L) = None <-> forall k, In k L -> nd_ok w k.
Proof.
  induction L as [|k rest IH]; intros w; simpl.
  - split; [intros _ k []|reflexivity].
  - destruct (alist_get k (w_nodes w)) as [n|] eqn:G.
    + destruct (run_inputs (w_g w) k (wn_mapped n) (wn_pending n)) as [[g' m'] [e|]] eqn:R.
      * simpl. split; [discriminate|]. intros H. specialize (H k (or_introl eq_refl)).
        unfold nd_ok in H. rewrite G, R in H. simpl in H. discriminate.
      * set (w' := w_set_nodes (alist_set k (mkWN [] m' (wn_static n)) (w_nodes w)) (w_set_g g' w)).
        rewrite (IH w').
        assert (EQ : forall k', nd_ok w' k' <-> nd_ok w k').
        { intros k'. unfold nd_ok. destruct (String.eqb k' k) eqn:X.
          - apply String.eqb_eq in X; subst k'. unfold w'. simpl. rewrite alist_get_set_same, G, R. simpl. tauto.
          - apply String.eqb_neq in X. unfold w'. simpl. rewrite (alist_get_set_other k' k _ _ X).
            destruct (alist_get k' (w_nodes w)) as [n'|]; [|tauto].
            apply inputs_verdict_agree. apply agree_sym. eapply other_inputs; [|exact R]. congruence. }
        split.
        -- intros H k' [K|K]; [subst; unfold nd_ok; rewrite G, R; reflexivity|apply EQ; apply H; assumption].
        -- intros H k' K. apply EQ. apply H. right; assumption.
    + rewrite IH. split.
      * intros H k' [K|K]; [subst; unfold nd_ok; rewrite G; exact I|auto].
      * intros H k' K. apply H. right; assumption.
Qed.

(* (A): the verdict of the node phase depends only on the set of nodes visited *)
Corollary run_nodes_verdict_order_independent : forall w L1 L2,
  (forall k, In k L1 <-> In k L2) -> (snd (run_nodes w L1) = None <-> snd (run_nodes w L2) = None).
Proof.
  intros w L1 L2 H. rewrite !run_nodes_ok_iff. split; intros X k K; apply X; apply H; assumption.
Qed.

(* ---- (B) what a successful node phase builds *)
Definition edesc : Type := (string * string * bool * bool * list string)%type.
Definition d_ctrl (d : edesc) : list (string * string) := let '(s, e, nc, nd, fs) := d in if nc then [] else [(s, e)].
Definition d_data (d : edesc) : list (string * string) := let '(s, e, nc, nd, fs) := d in if nd then [] else [(s, e)].
Definition d_starts (d : edesc) : list string :=
  let '(s, e, nc, nd, fs) := d in if nc then [] else if String.eqb s START then [e] else [].
Definition d_ends (d : edesc) : list string :=
  let '(s, e, nc, nd, fs) := d in if nc then [] else if String.eqb e END_ then [s] else [].
Definition d_pend (d : edesc) : list pend := let '(s, e, nc, nd, fs) := d in if nd then [] else [(s, e, fs)].

Definition known (g : gstate) (k : string) : Prop := is_se k = true \/ has_node g k = true.

Record seq_effect (g g' : gstate) (L : list edesc) : Prop := {
  se_err : g_err g' = g_err g;
  se_compiled : g_compiled g' = g_compiled g;
  se_cmp : g_cmp g' = g_cmp g;
  se_branches : g_branches g' = g_branches g;
  se_has : forall x, has_node g' x = has_node g x;
  se_ctrl : g_ctrl g' = g_ctrl g ++ flat_map d_ctrl L;
  se_data : g_data g' = g_data g ++ flat_map d_data L;
  se_starts : g_starts g' = g_starts g ++ flat_map d_starts L;
  se_ends : g_ends g' = g_ends g ++ flat_map d_ends L;
  se_built : forall T0 X, built T0 X g -> built T0 (X ++ flat_map d_pend L) g';
  se_same : flat_map d_pend L = [] -> tpart g' = tpart g;
  se_stable : flat_map d_pend L <> [] -> istable (tpart g');
  se_known : forall s e fs, In (s, e, fs) (flat_map d_pend L) -> known g s /\ known g e
}.

Lemma seq_nil : forall g, seq_effect g g [].
Proof.
  intros g. split; simpl; try reflexivity; try (rewrite app_nil_r; reflexivity).
  - intros T0 X B. rewrite app_nil_r. assumption.
  - intros C. congruence.
  - intros s e fs [].
Qed.

Lemma seq_one : forall g g' s e nc nd fs, edge_effect g g' s e nc nd fs -> seq_effect g g' [(s, e, nc, nd, fs)].
Proof.
  intros g g' s e nc nd fs E.
  assert (H : forall x, has_node g' x = has_node g x).
  { intros x. unfold has_node.
    pose proof (ee_tpart _ _ _ _ _ _ _ E) as T.
    assert (K : keys g' = keys g).
    { destruct nd.
      - change (keys (tpart g') = keys (tpart g)). rewrite T. reflexivity.
      - change (keys (tpart g') = keys (tpart g)). rewrite T.
        rewrite (ss_keys _ _ (ss_update_pending _)). reflexivity. }
    fold (has_node g' x). fold (has_node g x). apply has_node_of_keys. assumption. }
  split; simpl; rewrite ?app_nil_r.
  - rewrite (ee_err' _ _ _ _ _ _ _ E), (ee_err _ _ _ _ _ _ _ E). reflexivity.
  - apply (ee_compiled _ _ _ _ _ _ _ E).
  - apply (ee_cmp _ _ _ _ _ _ _ E).
  - apply (ee_branches _ _ _ _ _ _ _ E).
  - exact H.
  - apply (ee_ctrl _ _ _ _ _ _ _ E).
  - apply (ee_data _ _ _ _ _ _ _ E).
  - apply (ee_starts _ _ _ _ _ _ _ E).
  - apply (ee_ends _ _ _ _ _ _ _ E).
  - intros T0 X B. pose proof (ee_tpart _ _ _ _ _ _ _ E) as T. destruct nd.
    + rewrite app_nil_r. eapply built_same; eassumption.
    + eapply built_push; eassumption.
  - intros P. destruct nd; [apply (ee_tpart _ _ _ _ _ _ _ E)|discriminate].
  - intros P. destruct nd; [congruence|]. rewrite (ee_tpart _ _ _ _ _ _ _ E). apply update_pending_is_a_run.
  - intros a b f I. destruct nd; [contradiction|]. destruct I as [I|[]]. inversion I; subst.
    split; [apply (ee_src _ _ _ _ _ _ _ E)|apply (ee_dst _ _ _ _ _ _ _ E)].
Qed.

Lemma known_has : forall g g' k, (forall x, has_node g' x = has_node g x) -> known g' k -> known g k.
Proof. intros g g' k H [A|A]; [left; assumption|right; rewrite <- H; assumption]. Qed.

Lemma seq_app : forall g g1 g2 L1 L2, seq_effect g g1 L1 -> seq_effect g1 g2 L2 -> seq_effect g g2 (L1 ++ L2).
Proof.
  intros g g1 g2 L1 L2 A B. split; rewrite ?flat_map_app.
  - rewrite (se_err _ _ _ B). apply (se_err _ _ _ A).
  - rewrite (se_compiled _ _ _ B). apply (se_compiled _ _ _ A).
  - rewrite (se_cmp _ _ _ B). apply (se_cmp _ _ _ A).
  - rewrite (se_branches _ _ _ B). apply (se_branches _ _ _ A).
  - intros x. rewrite (se_has _ _ _ B). apply (se_has _ _ _ A).
  - rewrite (se_ctrl _ _ _ B), (se_ctrl _ _ _ A), app_assoc. reflexivity.
  - rewrite (se_data _ _ _ B), (se_data _ _ _ A), app_assoc. reflexivity.
  - rewrite (se_starts _ _ _ B), (se_starts _ _ _ A), app_assoc. reflexivity.
  - rewrite (se_ends _ _ _ B), (se_ends _ _ _ A), app_assoc. reflexivity.
  - intros T0 X H. rewrite app_assoc. apply (se_built _ _ _ B). apply (se_built _ _ _ A). assumption.
  - intros H. apply app_eq_nil in H. destruct H as [H1 H2].
    rewrite (se_same _ _ _ B H2). apply (se_same _ _ _ A H1).
  - intros H. destruct (flat_map d_pend L2) as [|p l] eqn:E2.
    + rewrite (se_same _ _ _ B E2). apply (se_stable _ _ _ A). rewrite app_nil_r in H. assumption.
    + apply (se_stable _ _ _ B). rewrite E2. discriminate.
  - intros s e fs H. apply in_app_or in H. destruct H as [H|H].
    + apply (se_known _ _ _ A s e fs H).
    + destruct (se_known _ _ _ B s e fs H) as [K1 K2].
      split; eapply known_has; try eassumption; apply (se_has _ _ _ A).
Qed.

(* the graph call a deferred input stands for *)
Definition idesc (k : string) (i : winput) : edesc :=
  match wi_kind i with
  | WNormal => (wi_from i, k, false, false, wi_fields i)
  | WNoDirect => (wi_from i, k, true, false, wi_fields i)
  | WDepOnly => (wi_from i, k, false, true, [])
  end.

Lemma run_input_effect : forall g k m i g' m',
  run_input g k m i = (g', m', None) -> seq_effect g g' [idesc k i].
Proof.
  intros g k m i g' m' H. destruct (run_input_ok_inv _ _ _ _ _ _ H) as [nc [nd [fs [A [_ [_ K]]]]]].
  pose proof (add_edge_ok _ _ _ _ _ _ _ A) as E. apply seq_one in E.
  unfold idesc. destruct (wi_kind i); inversion K; subst; exact E.
Qed.

Lemma run_inputs_effect : forall is g k m g' m',
  run_inputs g k m is = (g', m', None) -> seq_effect g g' (map (idesc k) is).
Proof.
  induction is as [|i rest IH]; intros g k m g' m' H; simpl in *.
  - inversion H; subst. apply seq_nil.
  - destruct (run_input g k m i) as [[g1 m1] [e|]] eqn:R; [discriminate|].
    change (idesc k i :: map (idesc k) rest) with ([idesc k i] ++ map (idesc k) rest).
    eapply seq_app; [eapply run_input_effect; eassumption|eapply IH; eassumption].
Qed.

(* the deferred inputs a visiting order consumes, in the order it consumes them *)
Definition pendmap (nodes : list (string * wnode)) : list (string * list winput) :=
  map (fun kn => (fst kn, wn_pending (snd kn))) nodes.

Fixpoint collect (P : list (string * list winput)) (L : list string) : list (string * winput) :=
  match L with
  | [] => []
  | k :: r =>
    match alist_get k P with
    | None => collect P r
    | Some is => map (pair k) is ++ collect (alist_set k [] P) r
    end
  end.

Lemma alist_get_pendmap : forall k nodes,
  alist_get k (pendmap nodes) = option_map wn_pending (alist_get k nodes).
Proof.
  intros k nodes. unfold pendmap. induction nodes as [|[x n] l IH]; simpl; [reflexivity|].
  destruct (String.eqb k x); [reflexivity|assumption].
Qed.

Lemma pendmap_set : forall k m st nodes,
  pendmap (alist_set k (mkWN [] m st) nodes) = alist_set k [] (pendmap nodes).
Proof.
  intros k m st nodes. unfold pendmap. induction nodes as [|[x n] l IH]; simpl; [reflexivity|].
  destruct (String.eqb k x); simpl; [reflexivity|]. rewrite IH. reflexivity.
Qed.

Definition wdesc (ki : string * winput) : edesc := idesc (fst ki) (snd ki).

Lemma run_nodes_effect : forall L w w',
  run_nodes w L = (w', None) ->
  seq_effect (w_g w) (w_g w') (map wdesc (collect (pendmap (w_nodes w)) L)).
Proof.
  induction L as [|k rest IH]; intros w w' H; simpl in *.
  - inversion H; subst. apply seq_nil.
  - rewrite alist_get_pendmap. destruct (alist_get k (w_nodes w)) as [n|] eqn:G; simpl.
    + destruct (run_inputs (w_g w) k (wn_mapped n) (wn_pending n)) as [[g' m'] [e|]] eqn:R; [discriminate|].
      rewrite map_app. eapply seq_app.
      * rewrite map_map. unfold wdesc. simpl. apply (run_inputs_effect _ _ _ _ _ _ R).
      * specialize (IH _ _ H). simpl in IH. rewrite pendmap_set in IH. exact IH.
    + apply IH. assumption.
Qed.

(* ---- two orders consume the same inputs *)
Definition all_inputs (P : list (string * list winput)) : list (string * winput) :=
  flat_map (fun kis => map (pair (fst kis)) (snd kis)) P.

Lemma set_keys : forall {A} k (a b : A) l, alist_get k l = Some b -> map fst (alist_set k a l) = map fst l.
Proof.
  intros A k a b l. induction l as [|[x y] l IH]; simpl; [discriminate|].
  destruct (String.eqb k x) eqn:E; simpl; [apply String.eqb_eq in E; subst; reflexivity|].
  intros H. rewrite IH by assumption. reflexivity.
Qed.

Lemma alist_get_none_notin : forall {A} k (l : list (string * A)), alist_get k l = None -> ~ In k (map fst l).
Proof.
  intros A k l. induction l as [|[x y] l IH]; simpl; [intros _ []|].
  destruct (String.eqb k x) eqn:E; [discriminate|]. intros H [C|C].
  - subst. rewrite String.eqb_refl in E. discriminate.
  - apply IH; assumption.
Qed.

Definition inL (L : list string) (kis : string * list winput) : bool := smem (fst kis) L.
Arguments inL : simpl never.

Lemma inL_cons : forall k r x y, inL (k :: r) (x, y) = String.eqb x k || inL r (x, y).
Proof. reflexivity. Qed.

Lemma filter_drop_key : forall (P : list (string * list winput)) k r,
  ~ In k (map fst P) -> filter (inL (k :: r)) P = filter (inL r) P.
Proof.
  intros P k r H. apply filter_ext_in. intros [x y] I. rewrite inL_cons.
  destruct (String.eqb x k) eqn:E; [|reflexivity].
  apply String.eqb_eq in E; subst. exfalso. apply H. apply (in_map fst) in I. assumption.
Qed.

Lemma all_inputs_cons : forall x y P, all_inputs ((x, y) :: P) = map (pair x) y ++ all_inputs P.
Proof. reflexivity. Qed.

Lemma collect_step : forall P k r is,
  NoDup (map fst P) -> alist_get k P = Some is ->
  Permutation (all_inputs (filter (inL (k :: r)) P))
              (map (pair k) is ++ all_inputs (filter (inL r) (alist_set k [] P))).
Proof.
  induction P as [|[x y] P IH]; intros k r is N G; [discriminate|].
  cbn [map fst] in N. inversion N as [|? ? N1 N2]; subst.
  cbn [alist_get] in G. cbn [alist_set filter].
  destruct (String.eqb k x) eqn:E.
  - apply String.eqb_eq in E; subst x. inversion G; subst y.
    rewrite inL_cons, String.eqb_refl. cbn [orb filter]. rewrite all_inputs_cons.
    rewrite (filter_drop_key P k r N1).
    apply Permutation_app_head.
    destruct (inL r (k, [])); [rewrite all_inputs_cons|]; apply Permutation_refl.
  - cbn [filter]. rewrite inL_cons, (String.eqb_sym x k), E. cbn [orb].
    specialize (IH k r is N2 G).
    destruct (inL r (x, y)).
    + rewrite !all_inputs_cons.
      eapply Permutation_trans; [apply Permutation_app_head; exact IH|].
      rewrite !app_assoc. apply Permutation_app_tail. apply Permutation_app_comm.
    + exact IH.
Qed.

Lemma collect_all : forall L P, NoDup (map fst P) ->
  Permutation (collect P L) (all_inputs (filter (inL L) P)).
Proof.
  induction L as [|k r IH]; intros P N; cbn [collect].
  - rewrite (filter_none _ P) by (intros; reflexivity). apply Permutation_refl.
  - destruct (alist_get k P) as [is|] eqn:G.
    + eapply Permutation_trans; [|apply Permutation_sym; apply collect_step; eassumption].
      apply Permutation_app_head. apply IH. rewrite (set_keys k [] is P G). assumption.
    + rewrite (filter_drop_key P k r (alist_get_none_notin k P G)). apply IH. assumption.
Qed.

Lemma collect_perm : forall P L1 L2, NoDup (map fst P) ->
  (forall k, In k (map fst P) -> In k L1) -> (forall k, In k (map fst P) -> In k L2) ->
  Permutation (collect P L1) (collect P L2).
Proof.
  intros P L1 L2 N H1 H2.
  assert (F : forall L, (forall k, In k (map fst P) -> In k L) -> filter (inL L) P = P).
  { intros L H. apply filter_all. intros [x y] I. unfold inL. simpl. apply smem_In. apply H. apply (in_map fst) in I. assumption. }
  eapply Permutation_trans; [apply collect_all; assumption|].
  eapply Permutation_trans; [|apply Permutation_sym; apply collect_all; assumption].
  rewrite (F L1 H1), (F L2 H2). apply Permutation_refl.
Qed.

(* ================================================================== 5. graph.compile cannot tell the two graphs apart *)
Definition is_compiled (o : outcome) : bool := match o with OCompiled _ => true | _ => false end.

Definition dup_fm (g : gstate) : bool := existsb (fun kf => has_dup (snd kf)) (g_fm g).
Definition subbad (g : gstate) : bool := existsb (fun kn => nkind_eqb (n_kind (snd kn)) NSubBad) (g_nodes g).

Definition compile_ok (g : gstate) (o : copt) : bool :=
  match g_err g with
  | Some _ => false
  | None =>
    negb (match g_cmp g with CGraph => false | _ => true end && is_some (o_trigger o))
    && negb (is_nil (g_starts g)) && negb (is_nil (g_ends g)) && is_nil (g_pending g)
    && negb (has_untyped g) && negb (dup_fm g) && negb (subbad g)
    && negb (dag_mode g o && negb (validate_dag g))
    && negb (dag_mode g o && Z.ltb 0 (o_max_steps o))
  end.

Lemma g_compile_verdict : forall g o, is_compiled (snd (g_compile fixed g o)) = compile_ok g o.
Proof.
  intros g o. unfold g_compile, compile_ok, dup_fm, subbad. destruct (g_err g); [reflexivity|]. simpl.
  fold (dag_mode g o).
  destruct (match g_cmp g with CGraph => false | _ => true end && is_some (o_trigger o)); [reflexivity|].
  destruct (is_nil (g_starts g)); [reflexivity|]. destruct (is_nil (g_ends g)); [reflexivity|].
  destruct (is_nil (g_pending g)); [|reflexivity]. simpl.
  destruct (has_untyped g); [reflexivity|].
  destruct (existsb (fun kf => has_dup (snd kf)) (g_fm g)); [reflexivity|].
  destruct (existsb (fun kn => nkind_eqb (n_kind (snd kn)) NSubBad) (g_nodes g)); [reflexivity|].
  destruct (dag_mode g o && negb (validate_dag g)); [reflexivity|].
  destruct (dag_mode g o && Z.ltb 0 (o_max_steps o)); reflexivity.
Qed.

(* ---- pieces *)
Lemma perm_is_nil : forall {A} (l l' : list A), Permutation l l' -> is_nil l = is_nil l'.
Proof.
  intros A l l' P. destruct l, l'; try reflexivity.
  - apply Permutation_nil in P. discriminate.
  - apply Permutation_sym, Permutation_nil in P. discriminate.
Qed.

Lemma has_dup_NoDup : forall l, has_dup l = false <-> NoDup l.
Proof.
  induction l as [|x l IH]; simpl; [split; [constructor|reflexivity]|].
  rewrite orb_false_iff, IH, smem_false. split.
  - intros [A B]. constructor; assumption.
  - intros H. inversion H; subst. auto.
Qed.

Lemma has_dup_perm : forall l l', Permutation l l' -> has_dup l = has_dup l'.
Proof.
  intros l l' P. destruct (has_dup l) eqn:A, (has_dup l') eqn:B; try reflexivity.
  - apply has_dup_NoDup in B. apply (Permutation_NoDup (Permutation_sym P)) in B. apply has_dup_NoDup in B. congruence.
  - apply has_dup_NoDup in A. apply (Permutation_NoDup P) in A. apply has_dup_NoDup in A. congruence.
Qed.

Definition fm_nodup (g : gstate) : Prop := NoDup (map fst (g_fm g)).

Lemma entry_get : forall {A} (l : list (string * A)) k a, NoDup (map fst l) -> In (k, a) l -> alist_get k l = Some a.
Proof.
  intros A l k a N H. induction l as [|[x y] l IH]; simpl in *; [contradiction|].
  inversion N as [|? ? N1 N2]; subst. destruct H as [H|H].
  - inversion H; subst. rewrite String.eqb_refl. reflexivity.
  - destruct (String.eqb k x) eqn:E; [|auto].
    apply String.eqb_eq in E; subst. exfalso. apply N1. apply (in_map fst) in H. assumption.
Qed.

Lemma get_entry : forall {A} (l : list (string * A)) k a, alist_get k l = Some a -> In (k, a) l.
Proof.
  intros A l k a. induction l as [|[x y] l IH]; simpl; [discriminate|].
  destruct (String.eqb k x) eqn:E; [apply String.eqb_eq in E; subst; intros H; inversion H; auto|auto].
Qed.

Lemma dup_fm_iff : forall g, fm_nodup g -> (dup_fm g = true <-> exists e, has_dup (fmget g e) = true).
Proof.
  intros g N. unfold dup_fm. rewrite existsb_exists. split.
  - intros [[e l] [I H]]. exists e. unfold fmget. rewrite (entry_get _ _ _ N I). exact H.
  - intros [e H]. unfold fmget in H. destruct (alist_get e (g_fm g)) as [l|] eqn:G; [|discriminate].
    exists (e, l). split; [apply get_entry; assumption|exact H].
Qed.

Lemma dup_fm_eq : forall g g', fm_nodup g -> fm_nodup g' ->
  (forall e, Permutation (fmget g e) (fmget g' e)) -> dup_fm g = dup_fm g'.
Proof.
  intros g g' N N' P. apply bool_eq_iff. rewrite (dup_fm_iff g N), (dup_fm_iff g' N').
  split; intros [e H]; exists e; [rewrite <- (has_dup_perm _ _ (P e))|rewrite (has_dup_perm _ _ (P e))]; assumption.
Qed.

Lemma subbad_kinds : forall g, subbad g = existsb (fun nk => nkind_eqb nk NSubBad) (kinds g).
Proof.
  intros g. unfold subbad, kinds. induction (g_nodes g) as [|[k n] l IH]; simpl; [reflexivity|]. rewrite IH. reflexivity.
Qed.

Lemma untyped_keys : forall g, ginv g ->
  has_untyped g = existsb (fun k => negb (in_typed g k) || negb (out_typed g k)) (keys g).
Proof.
  intros g I. unfold has_untyped, keys.
  assert (E : forall kn, In kn (g_nodes g) ->
              in_typed g (fst kn) = n_in (snd kn) /\ out_typed g (fst kn) = n_out (snd kn)).
  { intros [k n] H. simpl. unfold in_typed, out_typed.
    assert (S : is_se k = false). { apply (gi_unreserved _ I). apply (in_map fst) in H. exact H. }
    rewrite S. rewrite (entry_get _ _ _ (gi_nodup _ I) H). auto. }
  assert (G : forall l : list (string * node),
            (forall kn, In kn l -> in_typed g (fst kn) = n_in (snd kn) /\ out_typed g (fst kn) = n_out (snd kn)) ->
            existsb (fun kn => negb (n_in (snd kn)) || negb (n_out (snd kn))) l =
            existsb (fun k => negb (in_typed g k) || negb (out_typed g k)) (map fst l)).
  { induction l as [|kn l IH]; intros H; simpl; [reflexivity|].
    destruct (H kn (or_introl eq_refl)) as [A B]. rewrite A, B. f_equal. apply IH. intros x X. apply H. right; assumption. }
  apply G. exact E.
Qed.

Lemma ctrl_pairs_in : forall g g', Permutation (g_ctrl g) (g_ctrl g') -> g_branches g' = g_branches g ->
  forall p, In p (ctrl_pairs g) <-> In p (ctrl_pairs g').
Proof.
  intros g g' P B p. unfold ctrl_pairs. rewrite B, !in_app_iff. split; intros [H|H]; auto; left.
  - apply (Permutation_in _ P). assumption.
  - apply (Permutation_in _ (Permutation_sym P)). assumption.
Qed.

Lemma topo_ext : forall ps ps' ks order, (forall p, In p ps <-> In p ps') -> topo ps ks order -> topo ps' ks order.
Proof.
  intros ps ps' ks order H [T1 [T2 T3]]. split; [assumption|]. split; [assumption|].
  intros a b P. apply T3. apply H. assumption.
Qed.

Lemma validate_dag_eq : forall g g', ginv g -> ginv g' -> keys g' = keys g ->
  Permutation (g_ctrl g) (g_ctrl g') -> g_branches g' = g_branches g ->
  validate_dag g = validate_dag g'.
Proof.
  intros g g' I I' K P B. apply bool_eq_iff. split; intros V.
  - apply validate_dag_complete; [assumption|]. destruct (validate_dag_sound g I V) as [order T].
    exists order. rewrite K. eapply topo_ext; [apply ctrl_pairs_in; eassumption|exact T].
  - apply validate_dag_complete; [assumption|]. destruct (validate_dag_sound g' I' V) as [order T].
    exists order. rewrite <- K. eapply topo_ext; [|exact T]. intros p. symmetry. apply ctrl_pairs_in; assumption.
Qed.

Lemma existsb_ext' : forall {A} (f h : A -> bool) l, (forall x, f x = h x) -> existsb f l = existsb h l.
Proof. intros A f h l H. induction l as [|x l IH]; simpl; [reflexivity|]. rewrite H, IH. reflexivity. Qed.

Record same_to_compile (g g' : gstate) : Prop := {
  sc_err : g_err g' = g_err g;
  sc_cmp : g_cmp g' = g_cmp g;
  sc_starts : Permutation (g_starts g) (g_starts g');
  sc_ends : Permutation (g_ends g) (g_ends g');
  sc_ctrl : Permutation (g_ctrl g) (g_ctrl g');
  sc_branches : g_branches g' = g_branches g;
  sc_pending : Permutation (g_pending g) (g_pending g');
  sc_flags : forall k, in_typed g k = in_typed g' k /\ out_typed g k = out_typed g' k;
  sc_fm : forall e, Permutation (fmget g e) (fmget g' e);
  sc_keys : keys g' = keys g;
  sc_kinds : kinds g' = kinds g
}.

Lemma compile_ok_eq : forall g g' o,
  ginv g -> ginv g' -> fm_nodup g -> fm_nodup g' -> same_to_compile g g' -> compile_ok g o = compile_ok g' o.
Proof.
  intros g g' o I I' N N' [S1 S2 S3 S4 S5 S6 S7 S8 S9 S10 S11]. unfold compile_ok.
  rewrite S1, S2. destruct (g_err g); [reflexivity|].
  rewrite (perm_is_nil _ _ S3), (perm_is_nil _ _ S4), (perm_is_nil _ _ S7).
  rewrite (untyped_keys g I), (untyped_keys g' I'), S10.
  rewrite (dup_fm_eq g g' N N' S9), (subbad_kinds g), (subbad_kinds g'), S11.
  unfold dag_mode. rewrite S2.
  rewrite (validate_dag_eq g g' I I' S10 S5 S6).
  rewrite (existsb_ext' (fun k => negb (in_typed g k) || negb (out_typed g k))
                        (fun k => negb (in_typed g' k) || negb (out_typed g' k)) (keys g)).
  - reflexivity.
  - intros k. destruct (S8 k) as [A B]. rewrite A, B. reflexivity.
Qed.

(* ================================================================== 6. the keys of the mapping records stay distinct *)
Lemma fm_nodup_eq : forall g g', g_fm g' = g_fm g -> fm_nodup g -> fm_nodup g'.
Proof. intros g g' H N. unfold fm_nodup. rewrite H. exact N. Qed.

Lemma fm_nodup_resolve1 : forall g p, fm_nodup g -> fm_nodup (resolve1 g p).
Proof.
  intros g [[s e] fs] N. unfold resolve1.
  set (g1 := if out_typed g s && negb (in_typed g e) then set_typed e g
             else if negb (out_typed g s) then set_typed s g else g).
  assert (F : g_fm g1 = g_fm g) by (unfold g1; repeat dif; reflexivity).
  destruct fs as [|f fs]; [apply (fm_nodup_eq g); assumption|].
  unfold fm_nodup. simpl. rewrite F.
  destruct (alist_get e (g_fm g)) as [old|] eqn:G.
  - rewrite (set_keys e _ old _ G). exact N.
  - rewrite map_app. simpl. apply NoDup_snoc; [exact N|apply alist_get_none_notin; assumption].
Qed.

Lemma fm_nodup_ireach : forall g g', ireach g g' -> fm_nodup g -> fm_nodup g'.
Proof.
  intros g g' H. induction H as [g|g l1 p l2 g' E R _ IH]; intros N; [assumption|].
  apply IH. apply (fm_nodup_eq (resolve1 g p)); [reflexivity|]. apply fm_nodup_resolve1. assumption.
Qed.

Lemma fm_nodup_push : forall g x, fm_nodup g -> fm_nodup (update_pending (set_pending x g)).
Proof.
  intros g x N. eapply fm_nodup_ireach; [apply update_pending_is_a_run|]. exact N.
Qed.

Lemma fm_nodup_add_node : forall g k nk ns nko ok, fm_nodup g -> fm_nodup (fst (g_add_node g k nk ns nko ok)).
Proof.
  intros g k nk ns nko ok N. unfold g_add_node, fail. destruct (g_err g); [assumption|].
  repeat (dif; [assumption|]). exact N.
Qed.

Lemma fm_nodup_add_edge : forall g s e nc nd fs, fm_nodup g -> fm_nodup (fst (g_add_edge g s e nc nd fs)).
Proof.
  intros g s e nc nd fs N. unfold g_add_edge, fail. destruct (g_err g); [assumption|].
  destruct (g_compiled g); [assumption|]. destruct (nc && nd); [assumption|].
  repeat (dif; [assumption|]). fold (add_ctrl g s e).
  set (g1 := if nc then g else add_ctrl g s e).
  assert (F : g_fm g1 = g_fm g).
  { unfold g1, add_ctrl. destruct nc; [reflexivity|]. destruct (String.eqb s START), (String.eqb e END_); reflexivity. }
  destruct nd; [apply (fm_nodup_eq g); assumption|]. dif; [assumption|]. simpl.
  apply (fm_nodup_eq (update_pending (set_pending (g_pending g1 ++ [(s, e, fs)]) g1))); [reflexivity|].
  apply fm_nodup_push. apply (fm_nodup_eq g); assumption.
Qed.

Lemma fm_nodup_branch_ends : forall ends g s g' r, fm_nodup g -> branch_ends g s ends = (g', r) -> fm_nodup g'.
Proof.
  induction ends as [|e rest IH]; intros g s g' r N H; simpl in H.
  - inversion H; subst; assumption.
  - dih H; [inversion H; subst; assumption|].
    eapply IH; [|exact H].
    apply (fm_nodup_eq (update_pending (set_pending (g_pending g ++ [(s, e, [])]) g))); [repeat dif; reflexivity|].
    apply fm_nodup_push. assumption.
Qed.

Lemma fm_nodup_add_branch : forall g s ends sk, fm_nodup g -> fm_nodup (fst (g_add_branch g s ends sk)).
Proof.
  intros g s ends sk N. unfold g_add_branch, fail. destruct (g_err g); [assumption|].
  repeat (dif; [assumption|]).
  set (g1 := match alist_get s (g_nodes g) with
             | Some n => if nkind_eqb (n_kind n) NPass && negb (n_out n) then update_pending (set_typed s g) else g
             | None => g end).
  assert (F : fm_nodup g1).
  { unfold g1. destruct (alist_get s (g_nodes g)); [dif; [|assumption]|assumption].
    eapply fm_nodup_ireach; [apply update_pending_is_a_run|]. apply (fm_nodup_eq g); [reflexivity|assumption]. }
  destruct sk; [simpl; apply (fm_nodup_eq g1); [reflexivity|assumption]|].
  destruct (branch_ends _ _ _) as [g3 [er|]] eqn:BE; [assumption|]. simpl.
  apply (fm_nodup_eq g3); [reflexivity|]. eapply fm_nodup_branch_ends; [|exact BE].
  apply (fm_nodup_eq g1); [reflexivity|assumption].
Qed.

Lemma fm_nodup_compile : forall v g o, fm_nodup g -> fm_nodup (fst (g_compile v g o)).
Proof.
  intros v g o N. unfold g_compile. destruct (g_err g); [assumption|].
  repeat (dif; try assumption); simpl; apply (fm_nodup_eq g); auto.
Qed.

Lemma fm_nodup_set_err : forall g e, fm_nodup g -> fm_nodup (set_err e g).
Proof. intros g e N. exact N. Qed.
Lemma fm_nodup_set_prenode : forall g x, fm_nodup g -> fm_nodup (set_h_prenode x g).
Proof. intros g x N. exact N. Qed.

(* ---- the workflow's own node table has distinct keys *)
Lemma nodup_alist_set : forall {A} k (a : A) l, NoDup (map fst l) -> NoDup (map fst (alist_set k a l)).
Proof.
  intros A k a l N. destruct (alist_get k l) as [b|] eqn:G.
  - rewrite (set_keys k a b l G). exact N.
  - assert (E : map fst (alist_set k a l) = map fst l ++ [k]).
    { clear N. induction l as [|[x y] l IH]; simpl in *; [reflexivity|].
      destruct (String.eqb k x); [discriminate|]. simpl. rewrite IH by assumption. reflexivity. }
    rewrite E. apply NoDup_snoc; [exact N|apply alist_get_none_notin; assumption].
Qed.

Definition wn_nodup (w : wstate) : Prop := NoDup (map fst (w_nodes w)).

Lemma wn_nodup_run_nodes : forall L w, wn_nodup w -> wn_nodup (fst (run_nodes w L)).
Proof.
  induction L as [|k rest IH]; intros w N; simpl; [assumption|].
  destruct (alist_get k (w_nodes w)) as [n|]; [|apply IH; assumption].
  destruct (run_inputs (w_g w) k (wn_mapped n) (wn_pending n)) as [[g' m'] [e|]]; simpl.
  - unfold wn_nodup. simpl. apply nodup_alist_set. exact N.
  - apply IH. unfold wn_nodup. simpl. apply nodup_alist_set. exact N.
Qed.

Lemma run_branches_nodes' : forall v bs w, w_nodes (fst (run_branches v w bs)) = w_nodes w.
Proof. exact run_branches_nodes. Qed.

Lemma wn_nodup_run_statics : forall v L w, wn_nodup w -> wn_nodup (fst (run_statics v w L)).
Proof.
  induction L as [|k rest IH]; intros w N; simpl; [assumption|].
  destruct (alist_get k (w_nodes w)) as [n|]; [|apply IH; assumption].
  destruct (wn_static n) as [|f fs]; [apply IH; assumption|].
  dif; [assumption|].
  destruct (check_mapped (wn_mapped n) (f :: fs)) as [m' [e|]]; simpl.
  - unfold wn_nodup. simpl. apply nodup_alist_set. exact N.
  - apply IH. unfold wn_nodup. simpl. apply nodup_alist_set. exact N.
Qed.

Lemma wn_nodup_add_input : forall w to from kind fields,
  wn_nodup w -> wn_nodup (fst (w_add_input w to from kind fields)).
Proof.
  intros w to from kind fields N. unfold w_add_input.
  set (nodes := if String.eqb to END_ && negb (is_some (alist_get to (w_nodes w)))
                then alist_set to (mkWN [] MNone []) (w_nodes w) else w_nodes w).
  assert (NN : NoDup (map fst nodes)) by (unfold nodes; dif; [apply nodup_alist_set|]; exact N).
  destruct (alist_get to nodes); [|exact N]. unfold wn_nodup. simpl. apply nodup_alist_set. exact NN.
Qed.

Lemma wn_nodup_wstep : forall v w call, wn_nodup w -> wn_nodup (fst (wstep v w call)).
Proof.
  intros v w [] N; simpl.
  - destruct (g_add_node _ _ _ _ _ _). unfold wn_nodup. simpl. apply nodup_alist_set. exact N.
  - apply wn_nodup_add_input. exact N.
  - exact N.
  - apply wn_nodup_add_input. exact N.
  - set (nodes := if String.eqb k END_ && negb (is_some (alist_get k (w_nodes w)))
                  then alist_set k (mkWN [] MNone []) (w_nodes w) else w_nodes w).
    assert (NN : NoDup (map fst nodes)) by (unfold nodes; dif; [apply nodup_alist_set|]; exact N).
    destruct (alist_get k nodes); [|exact N]. unfold wn_nodup. simpl. apply nodup_alist_set. exact NN.
  - unfold w_compile. destruct (g_err (w_g w)); [exact N|].
    pose proof (run_branches_nodes v (w_branches w) w) as B.
    destruct (run_branches v w (w_branches w)) as [w1 [out|]]; simpl in B; [simpl; unfold wn_nodup; rewrite B; exact N|].
    assert (N1 : wn_nodup w1) by (unfold wn_nodup; rewrite B; exact N).
    pose proof (wn_nodup_run_nodes (ord ++ map fst (w_nodes w1)) w1 N1) as N2.
    destruct (run_nodes w1 (ord ++ map fst (w_nodes w1))) as [w2 [e|]]; simpl in N2; [exact N2|].
    pose proof (wn_nodup_run_statics v (sord ++ map fst (w_nodes w2)) w2 N2) as N3.
    destruct (run_statics v w2 (sord ++ map fst (w_nodes w2))) as [w3 [e|]]; simpl in N3; [exact N3|].
    destruct (g_compile v (w_g w3) o). exact N3.
Qed.

(* ================================================================== 7. the theorem *)
Record wf_ok (w : wstate) : Prop := {
  wo_ginv : ginv (w_g w);
  wo_pinv : pinv (w_g w);
  wo_fm : fm_nodup (w_g w);
  wo_nodes : wn_nodup w
}.

Lemma wf_ok_run_branches : forall bs w, wf_ok w -> wf_ok (fst (run_branches fixed w bs)).
Proof.
  intros bs w [A B C D]. split.
  - apply (lwinv_run_branches ginv ginv_add_branch ginv_set_err). exact A.
  - apply (lwinv_run_branches pinv pinv_add_branch pinv_set_err). exact B.
  - apply (lwinv_run_branches fm_nodup fm_nodup_add_branch fm_nodup_set_err). exact C.
  - unfold wn_nodup. rewrite run_branches_nodes. exact D.
Qed.

Lemma perm_flat_map_map : forall {A B C} (f : A -> B) (h : B -> list C) l l',
  Permutation l l' -> Permutation (flat_map h (map f l)) (flat_map h (map f l')).
Proof. intros A B C f h l l' P. apply Permutation_flat_map. apply Permutation_map. assumption. Qed.

(* two successful node phases from the same state *)
Lemma node_phases_same_to_compile : forall w L1 L2 w1 w2,
  wf_ok w ->
  (forall k, In k (map fst (w_nodes w)) -> In k L1) -> (forall k, In k (map fst (w_nodes w)) -> In k L2) ->
  run_nodes w L1 = (w1, None) -> run_nodes w L2 = (w2, None) ->
  same_to_compile (w_g w1) (w_g w2).
Proof.
  intros w L1 L2 w1 w2 [I P F N] C1 C2 R1 R2.
  pose proof (run_nodes_effect _ _ _ R1) as E1. pose proof (run_nodes_effect _ _ _ R2) as E2.
  assert (NP : NoDup (map fst (pendmap (w_nodes w)))).
  { unfold pendmap. rewrite map_map. simpl. exact N. }
  assert (KP : map fst (pendmap (w_nodes w)) = map fst (w_nodes w)).
  { unfold pendmap. rewrite map_map. reflexivity. }
  assert (CP : Permutation (collect (pendmap (w_nodes w)) L1) (collect (pendmap (w_nodes w)) L2)).
  { apply collect_perm; [exact NP| |]; rewrite KP; assumption. }
  set (D1 := map wdesc (collect (pendmap (w_nodes w)) L1)) in *.
  set (D2 := map wdesc (collect (pendmap (w_nodes w)) L2)) in *.
  assert (PD : forall {C} (h : edesc -> list C), Permutation (flat_map h D1) (flat_map h D2)).
  { intros C h. apply perm_flat_map_map. exact CP. }
  set (G0 := w_g w) in *. set (G1 := w_g w1) in *. set (G2 := w_g w2) in *.
  (* typing part *)
  assert (PX : Permutation (flat_map d_pend D1) (flat_map d_pend D2)) by apply PD.
  assert (TY : (forall k, in_typed G1 k = in_typed G2 k /\ out_typed G1 k = out_typed G2 k) /\
               Permutation (g_pending G1) (g_pending G2) /\
               (forall e, Permutation (fmget G1 e) (fmget G2 e)) /\
               keys G1 = keys G2 /\ kinds G1 = kinds G2).
  { destruct (flat_map d_pend D1) as [|x1 X1'] eqn:EX1.
    - (* no data entry at all: the typing parts are untouched *)
      assert (EX2 : flat_map d_pend D2 = []) by (apply Permutation_nil; exact PX).
      pose proof (se_same _ _ _ E1 EX1) as T1. pose proof (se_same _ _ _ E2 EX2) as T2.
      assert (TT : tpart G1 = tpart G2) by congruence.
      assert (N12 : g_nodes G1 = g_nodes G2) by (apply (f_equal g_nodes) in TT; exact TT).
      assert (P12 : g_pending G1 = g_pending G2) by (apply (f_equal g_pending) in TT; exact TT).
      assert (F12 : g_fm G1 = g_fm G2) by (apply (f_equal g_fm) in TT; exact TT).
      split; [intros k; rewrite (in_typed_nodes _ _ k N12), (out_typed_nodes _ _ k N12); auto|].
      split; [rewrite P12; apply Permutation_refl|].
      split; [intros e; unfold fmget; rewrite F12; apply Permutation_refl|].
      unfold keys, kinds. rewrite N12. auto.
    - assert (NE1 : flat_map d_pend D1 <> []) by (rewrite EX1; discriminate).
      assert (NE2 : flat_map d_pend D2 <> []).
      { intros C. rewrite C in PX. apply Permutation_sym, Permutation_nil in PX. discriminate. }
      pose proof (se_built _ _ _ E1 (tpart G0) [] (built_init G0)) as B1.
      pose proof (se_built _ _ _ E2 (tpart G0) [] (built_init G0)) as B2.
      simpl in B1, B2. unfold built in B1, B2. rewrite EX1 in B1.
      pose proof (se_stable _ _ _ E1 NE1) as S1. pose proof (se_stable _ _ _ E2 NE2) as S2.
      destruct P as [IO EN].
      assert (IOA : io_ok (addp (tpart G0) (x1 :: X1'))) by exact IO.
      assert (ENA : ends_ok (addp (tpart G0) (x1 :: X1'))).
      { intros s e fs H. simpl in H. apply in_app_or in H. destruct H as [H|H].
        - exact (EN s e fs H).
        - rewrite <- EX1 in H. exact (se_known _ _ _ E1 s e fs H). }
      destruct (infer_perm_independent (addp (tpart G0) (x1 :: X1')) (addp (tpart G0) (flat_map d_pend D2)) (tpart G1) (tpart G2))
        as [Q1 [Q2 [Q3 [Q4 Q5]]]]; try assumption; try reflexivity.
      + simpl. apply Permutation_app_head. exact PX.
      + split; [exact Q1|]. split; [exact Q2|]. split; [exact Q3|]. split; [exact Q4|exact Q5]. }
  destruct TY as [T1 [T2 [T3 [T4 T5]]]].
  split.
  - rewrite (se_err _ _ _ E2), (se_err _ _ _ E1). reflexivity.
  - rewrite (se_cmp _ _ _ E2), (se_cmp _ _ _ E1). reflexivity.
  - rewrite (se_starts _ _ _ E1), (se_starts _ _ _ E2). apply Permutation_app_head. apply PD.
  - rewrite (se_ends _ _ _ E1), (se_ends _ _ _ E2). apply Permutation_app_head. apply PD.
  - rewrite (se_ctrl _ _ _ E1), (se_ctrl _ _ _ E2). apply Permutation_app_head. apply PD.
  - rewrite (se_branches _ _ _ E2), (se_branches _ _ _ E1). reflexivity.
  - exact T2.
  - exact T1.
  - exact T3.
  - symmetry. exact T4.
  - symmetry. exact T5.
Qed.

(* ---- what the node phase leaves in the workflow's own node table, key by key *)
Definition mres (g : gstate) (k : string) (n : wnode) : mapped :=
  snd (fst (run_inputs g k (wn_mapped n) (wn_pending n))).

Lemma run_nodes_untouched : forall L w k, ~ In k L ->
  alist_get k (w_nodes (fst (run_nodes w L))) = alist_get k (w_nodes w).
Proof.
  induction L as [|h rest IH]; intros w k N; simpl; [reflexivity|].
  assert (NH : k <> h) by (intros C; apply N; left; auto).
  assert (NR : ~ In k rest) by (intros C; apply N; right; assumption).
  destruct (alist_get h (w_nodes w)) as [n|]; [|apply IH; assumption].
  destruct (run_inputs (w_g w) h (wn_mapped n) (wn_pending n)) as [[g' m'] [e|]]; simpl.
  - apply alist_get_set_other. assumption.
  - rewrite IH by assumption. simpl. apply alist_get_set_other. assumption.
Qed.

Lemma mres_agree : forall k g g2 n,
  agree_on k g g2 -> snd (run_inputs g k (wn_mapped n) (wn_pending n)) = None -> mres g2 k n = mres g k n.
Proof.
  intros k g g2 n AG H. unfold mres.
  destruct (run_inputs g k (wn_mapped n) (wn_pending n)) as [[g' m'] r] eqn:R. simpl in H. subst r.
  destruct (sim_inputs _ _ _ _ _ _ _ AG R) as [g2' [R2 _]]. rewrite R2. reflexivity.
Qed.

Lemma run_nodes_final_node : forall L w w' k n,
  run_nodes w L = (w', None) -> alist_get k (w_nodes w) = Some n -> In k L ->
  alist_get k (w_nodes w') = Some (mkWN [] (mres (w_g w) k n) (wn_static n)).
Proof.
  induction L as [|h rest IH]; intros w w' k n H G I; [contradiction|]. simpl in H.
  destruct (String.eqb h k) eqn:X.
  - apply String.eqb_eq in X; subst h. rewrite G in H.
    destruct (run_inputs (w_g w) k (wn_mapped n) (wn_pending n)) as [[g' m'] [e|]] eqn:R; [discriminate|].
    assert (M : mres (w_g w) k n = m') by (unfold mres; rewrite R; reflexivity).
    set (w1 := w_set_nodes (alist_set k (mkWN [] m' (wn_static n)) (w_nodes w)) (w_set_g g' w)) in *.
    assert (G1 : alist_get k (w_nodes w1) = Some (mkWN [] m' (wn_static n))) by (unfold w1; simpl; apply alist_get_set_same).
    rewrite M.
    destruct (in_dec string_dec k rest) as [IR|NR].
    + rewrite (IH w1 w' k _ H G1 IR). unfold mres. simpl. reflexivity.
    + pose proof (run_nodes_untouched rest w1 k NR) as U. rewrite H in U. simpl in U. rewrite U. exact G1.
  - apply String.eqb_neq in X. destruct I as [I|I]; [congruence|].
    destruct (alist_get h (w_nodes w)) as [nh|] eqn:GH; [|eapply IH; eassumption].
    destruct (run_inputs (w_g w) h (wn_mapped nh) (wn_pending nh)) as [[g' m'] [e|]] eqn:R; [discriminate|].
    set (w1 := w_set_nodes (alist_set h (mkWN [] m' (wn_static nh)) (w_nodes w)) (w_set_g g' w)) in *.
    assert (G1 : alist_get k (w_nodes w1) = Some n).
    { unfold w1. simpl. rewrite alist_get_set_other by congruence. exact G. }
    assert (AG : agree_on k (w_g w) (w_g w1)) by (unfold w1; simpl; eapply other_inputs; [|exact R]; assumption).
    rewrite (IH w1 w' k n H G1 I).
    (* node k succeeds in w1 (the whole phase succeeded), hence in w, with the same result *)
    assert (OK1 : snd (run_inputs (w_g w1) k (wn_mapped n) (wn_pending n)) = None).
    { assert (Q : snd (run_nodes w1 rest) = None) by (rewrite H; reflexivity).
      pose proof (proj1 (run_nodes_ok_iff rest w1) Q k I) as ND. unfold nd_ok in ND. rewrite G1 in ND. exact ND. }
    rewrite (mres_agree k (w_g w1) (w_g w) n (agree_sym _ _ _ AG) OK1). reflexivity.
Qed.

(* ---- the static values stage: node-local *)
Definition st_ok (w : wstate) (k : string) : Prop :=
  match alist_get k (w_nodes w) with
  | None => True
  | Some n => wn_static n = [] \/
              (g_compiled (w_g w) = false /\ snd (check_mapped (wn_mapped n) (wn_static n)) = None)
  end.

Theorem run_statics_ok_iff : forall L w, snd (run_statics fixed w L) = None <-> forall k, In k L -> st_ok w k.
Proof.
  induction L as [|k rest IH]; intros w; simpl.
  - split; [intros _ k []|reflexivity].
  - destruct (alist_get k (w_nodes w)) as [n|] eqn:G.
    + destruct (wn_static n) as [|f fs] eqn:ST.
      * rewrite IH. split; intros H k' K.
        -- destruct K as [K|K]; [subst; unfold st_ok; rewrite G; left; assumption|auto].
        -- apply H. right; assumption.
      * destruct (g_compiled (w_g w)) eqn:C; simpl.
        -- split; [discriminate|]. intros H. specialize (H k (or_introl eq_refl)). unfold st_ok in H.
           rewrite G, ST, C in H. destruct H as [H|[H _]]; discriminate.
        -- destruct (check_mapped (wn_mapped n) (f :: fs)) as [m' [e|]] eqn:CM; simpl.
           ++ split; [discriminate|]. intros H. specialize (H k (or_introl eq_refl)). unfold st_ok in H.
              rewrite G, ST, CM in H. destruct H as [H|[_ H]]; discriminate.
           ++ set (w1 := w_set_nodes (alist_set k (mkWN (wn_pending n) m' []) (w_nodes w))
                           (w_set_g (set_h_prenode (static_handlers (w_g w) k) (w_g w)) w)).
              rewrite (IH w1).
              assert (EQ : forall k', st_ok w1 k' <-> st_ok w k').
              { intros k'. unfold st_ok. destruct (String.eqb k' k) eqn:X.
                - apply String.eqb_eq in X; subst k'. unfold w1. simpl. rewrite alist_get_set_same, G, ST, CM. simpl.
                  split; intros _; [right; split; [assumption|reflexivity]|left; reflexivity].
                - apply String.eqb_neq in X. unfold w1. simpl. rewrite (alist_get_set_other k' k _ _ X). tauto. }
              split.
              ** intros H k' [K|K]; [subst; unfold st_ok; rewrite G, ST, CM; right; auto|apply EQ; apply H; assumption].
              ** intros H k' K. apply EQ. apply H. right; assumption.
    + rewrite IH. split.
      * intros H k' [K|K]; [subst; unfold st_ok; rewrite G; exact I|auto].
      * intros H k' K. apply H. right; assumption.
Qed.

(* it only touches the pre-node handlers of the graph *)
Lemma set_prenode_twice : forall a b g, set_h_prenode a (set_h_prenode b g) = set_h_prenode a g.
Proof. intros a b []; reflexivity. Qed.

Lemma run_statics_graph : forall L w, exists x, w_g (fst (run_statics fixed w L)) = set_h_prenode x (w_g w).
Proof.
  induction L as [|k rest IH]; intros w; simpl.
  - exists (g_h_prenode (w_g w)). destruct (w_g w); reflexivity.
  - assert (Z : exists x, w_g w = set_h_prenode x (w_g w)) by (exists (g_h_prenode (w_g w)); destruct (w_g w); reflexivity).
    destruct (alist_get k (w_nodes w)) as [n|]; [|apply IH].
    destruct (wn_static n) as [|f fs]; [apply IH|]. dif; [exact Z|].
    destruct (check_mapped (wn_mapped n) (f :: fs)) as [m' [e|]]; [exact Z|].
    match goal with |- context[run_statics fixed ?W rest] => destruct (IH W) as [x E] end.
    exists x. rewrite E. simpl. apply set_prenode_twice.
Qed.

Lemma compile_ok_prenode : forall x g o, compile_ok (set_h_prenode x g) o = compile_ok g o.
Proof. intros x [] o. reflexivity. Qed.

(* accept / reject of Workflow.compile is the same for every pair of visiting orders *)
Theorem w_compile_order_independent : forall w o ord1 sord1 ord2 sord2,
  wf_ok w ->
  is_compiled (snd (w_compile fixed w o ord1 sord1)) = is_compiled (snd (w_compile fixed w o ord2 sord2)).
Proof.
  intros w o ord1 sord1 ord2 sord2 OK. unfold w_compile. destruct (g_err (w_g w)); [reflexivity|].
  pose proof (wf_ok_run_branches (w_branches w) w OK) as OK1.
  destruct (run_branches fixed w (w_branches w)) as [w1 [out|]]; [reflexivity|]. simpl in OK1.
  set (L1 := ord1 ++ map fst (w_nodes w1)). set (L2 := ord2 ++ map fst (w_nodes w1)).
  assert (C1 : forall k, In k (map fst (w_nodes w1)) -> In k L1) by (intros k K; apply in_or_app; right; exact K).
  assert (C2 : forall k, In k (map fst (w_nodes w1)) -> In k L2) by (intros k K; apply in_or_app; right; exact K).
  assert (V : snd (run_nodes w1 L1) = None <-> snd (run_nodes w1 L2) = None).
  { rewrite !run_nodes_ok_iff. split; intros H k K.
    - destruct (alist_get k (w_nodes w1)) as [n|] eqn:G.
      + apply H. apply C1. eapply alist_get_in_keys; eassumption.
      + unfold nd_ok. rewrite G. exact I.
    - destruct (alist_get k (w_nodes w1)) as [n|] eqn:G.
      + apply H. apply C2. eapply alist_get_in_keys; eassumption.
      + unfold nd_ok. rewrite G. exact I. }
  destruct (run_nodes w1 L1) as [w21 [e1|]] eqn:R1; destruct (run_nodes w1 L2) as [w22 [e2|]] eqn:R2; simpl in V.
  - reflexivity.
  - destruct V as [_ V]. specialize (V eq_refl). discriminate.
  - destruct V as [V _]. specialize (V eq_refl). discriminate.
  - pose proof (node_phases_same_to_compile w1 L1 L2 w21 w22 OK1 C1 C2 R1 R2) as S.
    assert (I1 : ginv (w_g w21)).
    { pose proof (lwinv_run_nodes ginv ginv_add_edge L1 w1 (wo_ginv _ OK1)) as X. rewrite R1 in X. exact X. }
    assert (I2 : ginv (w_g w22)).
    { pose proof (lwinv_run_nodes ginv ginv_add_edge L2 w1 (wo_ginv _ OK1)) as X. rewrite R2 in X. exact X. }
    assert (F1 : fm_nodup (w_g w21)).
    { pose proof (lwinv_run_nodes fm_nodup fm_nodup_add_edge L1 w1 (wo_fm _ OK1)) as X. rewrite R1 in X. exact X. }
    assert (F2 : fm_nodup (w_g w22)).
    { pose proof (lwinv_run_nodes fm_nodup fm_nodup_add_edge L2 w1 (wo_fm _ OK1)) as X. rewrite R2 in X. exact X. }
    (* the two node tables agree key by key *)
    assert (NK : forall k, alist_get k (w_nodes w21) = alist_get k (w_nodes w22)).
    { intros k. destruct (alist_get k (w_nodes w1)) as [n|] eqn:G.
      - rewrite (run_nodes_final_node L1 w1 w21 k n R1 G (C1 k (alist_get_in_keys _ _ _ G))).
        rewrite (run_nodes_final_node L2 w1 w22 k n R2 G (C2 k (alist_get_in_keys _ _ _ G))). reflexivity.
      - (* a key without a node: alist_set never creates one for another key *)
        assert (Z : forall L w w', run_nodes w L = (w', None) -> alist_get k (w_nodes w) = None -> alist_get k (w_nodes w') = None).
        { induction L as [|h rest IH]; intros w0 w' H N0; simpl in H; [inversion H; subst; assumption|].
          destruct (alist_get h (w_nodes w0)) as [nh|] eqn:GH; [|eapply IH; eassumption].
          destruct (run_inputs (w_g w0) h (wn_mapped nh) (wn_pending nh)) as [[g' m'] [e|]]; [discriminate|].
          eapply IH; [exact H|]. simpl. rewrite alist_get_set_other; [assumption|]. intros C; subst. congruence. }
        rewrite (Z L1 w1 w21 R1 G), (Z L2 w1 w22 R2 G). reflexivity. }
    assert (CC : g_compiled (w_g w21) = g_compiled (w_g w22)).
    { pose proof (run_nodes_effect _ _ _ R1) as E1. pose proof (run_nodes_effect _ _ _ R2) as E2.
      rewrite (se_compiled _ _ _ E1), (se_compiled _ _ _ E2). reflexivity. }
    assert (K1 : map fst (w_nodes w21) = map fst (w_nodes w1) /\ map fst (w_nodes w22) = map fst (w_nodes w1)).
    { assert (Z : forall L w w' r, run_nodes w L = (w', r) -> map fst (w_nodes w') = map fst (w_nodes w)).
      { induction L as [|h rest IH]; intros w0 w' r H; simpl in H; [inversion H; subst; reflexivity|].
        destruct (alist_get h (w_nodes w0)) as [nh|] eqn:GH; [|eapply IH; eassumption].
        destruct (run_inputs (w_g w0) h (wn_mapped nh) (wn_pending nh)) as [[g' m'] [e|]].
        - inversion H; subst. simpl. apply (set_keys h _ nh _ GH).
        - rewrite (IH _ _ _ H). simpl. apply (set_keys h _ nh _ GH). }
      split; eapply Z; eassumption. }
    destruct K1 as [K1 K2].
    set (M1 := sord1 ++ map fst (w_nodes w21)). set (M2 := sord2 ++ map fst (w_nodes w22)).
    assert (SV : snd (run_statics fixed w21 M1) = None <-> snd (run_statics fixed w22 M2) = None).
    { rewrite !run_statics_ok_iff.
      assert (ST : forall k, st_ok w21 k <-> st_ok w22 k).
      { intros k. unfold st_ok. rewrite (NK k), CC. tauto. }
      split; intros H k K.
      - destruct (alist_get k (w_nodes w22)) as [n|] eqn:G; [|unfold st_ok; rewrite G; exact I].
        apply ST. apply H. apply in_or_app. right. rewrite K1, <- K2. eapply alist_get_in_keys; eassumption.
      - destruct (alist_get k (w_nodes w21)) as [n|] eqn:G; [|unfold st_ok; rewrite G; exact I].
        apply ST. apply H. apply in_or_app. right. rewrite K2, <- K1. eapply alist_get_in_keys; eassumption. }
    destruct (run_statics_graph M1 w21) as [x1 G1]. destruct (run_statics_graph M2 w22) as [x2 G2].
    destruct (run_statics fixed w21 M1) as [w31 [e1|]] eqn:S1; destruct (run_statics fixed w22 M2) as [w32 [e2|]] eqn:S2; simpl in SV, G1, G2.
    + reflexivity.
    + destruct SV as [_ SV]. specialize (SV eq_refl). discriminate.
    + destruct SV as [SV _]. specialize (SV eq_refl). discriminate.
    + pose proof (compile_ok_eq (w_g w21) (w_g w22) o I1 I2 F1 F2 S) as E.
      rewrite <- (compile_ok_prenode x1 (w_g w21) o), <- (compile_ok_prenode x2 (w_g w22) o) in E.
      rewrite <- G1, <- G2 in E. rewrite <- !g_compile_verdict in E.
      destruct (g_compile fixed (w_g w31) o) as [ga oa]. destruct (g_compile fixed (w_g w32) o) as [gb ob]. exact E.
Qed.

(* every reachable Workflow state satisfies the side conditions *)
Theorem reachable_wf_ok : forall st cs, wf_ok (final (wstep fixed) (w_init st) cs).
Proof.
  intros st cs. split.
  - apply reachable_ginv.
  - apply reachable_pinv.
  - apply (run_keeps (wstep fixed) (fun w => fm_nodup (w_g w))); [|constructor].
    intros s c H. apply (lwinv_wstep fm_nodup fm_nodup_add_node fm_nodup_add_edge fm_nodup_add_branch fm_nodup_compile fm_nodup_set_err fm_nodup_set_prenode). exact H.
  - apply (run_keeps (wstep fixed) wn_nodup); [|constructor].
    intros s c H. apply wn_nodup_wstep. exact H.
Qed.

(* non-vacuity: two nodes whose deferred errors differ; the class depends on the order,
   the rejection does not *)
Definition two_failing : list wcall :=
  [ WAddNode "a" NLambda false; WAddNode "b" NLambda false;
    WAddInput "a" START WNormal []; WAddInput "a" "ghost" WDepOnly [];
    WAddInput "b" "a" WNormal []; WAddInput "b" START WNormal [];
    WAddInput END_ "b" WNormal [] ].

Lemma two_failing_orders :
  let w := final (wstep fixed) (w_init false) two_failing in
  snd (w_compile fixed w opt_default ["a"] []) = OErr EEdgeStartUnknown /\
  snd (w_compile fixed w opt_default ["b"] []) = OErr EMapped.
Proof. vm_compute. split; reflexivity. Qed.

(* ================================================================== 8. static values after a Compile (F-C20e) *)
(* a static value set after a successful Compile is not applied by the next Compile: it fails *)
Theorem static_after_compile_refused : forall w o ord sord k n,
  g_compiled (w_g w) = true -> alist_get k (w_nodes w) = Some n -> wn_static n <> [] ->
  is_err (snd (w_compile fixed w o ord sord)).
Proof.
  intros w o ord sord k n C G ST. unfold w_compile. destruct (g_err (w_g w)) eqn:E; [eexists; reflexivity|].
  destruct (frozen_run_branches (w_branches w) w C) as [_ [B2 B3]].
  pose proof (run_branches_nodes fixed (w_branches w) w) as BN.
  destruct (run_branches fixed w (w_branches w)) as [w1 [out|]] eqn:B; simpl in *.
  - eapply run_branches_stop_is_err; eassumption.
  - specialize (B3 eq_refl).
    assert (E1 : g_err (w_g w1) = None) by (rewrite B3; assumption).
    pose proof (frozen_run_nodes (ord ++ map fst (w_nodes w1)) w1 B2 E1) as FR.
    destruct (run_nodes w1 (ord ++ map fst (w_nodes w1))) as [w2 [er|]] eqn:R; simpl in *; [eexists; reflexivity|].
    assert (G1 : alist_get k (w_nodes w1) = Some n) by (rewrite BN; exact G).
    assert (IK : In k (ord ++ map fst (w_nodes w1))).
    { apply in_or_app. right. eapply alist_get_in_keys; eassumption. }
    pose proof (run_nodes_final_node _ _ _ _ _ R G1 IK) as G2.
    assert (C2 : g_compiled (w_g w2) = true) by (rewrite FR; assumption).
    destruct (run_statics fixed w2 (sord ++ map fst (w_nodes w2))) as [w3 [er|]] eqn:S; simpl; [eexists; reflexivity|].
    exfalso.
    assert (Q : snd (run_statics fixed w2 (sord ++ map fst (w_nodes w2))) = None) by (rewrite S; reflexivity).
    assert (IK2 : In k (sord ++ map fst (w_nodes w2))).
    { apply in_or_app. right. eapply alist_get_in_keys; eassumption. }
    pose proof (proj1 (run_statics_ok_iff _ w2) Q k IK2) as OKK. unfold st_ok in OKK. rewrite G2 in OKK. simpl in OKK.
    destruct OKK as [X|[X _]]; [contradiction|congruence].
Qed.

Definition static_after_compile : list wcall :=
  [ WAddNode "a" NLambda false; WAddInput "a" START WNormal ["A"]; WAddInput END_ "a" WNormal [];
    WCompile opt_default [] []; WSetStatic "a" "B"; WCompile opt_default [] [] ].

Lemma static_after_compile_v0 :
  match snd (run_calls (wstep v0) (w_init false) static_after_compile) with
  | [OOk; OOk; OOk; OCompiled r1; OOk; OCompiled r2] => r_prenode r1 = None /\ True
  | _ => False
  end.
Proof. vm_compute. split; [reflexivity|exact I]. Qed.

Lemma static_after_compile_fixed :
  match snd (run_calls (wstep fixed) (w_init false) static_after_compile) with
  | [OOk; OOk; OOk; OCompiled _; OOk; OErr ECompiled] => True
  | _ => False
  end.
Proof. vm_compute. exact I. Qed.

Lemma static_after_compile_v0_false :
  ~ (forall w o ord sord k n, g_compiled (w_g w) = true -> alist_get k (w_nodes w) = Some n -> wn_static n <> [] ->
       is_err (snd (w_compile v0 w o ord sord))).
Proof.
  intros H.
  remember (final (wstep v0) (w_init false)
              [WAddNode "a" NLambda false; WAddInput "a" START WNormal ["A"]; WAddInput END_ "a" WNormal [];
               WCompile opt_default [] []; WSetStatic "a" "B"]) as w eqn:Ew.
  vm_compute in Ew.
  assert (X : is_err (snd (w_compile v0 w opt_default [] []))).
  { apply (H w opt_default [] [] "a" (mkWN [] (MFields ["A"]) ["B"])); subst w; try reflexivity. discriminate. }
  subst w. vm_compute in X. destruct X as [e X]. discriminate X.
Qed.
