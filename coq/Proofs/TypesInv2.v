(* Proofs/TypesInv2.v — two more invariants of the construction state machine, needed for the
   "exactly when" direction of the run-time check on may-assignable connections:
   every converter on an edge asserts the input type of that edge's end node, and the
   converter list of a branch holds nothing but the branch's own condition type.
   Also the "shape" lemmas: what a successful AddEdge / AddBranch did. *)
From Eino Require Import Base.Util Model.Types Model.TypeBuilder Proofs.TypesLattice Proofs.TypesBuilder.
From Coq Require Import Lia.
Arguments check_assignable : simpl never.

Section I2.
  Variable u : univ.

  Definition hedge_ok (st : gstate) : Prop :=
    forall s e c, In (s, e, c) (g_hedge st) -> in_ty st e = Some c.
  Definition conv_ok (st : gstate) : Prop :=
    forall s b, In (s, b) (g_branches st) -> forall t, In t (b_conv b) -> t = b_ty b.

  Lemma hedge_ok_ext_same : forall st st',
    ext st st' -> g_hedge st' = g_hedge st -> hedge_ok st -> hedge_ok st'.
  Proof.
    intros st st' X E H s e c Hin. rewrite E in Hin. eapply ext_in_ty; [exact X|]. apply H with (s := s); exact Hin.
  Qed.

  Lemma hedge_ok_same_core : forall st st', same_core st st' -> hedge_ok st -> hedge_ok st'.
  Proof.
    intros st st' SC. apply hedge_ok_ext_same; [apply same_core_ext; exact SC|].
    destruct SC as [_ [_ [_ [_ [_ [_ [A _]]]]]]]. exact A.
  Qed.

  Lemma process_entry_hedge : forall st s e st',
    nodes_ok st -> ends_ok st (s, e) -> hedge_ok st ->
    process_entry u st s e = PDone st' -> hedge_ok st'.
  Proof.
    intros st s e st' NO HE HO H.
    destruct (process_entry_done u st s e st' NO HE H) as [X _].
    unfold process_entry, process_types in H.
    destruct (out_ty st s) as [ta|] eqn:Oa; destruct (in_ty st e) as [tb|] eqn:Ib.
    - destruct (check_assignable u (Some ta) (Some tb)) eqn:C; inversion H; subst st'; clear H.
      + exact HO.
      + intros s0 e0 c Hin. simpl in Hin. apply in_app_or in Hin. destruct Hin as [Hin|[Hin|[]]].
        * change (in_ty st e0 = Some c). apply HO with (s := s0); exact Hin.
        * inversion Hin; subst. exact Ib.
    - inversion H; subst st'. eapply hedge_ok_ext_same; [exact X | reflexivity | exact HO].
    - inversion H; subst st'. eapply hedge_ok_ext_same; [exact X | reflexivity | exact HO].
    - discriminate.
  Qed.

  Lemma pass_hedge : forall todo st st' kept ch,
    nodes_ok st -> (forall p, In p todo -> ends_ok st p) -> hedge_ok st ->
    pass u st todo = Some (st', kept, ch) -> hedge_ok st'.
  Proof.
    induction todo as [|[s e] rest IH]; intros st st' kept ch NO HE HO H; simpl in H.
    - inversion H; subst; exact HO.
    - destruct (process_entry u st s e) as [|st1|] eqn:PE.
      + destruct (pass u st rest) as [[[st2 k2] c2]|] eqn:PR; [|discriminate].
        inversion H; subst. eapply IH; [exact NO | | exact HO | exact PR].
        intros p Hp; apply HE; right; exact Hp.
      + destruct (process_entry_done u st s e st1 NO (HE _ (or_introl eq_refl)) PE) as [X1 [NO1 _]].
        destruct (pass u st1 rest) as [[[st2 k2] c2]|] eqn:PR; [|discriminate].
        inversion H; subst. eapply IH; [exact NO1 | | | exact PR].
        * intros p Hp. eapply ext_ends_ok; [exact X1|]. apply HE; right; exact Hp.
        * eapply process_entry_hedge with (st := st); [exact NO | apply HE; left; reflexivity | exact HO | exact PE].
      + discriminate.
  Qed.

  Lemma update_hedge : forall fuel orc n st st',
    good st -> hedge_ok st -> update u fuel orc n st = UOk st' -> hedge_ok st'.
  Proof.
    induction fuel as [|f IH]; intros orc n st st' [NO HE] HO H; simpl in H; [discriminate|].
    destruct (pass u st (group_order (orc n) (g_tvm st))) as [[[st1 kept] ch]|] eqn:P; [|discriminate].
    assert (HE' : forall p, In p (group_order (orc n) (g_tvm st)) -> ends_ok st p).
    { intros p Hp. apply In_group_order in Hp. apply HE; exact Hp. }
    destruct (pass_spec u _ _ _ _ _ NO HE' P) as [X [NO1 [TV [Hk [Hi _]]]]].
    pose proof (pass_hedge _ _ _ _ _ NO HE' HO P) as HO1.
    assert (G1 : good (set_tvm st1 kept)).
    { split.
      - intros k nd; apply NO1.
      - simpl. intros p Hp. apply Hi in Hp. apply In_group_order in Hp.
        eapply ext_ends_ok; [eapply ext_trans; [exact X | apply ext_set_tvm]|]. apply HE; exact Hp. }
    assert (HO1' : hedge_ok (set_tvm st1 kept)) by exact HO1.
    destruct ch.
    - eapply IH; eauto.
    - inversion H; subst; exact HO1'.
  Qed.

  (* ---- what a call did *)

  Lemma add_edge_shape : forall orc st s e st' ok,
    add_edge u false orc st s e = (st', ok) ->
    (ok = false /\ (st' = st \/ st' = set_err st)) \/
    (ok = true /\ g_err st = false /\ g_compiled st = false /\
     (has_node st s = true \/ s = kSTART) /\ (has_node st e = true \/ e = kEND) /\
     s <> kEND /\ e <> kSTART /\
     mem_pair (s, e) (g_ctrl st) = false /\ mem_pair (s, e) (g_data st) = false /\
     let st1 := mark_ends (set_ctrl st (g_ctrl st ++ [(s, e)])) s e in
     exists st2, update_tvm u (orc 0%nat) (set_tvm st1 (g_tvm st1 ++ [(s, e)])) = UOk st2 /\
                 st' = set_data st2 (g_data st2 ++ [(s, e)])).
  Proof.
    intros orc st s e st' ok H. unfold add_edge in H.
    destruct (g_err st); [inversion H; subst; left; auto|].
    destruct (g_compiled st); [inversion H; subst; left; auto|].
    destruct (N.eqb_spec s kEND); [inversion H; subst; left; auto|].
    destruct (N.eqb_spec e kSTART); [inversion H; subst; left; auto|].
    destruct (negb (has_node st s) && negb (N.eqb s kSTART)) eqn:Hs; [inversion H; subst; left; auto|].
    destruct (negb (has_node st e) && negb (N.eqb e kEND)) eqn:He; [inversion H; subst; left; auto|].
    destruct (mem_pair (s, e) (g_ctrl st)) eqn:MC; [inversion H; subst; left; auto|].
    apply has_or in Hs. apply has_or in He.
    set (st1 := mark_ends (set_ctrl st (g_ctrl st ++ [(s, e)])) s e) in *.
    change (g_data st1) with (g_data st) in H.
    destruct (mem_pair (s, e) (g_data st)) eqn:MD; [inversion H; subst; left; auto|].
    unfold update_sel in H.
    destruct (update_tvm u (orc 0%nat) (set_tvm st1 (g_tvm st1 ++ [(s, e)]))) as [st2| |] eqn:U;
      [|inversion H; subst; left; auto|inversion H; subst; left; auto].
    inversion H; subst st' ok. right. repeat (split; [solve [auto]|]). exists st2. auto.
  Qed.

  Lemma add_edge_hedge : forall orc st s e st' ok,
    inv u st -> hedge_ok st -> add_edge u false orc st s e = (st', ok) -> hedge_ok st'.
  Proof.
    intros orc st s e st' ok I HO H.
    destruct (add_edge_shape _ _ _ _ _ _ H) as [[_ [E|E]]|[_ [_ [_ [Hs [He [_ [_ [_ [_ Q]]]]]]]]]].
    - subst; exact HO.
    - subst; exact HO.
    - simpl in Q. destruct Q as [st2 [U E]]. subst st'.
      set (st1 := mark_ends (set_ctrl st (g_ctrl st ++ [(s, e)])) s e) in *.
      assert (SC : same_core st st1) by (unfold same_core, st1; simpl; repeat split; reflexivity).
      pose proof (same_core_inv u _ _ SC I) as I1.
      assert (G1 : good (set_tvm st1 (g_tvm st1 ++ [(s, e)]))).
      { split.
        - exact (inv_nodes _ _ I1).
        - simpl. intros p Hp. apply in_app_or in Hp. destruct Hp as [Hp|[Hp|[]]].
          + apply (inv_tvm _ _ I1 p Hp).
          + subst p. split; simpl; auto. }
      assert (HO1 : hedge_ok (set_tvm st1 (g_tvm st1 ++ [(s, e)]))).
      { change (hedge_ok st1). eapply hedge_ok_same_core; eauto. }
      pose proof (update_hedge _ _ _ _ _ G1 HO1 U) as HO2. exact HO2.
  Qed.

  Lemma branch_ends_hedge : forall ends orc j st s st',
    good st -> (has_node st s = true \/ s = kSTART) -> hedge_ok st ->
    branch_ends u false orc j st s ends = Some st' -> hedge_ok st'.
  Proof.
    induction ends as [|e rest IH]; intros orc j st s st' G Hs HO H; simpl in H.
    - inversion H; subst; exact HO.
    - destruct (negb (has_node st e) && negb (N.eqb e kEND)) eqn:He; [discriminate|].
      apply has_or in He.
      set (sta := set_tvm st (g_tvm st ++ [(s, e)])) in *.
      unfold update_sel in H.
      destruct (update_tvm u (orc (S j)) sta) as [st1| |] eqn:U; [|discriminate|discriminate].
      assert (Ga : good sta).
      { split; [exact (proj1 G)|]. unfold sta; simpl. intros p Hp. apply in_app_or in Hp.
        destruct Hp as [Hp|[Hp|[]]]; [apply (proj2 G p Hp)|]. subst p. split; simpl; auto. }
      destruct (update_tvm_spec u _ _ _ Ga U) as [X1 [G1 _]].
      assert (HOa : hedge_ok sta) by exact HO.
      pose proof (update_hedge _ _ _ _ _ Ga HOa U) as HO1.
      set (stb := mark_ends st1 s e) in *.
      assert (SC : same_core st1 stb) by (unfold same_core, stb; simpl; repeat split; reflexivity).
      eapply IH; [eapply good_same_core; eauto | | eapply hedge_ok_same_core; eauto | exact H].
      destruct Hs as [Hs|Hs]; [left|right; exact Hs].
      eapply ext_has_node; [apply same_core_ext; exact SC|].
      eapply ext_has_node; [exact X1|]. exact Hs.
  Qed.

  Lemma add_branch_shape : forall orc st s t ends choice st' ok,
    add_branch u false false false orc st s t ends choice = (st', ok) ->
    (ok = false /\ (st' = st \/ st' = set_err st)) \/
    (ok = true /\ g_err st = false /\ g_compiled st = false /\
     (has_node st s = true \/ s = kSTART) /\ s <> kEND /\ List.length ends <> 1%nat /\
     exists st1 a st2,
       branch_pre u false false false (fun n => orc 0%nat (S n)) st s t = UOk st1 /\
       out_ty st1 s = Some a /\ check_assignable u (Some a) (Some t) <> MustNot /\
       branch_ends u false orc 0 st1 s (order_keys (orc 0%nat 0%nat) ends) = Some st2 /\
       st' = set_branches st2 (g_branches st2 ++
               [(s, {| b_ty := t; b_ends := ends; b_choice := choice;
                       b_conv := match check_assignable u (Some a) (Some t) with May => [t] | _ => [] end |})])).
  Proof.
    intros orc st s t ends choice st' ok H. unfold add_branch in H.
    destruct (g_err st); [inversion H; subst; left; auto|].
    destruct (g_compiled st); [inversion H; subst; left; auto|].
    destruct (N.eqb_spec s kEND); [inversion H; subst; left; auto|].
    destruct (negb (has_node st s) && negb (N.eqb s kSTART)) eqn:Hs; [inversion H; subst; left; auto|].
    destruct (Nat.eqb_spec (List.length ends) 1); [inversion H; subst; left; auto|].
    apply has_or in Hs.
    destruct (branch_pre u false false false (fun n => orc 0%nat (S n)) st s t) as [st1| |] eqn:BP;
      [|inversion H; subst; left; auto|inversion H; subst; left; auto].
    destruct (out_ty st1 s) as [a|] eqn:Oa; [|rewrite check_none_l in H; inversion H; subst; left; auto].
    destruct (check_assignable u (Some a) (Some t)) eqn:C; [inversion H; subst; left; auto| |].
    - destruct (branch_ends u false orc 0 st1 s (order_keys (orc 0%nat 0%nat) ends)) as [st2|] eqn:BE;
        [|inversion H; subst; left; auto].
      inversion H; subst st' ok. right. repeat (split; [solve [auto]|]).
      exists st1, a, st2. rewrite C. repeat split; auto. discriminate.
    - destruct (branch_ends u false orc 0 st1 s (order_keys (orc 0%nat 0%nat) ends)) as [st2|] eqn:BE;
        [|inversion H; subst; left; auto].
      inversion H; subst st' ok. right. repeat (split; [solve [auto]|]).
      exists st1, a, st2. rewrite C. repeat split; auto. discriminate.
  Qed.

  Lemma branch_pre_hedge : forall orc st s t st1,
    good st -> hedge_ok st -> branch_pre u false false false orc st s t = UOk st1 -> hedge_ok st1.
  Proof.
    intros orc st s t st1 G HO H. unfold branch_pre in H.
    destruct (negb (N.eqb s kSTART) && is_pass st s &&
              (false || match out_ty st s with None => true | Some _ => false end)) eqn:C.
    - apply andb_true_iff in C. destruct C as [_ C]. simpl in C.
      destruct (out_ty st s) eqn:O; [discriminate|].
      pose proof (out_none_in_none st s (proj1 G) O) as Is.
      pose proof (set_pass_ty_ext st s t (proj1 G) Is) as X0.
      assert (G0 : good (set_pass_ty st s t)).
      { split; [apply set_pass_ty_nodes_ok; [exact (proj1 G) | exact Is]|].
        intros p Hp. eapply ext_ends_ok; [exact X0|]. apply (proj2 G). exact Hp. }
      unfold update_sel, update_tvm in H.
      eapply update_hedge; [exact G0 | | exact H].
      eapply hedge_ok_ext_same; [exact X0 | reflexivity | exact HO].
    - inversion H; subst; exact HO.
  Qed.

  Lemma add_branch_hedge : forall orc st s t ends choice st' ok,
    inv u st -> hedge_ok st -> add_branch u false false false orc st s t ends choice = (st', ok) -> hedge_ok st'.
  Proof.
    intros orc st s t ends choice st' ok I HO H.
    destruct (add_branch_shape _ _ _ _ _ _ _ _ H) as [[_ [E|E]]|[_ [_ [_ [Hs [_ [_ Q]]]]]]].
    - subst; exact HO.
    - subst; exact HO.
    - destruct Q as [st1 [a [st2 [BP [_ [_ [BE E]]]]]]]. subst st'.
      destruct (branch_pre_spec u _ _ _ _ _ (inv_good u _ I) BP) as [X1 [G1 _]].
      change (hedge_ok st2).
      eapply branch_ends_hedge; [exact G1 | | | exact BE].
      + destruct Hs as [Hs|Hs]; [left; eapply ext_has_node; eauto | right; exact Hs].
      + eapply branch_pre_hedge; [exact (inv_good u _ I) | exact HO | exact BP].
  Qed.

  (* ---- the branch list *)

  Lemma update_branches : forall fuel orc n st st',
    good st -> update u fuel orc n st = UOk st' -> g_branches st' = g_branches st.
  Proof.
    intros fuel orc n st st' G H. destruct (update_spec u _ _ _ _ _ G H) as [X _].
    apply (ext_branches _ _ X).
  Qed.

  Lemma add_edge_branches : forall orc st s e st' ok,
    inv u st -> add_edge u false orc st s e = (st', ok) -> g_branches st' = g_branches st.
  Proof.
    intros orc st s e st' ok I H.
    destruct (add_edge_shape _ _ _ _ _ _ H) as [[_ [E|E]]|[_ [_ [_ [Hs [He [_ [_ [_ [_ Q]]]]]]]]]].
    - subst; reflexivity.
    - subst; reflexivity.
    - simpl in Q. destruct Q as [st2 [U E]]. subst st'.
      set (st1 := mark_ends (set_ctrl st (g_ctrl st ++ [(s, e)])) s e) in *.
      assert (SC : same_core st st1) by (unfold same_core, st1; simpl; repeat split; reflexivity).
      pose proof (same_core_inv u _ _ SC I) as I1.
      assert (G1 : good (set_tvm st1 (g_tvm st1 ++ [(s, e)]))).
      { split.
        - exact (inv_nodes _ _ I1).
        - simpl. intros p Hp. apply in_app_or in Hp. destruct Hp as [Hp|[Hp|[]]].
          + apply (inv_tvm _ _ I1 p Hp).
          + subst p. split; simpl; auto. }
      unfold update_tvm in U. change (g_branches st2 = g_branches st).
      rewrite (update_branches _ _ _ _ _ G1 U). reflexivity.
  Qed.

  Lemma add_node_branches : forall st k isp i o pre post st' ok,
    add_node st k isp i o pre post = (st', ok) -> g_branches st' = g_branches st /\ g_hedge st' = g_hedge st.
  Proof.
    intros st k isp i o pre post st' ok H. unfold add_node in H.
    repeat match type of H with
           | (if ?c then _ else _) = _ => destruct c; [inversion H; subst; split; reflexivity|]
           end.
    inversion H; subst; split; reflexivity.
  Qed.

  Lemma compile_same : forall st st' ok,
    compile st = (st', ok) -> g_branches st' = g_branches st /\ g_hedge st' = g_hedge st /\ g_nodes st' = g_nodes st
                              /\ g_in st' = g_in st /\ g_out st' = g_out st.
  Proof.
    intros st st' ok H. unfold compile in H.
    repeat match type of H with
           | (if ?c then _ else _) = _ => destruct c; [inversion H; subst; repeat split; reflexivity|]
           end.
    destruct (g_tvm st); [|inversion H; subst; repeat split; reflexivity].
    destruct (existsb _ _); inversion H; subst; repeat split; reflexivity.
  Qed.

  Definition inv2 (st : gstate) : Prop := hedge_ok st /\ conv_ok st.

  Lemma inv2_init : forall i o s, inv2 (init_graph i o s).
  Proof. intros i o s; split; [intros a b c [] | intros a b []]. Qed.

  Lemma step_inv2 : forall orc st o st' ok,
    inv u st -> inv2 st -> step u orc st o = (st', ok) -> inv2 st'.
  Proof.
    intros orc st o st' ok I [HO CO] H.
    destruct o as [k i ot pre post|k pre post|s e|s t ends choice|]; simpl in H.
    - destruct (add_node_branches _ _ _ _ _ _ _ _ _ H) as [B Hh].
      destruct (add_node_spec u st k false (Some i) (Some ot) pre post st' ok I) as [_ X]; auto.
      { discriminate. } { intros _; eauto. }
      split; [eapply hedge_ok_ext_same; eauto|]. intros s b Hb. rewrite B in Hb. apply CO with (s := s); exact Hb.
    - destruct (add_node_branches _ _ _ _ _ _ _ _ _ H) as [B Hh].
      destruct (add_node_spec u st k true None None pre post st' ok I) as [_ X]; auto.
      { discriminate. }
      split; [eapply hedge_ok_ext_same; eauto|]. intros s b Hb. rewrite B in Hb. apply CO with (s := s); exact Hb.
    - split; [eapply add_edge_hedge; eauto|].
      intros s0 b Hb. rewrite (add_edge_branches _ _ _ _ _ _ I H) in Hb. apply CO with (s := s0); exact Hb.
    - split; [eapply add_branch_hedge; eauto|].
      destruct (add_branch_shape _ _ _ _ _ _ _ _ H) as [[_ [E|E]]|[_ [_ [_ [Hs [_ [_ Q]]]]]]].
      + subst; exact CO.
      + subst; exact CO.
      + destruct Q as [st1 [a [st2 [BP [_ [_ [BE E]]]]]]]. subst st'.
        destruct (branch_pre_spec u _ _ _ _ _ (inv_good u _ I) BP) as [X1 [G1 _]].
        assert (Hs1 : has_node st1 s = true \/ s = kSTART).
        { destruct Hs as [Hs|Hs]; [left; eapply ext_has_node; eauto | right; exact Hs]. }
        destruct (branch_ends_spec u _ _ _ _ _ _ G1 Hs1 BE) as [X2 _].
        intros s0 b Hb t0 Ht. simpl in Hb. apply in_app_or in Hb. destruct Hb as [Hb|[Hb|[]]].
        * rewrite (ext_branches _ _ X2), (ext_branches _ _ X1) in Hb. eapply CO; eauto.
        * inversion Hb; subst s0 b. simpl in *.
          destruct (check_assignable u (Some a) (Some t)); simpl in Ht; try tauto.
          destruct Ht as [Ht|[]]; auto.
    - destruct (compile_same _ _ _ H) as [B [Hh [Nn [Gi Go]]]]. split.
      + intros s e c Hin. rewrite Hh in Hin. specialize (HO s e c Hin).
        unfold in_ty, get_node in *. rewrite Gi, Go, Nn. exact HO.
      + intros s b Hb. rewrite B in Hb. apply CO with (s := s); exact Hb.
  Qed.

  Lemma run_ops_inv2 : forall ops orcs i st st' oks,
    inv u st -> inv2 st -> run_ops u orcs i st ops = (st', oks) -> inv2 st'.
  Proof.
    induction ops as [|o rest IH]; intros orcs i st st' oks I I2 H; unfold run_ops in *; simpl in H.
    - inversion H; subst; exact I2.
    - destruct (step_sel u false false false (orcs i) st o) as [st1 ok] eqn:Hs.
      destruct (run_ops_sel u false false false orcs (S i) st1 rest) as [st2 oks2] eqn:R.
      inversion H; subst st' oks; clear H.
      destruct (step_spec u _ _ _ _ _ I Hs) as [I1 _].
      eapply IH; [exact I1 | eapply step_inv2; [exact I | exact I2 | exact Hs] | exact R].
  Qed.

  Lemma reach_inv2 : forall orcs i o s ops st oks,
    run_ops u orcs 0 (init_graph i o s) ops = (st, oks) -> inv2 st.
  Proof.
    intros orcs i o s ops st oks H.
    eapply run_ops_inv2; [apply inv_init | apply inv2_init | exact H].
  Qed.
End I2.
