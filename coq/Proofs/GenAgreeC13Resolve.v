(* Proofs/GenAgreeC13Resolve.v — property C13: what tools/go2v (extractor "c13resolve") reads off
   runner.resolveInterruptCompletedTasks (Gen/C13Resolve.v: the verdict of the walk over the completed tasks
   for one task, translated path by path) IS what the model's step does with the tasks' errors:

     the task succeeded, or its error is an interrupt        the walk goes on (an interrupt is not a failure)
     (a sub-graph's interrupt / InterruptAndRerun on the chain)
     any other error                                         the run ends with wrap_node <the key of THAT task> <its error>

   for EVERY key and error value; hence the walk returns the FIRST failing task in completion order under its own
   key (gen_resolve_is_first_failure), and that error is one of the legal answers of the model's step whatever the
   completion order was (first_failure_is_legal: a member of the SFail set of [stage_fold]); when no task failed,
   the step is not a failure (no_failure_no_fail).  An edit that wraps with the key of another task (own mutants M2,
   H4), stops at the first interrupt (M17), treats an interrupt as a failure or a failure as an interrupt makes this
   file stop compiling. *)
From Eino Require Import Base.Util Model.Errors Model.ErrorsResolveLib Proofs.Errors.
From Eino Require Gen.C13Resolve.

Theorem gen_resolve_task_agrees : forall key0 key e,
  Gen.C13Resolve.resolve_task key0 key e = model_resolve_task key0 key e.
Proof.
  intros key0 key [ev|]; [|reflexivity].
  unfold Gen.C13Resolve.resolve_task, model_resolve_task, is_interrupt_task, go_is_sub_graph_interrupt.
  destruct (existsb is_subinterrupt_e (chain ev)); destruct (is_ (Leaf id_rerun) ev); reflexivity.
Qed.

Lemma resolve_from_model : forall k0 ts, resolve_from (model_resolve_task k0) ts = first_failure ts.
Proof.
  intros k0. induction ts as [|[k [e|]] r IH]; cbn; [reflexivity| |exact IH].
  destruct (is_interrupt_task e); [exact IH|reflexivity].
Qed.

Theorem gen_resolve_is_first_failure : forall ts,
  resolve_all Gen.C13Resolve.resolve_task ts = first_failure ts.
Proof.
  intros [|[k0 e0] r]; [reflexivity|]. unfold resolve_all.
  rewrite <- (resolve_from_model k0). 
  generalize ((k0, e0) :: r). induction l as [|[k e] l IH]; cbn; [reflexivity|].
  rewrite gen_resolve_task_agrees. destruct (model_resolve_task k0 k e); [exact IH|reflexivity|reflexivity].
Qed.

Definition as_step (ts : list (string * option err)) : list (string * nres) :=
  map (fun p => (fst p, task_res (snd p))) ts.

Lemma stage_fold_keeps_fails : forall ts items canc fails int,
  fails <> [] ->
  exists es, stage_fold (as_step ts) items canc fails int false = SFail es /\ incl fails es.
Proof.
  induction ts as [|[k [e|]] r IH]; intros items canc fails int Hne; cbn.
  - destruct fails; [congruence|]. eexists; split; [reflexivity|apply incl_refl].
  - destruct (IH items canc (fails ++ map (wrap_node k) (filter (fun e0 => negb (is_interrupt_task e0)) [e]))
                 (int || existsb is_interrupt_task [e])%bool) as [es [H1 H2]].
    + destruct fails; [congruence|discriminate].
    + exists es; split; [exact H1|]. intros x Hx. apply H2. apply in_or_app. left; exact Hx.
  - rewrite app_nil_r. apply IH; exact Hne.
Qed.

Lemma first_failure_is_legal_gen : forall ts items canc int x,
  first_failure ts = Some x ->
  exists es, stage_fold (as_step ts) items canc [] int false = SFail es /\ In x es.
Proof.
  induction ts as [|[k [e|]] r IH]; intros items canc int x H; cbn in H; [discriminate| |].
  - cbn [as_step map fst snd task_res stage_fold filter existsb].
    destruct (is_interrupt_task e) eqn:E; cbn [negb map app].
    + apply IH; exact H.
    + inversion H; subst.
      destruct (stage_fold_keeps_fails r items canc [wrap_node k e] (int || (false || false))%bool) as [es [H1 H2]]; [discriminate|].
      exists es; split; [exact H1|apply H2; left; reflexivity].
  - cbn [as_step map fst snd task_res stage_fold]. rewrite app_nil_r. apply IH; exact H.
Qed.

Theorem first_failure_is_legal : forall ts items canc x,
  first_failure ts = Some x ->
  exists es, stage_fold (as_step ts) items canc [] false false = SFail es /\ In x es.
Proof. intros. apply first_failure_is_legal_gen; assumption. Qed.

(* no task failed (successes and interrupts only): the step is not a failure *)
Theorem no_failure_no_fail : forall ts items canc int fuel,
  first_failure ts = None ->
  forall es, stage_fold (as_step ts) items canc [] int fuel <> SFail es.
Proof.
  induction ts as [|[k [e|]] r IH]; intros items canc int fuel H es; cbn in H.
  - cbn. destruct fuel; [discriminate|]. destruct int; discriminate.
  - cbn [as_step map fst snd task_res stage_fold filter existsb].
    destruct (is_interrupt_task e) eqn:E; [|discriminate]. cbn [negb map app]. apply IH; exact H.
  - cbn [as_step map fst snd task_res stage_fold]. rewrite app_nil_r. apply IH; exact H.
Qed.

(* the property's clause on the translated code: a completed task that failed with a non-interrupt error, all
   tasks before it having succeeded or interrupted, ends the run with its error under ITS key — the node is
   named first on the path, the error itself is what wrapGraphNodeError was given *)
Theorem gen_resolve_names_failing_task : forall before k e after,
  first_failure before = None -> is_interrupt_task e = false ->
  resolve_all Gen.C13Resolve.resolve_task (before ++ (k, Some e) :: after) = Some (wrap_node k e).
Proof.
  intros before k e after Hb He. rewrite gen_resolve_is_first_failure.
  induction before as [|[k' [e'|]] r IH]; cbn in *.
  - rewrite He. reflexivity.
  - destruct (is_interrupt_task e'); [apply IH; exact Hb|discriminate].
  - apply IH; exact Hb.
Qed.

(* non-vacuity: a success, an interrupt, then two failures — the first of them is reported under its key *)
Example gen_resolve_nonvacuous :
  resolve_all Gen.C13Resolve.resolve_task
    [("a"%string, None); ("b"%string, Some (Leaf id_rerun)); ("c"%string, Some (Leaf 0)); ("d"%string, Some (Leaf 1))]
  = Some (wrap_node "c" (Leaf 0)).
Proof. reflexivity. Qed.

(* own mutant M2: the key of the FIRST task of the list instead of the failing task's *)
Theorem resolve_first_key_refuted :
  let f := fun (key0 key : string) (e : option err) =>
             match e with Some ev => if is_interrupt_task ev then TVNext else TVFail (wrap_node key0 ev) | None => TVNext end in
  resolve_all f [("a"%string, None); ("c"%string, Some (Leaf 0))] = Some (wrap_node "a" (Leaf 0)).
Proof. reflexivity. Qed.

Print Assumptions gen_resolve_task_agrees.
Print Assumptions gen_resolve_is_first_failure.
Print Assumptions first_failure_is_legal.
Print Assumptions no_failure_no_fail.
Print Assumptions gen_resolve_names_failing_task.
