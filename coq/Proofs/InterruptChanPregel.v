(* Proofs/InterruptChanPregel.v — the Pregel channels of Model/Graph.v fold completed tasks
   compositionally and independently of their order: what Proofs/RunLoopRerun.v asks of the
   channel layer (owner: C05). *)
From Eino Require Import Base.Util Model.Graph Model.RunLoop Model.Interrupt Proofs.InterruptChan.
From Coq Require Import Permutation Sorted.
Open Scope N_scope.

#[local] Arguments c_ctrl {V} _.
#[local] Arguments c_data {V} _.
#[local] Arguments c_skipped {V} _.
#[local] Arguments c_vals {V} _.

(* ================= association lists with strictly increasing keys ================= *)
Definition ksorted {A} (l : list (N * A)) : Prop := StronglySorted N.lt (map fst l).

Lemma alookup_ainsert : forall (A : Type) (k k' : N) (a : A) (m : list (N * A)),
  alookup k' (ainsert k a m) = if N.eqb k' k then Some a else alookup k' m.
Proof.
  intros A k k' a m. induction m as [|[k0 a0] m IH]; simpl.
  - destruct (N.eqb k' k); reflexivity.
  - destruct (N.ltb k k0) eqn:Hlt; simpl.
    + destruct (N.eqb k' k); reflexivity.
    + destruct (N.eqb k k0) eqn:He; simpl.
      * apply N.eqb_eq in He; subst k0. destruct (N.eqb k' k); reflexivity.
      * rewrite IH. destruct (N.eqb k' k0) eqn:H0; auto.
        destruct (N.eqb k' k) eqn:H1; auto.
        apply N.eqb_eq in H0, H1. subst. rewrite N.eqb_refl in He. discriminate.
Qed.

Lemma ainsert_keys_in : forall (A : Type) (k : N) (a : A) (m : list (N * A)) k',
  In k' (map fst (ainsert k a m)) -> k' = k \/ In k' (map fst m).
Proof.
  intros A k a m. induction m as [|[k0 a0] m IH]; simpl; intros k' H.
  - destruct H as [H|[]]; auto.
  - destruct (N.ltb k k0); simpl in H.
    + destruct H as [H|[H|H]]; auto.
    + destruct (N.eqb k k0) eqn:He; simpl in H.
      * apply N.eqb_eq in He; subst. destruct H as [H|H]; auto.
      * destruct H as [H|H]; auto. destruct (IH _ H); auto.
Qed.

Lemma ainsert_sorted : forall (A : Type) (k : N) (a : A) (m : list (N * A)),
  ksorted m -> ksorted (ainsert k a m).
Proof.
  unfold ksorted. intros A k a m. induction m as [|[k0 a0] m IH]; simpl; intro Hs.
  - constructor; constructor.
  - inversion Hs as [|? ? Hs' Hall]; subst.
    destruct (N.ltb k k0) eqn:Hlt; simpl.
    + apply N.ltb_lt in Hlt. constructor; auto. constructor; auto.
      eapply Forall_impl; [|exact Hall]. intros x Hx. lia.
    + destruct (N.eqb k k0) eqn:He; simpl.
      * apply N.eqb_eq in He; subst. constructor; auto.
      * apply N.ltb_ge in Hlt. apply N.eqb_neq in He.
        constructor; auto. rewrite Forall_forall. intros x Hx.
        destruct (ainsert_keys_in _ _ _ _ _ Hx) as [->|Hin]; [lia|].
        rewrite Forall_forall in Hall. auto.
Qed.

Lemma alookup_none_lt : forall (A : Type) (k : N) (l : list (N * A)),
  Forall (N.lt k) (map fst l) -> alookup k l = None.
Proof.
  intros A k l. induction l as [|[k0 a0] l IH]; simpl; intro H; auto.
  inversion H; subst. destruct (N.eqb k k0) eqn:He; auto.
  apply N.eqb_eq in He; subst. lia.
Qed.

Lemma ksorted_ext : forall (A : Type) (l1 l2 : list (N * A)),
  ksorted l1 -> ksorted l2 -> (forall k, alookup k l1 = alookup k l2) -> l1 = l2.
Proof.
  unfold ksorted. intros A l1. induction l1 as [|[k1 a1] l1 IH]; intros [|[k2 a2] l2] H1 H2 He; auto.
  - specialize (He k2). simpl in He. rewrite N.eqb_refl in He. discriminate.
  - specialize (He k1). simpl in He. rewrite N.eqb_refl in He. discriminate.
  - simpl in H1, H2. inversion H1 as [|? ? H1' A1]; inversion H2 as [|? ? H2' A2]; subst.
    assert (Hk : k1 = k2).
    { destruct (N.lt_trichotomy k1 k2) as [Hlt|[Heq|Hgt]]; auto; exfalso.
      - pose proof (He k1) as H. simpl in H. rewrite N.eqb_refl in H.
        destruct (N.eqb k1 k2) eqn:E; [apply N.eqb_eq in E; lia|].
        rewrite alookup_none_lt in H; [discriminate|].
        eapply Forall_impl; [|exact A2]. intros; lia.
      - pose proof (He k2) as H. simpl in H. rewrite N.eqb_refl in H.
        destruct (N.eqb k2 k1) eqn:E; [apply N.eqb_eq in E; lia|].
        rewrite alookup_none_lt in H; [discriminate|].
        eapply Forall_impl; [|exact A1]. intros; lia. }
    subst k2.
    pose proof (He k1) as Hv. simpl in Hv. rewrite N.eqb_refl in Hv. inversion Hv; subst a2.
    f_equal. apply IH; auto. intros k. specialize (He k). simpl in He.
    destruct (N.eqb k k1) eqn:E; auto.
    apply N.eqb_eq in E; subst. rewrite !alookup_none_lt; auto.
Qed.

(* inserting a sequence of bindings *)
Definition ins {A} (m : list (N * A)) (kv : N * A) : list (N * A) := ainsert (fst kv) (snd kv) m.
Definition functional {A} (l : list (N * A)) : Prop := forall k v v', In (k, v) l -> In (k, v') l -> v = v'.

Lemma fold_ins_sorted : forall (A : Type) (l : list (N * A)) m, ksorted m -> ksorted (fold_left ins l m).
Proof. induction l as [|[k v] l IH]; simpl; intros m H; auto. apply IH. apply ainsert_sorted; auto. Qed.

Lemma fold_ins_other : forall (A : Type) (l : list (N * A)) m k,
  ~ In k (map fst l) -> alookup k (fold_left ins l m) = alookup k m.
Proof.
  induction l as [|[k0 v0] l IH]; simpl; intros m k Hn; auto.
  rewrite IH by tauto. unfold ins; simpl. rewrite alookup_ainsert.
  destruct (N.eqb k k0) eqn:E; auto. apply N.eqb_eq in E; subst. tauto.
Qed.

Lemma in_map_fst : forall (A : Type) (l : list (N * A)) k, In k (map fst l) -> exists v, In (k, v) l.
Proof.
  induction l as [|[k0 v0] l IH]; simpl; intros k H; [destruct H|].
  destruct H as [->|H]; eauto. destruct (IH _ H) as [v Hv]; eauto.
Qed.

Lemma fold_ins_in : forall (A : Type) (l : list (N * A)) m k v,
  functional l -> In (k, v) l -> alookup k (fold_left ins l m) = Some v.
Proof.
  induction l as [|[k0 v0] l IH]; simpl; intros m k v Hf Hin; [destruct Hin|].
  assert (Hf' : functional l) by (intros a b b' H1 H2; eapply Hf; right; eauto).
  destruct (in_dec N.eq_dec k (map fst l)) as [Hk|Hk].
  - destruct (in_map_fst _ _ _ Hk) as [v' Hv'].
    assert (v' = v) by (eapply Hf; [right; exact Hv'|exact Hin]). subst v'.
    apply IH; auto.
  - destruct Hin as [Heq|Hin]; [|exfalso; apply Hk; apply (in_map fst) in Hin; exact Hin].
    inversion Heq; subst. rewrite fold_ins_other by assumption.
    unfold ins; simpl. rewrite alookup_ainsert, N.eqb_refl. reflexivity.
Qed.

Lemma fold_ins_perm : forall (A : Type) (l1 l2 : list (N * A)) m,
  ksorted m -> functional l1 -> Permutation l1 l2 -> fold_left ins l1 m = fold_left ins l2 m.
Proof.
  intros A l1 l2 m Hs Hf Hp. apply ksorted_ext; try apply fold_ins_sorted; auto.
  assert (Hf2 : functional l2).
  { intros k v v' H1 H2. eapply Hf; eapply Permutation_in; try apply Permutation_sym; eauto. }
  intro k. destruct (in_dec N.eq_dec k (map fst l1)) as [Hk|Hk].
  - destruct (in_map_fst _ _ _ Hk) as [v Hv].
    rewrite (fold_ins_in _ l1 m k v Hf Hv).
    rewrite (fold_ins_in _ l2 m k v Hf2 (Permutation_in _ Hp Hv)). reflexivity.
  - rewrite fold_ins_other by assumption. rewrite fold_ins_other; auto.
    intro H. apply Hk. eapply Permutation_in; [|exact H]. apply Permutation_map. apply Permutation_sym; auto.
Qed.

Lemma sorted_nodup : forall l : list N, StronglySorted N.lt l -> NoDup l.
Proof.
  induction l as [|a l IH]; intro H; constructor; inversion H; subst; auto.
  intro Hin. rewrite Forall_forall in H3. specialize (H3 _ Hin). lia.
Qed.

(* ================= the Pregel fold, normalised ================= *)
Definition pinv (cs : chans value) : Prop :=
  ksorted cs /\ Forall (fun kc => ksorted (c_vals (snd kc))) cs.

(* the writes and dependencies one completed task produces (independent of the channels) *)
Definition tw (g : graph) (kv : key * value) : res (writes_t value * deps_t) :=
  match find_node g (fst kv) with
  | None => Err eUnknownNode
  | Some n =>
    do sel_skip <- eval_branches value tree_ops n (snd kv);
    Ok (map (fun t => (t, (n_key n, edge_value value tree_ops n t (snd kv)))) (fst sel_skip ++ n_dsucc n),
        map (fun t => (t, n_key n)) (n_csucc n ++ fst sel_skip))
  end.

Fixpoint rw (g : graph) (l : list (key * value)) : res (writes_t value * deps_t) :=
  match l with
  | [] => Ok ([], [])
  | kv :: rest => do a <- tw g kv; do b <- rw g rest; Ok (fst a ++ fst b, snd a ++ snd b)
  end.

Lemma resolve_all_pregel : forall g, g_mode g = Pregel -> forall l cs,
  resolve_all value tree_ops g l cs = do r <- rw g l; Ok (cs, fst r, snd r).
Proof.
  intros g Hm. induction l as [|[k out] l IH]; intros cs; simpl; auto.
  unfold tw; simpl. destruct (find_node g k) as [n|]; simpl; auto.
  unfold resolve_one. destruct (eval_branches value tree_ops n out) as [[sel skip]| |]; simpl; auto.
  unfold report_branch. rewrite Hm. simpl. rewrite IH.
  destruct (rw g l) as [[w d]| |]; simpl; auto.
Qed.

Definition upd (g : graph) (ws : writes_t value) (kc : key * chan value) : key * chan value :=
  (fst kc, pregel_report_values value (snd kc) (incoming_vals value g (fst kc) ws)).

Lemma update_chan_pregel : forall g, g_mode g = Pregel -> forall ws ds kc,
  update_chan value g ws ds kc = upd g ws kc.
Proof. intros g Hm ws ds [k c]. unfold update_chan, upd. rewrite Hm. reflexivity. Qed.

Lemma ifold_pregel : forall g, g_mode g = Pregel -> forall cs l,
  ifold g cs l =
  do r <- rw g l;
  if targets_exist value cs (fst r) (snd r) then Ok (map (upd g (fst r)) cs) else Err eUnknownNode.
Proof.
  intros g Hm cs l. unfold ifold. rewrite (resolve_all_pregel g Hm).
  destruct (rw g l) as [[w d]| |]; simpl; auto.
  unfold update_chans. destruct (targets_exist value cs w d); auto.
  f_equal. apply map_ext. intros kc. apply update_chan_pregel; auto.
Qed.

Lemma rw_app : forall g A B,
  rw g (A ++ B) = do a <- rw g A; do b <- rw g B; Ok (fst a ++ fst b, snd a ++ snd b).
Proof.
  intros g. induction A as [|kv A IH]; intros B; simpl.
  - destruct (rw g B) as [[w d]| |]; reflexivity.
  - destruct (tw g kv) as [[w1 d1]| |]; simpl; auto. rewrite IH.
    destruct (rw g A) as [[w2 d2]| |]; simpl; auto.
    destruct (rw g B) as [[w3 d3]| |]; simpl; auto.
    rewrite !app_assoc. reflexivity.
Qed.

Lemma targets_exist_app : forall cs w1 w2 d1 d2,
  targets_exist value cs (w1 ++ w2) (d1 ++ d2) =
  targets_exist value cs w1 d1 && targets_exist value cs w2 d2.
Proof.
  intros. unfold targets_exist. rewrite !forallb_app.
  destruct (forallb _ w1), (forallb _ w2), (forallb _ d1), (forallb _ d2); reflexivity.
Qed.

Lemma upd_keys : forall g ws cs, map fst (map (upd g ws) cs) = map fst cs.
Proof. intros. rewrite map_map. apply map_ext. intros [k c]; reflexivity. Qed.

Lemma targets_exist_keys : forall cs cs' w d,
  map fst cs' = map fst cs -> targets_exist value cs' w d = targets_exist value cs w d.
Proof. intros cs cs' w d H. unfold targets_exist, akeys. rewrite H. reflexivity. Qed.

Lemma incoming_vals_app : forall g t w1 w2,
  incoming_vals value g t (w1 ++ w2) = incoming_vals value g t w1 ++ incoming_vals value g t w2.
Proof. intros. unfold incoming_vals. rewrite filter_app, map_app. reflexivity. Qed.

Lemma pregel_report_values_ins : forall c l,
  pregel_report_values value c l = set_vals value c (fold_left ins l (c_vals c)).
Proof. intros; reflexivity. Qed.

Lemma upd_app : forall g w1 w2 kc, upd g (w1 ++ w2) kc = upd g w2 (upd g w1 kc).
Proof.
  intros g w1 w2 [k c]. unfold upd; simpl. rewrite incoming_vals_app.
  rewrite !pregel_report_values_ins. rewrite fold_left_app. reflexivity.
Qed.

(* ---------- 1 and 2: the fold is compositional ---------- *)
Lemma ifold_app_pregel : forall g cs A B cs1,
  g_mode g = Pregel -> ifold g cs A = Ok cs1 -> ifold g cs (A ++ B) = ifold g cs1 B.
Proof.
  intros g cs A B cs1 Hm HA. rewrite !(ifold_pregel g Hm) in *. rewrite rw_app.
  destruct (rw g A) as [[wA dA]| |]; simpl in *; try discriminate.
  destruct (targets_exist value cs wA dA) eqn:HtA; try discriminate.
  inversion HA; subst cs1. clear HA.
  destruct (rw g B) as [[wB dB]| |]; simpl; auto.
  rewrite targets_exist_app, HtA. simpl.
  rewrite (targets_exist_keys cs (map (upd g wA) cs)) by apply upd_keys.
  destruct (targets_exist value cs wB dB); auto.
  f_equal. rewrite map_map. apply map_ext. intros kc. apply upd_app.
Qed.

Lemma ifold_prefix_pregel : forall g cs A B r,
  g_mode g = Pregel -> ifold g cs (A ++ B) = Ok r -> exists cs1, ifold g cs A = Ok cs1.
Proof.
  intros g cs A B r Hm H. rewrite !(ifold_pregel g Hm) in *. rewrite rw_app in H.
  destruct (rw g A) as [[wA dA]| |]; simpl in *; try discriminate.
  destruct (rw g B) as [[wB dB]| |]; simpl in *; try discriminate.
  rewrite targets_exist_app in H.
  destruct (targets_exist value cs wA dA); simpl in H; try discriminate. eauto.
Qed.

(* ---------- 3: the fold does not depend on the order of the completed tasks ---------- *)
Lemma rw_perm : forall g A B, Permutation A B -> forall wA dA,
  rw g A = Ok (wA, dA) -> exists wB dB, rw g B = Ok (wB, dB) /\ Permutation wA wB /\ Permutation dA dB.
Proof.
  intros g A B Hp. induction Hp as [|kv A B Hp IH|kv1 kv2 A|A B C Hp1 IH1 Hp2 IH2]; intros wA dA H; simpl in *.
  - inversion H; subst. exists [], []. auto.
  - destruct (tw g kv) as [[w1 d1]| |]; simpl in *; try discriminate.
    destruct (rw g A) as [[w2 d2]| |]; simpl in *; try discriminate.
    inversion H; subst. destruct (IH _ _ eq_refl) as (wB & dB & -> & Hw & Hd). simpl.
    exists (w1 ++ wB), (d1 ++ dB). repeat split; auto using Permutation_app_head.
  - destruct (tw g kv2) as [[w2 d2]| |]; simpl in *; try discriminate.
    destruct (tw g kv1) as [[w1 d1]| |]; simpl in *; try discriminate.
    destruct (rw g A) as [[w3 d3]| |]; simpl in *; try discriminate.
    inversion H; subst. exists (w1 ++ w2 ++ w3), (d1 ++ d2 ++ d3). repeat split; auto.
    + rewrite !app_assoc. apply Permutation_app_tail. apply Permutation_app_comm.
    + rewrite !app_assoc. apply Permutation_app_tail. apply Permutation_app_comm.
  - destruct (IH1 _ _ H) as (wB & dB & HB & Hw1 & Hd1).
    destruct (IH2 _ _ HB) as (wC & dC & HC & Hw2 & Hd2).
    exists wC, dC. repeat split; auto; eapply Permutation_trans; eauto.
Qed.

Lemma forallb_perm : forall (A : Type) (f : A -> bool) l1 l2, Permutation l1 l2 -> forallb f l1 = forallb f l2.
Proof.
  intros A f l1 l2 Hp. induction Hp; simpl; auto.
  - rewrite IHHp; reflexivity.
  - destruct (f x), (f y); reflexivity.
  - congruence.
Qed.

Lemma targets_exist_perm : forall cs w1 w2 d1 d2,
  Permutation w1 w2 -> Permutation d1 d2 -> targets_exist value cs w1 d1 = targets_exist value cs w2 d2.
Proof.
  intros. unfold targets_exist. rewrite (forallb_perm _ _ w1 w2), (forallb_perm _ _ d1 d2); auto.
Qed.

Lemma perm_filter : forall (A : Type) (f : A -> bool) l1 l2,
  Permutation l1 l2 -> Permutation (filter f l1) (filter f l2).
Proof.
  intros A f l1 l2 Hp. induction Hp; simpl; auto.
  - destruct (f x); auto.
  - destruct (f y), (f x); auto. apply perm_swap.
  - eapply Permutation_trans; eauto.
Qed.

Lemma incoming_vals_perm : forall g t w1 w2,
  Permutation w1 w2 -> Permutation (incoming_vals value g t w1) (incoming_vals value g t w2).
Proof.
  intros g t w1 w2 Hp. unfold incoming_vals. apply Permutation_map. apply perm_filter. exact Hp.
Qed.

Lemma find_node_key : forall g k n, find_node g k = Some n -> n_key n = k.
Proof.
  unfold find_node; intros g k n H. apply find_some in H as [_ H]. apply N.eqb_eq in H. exact H.
Qed.

(* every write comes from a completed task and carries the value of its edge *)
Lemma rw_writes : forall g A wA dA, rw g A = Ok (wA, dA) ->
  forall t s v, In (t, (s, v)) wA ->
    exists out n, In (s, out) A /\ find_node g s = Some n /\ v = edge_value value tree_ops n t out.
Proof.
  intros g. induction A as [|[k out] A IH]; intros wA dA H t s v Hin; simpl in H.
  - inversion H; subst. destruct Hin.
  - unfold tw in H; simpl in H.
    destruct (find_node g k) as [n|] eqn:Hf; simpl in H; try discriminate.
    destruct (eval_branches value tree_ops n out) as [[sel skip]| |]; simpl in H; try discriminate.
    destruct (rw g A) as [[w2 d2]| |] eqn:HA; simpl in H; try discriminate.
    inversion H; subst. apply in_app_or in Hin as [Hin|Hin].
    + apply in_map_iff in Hin as (t' & Heq & _). inversion Heq; subst.
      pose proof (find_node_key _ _ _ Hf) as Hk. rewrite Hk.
      exists out, n. split; [left; reflexivity|]. split; [exact Hf|reflexivity].
    + destruct (IH _ _ eq_refl t s v Hin) as (out' & n' & Hi & Hf' & Hv).
      exists out', n'. repeat split; auto. right; exact Hi.
Qed.

Lemma nodup_keys_functional : forall (A : Type) (l : list (N * A)), NoDup (map fst l) -> functional l.
Proof.
  intros A l. induction l as [|[k a] l IH]; simpl; intros Hn k' v v' H1 H2; [destruct H1|].
  inversion Hn as [|? ? Hnot Hn']; subst.
  destruct H1 as [E1|H1], H2 as [E2|H2].
  - congruence.
  - inversion E1; subst. exfalso. apply Hnot. apply (in_map fst) in H2. exact H2.
  - inversion E2; subst. exfalso. apply Hnot. apply (in_map fst) in H1. exact H1.
  - eapply IH; eauto.
Qed.

Lemma incoming_vals_functional : forall g A wA dA t,
  rw g A = Ok (wA, dA) -> NoDup (map fst A) -> functional (incoming_vals value g t wA).
Proof.
  intros g A wA dA t H Hn s v v' H1 H2.
  unfold incoming_vals in H1, H2.
  apply in_map_iff in H1 as ([t1 [s1 v1]] & E1 & F1). apply in_map_iff in H2 as ([t2 [s2 v2]] & E2 & F2).
  simpl in E1, E2. inversion E1; inversion E2; subst.
  apply filter_In in F1 as [F1 C1]. apply filter_In in F2 as [F2 C2]. simpl in C1, C2.
  apply andb_prop in C1 as [C1 _]. apply andb_prop in C2 as [C2 _].
  apply N.eqb_eq in C1, C2. subst t1 t2.
  destruct (rw_writes _ _ _ _ H _ _ _ F1) as (o1 & n1 & I1 & N1 & ->).
  destruct (rw_writes _ _ _ _ H _ _ _ F2) as (o2 & n2 & I2 & N2 & ->).
  assert (o1 = o2) by (eapply (nodup_keys_functional _ A Hn); eauto). subst o2.
  rewrite N1 in N2. inversion N2; subst. reflexivity.
Qed.

Lemma ifold_perm_pregel : forall g cs A B r,
  g_mode g = Pregel -> pinv cs -> NoDup (map fst A) -> Permutation A B ->
  ifold g cs A = Ok r -> ifold g cs B = Ok r.
Proof.
  intros g cs A B r Hm [Hks Hvs] Hn Hp H. rewrite !(ifold_pregel g Hm) in *.
  destruct (rw g A) as [[wA dA]| |] eqn:HA; simpl in *; try discriminate.
  destruct (rw_perm g A B Hp wA dA HA) as (wB & dB & HB & Hw & Hd). rewrite HB. simpl.
  rewrite <- (targets_exist_perm cs wA wB dA dB Hw Hd).
  destruct (targets_exist value cs wA dA); try discriminate.
  inversion H; subst r. f_equal. symmetry.
  apply map_ext_in. intros [k c] Hin. unfold upd; simpl.
  rewrite !pregel_report_values_ins. f_equal. f_equal.
  apply fold_ins_perm.
  - rewrite Forall_forall in Hvs. apply (Hvs (k, c) Hin).
  - eapply incoming_vals_functional; eauto.
  - apply incoming_vals_perm. exact Hw.
Qed.

(* ---------- 4: the invariant is preserved ---------- *)
Lemma ifold_pinv : forall g cs l cs', g_mode g = Pregel -> pinv cs -> ifold g cs l = Ok cs' -> pinv cs'.
Proof.
  intros g cs l cs' Hm [Hks Hvs] H. rewrite (ifold_pregel g Hm) in H.
  destruct (rw g l) as [[w d]| |]; simpl in H; try discriminate.
  destruct (targets_exist value cs w d); try discriminate. inversion H; subst cs'. split.
  - unfold ksorted. rewrite upd_keys. exact Hks.
  - rewrite Forall_forall in *. intros kc Hin. apply in_map_iff in Hin as ([k c] & <- & Hin).
    unfold upd; simpl. apply fold_ins_sorted. apply (Hvs (k, c) Hin).
Qed.

Lemma get_all_pregel_shape : forall g, g_mode g = Pregel -> forall cs cs' r,
  get_all value tree_ops g cs = Ok (cs', r) ->
  map fst cs' = map fst cs /\
  (forall k, In k (map fst r) -> In k (map fst cs)) /\
  (Forall (fun kc => ksorted (c_vals (snd kc))) cs -> Forall (fun kc => ksorted (c_vals (snd kc))) cs') /\
  (StronglySorted N.lt (map fst cs) -> StronglySorted N.lt (map fst r)).
Proof.
  intros g Hm. induction cs as [|[k c] cs IH]; intros cs' r H; simpl in H.
  - inversion H; subst. simpl. repeat split; auto.
  - unfold chan_get in H. rewrite Hm in H.
    destruct (pregel_get value tree_ops c) as [[ov c']| |] eqn:Hg; simpl in H; try discriminate.
    destruct (get_all value tree_ops g cs) as [[cs'' ready]| |] eqn:Hrest; simpl in H; try discriminate.
    inversion H; subst cs' r. clear H.
    destruct (IH _ _ eq_refl) as (Hk & Hin & Hv & Hs).
    assert (Hc' : ksorted (c_vals c) -> ksorted (c_vals c')).
    { unfold pregel_get in Hg. destruct (c_vals c) eqn:Ev.
      - inversion Hg; subst. rewrite Ev. auto.
      - destruct (get_merge value tree_ops (p :: l)); simpl in Hg; try discriminate.
        inversion Hg; subst. intros _. simpl. constructor. }
    split; [simpl; f_equal; exact Hk|]. split; [|split].
    + intros k0 H0. destruct ov; simpl in H0; [destruct H0 as [->|H0]|]; simpl; auto.
    + intros HF. inversion HF; subst. constructor; auto.
    + intros HS. simpl in HS. inversion HS as [|? ? HS' Hall]; subst.
      destruct ov; simpl; auto. constructor; auto.
      rewrite Forall_forall in *. intros x Hx. apply Hall. apply Hin. exact Hx.
Qed.

Lemma igetr_pinv : forall g cs cs' r, g_mode g = Pregel -> pinv cs -> igetr g cs = Ok (cs', r) -> pinv cs'.
Proof.
  intros g cs cs' r Hm [Hks Hvs] H. unfold igetr in H.
  destruct (get_all_pregel_shape g Hm _ _ _ H) as (Hk & _ & Hv & _).
  split; [exact (eq_ind_r (fun l => StronglySorted N.lt l) Hks Hk)|auto].
Qed.

(* ---------- 5: the ready list has distinct keys ---------- *)
Lemma igetr_nodup : forall g cs cs' r, g_mode g = Pregel -> pinv cs -> igetr g cs = Ok (cs', r) -> NoDup (map fst r).
Proof.
  intros g cs cs' r Hm [Hks _] H. unfold igetr in H.
  destruct (get_all_pregel_shape g Hm _ _ _ H) as (_ & _ & _ & Hs).
  apply sorted_nodup. apply Hs. exact Hks.
Qed.

(* ---------- 6: the initial channel table ---------- *)
Lemma init_v0_sorted : forall g ks,
  ksorted (fold_right (fun k m => ainsert k (chan_init value g k) m) [] ks).
Proof.
  intros g. induction ks as [|k ks IH]; simpl.
  - constructor.
  - apply ainsert_sorted. exact IH.
Qed.

Lemma init_chans_pinv : forall g cs0, g_mode g = Pregel -> init_chans value g = Ok cs0 -> pinv cs0.
Proof.
  intros g cs0 Hm H. unfold init_chans in H. rewrite Hm in H. inversion H; subst cs0. split.
  - apply init_v0_sorted.
  - rewrite Forall_forall. intros [k c] Hin. unfold init_chans_v0 in Hin.
    apply init_v0_entries in Hin as [_ ->]. unfold chan_init. rewrite Hm. simpl. constructor.
Qed.
