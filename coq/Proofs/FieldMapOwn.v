(* Proofs/FieldMapOwn.v — the ownership-tagged assignment (Model/FieldMapOwn.v):
   (1) forgetting the tags gives exactly [assign] / [convert_to] of Model/FieldMap.v;
   (2) for overlap-free target paths no object that existed before the call is written to. *)
From Coq Require Import Permutation.
From Eino Require Import Base.Util Base.FMUniverse Model.FieldMap Model.FieldMapOwn
  Proofs.FieldMapOverlap Proofs.FieldMapAssign Proofs.FieldMapComm Proofs.FieldMapGetPut Proofs.FieldMapRun.

(* ------------------------------------------------------------ induction over nested values *)
Section ValInd.
  Variable P : val -> Prop.
  Hypothesis Hnil : P VNil.
  Hypothesis Hint : forall z, P (VInt z).
  Hypothesis Hstr : forall s, P (VStr s).
  Hypothesis Hstruct : forall n fs, Forall (fun kv => P (snd kv)) fs -> P (VStruct n fs).
  Hypothesis Hptr0 : forall t, P (VPtr t None).
  Hypothesis Hptr : forall t w, P w -> P (VPtr t (Some w)).
  Hypothesis Hmap0 : forall ks t, P (VMap ks t None).
  Hypothesis Hmap : forall ks t es, Forall (fun kv => P (snd kv)) es -> P (VMap ks t (Some es)).

  Fixpoint val_ind2 (v : val) : P v :=
    match v with
    | VNil => Hnil
    | VInt z => Hint z
    | VStr s => Hstr s
    | VStruct n fs =>
        Hstruct n fs ((fix go (l : list (N * val)) : Forall (fun kv => P (snd kv)) l :=
                         match l with
                         | [] => Forall_nil _
                         | kv :: l' => Forall_cons kv (val_ind2 (snd kv)) (go l')
                         end) fs)
    | VPtr t None => Hptr0 t
    | VPtr t (Some w) => Hptr t w (val_ind2 w)
    | VMap ks t None => Hmap0 ks t
    | VMap ks t (Some es) =>
        Hmap ks t es ((fix go (l : list (N * val)) : Forall (fun kv => P (snd kv)) l :=
                         match l with
                         | [] => Forall_nil _
                         | kv :: l' => Forall_cons kv (val_ind2 (snd kv)) (go l')
                         end) es)
    end.
End ValInd.

Definition emap (es : list (N * oval)) : list (N * val) := map (fun kv => (fst kv, erase (snd kv))) es.

Lemma erase_tag : forall own v, erase (tag own v) = v.
Proof.
  intros own. induction v using val_ind2; simpl; try reflexivity.
  - f_equal. induction fs as [|[k x] fs IHfs]; simpl; [reflexivity|].
    inversion H; subst. simpl in *. rewrite H2, IHfs by assumption. reflexivity.
  - rewrite IHv. reflexivity.
  - do 2 f_equal. induction es as [|[k x] es IHes]; simpl; [reflexivity|].
    inversion H; subst. simpl in *. rewrite H2, IHes by assumption. reflexivity.
Qed.

Lemma aget_emap : forall k es, aget k (emap es) = option_map erase (aget k es).
Proof.
  intros k es. unfold aget, emap. induction es as [|[k0 x0] es IH]; simpl; [reflexivity|].
  destruct (N.eqb k k0); [reflexivity | exact IH].
Qed.

Lemma emap_ains : forall k a es, emap (ains k a es) = ains k (erase a) (emap es).
Proof.
  intros k a es. unfold ains, emap. induction es as [|[k0 x0] es IH]; simpl; [reflexivity|].
  destruct (N.ltb k k0); simpl; [reflexivity|].
  destruct (N.eqb k k0); simpl; [reflexivity|]. rewrite IH. reflexivity.
Qed.

Lemma erase_oany_enter : forall t v, erase (oany_enter t v) = any_enter t (erase v).
Proof.
  intros t v. destruct t; try reflexivity.
  destruct v as [| | | | |own [] [] o]; reflexivity.
Qed.

Lemma erase_oinstantiate : forall v, erase (oinstantiate v) = instantiate (erase v).
Proof.
  intros v. destruct v as [| | | |own u [w|]|own ks e [es|]]; simpl; try reflexivity.
  rewrite erase_tag. reflexivity.
Qed.

Lemma erase_oentry_of : forall e o, erase (oentry_of e o) = entry_of e (option_map erase o).
Proof. intros e [w|]; simpl; [reflexivity | apply erase_tag]. Qed.

Lemma erase_ofield_of : forall ft o, erase (ofield_of ft o) = field_of ft (option_map erase o).
Proof. intros ft [w|]; simpl; [reflexivity | apply erase_tag]. Qed.

Lemma erase_ostore_map : forall e x, option_map erase (ostore_map e x) = store_map e x.
Proof.
  intros e x. unfold ostore_map, store_map. destruct (dyn x).
  - destruct (assignable t e); simpl; [rewrite erase_tag|]; reflexivity.
  - destruct (nilable e); simpl; [rewrite erase_tag|]; reflexivity.
Qed.

Lemma erase_ostore_field : forall ft old x, option_map erase (ostore_field ft old x) = store_field ft (erase old) x.
Proof.
  intros ft old x. unfold ostore_field, store_field. destruct (dyn x).
  - destruct (assignable t ft); simpl; [rewrite erase_tag|]; reflexivity.
  - destruct (nilable ft); reflexivity.
Qed.

Definition er (r : option (oval * bool)) : option val :=
  match r with Some (a, _) => Some (erase a) | None => None end.

Lemma er_with_flag : forall fl r k k',
  (forall a, erase (k a) = k' (erase a)) -> er (with_flag fl r k) = option_map k' (er r).
Proof. intros fl [[a f]|] k k' H; simpl; [rewrite H|]; reflexivity. Qed.

Lemma er_noflag : forall r, er (noflag r) = option_map erase r.
Proof. intros [a|]; reflexivity. Qed.

(* (1) forgetting the tags *)
Theorem erase_oassign : forall p env t v x, er (oassign env t v p x) = assign env t (erase v) p x.
Proof.
  induction p as [|f rest IH]; intros env t v x; [reflexivity|].
  rewrite assign_cons. cbn [oassign]. rewrite <- erase_oany_enter.
  destruct (oany_enter t v) as [| | |n fs|own u o|own ks e o] eqn:Ev; cbn [erase].
  - reflexivity.
  - reflexivity.
  - reflexivity.
  - (* struct *)
    simpl. destruct (lookup_field env n f) as [[[] ft]|]; try reflexivity.
    rewrite (er_with_flag _ _ _ (fun a => VStruct n (ains f a (emap fs)))).
    2: { intro a. simpl. rewrite emap_ains. reflexivity. }
    fold (emap fs). rewrite aget_emap, <- erase_ofield_of.
    destruct rest as [|g rest'].
    + unfold assign_next. rewrite er_noflag, erase_ostore_field. reflexivity.
    + rewrite assign_next_cons, IH, erase_oinstantiate. reflexivity.
  - (* pointer *)
    destruct o as [w|].
    + simpl. destruct w as [| | |n fs| |]; try reflexivity. cbn [erase].
      destruct (is_any u); [reflexivity|]. simpl.
      destruct (lookup_field env n f) as [[[] ft]|]; try reflexivity.
      rewrite (er_with_flag _ _ _ (fun a => VPtr u (Some (VStruct n (ains f a (emap fs)))))).
      2: { intro a. simpl. rewrite emap_ains. reflexivity. }
      fold (emap fs). rewrite aget_emap, <- erase_ofield_of.
      destruct rest as [|g rest'].
      * unfold assign_next. rewrite er_noflag, erase_ostore_field. reflexivity.
      * rewrite assign_next_cons, IH, erase_oinstantiate. reflexivity.
    + simpl. destruct (is_nil_path rest) eqn:El; [|reflexivity].
      destruct rest; [|discriminate]. simpl.
      destruct u as [| | |n| |]; simpl; try reflexivity.
      destruct (lookup_field env n f) as [[[] ft]|]; try reflexivity.
      rewrite (er_with_flag _ _ _ (fun a => VPtr (TStruct n) (Some (VStruct n (ains f a []))))).
      2: { intro a. reflexivity. }
      unfold assign_next. rewrite er_noflag, erase_ostore_field. simpl. rewrite erase_tag. reflexivity.
  - (* map *)
    destruct ks; simpl; [|reflexivity]. destruct o as [es|]; [|reflexivity].
    rewrite (er_with_flag _ _ _ (fun a => VMap true e (Some (ains f a (emap es))))).
    2: { intro a. simpl. rewrite emap_ains. reflexivity. }
    fold (emap es). rewrite aget_emap, <- erase_oentry_of.
    destruct rest as [|g rest'].
    + unfold assign_next. rewrite er_noflag, erase_ostore_map. reflexivity.
    + rewrite assign_next_cons, IH. reflexivity.
Qed.

Theorem erase_oassign_all : forall m env T d,
  er (oassign_all env T d m) = assign_all env T (erase d) m.
Proof.
  induction m as [|[to x] m IH]; intros env T d; simpl; [reflexivity|].
  assert (H1 : er (oassign_one env T d to x) = assign_one env T (erase d) to x).
  { destruct to as [|f to]; [|apply erase_oassign]. simpl.
    destruct (dyn x); [destruct (assignable t T) | destruct (nilable T)]; simpl; rewrite ?erase_tag; reflexivity. }
  destruct (oassign_one env T d to x) as [[d' fl]|]; simpl in H1; rewrite <- H1; [|reflexivity].
  rewrite <- IH. destruct (oassign_all env T d' m) as [[d'' fl']|]; reflexivity.
Qed.

(* convertTo with the write report is convertTo *)
Theorem erase_convert_to_w : forall env T m,
  convert_to env T m = res_map (fun r => erase (fst r)) (convert_to_w env T m).
Proof.
  intros env T m. unfold convert_to, convert_to_w.
  rewrite <- (erase_tag true (new_instance T)) at 1. rewrite <- erase_oassign_all.
  destruct (oassign_all env T (tag true (new_instance T)) m) as [[d fl]|]; reflexivity.
Qed.

(* ------------------------------------------------------------ (2) nothing that existed before is written to *)

(* every object of v that is not at or below an assigned path W was allocated by this call *)
Inductive own_ok : oval -> list path -> Prop :=
| oo_written : forall v W, In [] W -> own_ok v W
| oo_nil : forall W, own_ok ONil W
| oo_int : forall z W, own_ok (OInt z) W
| oo_str : forall s W, own_ok (OStr s) W
| oo_struct : forall n fs W, (forall f x, aget f fs = Some x -> own_ok x (sub f W)) -> own_ok (OStruct n fs) W
| oo_ptr0 : forall own u W, own_ok (OPtr own u None) W
| oo_ptr : forall u w W, own_ok w W -> own_ok (OPtr true u (Some w)) W
| oo_map0 : forall own ks e W, own_ok (OMap own ks e None) W
| oo_map : forall ks e es W, (forall k x, aget k es = Some x -> own_ok x (sub k W)) -> own_ok (OMap true ks e (Some es)) W.

Section OvalInd.
  Variable P : oval -> Prop.
  Hypothesis Hnil : P ONil.
  Hypothesis Hint : forall z, P (OInt z).
  Hypothesis Hstr : forall s, P (OStr s).
  Hypothesis Hstruct : forall n fs, Forall (fun kv => P (snd kv)) fs -> P (OStruct n fs).
  Hypothesis Hptr0 : forall own t, P (OPtr own t None).
  Hypothesis Hptr : forall own t w, P w -> P (OPtr own t (Some w)).
  Hypothesis Hmap0 : forall own ks t, P (OMap own ks t None).
  Hypothesis Hmap : forall own ks t es, Forall (fun kv => P (snd kv)) es -> P (OMap own ks t (Some es)).

  Fixpoint oval_ind2 (v : oval) : P v :=
    match v with
    | ONil => Hnil
    | OInt z => Hint z
    | OStr s => Hstr s
    | OStruct n fs =>
        Hstruct n fs ((fix go (l : list (N * oval)) : Forall (fun kv => P (snd kv)) l :=
                         match l with
                         | [] => Forall_nil _
                         | kv :: l' => Forall_cons kv (oval_ind2 (snd kv)) (go l')
                         end) fs)
    | OPtr own t None => Hptr0 own t
    | OPtr own t (Some w) => Hptr own t w (oval_ind2 w)
    | OMap own ks t None => Hmap0 own ks t
    | OMap own ks t (Some es) =>
        Hmap own ks t es ((fix go (l : list (N * oval)) : Forall (fun kv => P (snd kv)) l :=
                             match l with
                             | [] => Forall_nil _
                             | kv :: l' => Forall_cons kv (oval_ind2 (snd kv)) (go l')
                             end) es)
    end.
End OvalInd.

Lemma aget_in_forall : forall (P : N * oval -> Prop) es k x,
  Forall P es -> aget k es = Some x -> P (k, x).
Proof.
  intros P es k x. unfold aget. induction es as [|[k0 x0] es IH]; simpl; intros H Hg; [discriminate|].
  inversion H; subst. destruct (N.eqb_spec k k0) as [->|Hne]; [inversion Hg; subst; assumption | auto].
Qed.

(* a value whose objects were all allocated by this call *)
Lemma own_ok_tag_true : forall v W, own_ok (tag true v) W.
Proof.
  induction v using val_ind2; intros W; simpl; try (constructor; fail).
  - apply oo_struct. intros f x Hx.
    assert (HF : Forall (fun kv : N * oval => forall W', own_ok (snd kv) W')
                        (map (fun kv => (fst kv, tag true (snd kv))) fs)).
    { rewrite Forall_map. eapply Forall_impl; [|exact H]. intros kv Hkv W'. simpl. apply Hkv. }
    apply (aget_in_forall _ _ _ _ HF Hx).
  - apply oo_ptr. apply IHv.
  - apply oo_map. intros k x Hx.
    assert (HF : Forall (fun kv : N * oval => forall W', own_ok (snd kv) W')
                        (map (fun kv => (fst kv, tag true (snd kv))) es)).
    { rewrite Forall_map. eapply Forall_impl; [|exact H]. intros kv Hkv W'. simpl. apply Hkv. }
    apply (aget_in_forall _ _ _ _ HF Hx).
Qed.

Lemma own_ok_instantiate : forall v W, own_ok v W -> own_ok (oinstantiate v) W.
Proof.
  intros v W H. destruct v as [| | | |own u [w|]|own ks e [es|]]; simpl; try exact H.
  - apply oo_ptr. apply own_ok_tag_true.
  - apply oo_map. intros k x Hx. discriminate.
Qed.

Definition ofields_ok (fs : list (N * oval)) (W : list path) : Prop :=
  forall f x, aget f fs = Some x -> own_ok x (sub f W).

Lemma ofields_ok_ains : forall fs W f rest a,
  ofields_ok fs W -> own_ok a (rest :: sub f W) -> ofields_ok (ains f a fs) ((f :: rest) :: W).
Proof.
  intros fs W f rest a Hfs Ha g x Hg. destruct (N.eq_dec g f) as [->|Hne].
  - rewrite aget_ains_same in Hg. inversion Hg; subst. rewrite sub_cons_same. exact Ha.
  - rewrite aget_ains_other in Hg by exact Hne. rewrite sub_cons_other by congruence. apply Hfs. exact Hg.
Qed.

Lemma own_ok_field_of : forall ft fs f W, ofields_ok fs W -> own_ok (ofield_of ft (aget f fs)) (sub f W).
Proof. intros ft fs f W H. destruct (aget f fs) as [x|] eqn:E; simpl; [apply H; exact E | apply own_ok_tag_true]. Qed.

Lemma own_ok_entry_of : forall e es f W, ofields_ok es W -> own_ok (oentry_of e (aget f es)) (sub f W).
Proof. intros e es f W H. destruct (aget f es) as [x|] eqn:E; simpl; [apply H; exact E | apply own_ok_tag_true]. Qed.

(* one assignment to a path that overlaps none of the earlier ones: it reports no write to an
   object that existed before, and the invariant holds for the extended path set *)
Theorem oassign_own : forall env p t v W x v' fl,
  own_ok v W -> fresh_for p W -> oassign env t v p x = Some (v', fl) ->
  fl = false /\ own_ok v' (p :: W).
Proof.
  intros env. induction p as [|f rest IH]; intros t v W x v' fl Hv Hf Ha; [discriminate|].
  assert (Hn : ~ In [] W) by (eapply fresh_no_nil; eauto).
  assert (Hwr : forall a, rest = [] -> own_ok a (rest :: sub f W)).
  { intros a ->. apply oo_written. left; reflexivity. }
  cbn [oassign] in Ha.
  assert (Hae : own_ok (oany_enter t v) W).
  { destruct t; try exact Hv. destruct v as [| | | | |own [] [] o]; simpl; try exact Hv;
      apply oo_map; intros k x0 Hk; discriminate. }
  destruct (oany_enter t v) as [| | |n fs|own u o|own ks e o] eqn:Ev; try discriminate.
  - (* struct *)
    simpl in Ha. destruct (lookup_field env n f) as [[[] ft]|]; try discriminate.
    assert (Hfs : ofields_ok fs W) by (inversion Hae; subst; [contradiction | assumption]).
    assert (Hsub : exists a fl0,
               match rest with
               | [] => noflag (ostore_field ft (ofield_of ft (aget f fs)) x)
               | _ :: _ => oassign env ft (oinstantiate (ofield_of ft (aget f fs))) rest x
               end = Some (a, fl0) /\ v' = OStruct n (ains f a fs) /\ fl = fl0 || false).
    { destruct (match rest with [] => _ | _ :: _ => _ end) as [[a fl0]|]; simpl in Ha; [|discriminate].
      inversion Ha; subst. eauto. }
    destruct Hsub as [a [fl0 [Hs [-> ->]]]].
    assert (Hr : fl0 = false /\ own_ok a (rest :: sub f W)).
    { destruct rest as [|g rest'].
      - destruct (ostore_field ft (ofield_of ft (aget f fs)) x); simpl in Hs; [|discriminate].
        inversion Hs; subst. split; [reflexivity | apply Hwr; reflexivity].
      - eapply IH; [| apply fresh_sub; exact Hf | exact Hs].
        apply own_ok_instantiate. apply own_ok_field_of. exact Hfs. }
    destruct Hr as [-> Hoa]. split; [reflexivity|]. apply oo_struct. apply ofields_ok_ains; assumption.
  - (* pointer *)
    destruct o as [w|].
    + simpl in Ha. destruct w as [| | |n fs| |]; try discriminate.
      destruct (is_any u); [discriminate|]. simpl in Ha.
      destruct (lookup_field env n f) as [[[] ft]|]; try discriminate.
      assert (Hown : own = true /\ ofields_ok fs W).
      { inversion Hae; subst; [contradiction|]. match goal with H : own_ok (OStruct _ _) _ |- _ => inversion H; subst; [contradiction|] end.
        split; [reflexivity | assumption]. }
      destruct Hown as [-> Hfs].
      assert (Hsub : exists a fl0,
                 match rest with
                 | [] => noflag (ostore_field ft (ofield_of ft (aget f fs)) x)
                 | _ :: _ => oassign env ft (oinstantiate (ofield_of ft (aget f fs))) rest x
                 end = Some (a, fl0) /\ v' = OPtr true u (Some (OStruct n (ains f a fs))) /\ fl = fl0 || false).
      { destruct (match rest with [] => _ | _ :: _ => _ end) as [[a fl0]|]; simpl in Ha; [|discriminate].
        inversion Ha; subst. eauto. }
      destruct Hsub as [a [fl0 [Hs [-> ->]]]].
      assert (Hr : fl0 = false /\ own_ok a (rest :: sub f W)).
      { destruct rest as [|g rest'].
        - destruct (ostore_field ft (ofield_of ft (aget f fs)) x); simpl in Hs; [|discriminate].
          inversion Hs; subst. split; [reflexivity | apply Hwr; reflexivity].
        - eapply IH; [| apply fresh_sub; exact Hf | exact Hs].
          apply own_ok_instantiate. apply own_ok_field_of. exact Hfs. }
      destruct Hr as [-> Hoa]. split; [reflexivity|]. apply oo_ptr. apply oo_struct. apply ofields_ok_ains; assumption.
    + simpl in Ha. destruct rest as [|g rest']; simpl in Ha; [|discriminate].
      destruct u as [| | |n| |]; simpl in Ha; try discriminate.
      destruct (lookup_field env n f) as [[[] ft]|]; try discriminate.
      destruct (ostore_field _ _ x) as [a|]; simpl in Ha; [|discriminate].
      inversion Ha; subst. split; [reflexivity|]. apply oo_ptr. apply oo_struct.
      apply (ofields_ok_ains [] W f [] a); [intros g x0 Hg; discriminate | apply Hwr; reflexivity].
  - (* map *)
    destruct ks; simpl in Ha; [|discriminate]. destruct o as [es|]; [|discriminate].
    assert (Hown : own = true /\ ofields_ok es W).
    { inversion Hae; subst; [contradiction|]. split; [reflexivity | assumption]. }
    destruct Hown as [-> Hes].
    assert (Hsub : exists a fl0,
               match rest with
               | [] => noflag (ostore_map e x)
               | _ :: _ => oassign env e (oentry_of e (aget f es)) rest x
               end = Some (a, fl0) /\ v' = OMap true true e (Some (ains f a es)) /\ fl = fl0 || false).
    { destruct (match rest with [] => _ | _ :: _ => _ end) as [[a fl0]|]; simpl in Ha; [|discriminate].
      inversion Ha; subst. eauto. }
    destruct Hsub as [a [fl0 [Hs [-> ->]]]].
    assert (Hr : fl0 = false /\ own_ok a (rest :: sub f W)).
    { destruct rest as [|g rest'].
      - destruct (ostore_map e x); simpl in Hs; [|discriminate].
        inversion Hs; subst. split; [reflexivity | apply Hwr; reflexivity].
      - eapply IH; [| apply fresh_sub; exact Hf | exact Hs]. apply own_ok_entry_of. exact Hes. }
    destruct Hr as [-> Hoa]. split; [reflexivity|]. apply oo_map. apply ofields_ok_ains; assumption.
Qed.

(* ------------------------------------------------------------ convertTo as a whole *)

Theorem oassign_all_own : forall env T m d W d' fl,
  own_ok d W -> nonempty_keys m -> no_conflict (keys m) ->
  (forall p, In p (keys m) -> fresh_for p W) ->
  oassign_all env T d m = Some (d', fl) -> fl = false.
Proof.
  intros env T. induction m as [|[p x] m IH]; intros d W d' fl Hd Hne Hnc Hf Ha; simpl in Ha.
  - inversion Ha. reflexivity.
  - inversion Hne as [|? ? Hp Hne']; subst. simpl in Hp.
    simpl in Hnc. destruct Hnc as [Hc Hnc].
    destruct p as [|f p]; [contradiction|]. cbn [oassign_one] in Ha.
    destruct (oassign env T d (f :: p) x) as [[d1 fl1]|] eqn:E1; [|discriminate].
    destruct (oassign_own env (f :: p) T d W x d1 fl1 Hd (Hf _ (or_introl eq_refl)) E1) as [-> Hd1].
    destruct (oassign_all env T d1 m) as [[d2 fl2]|] eqn:E2; [|discriminate].
    inversion Ha; subst. simpl.
    eapply (IH d1 ((f :: p) :: W)); eauto.
    intros p' Hin q [<-|Hq].
    + rewrite conflict_sym. rewrite Forall_forall in Hc. apply Hc. exact Hin.
    + apply Hf; [right; exact Hin | exact Hq].
Qed.

(* (2) for overlap-free target paths convertTo writes to no object that existed before the call:
   neither to what the mapped values (predecessors' outputs, static values) are made of nor
   to anything else *)
Theorem convert_to_w_own : forall env T m d fl,
  no_conflict (keys m) -> convert_to_w env T m = Ok (d, fl) -> fl = false.
Proof.
  intros env T m d fl Hnc H. unfold convert_to_w in H.
  destruct (oassign_all env T (tag true (new_instance T)) m) as [[d' fl']|] eqn:E; [|discriminate].
  inversion H; subst d' fl'. clear H.
  destruct (nonempty_keys_dec m) as [Hne|Hne].
  - eapply (oassign_all_own env T m _ []); eauto.
    + apply own_ok_tag_true.
    + intros p _ q [].
  - destruct (no_conflict_nil_single m Hnc Hne) as [x ->]. simpl in E.
    destruct (dyn x); [destruct (assignable t T) | destruct (nilable T)]; inversion E; reflexivity.
Qed.

Lemma convert_flag_erase : forall env T m,
  convert_to env T m = res_map fst (convert_flag env T m).
Proof.
  intros env T m. unfold convert_flag. rewrite erase_convert_to_w.
  destruct (convert_to_w env T m) as [[d fl]| |]; reflexivity.
Qed.

Lemma convert_flag_own : forall env T m v fl,
  no_conflict (keys m) -> convert_flag env T m = Ok (v, fl) -> fl = false.
Proof.
  intros env T m v fl Hnc H. unfold convert_flag in H.
  destruct (convert_to_w env T m) as [[d fl']| |] eqn:E; try discriminate.
  inversion H; subst. eapply convert_to_w_own; eauto.
Qed.

(* ------------------------------------------------------------ whole runs *)
Section RunsOwn.
  Variable env : senv.
  Variable T : ty.

  (* the keys of the per-predecessor maps are the target paths of the declarations that ran *)
  Lemma edges_out_keys : forall ds ckss srcs mss,
    no_plain ds -> Forall (fun d => NoDup (map snd (d_maps d))) ds ->
    edges_out env ds ckss srcs = Ok mss ->
    exists k, keys (List.concat mss) = all_targets (firstn k ds).
  Proof.
    induction ds as [|d ds IH]; intros ckss srcs mss Hnp Hnd H.
    - simpl in H. inversion H. exists 0%nat. reflexivity.
    - destruct ckss as [|c cs]; [simpl in H; inversion H; exists 0%nat; reflexivity|].
      destruct srcs as [|s ss]; [simpl in H; inversion H; exists 0%nat; reflexivity|].
      inversion Hnp as [|? ? Hd Hnp']; inversion Hnd as [|? ? Hndd Hnd']; subst.
      simpl in H. unfold edge_out in H.
      destruct (field_map env (d_maps d) false s []) as [m0| |] eqn:Ef; try discriminate. simpl in H.
      destruct (run_checks c m0) as [m1| |] eqn:Er; try discriminate. simpl in H.
      destruct (edges_out env ds cs ss) as [r| |] eqn:Eo; try discriminate. simpl in H. inversion H; subst mss.
      destruct (field_map_strict env (d_maps d) s [] m0 Hndd (fun _ _ F => F) Ef) as [m' [-> HF]]. simpl in *.
      destruct (run_checks_spec _ _ _ Er) as [-> _].
      destruct (IH cs ss r Hnp' Hnd' Eo) as [k Hk].
      exists (S k). unfold keys, all_targets in *. simpl. rewrite map_app, Hk. f_equal.
      rewrite decl_paths_maps by exact Hd. apply (forall2_keys env s _ _ HF).
  Qed.

  Lemma all_targets_firstn : forall k ds, exists rest, all_targets ds = all_targets (firstn k ds) ++ rest.
  Proof.
    induction k as [|k IH]; intros ds; [exists (all_targets ds); reflexivity|].
    destruct ds as [|d ds]; [exists []; reflexivity|].
    destruct (IH ds) as [rest Hr]. exists rest. unfold all_targets in *. simpl. rewrite Hr, app_assoc. reflexivity.
  Qed.

  Lemma no_conflict_drop_middle : forall A R S, no_conflict (A ++ R ++ S) -> no_conflict (A ++ S).
  Proof.
    induction A as [|a A IHA]; simpl; intros R S H.
    - apply no_conflict_app in H. tauto.
    - destruct H as [Hf Hn]. split; [|eapply IHA; exact Hn].
      rewrite Forall_forall in *. intros q Hq. apply Hf. apply in_app_or in Hq.
      destruct Hq as [Hq|Hq]; apply in_or_app; [left; exact Hq | right; apply in_or_app; right; exact Hq].
  Qed.

  Lemma run_invoke_w_erase : forall ds ss ckss srcs,
    has_plain ds = false ->
    run_invoke_s env T ds ss ckss srcs = res_map fst (run_invoke_w env T ds ss ckss srcs).
  Proof.
    intros ds ss ckss srcs Hp. unfold run_invoke_w.
    destruct ss as [|s0 ss0]; simpl; [unfold run_invoke; rewrite Hp|];
      (destruct (edges_out env ds ckss srcs) as [mss|e|]; simpl; try reflexivity;
       match goal with |- context[merge_maps ?a ?b] => destruct (merge_maps a b) as [m|e|] end; simpl; try reflexivity;
       rewrite convert_flag_erase; reflexivity).
  Qed.

  (* Invoke through accepted field mappings and static values writes to no object that existed
     before: the predecessors' outputs (and the static values) are not modified *)
  Theorem invoke_source_unmodified : forall ds ss ckss srcs v fl,
    compile_s env T ds ss = CAccept ckss -> has_plain ds = false ->
    run_invoke_w env T ds ss ckss srcs = Ok (v, fl) -> fl = false.
  Proof.
    intros ds ss ckss srcs v fl Hcs Hp H.
    destruct (compile_s_inv env T ds ss ckss Hcs) as [Hc Hs].
    pose proof (has_plain_false _ Hp) as Hnp.
    pose proof (compile_no_conflict _ _ _ _ Hc) as Hncd.
    unfold run_invoke_w in H.
    destruct (edges_out env ds ckss srcs) as [mss|e|] eqn:Eo; simpl in H; try discriminate.
    destruct (edges_out_keys ds ckss srcs mss Hnp (no_conflict_decl ds Hnp Hncd) Eo) as [k Hk].
    destruct (all_targets_firstn k ds) as [rest Hrest].
    destruct ss as [|s0 ss0].
    - destruct (merge_maps mss []) as [m|e|] eqn:Em; simpl in H; try discriminate.
      apply merge_maps_spec in Em. simpl in Em. subst m.
      eapply convert_flag_own; [|exact H]. rewrite Hk.
      rewrite Hrest in Hncd. apply no_conflict_app in Hncd. tauto.
    - destruct Hs as [Hs|[Hnc _]]; [discriminate|]. 
      match type of H with context[merge_maps ?a ?b] => destruct (merge_maps a b) as [m|e|] eqn:Em end; simpl in H; try discriminate.
      apply merge_maps_spec in Em. simpl in Em. rewrite concat_app in Em. simpl in Em. rewrite app_nil_r in Em. subst m.
      eapply convert_flag_own; [|exact H].
      unfold keys in *. rewrite map_app, Hk.
      rewrite Hrest in Hnc. rewrite <- app_assoc in Hnc.
      apply (no_conflict_drop_middle _ _ _ Hnc).
  Qed.

  (* ... and so does every conversion of every stream chunk *)
  Lemma stream_chunks_w_own : forall ms cks cs vs fl,
    no_conflict (map snd ms) ->
    stream_chunks_w env T ms cks cs = Ok (vs, fl) -> fl = false.
  Proof.
    intros ms cks. induction cs as [|c cs IH]; intros vs fl Hnc H; simpl in H; [inversion H; reflexivity|].
    unfold edge_out in H.
    destruct (field_map env ms true c []) as [m0|e|] eqn:Ef; simpl in H; try discriminate.
    destruct (run_checks cks m0) as [m1|e|] eqn:Er; simpl in H; try discriminate.
    destruct (convert_flag env T m1) as [[v f1]|e|] eqn:Ec; simpl in H; try discriminate.
    destruct (stream_chunks_w env T ms cks cs) as [[r f2]|e|] eqn:Es; simpl in H; try discriminate.
    inversion H; subst.
    destruct (field_map_lenient env ms c [] m0 (no_conflict_NoDup _ Hnc) (fun _ _ F => F) Ef)
      as [ms' [m' [-> [HF [Hss _]]]]]. simpl in *.
    destruct (run_checks_spec _ _ _ Er) as [-> _].
    rewrite (convert_flag_own env T m' v f1); [|
      rewrite (forall2_keys env c _ _ HF); eapply no_conflict_subseq; [apply subseq_map; exact Hss | exact Hnc] | exact Ec].
    simpl. eapply IH; eauto.
  Qed.

  Theorem stream_source_unmodified : forall ds ss ckss chunkss vs fl,
    compile_s env T ds ss = CAccept ckss -> has_plain ds = false ->
    run_stream_w env T ds ss ckss chunkss = Ok (vs, fl) -> fl = false.
  Proof.
    intros ds ss ckss chunkss vs fl Hcs Hp H.
    destruct (compile_s_inv env T ds ss ckss Hcs) as [Hc Hs].
    pose proof (has_plain_false _ Hp) as Hnp.
    pose proof (no_conflict_each ds Hnp (compile_no_conflict _ _ _ _ Hc)) as Hnce.
    assert (G : forall ds ckss chunkss vs fl, Forall (fun d => no_conflict (map snd (d_maps d))) ds ->
                run_stream_from_w env T ds ckss chunkss = Ok (vs, fl) -> fl = false).
    { clear. induction ds as [|d ds IH]; intros ckss chunkss vs fl Hn H; simpl in H; [inversion H; reflexivity|].
      destruct ckss as [|c cs]; [inversion H; reflexivity|]. destruct chunkss as [|ch chs]; [inversion H; reflexivity|].
      inversion Hn as [|? ? Hnd Hn']; subst.
      destruct (stream_chunks_w env T (d_maps d) c ch) as [[a f1]|e|] eqn:E1; simpl in H; try discriminate.
      destruct (run_stream_from_w env T ds cs chs) as [[r f2]|e|] eqn:E2; simpl in H; try discriminate.
      inversion H; subst. rewrite (stream_chunks_w_own _ _ _ _ _ Hnd E1). simpl. eapply IH; eauto. }
    unfold run_stream_w in H. destruct ss as [|s0 ss0]; [eapply G; eauto|].
    destruct Hs as [Hs|[Hnc _]]; [discriminate|].
    destruct (run_stream_from_w env T ds ckss chunkss) as [[r f1]|e|] eqn:E1; simpl in H; try discriminate.
    destruct (convert_flag env T (s0 :: ss0)) as [[v f2]|e|] eqn:E2; simpl in H; try discriminate.
    inversion H; subst. rewrite (G _ _ _ _ _ Hnce E1). simpl.
    eapply convert_flag_own; [|exact E2]. apply no_conflict_app in Hnc. tauto.
  Qed.

  Lemma stream_chunks_w_erase : forall ms cks cs,
    stream_chunks env T ms cks cs = res_map fst (stream_chunks_w env T ms cks cs).
  Proof.
    intros ms cks. induction cs as [|c cs IH]; simpl; [reflexivity|].
    destruct (edge_out env ms cks true c) as [m|e|]; simpl; try reflexivity.
    rewrite convert_flag_erase. destruct (convert_flag env T m) as [[v f1]|e|]; simpl; try reflexivity.
    rewrite IH. destruct (stream_chunks_w env T ms cks cs) as [[r f2]|e|]; reflexivity.
  Qed.

  Lemma run_stream_from_w_erase : forall ds ckss chunkss,
    run_stream_from env T ds ckss chunkss = res_map fst (run_stream_from_w env T ds ckss chunkss).
  Proof.
    induction ds as [|d ds IH]; intros [|c cs] [|ch chs]; simpl; try reflexivity.
    rewrite stream_chunks_w_erase. destruct (stream_chunks_w env T (d_maps d) c ch) as [[a f1]|e|]; simpl; try reflexivity.
    rewrite IH. destruct (run_stream_from_w env T ds cs chs) as [[r f2]|e|]; reflexivity.
  Qed.

  Lemma run_stream_w_erase : forall ds ss ckss chunkss,
    has_plain ds = false ->
    run_stream_s env T ds ss ckss chunkss = res_map fst (run_stream_w env T ds ss ckss chunkss).
  Proof.
    intros ds ss ckss chunkss Hp. unfold run_stream_w. destruct ss as [|s0 ss0]; simpl.
    - unfold run_stream. rewrite Hp. apply run_stream_from_w_erase.
    - rewrite run_stream_from_w_erase.
      destruct (run_stream_from_w env T ds ckss chunkss) as [[r f1]|e|]; simpl; try reflexivity.
      rewrite convert_flag_erase. destruct (convert_flag env T (s0 :: ss0)) as [[v f2]|e|]; reflexivity.
  Qed.

  (* the statement for Props: the instrumented run IS the run, and it reports no write to an
     object that existed before *)
  Theorem source_unmodified_run : forall ds ss ckss,
    compile_s env T ds ss = CAccept ckss -> has_plain ds = false ->
    (forall srcs,
       run_invoke_s env T ds ss ckss srcs = res_map fst (run_invoke_w env T ds ss ckss srcs) /\
       forall v fl, run_invoke_w env T ds ss ckss srcs = Ok (v, fl) -> fl = false) /\
    (forall chunkss,
       run_stream_s env T ds ss ckss chunkss = res_map fst (run_stream_w env T ds ss ckss chunkss) /\
       forall vs fl, run_stream_w env T ds ss ckss chunkss = Ok (vs, fl) -> fl = false).
  Proof.
    intros ds ss ckss Hcs Hp. split.
    - intros srcs. split; [apply run_invoke_w_erase; exact Hp|].
      intros v fl H. eapply invoke_source_unmodified; eauto.
    - intros chunkss. split; [apply run_stream_w_erase; exact Hp|].
      intros vs fl H. eapply stream_source_unmodified; eauto.
  Qed.
End RunsOwn.
