(* Proofs/StreamSend.v — property C08, "none of these operations can deadlock", writer side.

   [Hot st t]: reader t has something to hand out now (a stream it selects on holds an item, or
   its place in the shared list of a copy parent is filled, or — at the end of that list — the
   parent's source is hot): the situation in which Recv does not block ([Hot_not_Drained]).
   Main result ([blocked_send_waits_for_reader]): in a reachable state of a legal run in which
   every forwarder goroutine is blocked or finished, a Send of user code that blocks (buffer
   full, receive side open) is waited for by a reader that user code holds, has not closed, and
   that is hot: the blocked writer waits for a *user* reader that is free to act — or some
   forwarder goroutine can take a step.  Together with [no_internal_deadlock] (reader side): the
   goroutines of the library never wait for each other. *)
From Eino Require Import Base.Util Model.Stream Proofs.Stream Proofs.StreamRel Proofs.StreamWf Proofs.StreamClose Proofs.StreamLink Proofs.StreamSem Proofs.StreamEof Proofs.StreamOnce Proofs.StreamRank Proofs.StreamProg Proofs.StreamOwned.
From Coq Require Import Lia Permutation.

Definition nonempty (st : store) (sid : nat) : Prop :=
  exists s, nth_error (streams st) sid = Some s /\ s_buf s <> [].

Inductive Hot (st : store) : rd -> Prop :=
| H_str : forall sid, nonempty st sid -> Hot st (RStr sid)
| H_mul : forall sts ch i sid, In i ch -> nth_error sts i = Some sid -> nonempty st sid -> Hot st (RMul sts ch)
| H_conv : forall f src cin cout, Hot st src -> Hot st (RConv f src cin cout)
| H_child_buf : forall p i P c x,
    nth_error (parents st) p = Some P -> nth_error (p_cur P) i = Some (Some c) ->
    nth_error (p_items P) c = Some x -> Hot st (RChild p i)
| H_child_pull : forall p i P c,
    nth_error (parents st) p = Some P -> nth_error (p_cur P) i = Some (Some c) ->
    nth_error (p_items P) c = None -> p_eof P = false ->
    Hot st (p_src P) -> Hot st (RChild p i).

Definition rd_of_ref (r : ref) : rd := match r with RS sid => RStr sid | RC p i => RChild p i end.

Lemma nonempty_ready : forall st sid, nonempty st sid -> stream_ready st sid = true.
Proof.
  intros st sid (s & Hs & Hb). unfold stream_ready. rewrite Hs. destruct (s_buf s); [congruence|reflexivity].
Qed.

(* a hot reader is not drained: a Recv on it does not park *)
Lemma Hot_not_Drained : forall st t, Hot st t -> Drained st t -> False.
Proof.
  intros st t H. induction H as [sid Hn | sts ch i sid Hi Hs Hn | f src cin cout H IH | p i P c x HP Hc Hx | p i P c HP Hc Hx He H IH]; intros HD; inversion HD; subst.
  - destruct Hn as (s & Hs & Hb). match goal with X : sempty _ _ |- _ => destruct X as (s' & Hs' & Hb' & _) end. congruence.
  - match goal with X : forall i sid, In i ch -> _ |- _ => pose proof (X _ _ Hi Hs) as Hr end.
    rewrite (nonempty_ready _ _ Hn) in Hr. discriminate.
  - auto.
  - match goal with X : nth_error (parents st) p = Some ?Q, Y : nth_error (p_items ?Q) _ = None |- _ =>
      rewrite HP in X; inversion X; subst Q; rewrite Hc in *  end.
    match goal with X : Some (Some _) = Some (Some _) |- _ => inversion X; subst end. congruence.
  - match goal with X : nth_error (parents st) p = Some ?Q, Y : Drained st (p_src ?Q) |- _ =>
      rewrite HP in X; inversion X; subst Q; apply IH; exact Y end.
Qed.

Lemma firstn_all_len : forall A (l : list A) c, firstn c l = l -> List.length l <= c.
Proof.
  induction l as [|a l IH]; intros c H; simpl; [lia|].
  destruct c as [|c]; simpl in H; [discriminate|]. inversion H as [H1]. rewrite H1. apply IH in H1. lia.
Qed.

(* a hot reader has not ended *)
Lemma Hot_not_EofR : forall st fw t, store_ok st -> Hot st t -> EofR st fw t -> False.
Proof.
  intros st fw t Hok H. induction H as [sid Hn | sts ch i sid Hi Hs Hn | f src cin cout H IH | p i P c x HP Hc Hx | p i P c HP Hc Hx He H IH]; intros HE; simpl in HE.
  - destruct Hn as (s & Hs & Hb). destruct HE as (s' & Hs' & _ & Hb' & _). congruence.
  - destruct HE as [E _]. subst ch. inversion Hi.
  - auto.
  - destruct HE as (P0 & HP0 & Hpe & Hg). rewrite HP in HP0. inversion HP0; subst P0.
    destruct Hok as [_ Hpo]. pose proof (Forall_nth_error _ _ _ _ _ Hpo HP) as (Hl & _ & Hch & _).
    assert (Hi : i < List.length (p_got P)) by (rewrite Hl; apply nth_error_Some; congruence).
    destruct (nth_error (p_got P) i) as [g|] eqn:Eg; [|apply nth_error_None in Eg; lia].
    destruct (Hch i _ _ Hc Eg) as (_ & Hcur & _). destruct (Hcur c eq_refl) as [Hgf Hle].
    rewrite (nth_error_nth _ _ [] Eg) in Hg. subst g. symmetry in Hgf. apply firstn_all_len in Hgf.
    assert (nth_error (p_items P) c <> None) by congruence. apply nth_error_Some in H. lia.
  - destruct HE as (P0 & HP0 & Hpe & _). rewrite HP in HP0. inversion HP0; subst P0. congruence.
Qed.

(* a reference of a reader that is hot makes the reader hot (a retired source of a merged
   reader has ended: [mul_ok]) *)
Lemma hot_lift : forall st fw t r, In r (refs t) -> mul_ok st fw t -> Hot st (rd_of_ref r) -> Hot st t.
Proof.
  intros st fw t. induction t as [d rest | s | sts ch | f src IH cin cout | p i]; intros r Hin Hm Hh; simpl in Hin.
  - contradiction.
  - destruct Hin as [<-|[]]. exact Hh.
  - apply in_map_iff in Hin. destruct Hin as (sid & <- & Hs). simpl in Hh. inversion Hh as [sid0 Hn| | | |]; subst.
    destruct (In_nth_error _ _ Hs) as (i & Hi).
    destruct (in_dec Nat.eq_dec i ch) as [Hc|Hc].
    + eapply H_mul; eauto.
    + exfalso. simpl in Hm. destruct (Hm _ _ Hi Hc) as (s & Hs1 & _ & Hb & _).
      destruct Hn as (s' & Hs' & Hb'). congruence.
  - constructor. eapply IH; eauto.
  - destruct Hin as [<-|[]]. exact Hh.
Qed.

Lemma derives_lift : forall G t r u, In r (refs t) -> Derives G (rd_of_ref r) u -> Derives G t u.
Proof.
  intros G t. induction t as [d rest | s | sts ch | f src IH cin cout | p i]; intros r u Hin Hd; simpl in Hin.
  - contradiction.
  - destruct Hin as [<-|[]]. exact Hd.
  - apply in_map_iff in Hin. destruct Hin as (sid & <- & Hs). eapply DV_mul; eauto.
  - constructor. eapply IH; eauto.
  - destruct Hin as [<-|[]]. exact Hd.
Qed.

Lemma send_block_full : forall s x, fst (stream_send s x) = SBlock -> s_buf s <> [] /\ s_rclosed s = 0.
Proof.
  intros s x. unfold stream_send.
  destruct (Nat.ltb 0 (s_rclosed s)) eqn:Er; [simpl; discriminate|].
  destruct (s_sclosed s); [simpl; discriminate|].
  destruct (Nat.ltb (List.length (s_buf s)) (eff_cap (s_cap s))) eqn:El; [simpl; discriminate|]. intros _.
  apply Nat.ltb_ge in El. apply Nat.ltb_ge in Er. split; [|lia].
  intros E. rewrite E in El. simpl in El. unfold eff_cap in El. lia.
Qed.

Lemma count_none_open : forall l, count_none l <> List.length l -> exists j c, nth_error l j = Some (Some c).
Proof.
  induction l as [|a l IH]; intros H; simpl in H; [congruence|].
  destruct a as [c|].
  - exists 0, c. reflexivity.
  - destruct IH as (j & c & Hj); [lia|]. exists (S j), c. exact Hj.
Qed.

Lemma run_pre_impl : forall (P Q : state -> op -> Prop) fuel, (forall G o, P G o -> Q G o) ->
  forall ops G, run_pre P fuel G ops -> run_pre Q fuel G ops.
Proof.
  intros P Q fuel HPQ. induction ops as [|o r IH]; intros G H; simpl in *; auto.
  destruct H as [H1 H2]. split; auto.
Qed.

Lemma legal_run2_legal : forall fuel ops, legal_run2 fuel ops -> legal_run fuel ops.
Proof. intros fuel ops H. eapply run_pre_impl; [|exact H]. intros G o [H1 _]. exact H1. Qed.

Section Up.
  Variables (fuel : nat) (G : state) (rs rp : nat -> nat) (u : nat).
  Hypothesis HI : Inv G.
  Hypothesis HC : kconv G.
  Hypothesis HE : einv G.
  Hypothesis HK : RK rs rp G.
  Hypothesis HV : covers G.
  Hypothesis HB : forall F, In F (st_fwds G) -> fwd_blocked fuel G F.

  Let st := st_store G.
  Let Bd := S (list_max (map (rkr rs rp) (all_refs G))).

  Lemma rk_lt_Bd : forall r, In r (all_refs G) -> rkr rs rp r < Bd.
  Proof. intros r H. unfold Bd. apply Nat.lt_succ_r. apply list_max_ge. apply in_map. exact H. Qed.

  Lemma hot_up : forall n r, In r (all_refs G) -> Bd - rkr rs rp r <= n ->
    Hot st (rd_of_ref r) -> ~ rclosed st r -> Derives G (rd_of_ref r) u ->
    exists h H, nth_error (st_handles G) h = Some H /\ h_live H = true /\ h_closed H = false
                /\ Hot st (h_rd H) /\ Derives G (h_rd H) u.
  Proof.
    destruct HI as (Hok & HW & Hpc & _ & _). destruct HE as (_ & EH & EP & EF).
    destruct HK as [K1 K2]. destruct HV as [V1 V2]. destruct HW as (_ & Wok & Wac & Wfw & _).
    induction n as [|n IH]; intros r Hin Hn Hh Hnc Hd.
    { pose proof (rk_lt_Bd r Hin). clearbody Bd. lia. }
    unfold all_refs in Hin. apply in_app_or in Hin. destruct Hin as [Hin|Hin]; [|apply in_app_or in Hin; destruct Hin as [Hin|Hin]].
    - (* owned by a reader that user code holds *)
      apply in_flat_map in Hin. destruct Hin as (H & HinH & Hr).
      destruct (In_nth_error _ _ HinH) as (h & Hh0).
      unfold hrefs in Hr. destruct (h_live H) eqn:Hlv; [|contradiction].
      destruct (EH h H Hh0 Hlv) as [Hm _].
      exists h, H. split; [exact Hh0|]. split; [exact Hlv|]. split.
      + destruct (h_closed H) eqn:Hcl; auto. exfalso. apply Hnc. apply (HC (RtH h) r).
        * simpl. eauto.
        * simpl. rewrite Hh0. unfold hrefs. rewrite Hlv. exact Hr.
      + split; [eapply hot_lift; eauto | eapply derives_lift; eauto].
    - (* owned by a copy parent: one of its open children is hot *)
      unfold prefs in Hin. apply in_flat_map in Hin. destruct Hin as (Q & HinQ & Hr).
      destruct (In_nth_error _ _ HinQ) as (q & HQ). fold st in HQ.
      destruct (EP q Q HQ) as [Hm Heof].
      assert (HhQ : Hot st (p_src Q)) by (eapply hot_lift; eauto).
      assert (HdQ : Derives G (p_src Q) u) by (eapply derives_lift; eauto).
      assert (Hopen : exists j c, nth_error (p_cur Q) j = Some (Some c)).
      { apply count_none_open. intros E. apply Hnc. apply (HC (RtP q) r).
        - simpl. exists Q. split; [exact HQ|]. unfold all_closed. rewrite (Hpc _ _ HQ). exact E.
        - simpl. fold st. rewrite HQ. exact Hr. }
      destruct Hopen as (j & c & Hj).
      assert (Hjl : j < List.length (p_cur Q)) by (apply nth_error_Some; congruence).
      apply (IH (RC q j)).
      + apply (V2 q Q j HQ Hjl).
      + pose proof (K2 q Q HQ) as Hrk. rewrite Forall_forall in Hrk. specialize (Hrk r Hr).
        pose proof (rk_lt_Bd (RC q j) (V2 q Q j HQ Hjl)) as Hlt.
        change (rkr rs rp (RC q j)) with (rp q) in *. clearbody Bd. lia.
      + simpl. destruct (nth_error (p_items Q) c) as [x|] eqn:Ex.
        * eapply H_child_buf; eauto.
        * eapply H_child_pull; eauto. destruct (p_eof Q) eqn:Epe; auto. exfalso.
          eapply Hot_not_EofR; [exact (proj1 Hok) | exact HhQ | apply Heof; reflexivity].
      + simpl. intros (Q0 & HQ0 & Hc0). fold st in HQ0. rewrite HQ in HQ0. inversion HQ0; subst Q0. congruence.
      + simpl. eapply DV_child; eauto.
    - (* owned by a forwarder goroutine *)
      unfold frefs in Hin. apply in_flat_map in Hin. destruct Hin as (F & HinF & Hr).
      destruct (In_nth_error _ _ HinF) as (k & HF).
      destruct (EF k F HF) as [Hm _].
      assert (HhF : Hot st (f_src F)) by (eapply hot_lift; eauto).
      assert (HdF : Derives G (f_src F) u) by (eapply derives_lift; eauto).
      pose proof (HB F HinF) as Hbl. unfold fwd_blocked in Hbl.
      destruct (f_st F) as [|x| |] eqn:Est.
      + (* parked in Recv: impossible, its source is hot *)
        exfalso. destruct Hbl as (ch & ch1 & Hrecv). apply recv_Recv in Hrecv.
        eapply Hot_not_Drained; [exact HhF|]. eapply Recv_block_drained; eauto.
      + (* parked in Send: its destination is full *)
        destruct Hbl as (d & Hd0 & Hsb). destruct (send_block_full _ _ Hsb) as [Hne Hrc].
        assert (Hdl : f_dst F < List.length (streams st)) by (apply nth_error_Some; fold st; unfold st; congruence).
        apply (IH (RS (f_dst F))).
        * apply V1. exact Hdl.
        * pose proof (K1 F HinF) as Hrk. rewrite Forall_forall in Hrk. specialize (Hrk r Hr).
          pose proof (rk_lt_Bd (RS (f_dst F)) (V1 _ Hdl)) as Hlt.
          change (rkr rs rp (RS (f_dst F))) with (rs (f_dst F)) in *. clearbody Bd. lia.
        * simpl. constructor. exists d. split; auto.
        * simpl. intros (d0 & Hd1 & Hc1). fold st in Hd1. unfold st in Hd1. rewrite Hd0 in Hd1. inversion Hd1; subst d0. lia.
        * simpl. eapply DV_fwd; eauto.
      + contradiction.
      + exfalso. apply Hnc. apply (HC (RtF k) r).
        * simpl. eauto.
        * simpl. rewrite HF. exact Hr.
  Qed.
End Up.

(* the writer side of deadlock freedom *)
Lemma run_blocked_send_waits : forall fuel ops bs G,
  run fuel init_state ops = (bs, G) -> legal_run2 fuel ops ->
  (forall F, In F (st_fwds G) -> fwd_blocked fuel G F) ->
  forall u s x, nth_error (streams (st_store G)) u = Some s -> s_user s = true ->
    fst (stream_send s x) = SBlock ->
    exists h H, nth_error (st_handles G) h = Some H /\ h_live H = true /\ h_closed H = false
                /\ Hot (st_store G) (h_rd H) /\ Derives G (h_rd H) u.
Proof.
  intros fuel ops bs G Hrun Hleg HB u s x Hs Hu Hsb.
  destruct (run_close _ _ _ _ _ Hrun Hleg init_Inv init_rcl1 init_psc init_kconv) as (HI & _ & _ & HC & _).
  destruct (run_legal_einv _ _ _ _ Hrun (legal_run2_legal _ _ Hleg)) as [_ HE].
  destruct (reachable_ranked _ _ _ _ Hrun) as (rs & rp & HK).
  pose proof (reachable_covers _ _ _ _ Hrun) as HV.
  destruct (send_block_full _ _ Hsb) as [Hne Hrc].
  assert (Hul : u < List.length (streams (st_store G))) by (apply nth_error_Some; congruence).
  eapply (hot_up fuel G rs rp u HI HC HE HK HV HB _ (RS u)).
  - destruct HV as [V1 _]. apply V1. exact Hul.
  - apply Nat.le_refl.
  - simpl. constructor. exists s. split; auto.
  - simpl. intros (s0 & Hs0 & Hc0). rewrite Hs in Hs0. inversion Hs0; subst s0. lia.
  - simpl. eapply DV_user; eauto.
Qed.

(* what "hot" means for the one who holds the reader: a Recv on a hot reader that nevertheless
   parks (a converted reader that skipped everything it found) has consumed what made it hot —
   afterwards the reader is drained, not hot *)
Lemma run_hot_recv_consumes : forall fuel ops bs G, run fuel init_state ops = (bs, G) ->
  forall h ch G', do_op fuel G (ORecv h ch) = (BRecv PBlock, G') ->
  exists H', nth_error (st_handles G') h = Some H' /\ h_live H' = true /\ ~ Hot (st_store G') (h_rd H').
Proof.
  intros fuel ops bs G Hrun h ch G' H.
  destruct (run_recv_block_drained _ _ _ _ Hrun _ _ _ H) as (H' & A & B & C).
  exists H'. split; [exact A|]. split; [exact B|]. intros Hh. eapply Hot_not_Drained; eauto.
Qed.
