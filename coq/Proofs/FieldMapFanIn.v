(* Proofs/FieldMapFanIn.v — the fan-in of a workflow node hands the per-predecessor maps of mapped
   values to the merge in the iteration order of a Go map (dagChannel.get collects ch.Values): for an
   accepted set of declarations the order does not matter. *)
From Coq Require Import Permutation.
From Eino Require Import Base.Util Base.FMUniverse Model.FieldMap
  Proofs.FieldMapOverlap Proofs.FieldMapAssign Proofs.FieldMapComm Proofs.FieldMapRun.

Section FanIn.
  Variable env : senv.
  Variable T : ty.

  (* the map of static values is merged after the fan-in (pre-node handler) *)
  Definition statics_tail (ss : statics) : list fmap := match ss with [] => [] | _ => [ss] end.

  (* the request-time pipeline of an accepted node with the predecessors' maps in the order [ms] *)
  Definition merge_convert (ms : list fmap) (ss : statics) : res val :=
    do m <- merge_maps (ms ++ statics_tail ss) []; convert_to env T m.

  Lemma run_invoke_s_merge_convert : forall ds ss ckss srcs,
    has_plain ds = false ->
    run_invoke_s env T ds ss ckss srcs = do ms <- edges_out env ds ckss srcs; merge_convert ms ss.
  Proof.
    intros ds ss ckss srcs Hp. unfold run_invoke_s, merge_convert, run_invoke. rewrite Hp.
    destruct ss as [|s0 ss0]; cbn [statics_tail].
    - destruct (edges_out env ds ckss srcs); cbn; [rewrite app_nil_r|..]; reflexivity.
    - reflexivity.
  Qed.

  Lemma merge_into_nodup : forall m acc, NoDup (keys (acc ++ m)) -> merge_into m acc = Ok (acc ++ m).
  Proof.
    induction m as [|[k x] m IHm]; intros acc Hn; simpl; [rewrite app_nil_r; reflexivity|].
    rewrite fm_get_none.
    - rewrite IHm; [rewrite <- app_assoc; reflexivity | rewrite <- app_assoc; exact Hn].
    - unfold keys in Hn. rewrite map_app in Hn. simpl in Hn. apply NoDup_remove_2 in Hn.
      intro Hin. apply Hn. apply in_or_app. left. exact Hin.
  Qed.

  Lemma merge_maps_nodup : forall ms acc, NoDup (keys (acc ++ List.concat ms)) -> merge_maps ms acc = Ok (acc ++ List.concat ms).
  Proof.
    induction ms as [|m ms IHms]; intros acc Hn; simpl; [rewrite app_nil_r; reflexivity|].
    simpl in Hn. rewrite merge_into_nodup.
    - simpl. rewrite IHms; [rewrite <- app_assoc; reflexivity | rewrite <- app_assoc; exact Hn].
    - rewrite app_assoc in Hn. unfold keys in *. rewrite map_app in Hn. apply nodup_app_l in Hn. exact Hn.
  Qed.

  Lemma concat_perm : forall (ms ms' : list fmap), Permutation ms ms' -> Permutation (List.concat ms) (List.concat ms').
  Proof.
    intros ms ms' HP. induction HP; simpl.
    - constructor.
    - apply Permutation_app_head. exact IHHP.
    - rewrite !app_assoc. apply Permutation_app_tail. apply Permutation_app_comm.
    - eapply Permutation_trans; eauto.
  Qed.

  (* whatever order the predecessors' maps arrive in at the merge, the node's input is the one
     [run_invoke_s] computes (which merges them in declaration order) *)
  Theorem fanin_order_independent : forall ds ss ckss srcs ms ms',
    compile_s env T ds ss = CAccept ckss -> has_plain ds = false ->
    Forall2 (fun d s => has_type env (d_ty d) s = true) ds srcs ->
    edges_out env ds ckss srcs = Ok ms ->
    Permutation ms ms' ->
    merge_convert ms' ss = run_invoke_s env T ds ss ckss srcs.
  Proof.
    intros ds ss ckss srcs ms ms' Hcs Hp Ht Eo HP.
    rewrite run_invoke_s_merge_convert by exact Hp. rewrite Eo. cbn.
    destruct (compile_s_inv env T ds ss ckss Hcs) as [Hc Hs].
    pose proof (has_plain_false _ Hp) as Hnp.
    pose proof (compile_no_conflict _ _ _ _ Hc) as Hncd.
    pose proof (compile_from_valid env T ds (Node []) ckss Hnp Hc) as Hv.
    pose proof (edges_out_rel env T ds ckss srcs ms Hv Ht (no_conflict_decl ds Hnp Hncd) Eo) as Hrel.
    pose proof (edges_rel_keys env T ds srcs ms Hnp Hrel) as Hk.
    assert (Hnc : no_conflict (keys (List.concat (ms ++ statics_tail ss)))).
    { rewrite concat_app. unfold keys in *. rewrite map_app, Hk.
      destruct Hs as [->|[Hnc _]]; cbn [statics_tail List.concat map].
      - rewrite app_nil_r. exact Hncd.
      - destruct ss; cbn [statics_tail List.concat map]; [rewrite app_nil_r; exact Hncd|].
        rewrite app_nil_r. exact Hnc. }
    assert (HP' : Permutation (List.concat (ms ++ statics_tail ss)) (List.concat (ms' ++ statics_tail ss))).
    { apply concat_perm. apply Permutation_app_tail. exact HP. }
    assert (Hnc' : no_conflict (keys (List.concat (ms' ++ statics_tail ss)))).
    { eapply no_conflict_perm; [|exact Hnc]. unfold keys. apply Permutation_map. exact HP'. }
    unfold merge_convert.
    rewrite (merge_maps_nodup (ms ++ statics_tail ss) []) by (apply no_conflict_NoDup; exact Hnc).
    rewrite (merge_maps_nodup (ms' ++ statics_tail ss) []) by (apply no_conflict_NoDup; exact Hnc').
    cbn. apply convert_to_perm; [apply Permutation_sym; exact HP'|exact Hnc'].
  Qed.
End FanIn.
